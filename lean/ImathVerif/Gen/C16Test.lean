-- GENERATED from /repo/src/Imath by harness/sym (T = Sym path extraction); do not edit.
import ImathVerif.Basic.Types
import ImathVerif.Gen.C16PlanesM
set_option linter.unusedVariables false
namespace ImathVerif.Gen
open ImathVerif

/-- extracted from the C++ template at T = Sym; 1 path(s) -/
def FrustumTest.setFrustum_persp {α : Type} [Add α] [Sub α] [Mul α] [Div α] [Neg α] [LT α] [LE α] [DecidableLT α] [DecidableLE α] [DecidableEq α] [OfNat α 0] [OfNat α 2] (tmin : α) (sqrt : α → α) (n : α) (f : α) (l : α) (r : α) (t : α) (b : α) (M : M44 α) : ((V3 α) × (V3 α) × (V3 α) × (V3 α) × (V3 α) × (V3 α) × (V3 α) × (V3 α) × (V3 α) × (V3 α) × (V3 α) × (V3 α) × (V3 α) × (V3 α)) :=
  let t391 := (Frustum.planesM_persp_0 tmin sqrt n f l r t b ⟨M.x00, M.x01, M.x02, M.x03, M.x10, M.x11, M.x12, M.x13, M.x20, M.x21, M.x22, M.x23, M.x30, M.x31, M.x32, M.x33⟩)
  let t396 := (Frustum.planesM_persp_1 tmin sqrt n f l r t b ⟨M.x00, M.x01, M.x02, M.x03, M.x10, M.x11, M.x12, M.x13, M.x20, M.x21, M.x22, M.x23, M.x30, M.x31, M.x32, M.x33⟩)
  let t401 := (Frustum.planesM_persp_2 tmin sqrt n f l r t b ⟨M.x00, M.x01, M.x02, M.x03, M.x10, M.x11, M.x12, M.x13, M.x20, M.x21, M.x22, M.x23, M.x30, M.x31, M.x32, M.x33⟩)
  let t406 := (Frustum.planesM_persp_3 tmin sqrt n f l r t b ⟨M.x00, M.x01, M.x02, M.x03, M.x10, M.x11, M.x12, M.x13, M.x20, M.x21, M.x22, M.x23, M.x30, M.x31, M.x32, M.x33⟩)
  let t411 := (Frustum.planesM_persp_4 tmin sqrt n f l r t b ⟨M.x00, M.x01, M.x02, M.x03, M.x10, M.x11, M.x12, M.x13, M.x20, M.x21, M.x22, M.x23, M.x30, M.x31, M.x32, M.x33⟩)
  let t416 := (Frustum.planesM_persp_5 tmin sqrt n f l r t b ⟨M.x00, M.x01, M.x02, M.x03, M.x10, M.x11, M.x12, M.x13, M.x20, M.x21, M.x22, M.x23, M.x30, M.x31, M.x32, M.x33⟩)
  (⟨(t391).normal.x, (t396).normal.x, (t401).normal.x⟩, ⟨(t406).normal.x, (t411).normal.x, (t416).normal.x⟩, ⟨(t391).normal.y, (t396).normal.y, (t401).normal.y⟩, ⟨(t406).normal.y, (t411).normal.y, (t416).normal.y⟩, ⟨(t391).normal.z, (t396).normal.z, (t401).normal.z⟩, ⟨(t406).normal.z, (t411).normal.z, (t416).normal.z⟩, ⟨(t391).distance, (t396).distance, (t401).distance⟩, ⟨(t406).distance, (t411).distance, (t416).distance⟩, ⟨((sabs (t391).normal.x) + (0 : α)), ((sabs (t396).normal.x) + (0 : α)), ((sabs (t401).normal.x) + (0 : α))⟩, ⟨((sabs (t406).normal.x) + (0 : α)), ((sabs (t411).normal.x) + (0 : α)), ((sabs (t416).normal.x) + (0 : α))⟩, ⟨((sabs (t391).normal.y) + (0 : α)), ((sabs (t396).normal.y) + (0 : α)), ((sabs (t401).normal.y) + (0 : α))⟩, ⟨((sabs (t406).normal.y) + (0 : α)), ((sabs (t411).normal.y) + (0 : α)), ((sabs (t416).normal.y) + (0 : α))⟩, ⟨((sabs (t391).normal.z) + (0 : α)), ((sabs (t396).normal.z) + (0 : α)), ((sabs (t401).normal.z) + (0 : α))⟩, ⟨((sabs (t406).normal.z) + (0 : α)), ((sabs (t411).normal.z) + (0 : α)), ((sabs (t416).normal.z) + (0 : α))⟩)

/-- extracted from the C++ template at T = Sym; 7 path(s) -/
def FrustumTest.isVisiblePoint_persp {α : Type} [Add α] [Sub α] [Mul α] [Div α] [Neg α] [LT α] [LE α] [DecidableLT α] [DecidableLE α] [DecidableEq α] [OfNat α 0] [OfNat α 2] (tmin : α) (sqrt : α → α) (n : α) (f : α) (l : α) (r : α) (t : α) (b : α) (M : M44 α) (v : V3 α) : Bool :=
  let t391 := (Frustum.planesM_persp_0 tmin sqrt n f l r t b ⟨M.x00, M.x01, M.x02, M.x03, M.x10, M.x11, M.x12, M.x13, M.x20, M.x21, M.x22, M.x23, M.x30, M.x31, M.x32, M.x33⟩)
  let t396 := (Frustum.planesM_persp_1 tmin sqrt n f l r t b ⟨M.x00, M.x01, M.x02, M.x03, M.x10, M.x11, M.x12, M.x13, M.x20, M.x21, M.x22, M.x23, M.x30, M.x31, M.x32, M.x33⟩)
  let t401 := (Frustum.planesM_persp_2 tmin sqrt n f l r t b ⟨M.x00, M.x01, M.x02, M.x03, M.x10, M.x11, M.x12, M.x13, M.x20, M.x21, M.x22, M.x23, M.x30, M.x31, M.x32, M.x33⟩)
  let t406 := (Frustum.planesM_persp_3 tmin sqrt n f l r t b ⟨M.x00, M.x01, M.x02, M.x03, M.x10, M.x11, M.x12, M.x13, M.x20, M.x21, M.x22, M.x23, M.x30, M.x31, M.x32, M.x33⟩)
  let t411 := (Frustum.planesM_persp_4 tmin sqrt n f l r t b ⟨M.x00, M.x01, M.x02, M.x03, M.x10, M.x11, M.x12, M.x13, M.x20, M.x21, M.x22, M.x23, M.x30, M.x31, M.x32, M.x33⟩)
  let t416 := (Frustum.planesM_persp_5 tmin sqrt n f l r t b ⟨M.x00, M.x01, M.x02, M.x03, M.x10, M.x11, M.x12, M.x13, M.x20, M.x21, M.x22, M.x23, M.x30, M.x31, M.x32, M.x33⟩)
  let t475 := (((((t401).normal.x * v.x) + ((t401).normal.y * v.y)) + ((t401).normal.z * v.z)) - (t401).distance)
  let t476 := (((((t396).normal.x * v.x) + ((t396).normal.y * v.y)) + ((t396).normal.z * v.z)) - (t396).distance)
  let t477 := (((((t391).normal.x * v.x) + ((t391).normal.y * v.y)) + ((t391).normal.z * v.z)) - (t391).distance)
  let t493 := (((((t416).normal.x * v.x) + ((t416).normal.y * v.y)) + ((t416).normal.z * v.z)) - (t416).distance)
  let t494 := (((((t411).normal.x * v.x) + ((t411).normal.y * v.y)) + ((t411).normal.z * v.z)) - (t411).distance)
  let t495 := (((((t406).normal.x * v.x) + ((t406).normal.y * v.y)) + ((t406).normal.z * v.z)) - (t406).distance)
  if (0 : α) ≤ t477 then
    false
  else
    if (0 : α) ≤ t476 then
      false
    else
      if (0 : α) ≤ t475 then
        false
      else
        if (0 : α) ≤ t495 then
          false
        else
          if (0 : α) ≤ t494 then
            false
          else
            if (0 : α) ≤ t493 then
              false
            else
              true

/-- extracted from the C++ template at T = Sym; 7 path(s) -/
def FrustumTest.isVisibleSphere_persp {α : Type} [Add α] [Sub α] [Mul α] [Div α] [Neg α] [LT α] [LE α] [DecidableLT α] [DecidableLE α] [DecidableEq α] [OfNat α 0] [OfNat α 2] (tmin : α) (sqrt : α → α) (n : α) (f : α) (l : α) (r : α) (t : α) (b : α) (M : M44 α) (s : Sphere3 α) : Bool :=
  let t391 := (Frustum.planesM_persp_0 tmin sqrt n f l r t b ⟨M.x00, M.x01, M.x02, M.x03, M.x10, M.x11, M.x12, M.x13, M.x20, M.x21, M.x22, M.x23, M.x30, M.x31, M.x32, M.x33⟩)
  let t396 := (Frustum.planesM_persp_1 tmin sqrt n f l r t b ⟨M.x00, M.x01, M.x02, M.x03, M.x10, M.x11, M.x12, M.x13, M.x20, M.x21, M.x22, M.x23, M.x30, M.x31, M.x32, M.x33⟩)
  let t401 := (Frustum.planesM_persp_2 tmin sqrt n f l r t b ⟨M.x00, M.x01, M.x02, M.x03, M.x10, M.x11, M.x12, M.x13, M.x20, M.x21, M.x22, M.x23, M.x30, M.x31, M.x32, M.x33⟩)
  let t406 := (Frustum.planesM_persp_3 tmin sqrt n f l r t b ⟨M.x00, M.x01, M.x02, M.x03, M.x10, M.x11, M.x12, M.x13, M.x20, M.x21, M.x22, M.x23, M.x30, M.x31, M.x32, M.x33⟩)
  let t411 := (Frustum.planesM_persp_4 tmin sqrt n f l r t b ⟨M.x00, M.x01, M.x02, M.x03, M.x10, M.x11, M.x12, M.x13, M.x20, M.x21, M.x22, M.x23, M.x30, M.x31, M.x32, M.x33⟩)
  let t416 := (Frustum.planesM_persp_5 tmin sqrt n f l r t b ⟨M.x00, M.x01, M.x02, M.x03, M.x10, M.x11, M.x12, M.x13, M.x20, M.x21, M.x22, M.x23, M.x30, M.x31, M.x32, M.x33⟩)
  let t518 := ((((((t401).normal.x * s.center.x) + ((t401).normal.y * s.center.y)) + ((t401).normal.z * s.center.z)) - s.radius) - (t401).distance)
  let t519 := ((((((t396).normal.x * s.center.x) + ((t396).normal.y * s.center.y)) + ((t396).normal.z * s.center.z)) - s.radius) - (t396).distance)
  let t520 := ((((((t391).normal.x * s.center.x) + ((t391).normal.y * s.center.y)) + ((t391).normal.z * s.center.z)) - s.radius) - (t391).distance)
  let t539 := ((((((t416).normal.x * s.center.x) + ((t416).normal.y * s.center.y)) + ((t416).normal.z * s.center.z)) - s.radius) - (t416).distance)
  let t540 := ((((((t411).normal.x * s.center.x) + ((t411).normal.y * s.center.y)) + ((t411).normal.z * s.center.z)) - s.radius) - (t411).distance)
  let t541 := ((((((t406).normal.x * s.center.x) + ((t406).normal.y * s.center.y)) + ((t406).normal.z * s.center.z)) - s.radius) - (t406).distance)
  if (0 : α) ≤ t520 then
    false
  else
    if (0 : α) ≤ t519 then
      false
    else
      if (0 : α) ≤ t518 then
        false
      else
        if (0 : α) ≤ t541 then
          false
        else
          if (0 : α) ≤ t540 then
            false
          else
            if (0 : α) ≤ t539 then
              false
            else
              true

/-- extracted from the C++ template at T = Sym; 10 path(s) -/
def FrustumTest.isVisibleBox_persp {α : Type} [Add α] [Sub α] [Mul α] [Div α] [Neg α] [LT α] [LE α] [DecidableLT α] [DecidableLE α] [DecidableEq α] [OfNat α 0] [OfNat α 2] (tmin : α) (sqrt : α → α) (n : α) (f : α) (l : α) (r : α) (t : α) (b : α) (M : M44 α) (bx : Box3 α) : Bool :=
  let t391 := (Frustum.planesM_persp_0 tmin sqrt n f l r t b ⟨M.x00, M.x01, M.x02, M.x03, M.x10, M.x11, M.x12, M.x13, M.x20, M.x21, M.x22, M.x23, M.x30, M.x31, M.x32, M.x33⟩)
  let t396 := (Frustum.planesM_persp_1 tmin sqrt n f l r t b ⟨M.x00, M.x01, M.x02, M.x03, M.x10, M.x11, M.x12, M.x13, M.x20, M.x21, M.x22, M.x23, M.x30, M.x31, M.x32, M.x33⟩)
  let t401 := (Frustum.planesM_persp_2 tmin sqrt n f l r t b ⟨M.x00, M.x01, M.x02, M.x03, M.x10, M.x11, M.x12, M.x13, M.x20, M.x21, M.x22, M.x23, M.x30, M.x31, M.x32, M.x33⟩)
  let t406 := (Frustum.planesM_persp_3 tmin sqrt n f l r t b ⟨M.x00, M.x01, M.x02, M.x03, M.x10, M.x11, M.x12, M.x13, M.x20, M.x21, M.x22, M.x23, M.x30, M.x31, M.x32, M.x33⟩)
  let t411 := (Frustum.planesM_persp_4 tmin sqrt n f l r t b ⟨M.x00, M.x01, M.x02, M.x03, M.x10, M.x11, M.x12, M.x13, M.x20, M.x21, M.x22, M.x23, M.x30, M.x31, M.x32, M.x33⟩)
  let t416 := (Frustum.planesM_persp_5 tmin sqrt n f l r t b ⟨M.x00, M.x01, M.x02, M.x03, M.x10, M.x11, M.x12, M.x13, M.x20, M.x21, M.x22, M.x23, M.x30, M.x31, M.x32, M.x33⟩)
  let t553 := ((bx.min.z + bx.max.z) / (2 : α))
  let t554 := ((bx.min.y + bx.max.y) / (2 : α))
  let t555 := ((bx.min.x + bx.max.x) / (2 : α))
  let t556 := (bx.max.z - t553)
  let t557 := (bx.max.y - t554)
  let t558 := (bx.max.x - t555)
  let t592 := ((((((((t401).normal.x * t555) + ((t401).normal.y * t554)) + ((t401).normal.z * t553)) - ((sabs (t401).normal.x) * t558)) - ((sabs (t401).normal.y) * t557)) - ((sabs (t401).normal.z) * t556)) - (t401).distance)
  let t593 := ((((((((t396).normal.x * t555) + ((t396).normal.y * t554)) + ((t396).normal.z * t553)) - ((sabs (t396).normal.x) * t558)) - ((sabs (t396).normal.y) * t557)) - ((sabs (t396).normal.z) * t556)) - (t396).distance)
  let t594 := ((((((((t391).normal.x * t555) + ((t391).normal.y * t554)) + ((t391).normal.z * t553)) - ((sabs (t391).normal.x) * t558)) - ((sabs (t391).normal.y) * t557)) - ((sabs (t391).normal.z) * t556)) - (t391).distance)
  let t628 := ((((((((t416).normal.x * t555) + ((t416).normal.y * t554)) + ((t416).normal.z * t553)) - ((sabs (t416).normal.x) * t558)) - ((sabs (t416).normal.y) * t557)) - ((sabs (t416).normal.z) * t556)) - (t416).distance)
  let t629 := ((((((((t411).normal.x * t555) + ((t411).normal.y * t554)) + ((t411).normal.z * t553)) - ((sabs (t411).normal.x) * t558)) - ((sabs (t411).normal.y) * t557)) - ((sabs (t411).normal.z) * t556)) - (t411).distance)
  let t630 := ((((((((t406).normal.x * t555) + ((t406).normal.y * t554)) + ((t406).normal.z * t553)) - ((sabs (t406).normal.x) * t558)) - ((sabs (t406).normal.y) * t557)) - ((sabs (t406).normal.z) * t556)) - (t406).distance)
  if bx.max.x < bx.min.x then
    false
  else
    if bx.max.y < bx.min.y then
      false
    else
      if bx.max.z < bx.min.z then
        false
      else
        if (0 : α) ≤ t594 then
          false
        else
          if (0 : α) ≤ t593 then
            false
          else
            if (0 : α) ≤ t592 then
              false
            else
              if (0 : α) ≤ t630 then
                false
              else
                if (0 : α) ≤ t629 then
                  false
                else
                  if (0 : α) ≤ t628 then
                    false
                  else
                    true

/-- extracted from the C++ template at T = Sym; 7 path(s) -/
def FrustumTest.completelyContainsSphere_persp {α : Type} [Add α] [Sub α] [Mul α] [Div α] [Neg α] [LT α] [LE α] [DecidableLT α] [DecidableLE α] [DecidableEq α] [OfNat α 0] [OfNat α 2] (tmin : α) (sqrt : α → α) (n : α) (f : α) (l : α) (r : α) (t : α) (b : α) (M : M44 α) (s : Sphere3 α) : Bool :=
  let t391 := (Frustum.planesM_persp_0 tmin sqrt n f l r t b ⟨M.x00, M.x01, M.x02, M.x03, M.x10, M.x11, M.x12, M.x13, M.x20, M.x21, M.x22, M.x23, M.x30, M.x31, M.x32, M.x33⟩)
  let t396 := (Frustum.planesM_persp_1 tmin sqrt n f l r t b ⟨M.x00, M.x01, M.x02, M.x03, M.x10, M.x11, M.x12, M.x13, M.x20, M.x21, M.x22, M.x23, M.x30, M.x31, M.x32, M.x33⟩)
  let t401 := (Frustum.planesM_persp_2 tmin sqrt n f l r t b ⟨M.x00, M.x01, M.x02, M.x03, M.x10, M.x11, M.x12, M.x13, M.x20, M.x21, M.x22, M.x23, M.x30, M.x31, M.x32, M.x33⟩)
  let t406 := (Frustum.planesM_persp_3 tmin sqrt n f l r t b ⟨M.x00, M.x01, M.x02, M.x03, M.x10, M.x11, M.x12, M.x13, M.x20, M.x21, M.x22, M.x23, M.x30, M.x31, M.x32, M.x33⟩)
  let t411 := (Frustum.planesM_persp_4 tmin sqrt n f l r t b ⟨M.x00, M.x01, M.x02, M.x03, M.x10, M.x11, M.x12, M.x13, M.x20, M.x21, M.x22, M.x23, M.x30, M.x31, M.x32, M.x33⟩)
  let t416 := (Frustum.planesM_persp_5 tmin sqrt n f l r t b ⟨M.x00, M.x01, M.x02, M.x03, M.x10, M.x11, M.x12, M.x13, M.x20, M.x21, M.x22, M.x23, M.x30, M.x31, M.x32, M.x33⟩)
  let t634 := ((((((t401).normal.x * s.center.x) + ((t401).normal.y * s.center.y)) + ((t401).normal.z * s.center.z)) + s.radius) - (t401).distance)
  let t635 := ((((((t396).normal.x * s.center.x) + ((t396).normal.y * s.center.y)) + ((t396).normal.z * s.center.z)) + s.radius) - (t396).distance)
  let t636 := ((((((t391).normal.x * s.center.x) + ((t391).normal.y * s.center.y)) + ((t391).normal.z * s.center.z)) + s.radius) - (t391).distance)
  let t640 := ((((((t416).normal.x * s.center.x) + ((t416).normal.y * s.center.y)) + ((t416).normal.z * s.center.z)) + s.radius) - (t416).distance)
  let t641 := ((((((t411).normal.x * s.center.x) + ((t411).normal.y * s.center.y)) + ((t411).normal.z * s.center.z)) + s.radius) - (t411).distance)
  let t642 := ((((((t406).normal.x * s.center.x) + ((t406).normal.y * s.center.y)) + ((t406).normal.z * s.center.z)) + s.radius) - (t406).distance)
  if (0 : α) ≤ t636 then
    false
  else
    if (0 : α) ≤ t635 then
      false
    else
      if (0 : α) ≤ t634 then
        false
      else
        if (0 : α) ≤ t642 then
          false
        else
          if (0 : α) ≤ t641 then
            false
          else
            if (0 : α) ≤ t640 then
              false
            else
              true

/-- extracted from the C++ template at T = Sym; 10 path(s) -/
def FrustumTest.completelyContainsBox_persp {α : Type} [Add α] [Sub α] [Mul α] [Div α] [Neg α] [LT α] [LE α] [DecidableLT α] [DecidableLE α] [DecidableEq α] [OfNat α 0] [OfNat α 2] (tmin : α) (sqrt : α → α) (n : α) (f : α) (l : α) (r : α) (t : α) (b : α) (M : M44 α) (bx : Box3 α) : Bool :=
  let t391 := (Frustum.planesM_persp_0 tmin sqrt n f l r t b ⟨M.x00, M.x01, M.x02, M.x03, M.x10, M.x11, M.x12, M.x13, M.x20, M.x21, M.x22, M.x23, M.x30, M.x31, M.x32, M.x33⟩)
  let t396 := (Frustum.planesM_persp_1 tmin sqrt n f l r t b ⟨M.x00, M.x01, M.x02, M.x03, M.x10, M.x11, M.x12, M.x13, M.x20, M.x21, M.x22, M.x23, M.x30, M.x31, M.x32, M.x33⟩)
  let t401 := (Frustum.planesM_persp_2 tmin sqrt n f l r t b ⟨M.x00, M.x01, M.x02, M.x03, M.x10, M.x11, M.x12, M.x13, M.x20, M.x21, M.x22, M.x23, M.x30, M.x31, M.x32, M.x33⟩)
  let t406 := (Frustum.planesM_persp_3 tmin sqrt n f l r t b ⟨M.x00, M.x01, M.x02, M.x03, M.x10, M.x11, M.x12, M.x13, M.x20, M.x21, M.x22, M.x23, M.x30, M.x31, M.x32, M.x33⟩)
  let t411 := (Frustum.planesM_persp_4 tmin sqrt n f l r t b ⟨M.x00, M.x01, M.x02, M.x03, M.x10, M.x11, M.x12, M.x13, M.x20, M.x21, M.x22, M.x23, M.x30, M.x31, M.x32, M.x33⟩)
  let t416 := (Frustum.planesM_persp_5 tmin sqrt n f l r t b ⟨M.x00, M.x01, M.x02, M.x03, M.x10, M.x11, M.x12, M.x13, M.x20, M.x21, M.x22, M.x23, M.x30, M.x31, M.x32, M.x33⟩)
  let t553 := ((bx.min.z + bx.max.z) / (2 : α))
  let t554 := ((bx.min.y + bx.max.y) / (2 : α))
  let t555 := ((bx.min.x + bx.max.x) / (2 : α))
  let t556 := (bx.max.z - t553)
  let t557 := (bx.max.y - t554)
  let t558 := (bx.max.x - t555)
  let t652 := ((((((((t401).normal.x * t555) + ((t401).normal.y * t554)) + ((t401).normal.z * t553)) + ((sabs (t401).normal.x) * t558)) + ((sabs (t401).normal.y) * t557)) + ((sabs (t401).normal.z) * t556)) - (t401).distance)
  let t653 := ((((((((t396).normal.x * t555) + ((t396).normal.y * t554)) + ((t396).normal.z * t553)) + ((sabs (t396).normal.x) * t558)) + ((sabs (t396).normal.y) * t557)) + ((sabs (t396).normal.z) * t556)) - (t396).distance)
  let t654 := ((((((((t391).normal.x * t555) + ((t391).normal.y * t554)) + ((t391).normal.z * t553)) + ((sabs (t391).normal.x) * t558)) + ((sabs (t391).normal.y) * t557)) + ((sabs (t391).normal.z) * t556)) - (t391).distance)
  let t664 := ((((((((t416).normal.x * t555) + ((t416).normal.y * t554)) + ((t416).normal.z * t553)) + ((sabs (t416).normal.x) * t558)) + ((sabs (t416).normal.y) * t557)) + ((sabs (t416).normal.z) * t556)) - (t416).distance)
  let t665 := ((((((((t411).normal.x * t555) + ((t411).normal.y * t554)) + ((t411).normal.z * t553)) + ((sabs (t411).normal.x) * t558)) + ((sabs (t411).normal.y) * t557)) + ((sabs (t411).normal.z) * t556)) - (t411).distance)
  let t666 := ((((((((t406).normal.x * t555) + ((t406).normal.y * t554)) + ((t406).normal.z * t553)) + ((sabs (t406).normal.x) * t558)) + ((sabs (t406).normal.y) * t557)) + ((sabs (t406).normal.z) * t556)) - (t406).distance)
  if bx.max.x < bx.min.x then
    false
  else
    if bx.max.y < bx.min.y then
      false
    else
      if bx.max.z < bx.min.z then
        false
      else
        if (0 : α) ≤ t654 then
          false
        else
          if (0 : α) ≤ t653 then
            false
          else
            if (0 : α) ≤ t652 then
              false
            else
              if (0 : α) ≤ t666 then
                false
              else
                if (0 : α) ≤ t665 then
                  false
                else
                  if (0 : α) ≤ t664 then
                    false
                  else
                    true

/-- extracted from the C++ template at T = Sym; 1 path(s) -/
def FrustumTest.setFrustum_ortho {α : Type} [Add α] [Sub α] [Mul α] [Div α] [Neg α] [LT α] [LE α] [DecidableLT α] [DecidableLE α] [DecidableEq α] [OfNat α 0] [OfNat α 2] (tmin : α) (sqrt : α → α) (n : α) (f : α) (l : α) (r : α) (t : α) (b : α) (M : M44 α) : ((V3 α) × (V3 α) × (V3 α) × (V3 α) × (V3 α) × (V3 α) × (V3 α) × (V3 α) × (V3 α) × (V3 α) × (V3 α) × (V3 α) × (V3 α) × (V3 α)) :=
  let t667 := (Frustum.planesM_ortho_0 tmin sqrt n f l r t b ⟨M.x00, M.x01, M.x02, M.x03, M.x10, M.x11, M.x12, M.x13, M.x20, M.x21, M.x22, M.x23, M.x30, M.x31, M.x32, M.x33⟩)
  let t672 := (Frustum.planesM_ortho_1 tmin sqrt n f l r t b ⟨M.x00, M.x01, M.x02, M.x03, M.x10, M.x11, M.x12, M.x13, M.x20, M.x21, M.x22, M.x23, M.x30, M.x31, M.x32, M.x33⟩)
  let t677 := (Frustum.planesM_ortho_2 tmin sqrt n f l r t b ⟨M.x00, M.x01, M.x02, M.x03, M.x10, M.x11, M.x12, M.x13, M.x20, M.x21, M.x22, M.x23, M.x30, M.x31, M.x32, M.x33⟩)
  let t682 := (Frustum.planesM_ortho_3 tmin sqrt n f l r t b ⟨M.x00, M.x01, M.x02, M.x03, M.x10, M.x11, M.x12, M.x13, M.x20, M.x21, M.x22, M.x23, M.x30, M.x31, M.x32, M.x33⟩)
  let t687 := (Frustum.planesM_ortho_4 tmin sqrt n f l r t b ⟨M.x00, M.x01, M.x02, M.x03, M.x10, M.x11, M.x12, M.x13, M.x20, M.x21, M.x22, M.x23, M.x30, M.x31, M.x32, M.x33⟩)
  let t692 := (Frustum.planesM_ortho_5 tmin sqrt n f l r t b ⟨M.x00, M.x01, M.x02, M.x03, M.x10, M.x11, M.x12, M.x13, M.x20, M.x21, M.x22, M.x23, M.x30, M.x31, M.x32, M.x33⟩)
  (⟨(t667).normal.x, (t672).normal.x, (t677).normal.x⟩, ⟨(t682).normal.x, (t687).normal.x, (t692).normal.x⟩, ⟨(t667).normal.y, (t672).normal.y, (t677).normal.y⟩, ⟨(t682).normal.y, (t687).normal.y, (t692).normal.y⟩, ⟨(t667).normal.z, (t672).normal.z, (t677).normal.z⟩, ⟨(t682).normal.z, (t687).normal.z, (t692).normal.z⟩, ⟨(t667).distance, (t672).distance, (t677).distance⟩, ⟨(t682).distance, (t687).distance, (t692).distance⟩, ⟨((sabs (t667).normal.x) + (0 : α)), ((sabs (t672).normal.x) + (0 : α)), ((sabs (t677).normal.x) + (0 : α))⟩, ⟨((sabs (t682).normal.x) + (0 : α)), ((sabs (t687).normal.x) + (0 : α)), ((sabs (t692).normal.x) + (0 : α))⟩, ⟨((sabs (t667).normal.y) + (0 : α)), ((sabs (t672).normal.y) + (0 : α)), ((sabs (t677).normal.y) + (0 : α))⟩, ⟨((sabs (t682).normal.y) + (0 : α)), ((sabs (t687).normal.y) + (0 : α)), ((sabs (t692).normal.y) + (0 : α))⟩, ⟨((sabs (t667).normal.z) + (0 : α)), ((sabs (t672).normal.z) + (0 : α)), ((sabs (t677).normal.z) + (0 : α))⟩, ⟨((sabs (t682).normal.z) + (0 : α)), ((sabs (t687).normal.z) + (0 : α)), ((sabs (t692).normal.z) + (0 : α))⟩)

/-- extracted from the C++ template at T = Sym; 7 path(s) -/
def FrustumTest.isVisiblePoint_ortho {α : Type} [Add α] [Sub α] [Mul α] [Div α] [Neg α] [LT α] [LE α] [DecidableLT α] [DecidableLE α] [DecidableEq α] [OfNat α 0] [OfNat α 2] (tmin : α) (sqrt : α → α) (n : α) (f : α) (l : α) (r : α) (t : α) (b : α) (M : M44 α) (v : V3 α) : Bool :=
  let t667 := (Frustum.planesM_ortho_0 tmin sqrt n f l r t b ⟨M.x00, M.x01, M.x02, M.x03, M.x10, M.x11, M.x12, M.x13, M.x20, M.x21, M.x22, M.x23, M.x30, M.x31, M.x32, M.x33⟩)
  let t672 := (Frustum.planesM_ortho_1 tmin sqrt n f l r t b ⟨M.x00, M.x01, M.x02, M.x03, M.x10, M.x11, M.x12, M.x13, M.x20, M.x21, M.x22, M.x23, M.x30, M.x31, M.x32, M.x33⟩)
  let t677 := (Frustum.planesM_ortho_2 tmin sqrt n f l r t b ⟨M.x00, M.x01, M.x02, M.x03, M.x10, M.x11, M.x12, M.x13, M.x20, M.x21, M.x22, M.x23, M.x30, M.x31, M.x32, M.x33⟩)
  let t682 := (Frustum.planesM_ortho_3 tmin sqrt n f l r t b ⟨M.x00, M.x01, M.x02, M.x03, M.x10, M.x11, M.x12, M.x13, M.x20, M.x21, M.x22, M.x23, M.x30, M.x31, M.x32, M.x33⟩)
  let t687 := (Frustum.planesM_ortho_4 tmin sqrt n f l r t b ⟨M.x00, M.x01, M.x02, M.x03, M.x10, M.x11, M.x12, M.x13, M.x20, M.x21, M.x22, M.x23, M.x30, M.x31, M.x32, M.x33⟩)
  let t692 := (Frustum.planesM_ortho_5 tmin sqrt n f l r t b ⟨M.x00, M.x01, M.x02, M.x03, M.x10, M.x11, M.x12, M.x13, M.x20, M.x21, M.x22, M.x23, M.x30, M.x31, M.x32, M.x33⟩)
  let t748 := (((((t677).normal.x * v.x) + ((t677).normal.y * v.y)) + ((t677).normal.z * v.z)) - (t677).distance)
  let t749 := (((((t672).normal.x * v.x) + ((t672).normal.y * v.y)) + ((t672).normal.z * v.z)) - (t672).distance)
  let t750 := (((((t667).normal.x * v.x) + ((t667).normal.y * v.y)) + ((t667).normal.z * v.z)) - (t667).distance)
  let t766 := (((((t692).normal.x * v.x) + ((t692).normal.y * v.y)) + ((t692).normal.z * v.z)) - (t692).distance)
  let t767 := (((((t687).normal.x * v.x) + ((t687).normal.y * v.y)) + ((t687).normal.z * v.z)) - (t687).distance)
  let t768 := (((((t682).normal.x * v.x) + ((t682).normal.y * v.y)) + ((t682).normal.z * v.z)) - (t682).distance)
  if (0 : α) ≤ t750 then
    false
  else
    if (0 : α) ≤ t749 then
      false
    else
      if (0 : α) ≤ t748 then
        false
      else
        if (0 : α) ≤ t768 then
          false
        else
          if (0 : α) ≤ t767 then
            false
          else
            if (0 : α) ≤ t766 then
              false
            else
              true

/-- extracted from the C++ template at T = Sym; 7 path(s) -/
def FrustumTest.isVisibleSphere_ortho {α : Type} [Add α] [Sub α] [Mul α] [Div α] [Neg α] [LT α] [LE α] [DecidableLT α] [DecidableLE α] [DecidableEq α] [OfNat α 0] [OfNat α 2] (tmin : α) (sqrt : α → α) (n : α) (f : α) (l : α) (r : α) (t : α) (b : α) (M : M44 α) (s : Sphere3 α) : Bool :=
  let t667 := (Frustum.planesM_ortho_0 tmin sqrt n f l r t b ⟨M.x00, M.x01, M.x02, M.x03, M.x10, M.x11, M.x12, M.x13, M.x20, M.x21, M.x22, M.x23, M.x30, M.x31, M.x32, M.x33⟩)
  let t672 := (Frustum.planesM_ortho_1 tmin sqrt n f l r t b ⟨M.x00, M.x01, M.x02, M.x03, M.x10, M.x11, M.x12, M.x13, M.x20, M.x21, M.x22, M.x23, M.x30, M.x31, M.x32, M.x33⟩)
  let t677 := (Frustum.planesM_ortho_2 tmin sqrt n f l r t b ⟨M.x00, M.x01, M.x02, M.x03, M.x10, M.x11, M.x12, M.x13, M.x20, M.x21, M.x22, M.x23, M.x30, M.x31, M.x32, M.x33⟩)
  let t682 := (Frustum.planesM_ortho_3 tmin sqrt n f l r t b ⟨M.x00, M.x01, M.x02, M.x03, M.x10, M.x11, M.x12, M.x13, M.x20, M.x21, M.x22, M.x23, M.x30, M.x31, M.x32, M.x33⟩)
  let t687 := (Frustum.planesM_ortho_4 tmin sqrt n f l r t b ⟨M.x00, M.x01, M.x02, M.x03, M.x10, M.x11, M.x12, M.x13, M.x20, M.x21, M.x22, M.x23, M.x30, M.x31, M.x32, M.x33⟩)
  let t692 := (Frustum.planesM_ortho_5 tmin sqrt n f l r t b ⟨M.x00, M.x01, M.x02, M.x03, M.x10, M.x11, M.x12, M.x13, M.x20, M.x21, M.x22, M.x23, M.x30, M.x31, M.x32, M.x33⟩)
  let t787 := ((((((t677).normal.x * s.center.x) + ((t677).normal.y * s.center.y)) + ((t677).normal.z * s.center.z)) - s.radius) - (t677).distance)
  let t788 := ((((((t672).normal.x * s.center.x) + ((t672).normal.y * s.center.y)) + ((t672).normal.z * s.center.z)) - s.radius) - (t672).distance)
  let t789 := ((((((t667).normal.x * s.center.x) + ((t667).normal.y * s.center.y)) + ((t667).normal.z * s.center.z)) - s.radius) - (t667).distance)
  let t808 := ((((((t692).normal.x * s.center.x) + ((t692).normal.y * s.center.y)) + ((t692).normal.z * s.center.z)) - s.radius) - (t692).distance)
  let t809 := ((((((t687).normal.x * s.center.x) + ((t687).normal.y * s.center.y)) + ((t687).normal.z * s.center.z)) - s.radius) - (t687).distance)
  let t810 := ((((((t682).normal.x * s.center.x) + ((t682).normal.y * s.center.y)) + ((t682).normal.z * s.center.z)) - s.radius) - (t682).distance)
  if (0 : α) ≤ t789 then
    false
  else
    if (0 : α) ≤ t788 then
      false
    else
      if (0 : α) ≤ t787 then
        false
      else
        if (0 : α) ≤ t810 then
          false
        else
          if (0 : α) ≤ t809 then
            false
          else
            if (0 : α) ≤ t808 then
              false
            else
              true

/-- extracted from the C++ template at T = Sym; 10 path(s) -/
def FrustumTest.isVisibleBox_ortho {α : Type} [Add α] [Sub α] [Mul α] [Div α] [Neg α] [LT α] [LE α] [DecidableLT α] [DecidableLE α] [DecidableEq α] [OfNat α 0] [OfNat α 2] (tmin : α) (sqrt : α → α) (n : α) (f : α) (l : α) (r : α) (t : α) (b : α) (M : M44 α) (bx : Box3 α) : Bool :=
  let t553 := ((bx.min.z + bx.max.z) / (2 : α))
  let t554 := ((bx.min.y + bx.max.y) / (2 : α))
  let t555 := ((bx.min.x + bx.max.x) / (2 : α))
  let t556 := (bx.max.z - t553)
  let t557 := (bx.max.y - t554)
  let t558 := (bx.max.x - t555)
  let t667 := (Frustum.planesM_ortho_0 tmin sqrt n f l r t b ⟨M.x00, M.x01, M.x02, M.x03, M.x10, M.x11, M.x12, M.x13, M.x20, M.x21, M.x22, M.x23, M.x30, M.x31, M.x32, M.x33⟩)
  let t672 := (Frustum.planesM_ortho_1 tmin sqrt n f l r t b ⟨M.x00, M.x01, M.x02, M.x03, M.x10, M.x11, M.x12, M.x13, M.x20, M.x21, M.x22, M.x23, M.x30, M.x31, M.x32, M.x33⟩)
  let t677 := (Frustum.planesM_ortho_2 tmin sqrt n f l r t b ⟨M.x00, M.x01, M.x02, M.x03, M.x10, M.x11, M.x12, M.x13, M.x20, M.x21, M.x22, M.x23, M.x30, M.x31, M.x32, M.x33⟩)
  let t682 := (Frustum.planesM_ortho_3 tmin sqrt n f l r t b ⟨M.x00, M.x01, M.x02, M.x03, M.x10, M.x11, M.x12, M.x13, M.x20, M.x21, M.x22, M.x23, M.x30, M.x31, M.x32, M.x33⟩)
  let t687 := (Frustum.planesM_ortho_4 tmin sqrt n f l r t b ⟨M.x00, M.x01, M.x02, M.x03, M.x10, M.x11, M.x12, M.x13, M.x20, M.x21, M.x22, M.x23, M.x30, M.x31, M.x32, M.x33⟩)
  let t692 := (Frustum.planesM_ortho_5 tmin sqrt n f l r t b ⟨M.x00, M.x01, M.x02, M.x03, M.x10, M.x11, M.x12, M.x13, M.x20, M.x21, M.x22, M.x23, M.x30, M.x31, M.x32, M.x33⟩)
  let t844 := ((((((((t677).normal.x * t555) + ((t677).normal.y * t554)) + ((t677).normal.z * t553)) - ((sabs (t677).normal.x) * t558)) - ((sabs (t677).normal.y) * t557)) - ((sabs (t677).normal.z) * t556)) - (t677).distance)
  let t845 := ((((((((t672).normal.x * t555) + ((t672).normal.y * t554)) + ((t672).normal.z * t553)) - ((sabs (t672).normal.x) * t558)) - ((sabs (t672).normal.y) * t557)) - ((sabs (t672).normal.z) * t556)) - (t672).distance)
  let t846 := ((((((((t667).normal.x * t555) + ((t667).normal.y * t554)) + ((t667).normal.z * t553)) - ((sabs (t667).normal.x) * t558)) - ((sabs (t667).normal.y) * t557)) - ((sabs (t667).normal.z) * t556)) - (t667).distance)
  let t880 := ((((((((t692).normal.x * t555) + ((t692).normal.y * t554)) + ((t692).normal.z * t553)) - ((sabs (t692).normal.x) * t558)) - ((sabs (t692).normal.y) * t557)) - ((sabs (t692).normal.z) * t556)) - (t692).distance)
  let t881 := ((((((((t687).normal.x * t555) + ((t687).normal.y * t554)) + ((t687).normal.z * t553)) - ((sabs (t687).normal.x) * t558)) - ((sabs (t687).normal.y) * t557)) - ((sabs (t687).normal.z) * t556)) - (t687).distance)
  let t882 := ((((((((t682).normal.x * t555) + ((t682).normal.y * t554)) + ((t682).normal.z * t553)) - ((sabs (t682).normal.x) * t558)) - ((sabs (t682).normal.y) * t557)) - ((sabs (t682).normal.z) * t556)) - (t682).distance)
  if bx.max.x < bx.min.x then
    false
  else
    if bx.max.y < bx.min.y then
      false
    else
      if bx.max.z < bx.min.z then
        false
      else
        if (0 : α) ≤ t846 then
          false
        else
          if (0 : α) ≤ t845 then
            false
          else
            if (0 : α) ≤ t844 then
              false
            else
              if (0 : α) ≤ t882 then
                false
              else
                if (0 : α) ≤ t881 then
                  false
                else
                  if (0 : α) ≤ t880 then
                    false
                  else
                    true

/-- extracted from the C++ template at T = Sym; 7 path(s) -/
def FrustumTest.completelyContainsSphere_ortho {α : Type} [Add α] [Sub α] [Mul α] [Div α] [Neg α] [LT α] [LE α] [DecidableLT α] [DecidableLE α] [DecidableEq α] [OfNat α 0] [OfNat α 2] (tmin : α) (sqrt : α → α) (n : α) (f : α) (l : α) (r : α) (t : α) (b : α) (M : M44 α) (s : Sphere3 α) : Bool :=
  let t667 := (Frustum.planesM_ortho_0 tmin sqrt n f l r t b ⟨M.x00, M.x01, M.x02, M.x03, M.x10, M.x11, M.x12, M.x13, M.x20, M.x21, M.x22, M.x23, M.x30, M.x31, M.x32, M.x33⟩)
  let t672 := (Frustum.planesM_ortho_1 tmin sqrt n f l r t b ⟨M.x00, M.x01, M.x02, M.x03, M.x10, M.x11, M.x12, M.x13, M.x20, M.x21, M.x22, M.x23, M.x30, M.x31, M.x32, M.x33⟩)
  let t677 := (Frustum.planesM_ortho_2 tmin sqrt n f l r t b ⟨M.x00, M.x01, M.x02, M.x03, M.x10, M.x11, M.x12, M.x13, M.x20, M.x21, M.x22, M.x23, M.x30, M.x31, M.x32, M.x33⟩)
  let t682 := (Frustum.planesM_ortho_3 tmin sqrt n f l r t b ⟨M.x00, M.x01, M.x02, M.x03, M.x10, M.x11, M.x12, M.x13, M.x20, M.x21, M.x22, M.x23, M.x30, M.x31, M.x32, M.x33⟩)
  let t687 := (Frustum.planesM_ortho_4 tmin sqrt n f l r t b ⟨M.x00, M.x01, M.x02, M.x03, M.x10, M.x11, M.x12, M.x13, M.x20, M.x21, M.x22, M.x23, M.x30, M.x31, M.x32, M.x33⟩)
  let t692 := (Frustum.planesM_ortho_5 tmin sqrt n f l r t b ⟨M.x00, M.x01, M.x02, M.x03, M.x10, M.x11, M.x12, M.x13, M.x20, M.x21, M.x22, M.x23, M.x30, M.x31, M.x32, M.x33⟩)
  let t886 := ((((((t677).normal.x * s.center.x) + ((t677).normal.y * s.center.y)) + ((t677).normal.z * s.center.z)) + s.radius) - (t677).distance)
  let t887 := ((((((t672).normal.x * s.center.x) + ((t672).normal.y * s.center.y)) + ((t672).normal.z * s.center.z)) + s.radius) - (t672).distance)
  let t888 := ((((((t667).normal.x * s.center.x) + ((t667).normal.y * s.center.y)) + ((t667).normal.z * s.center.z)) + s.radius) - (t667).distance)
  let t892 := ((((((t692).normal.x * s.center.x) + ((t692).normal.y * s.center.y)) + ((t692).normal.z * s.center.z)) + s.radius) - (t692).distance)
  let t893 := ((((((t687).normal.x * s.center.x) + ((t687).normal.y * s.center.y)) + ((t687).normal.z * s.center.z)) + s.radius) - (t687).distance)
  let t894 := ((((((t682).normal.x * s.center.x) + ((t682).normal.y * s.center.y)) + ((t682).normal.z * s.center.z)) + s.radius) - (t682).distance)
  if (0 : α) ≤ t888 then
    false
  else
    if (0 : α) ≤ t887 then
      false
    else
      if (0 : α) ≤ t886 then
        false
      else
        if (0 : α) ≤ t894 then
          false
        else
          if (0 : α) ≤ t893 then
            false
          else
            if (0 : α) ≤ t892 then
              false
            else
              true

/-- extracted from the C++ template at T = Sym; 10 path(s) -/
def FrustumTest.completelyContainsBox_ortho {α : Type} [Add α] [Sub α] [Mul α] [Div α] [Neg α] [LT α] [LE α] [DecidableLT α] [DecidableLE α] [DecidableEq α] [OfNat α 0] [OfNat α 2] (tmin : α) (sqrt : α → α) (n : α) (f : α) (l : α) (r : α) (t : α) (b : α) (M : M44 α) (bx : Box3 α) : Bool :=
  let t553 := ((bx.min.z + bx.max.z) / (2 : α))
  let t554 := ((bx.min.y + bx.max.y) / (2 : α))
  let t555 := ((bx.min.x + bx.max.x) / (2 : α))
  let t556 := (bx.max.z - t553)
  let t557 := (bx.max.y - t554)
  let t558 := (bx.max.x - t555)
  let t667 := (Frustum.planesM_ortho_0 tmin sqrt n f l r t b ⟨M.x00, M.x01, M.x02, M.x03, M.x10, M.x11, M.x12, M.x13, M.x20, M.x21, M.x22, M.x23, M.x30, M.x31, M.x32, M.x33⟩)
  let t672 := (Frustum.planesM_ortho_1 tmin sqrt n f l r t b ⟨M.x00, M.x01, M.x02, M.x03, M.x10, M.x11, M.x12, M.x13, M.x20, M.x21, M.x22, M.x23, M.x30, M.x31, M.x32, M.x33⟩)
  let t677 := (Frustum.planesM_ortho_2 tmin sqrt n f l r t b ⟨M.x00, M.x01, M.x02, M.x03, M.x10, M.x11, M.x12, M.x13, M.x20, M.x21, M.x22, M.x23, M.x30, M.x31, M.x32, M.x33⟩)
  let t682 := (Frustum.planesM_ortho_3 tmin sqrt n f l r t b ⟨M.x00, M.x01, M.x02, M.x03, M.x10, M.x11, M.x12, M.x13, M.x20, M.x21, M.x22, M.x23, M.x30, M.x31, M.x32, M.x33⟩)
  let t687 := (Frustum.planesM_ortho_4 tmin sqrt n f l r t b ⟨M.x00, M.x01, M.x02, M.x03, M.x10, M.x11, M.x12, M.x13, M.x20, M.x21, M.x22, M.x23, M.x30, M.x31, M.x32, M.x33⟩)
  let t692 := (Frustum.planesM_ortho_5 tmin sqrt n f l r t b ⟨M.x00, M.x01, M.x02, M.x03, M.x10, M.x11, M.x12, M.x13, M.x20, M.x21, M.x22, M.x23, M.x30, M.x31, M.x32, M.x33⟩)
  let t904 := ((((((((t677).normal.x * t555) + ((t677).normal.y * t554)) + ((t677).normal.z * t553)) + ((sabs (t677).normal.x) * t558)) + ((sabs (t677).normal.y) * t557)) + ((sabs (t677).normal.z) * t556)) - (t677).distance)
  let t905 := ((((((((t672).normal.x * t555) + ((t672).normal.y * t554)) + ((t672).normal.z * t553)) + ((sabs (t672).normal.x) * t558)) + ((sabs (t672).normal.y) * t557)) + ((sabs (t672).normal.z) * t556)) - (t672).distance)
  let t906 := ((((((((t667).normal.x * t555) + ((t667).normal.y * t554)) + ((t667).normal.z * t553)) + ((sabs (t667).normal.x) * t558)) + ((sabs (t667).normal.y) * t557)) + ((sabs (t667).normal.z) * t556)) - (t667).distance)
  let t916 := ((((((((t692).normal.x * t555) + ((t692).normal.y * t554)) + ((t692).normal.z * t553)) + ((sabs (t692).normal.x) * t558)) + ((sabs (t692).normal.y) * t557)) + ((sabs (t692).normal.z) * t556)) - (t692).distance)
  let t917 := ((((((((t687).normal.x * t555) + ((t687).normal.y * t554)) + ((t687).normal.z * t553)) + ((sabs (t687).normal.x) * t558)) + ((sabs (t687).normal.y) * t557)) + ((sabs (t687).normal.z) * t556)) - (t687).distance)
  let t918 := ((((((((t682).normal.x * t555) + ((t682).normal.y * t554)) + ((t682).normal.z * t553)) + ((sabs (t682).normal.x) * t558)) + ((sabs (t682).normal.y) * t557)) + ((sabs (t682).normal.z) * t556)) - (t682).distance)
  if bx.max.x < bx.min.x then
    false
  else
    if bx.max.y < bx.min.y then
      false
    else
      if bx.max.z < bx.min.z then
        false
      else
        if (0 : α) ≤ t906 then
          false
        else
          if (0 : α) ≤ t905 then
            false
          else
            if (0 : α) ≤ t904 then
              false
            else
              if (0 : α) ≤ t918 then
                false
              else
                if (0 : α) ≤ t917 then
                  false
                else
                  if (0 : α) ≤ t916 then
                    false
                  else
                    true

end ImathVerif.Gen
