-- GENERATED from /repo/src/Imath by harness/sym (T = Sym path extraction); do not edit.
import ImathVerif.Basic.Types
import ImathVerif.Gen.C16PlanesM
set_option linter.unusedVariables false
namespace ImathVerif.Gen
open ImathVerif

/-- extracted from the C++ template at T = Sym; 1 path(s) -/
def FrustumTest.setFrustum_persp {α : Type} [Add α] [Sub α] [Mul α] [Div α] [Neg α] [LT α] [LE α] [DecidableLT α] [DecidableLE α] [DecidableEq α] [OfNat α 0] [OfNat α 2] (tmin : α) (tmax : α) (sqrt : α → α) (n : α) (f : α) (l : α) (r : α) (t : α) (b : α) (M : M44 α) : ((V3 α) × (V3 α) × (V3 α) × (V3 α) × (V3 α) × (V3 α) × (V3 α) × (V3 α) × (V3 α) × (V3 α) × (V3 α) × (V3 α) × (V3 α) × (V3 α)) :=
  let t523 := (Frustum.planesM_persp_0 tmin tmax sqrt n f l r t b ⟨M.x00, M.x01, M.x02, M.x03, M.x10, M.x11, M.x12, M.x13, M.x20, M.x21, M.x22, M.x23, M.x30, M.x31, M.x32, M.x33⟩)
  let t528 := (Frustum.planesM_persp_1 tmin tmax sqrt n f l r t b ⟨M.x00, M.x01, M.x02, M.x03, M.x10, M.x11, M.x12, M.x13, M.x20, M.x21, M.x22, M.x23, M.x30, M.x31, M.x32, M.x33⟩)
  let t533 := (Frustum.planesM_persp_2 tmin tmax sqrt n f l r t b ⟨M.x00, M.x01, M.x02, M.x03, M.x10, M.x11, M.x12, M.x13, M.x20, M.x21, M.x22, M.x23, M.x30, M.x31, M.x32, M.x33⟩)
  let t538 := (Frustum.planesM_persp_3 tmin tmax sqrt n f l r t b ⟨M.x00, M.x01, M.x02, M.x03, M.x10, M.x11, M.x12, M.x13, M.x20, M.x21, M.x22, M.x23, M.x30, M.x31, M.x32, M.x33⟩)
  let t543 := (Frustum.planesM_persp_4 tmin tmax sqrt n f l r t b ⟨M.x00, M.x01, M.x02, M.x03, M.x10, M.x11, M.x12, M.x13, M.x20, M.x21, M.x22, M.x23, M.x30, M.x31, M.x32, M.x33⟩)
  let t548 := (Frustum.planesM_persp_5 tmin tmax sqrt n f l r t b ⟨M.x00, M.x01, M.x02, M.x03, M.x10, M.x11, M.x12, M.x13, M.x20, M.x21, M.x22, M.x23, M.x30, M.x31, M.x32, M.x33⟩)
  (⟨(t523).normal.x, (t528).normal.x, (t533).normal.x⟩, ⟨(t538).normal.x, (t543).normal.x, (t548).normal.x⟩, ⟨(t523).normal.y, (t528).normal.y, (t533).normal.y⟩, ⟨(t538).normal.y, (t543).normal.y, (t548).normal.y⟩, ⟨(t523).normal.z, (t528).normal.z, (t533).normal.z⟩, ⟨(t538).normal.z, (t543).normal.z, (t548).normal.z⟩, ⟨(t523).distance, (t528).distance, (t533).distance⟩, ⟨(t538).distance, (t543).distance, (t548).distance⟩, ⟨((sabs (t523).normal.x) + (0 : α)), ((sabs (t528).normal.x) + (0 : α)), ((sabs (t533).normal.x) + (0 : α))⟩, ⟨((sabs (t538).normal.x) + (0 : α)), ((sabs (t543).normal.x) + (0 : α)), ((sabs (t548).normal.x) + (0 : α))⟩, ⟨((sabs (t523).normal.y) + (0 : α)), ((sabs (t528).normal.y) + (0 : α)), ((sabs (t533).normal.y) + (0 : α))⟩, ⟨((sabs (t538).normal.y) + (0 : α)), ((sabs (t543).normal.y) + (0 : α)), ((sabs (t548).normal.y) + (0 : α))⟩, ⟨((sabs (t523).normal.z) + (0 : α)), ((sabs (t528).normal.z) + (0 : α)), ((sabs (t533).normal.z) + (0 : α))⟩, ⟨((sabs (t538).normal.z) + (0 : α)), ((sabs (t543).normal.z) + (0 : α)), ((sabs (t548).normal.z) + (0 : α))⟩)

/-- extracted from the C++ template at T = Sym; 7 path(s) -/
def FrustumTest.isVisiblePoint_persp {α : Type} [Add α] [Sub α] [Mul α] [Div α] [Neg α] [LT α] [LE α] [DecidableLT α] [DecidableLE α] [DecidableEq α] [OfNat α 0] [OfNat α 2] (tmin : α) (tmax : α) (sqrt : α → α) (n : α) (f : α) (l : α) (r : α) (t : α) (b : α) (M : M44 α) (v : V3 α) : Bool :=
  let t523 := (Frustum.planesM_persp_0 tmin tmax sqrt n f l r t b ⟨M.x00, M.x01, M.x02, M.x03, M.x10, M.x11, M.x12, M.x13, M.x20, M.x21, M.x22, M.x23, M.x30, M.x31, M.x32, M.x33⟩)
  let t528 := (Frustum.planesM_persp_1 tmin tmax sqrt n f l r t b ⟨M.x00, M.x01, M.x02, M.x03, M.x10, M.x11, M.x12, M.x13, M.x20, M.x21, M.x22, M.x23, M.x30, M.x31, M.x32, M.x33⟩)
  let t533 := (Frustum.planesM_persp_2 tmin tmax sqrt n f l r t b ⟨M.x00, M.x01, M.x02, M.x03, M.x10, M.x11, M.x12, M.x13, M.x20, M.x21, M.x22, M.x23, M.x30, M.x31, M.x32, M.x33⟩)
  let t538 := (Frustum.planesM_persp_3 tmin tmax sqrt n f l r t b ⟨M.x00, M.x01, M.x02, M.x03, M.x10, M.x11, M.x12, M.x13, M.x20, M.x21, M.x22, M.x23, M.x30, M.x31, M.x32, M.x33⟩)
  let t543 := (Frustum.planesM_persp_4 tmin tmax sqrt n f l r t b ⟨M.x00, M.x01, M.x02, M.x03, M.x10, M.x11, M.x12, M.x13, M.x20, M.x21, M.x22, M.x23, M.x30, M.x31, M.x32, M.x33⟩)
  let t548 := (Frustum.planesM_persp_5 tmin tmax sqrt n f l r t b ⟨M.x00, M.x01, M.x02, M.x03, M.x10, M.x11, M.x12, M.x13, M.x20, M.x21, M.x22, M.x23, M.x30, M.x31, M.x32, M.x33⟩)
  let t604 := (((((t533).normal.x * v.x) + ((t533).normal.y * v.y)) + ((t533).normal.z * v.z)) - (t533).distance)
  let t605 := (((((t528).normal.x * v.x) + ((t528).normal.y * v.y)) + ((t528).normal.z * v.z)) - (t528).distance)
  let t606 := (((((t523).normal.x * v.x) + ((t523).normal.y * v.y)) + ((t523).normal.z * v.z)) - (t523).distance)
  let t622 := (((((t548).normal.x * v.x) + ((t548).normal.y * v.y)) + ((t548).normal.z * v.z)) - (t548).distance)
  let t623 := (((((t543).normal.x * v.x) + ((t543).normal.y * v.y)) + ((t543).normal.z * v.z)) - (t543).distance)
  let t624 := (((((t538).normal.x * v.x) + ((t538).normal.y * v.y)) + ((t538).normal.z * v.z)) - (t538).distance)
  if (0 : α) ≤ t606 then
    false
  else
    if (0 : α) ≤ t605 then
      false
    else
      if (0 : α) ≤ t604 then
        false
      else
        if (0 : α) ≤ t624 then
          false
        else
          if (0 : α) ≤ t623 then
            false
          else
            if (0 : α) ≤ t622 then
              false
            else
              true

/-- extracted from the C++ template at T = Sym; 7 path(s) -/
def FrustumTest.isVisibleSphere_persp {α : Type} [Add α] [Sub α] [Mul α] [Div α] [Neg α] [LT α] [LE α] [DecidableLT α] [DecidableLE α] [DecidableEq α] [OfNat α 0] [OfNat α 2] (tmin : α) (tmax : α) (sqrt : α → α) (n : α) (f : α) (l : α) (r : α) (t : α) (b : α) (M : M44 α) (s : Sphere3 α) : Bool :=
  let t523 := (Frustum.planesM_persp_0 tmin tmax sqrt n f l r t b ⟨M.x00, M.x01, M.x02, M.x03, M.x10, M.x11, M.x12, M.x13, M.x20, M.x21, M.x22, M.x23, M.x30, M.x31, M.x32, M.x33⟩)
  let t528 := (Frustum.planesM_persp_1 tmin tmax sqrt n f l r t b ⟨M.x00, M.x01, M.x02, M.x03, M.x10, M.x11, M.x12, M.x13, M.x20, M.x21, M.x22, M.x23, M.x30, M.x31, M.x32, M.x33⟩)
  let t533 := (Frustum.planesM_persp_2 tmin tmax sqrt n f l r t b ⟨M.x00, M.x01, M.x02, M.x03, M.x10, M.x11, M.x12, M.x13, M.x20, M.x21, M.x22, M.x23, M.x30, M.x31, M.x32, M.x33⟩)
  let t538 := (Frustum.planesM_persp_3 tmin tmax sqrt n f l r t b ⟨M.x00, M.x01, M.x02, M.x03, M.x10, M.x11, M.x12, M.x13, M.x20, M.x21, M.x22, M.x23, M.x30, M.x31, M.x32, M.x33⟩)
  let t543 := (Frustum.planesM_persp_4 tmin tmax sqrt n f l r t b ⟨M.x00, M.x01, M.x02, M.x03, M.x10, M.x11, M.x12, M.x13, M.x20, M.x21, M.x22, M.x23, M.x30, M.x31, M.x32, M.x33⟩)
  let t548 := (Frustum.planesM_persp_5 tmin tmax sqrt n f l r t b ⟨M.x00, M.x01, M.x02, M.x03, M.x10, M.x11, M.x12, M.x13, M.x20, M.x21, M.x22, M.x23, M.x30, M.x31, M.x32, M.x33⟩)
  let t647 := ((((((t533).normal.x * s.center.x) + ((t533).normal.y * s.center.y)) + ((t533).normal.z * s.center.z)) - s.radius) - (t533).distance)
  let t648 := ((((((t528).normal.x * s.center.x) + ((t528).normal.y * s.center.y)) + ((t528).normal.z * s.center.z)) - s.radius) - (t528).distance)
  let t649 := ((((((t523).normal.x * s.center.x) + ((t523).normal.y * s.center.y)) + ((t523).normal.z * s.center.z)) - s.radius) - (t523).distance)
  let t668 := ((((((t548).normal.x * s.center.x) + ((t548).normal.y * s.center.y)) + ((t548).normal.z * s.center.z)) - s.radius) - (t548).distance)
  let t669 := ((((((t543).normal.x * s.center.x) + ((t543).normal.y * s.center.y)) + ((t543).normal.z * s.center.z)) - s.radius) - (t543).distance)
  let t670 := ((((((t538).normal.x * s.center.x) + ((t538).normal.y * s.center.y)) + ((t538).normal.z * s.center.z)) - s.radius) - (t538).distance)
  if (0 : α) ≤ t649 then
    false
  else
    if (0 : α) ≤ t648 then
      false
    else
      if (0 : α) ≤ t647 then
        false
      else
        if (0 : α) ≤ t670 then
          false
        else
          if (0 : α) ≤ t669 then
            false
          else
            if (0 : α) ≤ t668 then
              false
            else
              true

/-- extracted from the C++ template at T = Sym; 10 path(s) -/
def FrustumTest.isVisibleBox_persp {α : Type} [Add α] [Sub α] [Mul α] [Div α] [Neg α] [LT α] [LE α] [DecidableLT α] [DecidableLE α] [DecidableEq α] [OfNat α 0] [OfNat α 2] (tmin : α) (tmax : α) (sqrt : α → α) (n : α) (f : α) (l : α) (r : α) (t : α) (b : α) (M : M44 α) (bx : Box3 α) : Bool :=
  let t523 := (Frustum.planesM_persp_0 tmin tmax sqrt n f l r t b ⟨M.x00, M.x01, M.x02, M.x03, M.x10, M.x11, M.x12, M.x13, M.x20, M.x21, M.x22, M.x23, M.x30, M.x31, M.x32, M.x33⟩)
  let t528 := (Frustum.planesM_persp_1 tmin tmax sqrt n f l r t b ⟨M.x00, M.x01, M.x02, M.x03, M.x10, M.x11, M.x12, M.x13, M.x20, M.x21, M.x22, M.x23, M.x30, M.x31, M.x32, M.x33⟩)
  let t533 := (Frustum.planesM_persp_2 tmin tmax sqrt n f l r t b ⟨M.x00, M.x01, M.x02, M.x03, M.x10, M.x11, M.x12, M.x13, M.x20, M.x21, M.x22, M.x23, M.x30, M.x31, M.x32, M.x33⟩)
  let t538 := (Frustum.planesM_persp_3 tmin tmax sqrt n f l r t b ⟨M.x00, M.x01, M.x02, M.x03, M.x10, M.x11, M.x12, M.x13, M.x20, M.x21, M.x22, M.x23, M.x30, M.x31, M.x32, M.x33⟩)
  let t543 := (Frustum.planesM_persp_4 tmin tmax sqrt n f l r t b ⟨M.x00, M.x01, M.x02, M.x03, M.x10, M.x11, M.x12, M.x13, M.x20, M.x21, M.x22, M.x23, M.x30, M.x31, M.x32, M.x33⟩)
  let t548 := (Frustum.planesM_persp_5 tmin tmax sqrt n f l r t b ⟨M.x00, M.x01, M.x02, M.x03, M.x10, M.x11, M.x12, M.x13, M.x20, M.x21, M.x22, M.x23, M.x30, M.x31, M.x32, M.x33⟩)
  let t682 := ((bx.min.z + bx.max.z) / (2 : α))
  let t683 := ((bx.min.y + bx.max.y) / (2 : α))
  let t684 := ((bx.min.x + bx.max.x) / (2 : α))
  let t685 := (bx.max.z - t682)
  let t686 := (bx.max.y - t683)
  let t687 := (bx.max.x - t684)
  let t721 := ((((((((t533).normal.x * t684) + ((t533).normal.y * t683)) + ((t533).normal.z * t682)) - ((sabs (t533).normal.x) * t687)) - ((sabs (t533).normal.y) * t686)) - ((sabs (t533).normal.z) * t685)) - (t533).distance)
  let t722 := ((((((((t528).normal.x * t684) + ((t528).normal.y * t683)) + ((t528).normal.z * t682)) - ((sabs (t528).normal.x) * t687)) - ((sabs (t528).normal.y) * t686)) - ((sabs (t528).normal.z) * t685)) - (t528).distance)
  let t723 := ((((((((t523).normal.x * t684) + ((t523).normal.y * t683)) + ((t523).normal.z * t682)) - ((sabs (t523).normal.x) * t687)) - ((sabs (t523).normal.y) * t686)) - ((sabs (t523).normal.z) * t685)) - (t523).distance)
  let t757 := ((((((((t548).normal.x * t684) + ((t548).normal.y * t683)) + ((t548).normal.z * t682)) - ((sabs (t548).normal.x) * t687)) - ((sabs (t548).normal.y) * t686)) - ((sabs (t548).normal.z) * t685)) - (t548).distance)
  let t758 := ((((((((t543).normal.x * t684) + ((t543).normal.y * t683)) + ((t543).normal.z * t682)) - ((sabs (t543).normal.x) * t687)) - ((sabs (t543).normal.y) * t686)) - ((sabs (t543).normal.z) * t685)) - (t543).distance)
  let t759 := ((((((((t538).normal.x * t684) + ((t538).normal.y * t683)) + ((t538).normal.z * t682)) - ((sabs (t538).normal.x) * t687)) - ((sabs (t538).normal.y) * t686)) - ((sabs (t538).normal.z) * t685)) - (t538).distance)
  if bx.max.x < bx.min.x then
    false
  else
    if bx.max.y < bx.min.y then
      false
    else
      if bx.max.z < bx.min.z then
        false
      else
        if (0 : α) ≤ t723 then
          false
        else
          if (0 : α) ≤ t722 then
            false
          else
            if (0 : α) ≤ t721 then
              false
            else
              if (0 : α) ≤ t759 then
                false
              else
                if (0 : α) ≤ t758 then
                  false
                else
                  if (0 : α) ≤ t757 then
                    false
                  else
                    true

/-- extracted from the C++ template at T = Sym; 7 path(s) -/
def FrustumTest.completelyContainsSphere_persp {α : Type} [Add α] [Sub α] [Mul α] [Div α] [Neg α] [LT α] [LE α] [DecidableLT α] [DecidableLE α] [DecidableEq α] [OfNat α 0] [OfNat α 2] (tmin : α) (tmax : α) (sqrt : α → α) (n : α) (f : α) (l : α) (r : α) (t : α) (b : α) (M : M44 α) (s : Sphere3 α) : Bool :=
  let t523 := (Frustum.planesM_persp_0 tmin tmax sqrt n f l r t b ⟨M.x00, M.x01, M.x02, M.x03, M.x10, M.x11, M.x12, M.x13, M.x20, M.x21, M.x22, M.x23, M.x30, M.x31, M.x32, M.x33⟩)
  let t528 := (Frustum.planesM_persp_1 tmin tmax sqrt n f l r t b ⟨M.x00, M.x01, M.x02, M.x03, M.x10, M.x11, M.x12, M.x13, M.x20, M.x21, M.x22, M.x23, M.x30, M.x31, M.x32, M.x33⟩)
  let t533 := (Frustum.planesM_persp_2 tmin tmax sqrt n f l r t b ⟨M.x00, M.x01, M.x02, M.x03, M.x10, M.x11, M.x12, M.x13, M.x20, M.x21, M.x22, M.x23, M.x30, M.x31, M.x32, M.x33⟩)
  let t538 := (Frustum.planesM_persp_3 tmin tmax sqrt n f l r t b ⟨M.x00, M.x01, M.x02, M.x03, M.x10, M.x11, M.x12, M.x13, M.x20, M.x21, M.x22, M.x23, M.x30, M.x31, M.x32, M.x33⟩)
  let t543 := (Frustum.planesM_persp_4 tmin tmax sqrt n f l r t b ⟨M.x00, M.x01, M.x02, M.x03, M.x10, M.x11, M.x12, M.x13, M.x20, M.x21, M.x22, M.x23, M.x30, M.x31, M.x32, M.x33⟩)
  let t548 := (Frustum.planesM_persp_5 tmin tmax sqrt n f l r t b ⟨M.x00, M.x01, M.x02, M.x03, M.x10, M.x11, M.x12, M.x13, M.x20, M.x21, M.x22, M.x23, M.x30, M.x31, M.x32, M.x33⟩)
  let t763 := ((((((t533).normal.x * s.center.x) + ((t533).normal.y * s.center.y)) + ((t533).normal.z * s.center.z)) + s.radius) - (t533).distance)
  let t764 := ((((((t528).normal.x * s.center.x) + ((t528).normal.y * s.center.y)) + ((t528).normal.z * s.center.z)) + s.radius) - (t528).distance)
  let t765 := ((((((t523).normal.x * s.center.x) + ((t523).normal.y * s.center.y)) + ((t523).normal.z * s.center.z)) + s.radius) - (t523).distance)
  let t769 := ((((((t548).normal.x * s.center.x) + ((t548).normal.y * s.center.y)) + ((t548).normal.z * s.center.z)) + s.radius) - (t548).distance)
  let t770 := ((((((t543).normal.x * s.center.x) + ((t543).normal.y * s.center.y)) + ((t543).normal.z * s.center.z)) + s.radius) - (t543).distance)
  let t771 := ((((((t538).normal.x * s.center.x) + ((t538).normal.y * s.center.y)) + ((t538).normal.z * s.center.z)) + s.radius) - (t538).distance)
  if (0 : α) ≤ t765 then
    false
  else
    if (0 : α) ≤ t764 then
      false
    else
      if (0 : α) ≤ t763 then
        false
      else
        if (0 : α) ≤ t771 then
          false
        else
          if (0 : α) ≤ t770 then
            false
          else
            if (0 : α) ≤ t769 then
              false
            else
              true

/-- extracted from the C++ template at T = Sym; 10 path(s) -/
def FrustumTest.completelyContainsBox_persp {α : Type} [Add α] [Sub α] [Mul α] [Div α] [Neg α] [LT α] [LE α] [DecidableLT α] [DecidableLE α] [DecidableEq α] [OfNat α 0] [OfNat α 2] (tmin : α) (tmax : α) (sqrt : α → α) (n : α) (f : α) (l : α) (r : α) (t : α) (b : α) (M : M44 α) (bx : Box3 α) : Bool :=
  let t523 := (Frustum.planesM_persp_0 tmin tmax sqrt n f l r t b ⟨M.x00, M.x01, M.x02, M.x03, M.x10, M.x11, M.x12, M.x13, M.x20, M.x21, M.x22, M.x23, M.x30, M.x31, M.x32, M.x33⟩)
  let t528 := (Frustum.planesM_persp_1 tmin tmax sqrt n f l r t b ⟨M.x00, M.x01, M.x02, M.x03, M.x10, M.x11, M.x12, M.x13, M.x20, M.x21, M.x22, M.x23, M.x30, M.x31, M.x32, M.x33⟩)
  let t533 := (Frustum.planesM_persp_2 tmin tmax sqrt n f l r t b ⟨M.x00, M.x01, M.x02, M.x03, M.x10, M.x11, M.x12, M.x13, M.x20, M.x21, M.x22, M.x23, M.x30, M.x31, M.x32, M.x33⟩)
  let t538 := (Frustum.planesM_persp_3 tmin tmax sqrt n f l r t b ⟨M.x00, M.x01, M.x02, M.x03, M.x10, M.x11, M.x12, M.x13, M.x20, M.x21, M.x22, M.x23, M.x30, M.x31, M.x32, M.x33⟩)
  let t543 := (Frustum.planesM_persp_4 tmin tmax sqrt n f l r t b ⟨M.x00, M.x01, M.x02, M.x03, M.x10, M.x11, M.x12, M.x13, M.x20, M.x21, M.x22, M.x23, M.x30, M.x31, M.x32, M.x33⟩)
  let t548 := (Frustum.planesM_persp_5 tmin tmax sqrt n f l r t b ⟨M.x00, M.x01, M.x02, M.x03, M.x10, M.x11, M.x12, M.x13, M.x20, M.x21, M.x22, M.x23, M.x30, M.x31, M.x32, M.x33⟩)
  let t682 := ((bx.min.z + bx.max.z) / (2 : α))
  let t683 := ((bx.min.y + bx.max.y) / (2 : α))
  let t684 := ((bx.min.x + bx.max.x) / (2 : α))
  let t685 := (bx.max.z - t682)
  let t686 := (bx.max.y - t683)
  let t687 := (bx.max.x - t684)
  let t781 := ((((((((t533).normal.x * t684) + ((t533).normal.y * t683)) + ((t533).normal.z * t682)) + ((sabs (t533).normal.x) * t687)) + ((sabs (t533).normal.y) * t686)) + ((sabs (t533).normal.z) * t685)) - (t533).distance)
  let t782 := ((((((((t528).normal.x * t684) + ((t528).normal.y * t683)) + ((t528).normal.z * t682)) + ((sabs (t528).normal.x) * t687)) + ((sabs (t528).normal.y) * t686)) + ((sabs (t528).normal.z) * t685)) - (t528).distance)
  let t783 := ((((((((t523).normal.x * t684) + ((t523).normal.y * t683)) + ((t523).normal.z * t682)) + ((sabs (t523).normal.x) * t687)) + ((sabs (t523).normal.y) * t686)) + ((sabs (t523).normal.z) * t685)) - (t523).distance)
  let t793 := ((((((((t548).normal.x * t684) + ((t548).normal.y * t683)) + ((t548).normal.z * t682)) + ((sabs (t548).normal.x) * t687)) + ((sabs (t548).normal.y) * t686)) + ((sabs (t548).normal.z) * t685)) - (t548).distance)
  let t794 := ((((((((t543).normal.x * t684) + ((t543).normal.y * t683)) + ((t543).normal.z * t682)) + ((sabs (t543).normal.x) * t687)) + ((sabs (t543).normal.y) * t686)) + ((sabs (t543).normal.z) * t685)) - (t543).distance)
  let t795 := ((((((((t538).normal.x * t684) + ((t538).normal.y * t683)) + ((t538).normal.z * t682)) + ((sabs (t538).normal.x) * t687)) + ((sabs (t538).normal.y) * t686)) + ((sabs (t538).normal.z) * t685)) - (t538).distance)
  if bx.max.x < bx.min.x then
    false
  else
    if bx.max.y < bx.min.y then
      false
    else
      if bx.max.z < bx.min.z then
        false
      else
        if (0 : α) ≤ t783 then
          false
        else
          if (0 : α) ≤ t782 then
            false
          else
            if (0 : α) ≤ t781 then
              false
            else
              if (0 : α) ≤ t795 then
                false
              else
                if (0 : α) ≤ t794 then
                  false
                else
                  if (0 : α) ≤ t793 then
                    false
                  else
                    true

/-- extracted from the C++ template at T = Sym; 1 path(s) -/
def FrustumTest.setFrustum_ortho {α : Type} [Add α] [Sub α] [Mul α] [Div α] [Neg α] [LT α] [LE α] [DecidableLT α] [DecidableLE α] [DecidableEq α] [OfNat α 0] [OfNat α 2] (tmin : α) (tmax : α) (sqrt : α → α) (n : α) (f : α) (l : α) (r : α) (t : α) (b : α) (M : M44 α) : ((V3 α) × (V3 α) × (V3 α) × (V3 α) × (V3 α) × (V3 α) × (V3 α) × (V3 α) × (V3 α) × (V3 α) × (V3 α) × (V3 α) × (V3 α) × (V3 α)) :=
  let t796 := (Frustum.planesM_ortho_0 tmin tmax sqrt n f l r t b ⟨M.x00, M.x01, M.x02, M.x03, M.x10, M.x11, M.x12, M.x13, M.x20, M.x21, M.x22, M.x23, M.x30, M.x31, M.x32, M.x33⟩)
  let t801 := (Frustum.planesM_ortho_1 tmin tmax sqrt n f l r t b ⟨M.x00, M.x01, M.x02, M.x03, M.x10, M.x11, M.x12, M.x13, M.x20, M.x21, M.x22, M.x23, M.x30, M.x31, M.x32, M.x33⟩)
  let t806 := (Frustum.planesM_ortho_2 tmin tmax sqrt n f l r t b ⟨M.x00, M.x01, M.x02, M.x03, M.x10, M.x11, M.x12, M.x13, M.x20, M.x21, M.x22, M.x23, M.x30, M.x31, M.x32, M.x33⟩)
  let t811 := (Frustum.planesM_ortho_3 tmin tmax sqrt n f l r t b ⟨M.x00, M.x01, M.x02, M.x03, M.x10, M.x11, M.x12, M.x13, M.x20, M.x21, M.x22, M.x23, M.x30, M.x31, M.x32, M.x33⟩)
  let t816 := (Frustum.planesM_ortho_4 tmin tmax sqrt n f l r t b ⟨M.x00, M.x01, M.x02, M.x03, M.x10, M.x11, M.x12, M.x13, M.x20, M.x21, M.x22, M.x23, M.x30, M.x31, M.x32, M.x33⟩)
  let t821 := (Frustum.planesM_ortho_5 tmin tmax sqrt n f l r t b ⟨M.x00, M.x01, M.x02, M.x03, M.x10, M.x11, M.x12, M.x13, M.x20, M.x21, M.x22, M.x23, M.x30, M.x31, M.x32, M.x33⟩)
  (⟨(t796).normal.x, (t801).normal.x, (t806).normal.x⟩, ⟨(t811).normal.x, (t816).normal.x, (t821).normal.x⟩, ⟨(t796).normal.y, (t801).normal.y, (t806).normal.y⟩, ⟨(t811).normal.y, (t816).normal.y, (t821).normal.y⟩, ⟨(t796).normal.z, (t801).normal.z, (t806).normal.z⟩, ⟨(t811).normal.z, (t816).normal.z, (t821).normal.z⟩, ⟨(t796).distance, (t801).distance, (t806).distance⟩, ⟨(t811).distance, (t816).distance, (t821).distance⟩, ⟨((sabs (t796).normal.x) + (0 : α)), ((sabs (t801).normal.x) + (0 : α)), ((sabs (t806).normal.x) + (0 : α))⟩, ⟨((sabs (t811).normal.x) + (0 : α)), ((sabs (t816).normal.x) + (0 : α)), ((sabs (t821).normal.x) + (0 : α))⟩, ⟨((sabs (t796).normal.y) + (0 : α)), ((sabs (t801).normal.y) + (0 : α)), ((sabs (t806).normal.y) + (0 : α))⟩, ⟨((sabs (t811).normal.y) + (0 : α)), ((sabs (t816).normal.y) + (0 : α)), ((sabs (t821).normal.y) + (0 : α))⟩, ⟨((sabs (t796).normal.z) + (0 : α)), ((sabs (t801).normal.z) + (0 : α)), ((sabs (t806).normal.z) + (0 : α))⟩, ⟨((sabs (t811).normal.z) + (0 : α)), ((sabs (t816).normal.z) + (0 : α)), ((sabs (t821).normal.z) + (0 : α))⟩)

/-- extracted from the C++ template at T = Sym; 7 path(s) -/
def FrustumTest.isVisiblePoint_ortho {α : Type} [Add α] [Sub α] [Mul α] [Div α] [Neg α] [LT α] [LE α] [DecidableLT α] [DecidableLE α] [DecidableEq α] [OfNat α 0] [OfNat α 2] (tmin : α) (tmax : α) (sqrt : α → α) (n : α) (f : α) (l : α) (r : α) (t : α) (b : α) (M : M44 α) (v : V3 α) : Bool :=
  let t796 := (Frustum.planesM_ortho_0 tmin tmax sqrt n f l r t b ⟨M.x00, M.x01, M.x02, M.x03, M.x10, M.x11, M.x12, M.x13, M.x20, M.x21, M.x22, M.x23, M.x30, M.x31, M.x32, M.x33⟩)
  let t801 := (Frustum.planesM_ortho_1 tmin tmax sqrt n f l r t b ⟨M.x00, M.x01, M.x02, M.x03, M.x10, M.x11, M.x12, M.x13, M.x20, M.x21, M.x22, M.x23, M.x30, M.x31, M.x32, M.x33⟩)
  let t806 := (Frustum.planesM_ortho_2 tmin tmax sqrt n f l r t b ⟨M.x00, M.x01, M.x02, M.x03, M.x10, M.x11, M.x12, M.x13, M.x20, M.x21, M.x22, M.x23, M.x30, M.x31, M.x32, M.x33⟩)
  let t811 := (Frustum.planesM_ortho_3 tmin tmax sqrt n f l r t b ⟨M.x00, M.x01, M.x02, M.x03, M.x10, M.x11, M.x12, M.x13, M.x20, M.x21, M.x22, M.x23, M.x30, M.x31, M.x32, M.x33⟩)
  let t816 := (Frustum.planesM_ortho_4 tmin tmax sqrt n f l r t b ⟨M.x00, M.x01, M.x02, M.x03, M.x10, M.x11, M.x12, M.x13, M.x20, M.x21, M.x22, M.x23, M.x30, M.x31, M.x32, M.x33⟩)
  let t821 := (Frustum.planesM_ortho_5 tmin tmax sqrt n f l r t b ⟨M.x00, M.x01, M.x02, M.x03, M.x10, M.x11, M.x12, M.x13, M.x20, M.x21, M.x22, M.x23, M.x30, M.x31, M.x32, M.x33⟩)
  let t877 := (((((t806).normal.x * v.x) + ((t806).normal.y * v.y)) + ((t806).normal.z * v.z)) - (t806).distance)
  let t878 := (((((t801).normal.x * v.x) + ((t801).normal.y * v.y)) + ((t801).normal.z * v.z)) - (t801).distance)
  let t879 := (((((t796).normal.x * v.x) + ((t796).normal.y * v.y)) + ((t796).normal.z * v.z)) - (t796).distance)
  let t895 := (((((t821).normal.x * v.x) + ((t821).normal.y * v.y)) + ((t821).normal.z * v.z)) - (t821).distance)
  let t896 := (((((t816).normal.x * v.x) + ((t816).normal.y * v.y)) + ((t816).normal.z * v.z)) - (t816).distance)
  let t897 := (((((t811).normal.x * v.x) + ((t811).normal.y * v.y)) + ((t811).normal.z * v.z)) - (t811).distance)
  if (0 : α) ≤ t879 then
    false
  else
    if (0 : α) ≤ t878 then
      false
    else
      if (0 : α) ≤ t877 then
        false
      else
        if (0 : α) ≤ t897 then
          false
        else
          if (0 : α) ≤ t896 then
            false
          else
            if (0 : α) ≤ t895 then
              false
            else
              true

/-- extracted from the C++ template at T = Sym; 7 path(s) -/
def FrustumTest.isVisibleSphere_ortho {α : Type} [Add α] [Sub α] [Mul α] [Div α] [Neg α] [LT α] [LE α] [DecidableLT α] [DecidableLE α] [DecidableEq α] [OfNat α 0] [OfNat α 2] (tmin : α) (tmax : α) (sqrt : α → α) (n : α) (f : α) (l : α) (r : α) (t : α) (b : α) (M : M44 α) (s : Sphere3 α) : Bool :=
  let t796 := (Frustum.planesM_ortho_0 tmin tmax sqrt n f l r t b ⟨M.x00, M.x01, M.x02, M.x03, M.x10, M.x11, M.x12, M.x13, M.x20, M.x21, M.x22, M.x23, M.x30, M.x31, M.x32, M.x33⟩)
  let t801 := (Frustum.planesM_ortho_1 tmin tmax sqrt n f l r t b ⟨M.x00, M.x01, M.x02, M.x03, M.x10, M.x11, M.x12, M.x13, M.x20, M.x21, M.x22, M.x23, M.x30, M.x31, M.x32, M.x33⟩)
  let t806 := (Frustum.planesM_ortho_2 tmin tmax sqrt n f l r t b ⟨M.x00, M.x01, M.x02, M.x03, M.x10, M.x11, M.x12, M.x13, M.x20, M.x21, M.x22, M.x23, M.x30, M.x31, M.x32, M.x33⟩)
  let t811 := (Frustum.planesM_ortho_3 tmin tmax sqrt n f l r t b ⟨M.x00, M.x01, M.x02, M.x03, M.x10, M.x11, M.x12, M.x13, M.x20, M.x21, M.x22, M.x23, M.x30, M.x31, M.x32, M.x33⟩)
  let t816 := (Frustum.planesM_ortho_4 tmin tmax sqrt n f l r t b ⟨M.x00, M.x01, M.x02, M.x03, M.x10, M.x11, M.x12, M.x13, M.x20, M.x21, M.x22, M.x23, M.x30, M.x31, M.x32, M.x33⟩)
  let t821 := (Frustum.planesM_ortho_5 tmin tmax sqrt n f l r t b ⟨M.x00, M.x01, M.x02, M.x03, M.x10, M.x11, M.x12, M.x13, M.x20, M.x21, M.x22, M.x23, M.x30, M.x31, M.x32, M.x33⟩)
  let t916 := ((((((t806).normal.x * s.center.x) + ((t806).normal.y * s.center.y)) + ((t806).normal.z * s.center.z)) - s.radius) - (t806).distance)
  let t917 := ((((((t801).normal.x * s.center.x) + ((t801).normal.y * s.center.y)) + ((t801).normal.z * s.center.z)) - s.radius) - (t801).distance)
  let t918 := ((((((t796).normal.x * s.center.x) + ((t796).normal.y * s.center.y)) + ((t796).normal.z * s.center.z)) - s.radius) - (t796).distance)
  let t937 := ((((((t821).normal.x * s.center.x) + ((t821).normal.y * s.center.y)) + ((t821).normal.z * s.center.z)) - s.radius) - (t821).distance)
  let t938 := ((((((t816).normal.x * s.center.x) + ((t816).normal.y * s.center.y)) + ((t816).normal.z * s.center.z)) - s.radius) - (t816).distance)
  let t939 := ((((((t811).normal.x * s.center.x) + ((t811).normal.y * s.center.y)) + ((t811).normal.z * s.center.z)) - s.radius) - (t811).distance)
  if (0 : α) ≤ t918 then
    false
  else
    if (0 : α) ≤ t917 then
      false
    else
      if (0 : α) ≤ t916 then
        false
      else
        if (0 : α) ≤ t939 then
          false
        else
          if (0 : α) ≤ t938 then
            false
          else
            if (0 : α) ≤ t937 then
              false
            else
              true

/-- extracted from the C++ template at T = Sym; 10 path(s) -/
def FrustumTest.isVisibleBox_ortho {α : Type} [Add α] [Sub α] [Mul α] [Div α] [Neg α] [LT α] [LE α] [DecidableLT α] [DecidableLE α] [DecidableEq α] [OfNat α 0] [OfNat α 2] (tmin : α) (tmax : α) (sqrt : α → α) (n : α) (f : α) (l : α) (r : α) (t : α) (b : α) (M : M44 α) (bx : Box3 α) : Bool :=
  let t682 := ((bx.min.z + bx.max.z) / (2 : α))
  let t683 := ((bx.min.y + bx.max.y) / (2 : α))
  let t684 := ((bx.min.x + bx.max.x) / (2 : α))
  let t685 := (bx.max.z - t682)
  let t686 := (bx.max.y - t683)
  let t687 := (bx.max.x - t684)
  let t796 := (Frustum.planesM_ortho_0 tmin tmax sqrt n f l r t b ⟨M.x00, M.x01, M.x02, M.x03, M.x10, M.x11, M.x12, M.x13, M.x20, M.x21, M.x22, M.x23, M.x30, M.x31, M.x32, M.x33⟩)
  let t801 := (Frustum.planesM_ortho_1 tmin tmax sqrt n f l r t b ⟨M.x00, M.x01, M.x02, M.x03, M.x10, M.x11, M.x12, M.x13, M.x20, M.x21, M.x22, M.x23, M.x30, M.x31, M.x32, M.x33⟩)
  let t806 := (Frustum.planesM_ortho_2 tmin tmax sqrt n f l r t b ⟨M.x00, M.x01, M.x02, M.x03, M.x10, M.x11, M.x12, M.x13, M.x20, M.x21, M.x22, M.x23, M.x30, M.x31, M.x32, M.x33⟩)
  let t811 := (Frustum.planesM_ortho_3 tmin tmax sqrt n f l r t b ⟨M.x00, M.x01, M.x02, M.x03, M.x10, M.x11, M.x12, M.x13, M.x20, M.x21, M.x22, M.x23, M.x30, M.x31, M.x32, M.x33⟩)
  let t816 := (Frustum.planesM_ortho_4 tmin tmax sqrt n f l r t b ⟨M.x00, M.x01, M.x02, M.x03, M.x10, M.x11, M.x12, M.x13, M.x20, M.x21, M.x22, M.x23, M.x30, M.x31, M.x32, M.x33⟩)
  let t821 := (Frustum.planesM_ortho_5 tmin tmax sqrt n f l r t b ⟨M.x00, M.x01, M.x02, M.x03, M.x10, M.x11, M.x12, M.x13, M.x20, M.x21, M.x22, M.x23, M.x30, M.x31, M.x32, M.x33⟩)
  let t973 := ((((((((t806).normal.x * t684) + ((t806).normal.y * t683)) + ((t806).normal.z * t682)) - ((sabs (t806).normal.x) * t687)) - ((sabs (t806).normal.y) * t686)) - ((sabs (t806).normal.z) * t685)) - (t806).distance)
  let t974 := ((((((((t801).normal.x * t684) + ((t801).normal.y * t683)) + ((t801).normal.z * t682)) - ((sabs (t801).normal.x) * t687)) - ((sabs (t801).normal.y) * t686)) - ((sabs (t801).normal.z) * t685)) - (t801).distance)
  let t975 := ((((((((t796).normal.x * t684) + ((t796).normal.y * t683)) + ((t796).normal.z * t682)) - ((sabs (t796).normal.x) * t687)) - ((sabs (t796).normal.y) * t686)) - ((sabs (t796).normal.z) * t685)) - (t796).distance)
  let t1009 := ((((((((t821).normal.x * t684) + ((t821).normal.y * t683)) + ((t821).normal.z * t682)) - ((sabs (t821).normal.x) * t687)) - ((sabs (t821).normal.y) * t686)) - ((sabs (t821).normal.z) * t685)) - (t821).distance)
  let t1010 := ((((((((t816).normal.x * t684) + ((t816).normal.y * t683)) + ((t816).normal.z * t682)) - ((sabs (t816).normal.x) * t687)) - ((sabs (t816).normal.y) * t686)) - ((sabs (t816).normal.z) * t685)) - (t816).distance)
  let t1011 := ((((((((t811).normal.x * t684) + ((t811).normal.y * t683)) + ((t811).normal.z * t682)) - ((sabs (t811).normal.x) * t687)) - ((sabs (t811).normal.y) * t686)) - ((sabs (t811).normal.z) * t685)) - (t811).distance)
  if bx.max.x < bx.min.x then
    false
  else
    if bx.max.y < bx.min.y then
      false
    else
      if bx.max.z < bx.min.z then
        false
      else
        if (0 : α) ≤ t975 then
          false
        else
          if (0 : α) ≤ t974 then
            false
          else
            if (0 : α) ≤ t973 then
              false
            else
              if (0 : α) ≤ t1011 then
                false
              else
                if (0 : α) ≤ t1010 then
                  false
                else
                  if (0 : α) ≤ t1009 then
                    false
                  else
                    true

/-- extracted from the C++ template at T = Sym; 7 path(s) -/
def FrustumTest.completelyContainsSphere_ortho {α : Type} [Add α] [Sub α] [Mul α] [Div α] [Neg α] [LT α] [LE α] [DecidableLT α] [DecidableLE α] [DecidableEq α] [OfNat α 0] [OfNat α 2] (tmin : α) (tmax : α) (sqrt : α → α) (n : α) (f : α) (l : α) (r : α) (t : α) (b : α) (M : M44 α) (s : Sphere3 α) : Bool :=
  let t796 := (Frustum.planesM_ortho_0 tmin tmax sqrt n f l r t b ⟨M.x00, M.x01, M.x02, M.x03, M.x10, M.x11, M.x12, M.x13, M.x20, M.x21, M.x22, M.x23, M.x30, M.x31, M.x32, M.x33⟩)
  let t801 := (Frustum.planesM_ortho_1 tmin tmax sqrt n f l r t b ⟨M.x00, M.x01, M.x02, M.x03, M.x10, M.x11, M.x12, M.x13, M.x20, M.x21, M.x22, M.x23, M.x30, M.x31, M.x32, M.x33⟩)
  let t806 := (Frustum.planesM_ortho_2 tmin tmax sqrt n f l r t b ⟨M.x00, M.x01, M.x02, M.x03, M.x10, M.x11, M.x12, M.x13, M.x20, M.x21, M.x22, M.x23, M.x30, M.x31, M.x32, M.x33⟩)
  let t811 := (Frustum.planesM_ortho_3 tmin tmax sqrt n f l r t b ⟨M.x00, M.x01, M.x02, M.x03, M.x10, M.x11, M.x12, M.x13, M.x20, M.x21, M.x22, M.x23, M.x30, M.x31, M.x32, M.x33⟩)
  let t816 := (Frustum.planesM_ortho_4 tmin tmax sqrt n f l r t b ⟨M.x00, M.x01, M.x02, M.x03, M.x10, M.x11, M.x12, M.x13, M.x20, M.x21, M.x22, M.x23, M.x30, M.x31, M.x32, M.x33⟩)
  let t821 := (Frustum.planesM_ortho_5 tmin tmax sqrt n f l r t b ⟨M.x00, M.x01, M.x02, M.x03, M.x10, M.x11, M.x12, M.x13, M.x20, M.x21, M.x22, M.x23, M.x30, M.x31, M.x32, M.x33⟩)
  let t1015 := ((((((t806).normal.x * s.center.x) + ((t806).normal.y * s.center.y)) + ((t806).normal.z * s.center.z)) + s.radius) - (t806).distance)
  let t1016 := ((((((t801).normal.x * s.center.x) + ((t801).normal.y * s.center.y)) + ((t801).normal.z * s.center.z)) + s.radius) - (t801).distance)
  let t1017 := ((((((t796).normal.x * s.center.x) + ((t796).normal.y * s.center.y)) + ((t796).normal.z * s.center.z)) + s.radius) - (t796).distance)
  let t1021 := ((((((t821).normal.x * s.center.x) + ((t821).normal.y * s.center.y)) + ((t821).normal.z * s.center.z)) + s.radius) - (t821).distance)
  let t1022 := ((((((t816).normal.x * s.center.x) + ((t816).normal.y * s.center.y)) + ((t816).normal.z * s.center.z)) + s.radius) - (t816).distance)
  let t1023 := ((((((t811).normal.x * s.center.x) + ((t811).normal.y * s.center.y)) + ((t811).normal.z * s.center.z)) + s.radius) - (t811).distance)
  if (0 : α) ≤ t1017 then
    false
  else
    if (0 : α) ≤ t1016 then
      false
    else
      if (0 : α) ≤ t1015 then
        false
      else
        if (0 : α) ≤ t1023 then
          false
        else
          if (0 : α) ≤ t1022 then
            false
          else
            if (0 : α) ≤ t1021 then
              false
            else
              true

/-- extracted from the C++ template at T = Sym; 10 path(s) -/
def FrustumTest.completelyContainsBox_ortho {α : Type} [Add α] [Sub α] [Mul α] [Div α] [Neg α] [LT α] [LE α] [DecidableLT α] [DecidableLE α] [DecidableEq α] [OfNat α 0] [OfNat α 2] (tmin : α) (tmax : α) (sqrt : α → α) (n : α) (f : α) (l : α) (r : α) (t : α) (b : α) (M : M44 α) (bx : Box3 α) : Bool :=
  let t682 := ((bx.min.z + bx.max.z) / (2 : α))
  let t683 := ((bx.min.y + bx.max.y) / (2 : α))
  let t684 := ((bx.min.x + bx.max.x) / (2 : α))
  let t685 := (bx.max.z - t682)
  let t686 := (bx.max.y - t683)
  let t687 := (bx.max.x - t684)
  let t796 := (Frustum.planesM_ortho_0 tmin tmax sqrt n f l r t b ⟨M.x00, M.x01, M.x02, M.x03, M.x10, M.x11, M.x12, M.x13, M.x20, M.x21, M.x22, M.x23, M.x30, M.x31, M.x32, M.x33⟩)
  let t801 := (Frustum.planesM_ortho_1 tmin tmax sqrt n f l r t b ⟨M.x00, M.x01, M.x02, M.x03, M.x10, M.x11, M.x12, M.x13, M.x20, M.x21, M.x22, M.x23, M.x30, M.x31, M.x32, M.x33⟩)
  let t806 := (Frustum.planesM_ortho_2 tmin tmax sqrt n f l r t b ⟨M.x00, M.x01, M.x02, M.x03, M.x10, M.x11, M.x12, M.x13, M.x20, M.x21, M.x22, M.x23, M.x30, M.x31, M.x32, M.x33⟩)
  let t811 := (Frustum.planesM_ortho_3 tmin tmax sqrt n f l r t b ⟨M.x00, M.x01, M.x02, M.x03, M.x10, M.x11, M.x12, M.x13, M.x20, M.x21, M.x22, M.x23, M.x30, M.x31, M.x32, M.x33⟩)
  let t816 := (Frustum.planesM_ortho_4 tmin tmax sqrt n f l r t b ⟨M.x00, M.x01, M.x02, M.x03, M.x10, M.x11, M.x12, M.x13, M.x20, M.x21, M.x22, M.x23, M.x30, M.x31, M.x32, M.x33⟩)
  let t821 := (Frustum.planesM_ortho_5 tmin tmax sqrt n f l r t b ⟨M.x00, M.x01, M.x02, M.x03, M.x10, M.x11, M.x12, M.x13, M.x20, M.x21, M.x22, M.x23, M.x30, M.x31, M.x32, M.x33⟩)
  let t1033 := ((((((((t806).normal.x * t684) + ((t806).normal.y * t683)) + ((t806).normal.z * t682)) + ((sabs (t806).normal.x) * t687)) + ((sabs (t806).normal.y) * t686)) + ((sabs (t806).normal.z) * t685)) - (t806).distance)
  let t1034 := ((((((((t801).normal.x * t684) + ((t801).normal.y * t683)) + ((t801).normal.z * t682)) + ((sabs (t801).normal.x) * t687)) + ((sabs (t801).normal.y) * t686)) + ((sabs (t801).normal.z) * t685)) - (t801).distance)
  let t1035 := ((((((((t796).normal.x * t684) + ((t796).normal.y * t683)) + ((t796).normal.z * t682)) + ((sabs (t796).normal.x) * t687)) + ((sabs (t796).normal.y) * t686)) + ((sabs (t796).normal.z) * t685)) - (t796).distance)
  let t1045 := ((((((((t821).normal.x * t684) + ((t821).normal.y * t683)) + ((t821).normal.z * t682)) + ((sabs (t821).normal.x) * t687)) + ((sabs (t821).normal.y) * t686)) + ((sabs (t821).normal.z) * t685)) - (t821).distance)
  let t1046 := ((((((((t816).normal.x * t684) + ((t816).normal.y * t683)) + ((t816).normal.z * t682)) + ((sabs (t816).normal.x) * t687)) + ((sabs (t816).normal.y) * t686)) + ((sabs (t816).normal.z) * t685)) - (t816).distance)
  let t1047 := ((((((((t811).normal.x * t684) + ((t811).normal.y * t683)) + ((t811).normal.z * t682)) + ((sabs (t811).normal.x) * t687)) + ((sabs (t811).normal.y) * t686)) + ((sabs (t811).normal.z) * t685)) - (t811).distance)
  if bx.max.x < bx.min.x then
    false
  else
    if bx.max.y < bx.min.y then
      false
    else
      if bx.max.z < bx.min.z then
        false
      else
        if (0 : α) ≤ t1035 then
          false
        else
          if (0 : α) ≤ t1034 then
            false
          else
            if (0 : α) ≤ t1033 then
              false
            else
              if (0 : α) ≤ t1047 then
                false
              else
                if (0 : α) ≤ t1046 then
                  false
                else
                  if (0 : α) ≤ t1045 then
                    false
                  else
                    true

/-- extracted from the C++ template at T = Sym; 1 path(s) -/
def FrustumTest.stores_persp {α : Type} (n : α) (f : α) (l : α) (r : α) (t : α) (b : α) (M : M44 α) : (α × α × α × α × α × α × Bool × (M44 α)) :=
  (n, f, l, r, b, b, false, ⟨M.x00, M.x01, M.x02, M.x03, M.x10, M.x11, M.x12, M.x13, M.x20, M.x21, M.x22, M.x23, M.x30, M.x31, M.x32, M.x33⟩)

/-- extracted from the C++ template at T = Sym; 1 path(s) -/
def FrustumTest.stores_ortho {α : Type} (n : α) (f : α) (l : α) (r : α) (t : α) (b : α) (M : M44 α) : (α × α × α × α × α × α × Bool × (M44 α)) :=
  (n, f, l, r, b, b, true, ⟨M.x00, M.x01, M.x02, M.x03, M.x10, M.x11, M.x12, M.x13, M.x20, M.x21, M.x22, M.x23, M.x30, M.x31, M.x32, M.x33⟩)

/-- extracted from the C++ template at T = Sym; 1 path(s) -/
def FrustumTest.defaultCtor {α : Type} [Add α] [Sub α] [Mul α] [Div α] [Neg α] [LT α] [LE α] [DecidableLT α] [DecidableLE α] [DecidableEq α] [OfNat α 0] [OfNat α 1] [OfNat α 2] [OfNat α 1000] [OfNat α 3602879701896397] [OfNat α 18014398509481984] (tmin : α) (tmax : α) (sqrt : α → α) : (α × α × α × α × α × α × Bool × (M44 α) × (V3 α) × (V3 α) × (V3 α) × (V3 α) × (V3 α) × (V3 α) × (V3 α) × (V3 α) × (V3 α) × (V3 α) × (V3 α) × (V3 α) × (V3 α) × (V3 α)) :=
  let t1048 := (Frustum.planesM_persp_0 tmin tmax sqrt ((3602879701896397 : α) / (18014398509481984 : α)) (1000 : α) (-(1 : α)) (1 : α) (1 : α) (-(1 : α)) ⟨(1 : α), (0 : α), (0 : α), (0 : α), (0 : α), (1 : α), (0 : α), (0 : α), (0 : α), (0 : α), (1 : α), (0 : α), (0 : α), (0 : α), (0 : α), (1 : α)⟩)
  let t1053 := (Frustum.planesM_persp_1 tmin tmax sqrt ((3602879701896397 : α) / (18014398509481984 : α)) (1000 : α) (-(1 : α)) (1 : α) (1 : α) (-(1 : α)) ⟨(1 : α), (0 : α), (0 : α), (0 : α), (0 : α), (1 : α), (0 : α), (0 : α), (0 : α), (0 : α), (1 : α), (0 : α), (0 : α), (0 : α), (0 : α), (1 : α)⟩)
  let t1058 := (Frustum.planesM_persp_2 tmin tmax sqrt ((3602879701896397 : α) / (18014398509481984 : α)) (1000 : α) (-(1 : α)) (1 : α) (1 : α) (-(1 : α)) ⟨(1 : α), (0 : α), (0 : α), (0 : α), (0 : α), (1 : α), (0 : α), (0 : α), (0 : α), (0 : α), (1 : α), (0 : α), (0 : α), (0 : α), (0 : α), (1 : α)⟩)
  let t1063 := (Frustum.planesM_persp_3 tmin tmax sqrt ((3602879701896397 : α) / (18014398509481984 : α)) (1000 : α) (-(1 : α)) (1 : α) (1 : α) (-(1 : α)) ⟨(1 : α), (0 : α), (0 : α), (0 : α), (0 : α), (1 : α), (0 : α), (0 : α), (0 : α), (0 : α), (1 : α), (0 : α), (0 : α), (0 : α), (0 : α), (1 : α)⟩)
  let t1068 := (Frustum.planesM_persp_4 tmin tmax sqrt ((3602879701896397 : α) / (18014398509481984 : α)) (1000 : α) (-(1 : α)) (1 : α) (1 : α) (-(1 : α)) ⟨(1 : α), (0 : α), (0 : α), (0 : α), (0 : α), (1 : α), (0 : α), (0 : α), (0 : α), (0 : α), (1 : α), (0 : α), (0 : α), (0 : α), (0 : α), (1 : α)⟩)
  let t1073 := (Frustum.planesM_persp_5 tmin tmax sqrt ((3602879701896397 : α) / (18014398509481984 : α)) (1000 : α) (-(1 : α)) (1 : α) (1 : α) (-(1 : α)) ⟨(1 : α), (0 : α), (0 : α), (0 : α), (0 : α), (1 : α), (0 : α), (0 : α), (0 : α), (0 : α), (1 : α), (0 : α), (0 : α), (0 : α), (0 : α), (1 : α)⟩)
  (((3602879701896397 : α) / (18014398509481984 : α)), (1000 : α), (-(1 : α)), (1 : α), (-(1 : α)), (-(1 : α)), false, ⟨(1 : α), (0 : α), (0 : α), (0 : α), (0 : α), (1 : α), (0 : α), (0 : α), (0 : α), (0 : α), (1 : α), (0 : α), (0 : α), (0 : α), (0 : α), (1 : α)⟩, ⟨(t1048).normal.x, (t1053).normal.x, (t1058).normal.x⟩, ⟨(t1063).normal.x, (t1068).normal.x, (t1073).normal.x⟩, ⟨(t1048).normal.y, (t1053).normal.y, (t1058).normal.y⟩, ⟨(t1063).normal.y, (t1068).normal.y, (t1073).normal.y⟩, ⟨(t1048).normal.z, (t1053).normal.z, (t1058).normal.z⟩, ⟨(t1063).normal.z, (t1068).normal.z, (t1073).normal.z⟩, ⟨(t1048).distance, (t1053).distance, (t1058).distance⟩, ⟨(t1063).distance, (t1068).distance, (t1073).distance⟩, ⟨((sabs (t1048).normal.x) + (0 : α)), ((sabs (t1053).normal.x) + (0 : α)), ((sabs (t1058).normal.x) + (0 : α))⟩, ⟨((sabs (t1063).normal.x) + (0 : α)), ((sabs (t1068).normal.x) + (0 : α)), ((sabs (t1073).normal.x) + (0 : α))⟩, ⟨((sabs (t1048).normal.y) + (0 : α)), ((sabs (t1053).normal.y) + (0 : α)), ((sabs (t1058).normal.y) + (0 : α))⟩, ⟨((sabs (t1063).normal.y) + (0 : α)), ((sabs (t1068).normal.y) + (0 : α)), ((sabs (t1073).normal.y) + (0 : α))⟩, ⟨((sabs (t1048).normal.z) + (0 : α)), ((sabs (t1053).normal.z) + (0 : α)), ((sabs (t1058).normal.z) + (0 : α))⟩, ⟨((sabs (t1063).normal.z) + (0 : α)), ((sabs (t1068).normal.z) + (0 : α)), ((sabs (t1073).normal.z) + (0 : α))⟩)

end ImathVerif.Gen
