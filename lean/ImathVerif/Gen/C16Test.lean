-- GENERATED from /repo/src/Imath by harness/sym (T = Sym path extraction); do not edit.
import ImathVerif.Basic.Types
import ImathVerif.Gen.C16PlanesM
set_option linter.unusedVariables false
namespace ImathVerif.Gen
open ImathVerif

/-- extracted from the C++ template at T = Sym; 1 path(s) -/
def FrustumTest.setFrustum_persp {α : Type} [Add α] [Sub α] [Mul α] [Div α] [Neg α] [LT α] [LE α] [DecidableLT α] [DecidableLE α] [DecidableEq α] [OfNat α 0] [OfNat α 2] (tmin : α) (tmax : α) (sqrt : α → α) (n : α) (f : α) (l : α) (r : α) (t : α) (b : α) (M : M44 α) : ((V3 α) × (V3 α) × (V3 α) × (V3 α) × (V3 α) × (V3 α) × (V3 α) × (V3 α) × (V3 α) × (V3 α) × (V3 α) × (V3 α) × (V3 α) × (V3 α)) :=
  let t530 := (Frustum.planesM_persp_0 tmin tmax sqrt n f l r t b ⟨M.x00, M.x01, M.x02, M.x03, M.x10, M.x11, M.x12, M.x13, M.x20, M.x21, M.x22, M.x23, M.x30, M.x31, M.x32, M.x33⟩)
  let t535 := (Frustum.planesM_persp_1 tmin tmax sqrt n f l r t b ⟨M.x00, M.x01, M.x02, M.x03, M.x10, M.x11, M.x12, M.x13, M.x20, M.x21, M.x22, M.x23, M.x30, M.x31, M.x32, M.x33⟩)
  let t540 := (Frustum.planesM_persp_2 tmin tmax sqrt n f l r t b ⟨M.x00, M.x01, M.x02, M.x03, M.x10, M.x11, M.x12, M.x13, M.x20, M.x21, M.x22, M.x23, M.x30, M.x31, M.x32, M.x33⟩)
  let t545 := (Frustum.planesM_persp_3 tmin tmax sqrt n f l r t b ⟨M.x00, M.x01, M.x02, M.x03, M.x10, M.x11, M.x12, M.x13, M.x20, M.x21, M.x22, M.x23, M.x30, M.x31, M.x32, M.x33⟩)
  let t550 := (Frustum.planesM_persp_4 tmin tmax sqrt n f l r t b ⟨M.x00, M.x01, M.x02, M.x03, M.x10, M.x11, M.x12, M.x13, M.x20, M.x21, M.x22, M.x23, M.x30, M.x31, M.x32, M.x33⟩)
  let t555 := (Frustum.planesM_persp_5 tmin tmax sqrt n f l r t b ⟨M.x00, M.x01, M.x02, M.x03, M.x10, M.x11, M.x12, M.x13, M.x20, M.x21, M.x22, M.x23, M.x30, M.x31, M.x32, M.x33⟩)
  (⟨(t530).normal.x, (t535).normal.x, (t540).normal.x⟩, ⟨(t545).normal.x, (t550).normal.x, (t555).normal.x⟩, ⟨(t530).normal.y, (t535).normal.y, (t540).normal.y⟩, ⟨(t545).normal.y, (t550).normal.y, (t555).normal.y⟩, ⟨(t530).normal.z, (t535).normal.z, (t540).normal.z⟩, ⟨(t545).normal.z, (t550).normal.z, (t555).normal.z⟩, ⟨(t530).distance, (t535).distance, (t540).distance⟩, ⟨(t545).distance, (t550).distance, (t555).distance⟩, ⟨((sabs (t530).normal.x) + (0 : α)), ((sabs (t535).normal.x) + (0 : α)), ((sabs (t540).normal.x) + (0 : α))⟩, ⟨((sabs (t545).normal.x) + (0 : α)), ((sabs (t550).normal.x) + (0 : α)), ((sabs (t555).normal.x) + (0 : α))⟩, ⟨((sabs (t530).normal.y) + (0 : α)), ((sabs (t535).normal.y) + (0 : α)), ((sabs (t540).normal.y) + (0 : α))⟩, ⟨((sabs (t545).normal.y) + (0 : α)), ((sabs (t550).normal.y) + (0 : α)), ((sabs (t555).normal.y) + (0 : α))⟩, ⟨((sabs (t530).normal.z) + (0 : α)), ((sabs (t535).normal.z) + (0 : α)), ((sabs (t540).normal.z) + (0 : α))⟩, ⟨((sabs (t545).normal.z) + (0 : α)), ((sabs (t550).normal.z) + (0 : α)), ((sabs (t555).normal.z) + (0 : α))⟩)

/-- extracted from the C++ template at T = Sym; 7 path(s) -/
def FrustumTest.isVisiblePoint_persp {α : Type} [Add α] [Sub α] [Mul α] [Div α] [Neg α] [LT α] [LE α] [DecidableLT α] [DecidableLE α] [DecidableEq α] [OfNat α 0] [OfNat α 2] (tmin : α) (tmax : α) (sqrt : α → α) (n : α) (f : α) (l : α) (r : α) (t : α) (b : α) (M : M44 α) (v : V3 α) : Bool :=
  let t530 := (Frustum.planesM_persp_0 tmin tmax sqrt n f l r t b ⟨M.x00, M.x01, M.x02, M.x03, M.x10, M.x11, M.x12, M.x13, M.x20, M.x21, M.x22, M.x23, M.x30, M.x31, M.x32, M.x33⟩)
  let t535 := (Frustum.planesM_persp_1 tmin tmax sqrt n f l r t b ⟨M.x00, M.x01, M.x02, M.x03, M.x10, M.x11, M.x12, M.x13, M.x20, M.x21, M.x22, M.x23, M.x30, M.x31, M.x32, M.x33⟩)
  let t540 := (Frustum.planesM_persp_2 tmin tmax sqrt n f l r t b ⟨M.x00, M.x01, M.x02, M.x03, M.x10, M.x11, M.x12, M.x13, M.x20, M.x21, M.x22, M.x23, M.x30, M.x31, M.x32, M.x33⟩)
  let t545 := (Frustum.planesM_persp_3 tmin tmax sqrt n f l r t b ⟨M.x00, M.x01, M.x02, M.x03, M.x10, M.x11, M.x12, M.x13, M.x20, M.x21, M.x22, M.x23, M.x30, M.x31, M.x32, M.x33⟩)
  let t550 := (Frustum.planesM_persp_4 tmin tmax sqrt n f l r t b ⟨M.x00, M.x01, M.x02, M.x03, M.x10, M.x11, M.x12, M.x13, M.x20, M.x21, M.x22, M.x23, M.x30, M.x31, M.x32, M.x33⟩)
  let t555 := (Frustum.planesM_persp_5 tmin tmax sqrt n f l r t b ⟨M.x00, M.x01, M.x02, M.x03, M.x10, M.x11, M.x12, M.x13, M.x20, M.x21, M.x22, M.x23, M.x30, M.x31, M.x32, M.x33⟩)
  let t611 := (((((t540).normal.x * v.x) + ((t540).normal.y * v.y)) + ((t540).normal.z * v.z)) - (t540).distance)
  let t612 := (((((t535).normal.x * v.x) + ((t535).normal.y * v.y)) + ((t535).normal.z * v.z)) - (t535).distance)
  let t613 := (((((t530).normal.x * v.x) + ((t530).normal.y * v.y)) + ((t530).normal.z * v.z)) - (t530).distance)
  let t629 := (((((t555).normal.x * v.x) + ((t555).normal.y * v.y)) + ((t555).normal.z * v.z)) - (t555).distance)
  let t630 := (((((t550).normal.x * v.x) + ((t550).normal.y * v.y)) + ((t550).normal.z * v.z)) - (t550).distance)
  let t631 := (((((t545).normal.x * v.x) + ((t545).normal.y * v.y)) + ((t545).normal.z * v.z)) - (t545).distance)
  if (0 : α) ≤ t613 then
    false
  else
    if (0 : α) ≤ t612 then
      false
    else
      if (0 : α) ≤ t611 then
        false
      else
        if (0 : α) ≤ t631 then
          false
        else
          if (0 : α) ≤ t630 then
            false
          else
            if (0 : α) ≤ t629 then
              false
            else
              true

/-- extracted from the C++ template at T = Sym; 7 path(s) -/
def FrustumTest.isVisibleSphere_persp {α : Type} [Add α] [Sub α] [Mul α] [Div α] [Neg α] [LT α] [LE α] [DecidableLT α] [DecidableLE α] [DecidableEq α] [OfNat α 0] [OfNat α 2] (tmin : α) (tmax : α) (sqrt : α → α) (n : α) (f : α) (l : α) (r : α) (t : α) (b : α) (M : M44 α) (s : Sphere3 α) : Bool :=
  let t530 := (Frustum.planesM_persp_0 tmin tmax sqrt n f l r t b ⟨M.x00, M.x01, M.x02, M.x03, M.x10, M.x11, M.x12, M.x13, M.x20, M.x21, M.x22, M.x23, M.x30, M.x31, M.x32, M.x33⟩)
  let t535 := (Frustum.planesM_persp_1 tmin tmax sqrt n f l r t b ⟨M.x00, M.x01, M.x02, M.x03, M.x10, M.x11, M.x12, M.x13, M.x20, M.x21, M.x22, M.x23, M.x30, M.x31, M.x32, M.x33⟩)
  let t540 := (Frustum.planesM_persp_2 tmin tmax sqrt n f l r t b ⟨M.x00, M.x01, M.x02, M.x03, M.x10, M.x11, M.x12, M.x13, M.x20, M.x21, M.x22, M.x23, M.x30, M.x31, M.x32, M.x33⟩)
  let t545 := (Frustum.planesM_persp_3 tmin tmax sqrt n f l r t b ⟨M.x00, M.x01, M.x02, M.x03, M.x10, M.x11, M.x12, M.x13, M.x20, M.x21, M.x22, M.x23, M.x30, M.x31, M.x32, M.x33⟩)
  let t550 := (Frustum.planesM_persp_4 tmin tmax sqrt n f l r t b ⟨M.x00, M.x01, M.x02, M.x03, M.x10, M.x11, M.x12, M.x13, M.x20, M.x21, M.x22, M.x23, M.x30, M.x31, M.x32, M.x33⟩)
  let t555 := (Frustum.planesM_persp_5 tmin tmax sqrt n f l r t b ⟨M.x00, M.x01, M.x02, M.x03, M.x10, M.x11, M.x12, M.x13, M.x20, M.x21, M.x22, M.x23, M.x30, M.x31, M.x32, M.x33⟩)
  let t654 := ((((((t540).normal.x * s.center.x) + ((t540).normal.y * s.center.y)) + ((t540).normal.z * s.center.z)) - s.radius) - (t540).distance)
  let t655 := ((((((t535).normal.x * s.center.x) + ((t535).normal.y * s.center.y)) + ((t535).normal.z * s.center.z)) - s.radius) - (t535).distance)
  let t656 := ((((((t530).normal.x * s.center.x) + ((t530).normal.y * s.center.y)) + ((t530).normal.z * s.center.z)) - s.radius) - (t530).distance)
  let t675 := ((((((t555).normal.x * s.center.x) + ((t555).normal.y * s.center.y)) + ((t555).normal.z * s.center.z)) - s.radius) - (t555).distance)
  let t676 := ((((((t550).normal.x * s.center.x) + ((t550).normal.y * s.center.y)) + ((t550).normal.z * s.center.z)) - s.radius) - (t550).distance)
  let t677 := ((((((t545).normal.x * s.center.x) + ((t545).normal.y * s.center.y)) + ((t545).normal.z * s.center.z)) - s.radius) - (t545).distance)
  if (0 : α) ≤ t656 then
    false
  else
    if (0 : α) ≤ t655 then
      false
    else
      if (0 : α) ≤ t654 then
        false
      else
        if (0 : α) ≤ t677 then
          false
        else
          if (0 : α) ≤ t676 then
            false
          else
            if (0 : α) ≤ t675 then
              false
            else
              true

/-- extracted from the C++ template at T = Sym; 10 path(s) -/
def FrustumTest.isVisibleBox_persp {α : Type} [Add α] [Sub α] [Mul α] [Div α] [Neg α] [LT α] [LE α] [DecidableLT α] [DecidableLE α] [DecidableEq α] [OfNat α 0] [OfNat α 2] (tmin : α) (tmax : α) (sqrt : α → α) (n : α) (f : α) (l : α) (r : α) (t : α) (b : α) (M : M44 α) (bx : Box3 α) : Bool :=
  let t530 := (Frustum.planesM_persp_0 tmin tmax sqrt n f l r t b ⟨M.x00, M.x01, M.x02, M.x03, M.x10, M.x11, M.x12, M.x13, M.x20, M.x21, M.x22, M.x23, M.x30, M.x31, M.x32, M.x33⟩)
  let t535 := (Frustum.planesM_persp_1 tmin tmax sqrt n f l r t b ⟨M.x00, M.x01, M.x02, M.x03, M.x10, M.x11, M.x12, M.x13, M.x20, M.x21, M.x22, M.x23, M.x30, M.x31, M.x32, M.x33⟩)
  let t540 := (Frustum.planesM_persp_2 tmin tmax sqrt n f l r t b ⟨M.x00, M.x01, M.x02, M.x03, M.x10, M.x11, M.x12, M.x13, M.x20, M.x21, M.x22, M.x23, M.x30, M.x31, M.x32, M.x33⟩)
  let t545 := (Frustum.planesM_persp_3 tmin tmax sqrt n f l r t b ⟨M.x00, M.x01, M.x02, M.x03, M.x10, M.x11, M.x12, M.x13, M.x20, M.x21, M.x22, M.x23, M.x30, M.x31, M.x32, M.x33⟩)
  let t550 := (Frustum.planesM_persp_4 tmin tmax sqrt n f l r t b ⟨M.x00, M.x01, M.x02, M.x03, M.x10, M.x11, M.x12, M.x13, M.x20, M.x21, M.x22, M.x23, M.x30, M.x31, M.x32, M.x33⟩)
  let t555 := (Frustum.planesM_persp_5 tmin tmax sqrt n f l r t b ⟨M.x00, M.x01, M.x02, M.x03, M.x10, M.x11, M.x12, M.x13, M.x20, M.x21, M.x22, M.x23, M.x30, M.x31, M.x32, M.x33⟩)
  let t688 := ((bx.min.z + bx.max.z) / (2 : α))
  let t689 := ((bx.min.y + bx.max.y) / (2 : α))
  let t690 := ((bx.min.x + bx.max.x) / (2 : α))
  let t691 := (bx.max.z - t688)
  let t692 := (bx.max.y - t689)
  let t693 := (bx.max.x - t690)
  let t727 := ((((((((t540).normal.x * t690) + ((t540).normal.y * t689)) + ((t540).normal.z * t688)) - ((sabs (t540).normal.x) * t693)) - ((sabs (t540).normal.y) * t692)) - ((sabs (t540).normal.z) * t691)) - (t540).distance)
  let t728 := ((((((((t535).normal.x * t690) + ((t535).normal.y * t689)) + ((t535).normal.z * t688)) - ((sabs (t535).normal.x) * t693)) - ((sabs (t535).normal.y) * t692)) - ((sabs (t535).normal.z) * t691)) - (t535).distance)
  let t729 := ((((((((t530).normal.x * t690) + ((t530).normal.y * t689)) + ((t530).normal.z * t688)) - ((sabs (t530).normal.x) * t693)) - ((sabs (t530).normal.y) * t692)) - ((sabs (t530).normal.z) * t691)) - (t530).distance)
  let t763 := ((((((((t555).normal.x * t690) + ((t555).normal.y * t689)) + ((t555).normal.z * t688)) - ((sabs (t555).normal.x) * t693)) - ((sabs (t555).normal.y) * t692)) - ((sabs (t555).normal.z) * t691)) - (t555).distance)
  let t764 := ((((((((t550).normal.x * t690) + ((t550).normal.y * t689)) + ((t550).normal.z * t688)) - ((sabs (t550).normal.x) * t693)) - ((sabs (t550).normal.y) * t692)) - ((sabs (t550).normal.z) * t691)) - (t550).distance)
  let t765 := ((((((((t545).normal.x * t690) + ((t545).normal.y * t689)) + ((t545).normal.z * t688)) - ((sabs (t545).normal.x) * t693)) - ((sabs (t545).normal.y) * t692)) - ((sabs (t545).normal.z) * t691)) - (t545).distance)
  if bx.max.x < bx.min.x then
    false
  else
    if bx.max.y < bx.min.y then
      false
    else
      if bx.max.z < bx.min.z then
        false
      else
        if (0 : α) ≤ t729 then
          false
        else
          if (0 : α) ≤ t728 then
            false
          else
            if (0 : α) ≤ t727 then
              false
            else
              if (0 : α) ≤ t765 then
                false
              else
                if (0 : α) ≤ t764 then
                  false
                else
                  if (0 : α) ≤ t763 then
                    false
                  else
                    true

/-- extracted from the C++ template at T = Sym; 7 path(s) -/
def FrustumTest.completelyContainsSphere_persp {α : Type} [Add α] [Sub α] [Mul α] [Div α] [Neg α] [LT α] [LE α] [DecidableLT α] [DecidableLE α] [DecidableEq α] [OfNat α 0] [OfNat α 2] (tmin : α) (tmax : α) (sqrt : α → α) (n : α) (f : α) (l : α) (r : α) (t : α) (b : α) (M : M44 α) (s : Sphere3 α) : Bool :=
  let t530 := (Frustum.planesM_persp_0 tmin tmax sqrt n f l r t b ⟨M.x00, M.x01, M.x02, M.x03, M.x10, M.x11, M.x12, M.x13, M.x20, M.x21, M.x22, M.x23, M.x30, M.x31, M.x32, M.x33⟩)
  let t535 := (Frustum.planesM_persp_1 tmin tmax sqrt n f l r t b ⟨M.x00, M.x01, M.x02, M.x03, M.x10, M.x11, M.x12, M.x13, M.x20, M.x21, M.x22, M.x23, M.x30, M.x31, M.x32, M.x33⟩)
  let t540 := (Frustum.planesM_persp_2 tmin tmax sqrt n f l r t b ⟨M.x00, M.x01, M.x02, M.x03, M.x10, M.x11, M.x12, M.x13, M.x20, M.x21, M.x22, M.x23, M.x30, M.x31, M.x32, M.x33⟩)
  let t545 := (Frustum.planesM_persp_3 tmin tmax sqrt n f l r t b ⟨M.x00, M.x01, M.x02, M.x03, M.x10, M.x11, M.x12, M.x13, M.x20, M.x21, M.x22, M.x23, M.x30, M.x31, M.x32, M.x33⟩)
  let t550 := (Frustum.planesM_persp_4 tmin tmax sqrt n f l r t b ⟨M.x00, M.x01, M.x02, M.x03, M.x10, M.x11, M.x12, M.x13, M.x20, M.x21, M.x22, M.x23, M.x30, M.x31, M.x32, M.x33⟩)
  let t555 := (Frustum.planesM_persp_5 tmin tmax sqrt n f l r t b ⟨M.x00, M.x01, M.x02, M.x03, M.x10, M.x11, M.x12, M.x13, M.x20, M.x21, M.x22, M.x23, M.x30, M.x31, M.x32, M.x33⟩)
  let t769 := ((((((t540).normal.x * s.center.x) + ((t540).normal.y * s.center.y)) + ((t540).normal.z * s.center.z)) + s.radius) - (t540).distance)
  let t770 := ((((((t535).normal.x * s.center.x) + ((t535).normal.y * s.center.y)) + ((t535).normal.z * s.center.z)) + s.radius) - (t535).distance)
  let t771 := ((((((t530).normal.x * s.center.x) + ((t530).normal.y * s.center.y)) + ((t530).normal.z * s.center.z)) + s.radius) - (t530).distance)
  let t775 := ((((((t555).normal.x * s.center.x) + ((t555).normal.y * s.center.y)) + ((t555).normal.z * s.center.z)) + s.radius) - (t555).distance)
  let t776 := ((((((t550).normal.x * s.center.x) + ((t550).normal.y * s.center.y)) + ((t550).normal.z * s.center.z)) + s.radius) - (t550).distance)
  let t777 := ((((((t545).normal.x * s.center.x) + ((t545).normal.y * s.center.y)) + ((t545).normal.z * s.center.z)) + s.radius) - (t545).distance)
  if (0 : α) ≤ t771 then
    false
  else
    if (0 : α) ≤ t770 then
      false
    else
      if (0 : α) ≤ t769 then
        false
      else
        if (0 : α) ≤ t777 then
          false
        else
          if (0 : α) ≤ t776 then
            false
          else
            if (0 : α) ≤ t775 then
              false
            else
              true

/-- extracted from the C++ template at T = Sym; 10 path(s) -/
def FrustumTest.completelyContainsBox_persp {α : Type} [Add α] [Sub α] [Mul α] [Div α] [Neg α] [LT α] [LE α] [DecidableLT α] [DecidableLE α] [DecidableEq α] [OfNat α 0] [OfNat α 2] (tmin : α) (tmax : α) (sqrt : α → α) (n : α) (f : α) (l : α) (r : α) (t : α) (b : α) (M : M44 α) (bx : Box3 α) : Bool :=
  let t530 := (Frustum.planesM_persp_0 tmin tmax sqrt n f l r t b ⟨M.x00, M.x01, M.x02, M.x03, M.x10, M.x11, M.x12, M.x13, M.x20, M.x21, M.x22, M.x23, M.x30, M.x31, M.x32, M.x33⟩)
  let t535 := (Frustum.planesM_persp_1 tmin tmax sqrt n f l r t b ⟨M.x00, M.x01, M.x02, M.x03, M.x10, M.x11, M.x12, M.x13, M.x20, M.x21, M.x22, M.x23, M.x30, M.x31, M.x32, M.x33⟩)
  let t540 := (Frustum.planesM_persp_2 tmin tmax sqrt n f l r t b ⟨M.x00, M.x01, M.x02, M.x03, M.x10, M.x11, M.x12, M.x13, M.x20, M.x21, M.x22, M.x23, M.x30, M.x31, M.x32, M.x33⟩)
  let t545 := (Frustum.planesM_persp_3 tmin tmax sqrt n f l r t b ⟨M.x00, M.x01, M.x02, M.x03, M.x10, M.x11, M.x12, M.x13, M.x20, M.x21, M.x22, M.x23, M.x30, M.x31, M.x32, M.x33⟩)
  let t550 := (Frustum.planesM_persp_4 tmin tmax sqrt n f l r t b ⟨M.x00, M.x01, M.x02, M.x03, M.x10, M.x11, M.x12, M.x13, M.x20, M.x21, M.x22, M.x23, M.x30, M.x31, M.x32, M.x33⟩)
  let t555 := (Frustum.planesM_persp_5 tmin tmax sqrt n f l r t b ⟨M.x00, M.x01, M.x02, M.x03, M.x10, M.x11, M.x12, M.x13, M.x20, M.x21, M.x22, M.x23, M.x30, M.x31, M.x32, M.x33⟩)
  let t688 := ((bx.min.z + bx.max.z) / (2 : α))
  let t689 := ((bx.min.y + bx.max.y) / (2 : α))
  let t690 := ((bx.min.x + bx.max.x) / (2 : α))
  let t691 := (bx.max.z - t688)
  let t692 := (bx.max.y - t689)
  let t693 := (bx.max.x - t690)
  let t787 := ((((((((t540).normal.x * t690) + ((t540).normal.y * t689)) + ((t540).normal.z * t688)) + ((sabs (t540).normal.x) * t693)) + ((sabs (t540).normal.y) * t692)) + ((sabs (t540).normal.z) * t691)) - (t540).distance)
  let t788 := ((((((((t535).normal.x * t690) + ((t535).normal.y * t689)) + ((t535).normal.z * t688)) + ((sabs (t535).normal.x) * t693)) + ((sabs (t535).normal.y) * t692)) + ((sabs (t535).normal.z) * t691)) - (t535).distance)
  let t789 := ((((((((t530).normal.x * t690) + ((t530).normal.y * t689)) + ((t530).normal.z * t688)) + ((sabs (t530).normal.x) * t693)) + ((sabs (t530).normal.y) * t692)) + ((sabs (t530).normal.z) * t691)) - (t530).distance)
  let t799 := ((((((((t555).normal.x * t690) + ((t555).normal.y * t689)) + ((t555).normal.z * t688)) + ((sabs (t555).normal.x) * t693)) + ((sabs (t555).normal.y) * t692)) + ((sabs (t555).normal.z) * t691)) - (t555).distance)
  let t800 := ((((((((t550).normal.x * t690) + ((t550).normal.y * t689)) + ((t550).normal.z * t688)) + ((sabs (t550).normal.x) * t693)) + ((sabs (t550).normal.y) * t692)) + ((sabs (t550).normal.z) * t691)) - (t550).distance)
  let t801 := ((((((((t545).normal.x * t690) + ((t545).normal.y * t689)) + ((t545).normal.z * t688)) + ((sabs (t545).normal.x) * t693)) + ((sabs (t545).normal.y) * t692)) + ((sabs (t545).normal.z) * t691)) - (t545).distance)
  if bx.max.x < bx.min.x then
    false
  else
    if bx.max.y < bx.min.y then
      false
    else
      if bx.max.z < bx.min.z then
        false
      else
        if (0 : α) ≤ t789 then
          false
        else
          if (0 : α) ≤ t788 then
            false
          else
            if (0 : α) ≤ t787 then
              false
            else
              if (0 : α) ≤ t801 then
                false
              else
                if (0 : α) ≤ t800 then
                  false
                else
                  if (0 : α) ≤ t799 then
                    false
                  else
                    true

/-- extracted from the C++ template at T = Sym; 1 path(s) -/
def FrustumTest.setFrustum_ortho {α : Type} [Add α] [Sub α] [Mul α] [Div α] [Neg α] [LT α] [LE α] [DecidableLT α] [DecidableLE α] [DecidableEq α] [OfNat α 0] [OfNat α 2] (tmin : α) (tmax : α) (sqrt : α → α) (n : α) (f : α) (l : α) (r : α) (t : α) (b : α) (M : M44 α) : ((V3 α) × (V3 α) × (V3 α) × (V3 α) × (V3 α) × (V3 α) × (V3 α) × (V3 α) × (V3 α) × (V3 α) × (V3 α) × (V3 α) × (V3 α) × (V3 α)) :=
  let t802 := (Frustum.planesM_ortho_0 tmin tmax sqrt n f l r t b ⟨M.x00, M.x01, M.x02, M.x03, M.x10, M.x11, M.x12, M.x13, M.x20, M.x21, M.x22, M.x23, M.x30, M.x31, M.x32, M.x33⟩)
  let t807 := (Frustum.planesM_ortho_1 tmin tmax sqrt n f l r t b ⟨M.x00, M.x01, M.x02, M.x03, M.x10, M.x11, M.x12, M.x13, M.x20, M.x21, M.x22, M.x23, M.x30, M.x31, M.x32, M.x33⟩)
  let t812 := (Frustum.planesM_ortho_2 tmin tmax sqrt n f l r t b ⟨M.x00, M.x01, M.x02, M.x03, M.x10, M.x11, M.x12, M.x13, M.x20, M.x21, M.x22, M.x23, M.x30, M.x31, M.x32, M.x33⟩)
  let t817 := (Frustum.planesM_ortho_3 tmin tmax sqrt n f l r t b ⟨M.x00, M.x01, M.x02, M.x03, M.x10, M.x11, M.x12, M.x13, M.x20, M.x21, M.x22, M.x23, M.x30, M.x31, M.x32, M.x33⟩)
  let t822 := (Frustum.planesM_ortho_4 tmin tmax sqrt n f l r t b ⟨M.x00, M.x01, M.x02, M.x03, M.x10, M.x11, M.x12, M.x13, M.x20, M.x21, M.x22, M.x23, M.x30, M.x31, M.x32, M.x33⟩)
  let t827 := (Frustum.planesM_ortho_5 tmin tmax sqrt n f l r t b ⟨M.x00, M.x01, M.x02, M.x03, M.x10, M.x11, M.x12, M.x13, M.x20, M.x21, M.x22, M.x23, M.x30, M.x31, M.x32, M.x33⟩)
  (⟨(t802).normal.x, (t807).normal.x, (t812).normal.x⟩, ⟨(t817).normal.x, (t822).normal.x, (t827).normal.x⟩, ⟨(t802).normal.y, (t807).normal.y, (t812).normal.y⟩, ⟨(t817).normal.y, (t822).normal.y, (t827).normal.y⟩, ⟨(t802).normal.z, (t807).normal.z, (t812).normal.z⟩, ⟨(t817).normal.z, (t822).normal.z, (t827).normal.z⟩, ⟨(t802).distance, (t807).distance, (t812).distance⟩, ⟨(t817).distance, (t822).distance, (t827).distance⟩, ⟨((sabs (t802).normal.x) + (0 : α)), ((sabs (t807).normal.x) + (0 : α)), ((sabs (t812).normal.x) + (0 : α))⟩, ⟨((sabs (t817).normal.x) + (0 : α)), ((sabs (t822).normal.x) + (0 : α)), ((sabs (t827).normal.x) + (0 : α))⟩, ⟨((sabs (t802).normal.y) + (0 : α)), ((sabs (t807).normal.y) + (0 : α)), ((sabs (t812).normal.y) + (0 : α))⟩, ⟨((sabs (t817).normal.y) + (0 : α)), ((sabs (t822).normal.y) + (0 : α)), ((sabs (t827).normal.y) + (0 : α))⟩, ⟨((sabs (t802).normal.z) + (0 : α)), ((sabs (t807).normal.z) + (0 : α)), ((sabs (t812).normal.z) + (0 : α))⟩, ⟨((sabs (t817).normal.z) + (0 : α)), ((sabs (t822).normal.z) + (0 : α)), ((sabs (t827).normal.z) + (0 : α))⟩)

/-- extracted from the C++ template at T = Sym; 7 path(s) -/
def FrustumTest.isVisiblePoint_ortho {α : Type} [Add α] [Sub α] [Mul α] [Div α] [Neg α] [LT α] [LE α] [DecidableLT α] [DecidableLE α] [DecidableEq α] [OfNat α 0] [OfNat α 2] (tmin : α) (tmax : α) (sqrt : α → α) (n : α) (f : α) (l : α) (r : α) (t : α) (b : α) (M : M44 α) (v : V3 α) : Bool :=
  let t802 := (Frustum.planesM_ortho_0 tmin tmax sqrt n f l r t b ⟨M.x00, M.x01, M.x02, M.x03, M.x10, M.x11, M.x12, M.x13, M.x20, M.x21, M.x22, M.x23, M.x30, M.x31, M.x32, M.x33⟩)
  let t807 := (Frustum.planesM_ortho_1 tmin tmax sqrt n f l r t b ⟨M.x00, M.x01, M.x02, M.x03, M.x10, M.x11, M.x12, M.x13, M.x20, M.x21, M.x22, M.x23, M.x30, M.x31, M.x32, M.x33⟩)
  let t812 := (Frustum.planesM_ortho_2 tmin tmax sqrt n f l r t b ⟨M.x00, M.x01, M.x02, M.x03, M.x10, M.x11, M.x12, M.x13, M.x20, M.x21, M.x22, M.x23, M.x30, M.x31, M.x32, M.x33⟩)
  let t817 := (Frustum.planesM_ortho_3 tmin tmax sqrt n f l r t b ⟨M.x00, M.x01, M.x02, M.x03, M.x10, M.x11, M.x12, M.x13, M.x20, M.x21, M.x22, M.x23, M.x30, M.x31, M.x32, M.x33⟩)
  let t822 := (Frustum.planesM_ortho_4 tmin tmax sqrt n f l r t b ⟨M.x00, M.x01, M.x02, M.x03, M.x10, M.x11, M.x12, M.x13, M.x20, M.x21, M.x22, M.x23, M.x30, M.x31, M.x32, M.x33⟩)
  let t827 := (Frustum.planesM_ortho_5 tmin tmax sqrt n f l r t b ⟨M.x00, M.x01, M.x02, M.x03, M.x10, M.x11, M.x12, M.x13, M.x20, M.x21, M.x22, M.x23, M.x30, M.x31, M.x32, M.x33⟩)
  let t883 := (((((t812).normal.x * v.x) + ((t812).normal.y * v.y)) + ((t812).normal.z * v.z)) - (t812).distance)
  let t884 := (((((t807).normal.x * v.x) + ((t807).normal.y * v.y)) + ((t807).normal.z * v.z)) - (t807).distance)
  let t885 := (((((t802).normal.x * v.x) + ((t802).normal.y * v.y)) + ((t802).normal.z * v.z)) - (t802).distance)
  let t901 := (((((t827).normal.x * v.x) + ((t827).normal.y * v.y)) + ((t827).normal.z * v.z)) - (t827).distance)
  let t902 := (((((t822).normal.x * v.x) + ((t822).normal.y * v.y)) + ((t822).normal.z * v.z)) - (t822).distance)
  let t903 := (((((t817).normal.x * v.x) + ((t817).normal.y * v.y)) + ((t817).normal.z * v.z)) - (t817).distance)
  if (0 : α) ≤ t885 then
    false
  else
    if (0 : α) ≤ t884 then
      false
    else
      if (0 : α) ≤ t883 then
        false
      else
        if (0 : α) ≤ t903 then
          false
        else
          if (0 : α) ≤ t902 then
            false
          else
            if (0 : α) ≤ t901 then
              false
            else
              true

/-- extracted from the C++ template at T = Sym; 7 path(s) -/
def FrustumTest.isVisibleSphere_ortho {α : Type} [Add α] [Sub α] [Mul α] [Div α] [Neg α] [LT α] [LE α] [DecidableLT α] [DecidableLE α] [DecidableEq α] [OfNat α 0] [OfNat α 2] (tmin : α) (tmax : α) (sqrt : α → α) (n : α) (f : α) (l : α) (r : α) (t : α) (b : α) (M : M44 α) (s : Sphere3 α) : Bool :=
  let t802 := (Frustum.planesM_ortho_0 tmin tmax sqrt n f l r t b ⟨M.x00, M.x01, M.x02, M.x03, M.x10, M.x11, M.x12, M.x13, M.x20, M.x21, M.x22, M.x23, M.x30, M.x31, M.x32, M.x33⟩)
  let t807 := (Frustum.planesM_ortho_1 tmin tmax sqrt n f l r t b ⟨M.x00, M.x01, M.x02, M.x03, M.x10, M.x11, M.x12, M.x13, M.x20, M.x21, M.x22, M.x23, M.x30, M.x31, M.x32, M.x33⟩)
  let t812 := (Frustum.planesM_ortho_2 tmin tmax sqrt n f l r t b ⟨M.x00, M.x01, M.x02, M.x03, M.x10, M.x11, M.x12, M.x13, M.x20, M.x21, M.x22, M.x23, M.x30, M.x31, M.x32, M.x33⟩)
  let t817 := (Frustum.planesM_ortho_3 tmin tmax sqrt n f l r t b ⟨M.x00, M.x01, M.x02, M.x03, M.x10, M.x11, M.x12, M.x13, M.x20, M.x21, M.x22, M.x23, M.x30, M.x31, M.x32, M.x33⟩)
  let t822 := (Frustum.planesM_ortho_4 tmin tmax sqrt n f l r t b ⟨M.x00, M.x01, M.x02, M.x03, M.x10, M.x11, M.x12, M.x13, M.x20, M.x21, M.x22, M.x23, M.x30, M.x31, M.x32, M.x33⟩)
  let t827 := (Frustum.planesM_ortho_5 tmin tmax sqrt n f l r t b ⟨M.x00, M.x01, M.x02, M.x03, M.x10, M.x11, M.x12, M.x13, M.x20, M.x21, M.x22, M.x23, M.x30, M.x31, M.x32, M.x33⟩)
  let t922 := ((((((t812).normal.x * s.center.x) + ((t812).normal.y * s.center.y)) + ((t812).normal.z * s.center.z)) - s.radius) - (t812).distance)
  let t923 := ((((((t807).normal.x * s.center.x) + ((t807).normal.y * s.center.y)) + ((t807).normal.z * s.center.z)) - s.radius) - (t807).distance)
  let t924 := ((((((t802).normal.x * s.center.x) + ((t802).normal.y * s.center.y)) + ((t802).normal.z * s.center.z)) - s.radius) - (t802).distance)
  let t943 := ((((((t827).normal.x * s.center.x) + ((t827).normal.y * s.center.y)) + ((t827).normal.z * s.center.z)) - s.radius) - (t827).distance)
  let t944 := ((((((t822).normal.x * s.center.x) + ((t822).normal.y * s.center.y)) + ((t822).normal.z * s.center.z)) - s.radius) - (t822).distance)
  let t945 := ((((((t817).normal.x * s.center.x) + ((t817).normal.y * s.center.y)) + ((t817).normal.z * s.center.z)) - s.radius) - (t817).distance)
  if (0 : α) ≤ t924 then
    false
  else
    if (0 : α) ≤ t923 then
      false
    else
      if (0 : α) ≤ t922 then
        false
      else
        if (0 : α) ≤ t945 then
          false
        else
          if (0 : α) ≤ t944 then
            false
          else
            if (0 : α) ≤ t943 then
              false
            else
              true

/-- extracted from the C++ template at T = Sym; 10 path(s) -/
def FrustumTest.isVisibleBox_ortho {α : Type} [Add α] [Sub α] [Mul α] [Div α] [Neg α] [LT α] [LE α] [DecidableLT α] [DecidableLE α] [DecidableEq α] [OfNat α 0] [OfNat α 2] (tmin : α) (tmax : α) (sqrt : α → α) (n : α) (f : α) (l : α) (r : α) (t : α) (b : α) (M : M44 α) (bx : Box3 α) : Bool :=
  let t688 := ((bx.min.z + bx.max.z) / (2 : α))
  let t689 := ((bx.min.y + bx.max.y) / (2 : α))
  let t690 := ((bx.min.x + bx.max.x) / (2 : α))
  let t691 := (bx.max.z - t688)
  let t692 := (bx.max.y - t689)
  let t693 := (bx.max.x - t690)
  let t802 := (Frustum.planesM_ortho_0 tmin tmax sqrt n f l r t b ⟨M.x00, M.x01, M.x02, M.x03, M.x10, M.x11, M.x12, M.x13, M.x20, M.x21, M.x22, M.x23, M.x30, M.x31, M.x32, M.x33⟩)
  let t807 := (Frustum.planesM_ortho_1 tmin tmax sqrt n f l r t b ⟨M.x00, M.x01, M.x02, M.x03, M.x10, M.x11, M.x12, M.x13, M.x20, M.x21, M.x22, M.x23, M.x30, M.x31, M.x32, M.x33⟩)
  let t812 := (Frustum.planesM_ortho_2 tmin tmax sqrt n f l r t b ⟨M.x00, M.x01, M.x02, M.x03, M.x10, M.x11, M.x12, M.x13, M.x20, M.x21, M.x22, M.x23, M.x30, M.x31, M.x32, M.x33⟩)
  let t817 := (Frustum.planesM_ortho_3 tmin tmax sqrt n f l r t b ⟨M.x00, M.x01, M.x02, M.x03, M.x10, M.x11, M.x12, M.x13, M.x20, M.x21, M.x22, M.x23, M.x30, M.x31, M.x32, M.x33⟩)
  let t822 := (Frustum.planesM_ortho_4 tmin tmax sqrt n f l r t b ⟨M.x00, M.x01, M.x02, M.x03, M.x10, M.x11, M.x12, M.x13, M.x20, M.x21, M.x22, M.x23, M.x30, M.x31, M.x32, M.x33⟩)
  let t827 := (Frustum.planesM_ortho_5 tmin tmax sqrt n f l r t b ⟨M.x00, M.x01, M.x02, M.x03, M.x10, M.x11, M.x12, M.x13, M.x20, M.x21, M.x22, M.x23, M.x30, M.x31, M.x32, M.x33⟩)
  let t979 := ((((((((t812).normal.x * t690) + ((t812).normal.y * t689)) + ((t812).normal.z * t688)) - ((sabs (t812).normal.x) * t693)) - ((sabs (t812).normal.y) * t692)) - ((sabs (t812).normal.z) * t691)) - (t812).distance)
  let t980 := ((((((((t807).normal.x * t690) + ((t807).normal.y * t689)) + ((t807).normal.z * t688)) - ((sabs (t807).normal.x) * t693)) - ((sabs (t807).normal.y) * t692)) - ((sabs (t807).normal.z) * t691)) - (t807).distance)
  let t981 := ((((((((t802).normal.x * t690) + ((t802).normal.y * t689)) + ((t802).normal.z * t688)) - ((sabs (t802).normal.x) * t693)) - ((sabs (t802).normal.y) * t692)) - ((sabs (t802).normal.z) * t691)) - (t802).distance)
  let t1015 := ((((((((t827).normal.x * t690) + ((t827).normal.y * t689)) + ((t827).normal.z * t688)) - ((sabs (t827).normal.x) * t693)) - ((sabs (t827).normal.y) * t692)) - ((sabs (t827).normal.z) * t691)) - (t827).distance)
  let t1016 := ((((((((t822).normal.x * t690) + ((t822).normal.y * t689)) + ((t822).normal.z * t688)) - ((sabs (t822).normal.x) * t693)) - ((sabs (t822).normal.y) * t692)) - ((sabs (t822).normal.z) * t691)) - (t822).distance)
  let t1017 := ((((((((t817).normal.x * t690) + ((t817).normal.y * t689)) + ((t817).normal.z * t688)) - ((sabs (t817).normal.x) * t693)) - ((sabs (t817).normal.y) * t692)) - ((sabs (t817).normal.z) * t691)) - (t817).distance)
  if bx.max.x < bx.min.x then
    false
  else
    if bx.max.y < bx.min.y then
      false
    else
      if bx.max.z < bx.min.z then
        false
      else
        if (0 : α) ≤ t981 then
          false
        else
          if (0 : α) ≤ t980 then
            false
          else
            if (0 : α) ≤ t979 then
              false
            else
              if (0 : α) ≤ t1017 then
                false
              else
                if (0 : α) ≤ t1016 then
                  false
                else
                  if (0 : α) ≤ t1015 then
                    false
                  else
                    true

/-- extracted from the C++ template at T = Sym; 7 path(s) -/
def FrustumTest.completelyContainsSphere_ortho {α : Type} [Add α] [Sub α] [Mul α] [Div α] [Neg α] [LT α] [LE α] [DecidableLT α] [DecidableLE α] [DecidableEq α] [OfNat α 0] [OfNat α 2] (tmin : α) (tmax : α) (sqrt : α → α) (n : α) (f : α) (l : α) (r : α) (t : α) (b : α) (M : M44 α) (s : Sphere3 α) : Bool :=
  let t802 := (Frustum.planesM_ortho_0 tmin tmax sqrt n f l r t b ⟨M.x00, M.x01, M.x02, M.x03, M.x10, M.x11, M.x12, M.x13, M.x20, M.x21, M.x22, M.x23, M.x30, M.x31, M.x32, M.x33⟩)
  let t807 := (Frustum.planesM_ortho_1 tmin tmax sqrt n f l r t b ⟨M.x00, M.x01, M.x02, M.x03, M.x10, M.x11, M.x12, M.x13, M.x20, M.x21, M.x22, M.x23, M.x30, M.x31, M.x32, M.x33⟩)
  let t812 := (Frustum.planesM_ortho_2 tmin tmax sqrt n f l r t b ⟨M.x00, M.x01, M.x02, M.x03, M.x10, M.x11, M.x12, M.x13, M.x20, M.x21, M.x22, M.x23, M.x30, M.x31, M.x32, M.x33⟩)
  let t817 := (Frustum.planesM_ortho_3 tmin tmax sqrt n f l r t b ⟨M.x00, M.x01, M.x02, M.x03, M.x10, M.x11, M.x12, M.x13, M.x20, M.x21, M.x22, M.x23, M.x30, M.x31, M.x32, M.x33⟩)
  let t822 := (Frustum.planesM_ortho_4 tmin tmax sqrt n f l r t b ⟨M.x00, M.x01, M.x02, M.x03, M.x10, M.x11, M.x12, M.x13, M.x20, M.x21, M.x22, M.x23, M.x30, M.x31, M.x32, M.x33⟩)
  let t827 := (Frustum.planesM_ortho_5 tmin tmax sqrt n f l r t b ⟨M.x00, M.x01, M.x02, M.x03, M.x10, M.x11, M.x12, M.x13, M.x20, M.x21, M.x22, M.x23, M.x30, M.x31, M.x32, M.x33⟩)
  let t1021 := ((((((t812).normal.x * s.center.x) + ((t812).normal.y * s.center.y)) + ((t812).normal.z * s.center.z)) + s.radius) - (t812).distance)
  let t1022 := ((((((t807).normal.x * s.center.x) + ((t807).normal.y * s.center.y)) + ((t807).normal.z * s.center.z)) + s.radius) - (t807).distance)
  let t1023 := ((((((t802).normal.x * s.center.x) + ((t802).normal.y * s.center.y)) + ((t802).normal.z * s.center.z)) + s.radius) - (t802).distance)
  let t1027 := ((((((t827).normal.x * s.center.x) + ((t827).normal.y * s.center.y)) + ((t827).normal.z * s.center.z)) + s.radius) - (t827).distance)
  let t1028 := ((((((t822).normal.x * s.center.x) + ((t822).normal.y * s.center.y)) + ((t822).normal.z * s.center.z)) + s.radius) - (t822).distance)
  let t1029 := ((((((t817).normal.x * s.center.x) + ((t817).normal.y * s.center.y)) + ((t817).normal.z * s.center.z)) + s.radius) - (t817).distance)
  if (0 : α) ≤ t1023 then
    false
  else
    if (0 : α) ≤ t1022 then
      false
    else
      if (0 : α) ≤ t1021 then
        false
      else
        if (0 : α) ≤ t1029 then
          false
        else
          if (0 : α) ≤ t1028 then
            false
          else
            if (0 : α) ≤ t1027 then
              false
            else
              true

/-- extracted from the C++ template at T = Sym; 10 path(s) -/
def FrustumTest.completelyContainsBox_ortho {α : Type} [Add α] [Sub α] [Mul α] [Div α] [Neg α] [LT α] [LE α] [DecidableLT α] [DecidableLE α] [DecidableEq α] [OfNat α 0] [OfNat α 2] (tmin : α) (tmax : α) (sqrt : α → α) (n : α) (f : α) (l : α) (r : α) (t : α) (b : α) (M : M44 α) (bx : Box3 α) : Bool :=
  let t688 := ((bx.min.z + bx.max.z) / (2 : α))
  let t689 := ((bx.min.y + bx.max.y) / (2 : α))
  let t690 := ((bx.min.x + bx.max.x) / (2 : α))
  let t691 := (bx.max.z - t688)
  let t692 := (bx.max.y - t689)
  let t693 := (bx.max.x - t690)
  let t802 := (Frustum.planesM_ortho_0 tmin tmax sqrt n f l r t b ⟨M.x00, M.x01, M.x02, M.x03, M.x10, M.x11, M.x12, M.x13, M.x20, M.x21, M.x22, M.x23, M.x30, M.x31, M.x32, M.x33⟩)
  let t807 := (Frustum.planesM_ortho_1 tmin tmax sqrt n f l r t b ⟨M.x00, M.x01, M.x02, M.x03, M.x10, M.x11, M.x12, M.x13, M.x20, M.x21, M.x22, M.x23, M.x30, M.x31, M.x32, M.x33⟩)
  let t812 := (Frustum.planesM_ortho_2 tmin tmax sqrt n f l r t b ⟨M.x00, M.x01, M.x02, M.x03, M.x10, M.x11, M.x12, M.x13, M.x20, M.x21, M.x22, M.x23, M.x30, M.x31, M.x32, M.x33⟩)
  let t817 := (Frustum.planesM_ortho_3 tmin tmax sqrt n f l r t b ⟨M.x00, M.x01, M.x02, M.x03, M.x10, M.x11, M.x12, M.x13, M.x20, M.x21, M.x22, M.x23, M.x30, M.x31, M.x32, M.x33⟩)
  let t822 := (Frustum.planesM_ortho_4 tmin tmax sqrt n f l r t b ⟨M.x00, M.x01, M.x02, M.x03, M.x10, M.x11, M.x12, M.x13, M.x20, M.x21, M.x22, M.x23, M.x30, M.x31, M.x32, M.x33⟩)
  let t827 := (Frustum.planesM_ortho_5 tmin tmax sqrt n f l r t b ⟨M.x00, M.x01, M.x02, M.x03, M.x10, M.x11, M.x12, M.x13, M.x20, M.x21, M.x22, M.x23, M.x30, M.x31, M.x32, M.x33⟩)
  let t1039 := ((((((((t812).normal.x * t690) + ((t812).normal.y * t689)) + ((t812).normal.z * t688)) + ((sabs (t812).normal.x) * t693)) + ((sabs (t812).normal.y) * t692)) + ((sabs (t812).normal.z) * t691)) - (t812).distance)
  let t1040 := ((((((((t807).normal.x * t690) + ((t807).normal.y * t689)) + ((t807).normal.z * t688)) + ((sabs (t807).normal.x) * t693)) + ((sabs (t807).normal.y) * t692)) + ((sabs (t807).normal.z) * t691)) - (t807).distance)
  let t1041 := ((((((((t802).normal.x * t690) + ((t802).normal.y * t689)) + ((t802).normal.z * t688)) + ((sabs (t802).normal.x) * t693)) + ((sabs (t802).normal.y) * t692)) + ((sabs (t802).normal.z) * t691)) - (t802).distance)
  let t1051 := ((((((((t827).normal.x * t690) + ((t827).normal.y * t689)) + ((t827).normal.z * t688)) + ((sabs (t827).normal.x) * t693)) + ((sabs (t827).normal.y) * t692)) + ((sabs (t827).normal.z) * t691)) - (t827).distance)
  let t1052 := ((((((((t822).normal.x * t690) + ((t822).normal.y * t689)) + ((t822).normal.z * t688)) + ((sabs (t822).normal.x) * t693)) + ((sabs (t822).normal.y) * t692)) + ((sabs (t822).normal.z) * t691)) - (t822).distance)
  let t1053 := ((((((((t817).normal.x * t690) + ((t817).normal.y * t689)) + ((t817).normal.z * t688)) + ((sabs (t817).normal.x) * t693)) + ((sabs (t817).normal.y) * t692)) + ((sabs (t817).normal.z) * t691)) - (t817).distance)
  if bx.max.x < bx.min.x then
    false
  else
    if bx.max.y < bx.min.y then
      false
    else
      if bx.max.z < bx.min.z then
        false
      else
        if (0 : α) ≤ t1041 then
          false
        else
          if (0 : α) ≤ t1040 then
            false
          else
            if (0 : α) ≤ t1039 then
              false
            else
              if (0 : α) ≤ t1053 then
                false
              else
                if (0 : α) ≤ t1052 then
                  false
                else
                  if (0 : α) ≤ t1051 then
                    false
                  else
                    true

/-- extracted from the C++ template at T = Sym; 1 path(s) -/
def FrustumTest.stores_persp {α : Type} (n : α) (f : α) (l : α) (r : α) (t : α) (b : α) (M : M44 α) : (α × α × α × α × α × α × Bool × (M44 α)) :=
  (n, f, l, r, t, b, false, ⟨M.x00, M.x01, M.x02, M.x03, M.x10, M.x11, M.x12, M.x13, M.x20, M.x21, M.x22, M.x23, M.x30, M.x31, M.x32, M.x33⟩)

/-- extracted from the C++ template at T = Sym; 1 path(s) -/
def FrustumTest.stores_ortho {α : Type} (n : α) (f : α) (l : α) (r : α) (t : α) (b : α) (M : M44 α) : (α × α × α × α × α × α × Bool × (M44 α)) :=
  (n, f, l, r, t, b, true, ⟨M.x00, M.x01, M.x02, M.x03, M.x10, M.x11, M.x12, M.x13, M.x20, M.x21, M.x22, M.x23, M.x30, M.x31, M.x32, M.x33⟩)

/-- extracted from the C++ template at T = Sym; 1 path(s) -/
def FrustumTest.defaultCtor {α : Type} [Add α] [Sub α] [Mul α] [Div α] [Neg α] [LT α] [LE α] [DecidableLT α] [DecidableLE α] [DecidableEq α] [OfNat α 0] [OfNat α 1] [OfNat α 2] [OfNat α 1000] [OfNat α 3602879701896397] [OfNat α 36028797018963968] (tmin : α) (tmax : α) (sqrt : α → α) : (α × α × α × α × α × α × Bool × (M44 α) × (V3 α) × (V3 α) × (V3 α) × (V3 α) × (V3 α) × (V3 α) × (V3 α) × (V3 α) × (V3 α) × (V3 α) × (V3 α) × (V3 α) × (V3 α) × (V3 α)) :=
  let t1054 := (Frustum.planesM_persp_0 tmin tmax sqrt ((3602879701896397 : α) / (36028797018963968 : α)) (1000 : α) (-(1 : α)) (1 : α) (1 : α) (-(1 : α)) ⟨(1 : α), (0 : α), (0 : α), (0 : α), (0 : α), (1 : α), (0 : α), (0 : α), (0 : α), (0 : α), (1 : α), (0 : α), (0 : α), (0 : α), (0 : α), (1 : α)⟩)
  let t1059 := (Frustum.planesM_persp_1 tmin tmax sqrt ((3602879701896397 : α) / (36028797018963968 : α)) (1000 : α) (-(1 : α)) (1 : α) (1 : α) (-(1 : α)) ⟨(1 : α), (0 : α), (0 : α), (0 : α), (0 : α), (1 : α), (0 : α), (0 : α), (0 : α), (0 : α), (1 : α), (0 : α), (0 : α), (0 : α), (0 : α), (1 : α)⟩)
  let t1064 := (Frustum.planesM_persp_2 tmin tmax sqrt ((3602879701896397 : α) / (36028797018963968 : α)) (1000 : α) (-(1 : α)) (1 : α) (1 : α) (-(1 : α)) ⟨(1 : α), (0 : α), (0 : α), (0 : α), (0 : α), (1 : α), (0 : α), (0 : α), (0 : α), (0 : α), (1 : α), (0 : α), (0 : α), (0 : α), (0 : α), (1 : α)⟩)
  let t1069 := (Frustum.planesM_persp_3 tmin tmax sqrt ((3602879701896397 : α) / (36028797018963968 : α)) (1000 : α) (-(1 : α)) (1 : α) (1 : α) (-(1 : α)) ⟨(1 : α), (0 : α), (0 : α), (0 : α), (0 : α), (1 : α), (0 : α), (0 : α), (0 : α), (0 : α), (1 : α), (0 : α), (0 : α), (0 : α), (0 : α), (1 : α)⟩)
  let t1074 := (Frustum.planesM_persp_4 tmin tmax sqrt ((3602879701896397 : α) / (36028797018963968 : α)) (1000 : α) (-(1 : α)) (1 : α) (1 : α) (-(1 : α)) ⟨(1 : α), (0 : α), (0 : α), (0 : α), (0 : α), (1 : α), (0 : α), (0 : α), (0 : α), (0 : α), (1 : α), (0 : α), (0 : α), (0 : α), (0 : α), (1 : α)⟩)
  let t1079 := (Frustum.planesM_persp_5 tmin tmax sqrt ((3602879701896397 : α) / (36028797018963968 : α)) (1000 : α) (-(1 : α)) (1 : α) (1 : α) (-(1 : α)) ⟨(1 : α), (0 : α), (0 : α), (0 : α), (0 : α), (1 : α), (0 : α), (0 : α), (0 : α), (0 : α), (1 : α), (0 : α), (0 : α), (0 : α), (0 : α), (1 : α)⟩)
  (((3602879701896397 : α) / (36028797018963968 : α)), (1000 : α), (-(1 : α)), (1 : α), (1 : α), (-(1 : α)), false, ⟨(1 : α), (0 : α), (0 : α), (0 : α), (0 : α), (1 : α), (0 : α), (0 : α), (0 : α), (0 : α), (1 : α), (0 : α), (0 : α), (0 : α), (0 : α), (1 : α)⟩, ⟨(t1054).normal.x, (t1059).normal.x, (t1064).normal.x⟩, ⟨(t1069).normal.x, (t1074).normal.x, (t1079).normal.x⟩, ⟨(t1054).normal.y, (t1059).normal.y, (t1064).normal.y⟩, ⟨(t1069).normal.y, (t1074).normal.y, (t1079).normal.y⟩, ⟨(t1054).normal.z, (t1059).normal.z, (t1064).normal.z⟩, ⟨(t1069).normal.z, (t1074).normal.z, (t1079).normal.z⟩, ⟨(t1054).distance, (t1059).distance, (t1064).distance⟩, ⟨(t1069).distance, (t1074).distance, (t1079).distance⟩, ⟨((sabs (t1054).normal.x) + (0 : α)), ((sabs (t1059).normal.x) + (0 : α)), ((sabs (t1064).normal.x) + (0 : α))⟩, ⟨((sabs (t1069).normal.x) + (0 : α)), ((sabs (t1074).normal.x) + (0 : α)), ((sabs (t1079).normal.x) + (0 : α))⟩, ⟨((sabs (t1054).normal.y) + (0 : α)), ((sabs (t1059).normal.y) + (0 : α)), ((sabs (t1064).normal.y) + (0 : α))⟩, ⟨((sabs (t1069).normal.y) + (0 : α)), ((sabs (t1074).normal.y) + (0 : α)), ((sabs (t1079).normal.y) + (0 : α))⟩, ⟨((sabs (t1054).normal.z) + (0 : α)), ((sabs (t1059).normal.z) + (0 : α)), ((sabs (t1064).normal.z) + (0 : α))⟩, ⟨((sabs (t1069).normal.z) + (0 : α)), ((sabs (t1074).normal.z) + (0 : α)), ((sabs (t1079).normal.z) + (0 : α))⟩)

end ImathVerif.Gen
