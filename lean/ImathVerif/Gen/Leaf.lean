-- GENERATED from /repo/src/Imath by harness/sym (T = Sym path extraction); do not edit.
import ImathVerif.Basic.Types
set_option linter.unusedVariables false
namespace ImathVerif.Gen
open ImathVerif

/-- extracted from the C++ template at T = Sym; 5 path(s) -/
def V2.length {α : Type} [Add α] [Mul α] [Div α] [Neg α] [LT α] [DecidableLT α] [DecidableEq α] [OfNat α 0] [OfNat α 2] (tmin : α) (sqrt : α → α) (a : V2 α) : α :=
  let t5 := ((a.x * a.x) + (a.y * a.y))
  let t8 := ((2 : α) * tmin)
  let t9 := (sabs a.x)
  let t10 := (sabs a.y)
  let t11 := (t9 / t10)
  let t12 := (t10 / t10)
  let t18 := (t9 / t9)
  let t19 := (t10 / t9)
  if t5 < t8 then
    if t9 < t10 then
      if t10 = (0 : α) then
        (0 : α)
      else
        (t10 * (sqrt ((t11 * t11) + (t12 * t12))))
    else
      if t9 = (0 : α) then
        (0 : α)
      else
        (t9 * (sqrt ((t18 * t18) + (t19 * t19))))
  else
    (sqrt t5)

/-- extracted from the C++ template at T = Sym; 65 path(s) -/
def V3.length {α : Type} [Add α] [Mul α] [Div α] [Neg α] [LT α] [LE α] [DecidableLT α] [DecidableLE α] [DecidableEq α] [OfNat α 0] [OfNat α 2] (tmin : α) (sqrt : α → α) (a : V3 α) : α :=
  let t8 := ((2 : α) * tmin)
  let t28 := (((a.x * a.x) + (a.y * a.y)) + (a.z * a.z))
  let t29 := (a.x / a.z)
  let t30 := (a.y / a.z)
  let t31 := (a.z / a.z)
  let t32 := (t31 * t31)
  let t33 := (t30 * t30)
  let t34 := (t29 * t29)
  let t38 := (a.z * (sqrt ((t34 + t33) + t32)))
  let t39 := (a.x / a.y)
  let t40 := (a.y / a.y)
  let t41 := (a.z / a.y)
  let t42 := (t41 * t41)
  let t43 := (t40 * t40)
  let t45 := ((t39 * t39) + t43)
  let t49 := (a.x / a.x)
  let t50 := (a.y / a.x)
  let t51 := (a.z / a.x)
  let t52 := (t51 * t51)
  let t54 := (t49 * t49)
  let t55 := (t54 + (t50 * t50))
  let t59 := (-a.z)
  let t60 := (a.x / t59)
  let t61 := (a.y / t59)
  let t62 := (t59 / t59)
  let t63 := (t62 * t62)
  let t64 := (t61 * t61)
  let t65 := (t60 * t60)
  let t69 := (t59 * (sqrt ((t65 + t64) + t63)))
  let t70 := (t59 / a.y)
  let t71 := (t70 * t70)
  let t75 := (t59 / a.x)
  let t76 := (t75 * t75)
  let t80 := (-a.y)
  let t81 := (t80 / a.z)
  let t82 := (t81 * t81)
  let t86 := (a.z * (sqrt ((t34 + t82) + t32)))
  let t87 := (a.x / t80)
  let t88 := (t80 / t80)
  let t89 := (a.z / t80)
  let t90 := (t89 * t89)
  let t91 := (t88 * t88)
  let t93 := ((t87 * t87) + t91)
  let t97 := (t80 / a.x)
  let t99 := (t54 + (t97 * t97))
  let t103 := (t80 / t59)
  let t104 := (t103 * t103)
  let t108 := (t59 * (sqrt ((t65 + t104) + t63)))
  let t109 := (t59 / t80)
  let t110 := (t109 * t109)
  let t117 := (-a.x)
  let t118 := (t117 / a.z)
  let t119 := (t118 * t118)
  let t123 := (a.z * (sqrt ((t119 + t33) + t32)))
  let t124 := (t117 / a.y)
  let t126 := ((t124 * t124) + t43)
  let t130 := (t117 / t117)
  let t131 := (a.y / t117)
  let t132 := (a.z / t117)
  let t133 := (t132 * t132)
  let t135 := (t130 * t130)
  let t136 := (t135 + (t131 * t131))
  let t140 := (t117 / t59)
  let t141 := (t140 * t140)
  let t145 := (t59 * (sqrt ((t141 + t64) + t63)))
  let t149 := (t59 / t117)
  let t150 := (t149 * t149)
  let t157 := (a.z * (sqrt ((t119 + t82) + t32)))
  let t158 := (t117 / t80)
  let t160 := ((t158 * t158) + t91)
  let t164 := (t80 / t117)
  let t166 := (t135 + (t164 * t164))
  let t173 := (t59 * (sqrt ((t141 + t104) + t63)))
  if t28 < t8 then
    if (0 : α) ≤ a.x then
      if (0 : α) ≤ a.y then
        if (0 : α) ≤ a.z then
          if a.x < a.y then
            if a.y < a.z then
              if a.z = (0 : α) then
                (0 : α)
              else
                t38
            else
              if a.y = (0 : α) then
                (0 : α)
              else
                (a.y * (sqrt (t45 + t42)))
          else
            if a.x < a.z then
              if a.z = (0 : α) then
                (0 : α)
              else
                t38
            else
              if a.x = (0 : α) then
                (0 : α)
              else
                (a.x * (sqrt (t55 + t52)))
        else
          if a.x < a.y then
            if a.y < t59 then
              if t59 = (0 : α) then
                (0 : α)
              else
                t69
            else
              if a.y = (0 : α) then
                (0 : α)
              else
                (a.y * (sqrt (t45 + t71)))
          else
            if a.x < t59 then
              if t59 = (0 : α) then
                (0 : α)
              else
                t69
            else
              if a.x = (0 : α) then
                (0 : α)
              else
                (a.x * (sqrt (t55 + t76)))
      else
        if (0 : α) ≤ a.z then
          if a.x < t80 then
            if t80 < a.z then
              if a.z = (0 : α) then
                (0 : α)
              else
                t86
            else
              if t80 = (0 : α) then
                (0 : α)
              else
                (t80 * (sqrt (t93 + t90)))
          else
            if a.x < a.z then
              if a.z = (0 : α) then
                (0 : α)
              else
                t86
            else
              if a.x = (0 : α) then
                (0 : α)
              else
                (a.x * (sqrt (t99 + t52)))
        else
          if a.x < t80 then
            if t80 < t59 then
              if t59 = (0 : α) then
                (0 : α)
              else
                t108
            else
              if t80 = (0 : α) then
                (0 : α)
              else
                (t80 * (sqrt (t93 + t110)))
          else
            if a.x < t59 then
              if t59 = (0 : α) then
                (0 : α)
              else
                t108
            else
              if a.x = (0 : α) then
                (0 : α)
              else
                (a.x * (sqrt (t99 + t76)))
    else
      if (0 : α) ≤ a.y then
        if (0 : α) ≤ a.z then
          if t117 < a.y then
            if a.y < a.z then
              if a.z = (0 : α) then
                (0 : α)
              else
                t123
            else
              if a.y = (0 : α) then
                (0 : α)
              else
                (a.y * (sqrt (t126 + t42)))
          else
            if t117 < a.z then
              if a.z = (0 : α) then
                (0 : α)
              else
                t123
            else
              if t117 = (0 : α) then
                (0 : α)
              else
                (t117 * (sqrt (t136 + t133)))
        else
          if t117 < a.y then
            if a.y < t59 then
              if t59 = (0 : α) then
                (0 : α)
              else
                t145
            else
              if a.y = (0 : α) then
                (0 : α)
              else
                (a.y * (sqrt (t126 + t71)))
          else
            if t117 < t59 then
              if t59 = (0 : α) then
                (0 : α)
              else
                t145
            else
              if t117 = (0 : α) then
                (0 : α)
              else
                (t117 * (sqrt (t136 + t150)))
      else
        if (0 : α) ≤ a.z then
          if t117 < t80 then
            if t80 < a.z then
              if a.z = (0 : α) then
                (0 : α)
              else
                t157
            else
              if t80 = (0 : α) then
                (0 : α)
              else
                (t80 * (sqrt (t160 + t90)))
          else
            if t117 < a.z then
              if a.z = (0 : α) then
                (0 : α)
              else
                t157
            else
              if t117 = (0 : α) then
                (0 : α)
              else
                (t117 * (sqrt (t166 + t133)))
        else
          if t117 < t80 then
            if t80 < t59 then
              if t59 = (0 : α) then
                (0 : α)
              else
                t173
            else
              if t80 = (0 : α) then
                (0 : α)
              else
                (t80 * (sqrt (t160 + t110)))
          else
            if t117 < t59 then
              if t59 = (0 : α) then
                (0 : α)
              else
                t173
            else
              if t117 = (0 : α) then
                (0 : α)
              else
                (t117 * (sqrt (t166 + t150)))
  else
    (sqrt t28)

/-- extracted from the C++ template at T = Sym; 257 path(s) -/
def V4.length {α : Type} [Add α] [Mul α] [Div α] [Neg α] [LT α] [LE α] [DecidableLT α] [DecidableLE α] [DecidableEq α] [OfNat α 0] [OfNat α 2] (tmin : α) (sqrt : α → α) (a : V4 α) : α :=
  let t8 := ((2 : α) * tmin)
  let t29 := (a.x / a.z)
  let t30 := (a.y / a.z)
  let t31 := (a.z / a.z)
  let t32 := (t31 * t31)
  let t33 := (t30 * t30)
  let t34 := (t29 * t29)
  let t36 := ((t34 + t33) + t32)
  let t39 := (a.x / a.y)
  let t40 := (a.y / a.y)
  let t41 := (a.z / a.y)
  let t42 := (t41 * t41)
  let t43 := (t40 * t40)
  let t45 := ((t39 * t39) + t43)
  let t46 := (t45 + t42)
  let t49 := (a.x / a.x)
  let t50 := (a.y / a.x)
  let t51 := (a.z / a.x)
  let t52 := (t51 * t51)
  let t54 := (t49 * t49)
  let t55 := (t54 + (t50 * t50))
  let t56 := (t55 + t52)
  let t59 := (-a.z)
  let t60 := (a.x / t59)
  let t61 := (a.y / t59)
  let t62 := (t59 / t59)
  let t63 := (t62 * t62)
  let t64 := (t61 * t61)
  let t65 := (t60 * t60)
  let t67 := ((t65 + t64) + t63)
  let t70 := (t59 / a.y)
  let t71 := (t70 * t70)
  let t72 := (t45 + t71)
  let t75 := (t59 / a.x)
  let t76 := (t75 * t75)
  let t77 := (t55 + t76)
  let t80 := (-a.y)
  let t81 := (t80 / a.z)
  let t82 := (t81 * t81)
  let t84 := ((t34 + t82) + t32)
  let t87 := (a.x / t80)
  let t88 := (t80 / t80)
  let t89 := (a.z / t80)
  let t90 := (t89 * t89)
  let t91 := (t88 * t88)
  let t93 := ((t87 * t87) + t91)
  let t94 := (t93 + t90)
  let t97 := (t80 / a.x)
  let t99 := (t54 + (t97 * t97))
  let t100 := (t99 + t52)
  let t103 := (t80 / t59)
  let t104 := (t103 * t103)
  let t106 := ((t65 + t104) + t63)
  let t109 := (t59 / t80)
  let t110 := (t109 * t109)
  let t111 := (t93 + t110)
  let t114 := (t99 + t76)
  let t117 := (-a.x)
  let t118 := (t117 / a.z)
  let t119 := (t118 * t118)
  let t121 := ((t119 + t33) + t32)
  let t124 := (t117 / a.y)
  let t126 := ((t124 * t124) + t43)
  let t127 := (t126 + t42)
  let t130 := (t117 / t117)
  let t131 := (a.y / t117)
  let t132 := (a.z / t117)
  let t133 := (t132 * t132)
  let t135 := (t130 * t130)
  let t136 := (t135 + (t131 * t131))
  let t137 := (t136 + t133)
  let t140 := (t117 / t59)
  let t141 := (t140 * t140)
  let t143 := ((t141 + t64) + t63)
  let t146 := (t126 + t71)
  let t149 := (t59 / t117)
  let t150 := (t149 * t149)
  let t151 := (t136 + t150)
  let t155 := ((t119 + t82) + t32)
  let t158 := (t117 / t80)
  let t160 := ((t158 * t158) + t91)
  let t161 := (t160 + t90)
  let t164 := (t80 / t117)
  let t166 := (t135 + (t164 * t164))
  let t167 := (t166 + t133)
  let t171 := ((t141 + t104) + t63)
  let t174 := (t160 + t110)
  let t177 := (t166 + t150)
  let t183 := ((((a.x * a.x) + (a.y * a.y)) + (a.z * a.z)) + (a.w * a.w))
  let t184 := (a.x / a.w)
  let t185 := (a.y / a.w)
  let t186 := (a.z / a.w)
  let t187 := (a.w / a.w)
  let t188 := (t187 * t187)
  let t189 := (t186 * t186)
  let t190 := (t185 * t185)
  let t191 := (t184 * t184)
  let t192 := (t191 + t190)
  let t196 := (a.w * (sqrt ((t192 + t189) + t188)))
  let t197 := (a.w / a.z)
  let t198 := (t197 * t197)
  let t201 := (a.z * (sqrt (t36 + t198)))
  let t202 := (a.w / a.y)
  let t203 := (t202 * t202)
  let t207 := (a.w / a.x)
  let t208 := (t207 * t207)
  let t212 := (-a.w)
  let t213 := (a.x / t212)
  let t214 := (a.y / t212)
  let t215 := (a.z / t212)
  let t216 := (t212 / t212)
  let t217 := (t216 * t216)
  let t218 := (t215 * t215)
  let t219 := (t214 * t214)
  let t220 := (t213 * t213)
  let t221 := (t220 + t219)
  let t225 := (t212 * (sqrt ((t221 + t218) + t217)))
  let t226 := (t212 / a.z)
  let t227 := (t226 * t226)
  let t230 := (a.z * (sqrt (t36 + t227)))
  let t231 := (t212 / a.y)
  let t232 := (t231 * t231)
  let t236 := (t212 / a.x)
  let t237 := (t236 * t236)
  let t241 := (t59 / a.w)
  let t242 := (t241 * t241)
  let t246 := (a.w * (sqrt ((t192 + t242) + t188)))
  let t247 := (a.w / t59)
  let t248 := (t247 * t247)
  let t251 := (t59 * (sqrt (t67 + t248)))
  let t258 := (t59 / t212)
  let t259 := (t258 * t258)
  let t263 := (t212 * (sqrt ((t221 + t259) + t217)))
  let t264 := (t212 / t59)
  let t265 := (t264 * t264)
  let t268 := (t59 * (sqrt (t67 + t265)))
  let t275 := (t80 / a.w)
  let t276 := (t275 * t275)
  let t277 := (t191 + t276)
  let t281 := (a.w * (sqrt ((t277 + t189) + t188)))
  let t284 := (a.z * (sqrt (t84 + t198)))
  let t285 := (a.w / t80)
  let t286 := (t285 * t285)
  let t293 := (t80 / t212)
  let t294 := (t293 * t293)
  let t295 := (t220 + t294)
  let t299 := (t212 * (sqrt ((t295 + t218) + t217)))
  let t302 := (a.z * (sqrt (t84 + t227)))
  let t303 := (t212 / t80)
  let t304 := (t303 * t303)
  let t314 := (a.w * (sqrt ((t277 + t242) + t188)))
  let t317 := (t59 * (sqrt (t106 + t248)))
  let t327 := (t212 * (sqrt ((t295 + t259) + t217)))
  let t330 := (t59 * (sqrt (t106 + t265)))
  let t337 := (t117 / a.w)
  let t338 := (t337 * t337)
  let t339 := (t338 + t190)
  let t343 := (a.w * (sqrt ((t339 + t189) + t188)))
  let t346 := (a.z * (sqrt (t121 + t198)))
  let t350 := (a.w / t117)
  let t351 := (t350 * t350)
  let t355 := (t117 / t212)
  let t356 := (t355 * t355)
  let t357 := (t356 + t219)
  let t361 := (t212 * (sqrt ((t357 + t218) + t217)))
  let t364 := (a.z * (sqrt (t121 + t227)))
  let t368 := (t212 / t117)
  let t369 := (t368 * t368)
  let t376 := (a.w * (sqrt ((t339 + t242) + t188)))
  let t379 := (t59 * (sqrt (t143 + t248)))
  let t389 := (t212 * (sqrt ((t357 + t259) + t217)))
  let t392 := (t59 * (sqrt (t143 + t265)))
  let t399 := (t338 + t276)
  let t403 := (a.w * (sqrt ((t399 + t189) + t188)))
  let t406 := (a.z * (sqrt (t155 + t198)))
  let t413 := (t356 + t294)
  let t417 := (t212 * (sqrt ((t413 + t218) + t217)))
  let t420 := (a.z * (sqrt (t155 + t227)))
  let t430 := (a.w * (sqrt ((t399 + t242) + t188)))
  let t433 := (t59 * (sqrt (t171 + t248)))
  let t443 := (t212 * (sqrt ((t413 + t259) + t217)))
  let t446 := (t59 * (sqrt (t171 + t265)))
  if t183 < t8 then
    if (0 : α) ≤ a.x then
      if (0 : α) ≤ a.y then
        if (0 : α) ≤ a.z then
          if (0 : α) ≤ a.w then
            if a.x < a.y then
              if a.y < a.z then
                if a.z < a.w then
                  if a.w = (0 : α) then
                    (0 : α)
                  else
                    t196
                else
                  if a.z = (0 : α) then
                    (0 : α)
                  else
                    t201
              else
                if a.y < a.w then
                  if a.w = (0 : α) then
                    (0 : α)
                  else
                    t196
                else
                  if a.y = (0 : α) then
                    (0 : α)
                  else
                    (a.y * (sqrt (t46 + t203)))
            else
              if a.x < a.z then
                if a.z < a.w then
                  if a.w = (0 : α) then
                    (0 : α)
                  else
                    t196
                else
                  if a.z = (0 : α) then
                    (0 : α)
                  else
                    t201
              else
                if a.x < a.w then
                  if a.w = (0 : α) then
                    (0 : α)
                  else
                    t196
                else
                  if a.x = (0 : α) then
                    (0 : α)
                  else
                    (a.x * (sqrt (t56 + t208)))
          else
            if a.x < a.y then
              if a.y < a.z then
                if a.z < t212 then
                  if t212 = (0 : α) then
                    (0 : α)
                  else
                    t225
                else
                  if a.z = (0 : α) then
                    (0 : α)
                  else
                    t230
              else
                if a.y < t212 then
                  if t212 = (0 : α) then
                    (0 : α)
                  else
                    t225
                else
                  if a.y = (0 : α) then
                    (0 : α)
                  else
                    (a.y * (sqrt (t46 + t232)))
            else
              if a.x < a.z then
                if a.z < t212 then
                  if t212 = (0 : α) then
                    (0 : α)
                  else
                    t225
                else
                  if a.z = (0 : α) then
                    (0 : α)
                  else
                    t230
              else
                if a.x < t212 then
                  if t212 = (0 : α) then
                    (0 : α)
                  else
                    t225
                else
                  if a.x = (0 : α) then
                    (0 : α)
                  else
                    (a.x * (sqrt (t56 + t237)))
        else
          if (0 : α) ≤ a.w then
            if a.x < a.y then
              if a.y < t59 then
                if t59 < a.w then
                  if a.w = (0 : α) then
                    (0 : α)
                  else
                    t246
                else
                  if t59 = (0 : α) then
                    (0 : α)
                  else
                    t251
              else
                if a.y < a.w then
                  if a.w = (0 : α) then
                    (0 : α)
                  else
                    t246
                else
                  if a.y = (0 : α) then
                    (0 : α)
                  else
                    (a.y * (sqrt (t72 + t203)))
            else
              if a.x < t59 then
                if t59 < a.w then
                  if a.w = (0 : α) then
                    (0 : α)
                  else
                    t246
                else
                  if t59 = (0 : α) then
                    (0 : α)
                  else
                    t251
              else
                if a.x < a.w then
                  if a.w = (0 : α) then
                    (0 : α)
                  else
                    t246
                else
                  if a.x = (0 : α) then
                    (0 : α)
                  else
                    (a.x * (sqrt (t77 + t208)))
          else
            if a.x < a.y then
              if a.y < t59 then
                if t59 < t212 then
                  if t212 = (0 : α) then
                    (0 : α)
                  else
                    t263
                else
                  if t59 = (0 : α) then
                    (0 : α)
                  else
                    t268
              else
                if a.y < t212 then
                  if t212 = (0 : α) then
                    (0 : α)
                  else
                    t263
                else
                  if a.y = (0 : α) then
                    (0 : α)
                  else
                    (a.y * (sqrt (t72 + t232)))
            else
              if a.x < t59 then
                if t59 < t212 then
                  if t212 = (0 : α) then
                    (0 : α)
                  else
                    t263
                else
                  if t59 = (0 : α) then
                    (0 : α)
                  else
                    t268
              else
                if a.x < t212 then
                  if t212 = (0 : α) then
                    (0 : α)
                  else
                    t263
                else
                  if a.x = (0 : α) then
                    (0 : α)
                  else
                    (a.x * (sqrt (t77 + t237)))
      else
        if (0 : α) ≤ a.z then
          if (0 : α) ≤ a.w then
            if a.x < t80 then
              if t80 < a.z then
                if a.z < a.w then
                  if a.w = (0 : α) then
                    (0 : α)
                  else
                    t281
                else
                  if a.z = (0 : α) then
                    (0 : α)
                  else
                    t284
              else
                if t80 < a.w then
                  if a.w = (0 : α) then
                    (0 : α)
                  else
                    t281
                else
                  if t80 = (0 : α) then
                    (0 : α)
                  else
                    (t80 * (sqrt (t94 + t286)))
            else
              if a.x < a.z then
                if a.z < a.w then
                  if a.w = (0 : α) then
                    (0 : α)
                  else
                    t281
                else
                  if a.z = (0 : α) then
                    (0 : α)
                  else
                    t284
              else
                if a.x < a.w then
                  if a.w = (0 : α) then
                    (0 : α)
                  else
                    t281
                else
                  if a.x = (0 : α) then
                    (0 : α)
                  else
                    (a.x * (sqrt (t100 + t208)))
          else
            if a.x < t80 then
              if t80 < a.z then
                if a.z < t212 then
                  if t212 = (0 : α) then
                    (0 : α)
                  else
                    t299
                else
                  if a.z = (0 : α) then
                    (0 : α)
                  else
                    t302
              else
                if t80 < t212 then
                  if t212 = (0 : α) then
                    (0 : α)
                  else
                    t299
                else
                  if t80 = (0 : α) then
                    (0 : α)
                  else
                    (t80 * (sqrt (t94 + t304)))
            else
              if a.x < a.z then
                if a.z < t212 then
                  if t212 = (0 : α) then
                    (0 : α)
                  else
                    t299
                else
                  if a.z = (0 : α) then
                    (0 : α)
                  else
                    t302
              else
                if a.x < t212 then
                  if t212 = (0 : α) then
                    (0 : α)
                  else
                    t299
                else
                  if a.x = (0 : α) then
                    (0 : α)
                  else
                    (a.x * (sqrt (t100 + t237)))
        else
          if (0 : α) ≤ a.w then
            if a.x < t80 then
              if t80 < t59 then
                if t59 < a.w then
                  if a.w = (0 : α) then
                    (0 : α)
                  else
                    t314
                else
                  if t59 = (0 : α) then
                    (0 : α)
                  else
                    t317
              else
                if t80 < a.w then
                  if a.w = (0 : α) then
                    (0 : α)
                  else
                    t314
                else
                  if t80 = (0 : α) then
                    (0 : α)
                  else
                    (t80 * (sqrt (t111 + t286)))
            else
              if a.x < t59 then
                if t59 < a.w then
                  if a.w = (0 : α) then
                    (0 : α)
                  else
                    t314
                else
                  if t59 = (0 : α) then
                    (0 : α)
                  else
                    t317
              else
                if a.x < a.w then
                  if a.w = (0 : α) then
                    (0 : α)
                  else
                    t314
                else
                  if a.x = (0 : α) then
                    (0 : α)
                  else
                    (a.x * (sqrt (t114 + t208)))
          else
            if a.x < t80 then
              if t80 < t59 then
                if t59 < t212 then
                  if t212 = (0 : α) then
                    (0 : α)
                  else
                    t327
                else
                  if t59 = (0 : α) then
                    (0 : α)
                  else
                    t330
              else
                if t80 < t212 then
                  if t212 = (0 : α) then
                    (0 : α)
                  else
                    t327
                else
                  if t80 = (0 : α) then
                    (0 : α)
                  else
                    (t80 * (sqrt (t111 + t304)))
            else
              if a.x < t59 then
                if t59 < t212 then
                  if t212 = (0 : α) then
                    (0 : α)
                  else
                    t327
                else
                  if t59 = (0 : α) then
                    (0 : α)
                  else
                    t330
              else
                if a.x < t212 then
                  if t212 = (0 : α) then
                    (0 : α)
                  else
                    t327
                else
                  if a.x = (0 : α) then
                    (0 : α)
                  else
                    (a.x * (sqrt (t114 + t237)))
    else
      if (0 : α) ≤ a.y then
        if (0 : α) ≤ a.z then
          if (0 : α) ≤ a.w then
            if t117 < a.y then
              if a.y < a.z then
                if a.z < a.w then
                  if a.w = (0 : α) then
                    (0 : α)
                  else
                    t343
                else
                  if a.z = (0 : α) then
                    (0 : α)
                  else
                    t346
              else
                if a.y < a.w then
                  if a.w = (0 : α) then
                    (0 : α)
                  else
                    t343
                else
                  if a.y = (0 : α) then
                    (0 : α)
                  else
                    (a.y * (sqrt (t127 + t203)))
            else
              if t117 < a.z then
                if a.z < a.w then
                  if a.w = (0 : α) then
                    (0 : α)
                  else
                    t343
                else
                  if a.z = (0 : α) then
                    (0 : α)
                  else
                    t346
              else
                if t117 < a.w then
                  if a.w = (0 : α) then
                    (0 : α)
                  else
                    t343
                else
                  if t117 = (0 : α) then
                    (0 : α)
                  else
                    (t117 * (sqrt (t137 + t351)))
          else
            if t117 < a.y then
              if a.y < a.z then
                if a.z < t212 then
                  if t212 = (0 : α) then
                    (0 : α)
                  else
                    t361
                else
                  if a.z = (0 : α) then
                    (0 : α)
                  else
                    t364
              else
                if a.y < t212 then
                  if t212 = (0 : α) then
                    (0 : α)
                  else
                    t361
                else
                  if a.y = (0 : α) then
                    (0 : α)
                  else
                    (a.y * (sqrt (t127 + t232)))
            else
              if t117 < a.z then
                if a.z < t212 then
                  if t212 = (0 : α) then
                    (0 : α)
                  else
                    t361
                else
                  if a.z = (0 : α) then
                    (0 : α)
                  else
                    t364
              else
                if t117 < t212 then
                  if t212 = (0 : α) then
                    (0 : α)
                  else
                    t361
                else
                  if t117 = (0 : α) then
                    (0 : α)
                  else
                    (t117 * (sqrt (t137 + t369)))
        else
          if (0 : α) ≤ a.w then
            if t117 < a.y then
              if a.y < t59 then
                if t59 < a.w then
                  if a.w = (0 : α) then
                    (0 : α)
                  else
                    t376
                else
                  if t59 = (0 : α) then
                    (0 : α)
                  else
                    t379
              else
                if a.y < a.w then
                  if a.w = (0 : α) then
                    (0 : α)
                  else
                    t376
                else
                  if a.y = (0 : α) then
                    (0 : α)
                  else
                    (a.y * (sqrt (t146 + t203)))
            else
              if t117 < t59 then
                if t59 < a.w then
                  if a.w = (0 : α) then
                    (0 : α)
                  else
                    t376
                else
                  if t59 = (0 : α) then
                    (0 : α)
                  else
                    t379
              else
                if t117 < a.w then
                  if a.w = (0 : α) then
                    (0 : α)
                  else
                    t376
                else
                  if t117 = (0 : α) then
                    (0 : α)
                  else
                    (t117 * (sqrt (t151 + t351)))
          else
            if t117 < a.y then
              if a.y < t59 then
                if t59 < t212 then
                  if t212 = (0 : α) then
                    (0 : α)
                  else
                    t389
                else
                  if t59 = (0 : α) then
                    (0 : α)
                  else
                    t392
              else
                if a.y < t212 then
                  if t212 = (0 : α) then
                    (0 : α)
                  else
                    t389
                else
                  if a.y = (0 : α) then
                    (0 : α)
                  else
                    (a.y * (sqrt (t146 + t232)))
            else
              if t117 < t59 then
                if t59 < t212 then
                  if t212 = (0 : α) then
                    (0 : α)
                  else
                    t389
                else
                  if t59 = (0 : α) then
                    (0 : α)
                  else
                    t392
              else
                if t117 < t212 then
                  if t212 = (0 : α) then
                    (0 : α)
                  else
                    t389
                else
                  if t117 = (0 : α) then
                    (0 : α)
                  else
                    (t117 * (sqrt (t151 + t369)))
      else
        if (0 : α) ≤ a.z then
          if (0 : α) ≤ a.w then
            if t117 < t80 then
              if t80 < a.z then
                if a.z < a.w then
                  if a.w = (0 : α) then
                    (0 : α)
                  else
                    t403
                else
                  if a.z = (0 : α) then
                    (0 : α)
                  else
                    t406
              else
                if t80 < a.w then
                  if a.w = (0 : α) then
                    (0 : α)
                  else
                    t403
                else
                  if t80 = (0 : α) then
                    (0 : α)
                  else
                    (t80 * (sqrt (t161 + t286)))
            else
              if t117 < a.z then
                if a.z < a.w then
                  if a.w = (0 : α) then
                    (0 : α)
                  else
                    t403
                else
                  if a.z = (0 : α) then
                    (0 : α)
                  else
                    t406
              else
                if t117 < a.w then
                  if a.w = (0 : α) then
                    (0 : α)
                  else
                    t403
                else
                  if t117 = (0 : α) then
                    (0 : α)
                  else
                    (t117 * (sqrt (t167 + t351)))
          else
            if t117 < t80 then
              if t80 < a.z then
                if a.z < t212 then
                  if t212 = (0 : α) then
                    (0 : α)
                  else
                    t417
                else
                  if a.z = (0 : α) then
                    (0 : α)
                  else
                    t420
              else
                if t80 < t212 then
                  if t212 = (0 : α) then
                    (0 : α)
                  else
                    t417
                else
                  if t80 = (0 : α) then
                    (0 : α)
                  else
                    (t80 * (sqrt (t161 + t304)))
            else
              if t117 < a.z then
                if a.z < t212 then
                  if t212 = (0 : α) then
                    (0 : α)
                  else
                    t417
                else
                  if a.z = (0 : α) then
                    (0 : α)
                  else
                    t420
              else
                if t117 < t212 then
                  if t212 = (0 : α) then
                    (0 : α)
                  else
                    t417
                else
                  if t117 = (0 : α) then
                    (0 : α)
                  else
                    (t117 * (sqrt (t167 + t369)))
        else
          if (0 : α) ≤ a.w then
            if t117 < t80 then
              if t80 < t59 then
                if t59 < a.w then
                  if a.w = (0 : α) then
                    (0 : α)
                  else
                    t430
                else
                  if t59 = (0 : α) then
                    (0 : α)
                  else
                    t433
              else
                if t80 < a.w then
                  if a.w = (0 : α) then
                    (0 : α)
                  else
                    t430
                else
                  if t80 = (0 : α) then
                    (0 : α)
                  else
                    (t80 * (sqrt (t174 + t286)))
            else
              if t117 < t59 then
                if t59 < a.w then
                  if a.w = (0 : α) then
                    (0 : α)
                  else
                    t430
                else
                  if t59 = (0 : α) then
                    (0 : α)
                  else
                    t433
              else
                if t117 < a.w then
                  if a.w = (0 : α) then
                    (0 : α)
                  else
                    t430
                else
                  if t117 = (0 : α) then
                    (0 : α)
                  else
                    (t117 * (sqrt (t177 + t351)))
          else
            if t117 < t80 then
              if t80 < t59 then
                if t59 < t212 then
                  if t212 = (0 : α) then
                    (0 : α)
                  else
                    t443
                else
                  if t59 = (0 : α) then
                    (0 : α)
                  else
                    t446
              else
                if t80 < t212 then
                  if t212 = (0 : α) then
                    (0 : α)
                  else
                    t443
                else
                  if t80 = (0 : α) then
                    (0 : α)
                  else
                    (t80 * (sqrt (t174 + t304)))
            else
              if t117 < t59 then
                if t59 < t212 then
                  if t212 = (0 : α) then
                    (0 : α)
                  else
                    t443
                else
                  if t59 = (0 : α) then
                    (0 : α)
                  else
                    t446
              else
                if t117 < t212 then
                  if t212 = (0 : α) then
                    (0 : α)
                  else
                    t443
                else
                  if t117 = (0 : α) then
                    (0 : α)
                  else
                    (t117 * (sqrt (t177 + t369)))
  else
    (sqrt t183)

end ImathVerif.Gen
