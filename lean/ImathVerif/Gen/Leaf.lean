-- GENERATED from /repo/src/Imath by harness/sym (T = Sym path extraction); do not edit.
import ImathVerif.Basic.Types
set_option linter.unusedVariables false
namespace ImathVerif.Gen
open ImathVerif

/-- extracted from the C++ template at T = Sym; 9 path(s) -/
def V2.length {α : Type} [Add α] [Mul α] [Div α] [Neg α] [LT α] [DecidableLT α] [DecidableEq α] [OfNat α 0] [OfNat α 2] (tmin : α) (tmax : α) (sqrt : α → α) (a : V2 α) : α :=
  let t5 := ((a.x * a.x) + (a.y * a.y))
  let t8 := ((2 : α) * tmin)
  let t9 := (sabs a.x)
  let t10 := (sabs a.y)
  let t11 := (t9 / t10)
  let t12 := (t10 / t10)
  let t17 := (t10 * (sqrt ((t11 * t11) + (t12 * t12))))
  let t18 := (t9 / t9)
  let t19 := (t10 / t9)
  let t24 := (t9 * (sqrt ((t18 * t18) + (t19 * t19))))
  if t5 < t8 then
    if t9 < t10 then
      if t10 = (0 : α) then
        (0 : α)
      else
        t17
    else
      if t9 = (0 : α) then
        (0 : α)
      else
        t24
  else
    if tmax < t5 then
      if t9 < t10 then
        if t10 = (0 : α) then
          (0 : α)
        else
          t17
      else
        if t9 = (0 : α) then
          (0 : α)
        else
          t24
    else
      (sqrt t5)

/-- extracted from the C++ template at T = Sym; 129 path(s) -/
def V3.length {α : Type} [Add α] [Mul α] [Div α] [Neg α] [LT α] [LE α] [DecidableLT α] [DecidableLE α] [DecidableEq α] [OfNat α 0] [OfNat α 2] (tmin : α) (tmax : α) (sqrt : α → α) (a : V3 α) : α :=
  let t8 := ((2 : α) * tmin)
  let t29 := (((a.x * a.x) + (a.y * a.y)) + (a.z * a.z))
  let t30 := (a.x / a.z)
  let t31 := (a.y / a.z)
  let t32 := (a.z / a.z)
  let t33 := (t32 * t32)
  let t34 := (t31 * t31)
  let t35 := (t30 * t30)
  let t39 := (a.z * (sqrt ((t35 + t34) + t33)))
  let t40 := (a.x / a.y)
  let t41 := (a.y / a.y)
  let t42 := (a.z / a.y)
  let t43 := (t42 * t42)
  let t44 := (t41 * t41)
  let t46 := ((t40 * t40) + t44)
  let t49 := (a.y * (sqrt (t46 + t43)))
  let t50 := (a.x / a.x)
  let t51 := (a.y / a.x)
  let t52 := (a.z / a.x)
  let t53 := (t52 * t52)
  let t55 := (t50 * t50)
  let t56 := (t55 + (t51 * t51))
  let t59 := (a.x * (sqrt (t56 + t53)))
  let t60 := (-a.z)
  let t61 := (a.x / t60)
  let t62 := (a.y / t60)
  let t63 := (t60 / t60)
  let t64 := (t63 * t63)
  let t65 := (t62 * t62)
  let t66 := (t61 * t61)
  let t70 := (t60 * (sqrt ((t66 + t65) + t64)))
  let t71 := (t60 / a.y)
  let t72 := (t71 * t71)
  let t75 := (a.y * (sqrt (t46 + t72)))
  let t76 := (t60 / a.x)
  let t77 := (t76 * t76)
  let t80 := (a.x * (sqrt (t56 + t77)))
  let t81 := (-a.y)
  let t82 := (t81 / a.z)
  let t83 := (t82 * t82)
  let t87 := (a.z * (sqrt ((t35 + t83) + t33)))
  let t88 := (a.x / t81)
  let t89 := (t81 / t81)
  let t90 := (a.z / t81)
  let t91 := (t90 * t90)
  let t92 := (t89 * t89)
  let t94 := ((t88 * t88) + t92)
  let t97 := (t81 * (sqrt (t94 + t91)))
  let t98 := (t81 / a.x)
  let t100 := (t55 + (t98 * t98))
  let t103 := (a.x * (sqrt (t100 + t53)))
  let t104 := (t81 / t60)
  let t105 := (t104 * t104)
  let t109 := (t60 * (sqrt ((t66 + t105) + t64)))
  let t110 := (t60 / t81)
  let t111 := (t110 * t110)
  let t114 := (t81 * (sqrt (t94 + t111)))
  let t117 := (a.x * (sqrt (t100 + t77)))
  let t118 := (-a.x)
  let t119 := (t118 / a.z)
  let t120 := (t119 * t119)
  let t124 := (a.z * (sqrt ((t120 + t34) + t33)))
  let t125 := (t118 / a.y)
  let t127 := ((t125 * t125) + t44)
  let t130 := (a.y * (sqrt (t127 + t43)))
  let t131 := (t118 / t118)
  let t132 := (a.y / t118)
  let t133 := (a.z / t118)
  let t134 := (t133 * t133)
  let t136 := (t131 * t131)
  let t137 := (t136 + (t132 * t132))
  let t140 := (t118 * (sqrt (t137 + t134)))
  let t141 := (t118 / t60)
  let t142 := (t141 * t141)
  let t146 := (t60 * (sqrt ((t142 + t65) + t64)))
  let t149 := (a.y * (sqrt (t127 + t72)))
  let t150 := (t60 / t118)
  let t151 := (t150 * t150)
  let t154 := (t118 * (sqrt (t137 + t151)))
  let t158 := (a.z * (sqrt ((t120 + t83) + t33)))
  let t159 := (t118 / t81)
  let t161 := ((t159 * t159) + t92)
  let t164 := (t81 * (sqrt (t161 + t91)))
  let t165 := (t81 / t118)
  let t167 := (t136 + (t165 * t165))
  let t170 := (t118 * (sqrt (t167 + t134)))
  let t174 := (t60 * (sqrt ((t142 + t105) + t64)))
  let t177 := (t81 * (sqrt (t161 + t111)))
  let t180 := (t118 * (sqrt (t167 + t151)))
  if t29 < t8 then
    if (0 : α) ≤ a.x then
      if (0 : α) ≤ a.y then
        if (0 : α) ≤ a.z then
          if a.x < a.y then
            if a.y < a.z then
              if a.z = (0 : α) then
                (0 : α)
              else
                t39
            else
              if a.y = (0 : α) then
                (0 : α)
              else
                t49
          else
            if a.x < a.z then
              if a.z = (0 : α) then
                (0 : α)
              else
                t39
            else
              if a.x = (0 : α) then
                (0 : α)
              else
                t59
        else
          if a.x < a.y then
            if a.y < t60 then
              if t60 = (0 : α) then
                (0 : α)
              else
                t70
            else
              if a.y = (0 : α) then
                (0 : α)
              else
                t75
          else
            if a.x < t60 then
              if t60 = (0 : α) then
                (0 : α)
              else
                t70
            else
              if a.x = (0 : α) then
                (0 : α)
              else
                t80
      else
        if (0 : α) ≤ a.z then
          if a.x < t81 then
            if t81 < a.z then
              if a.z = (0 : α) then
                (0 : α)
              else
                t87
            else
              if t81 = (0 : α) then
                (0 : α)
              else
                t97
          else
            if a.x < a.z then
              if a.z = (0 : α) then
                (0 : α)
              else
                t87
            else
              if a.x = (0 : α) then
                (0 : α)
              else
                t103
        else
          if a.x < t81 then
            if t81 < t60 then
              if t60 = (0 : α) then
                (0 : α)
              else
                t109
            else
              if t81 = (0 : α) then
                (0 : α)
              else
                t114
          else
            if a.x < t60 then
              if t60 = (0 : α) then
                (0 : α)
              else
                t109
            else
              if a.x = (0 : α) then
                (0 : α)
              else
                t117
    else
      if (0 : α) ≤ a.y then
        if (0 : α) ≤ a.z then
          if t118 < a.y then
            if a.y < a.z then
              if a.z = (0 : α) then
                (0 : α)
              else
                t124
            else
              if a.y = (0 : α) then
                (0 : α)
              else
                t130
          else
            if t118 < a.z then
              if a.z = (0 : α) then
                (0 : α)
              else
                t124
            else
              if t118 = (0 : α) then
                (0 : α)
              else
                t140
        else
          if t118 < a.y then
            if a.y < t60 then
              if t60 = (0 : α) then
                (0 : α)
              else
                t146
            else
              if a.y = (0 : α) then
                (0 : α)
              else
                t149
          else
            if t118 < t60 then
              if t60 = (0 : α) then
                (0 : α)
              else
                t146
            else
              if t118 = (0 : α) then
                (0 : α)
              else
                t154
      else
        if (0 : α) ≤ a.z then
          if t118 < t81 then
            if t81 < a.z then
              if a.z = (0 : α) then
                (0 : α)
              else
                t158
            else
              if t81 = (0 : α) then
                (0 : α)
              else
                t164
          else
            if t118 < a.z then
              if a.z = (0 : α) then
                (0 : α)
              else
                t158
            else
              if t118 = (0 : α) then
                (0 : α)
              else
                t170
        else
          if t118 < t81 then
            if t81 < t60 then
              if t60 = (0 : α) then
                (0 : α)
              else
                t174
            else
              if t81 = (0 : α) then
                (0 : α)
              else
                t177
          else
            if t118 < t60 then
              if t60 = (0 : α) then
                (0 : α)
              else
                t174
            else
              if t118 = (0 : α) then
                (0 : α)
              else
                t180
  else
    if tmax < t29 then
      if (0 : α) ≤ a.x then
        if (0 : α) ≤ a.y then
          if (0 : α) ≤ a.z then
            if a.x < a.y then
              if a.y < a.z then
                if a.z = (0 : α) then
                  (0 : α)
                else
                  t39
              else
                if a.y = (0 : α) then
                  (0 : α)
                else
                  t49
            else
              if a.x < a.z then
                if a.z = (0 : α) then
                  (0 : α)
                else
                  t39
              else
                if a.x = (0 : α) then
                  (0 : α)
                else
                  t59
          else
            if a.x < a.y then
              if a.y < t60 then
                if t60 = (0 : α) then
                  (0 : α)
                else
                  t70
              else
                if a.y = (0 : α) then
                  (0 : α)
                else
                  t75
            else
              if a.x < t60 then
                if t60 = (0 : α) then
                  (0 : α)
                else
                  t70
              else
                if a.x = (0 : α) then
                  (0 : α)
                else
                  t80
        else
          if (0 : α) ≤ a.z then
            if a.x < t81 then
              if t81 < a.z then
                if a.z = (0 : α) then
                  (0 : α)
                else
                  t87
              else
                if t81 = (0 : α) then
                  (0 : α)
                else
                  t97
            else
              if a.x < a.z then
                if a.z = (0 : α) then
                  (0 : α)
                else
                  t87
              else
                if a.x = (0 : α) then
                  (0 : α)
                else
                  t103
          else
            if a.x < t81 then
              if t81 < t60 then
                if t60 = (0 : α) then
                  (0 : α)
                else
                  t109
              else
                if t81 = (0 : α) then
                  (0 : α)
                else
                  t114
            else
              if a.x < t60 then
                if t60 = (0 : α) then
                  (0 : α)
                else
                  t109
              else
                if a.x = (0 : α) then
                  (0 : α)
                else
                  t117
      else
        if (0 : α) ≤ a.y then
          if (0 : α) ≤ a.z then
            if t118 < a.y then
              if a.y < a.z then
                if a.z = (0 : α) then
                  (0 : α)
                else
                  t124
              else
                if a.y = (0 : α) then
                  (0 : α)
                else
                  t130
            else
              if t118 < a.z then
                if a.z = (0 : α) then
                  (0 : α)
                else
                  t124
              else
                if t118 = (0 : α) then
                  (0 : α)
                else
                  t140
          else
            if t118 < a.y then
              if a.y < t60 then
                if t60 = (0 : α) then
                  (0 : α)
                else
                  t146
              else
                if a.y = (0 : α) then
                  (0 : α)
                else
                  t149
            else
              if t118 < t60 then
                if t60 = (0 : α) then
                  (0 : α)
                else
                  t146
              else
                if t118 = (0 : α) then
                  (0 : α)
                else
                  t154
        else
          if (0 : α) ≤ a.z then
            if t118 < t81 then
              if t81 < a.z then
                if a.z = (0 : α) then
                  (0 : α)
                else
                  t158
              else
                if t81 = (0 : α) then
                  (0 : α)
                else
                  t164
            else
              if t118 < a.z then
                if a.z = (0 : α) then
                  (0 : α)
                else
                  t158
              else
                if t118 = (0 : α) then
                  (0 : α)
                else
                  t170
          else
            if t118 < t81 then
              if t81 < t60 then
                if t60 = (0 : α) then
                  (0 : α)
                else
                  t174
              else
                if t81 = (0 : α) then
                  (0 : α)
                else
                  t177
            else
              if t118 < t60 then
                if t60 = (0 : α) then
                  (0 : α)
                else
                  t174
              else
                if t118 = (0 : α) then
                  (0 : α)
                else
                  t180
    else
      (sqrt t29)

/-- extracted from the C++ template at T = Sym; 513 path(s) -/
def V4.length {α : Type} [Add α] [Mul α] [Div α] [Neg α] [LT α] [LE α] [DecidableLT α] [DecidableLE α] [DecidableEq α] [OfNat α 0] [OfNat α 2] (tmin : α) (tmax : α) (sqrt : α → α) (a : V4 α) : α :=
  let t8 := ((2 : α) * tmin)
  let t30 := (a.x / a.z)
  let t31 := (a.y / a.z)
  let t32 := (a.z / a.z)
  let t33 := (t32 * t32)
  let t34 := (t31 * t31)
  let t35 := (t30 * t30)
  let t37 := ((t35 + t34) + t33)
  let t40 := (a.x / a.y)
  let t41 := (a.y / a.y)
  let t42 := (a.z / a.y)
  let t43 := (t42 * t42)
  let t44 := (t41 * t41)
  let t46 := ((t40 * t40) + t44)
  let t47 := (t46 + t43)
  let t50 := (a.x / a.x)
  let t51 := (a.y / a.x)
  let t52 := (a.z / a.x)
  let t53 := (t52 * t52)
  let t55 := (t50 * t50)
  let t56 := (t55 + (t51 * t51))
  let t57 := (t56 + t53)
  let t60 := (-a.z)
  let t61 := (a.x / t60)
  let t62 := (a.y / t60)
  let t63 := (t60 / t60)
  let t64 := (t63 * t63)
  let t65 := (t62 * t62)
  let t66 := (t61 * t61)
  let t68 := ((t66 + t65) + t64)
  let t71 := (t60 / a.y)
  let t72 := (t71 * t71)
  let t73 := (t46 + t72)
  let t76 := (t60 / a.x)
  let t77 := (t76 * t76)
  let t78 := (t56 + t77)
  let t81 := (-a.y)
  let t82 := (t81 / a.z)
  let t83 := (t82 * t82)
  let t85 := ((t35 + t83) + t33)
  let t88 := (a.x / t81)
  let t89 := (t81 / t81)
  let t90 := (a.z / t81)
  let t91 := (t90 * t90)
  let t92 := (t89 * t89)
  let t94 := ((t88 * t88) + t92)
  let t95 := (t94 + t91)
  let t98 := (t81 / a.x)
  let t100 := (t55 + (t98 * t98))
  let t101 := (t100 + t53)
  let t104 := (t81 / t60)
  let t105 := (t104 * t104)
  let t107 := ((t66 + t105) + t64)
  let t110 := (t60 / t81)
  let t111 := (t110 * t110)
  let t112 := (t94 + t111)
  let t115 := (t100 + t77)
  let t118 := (-a.x)
  let t119 := (t118 / a.z)
  let t120 := (t119 * t119)
  let t122 := ((t120 + t34) + t33)
  let t125 := (t118 / a.y)
  let t127 := ((t125 * t125) + t44)
  let t128 := (t127 + t43)
  let t131 := (t118 / t118)
  let t132 := (a.y / t118)
  let t133 := (a.z / t118)
  let t134 := (t133 * t133)
  let t136 := (t131 * t131)
  let t137 := (t136 + (t132 * t132))
  let t138 := (t137 + t134)
  let t141 := (t118 / t60)
  let t142 := (t141 * t141)
  let t144 := ((t142 + t65) + t64)
  let t147 := (t127 + t72)
  let t150 := (t60 / t118)
  let t151 := (t150 * t150)
  let t152 := (t137 + t151)
  let t156 := ((t120 + t83) + t33)
  let t159 := (t118 / t81)
  let t161 := ((t159 * t159) + t92)
  let t162 := (t161 + t91)
  let t165 := (t81 / t118)
  let t167 := (t136 + (t165 * t165))
  let t168 := (t167 + t134)
  let t172 := ((t142 + t105) + t64)
  let t175 := (t161 + t111)
  let t178 := (t167 + t151)
  let t184 := ((((a.x * a.x) + (a.y * a.y)) + (a.z * a.z)) + (a.w * a.w))
  let t185 := (a.x / a.w)
  let t186 := (a.y / a.w)
  let t187 := (a.z / a.w)
  let t188 := (a.w / a.w)
  let t189 := (t188 * t188)
  let t190 := (t187 * t187)
  let t191 := (t186 * t186)
  let t192 := (t185 * t185)
  let t193 := (t192 + t191)
  let t197 := (a.w * (sqrt ((t193 + t190) + t189)))
  let t198 := (a.w / a.z)
  let t199 := (t198 * t198)
  let t202 := (a.z * (sqrt (t37 + t199)))
  let t203 := (a.w / a.y)
  let t204 := (t203 * t203)
  let t207 := (a.y * (sqrt (t47 + t204)))
  let t208 := (a.w / a.x)
  let t209 := (t208 * t208)
  let t212 := (a.x * (sqrt (t57 + t209)))
  let t213 := (-a.w)
  let t214 := (a.x / t213)
  let t215 := (a.y / t213)
  let t216 := (a.z / t213)
  let t217 := (t213 / t213)
  let t218 := (t217 * t217)
  let t219 := (t216 * t216)
  let t220 := (t215 * t215)
  let t221 := (t214 * t214)
  let t222 := (t221 + t220)
  let t226 := (t213 * (sqrt ((t222 + t219) + t218)))
  let t227 := (t213 / a.z)
  let t228 := (t227 * t227)
  let t231 := (a.z * (sqrt (t37 + t228)))
  let t232 := (t213 / a.y)
  let t233 := (t232 * t232)
  let t236 := (a.y * (sqrt (t47 + t233)))
  let t237 := (t213 / a.x)
  let t238 := (t237 * t237)
  let t241 := (a.x * (sqrt (t57 + t238)))
  let t242 := (t60 / a.w)
  let t243 := (t242 * t242)
  let t247 := (a.w * (sqrt ((t193 + t243) + t189)))
  let t248 := (a.w / t60)
  let t249 := (t248 * t248)
  let t252 := (t60 * (sqrt (t68 + t249)))
  let t255 := (a.y * (sqrt (t73 + t204)))
  let t258 := (a.x * (sqrt (t78 + t209)))
  let t259 := (t60 / t213)
  let t260 := (t259 * t259)
  let t264 := (t213 * (sqrt ((t222 + t260) + t218)))
  let t265 := (t213 / t60)
  let t266 := (t265 * t265)
  let t269 := (t60 * (sqrt (t68 + t266)))
  let t272 := (a.y * (sqrt (t73 + t233)))
  let t275 := (a.x * (sqrt (t78 + t238)))
  let t276 := (t81 / a.w)
  let t277 := (t276 * t276)
  let t278 := (t192 + t277)
  let t282 := (a.w * (sqrt ((t278 + t190) + t189)))
  let t285 := (a.z * (sqrt (t85 + t199)))
  let t286 := (a.w / t81)
  let t287 := (t286 * t286)
  let t290 := (t81 * (sqrt (t95 + t287)))
  let t293 := (a.x * (sqrt (t101 + t209)))
  let t294 := (t81 / t213)
  let t295 := (t294 * t294)
  let t296 := (t221 + t295)
  let t300 := (t213 * (sqrt ((t296 + t219) + t218)))
  let t303 := (a.z * (sqrt (t85 + t228)))
  let t304 := (t213 / t81)
  let t305 := (t304 * t304)
  let t308 := (t81 * (sqrt (t95 + t305)))
  let t311 := (a.x * (sqrt (t101 + t238)))
  let t315 := (a.w * (sqrt ((t278 + t243) + t189)))
  let t318 := (t60 * (sqrt (t107 + t249)))
  let t321 := (t81 * (sqrt (t112 + t287)))
  let t324 := (a.x * (sqrt (t115 + t209)))
  let t328 := (t213 * (sqrt ((t296 + t260) + t218)))
  let t331 := (t60 * (sqrt (t107 + t266)))
  let t334 := (t81 * (sqrt (t112 + t305)))
  let t337 := (a.x * (sqrt (t115 + t238)))
  let t338 := (t118 / a.w)
  let t339 := (t338 * t338)
  let t340 := (t339 + t191)
  let t344 := (a.w * (sqrt ((t340 + t190) + t189)))
  let t347 := (a.z * (sqrt (t122 + t199)))
  let t350 := (a.y * (sqrt (t128 + t204)))
  let t351 := (a.w / t118)
  let t352 := (t351 * t351)
  let t355 := (t118 * (sqrt (t138 + t352)))
  let t356 := (t118 / t213)
  let t357 := (t356 * t356)
  let t358 := (t357 + t220)
  let t362 := (t213 * (sqrt ((t358 + t219) + t218)))
  let t365 := (a.z * (sqrt (t122 + t228)))
  let t368 := (a.y * (sqrt (t128 + t233)))
  let t369 := (t213 / t118)
  let t370 := (t369 * t369)
  let t373 := (t118 * (sqrt (t138 + t370)))
  let t377 := (a.w * (sqrt ((t340 + t243) + t189)))
  let t380 := (t60 * (sqrt (t144 + t249)))
  let t383 := (a.y * (sqrt (t147 + t204)))
  let t386 := (t118 * (sqrt (t152 + t352)))
  let t390 := (t213 * (sqrt ((t358 + t260) + t218)))
  let t393 := (t60 * (sqrt (t144 + t266)))
  let t396 := (a.y * (sqrt (t147 + t233)))
  let t399 := (t118 * (sqrt (t152 + t370)))
  let t400 := (t339 + t277)
  let t404 := (a.w * (sqrt ((t400 + t190) + t189)))
  let t407 := (a.z * (sqrt (t156 + t199)))
  let t410 := (t81 * (sqrt (t162 + t287)))
  let t413 := (t118 * (sqrt (t168 + t352)))
  let t414 := (t357 + t295)
  let t418 := (t213 * (sqrt ((t414 + t219) + t218)))
  let t421 := (a.z * (sqrt (t156 + t228)))
  let t424 := (t81 * (sqrt (t162 + t305)))
  let t427 := (t118 * (sqrt (t168 + t370)))
  let t431 := (a.w * (sqrt ((t400 + t243) + t189)))
  let t434 := (t60 * (sqrt (t172 + t249)))
  let t437 := (t81 * (sqrt (t175 + t287)))
  let t440 := (t118 * (sqrt (t178 + t352)))
  let t444 := (t213 * (sqrt ((t414 + t260) + t218)))
  let t447 := (t60 * (sqrt (t172 + t266)))
  let t450 := (t81 * (sqrt (t175 + t305)))
  let t453 := (t118 * (sqrt (t178 + t370)))
  if t184 < t8 then
    if (0 : α) ≤ a.x then
      if (0 : α) ≤ a.y then
        if (0 : α) ≤ a.z then
          if (0 : α) ≤ a.w then
            if a.x < a.y then
              if a.y < a.z then
                if a.z < a.w then
                  if a.w = (0 : α) then
                    (0 : α)
                  else
                    t197
                else
                  if a.z = (0 : α) then
                    (0 : α)
                  else
                    t202
              else
                if a.y < a.w then
                  if a.w = (0 : α) then
                    (0 : α)
                  else
                    t197
                else
                  if a.y = (0 : α) then
                    (0 : α)
                  else
                    t207
            else
              if a.x < a.z then
                if a.z < a.w then
                  if a.w = (0 : α) then
                    (0 : α)
                  else
                    t197
                else
                  if a.z = (0 : α) then
                    (0 : α)
                  else
                    t202
              else
                if a.x < a.w then
                  if a.w = (0 : α) then
                    (0 : α)
                  else
                    t197
                else
                  if a.x = (0 : α) then
                    (0 : α)
                  else
                    t212
          else
            if a.x < a.y then
              if a.y < a.z then
                if a.z < t213 then
                  if t213 = (0 : α) then
                    (0 : α)
                  else
                    t226
                else
                  if a.z = (0 : α) then
                    (0 : α)
                  else
                    t231
              else
                if a.y < t213 then
                  if t213 = (0 : α) then
                    (0 : α)
                  else
                    t226
                else
                  if a.y = (0 : α) then
                    (0 : α)
                  else
                    t236
            else
              if a.x < a.z then
                if a.z < t213 then
                  if t213 = (0 : α) then
                    (0 : α)
                  else
                    t226
                else
                  if a.z = (0 : α) then
                    (0 : α)
                  else
                    t231
              else
                if a.x < t213 then
                  if t213 = (0 : α) then
                    (0 : α)
                  else
                    t226
                else
                  if a.x = (0 : α) then
                    (0 : α)
                  else
                    t241
        else
          if (0 : α) ≤ a.w then
            if a.x < a.y then
              if a.y < t60 then
                if t60 < a.w then
                  if a.w = (0 : α) then
                    (0 : α)
                  else
                    t247
                else
                  if t60 = (0 : α) then
                    (0 : α)
                  else
                    t252
              else
                if a.y < a.w then
                  if a.w = (0 : α) then
                    (0 : α)
                  else
                    t247
                else
                  if a.y = (0 : α) then
                    (0 : α)
                  else
                    t255
            else
              if a.x < t60 then
                if t60 < a.w then
                  if a.w = (0 : α) then
                    (0 : α)
                  else
                    t247
                else
                  if t60 = (0 : α) then
                    (0 : α)
                  else
                    t252
              else
                if a.x < a.w then
                  if a.w = (0 : α) then
                    (0 : α)
                  else
                    t247
                else
                  if a.x = (0 : α) then
                    (0 : α)
                  else
                    t258
          else
            if a.x < a.y then
              if a.y < t60 then
                if t60 < t213 then
                  if t213 = (0 : α) then
                    (0 : α)
                  else
                    t264
                else
                  if t60 = (0 : α) then
                    (0 : α)
                  else
                    t269
              else
                if a.y < t213 then
                  if t213 = (0 : α) then
                    (0 : α)
                  else
                    t264
                else
                  if a.y = (0 : α) then
                    (0 : α)
                  else
                    t272
            else
              if a.x < t60 then
                if t60 < t213 then
                  if t213 = (0 : α) then
                    (0 : α)
                  else
                    t264
                else
                  if t60 = (0 : α) then
                    (0 : α)
                  else
                    t269
              else
                if a.x < t213 then
                  if t213 = (0 : α) then
                    (0 : α)
                  else
                    t264
                else
                  if a.x = (0 : α) then
                    (0 : α)
                  else
                    t275
      else
        if (0 : α) ≤ a.z then
          if (0 : α) ≤ a.w then
            if a.x < t81 then
              if t81 < a.z then
                if a.z < a.w then
                  if a.w = (0 : α) then
                    (0 : α)
                  else
                    t282
                else
                  if a.z = (0 : α) then
                    (0 : α)
                  else
                    t285
              else
                if t81 < a.w then
                  if a.w = (0 : α) then
                    (0 : α)
                  else
                    t282
                else
                  if t81 = (0 : α) then
                    (0 : α)
                  else
                    t290
            else
              if a.x < a.z then
                if a.z < a.w then
                  if a.w = (0 : α) then
                    (0 : α)
                  else
                    t282
                else
                  if a.z = (0 : α) then
                    (0 : α)
                  else
                    t285
              else
                if a.x < a.w then
                  if a.w = (0 : α) then
                    (0 : α)
                  else
                    t282
                else
                  if a.x = (0 : α) then
                    (0 : α)
                  else
                    t293
          else
            if a.x < t81 then
              if t81 < a.z then
                if a.z < t213 then
                  if t213 = (0 : α) then
                    (0 : α)
                  else
                    t300
                else
                  if a.z = (0 : α) then
                    (0 : α)
                  else
                    t303
              else
                if t81 < t213 then
                  if t213 = (0 : α) then
                    (0 : α)
                  else
                    t300
                else
                  if t81 = (0 : α) then
                    (0 : α)
                  else
                    t308
            else
              if a.x < a.z then
                if a.z < t213 then
                  if t213 = (0 : α) then
                    (0 : α)
                  else
                    t300
                else
                  if a.z = (0 : α) then
                    (0 : α)
                  else
                    t303
              else
                if a.x < t213 then
                  if t213 = (0 : α) then
                    (0 : α)
                  else
                    t300
                else
                  if a.x = (0 : α) then
                    (0 : α)
                  else
                    t311
        else
          if (0 : α) ≤ a.w then
            if a.x < t81 then
              if t81 < t60 then
                if t60 < a.w then
                  if a.w = (0 : α) then
                    (0 : α)
                  else
                    t315
                else
                  if t60 = (0 : α) then
                    (0 : α)
                  else
                    t318
              else
                if t81 < a.w then
                  if a.w = (0 : α) then
                    (0 : α)
                  else
                    t315
                else
                  if t81 = (0 : α) then
                    (0 : α)
                  else
                    t321
            else
              if a.x < t60 then
                if t60 < a.w then
                  if a.w = (0 : α) then
                    (0 : α)
                  else
                    t315
                else
                  if t60 = (0 : α) then
                    (0 : α)
                  else
                    t318
              else
                if a.x < a.w then
                  if a.w = (0 : α) then
                    (0 : α)
                  else
                    t315
                else
                  if a.x = (0 : α) then
                    (0 : α)
                  else
                    t324
          else
            if a.x < t81 then
              if t81 < t60 then
                if t60 < t213 then
                  if t213 = (0 : α) then
                    (0 : α)
                  else
                    t328
                else
                  if t60 = (0 : α) then
                    (0 : α)
                  else
                    t331
              else
                if t81 < t213 then
                  if t213 = (0 : α) then
                    (0 : α)
                  else
                    t328
                else
                  if t81 = (0 : α) then
                    (0 : α)
                  else
                    t334
            else
              if a.x < t60 then
                if t60 < t213 then
                  if t213 = (0 : α) then
                    (0 : α)
                  else
                    t328
                else
                  if t60 = (0 : α) then
                    (0 : α)
                  else
                    t331
              else
                if a.x < t213 then
                  if t213 = (0 : α) then
                    (0 : α)
                  else
                    t328
                else
                  if a.x = (0 : α) then
                    (0 : α)
                  else
                    t337
    else
      if (0 : α) ≤ a.y then
        if (0 : α) ≤ a.z then
          if (0 : α) ≤ a.w then
            if t118 < a.y then
              if a.y < a.z then
                if a.z < a.w then
                  if a.w = (0 : α) then
                    (0 : α)
                  else
                    t344
                else
                  if a.z = (0 : α) then
                    (0 : α)
                  else
                    t347
              else
                if a.y < a.w then
                  if a.w = (0 : α) then
                    (0 : α)
                  else
                    t344
                else
                  if a.y = (0 : α) then
                    (0 : α)
                  else
                    t350
            else
              if t118 < a.z then
                if a.z < a.w then
                  if a.w = (0 : α) then
                    (0 : α)
                  else
                    t344
                else
                  if a.z = (0 : α) then
                    (0 : α)
                  else
                    t347
              else
                if t118 < a.w then
                  if a.w = (0 : α) then
                    (0 : α)
                  else
                    t344
                else
                  if t118 = (0 : α) then
                    (0 : α)
                  else
                    t355
          else
            if t118 < a.y then
              if a.y < a.z then
                if a.z < t213 then
                  if t213 = (0 : α) then
                    (0 : α)
                  else
                    t362
                else
                  if a.z = (0 : α) then
                    (0 : α)
                  else
                    t365
              else
                if a.y < t213 then
                  if t213 = (0 : α) then
                    (0 : α)
                  else
                    t362
                else
                  if a.y = (0 : α) then
                    (0 : α)
                  else
                    t368
            else
              if t118 < a.z then
                if a.z < t213 then
                  if t213 = (0 : α) then
                    (0 : α)
                  else
                    t362
                else
                  if a.z = (0 : α) then
                    (0 : α)
                  else
                    t365
              else
                if t118 < t213 then
                  if t213 = (0 : α) then
                    (0 : α)
                  else
                    t362
                else
                  if t118 = (0 : α) then
                    (0 : α)
                  else
                    t373
        else
          if (0 : α) ≤ a.w then
            if t118 < a.y then
              if a.y < t60 then
                if t60 < a.w then
                  if a.w = (0 : α) then
                    (0 : α)
                  else
                    t377
                else
                  if t60 = (0 : α) then
                    (0 : α)
                  else
                    t380
              else
                if a.y < a.w then
                  if a.w = (0 : α) then
                    (0 : α)
                  else
                    t377
                else
                  if a.y = (0 : α) then
                    (0 : α)
                  else
                    t383
            else
              if t118 < t60 then
                if t60 < a.w then
                  if a.w = (0 : α) then
                    (0 : α)
                  else
                    t377
                else
                  if t60 = (0 : α) then
                    (0 : α)
                  else
                    t380
              else
                if t118 < a.w then
                  if a.w = (0 : α) then
                    (0 : α)
                  else
                    t377
                else
                  if t118 = (0 : α) then
                    (0 : α)
                  else
                    t386
          else
            if t118 < a.y then
              if a.y < t60 then
                if t60 < t213 then
                  if t213 = (0 : α) then
                    (0 : α)
                  else
                    t390
                else
                  if t60 = (0 : α) then
                    (0 : α)
                  else
                    t393
              else
                if a.y < t213 then
                  if t213 = (0 : α) then
                    (0 : α)
                  else
                    t390
                else
                  if a.y = (0 : α) then
                    (0 : α)
                  else
                    t396
            else
              if t118 < t60 then
                if t60 < t213 then
                  if t213 = (0 : α) then
                    (0 : α)
                  else
                    t390
                else
                  if t60 = (0 : α) then
                    (0 : α)
                  else
                    t393
              else
                if t118 < t213 then
                  if t213 = (0 : α) then
                    (0 : α)
                  else
                    t390
                else
                  if t118 = (0 : α) then
                    (0 : α)
                  else
                    t399
      else
        if (0 : α) ≤ a.z then
          if (0 : α) ≤ a.w then
            if t118 < t81 then
              if t81 < a.z then
                if a.z < a.w then
                  if a.w = (0 : α) then
                    (0 : α)
                  else
                    t404
                else
                  if a.z = (0 : α) then
                    (0 : α)
                  else
                    t407
              else
                if t81 < a.w then
                  if a.w = (0 : α) then
                    (0 : α)
                  else
                    t404
                else
                  if t81 = (0 : α) then
                    (0 : α)
                  else
                    t410
            else
              if t118 < a.z then
                if a.z < a.w then
                  if a.w = (0 : α) then
                    (0 : α)
                  else
                    t404
                else
                  if a.z = (0 : α) then
                    (0 : α)
                  else
                    t407
              else
                if t118 < a.w then
                  if a.w = (0 : α) then
                    (0 : α)
                  else
                    t404
                else
                  if t118 = (0 : α) then
                    (0 : α)
                  else
                    t413
          else
            if t118 < t81 then
              if t81 < a.z then
                if a.z < t213 then
                  if t213 = (0 : α) then
                    (0 : α)
                  else
                    t418
                else
                  if a.z = (0 : α) then
                    (0 : α)
                  else
                    t421
              else
                if t81 < t213 then
                  if t213 = (0 : α) then
                    (0 : α)
                  else
                    t418
                else
                  if t81 = (0 : α) then
                    (0 : α)
                  else
                    t424
            else
              if t118 < a.z then
                if a.z < t213 then
                  if t213 = (0 : α) then
                    (0 : α)
                  else
                    t418
                else
                  if a.z = (0 : α) then
                    (0 : α)
                  else
                    t421
              else
                if t118 < t213 then
                  if t213 = (0 : α) then
                    (0 : α)
                  else
                    t418
                else
                  if t118 = (0 : α) then
                    (0 : α)
                  else
                    t427
        else
          if (0 : α) ≤ a.w then
            if t118 < t81 then
              if t81 < t60 then
                if t60 < a.w then
                  if a.w = (0 : α) then
                    (0 : α)
                  else
                    t431
                else
                  if t60 = (0 : α) then
                    (0 : α)
                  else
                    t434
              else
                if t81 < a.w then
                  if a.w = (0 : α) then
                    (0 : α)
                  else
                    t431
                else
                  if t81 = (0 : α) then
                    (0 : α)
                  else
                    t437
            else
              if t118 < t60 then
                if t60 < a.w then
                  if a.w = (0 : α) then
                    (0 : α)
                  else
                    t431
                else
                  if t60 = (0 : α) then
                    (0 : α)
                  else
                    t434
              else
                if t118 < a.w then
                  if a.w = (0 : α) then
                    (0 : α)
                  else
                    t431
                else
                  if t118 = (0 : α) then
                    (0 : α)
                  else
                    t440
          else
            if t118 < t81 then
              if t81 < t60 then
                if t60 < t213 then
                  if t213 = (0 : α) then
                    (0 : α)
                  else
                    t444
                else
                  if t60 = (0 : α) then
                    (0 : α)
                  else
                    t447
              else
                if t81 < t213 then
                  if t213 = (0 : α) then
                    (0 : α)
                  else
                    t444
                else
                  if t81 = (0 : α) then
                    (0 : α)
                  else
                    t450
            else
              if t118 < t60 then
                if t60 < t213 then
                  if t213 = (0 : α) then
                    (0 : α)
                  else
                    t444
                else
                  if t60 = (0 : α) then
                    (0 : α)
                  else
                    t447
              else
                if t118 < t213 then
                  if t213 = (0 : α) then
                    (0 : α)
                  else
                    t444
                else
                  if t118 = (0 : α) then
                    (0 : α)
                  else
                    t453
  else
    if tmax < t184 then
      if (0 : α) ≤ a.x then
        if (0 : α) ≤ a.y then
          if (0 : α) ≤ a.z then
            if (0 : α) ≤ a.w then
              if a.x < a.y then
                if a.y < a.z then
                  if a.z < a.w then
                    if a.w = (0 : α) then
                      (0 : α)
                    else
                      t197
                  else
                    if a.z = (0 : α) then
                      (0 : α)
                    else
                      t202
                else
                  if a.y < a.w then
                    if a.w = (0 : α) then
                      (0 : α)
                    else
                      t197
                  else
                    if a.y = (0 : α) then
                      (0 : α)
                    else
                      t207
              else
                if a.x < a.z then
                  if a.z < a.w then
                    if a.w = (0 : α) then
                      (0 : α)
                    else
                      t197
                  else
                    if a.z = (0 : α) then
                      (0 : α)
                    else
                      t202
                else
                  if a.x < a.w then
                    if a.w = (0 : α) then
                      (0 : α)
                    else
                      t197
                  else
                    if a.x = (0 : α) then
                      (0 : α)
                    else
                      t212
            else
              if a.x < a.y then
                if a.y < a.z then
                  if a.z < t213 then
                    if t213 = (0 : α) then
                      (0 : α)
                    else
                      t226
                  else
                    if a.z = (0 : α) then
                      (0 : α)
                    else
                      t231
                else
                  if a.y < t213 then
                    if t213 = (0 : α) then
                      (0 : α)
                    else
                      t226
                  else
                    if a.y = (0 : α) then
                      (0 : α)
                    else
                      t236
              else
                if a.x < a.z then
                  if a.z < t213 then
                    if t213 = (0 : α) then
                      (0 : α)
                    else
                      t226
                  else
                    if a.z = (0 : α) then
                      (0 : α)
                    else
                      t231
                else
                  if a.x < t213 then
                    if t213 = (0 : α) then
                      (0 : α)
                    else
                      t226
                  else
                    if a.x = (0 : α) then
                      (0 : α)
                    else
                      t241
          else
            if (0 : α) ≤ a.w then
              if a.x < a.y then
                if a.y < t60 then
                  if t60 < a.w then
                    if a.w = (0 : α) then
                      (0 : α)
                    else
                      t247
                  else
                    if t60 = (0 : α) then
                      (0 : α)
                    else
                      t252
                else
                  if a.y < a.w then
                    if a.w = (0 : α) then
                      (0 : α)
                    else
                      t247
                  else
                    if a.y = (0 : α) then
                      (0 : α)
                    else
                      t255
              else
                if a.x < t60 then
                  if t60 < a.w then
                    if a.w = (0 : α) then
                      (0 : α)
                    else
                      t247
                  else
                    if t60 = (0 : α) then
                      (0 : α)
                    else
                      t252
                else
                  if a.x < a.w then
                    if a.w = (0 : α) then
                      (0 : α)
                    else
                      t247
                  else
                    if a.x = (0 : α) then
                      (0 : α)
                    else
                      t258
            else
              if a.x < a.y then
                if a.y < t60 then
                  if t60 < t213 then
                    if t213 = (0 : α) then
                      (0 : α)
                    else
                      t264
                  else
                    if t60 = (0 : α) then
                      (0 : α)
                    else
                      t269
                else
                  if a.y < t213 then
                    if t213 = (0 : α) then
                      (0 : α)
                    else
                      t264
                  else
                    if a.y = (0 : α) then
                      (0 : α)
                    else
                      t272
              else
                if a.x < t60 then
                  if t60 < t213 then
                    if t213 = (0 : α) then
                      (0 : α)
                    else
                      t264
                  else
                    if t60 = (0 : α) then
                      (0 : α)
                    else
                      t269
                else
                  if a.x < t213 then
                    if t213 = (0 : α) then
                      (0 : α)
                    else
                      t264
                  else
                    if a.x = (0 : α) then
                      (0 : α)
                    else
                      t275
        else
          if (0 : α) ≤ a.z then
            if (0 : α) ≤ a.w then
              if a.x < t81 then
                if t81 < a.z then
                  if a.z < a.w then
                    if a.w = (0 : α) then
                      (0 : α)
                    else
                      t282
                  else
                    if a.z = (0 : α) then
                      (0 : α)
                    else
                      t285
                else
                  if t81 < a.w then
                    if a.w = (0 : α) then
                      (0 : α)
                    else
                      t282
                  else
                    if t81 = (0 : α) then
                      (0 : α)
                    else
                      t290
              else
                if a.x < a.z then
                  if a.z < a.w then
                    if a.w = (0 : α) then
                      (0 : α)
                    else
                      t282
                  else
                    if a.z = (0 : α) then
                      (0 : α)
                    else
                      t285
                else
                  if a.x < a.w then
                    if a.w = (0 : α) then
                      (0 : α)
                    else
                      t282
                  else
                    if a.x = (0 : α) then
                      (0 : α)
                    else
                      t293
            else
              if a.x < t81 then
                if t81 < a.z then
                  if a.z < t213 then
                    if t213 = (0 : α) then
                      (0 : α)
                    else
                      t300
                  else
                    if a.z = (0 : α) then
                      (0 : α)
                    else
                      t303
                else
                  if t81 < t213 then
                    if t213 = (0 : α) then
                      (0 : α)
                    else
                      t300
                  else
                    if t81 = (0 : α) then
                      (0 : α)
                    else
                      t308
              else
                if a.x < a.z then
                  if a.z < t213 then
                    if t213 = (0 : α) then
                      (0 : α)
                    else
                      t300
                  else
                    if a.z = (0 : α) then
                      (0 : α)
                    else
                      t303
                else
                  if a.x < t213 then
                    if t213 = (0 : α) then
                      (0 : α)
                    else
                      t300
                  else
                    if a.x = (0 : α) then
                      (0 : α)
                    else
                      t311
          else
            if (0 : α) ≤ a.w then
              if a.x < t81 then
                if t81 < t60 then
                  if t60 < a.w then
                    if a.w = (0 : α) then
                      (0 : α)
                    else
                      t315
                  else
                    if t60 = (0 : α) then
                      (0 : α)
                    else
                      t318
                else
                  if t81 < a.w then
                    if a.w = (0 : α) then
                      (0 : α)
                    else
                      t315
                  else
                    if t81 = (0 : α) then
                      (0 : α)
                    else
                      t321
              else
                if a.x < t60 then
                  if t60 < a.w then
                    if a.w = (0 : α) then
                      (0 : α)
                    else
                      t315
                  else
                    if t60 = (0 : α) then
                      (0 : α)
                    else
                      t318
                else
                  if a.x < a.w then
                    if a.w = (0 : α) then
                      (0 : α)
                    else
                      t315
                  else
                    if a.x = (0 : α) then
                      (0 : α)
                    else
                      t324
            else
              if a.x < t81 then
                if t81 < t60 then
                  if t60 < t213 then
                    if t213 = (0 : α) then
                      (0 : α)
                    else
                      t328
                  else
                    if t60 = (0 : α) then
                      (0 : α)
                    else
                      t331
                else
                  if t81 < t213 then
                    if t213 = (0 : α) then
                      (0 : α)
                    else
                      t328
                  else
                    if t81 = (0 : α) then
                      (0 : α)
                    else
                      t334
              else
                if a.x < t60 then
                  if t60 < t213 then
                    if t213 = (0 : α) then
                      (0 : α)
                    else
                      t328
                  else
                    if t60 = (0 : α) then
                      (0 : α)
                    else
                      t331
                else
                  if a.x < t213 then
                    if t213 = (0 : α) then
                      (0 : α)
                    else
                      t328
                  else
                    if a.x = (0 : α) then
                      (0 : α)
                    else
                      t337
      else
        if (0 : α) ≤ a.y then
          if (0 : α) ≤ a.z then
            if (0 : α) ≤ a.w then
              if t118 < a.y then
                if a.y < a.z then
                  if a.z < a.w then
                    if a.w = (0 : α) then
                      (0 : α)
                    else
                      t344
                  else
                    if a.z = (0 : α) then
                      (0 : α)
                    else
                      t347
                else
                  if a.y < a.w then
                    if a.w = (0 : α) then
                      (0 : α)
                    else
                      t344
                  else
                    if a.y = (0 : α) then
                      (0 : α)
                    else
                      t350
              else
                if t118 < a.z then
                  if a.z < a.w then
                    if a.w = (0 : α) then
                      (0 : α)
                    else
                      t344
                  else
                    if a.z = (0 : α) then
                      (0 : α)
                    else
                      t347
                else
                  if t118 < a.w then
                    if a.w = (0 : α) then
                      (0 : α)
                    else
                      t344
                  else
                    if t118 = (0 : α) then
                      (0 : α)
                    else
                      t355
            else
              if t118 < a.y then
                if a.y < a.z then
                  if a.z < t213 then
                    if t213 = (0 : α) then
                      (0 : α)
                    else
                      t362
                  else
                    if a.z = (0 : α) then
                      (0 : α)
                    else
                      t365
                else
                  if a.y < t213 then
                    if t213 = (0 : α) then
                      (0 : α)
                    else
                      t362
                  else
                    if a.y = (0 : α) then
                      (0 : α)
                    else
                      t368
              else
                if t118 < a.z then
                  if a.z < t213 then
                    if t213 = (0 : α) then
                      (0 : α)
                    else
                      t362
                  else
                    if a.z = (0 : α) then
                      (0 : α)
                    else
                      t365
                else
                  if t118 < t213 then
                    if t213 = (0 : α) then
                      (0 : α)
                    else
                      t362
                  else
                    if t118 = (0 : α) then
                      (0 : α)
                    else
                      t373
          else
            if (0 : α) ≤ a.w then
              if t118 < a.y then
                if a.y < t60 then
                  if t60 < a.w then
                    if a.w = (0 : α) then
                      (0 : α)
                    else
                      t377
                  else
                    if t60 = (0 : α) then
                      (0 : α)
                    else
                      t380
                else
                  if a.y < a.w then
                    if a.w = (0 : α) then
                      (0 : α)
                    else
                      t377
                  else
                    if a.y = (0 : α) then
                      (0 : α)
                    else
                      t383
              else
                if t118 < t60 then
                  if t60 < a.w then
                    if a.w = (0 : α) then
                      (0 : α)
                    else
                      t377
                  else
                    if t60 = (0 : α) then
                      (0 : α)
                    else
                      t380
                else
                  if t118 < a.w then
                    if a.w = (0 : α) then
                      (0 : α)
                    else
                      t377
                  else
                    if t118 = (0 : α) then
                      (0 : α)
                    else
                      t386
            else
              if t118 < a.y then
                if a.y < t60 then
                  if t60 < t213 then
                    if t213 = (0 : α) then
                      (0 : α)
                    else
                      t390
                  else
                    if t60 = (0 : α) then
                      (0 : α)
                    else
                      t393
                else
                  if a.y < t213 then
                    if t213 = (0 : α) then
                      (0 : α)
                    else
                      t390
                  else
                    if a.y = (0 : α) then
                      (0 : α)
                    else
                      t396
              else
                if t118 < t60 then
                  if t60 < t213 then
                    if t213 = (0 : α) then
                      (0 : α)
                    else
                      t390
                  else
                    if t60 = (0 : α) then
                      (0 : α)
                    else
                      t393
                else
                  if t118 < t213 then
                    if t213 = (0 : α) then
                      (0 : α)
                    else
                      t390
                  else
                    if t118 = (0 : α) then
                      (0 : α)
                    else
                      t399
        else
          if (0 : α) ≤ a.z then
            if (0 : α) ≤ a.w then
              if t118 < t81 then
                if t81 < a.z then
                  if a.z < a.w then
                    if a.w = (0 : α) then
                      (0 : α)
                    else
                      t404
                  else
                    if a.z = (0 : α) then
                      (0 : α)
                    else
                      t407
                else
                  if t81 < a.w then
                    if a.w = (0 : α) then
                      (0 : α)
                    else
                      t404
                  else
                    if t81 = (0 : α) then
                      (0 : α)
                    else
                      t410
              else
                if t118 < a.z then
                  if a.z < a.w then
                    if a.w = (0 : α) then
                      (0 : α)
                    else
                      t404
                  else
                    if a.z = (0 : α) then
                      (0 : α)
                    else
                      t407
                else
                  if t118 < a.w then
                    if a.w = (0 : α) then
                      (0 : α)
                    else
                      t404
                  else
                    if t118 = (0 : α) then
                      (0 : α)
                    else
                      t413
            else
              if t118 < t81 then
                if t81 < a.z then
                  if a.z < t213 then
                    if t213 = (0 : α) then
                      (0 : α)
                    else
                      t418
                  else
                    if a.z = (0 : α) then
                      (0 : α)
                    else
                      t421
                else
                  if t81 < t213 then
                    if t213 = (0 : α) then
                      (0 : α)
                    else
                      t418
                  else
                    if t81 = (0 : α) then
                      (0 : α)
                    else
                      t424
              else
                if t118 < a.z then
                  if a.z < t213 then
                    if t213 = (0 : α) then
                      (0 : α)
                    else
                      t418
                  else
                    if a.z = (0 : α) then
                      (0 : α)
                    else
                      t421
                else
                  if t118 < t213 then
                    if t213 = (0 : α) then
                      (0 : α)
                    else
                      t418
                  else
                    if t118 = (0 : α) then
                      (0 : α)
                    else
                      t427
          else
            if (0 : α) ≤ a.w then
              if t118 < t81 then
                if t81 < t60 then
                  if t60 < a.w then
                    if a.w = (0 : α) then
                      (0 : α)
                    else
                      t431
                  else
                    if t60 = (0 : α) then
                      (0 : α)
                    else
                      t434
                else
                  if t81 < a.w then
                    if a.w = (0 : α) then
                      (0 : α)
                    else
                      t431
                  else
                    if t81 = (0 : α) then
                      (0 : α)
                    else
                      t437
              else
                if t118 < t60 then
                  if t60 < a.w then
                    if a.w = (0 : α) then
                      (0 : α)
                    else
                      t431
                  else
                    if t60 = (0 : α) then
                      (0 : α)
                    else
                      t434
                else
                  if t118 < a.w then
                    if a.w = (0 : α) then
                      (0 : α)
                    else
                      t431
                  else
                    if t118 = (0 : α) then
                      (0 : α)
                    else
                      t440
            else
              if t118 < t81 then
                if t81 < t60 then
                  if t60 < t213 then
                    if t213 = (0 : α) then
                      (0 : α)
                    else
                      t444
                  else
                    if t60 = (0 : α) then
                      (0 : α)
                    else
                      t447
                else
                  if t81 < t213 then
                    if t213 = (0 : α) then
                      (0 : α)
                    else
                      t444
                  else
                    if t81 = (0 : α) then
                      (0 : α)
                    else
                      t450
              else
                if t118 < t60 then
                  if t60 < t213 then
                    if t213 = (0 : α) then
                      (0 : α)
                    else
                      t444
                  else
                    if t60 = (0 : α) then
                      (0 : α)
                    else
                      t447
                else
                  if t118 < t213 then
                    if t213 = (0 : α) then
                      (0 : α)
                    else
                      t444
                  else
                    if t118 = (0 : α) then
                      (0 : α)
                    else
                      t453
    else
      (sqrt t184)

end ImathVerif.Gen
