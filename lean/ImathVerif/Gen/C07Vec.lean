-- GENERATED from /repo/src/Imath by harness/sym (T = Sym path extraction); do not edit.
import ImathVerif.Basic.Types
import ImathVerif.Gen.Leaf
set_option linter.unusedVariables false
namespace ImathVerif.Gen
open ImathVerif

/-- extracted from the C++ template at T = Sym; 2 path(s) -/
def C07.V2.normalize {α : Type} [Add α] [Mul α] [Div α] [Neg α] [LT α] [DecidableLT α] [DecidableEq α] [OfNat α 0] [OfNat α 2] (tmin : α) (tmax : α) (sqrt : α → α) (a : V2 α) : (V2 α) :=
  let t3 := (V2.length tmin tmax sqrt ⟨a.x, a.y⟩)
  if t3 = (0 : α) then
    ⟨a.x, a.y⟩
  else
    ⟨(a.x / t3), (a.y / t3)⟩

/-- extracted from the C++ template at T = Sym; 2 path(s) -/
def C07.V2.normalizeExc {α : Type} [Add α] [Mul α] [Div α] [Neg α] [LT α] [DecidableLT α] [DecidableEq α] [OfNat α 0] [OfNat α 2] (tmin : α) (tmax : α) (sqrt : α → α) (a : V2 α) : Except Exc (V2 α) :=
  let t3 := (V2.length tmin tmax sqrt ⟨a.x, a.y⟩)
  if t3 = (0 : α) then
    .error Exc.domainError
  else
    .ok (⟨(a.x / t3), (a.y / t3)⟩)

/-- extracted from the C++ template at T = Sym; 1 path(s) -/
def C07.V2.normalizeNonNull {α : Type} [Add α] [Mul α] [Div α] [Neg α] [LT α] [DecidableLT α] [DecidableEq α] [OfNat α 0] [OfNat α 2] (tmin : α) (tmax : α) (sqrt : α → α) (a : V2 α) : (V2 α) :=
  let t3 := (V2.length tmin tmax sqrt ⟨a.x, a.y⟩)
  ⟨(a.x / t3), (a.y / t3)⟩

/-- extracted from the C++ template at T = Sym; 2 path(s) -/
def C07.V2.normalized {α : Type} [Add α] [Mul α] [Div α] [Neg α] [LT α] [DecidableLT α] [DecidableEq α] [OfNat α 0] [OfNat α 2] (tmin : α) (tmax : α) (sqrt : α → α) (a : V2 α) : (V2 α) :=
  let t3 := (V2.length tmin tmax sqrt ⟨a.x, a.y⟩)
  if t3 = (0 : α) then
    ⟨(0 : α), (0 : α)⟩
  else
    ⟨(a.x / t3), (a.y / t3)⟩

/-- extracted from the C++ template at T = Sym; 2 path(s) -/
def C07.V2.normalizedExc {α : Type} [Add α] [Mul α] [Div α] [Neg α] [LT α] [DecidableLT α] [DecidableEq α] [OfNat α 0] [OfNat α 2] (tmin : α) (tmax : α) (sqrt : α → α) (a : V2 α) : Except Exc (V2 α) :=
  let t3 := (V2.length tmin tmax sqrt ⟨a.x, a.y⟩)
  if t3 = (0 : α) then
    .error Exc.domainError
  else
    .ok (⟨(a.x / t3), (a.y / t3)⟩)

/-- extracted from the C++ template at T = Sym; 1 path(s) -/
def C07.V2.normalizedNonNull {α : Type} [Add α] [Mul α] [Div α] [Neg α] [LT α] [DecidableLT α] [DecidableEq α] [OfNat α 0] [OfNat α 2] (tmin : α) (tmax : α) (sqrt : α → α) (a : V2 α) : (V2 α) :=
  let t3 := (V2.length tmin tmax sqrt ⟨a.x, a.y⟩)
  ⟨(a.x / t3), (a.y / t3)⟩

/-- extracted from the C++ template at T = Sym; 2 path(s) -/
def C07.V3.normalize {α : Type} [Add α] [Mul α] [Div α] [Neg α] [LT α] [LE α] [DecidableLT α] [DecidableLE α] [DecidableEq α] [OfNat α 0] [OfNat α 2] (tmin : α) (tmax : α) (sqrt : α → α) (a : V3 α) : (V3 α) :=
  let t7 := (V3.length tmin tmax sqrt ⟨a.x, a.y, a.z⟩)
  if t7 = (0 : α) then
    ⟨a.x, a.y, a.z⟩
  else
    ⟨(a.x / t7), (a.y / t7), (a.z / t7)⟩

/-- extracted from the C++ template at T = Sym; 2 path(s) -/
def C07.V3.normalizeExc {α : Type} [Add α] [Mul α] [Div α] [Neg α] [LT α] [LE α] [DecidableLT α] [DecidableLE α] [DecidableEq α] [OfNat α 0] [OfNat α 2] (tmin : α) (tmax : α) (sqrt : α → α) (a : V3 α) : Except Exc (V3 α) :=
  let t7 := (V3.length tmin tmax sqrt ⟨a.x, a.y, a.z⟩)
  if t7 = (0 : α) then
    .error Exc.domainError
  else
    .ok (⟨(a.x / t7), (a.y / t7), (a.z / t7)⟩)

/-- extracted from the C++ template at T = Sym; 1 path(s) -/
def C07.V3.normalizeNonNull {α : Type} [Add α] [Mul α] [Div α] [Neg α] [LT α] [LE α] [DecidableLT α] [DecidableLE α] [DecidableEq α] [OfNat α 0] [OfNat α 2] (tmin : α) (tmax : α) (sqrt : α → α) (a : V3 α) : (V3 α) :=
  let t7 := (V3.length tmin tmax sqrt ⟨a.x, a.y, a.z⟩)
  ⟨(a.x / t7), (a.y / t7), (a.z / t7)⟩

/-- extracted from the C++ template at T = Sym; 2 path(s) -/
def C07.V3.normalized {α : Type} [Add α] [Mul α] [Div α] [Neg α] [LT α] [LE α] [DecidableLT α] [DecidableLE α] [DecidableEq α] [OfNat α 0] [OfNat α 2] (tmin : α) (tmax : α) (sqrt : α → α) (a : V3 α) : (V3 α) :=
  let t7 := (V3.length tmin tmax sqrt ⟨a.x, a.y, a.z⟩)
  if t7 = (0 : α) then
    ⟨(0 : α), (0 : α), (0 : α)⟩
  else
    ⟨(a.x / t7), (a.y / t7), (a.z / t7)⟩

/-- extracted from the C++ template at T = Sym; 2 path(s) -/
def C07.V3.normalizedExc {α : Type} [Add α] [Mul α] [Div α] [Neg α] [LT α] [LE α] [DecidableLT α] [DecidableLE α] [DecidableEq α] [OfNat α 0] [OfNat α 2] (tmin : α) (tmax : α) (sqrt : α → α) (a : V3 α) : Except Exc (V3 α) :=
  let t7 := (V3.length tmin tmax sqrt ⟨a.x, a.y, a.z⟩)
  if t7 = (0 : α) then
    .error Exc.domainError
  else
    .ok (⟨(a.x / t7), (a.y / t7), (a.z / t7)⟩)

/-- extracted from the C++ template at T = Sym; 1 path(s) -/
def C07.V3.normalizedNonNull {α : Type} [Add α] [Mul α] [Div α] [Neg α] [LT α] [LE α] [DecidableLT α] [DecidableLE α] [DecidableEq α] [OfNat α 0] [OfNat α 2] (tmin : α) (tmax : α) (sqrt : α → α) (a : V3 α) : (V3 α) :=
  let t7 := (V3.length tmin tmax sqrt ⟨a.x, a.y, a.z⟩)
  ⟨(a.x / t7), (a.y / t7), (a.z / t7)⟩

/-- extracted from the C++ template at T = Sym; 2 path(s) -/
def C07.V4.normalize {α : Type} [Add α] [Mul α] [Div α] [Neg α] [LT α] [LE α] [DecidableLT α] [DecidableLE α] [DecidableEq α] [OfNat α 0] [OfNat α 2] (tmin : α) (tmax : α) (sqrt : α → α) (a : V4 α) : (V4 α) :=
  let t12 := (V4.length tmin tmax sqrt ⟨a.x, a.y, a.z, a.w⟩)
  if t12 = (0 : α) then
    ⟨a.x, a.y, a.z, a.w⟩
  else
    ⟨(a.x / t12), (a.y / t12), (a.z / t12), (a.w / t12)⟩

/-- extracted from the C++ template at T = Sym; 2 path(s) -/
def C07.V4.normalizeExc {α : Type} [Add α] [Mul α] [Div α] [Neg α] [LT α] [LE α] [DecidableLT α] [DecidableLE α] [DecidableEq α] [OfNat α 0] [OfNat α 2] (tmin : α) (tmax : α) (sqrt : α → α) (a : V4 α) : Except Exc (V4 α) :=
  let t12 := (V4.length tmin tmax sqrt ⟨a.x, a.y, a.z, a.w⟩)
  if t12 = (0 : α) then
    .error Exc.domainError
  else
    .ok (⟨(a.x / t12), (a.y / t12), (a.z / t12), (a.w / t12)⟩)

/-- extracted from the C++ template at T = Sym; 1 path(s) -/
def C07.V4.normalizeNonNull {α : Type} [Add α] [Mul α] [Div α] [Neg α] [LT α] [LE α] [DecidableLT α] [DecidableLE α] [DecidableEq α] [OfNat α 0] [OfNat α 2] (tmin : α) (tmax : α) (sqrt : α → α) (a : V4 α) : (V4 α) :=
  let t12 := (V4.length tmin tmax sqrt ⟨a.x, a.y, a.z, a.w⟩)
  ⟨(a.x / t12), (a.y / t12), (a.z / t12), (a.w / t12)⟩

/-- extracted from the C++ template at T = Sym; 2 path(s) -/
def C07.V4.normalized {α : Type} [Add α] [Mul α] [Div α] [Neg α] [LT α] [LE α] [DecidableLT α] [DecidableLE α] [DecidableEq α] [OfNat α 0] [OfNat α 2] (tmin : α) (tmax : α) (sqrt : α → α) (a : V4 α) : (V4 α) :=
  let t12 := (V4.length tmin tmax sqrt ⟨a.x, a.y, a.z, a.w⟩)
  if t12 = (0 : α) then
    ⟨(0 : α), (0 : α), (0 : α), (0 : α)⟩
  else
    ⟨(a.x / t12), (a.y / t12), (a.z / t12), (a.w / t12)⟩

/-- extracted from the C++ template at T = Sym; 2 path(s) -/
def C07.V4.normalizedExc {α : Type} [Add α] [Mul α] [Div α] [Neg α] [LT α] [LE α] [DecidableLT α] [DecidableLE α] [DecidableEq α] [OfNat α 0] [OfNat α 2] (tmin : α) (tmax : α) (sqrt : α → α) (a : V4 α) : Except Exc (V4 α) :=
  let t12 := (V4.length tmin tmax sqrt ⟨a.x, a.y, a.z, a.w⟩)
  if t12 = (0 : α) then
    .error Exc.domainError
  else
    .ok (⟨(a.x / t12), (a.y / t12), (a.z / t12), (a.w / t12)⟩)

/-- extracted from the C++ template at T = Sym; 1 path(s) -/
def C07.V4.normalizedNonNull {α : Type} [Add α] [Mul α] [Div α] [Neg α] [LT α] [LE α] [DecidableLT α] [DecidableLE α] [DecidableEq α] [OfNat α 0] [OfNat α 2] (tmin : α) (tmax : α) (sqrt : α → α) (a : V4 α) : (V4 α) :=
  let t12 := (V4.length tmin tmax sqrt ⟨a.x, a.y, a.z, a.w⟩)
  ⟨(a.x / t12), (a.y / t12), (a.z / t12), (a.w / t12)⟩

/-- extracted from the C++ template at T = Sym; 1 path(s) -/
def C07.V3.ofV4 {α : Type} [Div α] (v : V4 α) : (V3 α) :=
  ⟨(v.x / v.w), (v.y / v.w), (v.z / v.w)⟩

/-- extracted from the C++ template at T = Sym; 16 path(s) -/
def C07.V3.ofV4Exc {α : Type} [Mul α] [Div α] [Neg α] [LT α] [LE α] [DecidableLT α] [DecidableLE α] [OfNat α 0] [OfNat α 1] (tmax : α) (v : V4 α) : Except Exc (V3 α) :=
  let t21 := (v.x / v.w)
  let t22 := (v.y / v.w)
  let t23 := (v.z / v.w)
  let t26 := (tmax * v.w)
  let t27 := (-t26)
  let t28 := (-v.w)
  let t29 := (tmax * t28)
  let t30 := (-t29)
  if (0 : α) ≤ v.w then
    if v.w < (1 : α) then
      if v.x ≤ t27 then
        .error Exc.domainError
      else
        if t26 ≤ v.x then
          .error Exc.domainError
        else
          if v.y ≤ t27 then
            .error Exc.domainError
          else
            if t26 ≤ v.y then
              .error Exc.domainError
            else
              if v.z ≤ t27 then
                .error Exc.domainError
              else
                if t26 ≤ v.z then
                  .error Exc.domainError
                else
                  .ok (⟨t21, t22, t23⟩)
    else
      .ok (⟨t21, t22, t23⟩)
  else
    if t28 < (1 : α) then
      if v.x ≤ t30 then
        .error Exc.domainError
      else
        if t29 ≤ v.x then
          .error Exc.domainError
        else
          if v.y ≤ t30 then
            .error Exc.domainError
          else
            if t29 ≤ v.y then
              .error Exc.domainError
            else
              if v.z ≤ t30 then
                .error Exc.domainError
              else
                if t29 ≤ v.z then
                  .error Exc.domainError
                else
                  .ok (⟨t21, t22, t23⟩)
    else
      .ok (⟨t21, t22, t23⟩)

end ImathVerif.Gen
