-- GENERATED from /repo/src/Imath by harness/sym (T = Sym path extraction); do not edit.
import ImathVerif.Basic.Types
import ImathVerif.Gen.Leaf
set_option linter.unusedVariables false
namespace ImathVerif.Gen
open ImathVerif

/-- extracted from the C++ template at T = Sym; 1 path(s) -/
def C10.Quat.rotateVector {α : Type} [Add α] [Sub α] [Mul α] [Neg α] [OfNat α 0] [OfNat α 1] (q : Quat α) (v : V3 α) : (V3 α) :=
  let t10 := (q.v.x * (-(1 : α)))
  let t11 := (q.v.y * (-(1 : α)))
  let t12 := (q.v.z * (-(1 : α)))
  let t31 := (((q.r * v.z) + (q.v.z * (0 : α))) + ((q.v.x * v.y) - (q.v.y * v.x)))
  let t32 := (((q.r * v.y) + (q.v.y * (0 : α))) + ((q.v.z * v.x) - (q.v.x * v.z)))
  let t33 := (((q.r * v.x) + (q.v.x * (0 : α))) + ((q.v.y * v.z) - (q.v.z * v.y)))
  let t40 := ((q.r * (0 : α)) - (((q.v.x * v.x) + (q.v.y * v.y)) + (q.v.z * v.z)))
  ⟨(((t40 * t10) + (t33 * q.r)) + ((t32 * t12) - (t31 * t11))), (((t40 * t11) + (t32 * q.r)) + ((t31 * t10) - (t33 * t12))), (((t40 * t12) + (t31 * q.r)) + ((t33 * t11) - (t32 * t10)))⟩

/-- extracted from the C++ template at T = Sym; 1 path(s) -/
def C10.V3.mulQuat {α : Type} [Add α] [Sub α] [Mul α] [OfNat α 2] (v : V3 α) (q : Quat α) : (V3 α) :=
  let t15 := ((q.v.x * v.y) - (q.v.y * v.x))
  let t18 := ((q.v.z * v.x) - (q.v.x * v.z))
  let t21 := ((q.v.y * v.z) - (q.v.z * v.y))
  ⟨(v.x + ((2 : α) * ((q.r * t21) + ((q.v.y * t15) - (q.v.z * t18))))), (v.y + ((2 : α) * ((q.r * t18) + ((q.v.z * t21) - (q.v.x * t15))))), (v.z + ((2 : α) * ((q.r * t15) + ((q.v.x * t18) - (q.v.y * t21)))))⟩

/-- extracted from the C++ template at T = Sym; 1 path(s) -/
def C10.Quat.toMatrix33 {α : Type} [Add α] [Sub α] [Mul α] [OfNat α 1] [OfNat α 2] (q : Quat α) : (M33 α) :=
  let t91 := (q.v.x * q.v.x)
  let t92 := (q.v.y * q.v.y)
  let t96 := (q.v.x * q.r)
  let t97 := (q.v.y * q.v.z)
  let t100 := (q.v.y * q.r)
  let t101 := (q.v.z * q.v.x)
  let t106 := (q.v.z * q.v.z)
  let t110 := (q.v.z * q.r)
  let t111 := (q.v.x * q.v.y)
  ⟨((1 : α) - ((2 : α) * (t92 + t106))), ((2 : α) * (t111 + t110)), ((2 : α) * (t101 - t100)), ((2 : α) * (t111 - t110)), ((1 : α) - ((2 : α) * (t106 + t91))), ((2 : α) * (t97 + t96)), ((2 : α) * (t101 + t100)), ((2 : α) * (t97 - t96)), ((1 : α) - ((2 : α) * (t92 + t91)))⟩

/-- extracted from the C++ template at T = Sym; 1 path(s) -/
def C10.Quat.toMatrix44 {α : Type} [Add α] [Sub α] [Mul α] [OfNat α 0] [OfNat α 1] [OfNat α 2] (q : Quat α) : (M44 α) :=
  let t91 := (q.v.x * q.v.x)
  let t92 := (q.v.y * q.v.y)
  let t96 := (q.v.x * q.r)
  let t97 := (q.v.y * q.v.z)
  let t100 := (q.v.y * q.r)
  let t101 := (q.v.z * q.v.x)
  let t106 := (q.v.z * q.v.z)
  let t110 := (q.v.z * q.r)
  let t111 := (q.v.x * q.v.y)
  ⟨((1 : α) - ((2 : α) * (t92 + t106))), ((2 : α) * (t111 + t110)), ((2 : α) * (t101 - t100)), (0 : α), ((2 : α) * (t111 - t110)), ((1 : α) - ((2 : α) * (t106 + t91))), ((2 : α) * (t97 + t96)), (0 : α), ((2 : α) * (t101 + t100)), ((2 : α) * (t97 - t96)), ((1 : α) - ((2 : α) * (t92 + t91))), (0 : α), (0 : α), (0 : α), (0 : α), (1 : α)⟩

/-- extracted from the C++ template at T = Sym; 1 path(s) -/
def C10.M33.mulQuat {α : Type} [Add α] [Sub α] [Mul α] [OfNat α 1] [OfNat α 2] (m : M33 α) (q : Quat α) : (M33 α) :=
  let t91 := (q.v.x * q.v.x)
  let t92 := (q.v.y * q.v.y)
  let t95 := ((1 : α) - ((2 : α) * (t92 + t91)))
  let t96 := (q.v.x * q.r)
  let t97 := (q.v.y * q.v.z)
  let t99 := ((2 : α) * (t97 - t96))
  let t100 := (q.v.y * q.r)
  let t101 := (q.v.z * q.v.x)
  let t103 := ((2 : α) * (t101 + t100))
  let t105 := ((2 : α) * (t97 + t96))
  let t106 := (q.v.z * q.v.z)
  let t109 := ((1 : α) - ((2 : α) * (t106 + t91)))
  let t110 := (q.v.z * q.r)
  let t111 := (q.v.x * q.v.y)
  let t113 := ((2 : α) * (t111 - t110))
  let t115 := ((2 : α) * (t101 - t100))
  let t117 := ((2 : α) * (t111 + t110))
  let t120 := ((1 : α) - ((2 : α) * (t92 + t106)))
  ⟨(((m.x00 * t120) + (m.x01 * t113)) + (m.x02 * t103)), (((m.x00 * t117) + (m.x01 * t109)) + (m.x02 * t99)), (((m.x00 * t115) + (m.x01 * t105)) + (m.x02 * t95)), (((m.x10 * t120) + (m.x11 * t113)) + (m.x12 * t103)), (((m.x10 * t117) + (m.x11 * t109)) + (m.x12 * t99)), (((m.x10 * t115) + (m.x11 * t105)) + (m.x12 * t95)), (((m.x20 * t120) + (m.x21 * t113)) + (m.x22 * t103)), (((m.x20 * t117) + (m.x21 * t109)) + (m.x22 * t99)), (((m.x20 * t115) + (m.x21 * t105)) + (m.x22 * t95))⟩

/-- extracted from the C++ template at T = Sym; 1 path(s) -/
def C10.Quat.mulM33 {α : Type} [Add α] [Sub α] [Mul α] [OfNat α 1] [OfNat α 2] (q : Quat α) (m : M33 α) : (M33 α) :=
  let t91 := (q.v.x * q.v.x)
  let t92 := (q.v.y * q.v.y)
  let t95 := ((1 : α) - ((2 : α) * (t92 + t91)))
  let t96 := (q.v.x * q.r)
  let t97 := (q.v.y * q.v.z)
  let t99 := ((2 : α) * (t97 - t96))
  let t100 := (q.v.y * q.r)
  let t101 := (q.v.z * q.v.x)
  let t103 := ((2 : α) * (t101 + t100))
  let t105 := ((2 : α) * (t97 + t96))
  let t106 := (q.v.z * q.v.z)
  let t109 := ((1 : α) - ((2 : α) * (t106 + t91)))
  let t110 := (q.v.z * q.r)
  let t111 := (q.v.x * q.v.y)
  let t113 := ((2 : α) * (t111 - t110))
  let t115 := ((2 : α) * (t101 - t100))
  let t117 := ((2 : α) * (t111 + t110))
  let t120 := ((1 : α) - ((2 : α) * (t92 + t106)))
  ⟨(((t120 * m.x00) + (t117 * m.x10)) + (t115 * m.x20)), (((t120 * m.x01) + (t117 * m.x11)) + (t115 * m.x21)), (((t120 * m.x02) + (t117 * m.x12)) + (t115 * m.x22)), (((t113 * m.x00) + (t109 * m.x10)) + (t105 * m.x20)), (((t113 * m.x01) + (t109 * m.x11)) + (t105 * m.x21)), (((t113 * m.x02) + (t109 * m.x12)) + (t105 * m.x22)), (((t103 * m.x00) + (t99 * m.x10)) + (t95 * m.x20)), (((t103 * m.x01) + (t99 * m.x11)) + (t95 * m.x21)), (((t103 * m.x02) + (t99 * m.x12)) + (t95 * m.x22))⟩

/-- extracted from the C++ template at T = Sym; 1 path(s) -/
def C10.V3.mulM33 {α : Type} [Add α] [Mul α] (v : V3 α) (m : M33 α) : (V3 α) :=
  ⟨(((v.x * m.x00) + (v.y * m.x10)) + (v.z * m.x20)), (((v.x * m.x01) + (v.y * m.x11)) + (v.z * m.x21)), (((v.x * m.x02) + (v.y * m.x12)) + (v.z * m.x22))⟩

/-- extracted from the C++ template at T = Sym; 1 path(s) -/
def C10.V3.mulM44 {α : Type} [Add α] [Mul α] [Div α] (v : V3 α) (m : M44 α) : (V3 α) :=
  let t250 := ((((v.x * m.x03) + (v.y * m.x13)) + (v.z * m.x23)) + m.x33)
  ⟨(((((v.x * m.x00) + (v.y * m.x10)) + (v.z * m.x20)) + m.x30) / t250), (((((v.x * m.x01) + (v.y * m.x11)) + (v.z * m.x21)) + m.x31) / t250), (((((v.x * m.x02) + (v.y * m.x12)) + (v.z * m.x22)) + m.x32) / t250)⟩

/-- extracted from the C++ template at T = Sym; 1 path(s) -/
def C10.M44.multDirMatrix {α : Type} [Add α] [Mul α] (m : M44 α) (v : V3 α) : (V3 α) :=
  ⟨(((v.x * m.x00) + (v.y * m.x10)) + (v.z * m.x20)), (((v.x * m.x01) + (v.y * m.x11)) + (v.z * m.x21)), (((v.x * m.x02) + (v.y * m.x12)) + (v.z * m.x22))⟩

/-- extracted from the C++ template at T = Sym; 1 path(s) -/
def C10.M33.mul {α : Type} [Add α] [Mul α] (a : M33 α) (b : M33 α) : (M33 α) :=
  ⟨(((a.x00 * b.x00) + (a.x01 * b.x10)) + (a.x02 * b.x20)), (((a.x00 * b.x01) + (a.x01 * b.x11)) + (a.x02 * b.x21)), (((a.x00 * b.x02) + (a.x01 * b.x12)) + (a.x02 * b.x22)), (((a.x10 * b.x00) + (a.x11 * b.x10)) + (a.x12 * b.x20)), (((a.x10 * b.x01) + (a.x11 * b.x11)) + (a.x12 * b.x21)), (((a.x10 * b.x02) + (a.x11 * b.x12)) + (a.x12 * b.x22)), (((a.x20 * b.x00) + (a.x21 * b.x10)) + (a.x22 * b.x20)), (((a.x20 * b.x01) + (a.x21 * b.x11)) + (a.x22 * b.x21)), (((a.x20 * b.x02) + (a.x21 * b.x12)) + (a.x22 * b.x22))⟩

/-- extracted from the C++ template at T = Sym; 1 path(s) -/
def C10.M44.mul {α : Type} [Add α] [Mul α] (a : M44 α) (b : M44 α) : (M44 α) :=
  ⟨((((a.x00 * b.x00) + (a.x01 * b.x10)) + (a.x02 * b.x20)) + (a.x03 * b.x30)), ((((a.x00 * b.x01) + (a.x01 * b.x11)) + (a.x02 * b.x21)) + (a.x03 * b.x31)), ((((a.x00 * b.x02) + (a.x01 * b.x12)) + (a.x02 * b.x22)) + (a.x03 * b.x32)), ((((a.x00 * b.x03) + (a.x01 * b.x13)) + (a.x02 * b.x23)) + (a.x03 * b.x33)), ((((a.x10 * b.x00) + (a.x11 * b.x10)) + (a.x12 * b.x20)) + (a.x13 * b.x30)), ((((a.x10 * b.x01) + (a.x11 * b.x11)) + (a.x12 * b.x21)) + (a.x13 * b.x31)), ((((a.x10 * b.x02) + (a.x11 * b.x12)) + (a.x12 * b.x22)) + (a.x13 * b.x32)), ((((a.x10 * b.x03) + (a.x11 * b.x13)) + (a.x12 * b.x23)) + (a.x13 * b.x33)), ((((a.x20 * b.x00) + (a.x21 * b.x10)) + (a.x22 * b.x20)) + (a.x23 * b.x30)), ((((a.x20 * b.x01) + (a.x21 * b.x11)) + (a.x22 * b.x21)) + (a.x23 * b.x31)), ((((a.x20 * b.x02) + (a.x21 * b.x12)) + (a.x22 * b.x22)) + (a.x23 * b.x32)), ((((a.x20 * b.x03) + (a.x21 * b.x13)) + (a.x22 * b.x23)) + (a.x23 * b.x33)), ((((a.x30 * b.x00) + (a.x31 * b.x10)) + (a.x32 * b.x20)) + (a.x33 * b.x30)), ((((a.x30 * b.x01) + (a.x31 * b.x11)) + (a.x32 * b.x21)) + (a.x33 * b.x31)), ((((a.x30 * b.x02) + (a.x31 * b.x12)) + (a.x32 * b.x22)) + (a.x33 * b.x32)), ((((a.x30 * b.x03) + (a.x31 * b.x13)) + (a.x32 * b.x23)) + (a.x33 * b.x33))⟩

/-- extracted from the C++ template at T = Sym; 1 path(s) -/
def C10.M33.transposed {α : Type} (a : M33 α) : (M33 α) :=
  ⟨a.x00, a.x10, a.x20, a.x01, a.x11, a.x21, a.x02, a.x12, a.x22⟩

/-- extracted from the C++ template at T = Sym; 1 path(s) -/
def C10.M33.determinant {α : Type} [Add α] [Sub α] [Mul α] (a : M33 α) : α :=
  (((a.x00 * ((a.x11 * a.x22) - (a.x12 * a.x21))) + (a.x01 * ((a.x12 * a.x20) - (a.x10 * a.x22)))) + (a.x02 * ((a.x10 * a.x21) - (a.x11 * a.x20))))

/-- extracted from the C++ template at T = Sym; 1 path(s) -/
def C10.Quat.mul {α : Type} [Add α] [Sub α] [Mul α] (a : Quat α) (b : Quat α) : (Quat α) :=
  ⟨((a.r * b.r) - (((a.v.x * b.v.x) + (a.v.y * b.v.y)) + (a.v.z * b.v.z))), ⟨(((a.r * b.v.x) + (a.v.x * b.r)) + ((a.v.y * b.v.z) - (a.v.z * b.v.y))), (((a.r * b.v.y) + (a.v.y * b.r)) + ((a.v.z * b.v.x) - (a.v.x * b.v.z))), (((a.r * b.v.z) + (a.v.z * b.r)) + ((a.v.x * b.v.y) - (a.v.y * b.v.x)))⟩⟩

/-- extracted from the C++ template at T = Sym; 1 path(s) -/
def C10.Quat.conj {α : Type} [Neg α] (q : Quat α) : (Quat α) :=
  ⟨q.r, ⟨(-q.v.x), (-q.v.y), (-q.v.z)⟩⟩

/-- extracted from the C++ template at T = Sym; 1 path(s) -/
def C10.Quat.neg {α : Type} [Neg α] (q : Quat α) : (Quat α) :=
  ⟨(-q.r), ⟨(-q.v.x), (-q.v.y), (-q.v.z)⟩⟩

/-- extracted from the C++ template at T = Sym; 1 path(s) -/
def C10.Quat.inverse {α : Type} [Add α] [Mul α] [Div α] [Neg α] (q : Quat α) : (Quat α) :=
  let t455 := ((q.r * q.r) + (((q.v.x * q.v.x) + (q.v.y * q.v.y)) + (q.v.z * q.v.z)))
  ⟨(q.r / t455), ⟨((-q.v.x) / t455), ((-q.v.y) / t455), ((-q.v.z) / t455)⟩⟩

/-- extracted from the C++ template at T = Sym; 1 path(s) -/
def C10.Quat.invert {α : Type} [Add α] [Mul α] [Div α] [Neg α] (q : Quat α) : (Quat α) :=
  let t455 := ((q.r * q.r) + (((q.v.x * q.v.x) + (q.v.y * q.v.y)) + (q.v.z * q.v.z)))
  ⟨(q.r / t455), ⟨((-q.v.x) / t455), ((-q.v.y) / t455), ((-q.v.z) / t455)⟩⟩

/-- extracted from the C++ template at T = Sym; 1 path(s) -/
def C10.Quat.invertRet {α : Type} [Add α] [Mul α] [Div α] [Neg α] (q : Quat α) : (Quat α) :=
  let t455 := ((q.r * q.r) + (((q.v.x * q.v.x) + (q.v.y * q.v.y)) + (q.v.z * q.v.z)))
  ⟨(q.r / t455), ⟨((-q.v.x) / t455), ((-q.v.y) / t455), ((-q.v.z) / t455)⟩⟩

/-- extracted from the C++ template at T = Sym; 1 path(s) -/
def C10.Quat.div {α : Type} [Add α] [Sub α] [Mul α] [Div α] [Neg α] (a : Quat α) (b : Quat α) : (Quat α) :=
  let t466 := ((b.r * b.r) + (((b.v.x * b.v.x) + (b.v.y * b.v.y)) + (b.v.z * b.v.z)))
  let t470 := ((-b.v.z) / t466)
  let t471 := ((-b.v.y) / t466)
  let t472 := ((-b.v.x) / t466)
  let t473 := (b.r / t466)
  ⟨((a.r * t473) - (((a.v.x * t472) + (a.v.y * t471)) + (a.v.z * t470))), ⟨(((a.r * t472) + (a.v.x * t473)) + ((a.v.y * t470) - (a.v.z * t471))), (((a.r * t471) + (a.v.y * t473)) + ((a.v.z * t472) - (a.v.x * t470))), (((a.r * t470) + (a.v.z * t473)) + ((a.v.x * t471) - (a.v.y * t472)))⟩⟩

/-- extracted from the C++ template at T = Sym; 1 path(s) -/
def C10.Quat.divAssign {α : Type} [Add α] [Sub α] [Mul α] [Div α] [Neg α] (a : Quat α) (b : Quat α) : (Quat α) :=
  let t466 := ((b.r * b.r) + (((b.v.x * b.v.x) + (b.v.y * b.v.y)) + (b.v.z * b.v.z)))
  let t470 := ((-b.v.z) / t466)
  let t471 := ((-b.v.y) / t466)
  let t472 := ((-b.v.x) / t466)
  let t473 := (b.r / t466)
  ⟨((a.r * t473) - (((a.v.x * t472) + (a.v.y * t471)) + (a.v.z * t470))), ⟨(((a.r * t472) + (a.v.x * t473)) + ((a.v.y * t470) - (a.v.z * t471))), (((a.r * t471) + (a.v.y * t473)) + ((a.v.z * t472) - (a.v.x * t470))), (((a.r * t470) + (a.v.z * t473)) + ((a.v.x * t471) - (a.v.y * t472)))⟩⟩

/-- extracted from the C++ template at T = Sym; 1 path(s) -/
def C10.Quat.dot4 {α : Type} [Add α] [Mul α] (a : Quat α) (b : Quat α) : α :=
  ((a.r * b.r) + (((a.v.x * b.v.x) + (a.v.y * b.v.y)) + (a.v.z * b.v.z)))

/-- extracted from the C++ template at T = Sym; 1 path(s) -/
def C10.Quat.length {α : Type} [Add α] [Mul α] (sqrt : α → α) (q : Quat α) : α :=
  (sqrt ((q.r * q.r) + (((q.v.x * q.v.x) + (q.v.y * q.v.y)) + (q.v.z * q.v.z))))

/-- extracted from the C++ template at T = Sym; 2 path(s) -/
def C10.Quat.normalize {α : Type} [Add α] [Mul α] [Div α] [DecidableEq α] [OfNat α 0] [OfNat α 1] (sqrt : α → α) (q : Quat α) : (Quat α) :=
  let t503 := (sqrt ((q.r * q.r) + (((q.v.x * q.v.x) + (q.v.y * q.v.y)) + (q.v.z * q.v.z))))
  if t503 = (0 : α) then
    ⟨(1 : α), ⟨(0 : α), (0 : α), (0 : α)⟩⟩
  else
    ⟨(q.r / t503), ⟨(q.v.x / t503), (q.v.y / t503), (q.v.z / t503)⟩⟩

/-- extracted from the C++ template at T = Sym; 2 path(s) -/
def C10.Quat.normalized {α : Type} [Add α] [Mul α] [Div α] [DecidableEq α] [OfNat α 0] [OfNat α 1] (sqrt : α → α) (q : Quat α) : (Quat α) :=
  let t503 := (sqrt ((q.r * q.r) + (((q.v.x * q.v.x) + (q.v.y * q.v.y)) + (q.v.z * q.v.z))))
  if t503 = (0 : α) then
    ⟨(1 : α), ⟨(0 : α), (0 : α), (0 : α)⟩⟩
  else
    ⟨(q.r / t503), ⟨(q.v.x / t503), (q.v.y / t503), (q.v.z / t503)⟩⟩

/-- extracted from the C++ template at T = Sym; 4 path(s) -/
def C10.Quat.log {α : Type} [Mul α] [Div α] [Neg α] [LT α] [LE α] [DecidableLT α] [DecidableLE α] [DecidableEq α] [OfNat α 0] [OfNat α 1] (tmax : α) (sin : α → α) (acos : α → α) (q : Quat α) : (Quat α) :=
  let t509 := (acos (smin q.r (1 : α)))
  let t510 := (sin t509)
  let t511 := (sabs t510)
  let t513 := (tmax * t511)
  let t514 := (sabs t509)
  let t518 := (t509 / t510)
  let t519 := (q.v.z * t518)
  let t520 := (q.v.y * t518)
  let t521 := (q.v.x * t518)
  if t509 = (0 : α) then
    ⟨(0 : α), ⟨q.v.x, q.v.y, q.v.z⟩⟩
  else
    if t511 < (1 : α) then
      if t513 ≤ t514 then
        ⟨(0 : α), ⟨(q.v.x * (1 : α)), (q.v.y * (1 : α)), (q.v.z * (1 : α))⟩⟩
      else
        ⟨(0 : α), ⟨t521, t520, t519⟩⟩
    else
      ⟨(0 : α), ⟨t521, t520, t519⟩⟩

/-- extracted from the C++ template at T = Sym; 3 path(s) -/
def C10.Quat.exp {α : Type} [Add α] [Mul α] [Div α] [Neg α] [LT α] [LE α] [DecidableLT α] [DecidableLE α] [DecidableEq α] [OfNat α 0] [OfNat α 1] [OfNat α 2] (tmin : α) (tmax : α) (sqrt : α → α) (sin : α → α) (cos : α → α) (q : Quat α) : (Quat α) :=
  let t522 := (V3.length tmin tmax sqrt ⟨q.v.x, q.v.y, q.v.z⟩)
  let t523 := (sin t522)
  let t524 := (sabs t522)
  let t525 := (tmax * t524)
  let t526 := (sabs t523)
  let t527 := (cos t522)
  let t528 := (t523 / t522)
  let t529 := (q.v.z * t528)
  let t530 := (q.v.y * t528)
  let t531 := (q.v.x * t528)
  if t524 < (1 : α) then
    if t525 ≤ t526 then
      ⟨t527, ⟨(q.v.x * (1 : α)), (q.v.y * (1 : α)), (q.v.z * (1 : α))⟩⟩
    else
      ⟨t527, ⟨t531, t530, t529⟩⟩
  else
    ⟨t527, ⟨t531, t530, t529⟩⟩

/-- extracted from the C++ template at T = Sym; 1 path(s) -/
def C10.Quat.angle {α : Type} [Add α] [Mul α] [Div α] [Neg α] [LT α] [LE α] [DecidableLT α] [DecidableLE α] [DecidableEq α] [OfNat α 0] [OfNat α 2] (tmin : α) (tmax : α) (sqrt : α → α) (atan2 : α → α → α) (q : Quat α) : α :=
  ((2 : α) * (atan2 (V3.length tmin tmax sqrt ⟨q.v.x, q.v.y, q.v.z⟩) q.r))

/-- extracted from the C++ template at T = Sym; 2 path(s) -/
def C10.Quat.axis {α : Type} [Add α] [Mul α] [Div α] [Neg α] [LT α] [LE α] [DecidableLT α] [DecidableLE α] [DecidableEq α] [OfNat α 0] [OfNat α 2] (tmin : α) (tmax : α) (sqrt : α → α) (q : Quat α) : (V3 α) :=
  let t522 := (V3.length tmin tmax sqrt ⟨q.v.x, q.v.y, q.v.z⟩)
  if t522 = (0 : α) then
    ⟨(0 : α), (0 : α), (0 : α)⟩
  else
    ⟨(q.v.x / t522), (q.v.y / t522), (q.v.z / t522)⟩

/-- extracted from the C++ template at T = Sym; 2 path(s) -/
def C10.Quat.setAxisAngle {α : Type} [Add α] [Mul α] [Div α] [Neg α] [LT α] [LE α] [DecidableLT α] [DecidableLE α] [DecidableEq α] [OfNat α 0] [OfNat α 2] (tmin : α) (tmax : α) (sqrt : α → α) (sin : α → α) (cos : α → α) (q : Quat α) (axis : V3 α) (radians : α) : (Quat α) :=
  let t541 := (radians / (2 : α))
  let t542 := (cos t541)
  let t543 := (sin t541)
  let t544 := (V3.length tmin tmax sqrt ⟨axis.x, axis.y, axis.z⟩)
  let t545 := ((0 : α) * t543)
  if t544 = (0 : α) then
    ⟨t542, ⟨t545, t545, t545⟩⟩
  else
    ⟨t542, ⟨((axis.x / t544) * t543), ((axis.y / t544) * t543), ((axis.z / t544) * t543)⟩⟩

/-- extracted from the C++ template at T = Sym; 2 path(s) -/
def C10.V3.normalized {α : Type} [Add α] [Mul α] [Div α] [Neg α] [LT α] [LE α] [DecidableLT α] [DecidableLE α] [DecidableEq α] [OfNat α 0] [OfNat α 2] (tmin : α) (tmax : α) (sqrt : α → α) (a : V3 α) : (V3 α) :=
  let t555 := (V3.length tmin tmax sqrt ⟨a.x, a.y, a.z⟩)
  if t555 = (0 : α) then
    ⟨(0 : α), (0 : α), (0 : α)⟩
  else
    ⟨(a.x / t555), (a.y / t555), (a.z / t555)⟩

/-- extracted from the C++ template at T = Sym; 2 path(s) -/
def C10.Quat.setRotationInternal {α : Type} [Add α] [Sub α] [Mul α] [Div α] [Neg α] [LT α] [LE α] [DecidableLT α] [DecidableLE α] [DecidableEq α] [OfNat α 0] [OfNat α 2] (tmin : α) (tmax : α) (sqrt : α → α) (f0 : V3 α) (t0 : V3 α) : (Quat α) :=
  let t565 := (f0.z + t0.z)
  let t566 := (f0.y + t0.y)
  let t567 := (f0.x + t0.x)
  let t568 := (V3.length tmin tmax sqrt ⟨t567, t566, t565⟩)
  let t569 := (f0.z * (0 : α))
  let t570 := (f0.y * (0 : α))
  let t571 := (f0.x * (0 : α))
  let t577 := (t565 / t568)
  let t578 := (t566 / t568)
  let t579 := (t567 / t568)
  if t568 = (0 : α) then
    ⟨((t571 + t570) + t569), ⟨(t570 - t569), (t569 - t571), (t571 - t570)⟩⟩
  else
    ⟨(((f0.x * t579) + (f0.y * t578)) + (f0.z * t577)), ⟨((f0.y * t577) - (f0.z * t578)), ((f0.z * t579) - (f0.x * t577)), ((f0.x * t578) - (f0.y * t579))⟩⟩

/-- extracted from the C++ template at T = Sym; 2 path(s) -/
def C10.sinx_over_x {α : Type} [Mul α] [Div α] [LT α] [DecidableLT α] [OfNat α 1] (teps : α) (sin : α → α) (x : α) : α :=
  let t596 := (x * x)
  if t596 < teps then
    (1 : α)
  else
    ((sin x) / x)

/-- extracted from the C++ template at T = Sym; 1 path(s) -/
def C10.Quat.angle4D {α : Type} [Add α] [Sub α] [Mul α] [OfNat α 2] (sqrt : α → α) (atan2 : α → α → α) (q1 : Quat α) (q2 : Quat α) : α :=
  let t607 := (q1.v.z - q2.v.z)
  let t608 := (q1.v.y - q2.v.y)
  let t609 := (q1.v.x - q2.v.x)
  let t610 := (q1.r - q2.r)
  let t619 := (q1.v.z + q2.v.z)
  let t620 := (q1.v.y + q2.v.y)
  let t621 := (q1.v.x + q2.v.x)
  let t622 := (q1.r + q2.r)
  ((2 : α) * (atan2 (sqrt ((t610 * t610) + (((t609 * t609) + (t608 * t608)) + (t607 * t607)))) (sqrt ((t622 * t622) + (((t621 * t621) + (t620 * t620)) + (t619 * t619))))))

/-- extracted from the C++ template at T = Sym; 16 path(s) -/
def C10.Quat.slerp {α : Type} [Add α] [Sub α] [Mul α] [Div α] [LT α] [DecidableLT α] [DecidableEq α] [OfNat α 0] [OfNat α 1] [OfNat α 2] (teps : α) (sqrt : α → α) (sin : α → α) (atan2 : α → α → α) (q1 : Quat α) (q2 : Quat α) (t : α) : (Quat α) :=
  let t607 := (q1.v.z - q2.v.z)
  let t608 := (q1.v.y - q2.v.y)
  let t609 := (q1.v.x - q2.v.x)
  let t610 := (q1.r - q2.r)
  let t619 := (q1.v.z + q2.v.z)
  let t620 := (q1.v.y + q2.v.y)
  let t621 := (q1.v.x + q2.v.x)
  let t622 := (q1.r + q2.r)
  let t632 := ((2 : α) * (atan2 (sqrt ((t610 * t610) + (((t609 * t609) + (t608 * t608)) + (t607 * t607)))) (sqrt ((t622 * t622) + (((t621 * t621) + (t620 * t620)) + (t619 * t619))))))
  let t634 := ((1 : α) - t)
  let t635 := (t632 * t632)
  let t636 := (t * t632)
  let t637 := (t636 * t636)
  let t638 := ((1 : α) / (1 : α))
  let t639 := (t638 * t)
  let t640 := (q2.v.z * t639)
  let t641 := (q2.v.y * t639)
  let t642 := (q2.v.x * t639)
  let t643 := (q2.r * t639)
  let t644 := (t634 * t632)
  let t645 := (t644 * t644)
  let t646 := (t638 * t634)
  let t647 := (q1.v.z * t646)
  let t648 := (q1.v.y * t646)
  let t649 := (q1.v.x * t646)
  let t650 := (q1.r * t646)
  let t651 := (t647 + t640)
  let t652 := (t648 + t641)
  let t653 := (t649 + t642)
  let t654 := (t650 + t643)
  let t662 := (sqrt ((t654 * t654) + (((t653 * t653) + (t652 * t652)) + (t651 * t651))))
  let t668 := ((sin t644) / t644)
  let t670 := ((t668 / (1 : α)) * t634)
  let t671 := (q1.v.z * t670)
  let t672 := (q1.v.y * t670)
  let t673 := (q1.v.x * t670)
  let t674 := (q1.r * t670)
  let t675 := (t671 + t640)
  let t676 := (t672 + t641)
  let t677 := (t673 + t642)
  let t678 := (t674 + t643)
  let t686 := (sqrt ((t678 * t678) + (((t677 * t677) + (t676 * t676)) + (t675 * t675))))
  let t692 := ((sin t636) / t636)
  let t694 := ((t692 / (1 : α)) * t)
  let t695 := (q2.v.z * t694)
  let t696 := (q2.v.y * t694)
  let t697 := (q2.v.x * t694)
  let t698 := (q2.r * t694)
  let t699 := (t647 + t695)
  let t700 := (t648 + t696)
  let t701 := (t649 + t697)
  let t702 := (t650 + t698)
  let t710 := (sqrt ((t702 * t702) + (((t701 * t701) + (t700 * t700)) + (t699 * t699))))
  let t715 := (t671 + t695)
  let t716 := (t672 + t696)
  let t717 := (t673 + t697)
  let t718 := (t674 + t698)
  let t726 := (sqrt ((t718 * t718) + (((t717 * t717) + (t716 * t716)) + (t715 * t715))))
  let t732 := ((sin t632) / t632)
  let t733 := ((1 : α) / t732)
  let t734 := (t733 * t)
  let t735 := (q2.v.z * t734)
  let t736 := (q2.v.y * t734)
  let t737 := (q2.v.x * t734)
  let t738 := (q2.r * t734)
  let t739 := (t733 * t634)
  let t740 := (q1.v.z * t739)
  let t741 := (q1.v.y * t739)
  let t742 := (q1.v.x * t739)
  let t743 := (q1.r * t739)
  let t744 := (t740 + t735)
  let t745 := (t741 + t736)
  let t746 := (t742 + t737)
  let t747 := (t743 + t738)
  let t755 := (sqrt ((t747 * t747) + (((t746 * t746) + (t745 * t745)) + (t744 * t744))))
  let t761 := ((t668 / t732) * t634)
  let t762 := (q1.v.z * t761)
  let t763 := (q1.v.y * t761)
  let t764 := (q1.v.x * t761)
  let t765 := (q1.r * t761)
  let t766 := (t762 + t735)
  let t767 := (t763 + t736)
  let t768 := (t764 + t737)
  let t769 := (t765 + t738)
  let t777 := (sqrt ((t769 * t769) + (((t768 * t768) + (t767 * t767)) + (t766 * t766))))
  let t783 := ((t692 / t732) * t)
  let t784 := (q2.v.z * t783)
  let t785 := (q2.v.y * t783)
  let t786 := (q2.v.x * t783)
  let t787 := (q2.r * t783)
  let t788 := (t740 + t784)
  let t789 := (t741 + t785)
  let t790 := (t742 + t786)
  let t791 := (t743 + t787)
  let t799 := (sqrt ((t791 * t791) + (((t790 * t790) + (t789 * t789)) + (t788 * t788))))
  let t804 := (t762 + t784)
  let t805 := (t763 + t785)
  let t806 := (t764 + t786)
  let t807 := (t765 + t787)
  let t815 := (sqrt ((t807 * t807) + (((t806 * t806) + (t805 * t805)) + (t804 * t804))))
  if t635 < teps then
    if t637 < teps then
      if t645 < teps then
        if t662 = (0 : α) then
          ⟨(1 : α), ⟨(0 : α), (0 : α), (0 : α)⟩⟩
        else
          ⟨(t654 / t662), ⟨(t653 / t662), (t652 / t662), (t651 / t662)⟩⟩
      else
        if t686 = (0 : α) then
          ⟨(1 : α), ⟨(0 : α), (0 : α), (0 : α)⟩⟩
        else
          ⟨(t678 / t686), ⟨(t677 / t686), (t676 / t686), (t675 / t686)⟩⟩
    else
      if t645 < teps then
        if t710 = (0 : α) then
          ⟨(1 : α), ⟨(0 : α), (0 : α), (0 : α)⟩⟩
        else
          ⟨(t702 / t710), ⟨(t701 / t710), (t700 / t710), (t699 / t710)⟩⟩
      else
        if t726 = (0 : α) then
          ⟨(1 : α), ⟨(0 : α), (0 : α), (0 : α)⟩⟩
        else
          ⟨(t718 / t726), ⟨(t717 / t726), (t716 / t726), (t715 / t726)⟩⟩
  else
    if t637 < teps then
      if t645 < teps then
        if t755 = (0 : α) then
          ⟨(1 : α), ⟨(0 : α), (0 : α), (0 : α)⟩⟩
        else
          ⟨(t747 / t755), ⟨(t746 / t755), (t745 / t755), (t744 / t755)⟩⟩
      else
        if t777 = (0 : α) then
          ⟨(1 : α), ⟨(0 : α), (0 : α), (0 : α)⟩⟩
        else
          ⟨(t769 / t777), ⟨(t768 / t777), (t767 / t777), (t766 / t777)⟩⟩
    else
      if t645 < teps then
        if t799 = (0 : α) then
          ⟨(1 : α), ⟨(0 : α), (0 : α), (0 : α)⟩⟩
        else
          ⟨(t791 / t799), ⟨(t790 / t799), (t789 / t799), (t788 / t799)⟩⟩
      else
        if t815 = (0 : α) then
          ⟨(1 : α), ⟨(0 : α), (0 : α), (0 : α)⟩⟩
        else
          ⟨(t807 / t815), ⟨(t806 / t815), (t805 / t815), (t804 / t815)⟩⟩

/-- extracted from the C++ template at T = Sym; 32 path(s) -/
def C10.Quat.slerpShortestArc {α : Type} [Add α] [Sub α] [Mul α] [Div α] [Neg α] [LT α] [LE α] [DecidableLT α] [DecidableLE α] [DecidableEq α] [OfNat α 0] [OfNat α 1] [OfNat α 2] (teps : α) (sqrt : α → α) (sin : α → α) (atan2 : α → α → α) (q1 : Quat α) (q2 : Quat α) (t : α) : (Quat α) :=
  let t607 := (q1.v.z - q2.v.z)
  let t608 := (q1.v.y - q2.v.y)
  let t609 := (q1.v.x - q2.v.x)
  let t610 := (q1.r - q2.r)
  let t619 := (q1.v.z + q2.v.z)
  let t620 := (q1.v.y + q2.v.y)
  let t621 := (q1.v.x + q2.v.x)
  let t622 := (q1.r + q2.r)
  let t632 := ((2 : α) * (atan2 (sqrt ((t610 * t610) + (((t609 * t609) + (t608 * t608)) + (t607 * t607)))) (sqrt ((t622 * t622) + (((t621 * t621) + (t620 * t620)) + (t619 * t619))))))
  let t634 := ((1 : α) - t)
  let t635 := (t632 * t632)
  let t636 := (t * t632)
  let t637 := (t636 * t636)
  let t638 := ((1 : α) / (1 : α))
  let t639 := (t638 * t)
  let t640 := (q2.v.z * t639)
  let t641 := (q2.v.y * t639)
  let t642 := (q2.v.x * t639)
  let t643 := (q2.r * t639)
  let t644 := (t634 * t632)
  let t645 := (t644 * t644)
  let t646 := (t638 * t634)
  let t647 := (q1.v.z * t646)
  let t648 := (q1.v.y * t646)
  let t649 := (q1.v.x * t646)
  let t650 := (q1.r * t646)
  let t651 := (t647 + t640)
  let t652 := (t648 + t641)
  let t653 := (t649 + t642)
  let t654 := (t650 + t643)
  let t662 := (sqrt ((t654 * t654) + (((t653 * t653) + (t652 * t652)) + (t651 * t651))))
  let t668 := ((sin t644) / t644)
  let t670 := ((t668 / (1 : α)) * t634)
  let t671 := (q1.v.z * t670)
  let t672 := (q1.v.y * t670)
  let t673 := (q1.v.x * t670)
  let t674 := (q1.r * t670)
  let t675 := (t671 + t640)
  let t676 := (t672 + t641)
  let t677 := (t673 + t642)
  let t678 := (t674 + t643)
  let t686 := (sqrt ((t678 * t678) + (((t677 * t677) + (t676 * t676)) + (t675 * t675))))
  let t692 := ((sin t636) / t636)
  let t694 := ((t692 / (1 : α)) * t)
  let t695 := (q2.v.z * t694)
  let t696 := (q2.v.y * t694)
  let t697 := (q2.v.x * t694)
  let t698 := (q2.r * t694)
  let t699 := (t647 + t695)
  let t700 := (t648 + t696)
  let t701 := (t649 + t697)
  let t702 := (t650 + t698)
  let t710 := (sqrt ((t702 * t702) + (((t701 * t701) + (t700 * t700)) + (t699 * t699))))
  let t715 := (t671 + t695)
  let t716 := (t672 + t696)
  let t717 := (t673 + t697)
  let t718 := (t674 + t698)
  let t726 := (sqrt ((t718 * t718) + (((t717 * t717) + (t716 * t716)) + (t715 * t715))))
  let t732 := ((sin t632) / t632)
  let t733 := ((1 : α) / t732)
  let t734 := (t733 * t)
  let t735 := (q2.v.z * t734)
  let t736 := (q2.v.y * t734)
  let t737 := (q2.v.x * t734)
  let t738 := (q2.r * t734)
  let t739 := (t733 * t634)
  let t740 := (q1.v.z * t739)
  let t741 := (q1.v.y * t739)
  let t742 := (q1.v.x * t739)
  let t743 := (q1.r * t739)
  let t744 := (t740 + t735)
  let t745 := (t741 + t736)
  let t746 := (t742 + t737)
  let t747 := (t743 + t738)
  let t755 := (sqrt ((t747 * t747) + (((t746 * t746) + (t745 * t745)) + (t744 * t744))))
  let t761 := ((t668 / t732) * t634)
  let t762 := (q1.v.z * t761)
  let t763 := (q1.v.y * t761)
  let t764 := (q1.v.x * t761)
  let t765 := (q1.r * t761)
  let t766 := (t762 + t735)
  let t767 := (t763 + t736)
  let t768 := (t764 + t737)
  let t769 := (t765 + t738)
  let t777 := (sqrt ((t769 * t769) + (((t768 * t768) + (t767 * t767)) + (t766 * t766))))
  let t783 := ((t692 / t732) * t)
  let t784 := (q2.v.z * t783)
  let t785 := (q2.v.y * t783)
  let t786 := (q2.v.x * t783)
  let t787 := (q2.r * t783)
  let t788 := (t740 + t784)
  let t789 := (t741 + t785)
  let t790 := (t742 + t786)
  let t791 := (t743 + t787)
  let t799 := (sqrt ((t791 * t791) + (((t790 * t790) + (t789 * t789)) + (t788 * t788))))
  let t804 := (t762 + t784)
  let t805 := (t763 + t785)
  let t806 := (t764 + t786)
  let t807 := (t765 + t787)
  let t815 := (sqrt ((t807 * t807) + (((t806 * t806) + (t805 * t805)) + (t804 * t804))))
  let t826 := ((q1.r * q2.r) + (((q1.v.x * q2.v.x) + (q1.v.y * q2.v.y)) + (q1.v.z * q2.v.z)))
  let t827 := (-q2.v.z)
  let t828 := (-q2.v.y)
  let t829 := (-q2.v.x)
  let t830 := (-q2.r)
  let t831 := (q1.v.z - t827)
  let t832 := (q1.v.y - t828)
  let t833 := (q1.v.x - t829)
  let t834 := (q1.r - t830)
  let t843 := (q1.v.z + t827)
  let t844 := (q1.v.y + t828)
  let t845 := (q1.v.x + t829)
  let t846 := (q1.r + t830)
  let t856 := ((2 : α) * (atan2 (sqrt ((t834 * t834) + (((t833 * t833) + (t832 * t832)) + (t831 * t831)))) (sqrt ((t846 * t846) + (((t845 * t845) + (t844 * t844)) + (t843 * t843))))))
  let t857 := (t856 * t856)
  let t858 := (t * t856)
  let t859 := (t858 * t858)
  let t860 := (t827 * t639)
  let t861 := (t828 * t639)
  let t862 := (t829 * t639)
  let t863 := (t830 * t639)
  let t864 := (t634 * t856)
  let t865 := (t864 * t864)
  let t866 := (t647 + t860)
  let t867 := (t648 + t861)
  let t868 := (t649 + t862)
  let t869 := (t650 + t863)
  let t877 := (sqrt ((t869 * t869) + (((t868 * t868) + (t867 * t867)) + (t866 * t866))))
  let t883 := ((sin t864) / t864)
  let t885 := ((t883 / (1 : α)) * t634)
  let t886 := (q1.v.z * t885)
  let t887 := (q1.v.y * t885)
  let t888 := (q1.v.x * t885)
  let t889 := (q1.r * t885)
  let t890 := (t886 + t860)
  let t891 := (t887 + t861)
  let t892 := (t888 + t862)
  let t893 := (t889 + t863)
  let t901 := (sqrt ((t893 * t893) + (((t892 * t892) + (t891 * t891)) + (t890 * t890))))
  let t907 := ((sin t858) / t858)
  let t909 := ((t907 / (1 : α)) * t)
  let t910 := (t827 * t909)
  let t911 := (t828 * t909)
  let t912 := (t829 * t909)
  let t913 := (t830 * t909)
  let t914 := (t647 + t910)
  let t915 := (t648 + t911)
  let t916 := (t649 + t912)
  let t917 := (t650 + t913)
  let t925 := (sqrt ((t917 * t917) + (((t916 * t916) + (t915 * t915)) + (t914 * t914))))
  let t930 := (t886 + t910)
  let t931 := (t887 + t911)
  let t932 := (t888 + t912)
  let t933 := (t889 + t913)
  let t941 := (sqrt ((t933 * t933) + (((t932 * t932) + (t931 * t931)) + (t930 * t930))))
  let t947 := ((sin t856) / t856)
  let t948 := ((1 : α) / t947)
  let t949 := (t948 * t)
  let t950 := (t827 * t949)
  let t951 := (t828 * t949)
  let t952 := (t829 * t949)
  let t953 := (t830 * t949)
  let t954 := (t948 * t634)
  let t955 := (q1.v.z * t954)
  let t956 := (q1.v.y * t954)
  let t957 := (q1.v.x * t954)
  let t958 := (q1.r * t954)
  let t959 := (t955 + t950)
  let t960 := (t956 + t951)
  let t961 := (t957 + t952)
  let t962 := (t958 + t953)
  let t970 := (sqrt ((t962 * t962) + (((t961 * t961) + (t960 * t960)) + (t959 * t959))))
  let t976 := ((t883 / t947) * t634)
  let t977 := (q1.v.z * t976)
  let t978 := (q1.v.y * t976)
  let t979 := (q1.v.x * t976)
  let t980 := (q1.r * t976)
  let t981 := (t977 + t950)
  let t982 := (t978 + t951)
  let t983 := (t979 + t952)
  let t984 := (t980 + t953)
  let t992 := (sqrt ((t984 * t984) + (((t983 * t983) + (t982 * t982)) + (t981 * t981))))
  let t998 := ((t907 / t947) * t)
  let t999 := (t827 * t998)
  let t1000 := (t828 * t998)
  let t1001 := (t829 * t998)
  let t1002 := (t830 * t998)
  let t1003 := (t955 + t999)
  let t1004 := (t956 + t1000)
  let t1005 := (t957 + t1001)
  let t1006 := (t958 + t1002)
  let t1014 := (sqrt ((t1006 * t1006) + (((t1005 * t1005) + (t1004 * t1004)) + (t1003 * t1003))))
  let t1019 := (t977 + t999)
  let t1020 := (t978 + t1000)
  let t1021 := (t979 + t1001)
  let t1022 := (t980 + t1002)
  let t1030 := (sqrt ((t1022 * t1022) + (((t1021 * t1021) + (t1020 * t1020)) + (t1019 * t1019))))
  if (0 : α) ≤ t826 then
    if t635 < teps then
      if t637 < teps then
        if t645 < teps then
          if t662 = (0 : α) then
            ⟨(1 : α), ⟨(0 : α), (0 : α), (0 : α)⟩⟩
          else
            ⟨(t654 / t662), ⟨(t653 / t662), (t652 / t662), (t651 / t662)⟩⟩
        else
          if t686 = (0 : α) then
            ⟨(1 : α), ⟨(0 : α), (0 : α), (0 : α)⟩⟩
          else
            ⟨(t678 / t686), ⟨(t677 / t686), (t676 / t686), (t675 / t686)⟩⟩
      else
        if t645 < teps then
          if t710 = (0 : α) then
            ⟨(1 : α), ⟨(0 : α), (0 : α), (0 : α)⟩⟩
          else
            ⟨(t702 / t710), ⟨(t701 / t710), (t700 / t710), (t699 / t710)⟩⟩
        else
          if t726 = (0 : α) then
            ⟨(1 : α), ⟨(0 : α), (0 : α), (0 : α)⟩⟩
          else
            ⟨(t718 / t726), ⟨(t717 / t726), (t716 / t726), (t715 / t726)⟩⟩
    else
      if t637 < teps then
        if t645 < teps then
          if t755 = (0 : α) then
            ⟨(1 : α), ⟨(0 : α), (0 : α), (0 : α)⟩⟩
          else
            ⟨(t747 / t755), ⟨(t746 / t755), (t745 / t755), (t744 / t755)⟩⟩
        else
          if t777 = (0 : α) then
            ⟨(1 : α), ⟨(0 : α), (0 : α), (0 : α)⟩⟩
          else
            ⟨(t769 / t777), ⟨(t768 / t777), (t767 / t777), (t766 / t777)⟩⟩
      else
        if t645 < teps then
          if t799 = (0 : α) then
            ⟨(1 : α), ⟨(0 : α), (0 : α), (0 : α)⟩⟩
          else
            ⟨(t791 / t799), ⟨(t790 / t799), (t789 / t799), (t788 / t799)⟩⟩
        else
          if t815 = (0 : α) then
            ⟨(1 : α), ⟨(0 : α), (0 : α), (0 : α)⟩⟩
          else
            ⟨(t807 / t815), ⟨(t806 / t815), (t805 / t815), (t804 / t815)⟩⟩
  else
    if t857 < teps then
      if t859 < teps then
        if t865 < teps then
          if t877 = (0 : α) then
            ⟨(1 : α), ⟨(0 : α), (0 : α), (0 : α)⟩⟩
          else
            ⟨(t869 / t877), ⟨(t868 / t877), (t867 / t877), (t866 / t877)⟩⟩
        else
          if t901 = (0 : α) then
            ⟨(1 : α), ⟨(0 : α), (0 : α), (0 : α)⟩⟩
          else
            ⟨(t893 / t901), ⟨(t892 / t901), (t891 / t901), (t890 / t901)⟩⟩
      else
        if t865 < teps then
          if t925 = (0 : α) then
            ⟨(1 : α), ⟨(0 : α), (0 : α), (0 : α)⟩⟩
          else
            ⟨(t917 / t925), ⟨(t916 / t925), (t915 / t925), (t914 / t925)⟩⟩
        else
          if t941 = (0 : α) then
            ⟨(1 : α), ⟨(0 : α), (0 : α), (0 : α)⟩⟩
          else
            ⟨(t933 / t941), ⟨(t932 / t941), (t931 / t941), (t930 / t941)⟩⟩
    else
      if t859 < teps then
        if t865 < teps then
          if t970 = (0 : α) then
            ⟨(1 : α), ⟨(0 : α), (0 : α), (0 : α)⟩⟩
          else
            ⟨(t962 / t970), ⟨(t961 / t970), (t960 / t970), (t959 / t970)⟩⟩
        else
          if t992 = (0 : α) then
            ⟨(1 : α), ⟨(0 : α), (0 : α), (0 : α)⟩⟩
          else
            ⟨(t984 / t992), ⟨(t983 / t992), (t982 / t992), (t981 / t992)⟩⟩
      else
        if t865 < teps then
          if t1014 = (0 : α) then
            ⟨(1 : α), ⟨(0 : α), (0 : α), (0 : α)⟩⟩
          else
            ⟨(t1006 / t1014), ⟨(t1005 / t1014), (t1004 / t1014), (t1003 / t1014)⟩⟩
        else
          if t1030 = (0 : α) then
            ⟨(1 : α), ⟨(0 : α), (0 : α), (0 : α)⟩⟩
          else
            ⟨(t1022 / t1030), ⟨(t1021 / t1030), (t1020 / t1030), (t1019 / t1030)⟩⟩

/-- extracted from the C++ template at T = Sym; 96 path(s) -/
def C10.Quat.intermediate {α : Type} [Add α] [Sub α] [Mul α] [Div α] [Neg α] [LT α] [LE α] [DecidableLT α] [DecidableLE α] [DecidableEq α] [OfNat α 0] [OfNat α 1] [OfNat α 2] [OfNat α 4] (tmin : α) (tmax : α) (sqrt : α → α) (sin : α → α) (cos : α → α) (acos : α → α) (q0 : Quat α) (q1 : Quat α) (q2 : Quat α) : (Quat α) :=
  let t1045 := ((q1.r * q1.r) + (((q1.v.x * q1.v.x) + (q1.v.y * q1.v.y)) + (q1.v.z * q1.v.z)))
  let t1049 := ((-q1.v.z) / t1045)
  let t1050 := ((-q1.v.y) / t1045)
  let t1051 := ((-q1.v.x) / t1045)
  let t1052 := (q1.r / t1045)
  let t1071 := (((t1052 * q2.v.z) + (t1049 * q2.r)) + ((t1051 * q2.v.y) - (t1050 * q2.v.x)))
  let t1072 := (((t1052 * q2.v.y) + (t1050 * q2.r)) + ((t1049 * q2.v.x) - (t1051 * q2.v.z)))
  let t1073 := (((t1052 * q2.v.x) + (t1051 * q2.r)) + ((t1050 * q2.v.z) - (t1049 * q2.v.y)))
  let t1099 := (((t1052 * q0.v.z) + (t1049 * q0.r)) + ((t1051 * q0.v.y) - (t1050 * q0.v.x)))
  let t1100 := (((t1052 * q0.v.y) + (t1050 * q0.r)) + ((t1049 * q0.v.x) - (t1051 * q0.v.z)))
  let t1101 := (((t1052 * q0.v.x) + (t1051 * q0.r)) + ((t1050 * q0.v.z) - (t1049 * q0.v.y)))
  let t1110 := (acos (smin ((t1052 * q2.r) - (((t1051 * q2.v.x) + (t1050 * q2.v.y)) + (t1049 * q2.v.z))) (1 : α)))
  let t1112 := (acos (smin ((t1052 * q0.r) - (((t1051 * q0.v.x) + (t1050 * q0.v.y)) + (t1049 * q0.v.z))) (1 : α)))
  let t1118 := ((t1099 + t1071) * (-((1 : α) / (4 : α))))
  let t1119 := ((t1100 + t1072) * (-((1 : α) / (4 : α))))
  let t1120 := ((t1101 + t1073) * (-((1 : α) / (4 : α))))
  let t1122 := (V3.length tmin tmax sqrt ⟨t1120, t1119, t1118⟩)
  let t1123 := (sin t1122)
  let t1124 := (sabs t1122)
  let t1125 := (tmax * t1124)
  let t1126 := (sabs t1123)
  let t1127 := (cos t1122)
  let t1128 := (t1118 * (1 : α))
  let t1129 := (t1119 * (1 : α))
  let t1130 := (t1120 * (1 : α))
  let t1140 := (q1.v.z * t1127)
  let t1141 := (q1.v.y * t1127)
  let t1142 := (q1.v.x * t1127)
  let t1149 := (((q1.r * t1128) + t1140) + ((q1.v.x * t1129) - (q1.v.y * t1130)))
  let t1150 := (((q1.r * t1129) + t1141) + ((q1.v.z * t1130) - (q1.v.x * t1128)))
  let t1151 := (((q1.r * t1130) + t1142) + ((q1.v.y * t1128) - (q1.v.z * t1129)))
  let t1157 := (q1.r * t1127)
  let t1158 := (t1157 - (((q1.v.x * t1130) + (q1.v.y * t1129)) + (q1.v.z * t1128)))
  let t1166 := (sqrt ((t1158 * t1158) + (((t1151 * t1151) + (t1150 * t1150)) + (t1149 * t1149))))
  let t1171 := (t1123 / t1122)
  let t1172 := (t1118 * t1171)
  let t1173 := (t1119 * t1171)
  let t1174 := (t1120 * t1171)
  let t1190 := (((q1.r * t1172) + t1140) + ((q1.v.x * t1173) - (q1.v.y * t1174)))
  let t1191 := (((q1.r * t1173) + t1141) + ((q1.v.z * t1174) - (q1.v.x * t1172)))
  let t1192 := (((q1.r * t1174) + t1142) + ((q1.v.y * t1172) - (q1.v.z * t1173)))
  let t1198 := (t1157 - (((q1.v.x * t1174) + (q1.v.y * t1173)) + (q1.v.z * t1172)))
  let t1206 := (sqrt ((t1198 * t1198) + (((t1192 * t1192) + (t1191 * t1191)) + (t1190 * t1190))))
  let t1207 := (t1198 / t1206)
  let t1208 := (t1192 / t1206)
  let t1209 := (t1191 / t1206)
  let t1210 := (t1190 / t1206)
  let t1211 := (sin t1112)
  let t1212 := (sabs t1211)
  let t1213 := (tmax * t1212)
  let t1214 := (sabs t1112)
  let t1215 := (t1099 * (1 : α))
  let t1216 := (t1100 * (1 : α))
  let t1217 := (t1101 * (1 : α))
  let t1221 := ((t1215 + t1071) * (-((1 : α) / (4 : α))))
  let t1222 := ((t1216 + t1072) * (-((1 : α) / (4 : α))))
  let t1223 := ((t1217 + t1073) * (-((1 : α) / (4 : α))))
  let t1224 := (V3.length tmin tmax sqrt ⟨t1223, t1222, t1221⟩)
  let t1225 := (sin t1224)
  let t1226 := (sabs t1224)
  let t1227 := (tmax * t1226)
  let t1228 := (sabs t1225)
  let t1229 := (cos t1224)
  let t1230 := (t1221 * (1 : α))
  let t1231 := (t1222 * (1 : α))
  let t1232 := (t1223 * (1 : α))
  let t1242 := (q1.v.z * t1229)
  let t1243 := (q1.v.y * t1229)
  let t1244 := (q1.v.x * t1229)
  let t1251 := (((q1.r * t1230) + t1242) + ((q1.v.x * t1231) - (q1.v.y * t1232)))
  let t1252 := (((q1.r * t1231) + t1243) + ((q1.v.z * t1232) - (q1.v.x * t1230)))
  let t1253 := (((q1.r * t1232) + t1244) + ((q1.v.y * t1230) - (q1.v.z * t1231)))
  let t1259 := (q1.r * t1229)
  let t1260 := (t1259 - (((q1.v.x * t1232) + (q1.v.y * t1231)) + (q1.v.z * t1230)))
  let t1268 := (sqrt ((t1260 * t1260) + (((t1253 * t1253) + (t1252 * t1252)) + (t1251 * t1251))))
  let t1273 := (t1225 / t1224)
  let t1274 := (t1221 * t1273)
  let t1275 := (t1222 * t1273)
  let t1276 := (t1223 * t1273)
  let t1292 := (((q1.r * t1274) + t1242) + ((q1.v.x * t1275) - (q1.v.y * t1276)))
  let t1293 := (((q1.r * t1275) + t1243) + ((q1.v.z * t1276) - (q1.v.x * t1274)))
  let t1294 := (((q1.r * t1276) + t1244) + ((q1.v.y * t1274) - (q1.v.z * t1275)))
  let t1300 := (t1259 - (((q1.v.x * t1276) + (q1.v.y * t1275)) + (q1.v.z * t1274)))
  let t1308 := (sqrt ((t1300 * t1300) + (((t1294 * t1294) + (t1293 * t1293)) + (t1292 * t1292))))
  let t1309 := (t1300 / t1308)
  let t1310 := (t1294 / t1308)
  let t1311 := (t1293 / t1308)
  let t1312 := (t1292 / t1308)
  let t1313 := (t1112 / t1211)
  let t1314 := (t1099 * t1313)
  let t1315 := (t1100 * t1313)
  let t1316 := (t1101 * t1313)
  let t1320 := ((t1314 + t1071) * (-((1 : α) / (4 : α))))
  let t1321 := ((t1315 + t1072) * (-((1 : α) / (4 : α))))
  let t1322 := ((t1316 + t1073) * (-((1 : α) / (4 : α))))
  let t1323 := (V3.length tmin tmax sqrt ⟨t1322, t1321, t1320⟩)
  let t1324 := (sin t1323)
  let t1325 := (sabs t1323)
  let t1326 := (tmax * t1325)
  let t1327 := (sabs t1324)
  let t1328 := (cos t1323)
  let t1329 := (t1320 * (1 : α))
  let t1330 := (t1321 * (1 : α))
  let t1331 := (t1322 * (1 : α))
  let t1341 := (q1.v.z * t1328)
  let t1342 := (q1.v.y * t1328)
  let t1343 := (q1.v.x * t1328)
  let t1350 := (((q1.r * t1329) + t1341) + ((q1.v.x * t1330) - (q1.v.y * t1331)))
  let t1351 := (((q1.r * t1330) + t1342) + ((q1.v.z * t1331) - (q1.v.x * t1329)))
  let t1352 := (((q1.r * t1331) + t1343) + ((q1.v.y * t1329) - (q1.v.z * t1330)))
  let t1358 := (q1.r * t1328)
  let t1359 := (t1358 - (((q1.v.x * t1331) + (q1.v.y * t1330)) + (q1.v.z * t1329)))
  let t1367 := (sqrt ((t1359 * t1359) + (((t1352 * t1352) + (t1351 * t1351)) + (t1350 * t1350))))
  let t1368 := (t1359 / t1367)
  let t1369 := (t1352 / t1367)
  let t1370 := (t1351 / t1367)
  let t1371 := (t1350 / t1367)
  let t1372 := (t1324 / t1323)
  let t1373 := (t1320 * t1372)
  let t1374 := (t1321 * t1372)
  let t1375 := (t1322 * t1372)
  let t1391 := (((q1.r * t1373) + t1341) + ((q1.v.x * t1374) - (q1.v.y * t1375)))
  let t1392 := (((q1.r * t1374) + t1342) + ((q1.v.z * t1375) - (q1.v.x * t1373)))
  let t1393 := (((q1.r * t1375) + t1343) + ((q1.v.y * t1373) - (q1.v.z * t1374)))
  let t1399 := (t1358 - (((q1.v.x * t1375) + (q1.v.y * t1374)) + (q1.v.z * t1373)))
  let t1407 := (sqrt ((t1399 * t1399) + (((t1393 * t1393) + (t1392 * t1392)) + (t1391 * t1391))))
  let t1408 := (t1399 / t1407)
  let t1409 := (t1393 / t1407)
  let t1410 := (t1392 / t1407)
  let t1411 := (t1391 / t1407)
  let t1412 := (sin t1110)
  let t1413 := (sabs t1412)
  let t1414 := (tmax * t1413)
  let t1415 := (sabs t1110)
  let t1416 := (t1071 * (1 : α))
  let t1417 := (t1072 * (1 : α))
  let t1418 := (t1073 * (1 : α))
  let t1422 := ((t1099 + t1416) * (-((1 : α) / (4 : α))))
  let t1423 := ((t1100 + t1417) * (-((1 : α) / (4 : α))))
  let t1424 := ((t1101 + t1418) * (-((1 : α) / (4 : α))))
  let t1425 := (V3.length tmin tmax sqrt ⟨t1424, t1423, t1422⟩)
  let t1426 := (sin t1425)
  let t1427 := (sabs t1425)
  let t1428 := (tmax * t1427)
  let t1429 := (sabs t1426)
  let t1430 := (cos t1425)
  let t1431 := (t1422 * (1 : α))
  let t1432 := (t1423 * (1 : α))
  let t1433 := (t1424 * (1 : α))
  let t1443 := (q1.v.z * t1430)
  let t1444 := (q1.v.y * t1430)
  let t1445 := (q1.v.x * t1430)
  let t1452 := (((q1.r * t1431) + t1443) + ((q1.v.x * t1432) - (q1.v.y * t1433)))
  let t1453 := (((q1.r * t1432) + t1444) + ((q1.v.z * t1433) - (q1.v.x * t1431)))
  let t1454 := (((q1.r * t1433) + t1445) + ((q1.v.y * t1431) - (q1.v.z * t1432)))
  let t1460 := (q1.r * t1430)
  let t1461 := (t1460 - (((q1.v.x * t1433) + (q1.v.y * t1432)) + (q1.v.z * t1431)))
  let t1469 := (sqrt ((t1461 * t1461) + (((t1454 * t1454) + (t1453 * t1453)) + (t1452 * t1452))))
  let t1474 := (t1426 / t1425)
  let t1475 := (t1422 * t1474)
  let t1476 := (t1423 * t1474)
  let t1477 := (t1424 * t1474)
  let t1493 := (((q1.r * t1475) + t1443) + ((q1.v.x * t1476) - (q1.v.y * t1477)))
  let t1494 := (((q1.r * t1476) + t1444) + ((q1.v.z * t1477) - (q1.v.x * t1475)))
  let t1495 := (((q1.r * t1477) + t1445) + ((q1.v.y * t1475) - (q1.v.z * t1476)))
  let t1501 := (t1460 - (((q1.v.x * t1477) + (q1.v.y * t1476)) + (q1.v.z * t1475)))
  let t1509 := (sqrt ((t1501 * t1501) + (((t1495 * t1495) + (t1494 * t1494)) + (t1493 * t1493))))
  let t1510 := (t1501 / t1509)
  let t1511 := (t1495 / t1509)
  let t1512 := (t1494 / t1509)
  let t1513 := (t1493 / t1509)
  let t1517 := ((t1215 + t1416) * (-((1 : α) / (4 : α))))
  let t1518 := ((t1216 + t1417) * (-((1 : α) / (4 : α))))
  let t1519 := ((t1217 + t1418) * (-((1 : α) / (4 : α))))
  let t1520 := (V3.length tmin tmax sqrt ⟨t1519, t1518, t1517⟩)
  let t1521 := (sin t1520)
  let t1522 := (sabs t1520)
  let t1523 := (tmax * t1522)
  let t1524 := (sabs t1521)
  let t1525 := (cos t1520)
  let t1526 := (t1517 * (1 : α))
  let t1527 := (t1518 * (1 : α))
  let t1528 := (t1519 * (1 : α))
  let t1538 := (q1.v.z * t1525)
  let t1539 := (q1.v.y * t1525)
  let t1540 := (q1.v.x * t1525)
  let t1547 := (((q1.r * t1526) + t1538) + ((q1.v.x * t1527) - (q1.v.y * t1528)))
  let t1548 := (((q1.r * t1527) + t1539) + ((q1.v.z * t1528) - (q1.v.x * t1526)))
  let t1549 := (((q1.r * t1528) + t1540) + ((q1.v.y * t1526) - (q1.v.z * t1527)))
  let t1555 := (q1.r * t1525)
  let t1556 := (t1555 - (((q1.v.x * t1528) + (q1.v.y * t1527)) + (q1.v.z * t1526)))
  let t1564 := (sqrt ((t1556 * t1556) + (((t1549 * t1549) + (t1548 * t1548)) + (t1547 * t1547))))
  let t1569 := (t1521 / t1520)
  let t1570 := (t1517 * t1569)
  let t1571 := (t1518 * t1569)
  let t1572 := (t1519 * t1569)
  let t1588 := (((q1.r * t1570) + t1538) + ((q1.v.x * t1571) - (q1.v.y * t1572)))
  let t1589 := (((q1.r * t1571) + t1539) + ((q1.v.z * t1572) - (q1.v.x * t1570)))
  let t1590 := (((q1.r * t1572) + t1540) + ((q1.v.y * t1570) - (q1.v.z * t1571)))
  let t1596 := (t1555 - (((q1.v.x * t1572) + (q1.v.y * t1571)) + (q1.v.z * t1570)))
  let t1604 := (sqrt ((t1596 * t1596) + (((t1590 * t1590) + (t1589 * t1589)) + (t1588 * t1588))))
  let t1605 := (t1596 / t1604)
  let t1606 := (t1590 / t1604)
  let t1607 := (t1589 / t1604)
  let t1608 := (t1588 / t1604)
  let t1612 := ((t1314 + t1416) * (-((1 : α) / (4 : α))))
  let t1613 := ((t1315 + t1417) * (-((1 : α) / (4 : α))))
  let t1614 := ((t1316 + t1418) * (-((1 : α) / (4 : α))))
  let t1615 := (V3.length tmin tmax sqrt ⟨t1614, t1613, t1612⟩)
  let t1616 := (sin t1615)
  let t1617 := (sabs t1615)
  let t1618 := (tmax * t1617)
  let t1619 := (sabs t1616)
  let t1620 := (cos t1615)
  let t1621 := (t1612 * (1 : α))
  let t1622 := (t1613 * (1 : α))
  let t1623 := (t1614 * (1 : α))
  let t1633 := (q1.v.z * t1620)
  let t1634 := (q1.v.y * t1620)
  let t1635 := (q1.v.x * t1620)
  let t1642 := (((q1.r * t1621) + t1633) + ((q1.v.x * t1622) - (q1.v.y * t1623)))
  let t1643 := (((q1.r * t1622) + t1634) + ((q1.v.z * t1623) - (q1.v.x * t1621)))
  let t1644 := (((q1.r * t1623) + t1635) + ((q1.v.y * t1621) - (q1.v.z * t1622)))
  let t1650 := (q1.r * t1620)
  let t1651 := (t1650 - (((q1.v.x * t1623) + (q1.v.y * t1622)) + (q1.v.z * t1621)))
  let t1659 := (sqrt ((t1651 * t1651) + (((t1644 * t1644) + (t1643 * t1643)) + (t1642 * t1642))))
  let t1660 := (t1651 / t1659)
  let t1661 := (t1644 / t1659)
  let t1662 := (t1643 / t1659)
  let t1663 := (t1642 / t1659)
  let t1664 := (t1616 / t1615)
  let t1665 := (t1612 * t1664)
  let t1666 := (t1613 * t1664)
  let t1667 := (t1614 * t1664)
  let t1683 := (((q1.r * t1665) + t1633) + ((q1.v.x * t1666) - (q1.v.y * t1667)))
  let t1684 := (((q1.r * t1666) + t1634) + ((q1.v.z * t1667) - (q1.v.x * t1665)))
  let t1685 := (((q1.r * t1667) + t1635) + ((q1.v.y * t1665) - (q1.v.z * t1666)))
  let t1691 := (t1650 - (((q1.v.x * t1667) + (q1.v.y * t1666)) + (q1.v.z * t1665)))
  let t1699 := (sqrt ((t1691 * t1691) + (((t1685 * t1685) + (t1684 * t1684)) + (t1683 * t1683))))
  let t1700 := (t1691 / t1699)
  let t1701 := (t1685 / t1699)
  let t1702 := (t1684 / t1699)
  let t1703 := (t1683 / t1699)
  let t1704 := (t1110 / t1412)
  let t1705 := (t1071 * t1704)
  let t1706 := (t1072 * t1704)
  let t1707 := (t1073 * t1704)
  let t1711 := ((t1099 + t1705) * (-((1 : α) / (4 : α))))
  let t1712 := ((t1100 + t1706) * (-((1 : α) / (4 : α))))
  let t1713 := ((t1101 + t1707) * (-((1 : α) / (4 : α))))
  let t1714 := (V3.length tmin tmax sqrt ⟨t1713, t1712, t1711⟩)
  let t1715 := (sin t1714)
  let t1716 := (sabs t1714)
  let t1717 := (tmax * t1716)
  let t1718 := (sabs t1715)
  let t1719 := (cos t1714)
  let t1720 := (t1711 * (1 : α))
  let t1721 := (t1712 * (1 : α))
  let t1722 := (t1713 * (1 : α))
  let t1732 := (q1.v.z * t1719)
  let t1733 := (q1.v.y * t1719)
  let t1734 := (q1.v.x * t1719)
  let t1741 := (((q1.r * t1720) + t1732) + ((q1.v.x * t1721) - (q1.v.y * t1722)))
  let t1742 := (((q1.r * t1721) + t1733) + ((q1.v.z * t1722) - (q1.v.x * t1720)))
  let t1743 := (((q1.r * t1722) + t1734) + ((q1.v.y * t1720) - (q1.v.z * t1721)))
  let t1749 := (q1.r * t1719)
  let t1750 := (t1749 - (((q1.v.x * t1722) + (q1.v.y * t1721)) + (q1.v.z * t1720)))
  let t1758 := (sqrt ((t1750 * t1750) + (((t1743 * t1743) + (t1742 * t1742)) + (t1741 * t1741))))
  let t1759 := (t1750 / t1758)
  let t1760 := (t1743 / t1758)
  let t1761 := (t1742 / t1758)
  let t1762 := (t1741 / t1758)
  let t1763 := (t1715 / t1714)
  let t1764 := (t1711 * t1763)
  let t1765 := (t1712 * t1763)
  let t1766 := (t1713 * t1763)
  let t1782 := (((q1.r * t1764) + t1732) + ((q1.v.x * t1765) - (q1.v.y * t1766)))
  let t1783 := (((q1.r * t1765) + t1733) + ((q1.v.z * t1766) - (q1.v.x * t1764)))
  let t1784 := (((q1.r * t1766) + t1734) + ((q1.v.y * t1764) - (q1.v.z * t1765)))
  let t1790 := (t1749 - (((q1.v.x * t1766) + (q1.v.y * t1765)) + (q1.v.z * t1764)))
  let t1798 := (sqrt ((t1790 * t1790) + (((t1784 * t1784) + (t1783 * t1783)) + (t1782 * t1782))))
  let t1799 := (t1790 / t1798)
  let t1800 := (t1784 / t1798)
  let t1801 := (t1783 / t1798)
  let t1802 := (t1782 / t1798)
  let t1806 := ((t1215 + t1705) * (-((1 : α) / (4 : α))))
  let t1807 := ((t1216 + t1706) * (-((1 : α) / (4 : α))))
  let t1808 := ((t1217 + t1707) * (-((1 : α) / (4 : α))))
  let t1809 := (V3.length tmin tmax sqrt ⟨t1808, t1807, t1806⟩)
  let t1810 := (sin t1809)
  let t1811 := (sabs t1809)
  let t1812 := (tmax * t1811)
  let t1813 := (sabs t1810)
  let t1814 := (cos t1809)
  let t1815 := (t1806 * (1 : α))
  let t1816 := (t1807 * (1 : α))
  let t1817 := (t1808 * (1 : α))
  let t1827 := (q1.v.z * t1814)
  let t1828 := (q1.v.y * t1814)
  let t1829 := (q1.v.x * t1814)
  let t1836 := (((q1.r * t1815) + t1827) + ((q1.v.x * t1816) - (q1.v.y * t1817)))
  let t1837 := (((q1.r * t1816) + t1828) + ((q1.v.z * t1817) - (q1.v.x * t1815)))
  let t1838 := (((q1.r * t1817) + t1829) + ((q1.v.y * t1815) - (q1.v.z * t1816)))
  let t1844 := (q1.r * t1814)
  let t1845 := (t1844 - (((q1.v.x * t1817) + (q1.v.y * t1816)) + (q1.v.z * t1815)))
  let t1853 := (sqrt ((t1845 * t1845) + (((t1838 * t1838) + (t1837 * t1837)) + (t1836 * t1836))))
  let t1854 := (t1845 / t1853)
  let t1855 := (t1838 / t1853)
  let t1856 := (t1837 / t1853)
  let t1857 := (t1836 / t1853)
  let t1858 := (t1810 / t1809)
  let t1859 := (t1806 * t1858)
  let t1860 := (t1807 * t1858)
  let t1861 := (t1808 * t1858)
  let t1877 := (((q1.r * t1859) + t1827) + ((q1.v.x * t1860) - (q1.v.y * t1861)))
  let t1878 := (((q1.r * t1860) + t1828) + ((q1.v.z * t1861) - (q1.v.x * t1859)))
  let t1879 := (((q1.r * t1861) + t1829) + ((q1.v.y * t1859) - (q1.v.z * t1860)))
  let t1885 := (t1844 - (((q1.v.x * t1861) + (q1.v.y * t1860)) + (q1.v.z * t1859)))
  let t1893 := (sqrt ((t1885 * t1885) + (((t1879 * t1879) + (t1878 * t1878)) + (t1877 * t1877))))
  let t1894 := (t1885 / t1893)
  let t1895 := (t1879 / t1893)
  let t1896 := (t1878 / t1893)
  let t1897 := (t1877 / t1893)
  let t1901 := ((t1314 + t1705) * (-((1 : α) / (4 : α))))
  let t1902 := ((t1315 + t1706) * (-((1 : α) / (4 : α))))
  let t1903 := ((t1316 + t1707) * (-((1 : α) / (4 : α))))
  let t1904 := (V3.length tmin tmax sqrt ⟨t1903, t1902, t1901⟩)
  let t1905 := (sin t1904)
  let t1906 := (sabs t1904)
  let t1907 := (tmax * t1906)
  let t1908 := (sabs t1905)
  let t1909 := (cos t1904)
  let t1910 := (t1901 * (1 : α))
  let t1911 := (t1902 * (1 : α))
  let t1912 := (t1903 * (1 : α))
  let t1922 := (q1.v.z * t1909)
  let t1923 := (q1.v.y * t1909)
  let t1924 := (q1.v.x * t1909)
  let t1931 := (((q1.r * t1910) + t1922) + ((q1.v.x * t1911) - (q1.v.y * t1912)))
  let t1932 := (((q1.r * t1911) + t1923) + ((q1.v.z * t1912) - (q1.v.x * t1910)))
  let t1933 := (((q1.r * t1912) + t1924) + ((q1.v.y * t1910) - (q1.v.z * t1911)))
  let t1939 := (q1.r * t1909)
  let t1940 := (t1939 - (((q1.v.x * t1912) + (q1.v.y * t1911)) + (q1.v.z * t1910)))
  let t1948 := (sqrt ((t1940 * t1940) + (((t1933 * t1933) + (t1932 * t1932)) + (t1931 * t1931))))
  let t1949 := (t1940 / t1948)
  let t1950 := (t1933 / t1948)
  let t1951 := (t1932 / t1948)
  let t1952 := (t1931 / t1948)
  let t1953 := (t1905 / t1904)
  let t1954 := (t1901 * t1953)
  let t1955 := (t1902 * t1953)
  let t1956 := (t1903 * t1953)
  let t1972 := (((q1.r * t1954) + t1922) + ((q1.v.x * t1955) - (q1.v.y * t1956)))
  let t1973 := (((q1.r * t1955) + t1923) + ((q1.v.z * t1956) - (q1.v.x * t1954)))
  let t1974 := (((q1.r * t1956) + t1924) + ((q1.v.y * t1954) - (q1.v.z * t1955)))
  let t1980 := (t1939 - (((q1.v.x * t1956) + (q1.v.y * t1955)) + (q1.v.z * t1954)))
  let t1988 := (sqrt ((t1980 * t1980) + (((t1974 * t1974) + (t1973 * t1973)) + (t1972 * t1972))))
  let t1989 := (t1980 / t1988)
  let t1990 := (t1974 / t1988)
  let t1991 := (t1973 / t1988)
  let t1992 := (t1972 / t1988)
  if t1110 = (0 : α) then
    if t1112 = (0 : α) then
      if t1124 < (1 : α) then
        if t1125 ≤ t1126 then
          if t1166 = (0 : α) then
            ⟨(1 : α), ⟨(0 : α), (0 : α), (0 : α)⟩⟩
          else
            ⟨(t1158 / t1166), ⟨(t1151 / t1166), (t1150 / t1166), (t1149 / t1166)⟩⟩
        else
          if t1206 = (0 : α) then
            ⟨(1 : α), ⟨(0 : α), (0 : α), (0 : α)⟩⟩
          else
            ⟨t1207, ⟨t1208, t1209, t1210⟩⟩
      else
        if t1206 = (0 : α) then
          ⟨(1 : α), ⟨(0 : α), (0 : α), (0 : α)⟩⟩
        else
          ⟨t1207, ⟨t1208, t1209, t1210⟩⟩
    else
      if t1212 < (1 : α) then
        if t1213 ≤ t1214 then
          if t1226 < (1 : α) then
            if t1227 ≤ t1228 then
              if t1268 = (0 : α) then
                ⟨(1 : α), ⟨(0 : α), (0 : α), (0 : α)⟩⟩
              else
                ⟨(t1260 / t1268), ⟨(t1253 / t1268), (t1252 / t1268), (t1251 / t1268)⟩⟩
            else
              if t1308 = (0 : α) then
                ⟨(1 : α), ⟨(0 : α), (0 : α), (0 : α)⟩⟩
              else
                ⟨t1309, ⟨t1310, t1311, t1312⟩⟩
          else
            if t1308 = (0 : α) then
              ⟨(1 : α), ⟨(0 : α), (0 : α), (0 : α)⟩⟩
            else
              ⟨t1309, ⟨t1310, t1311, t1312⟩⟩
        else
          if t1325 < (1 : α) then
            if t1326 ≤ t1327 then
              if t1367 = (0 : α) then
                ⟨(1 : α), ⟨(0 : α), (0 : α), (0 : α)⟩⟩
              else
                ⟨t1368, ⟨t1369, t1370, t1371⟩⟩
            else
              if t1407 = (0 : α) then
                ⟨(1 : α), ⟨(0 : α), (0 : α), (0 : α)⟩⟩
              else
                ⟨t1408, ⟨t1409, t1410, t1411⟩⟩
          else
            if t1407 = (0 : α) then
              ⟨(1 : α), ⟨(0 : α), (0 : α), (0 : α)⟩⟩
            else
              ⟨t1408, ⟨t1409, t1410, t1411⟩⟩
      else
        if t1325 < (1 : α) then
          if t1326 ≤ t1327 then
            if t1367 = (0 : α) then
              ⟨(1 : α), ⟨(0 : α), (0 : α), (0 : α)⟩⟩
            else
              ⟨t1368, ⟨t1369, t1370, t1371⟩⟩
          else
            if t1407 = (0 : α) then
              ⟨(1 : α), ⟨(0 : α), (0 : α), (0 : α)⟩⟩
            else
              ⟨t1408, ⟨t1409, t1410, t1411⟩⟩
        else
          if t1407 = (0 : α) then
            ⟨(1 : α), ⟨(0 : α), (0 : α), (0 : α)⟩⟩
          else
            ⟨t1408, ⟨t1409, t1410, t1411⟩⟩
  else
    if t1413 < (1 : α) then
      if t1414 ≤ t1415 then
        if t1112 = (0 : α) then
          if t1427 < (1 : α) then
            if t1428 ≤ t1429 then
              if t1469 = (0 : α) then
                ⟨(1 : α), ⟨(0 : α), (0 : α), (0 : α)⟩⟩
              else
                ⟨(t1461 / t1469), ⟨(t1454 / t1469), (t1453 / t1469), (t1452 / t1469)⟩⟩
            else
              if t1509 = (0 : α) then
                ⟨(1 : α), ⟨(0 : α), (0 : α), (0 : α)⟩⟩
              else
                ⟨t1510, ⟨t1511, t1512, t1513⟩⟩
          else
            if t1509 = (0 : α) then
              ⟨(1 : α), ⟨(0 : α), (0 : α), (0 : α)⟩⟩
            else
              ⟨t1510, ⟨t1511, t1512, t1513⟩⟩
        else
          if t1212 < (1 : α) then
            if t1213 ≤ t1214 then
              if t1522 < (1 : α) then
                if t1523 ≤ t1524 then
                  if t1564 = (0 : α) then
                    ⟨(1 : α), ⟨(0 : α), (0 : α), (0 : α)⟩⟩
                  else
                    ⟨(t1556 / t1564), ⟨(t1549 / t1564), (t1548 / t1564), (t1547 / t1564)⟩⟩
                else
                  if t1604 = (0 : α) then
                    ⟨(1 : α), ⟨(0 : α), (0 : α), (0 : α)⟩⟩
                  else
                    ⟨t1605, ⟨t1606, t1607, t1608⟩⟩
              else
                if t1604 = (0 : α) then
                  ⟨(1 : α), ⟨(0 : α), (0 : α), (0 : α)⟩⟩
                else
                  ⟨t1605, ⟨t1606, t1607, t1608⟩⟩
            else
              if t1617 < (1 : α) then
                if t1618 ≤ t1619 then
                  if t1659 = (0 : α) then
                    ⟨(1 : α), ⟨(0 : α), (0 : α), (0 : α)⟩⟩
                  else
                    ⟨t1660, ⟨t1661, t1662, t1663⟩⟩
                else
                  if t1699 = (0 : α) then
                    ⟨(1 : α), ⟨(0 : α), (0 : α), (0 : α)⟩⟩
                  else
                    ⟨t1700, ⟨t1701, t1702, t1703⟩⟩
              else
                if t1699 = (0 : α) then
                  ⟨(1 : α), ⟨(0 : α), (0 : α), (0 : α)⟩⟩
                else
                  ⟨t1700, ⟨t1701, t1702, t1703⟩⟩
          else
            if t1617 < (1 : α) then
              if t1618 ≤ t1619 then
                if t1659 = (0 : α) then
                  ⟨(1 : α), ⟨(0 : α), (0 : α), (0 : α)⟩⟩
                else
                  ⟨t1660, ⟨t1661, t1662, t1663⟩⟩
              else
                if t1699 = (0 : α) then
                  ⟨(1 : α), ⟨(0 : α), (0 : α), (0 : α)⟩⟩
                else
                  ⟨t1700, ⟨t1701, t1702, t1703⟩⟩
            else
              if t1699 = (0 : α) then
                ⟨(1 : α), ⟨(0 : α), (0 : α), (0 : α)⟩⟩
              else
                ⟨t1700, ⟨t1701, t1702, t1703⟩⟩
      else
        if t1112 = (0 : α) then
          if t1716 < (1 : α) then
            if t1717 ≤ t1718 then
              if t1758 = (0 : α) then
                ⟨(1 : α), ⟨(0 : α), (0 : α), (0 : α)⟩⟩
              else
                ⟨t1759, ⟨t1760, t1761, t1762⟩⟩
            else
              if t1798 = (0 : α) then
                ⟨(1 : α), ⟨(0 : α), (0 : α), (0 : α)⟩⟩
              else
                ⟨t1799, ⟨t1800, t1801, t1802⟩⟩
          else
            if t1798 = (0 : α) then
              ⟨(1 : α), ⟨(0 : α), (0 : α), (0 : α)⟩⟩
            else
              ⟨t1799, ⟨t1800, t1801, t1802⟩⟩
        else
          if t1212 < (1 : α) then
            if t1213 ≤ t1214 then
              if t1811 < (1 : α) then
                if t1812 ≤ t1813 then
                  if t1853 = (0 : α) then
                    ⟨(1 : α), ⟨(0 : α), (0 : α), (0 : α)⟩⟩
                  else
                    ⟨t1854, ⟨t1855, t1856, t1857⟩⟩
                else
                  if t1893 = (0 : α) then
                    ⟨(1 : α), ⟨(0 : α), (0 : α), (0 : α)⟩⟩
                  else
                    ⟨t1894, ⟨t1895, t1896, t1897⟩⟩
              else
                if t1893 = (0 : α) then
                  ⟨(1 : α), ⟨(0 : α), (0 : α), (0 : α)⟩⟩
                else
                  ⟨t1894, ⟨t1895, t1896, t1897⟩⟩
            else
              if t1906 < (1 : α) then
                if t1907 ≤ t1908 then
                  if t1948 = (0 : α) then
                    ⟨(1 : α), ⟨(0 : α), (0 : α), (0 : α)⟩⟩
                  else
                    ⟨t1949, ⟨t1950, t1951, t1952⟩⟩
                else
                  if t1988 = (0 : α) then
                    ⟨(1 : α), ⟨(0 : α), (0 : α), (0 : α)⟩⟩
                  else
                    ⟨t1989, ⟨t1990, t1991, t1992⟩⟩
              else
                if t1988 = (0 : α) then
                  ⟨(1 : α), ⟨(0 : α), (0 : α), (0 : α)⟩⟩
                else
                  ⟨t1989, ⟨t1990, t1991, t1992⟩⟩
          else
            if t1906 < (1 : α) then
              if t1907 ≤ t1908 then
                if t1948 = (0 : α) then
                  ⟨(1 : α), ⟨(0 : α), (0 : α), (0 : α)⟩⟩
                else
                  ⟨t1949, ⟨t1950, t1951, t1952⟩⟩
              else
                if t1988 = (0 : α) then
                  ⟨(1 : α), ⟨(0 : α), (0 : α), (0 : α)⟩⟩
                else
                  ⟨t1989, ⟨t1990, t1991, t1992⟩⟩
            else
              if t1988 = (0 : α) then
                ⟨(1 : α), ⟨(0 : α), (0 : α), (0 : α)⟩⟩
              else
                ⟨t1989, ⟨t1990, t1991, t1992⟩⟩
    else
      if t1112 = (0 : α) then
        if t1716 < (1 : α) then
          if t1717 ≤ t1718 then
            if t1758 = (0 : α) then
              ⟨(1 : α), ⟨(0 : α), (0 : α), (0 : α)⟩⟩
            else
              ⟨t1759, ⟨t1760, t1761, t1762⟩⟩
          else
            if t1798 = (0 : α) then
              ⟨(1 : α), ⟨(0 : α), (0 : α), (0 : α)⟩⟩
            else
              ⟨t1799, ⟨t1800, t1801, t1802⟩⟩
        else
          if t1798 = (0 : α) then
            ⟨(1 : α), ⟨(0 : α), (0 : α), (0 : α)⟩⟩
          else
            ⟨t1799, ⟨t1800, t1801, t1802⟩⟩
      else
        if t1212 < (1 : α) then
          if t1213 ≤ t1214 then
            if t1811 < (1 : α) then
              if t1812 ≤ t1813 then
                if t1853 = (0 : α) then
                  ⟨(1 : α), ⟨(0 : α), (0 : α), (0 : α)⟩⟩
                else
                  ⟨t1854, ⟨t1855, t1856, t1857⟩⟩
              else
                if t1893 = (0 : α) then
                  ⟨(1 : α), ⟨(0 : α), (0 : α), (0 : α)⟩⟩
                else
                  ⟨t1894, ⟨t1895, t1896, t1897⟩⟩
            else
              if t1893 = (0 : α) then
                ⟨(1 : α), ⟨(0 : α), (0 : α), (0 : α)⟩⟩
              else
                ⟨t1894, ⟨t1895, t1896, t1897⟩⟩
          else
            if t1906 < (1 : α) then
              if t1907 ≤ t1908 then
                if t1948 = (0 : α) then
                  ⟨(1 : α), ⟨(0 : α), (0 : α), (0 : α)⟩⟩
                else
                  ⟨t1949, ⟨t1950, t1951, t1952⟩⟩
              else
                if t1988 = (0 : α) then
                  ⟨(1 : α), ⟨(0 : α), (0 : α), (0 : α)⟩⟩
                else
                  ⟨t1989, ⟨t1990, t1991, t1992⟩⟩
            else
              if t1988 = (0 : α) then
                ⟨(1 : α), ⟨(0 : α), (0 : α), (0 : α)⟩⟩
              else
                ⟨t1989, ⟨t1990, t1991, t1992⟩⟩
        else
          if t1906 < (1 : α) then
            if t1907 ≤ t1908 then
              if t1948 = (0 : α) then
                ⟨(1 : α), ⟨(0 : α), (0 : α), (0 : α)⟩⟩
              else
                ⟨t1949, ⟨t1950, t1951, t1952⟩⟩
            else
              if t1988 = (0 : α) then
                ⟨(1 : α), ⟨(0 : α), (0 : α), (0 : α)⟩⟩
              else
                ⟨t1989, ⟨t1990, t1991, t1992⟩⟩
          else
            if t1988 = (0 : α) then
              ⟨(1 : α), ⟨(0 : α), (0 : α), (0 : α)⟩⟩
            else
              ⟨t1989, ⟨t1990, t1991, t1992⟩⟩

end ImathVerif.Gen
