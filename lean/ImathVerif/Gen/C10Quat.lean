-- GENERATED from /repo/src/Imath by harness/sym (T = Sym path extraction); do not edit.
import ImathVerif.Basic.Types
import ImathVerif.Gen.Leaf
set_option linter.unusedVariables false
namespace ImathVerif.Gen
open ImathVerif

/-- extracted from the C++ template at T = Sym; 1 path(s) -/
def C10.Quat.rotateVector {α : Type} [Add α] [Sub α] [Mul α] [Neg α] [OfNat α 0] [OfNat α 1] (q : Quat α) (v : V3 α) : (V3 α) :=
  let t10 := (q.v.x * (-(1 : α)))
  let t11 := (q.v.y * (-(1 : α)))
  let t12 := (q.v.z * (-(1 : α)))
  let t31 := (((q.r * v.z) + (q.v.z * (0 : α))) + ((q.v.x * v.y) - (q.v.y * v.x)))
  let t32 := (((q.r * v.y) + (q.v.y * (0 : α))) + ((q.v.z * v.x) - (q.v.x * v.z)))
  let t33 := (((q.r * v.x) + (q.v.x * (0 : α))) + ((q.v.y * v.z) - (q.v.z * v.y)))
  let t40 := ((q.r * (0 : α)) - (((q.v.x * v.x) + (q.v.y * v.y)) + (q.v.z * v.z)))
  ⟨(((t40 * t10) + (t33 * q.r)) + ((t32 * t12) - (t31 * t11))), (((t40 * t11) + (t32 * q.r)) + ((t31 * t10) - (t33 * t12))), (((t40 * t12) + (t31 * q.r)) + ((t33 * t11) - (t32 * t10)))⟩

/-- extracted from the C++ template at T = Sym; 1 path(s) -/
def C10.V3.mulQuat {α : Type} [Add α] [Sub α] [Mul α] [OfNat α 2] (v : V3 α) (q : Quat α) : (V3 α) :=
  let t15 := ((q.v.x * v.y) - (q.v.y * v.x))
  let t18 := ((q.v.z * v.x) - (q.v.x * v.z))
  let t21 := ((q.v.y * v.z) - (q.v.z * v.y))
  ⟨(v.x + ((2 : α) * ((q.r * t21) + ((q.v.y * t15) - (q.v.z * t18))))), (v.y + ((2 : α) * ((q.r * t18) + ((q.v.z * t21) - (q.v.x * t15))))), (v.z + ((2 : α) * ((q.r * t15) + ((q.v.x * t18) - (q.v.y * t21)))))⟩

/-- extracted from the C++ template at T = Sym; 1 path(s) -/
def C10.Quat.toMatrix33 {α : Type} [Add α] [Sub α] [Mul α] [OfNat α 1] [OfNat α 2] (q : Quat α) : (M33 α) :=
  let t91 := (q.v.x * q.v.x)
  let t92 := (q.v.y * q.v.y)
  let t96 := (q.v.x * q.r)
  let t97 := (q.v.y * q.v.z)
  let t100 := (q.v.y * q.r)
  let t101 := (q.v.z * q.v.x)
  let t106 := (q.v.z * q.v.z)
  let t110 := (q.v.z * q.r)
  let t111 := (q.v.x * q.v.y)
  ⟨((1 : α) - ((2 : α) * (t92 + t106))), ((2 : α) * (t111 + t110)), ((2 : α) * (t101 - t100)), ((2 : α) * (t111 - t110)), ((1 : α) - ((2 : α) * (t106 + t91))), ((2 : α) * (t97 + t96)), ((2 : α) * (t101 + t100)), ((2 : α) * (t97 - t96)), ((1 : α) - ((2 : α) * (t92 + t91)))⟩

/-- extracted from the C++ template at T = Sym; 1 path(s) -/
def C10.Quat.toMatrix44 {α : Type} [Add α] [Sub α] [Mul α] [OfNat α 0] [OfNat α 1] [OfNat α 2] (q : Quat α) : (M44 α) :=
  let t91 := (q.v.x * q.v.x)
  let t92 := (q.v.y * q.v.y)
  let t96 := (q.v.x * q.r)
  let t97 := (q.v.y * q.v.z)
  let t100 := (q.v.y * q.r)
  let t101 := (q.v.z * q.v.x)
  let t106 := (q.v.z * q.v.z)
  let t110 := (q.v.z * q.r)
  let t111 := (q.v.x * q.v.y)
  ⟨((1 : α) - ((2 : α) * (t92 + t106))), ((2 : α) * (t111 + t110)), ((2 : α) * (t101 - t100)), (0 : α), ((2 : α) * (t111 - t110)), ((1 : α) - ((2 : α) * (t106 + t91))), ((2 : α) * (t97 + t96)), (0 : α), ((2 : α) * (t101 + t100)), ((2 : α) * (t97 - t96)), ((1 : α) - ((2 : α) * (t92 + t91))), (0 : α), (0 : α), (0 : α), (0 : α), (1 : α)⟩

/-- extracted from the C++ template at T = Sym; 1 path(s) -/
def C10.M33.mulQuat {α : Type} [Add α] [Sub α] [Mul α] [OfNat α 1] [OfNat α 2] (m : M33 α) (q : Quat α) : (M33 α) :=
  let t91 := (q.v.x * q.v.x)
  let t92 := (q.v.y * q.v.y)
  let t95 := ((1 : α) - ((2 : α) * (t92 + t91)))
  let t96 := (q.v.x * q.r)
  let t97 := (q.v.y * q.v.z)
  let t99 := ((2 : α) * (t97 - t96))
  let t100 := (q.v.y * q.r)
  let t101 := (q.v.z * q.v.x)
  let t103 := ((2 : α) * (t101 + t100))
  let t105 := ((2 : α) * (t97 + t96))
  let t106 := (q.v.z * q.v.z)
  let t109 := ((1 : α) - ((2 : α) * (t106 + t91)))
  let t110 := (q.v.z * q.r)
  let t111 := (q.v.x * q.v.y)
  let t113 := ((2 : α) * (t111 - t110))
  let t115 := ((2 : α) * (t101 - t100))
  let t117 := ((2 : α) * (t111 + t110))
  let t120 := ((1 : α) - ((2 : α) * (t92 + t106)))
  ⟨(((m.x00 * t120) + (m.x01 * t113)) + (m.x02 * t103)), (((m.x00 * t117) + (m.x01 * t109)) + (m.x02 * t99)), (((m.x00 * t115) + (m.x01 * t105)) + (m.x02 * t95)), (((m.x10 * t120) + (m.x11 * t113)) + (m.x12 * t103)), (((m.x10 * t117) + (m.x11 * t109)) + (m.x12 * t99)), (((m.x10 * t115) + (m.x11 * t105)) + (m.x12 * t95)), (((m.x20 * t120) + (m.x21 * t113)) + (m.x22 * t103)), (((m.x20 * t117) + (m.x21 * t109)) + (m.x22 * t99)), (((m.x20 * t115) + (m.x21 * t105)) + (m.x22 * t95))⟩

/-- extracted from the C++ template at T = Sym; 1 path(s) -/
def C10.Quat.mulM33 {α : Type} [Add α] [Sub α] [Mul α] [OfNat α 1] [OfNat α 2] (q : Quat α) (m : M33 α) : (M33 α) :=
  let t91 := (q.v.x * q.v.x)
  let t92 := (q.v.y * q.v.y)
  let t95 := ((1 : α) - ((2 : α) * (t92 + t91)))
  let t96 := (q.v.x * q.r)
  let t97 := (q.v.y * q.v.z)
  let t99 := ((2 : α) * (t97 - t96))
  let t100 := (q.v.y * q.r)
  let t101 := (q.v.z * q.v.x)
  let t103 := ((2 : α) * (t101 + t100))
  let t105 := ((2 : α) * (t97 + t96))
  let t106 := (q.v.z * q.v.z)
  let t109 := ((1 : α) - ((2 : α) * (t106 + t91)))
  let t110 := (q.v.z * q.r)
  let t111 := (q.v.x * q.v.y)
  let t113 := ((2 : α) * (t111 - t110))
  let t115 := ((2 : α) * (t101 - t100))
  let t117 := ((2 : α) * (t111 + t110))
  let t120 := ((1 : α) - ((2 : α) * (t92 + t106)))
  ⟨(((t120 * m.x00) + (t117 * m.x10)) + (t115 * m.x20)), (((t120 * m.x01) + (t117 * m.x11)) + (t115 * m.x21)), (((t120 * m.x02) + (t117 * m.x12)) + (t115 * m.x22)), (((t113 * m.x00) + (t109 * m.x10)) + (t105 * m.x20)), (((t113 * m.x01) + (t109 * m.x11)) + (t105 * m.x21)), (((t113 * m.x02) + (t109 * m.x12)) + (t105 * m.x22)), (((t103 * m.x00) + (t99 * m.x10)) + (t95 * m.x20)), (((t103 * m.x01) + (t99 * m.x11)) + (t95 * m.x21)), (((t103 * m.x02) + (t99 * m.x12)) + (t95 * m.x22))⟩

/-- extracted from the C++ template at T = Sym; 1 path(s) -/
def C10.V3.mulM33 {α : Type} [Add α] [Mul α] (v : V3 α) (m : M33 α) : (V3 α) :=
  ⟨(((v.x * m.x00) + (v.y * m.x10)) + (v.z * m.x20)), (((v.x * m.x01) + (v.y * m.x11)) + (v.z * m.x21)), (((v.x * m.x02) + (v.y * m.x12)) + (v.z * m.x22))⟩

/-- extracted from the C++ template at T = Sym; 1 path(s) -/
def C10.V3.mulM44 {α : Type} [Add α] [Mul α] [Div α] (v : V3 α) (m : M44 α) : (V3 α) :=
  let t250 := ((((v.x * m.x03) + (v.y * m.x13)) + (v.z * m.x23)) + m.x33)
  ⟨(((((v.x * m.x00) + (v.y * m.x10)) + (v.z * m.x20)) + m.x30) / t250), (((((v.x * m.x01) + (v.y * m.x11)) + (v.z * m.x21)) + m.x31) / t250), (((((v.x * m.x02) + (v.y * m.x12)) + (v.z * m.x22)) + m.x32) / t250)⟩

/-- extracted from the C++ template at T = Sym; 1 path(s) -/
def C10.M44.multDirMatrix {α : Type} [Add α] [Mul α] (m : M44 α) (v : V3 α) : (V3 α) :=
  ⟨(((v.x * m.x00) + (v.y * m.x10)) + (v.z * m.x20)), (((v.x * m.x01) + (v.y * m.x11)) + (v.z * m.x21)), (((v.x * m.x02) + (v.y * m.x12)) + (v.z * m.x22))⟩

/-- extracted from the C++ template at T = Sym; 1 path(s) -/
def C10.M33.mul {α : Type} [Add α] [Mul α] (a : M33 α) (b : M33 α) : (M33 α) :=
  ⟨(((a.x00 * b.x00) + (a.x01 * b.x10)) + (a.x02 * b.x20)), (((a.x00 * b.x01) + (a.x01 * b.x11)) + (a.x02 * b.x21)), (((a.x00 * b.x02) + (a.x01 * b.x12)) + (a.x02 * b.x22)), (((a.x10 * b.x00) + (a.x11 * b.x10)) + (a.x12 * b.x20)), (((a.x10 * b.x01) + (a.x11 * b.x11)) + (a.x12 * b.x21)), (((a.x10 * b.x02) + (a.x11 * b.x12)) + (a.x12 * b.x22)), (((a.x20 * b.x00) + (a.x21 * b.x10)) + (a.x22 * b.x20)), (((a.x20 * b.x01) + (a.x21 * b.x11)) + (a.x22 * b.x21)), (((a.x20 * b.x02) + (a.x21 * b.x12)) + (a.x22 * b.x22))⟩

/-- extracted from the C++ template at T = Sym; 1 path(s) -/
def C10.M44.mul {α : Type} [Add α] [Mul α] (a : M44 α) (b : M44 α) : (M44 α) :=
  ⟨((((a.x00 * b.x00) + (a.x01 * b.x10)) + (a.x02 * b.x20)) + (a.x03 * b.x30)), ((((a.x00 * b.x01) + (a.x01 * b.x11)) + (a.x02 * b.x21)) + (a.x03 * b.x31)), ((((a.x00 * b.x02) + (a.x01 * b.x12)) + (a.x02 * b.x22)) + (a.x03 * b.x32)), ((((a.x00 * b.x03) + (a.x01 * b.x13)) + (a.x02 * b.x23)) + (a.x03 * b.x33)), ((((a.x10 * b.x00) + (a.x11 * b.x10)) + (a.x12 * b.x20)) + (a.x13 * b.x30)), ((((a.x10 * b.x01) + (a.x11 * b.x11)) + (a.x12 * b.x21)) + (a.x13 * b.x31)), ((((a.x10 * b.x02) + (a.x11 * b.x12)) + (a.x12 * b.x22)) + (a.x13 * b.x32)), ((((a.x10 * b.x03) + (a.x11 * b.x13)) + (a.x12 * b.x23)) + (a.x13 * b.x33)), ((((a.x20 * b.x00) + (a.x21 * b.x10)) + (a.x22 * b.x20)) + (a.x23 * b.x30)), ((((a.x20 * b.x01) + (a.x21 * b.x11)) + (a.x22 * b.x21)) + (a.x23 * b.x31)), ((((a.x20 * b.x02) + (a.x21 * b.x12)) + (a.x22 * b.x22)) + (a.x23 * b.x32)), ((((a.x20 * b.x03) + (a.x21 * b.x13)) + (a.x22 * b.x23)) + (a.x23 * b.x33)), ((((a.x30 * b.x00) + (a.x31 * b.x10)) + (a.x32 * b.x20)) + (a.x33 * b.x30)), ((((a.x30 * b.x01) + (a.x31 * b.x11)) + (a.x32 * b.x21)) + (a.x33 * b.x31)), ((((a.x30 * b.x02) + (a.x31 * b.x12)) + (a.x32 * b.x22)) + (a.x33 * b.x32)), ((((a.x30 * b.x03) + (a.x31 * b.x13)) + (a.x32 * b.x23)) + (a.x33 * b.x33))⟩

/-- extracted from the C++ template at T = Sym; 1 path(s) -/
def C10.M33.transposed {α : Type} (a : M33 α) : (M33 α) :=
  ⟨a.x00, a.x10, a.x20, a.x01, a.x11, a.x21, a.x02, a.x12, a.x22⟩

/-- extracted from the C++ template at T = Sym; 1 path(s) -/
def C10.M33.determinant {α : Type} [Add α] [Sub α] [Mul α] (a : M33 α) : α :=
  (((a.x00 * ((a.x11 * a.x22) - (a.x12 * a.x21))) + (a.x01 * ((a.x12 * a.x20) - (a.x10 * a.x22)))) + (a.x02 * ((a.x10 * a.x21) - (a.x11 * a.x20))))

/-- extracted from the C++ template at T = Sym; 1 path(s) -/
def C10.Quat.mul {α : Type} [Add α] [Sub α] [Mul α] (a : Quat α) (b : Quat α) : (Quat α) :=
  ⟨((a.r * b.r) - (((a.v.x * b.v.x) + (a.v.y * b.v.y)) + (a.v.z * b.v.z))), ⟨(((a.r * b.v.x) + (a.v.x * b.r)) + ((a.v.y * b.v.z) - (a.v.z * b.v.y))), (((a.r * b.v.y) + (a.v.y * b.r)) + ((a.v.z * b.v.x) - (a.v.x * b.v.z))), (((a.r * b.v.z) + (a.v.z * b.r)) + ((a.v.x * b.v.y) - (a.v.y * b.v.x)))⟩⟩

/-- extracted from the C++ template at T = Sym; 1 path(s) -/
def C10.Quat.conj {α : Type} [Neg α] (q : Quat α) : (Quat α) :=
  ⟨q.r, ⟨(-q.v.x), (-q.v.y), (-q.v.z)⟩⟩

/-- extracted from the C++ template at T = Sym; 1 path(s) -/
def C10.Quat.neg {α : Type} [Neg α] (q : Quat α) : (Quat α) :=
  ⟨(-q.r), ⟨(-q.v.x), (-q.v.y), (-q.v.z)⟩⟩

/-- extracted from the C++ template at T = Sym; 1 path(s) -/
def C10.Quat.inverse {α : Type} [Add α] [Mul α] [Div α] [Neg α] (q : Quat α) : (Quat α) :=
  let t455 := ((q.r * q.r) + (((q.v.x * q.v.x) + (q.v.y * q.v.y)) + (q.v.z * q.v.z)))
  ⟨(q.r / t455), ⟨((-q.v.x) / t455), ((-q.v.y) / t455), ((-q.v.z) / t455)⟩⟩

/-- extracted from the C++ template at T = Sym; 1 path(s) -/
def C10.Quat.invert {α : Type} [Add α] [Mul α] [Div α] [Neg α] (q : Quat α) : (Quat α) :=
  let t455 := ((q.r * q.r) + (((q.v.x * q.v.x) + (q.v.y * q.v.y)) + (q.v.z * q.v.z)))
  ⟨(q.r / t455), ⟨((-q.v.x) / t455), ((-q.v.y) / t455), ((-q.v.z) / t455)⟩⟩

/-- extracted from the C++ template at T = Sym; 1 path(s) -/
def C10.Quat.invertRet {α : Type} [Add α] [Mul α] [Div α] [Neg α] (q : Quat α) : (Quat α) :=
  let t455 := ((q.r * q.r) + (((q.v.x * q.v.x) + (q.v.y * q.v.y)) + (q.v.z * q.v.z)))
  ⟨(q.r / t455), ⟨((-q.v.x) / t455), ((-q.v.y) / t455), ((-q.v.z) / t455)⟩⟩

/-- extracted from the C++ template at T = Sym; 1 path(s) -/
def C10.Quat.div {α : Type} [Add α] [Sub α] [Mul α] [Div α] [Neg α] (a : Quat α) (b : Quat α) : (Quat α) :=
  let t466 := ((b.r * b.r) + (((b.v.x * b.v.x) + (b.v.y * b.v.y)) + (b.v.z * b.v.z)))
  let t470 := ((-b.v.z) / t466)
  let t471 := ((-b.v.y) / t466)
  let t472 := ((-b.v.x) / t466)
  let t473 := (b.r / t466)
  ⟨((a.r * t473) - (((a.v.x * t472) + (a.v.y * t471)) + (a.v.z * t470))), ⟨(((a.r * t472) + (a.v.x * t473)) + ((a.v.y * t470) - (a.v.z * t471))), (((a.r * t471) + (a.v.y * t473)) + ((a.v.z * t472) - (a.v.x * t470))), (((a.r * t470) + (a.v.z * t473)) + ((a.v.x * t471) - (a.v.y * t472)))⟩⟩

/-- extracted from the C++ template at T = Sym; 1 path(s) -/
def C10.Quat.divAssign {α : Type} [Add α] [Sub α] [Mul α] [Div α] [Neg α] (a : Quat α) (b : Quat α) : (Quat α) :=
  let t466 := ((b.r * b.r) + (((b.v.x * b.v.x) + (b.v.y * b.v.y)) + (b.v.z * b.v.z)))
  let t470 := ((-b.v.z) / t466)
  let t471 := ((-b.v.y) / t466)
  let t472 := ((-b.v.x) / t466)
  let t473 := (b.r / t466)
  ⟨((a.r * t473) - (((a.v.x * t472) + (a.v.y * t471)) + (a.v.z * t470))), ⟨(((a.r * t472) + (a.v.x * t473)) + ((a.v.y * t470) - (a.v.z * t471))), (((a.r * t471) + (a.v.y * t473)) + ((a.v.z * t472) - (a.v.x * t470))), (((a.r * t470) + (a.v.z * t473)) + ((a.v.x * t471) - (a.v.y * t472)))⟩⟩

/-- extracted from the C++ template at T = Sym; 1 path(s) -/
def C10.Quat.dot4 {α : Type} [Add α] [Mul α] (a : Quat α) (b : Quat α) : α :=
  ((a.r * b.r) + (((a.v.x * b.v.x) + (a.v.y * b.v.y)) + (a.v.z * b.v.z)))

/-- extracted from the C++ template at T = Sym; 1 path(s) -/
def C10.Quat.length {α : Type} [Add α] [Mul α] (sqrt : α → α) (q : Quat α) : α :=
  (sqrt ((q.r * q.r) + (((q.v.x * q.v.x) + (q.v.y * q.v.y)) + (q.v.z * q.v.z))))

/-- extracted from the C++ template at T = Sym; 2 path(s) -/
def C10.Quat.normalize {α : Type} [Add α] [Mul α] [Div α] [DecidableEq α] [OfNat α 0] [OfNat α 1] (sqrt : α → α) (q : Quat α) : (Quat α) :=
  let t503 := (sqrt ((q.r * q.r) + (((q.v.x * q.v.x) + (q.v.y * q.v.y)) + (q.v.z * q.v.z))))
  if t503 = (0 : α) then
    ⟨(1 : α), ⟨(0 : α), (0 : α), (0 : α)⟩⟩
  else
    ⟨(q.r / t503), ⟨(q.v.x / t503), (q.v.y / t503), (q.v.z / t503)⟩⟩

/-- extracted from the C++ template at T = Sym; 2 path(s) -/
def C10.Quat.normalized {α : Type} [Add α] [Mul α] [Div α] [DecidableEq α] [OfNat α 0] [OfNat α 1] (sqrt : α → α) (q : Quat α) : (Quat α) :=
  let t503 := (sqrt ((q.r * q.r) + (((q.v.x * q.v.x) + (q.v.y * q.v.y)) + (q.v.z * q.v.z))))
  if t503 = (0 : α) then
    ⟨(1 : α), ⟨(0 : α), (0 : α), (0 : α)⟩⟩
  else
    ⟨(q.r / t503), ⟨(q.v.x / t503), (q.v.y / t503), (q.v.z / t503)⟩⟩

/-- extracted from the C++ template at T = Sym; 4 path(s) -/
def C10.Quat.log {α : Type} [Mul α] [Div α] [Neg α] [LT α] [LE α] [DecidableLT α] [DecidableLE α] [DecidableEq α] [OfNat α 0] [OfNat α 1] (tmax : α) (sin : α → α) (acos : α → α) (q : Quat α) : (Quat α) :=
  let t509 := (acos (smin q.r (1 : α)))
  let t510 := (sin t509)
  let t511 := (sabs t510)
  let t513 := (tmax * t511)
  let t514 := (sabs t509)
  let t518 := (t509 / t510)
  let t519 := (q.v.z * t518)
  let t520 := (q.v.y * t518)
  let t521 := (q.v.x * t518)
  if t509 = (0 : α) then
    ⟨(0 : α), ⟨q.v.x, q.v.y, q.v.z⟩⟩
  else
    if t511 < (1 : α) then
      if t513 ≤ t514 then
        ⟨(0 : α), ⟨(q.v.x * (1 : α)), (q.v.y * (1 : α)), (q.v.z * (1 : α))⟩⟩
      else
        ⟨(0 : α), ⟨t521, t520, t519⟩⟩
    else
      ⟨(0 : α), ⟨t521, t520, t519⟩⟩

/-- extracted from the C++ template at T = Sym; 3 path(s) -/
def C10.Quat.exp {α : Type} [Add α] [Mul α] [Div α] [Neg α] [LT α] [LE α] [DecidableLT α] [DecidableLE α] [DecidableEq α] [OfNat α 0] [OfNat α 1] [OfNat α 2] (tmin : α) (tmax : α) (sqrt : α → α) (sin : α → α) (cos : α → α) (q : Quat α) : (Quat α) :=
  let t522 := (V3.length tmin sqrt ⟨q.v.x, q.v.y, q.v.z⟩)
  let t523 := (sin t522)
  let t524 := (sabs t522)
  let t525 := (tmax * t524)
  let t526 := (sabs t523)
  let t527 := (cos t522)
  let t528 := (t523 / t522)
  let t529 := (q.v.z * t528)
  let t530 := (q.v.y * t528)
  let t531 := (q.v.x * t528)
  if t524 < (1 : α) then
    if t525 ≤ t526 then
      ⟨t527, ⟨(q.v.x * (1 : α)), (q.v.y * (1 : α)), (q.v.z * (1 : α))⟩⟩
    else
      ⟨t527, ⟨t531, t530, t529⟩⟩
  else
    ⟨t527, ⟨t531, t530, t529⟩⟩

/-- extracted from the C++ template at T = Sym; 1 path(s) -/
def C10.Quat.angle {α : Type} [Add α] [Mul α] [Div α] [Neg α] [LT α] [LE α] [DecidableLT α] [DecidableLE α] [DecidableEq α] [OfNat α 0] [OfNat α 2] (tmin : α) (sqrt : α → α) (atan2 : α → α → α) (q : Quat α) : α :=
  ((2 : α) * (atan2 (V3.length tmin sqrt ⟨q.v.x, q.v.y, q.v.z⟩) q.r))

/-- extracted from the C++ template at T = Sym; 2 path(s) -/
def C10.Quat.axis {α : Type} [Add α] [Mul α] [Div α] [Neg α] [LT α] [LE α] [DecidableLT α] [DecidableLE α] [DecidableEq α] [OfNat α 0] [OfNat α 2] (tmin : α) (sqrt : α → α) (q : Quat α) : (V3 α) :=
  let t522 := (V3.length tmin sqrt ⟨q.v.x, q.v.y, q.v.z⟩)
  if t522 = (0 : α) then
    ⟨(0 : α), (0 : α), (0 : α)⟩
  else
    ⟨(q.v.x / t522), (q.v.y / t522), (q.v.z / t522)⟩

/-- extracted from the C++ template at T = Sym; 2 path(s) -/
def C10.Quat.setAxisAngle {α : Type} [Add α] [Mul α] [Div α] [Neg α] [LT α] [LE α] [DecidableLT α] [DecidableLE α] [DecidableEq α] [OfNat α 0] [OfNat α 2] (tmin : α) (sqrt : α → α) (sin : α → α) (cos : α → α) (q : Quat α) (axis : V3 α) (radians : α) : (Quat α) :=
  let t541 := (radians / (2 : α))
  let t542 := (cos t541)
  let t543 := (sin t541)
  let t544 := (V3.length tmin sqrt ⟨axis.x, axis.y, axis.z⟩)
  let t545 := ((0 : α) * t543)
  if t544 = (0 : α) then
    ⟨t542, ⟨t545, t545, t545⟩⟩
  else
    ⟨t542, ⟨((axis.x / t544) * t543), ((axis.y / t544) * t543), ((axis.z / t544) * t543)⟩⟩

/-- extracted from the C++ template at T = Sym; 79 path(s) -/
def C10.Quat.setRotation {α : Type} [Add α] [Sub α] [Mul α] [Div α] [Neg α] [LT α] [LE α] [DecidableLT α] [DecidableLE α] [DecidableEq α] [OfNat α 0] [OfNat α 1] [OfNat α 2] (tmin : α) (sqrt : α → α) (q : Quat α) (vfrom : V3 α) (vto : V3 α) : (Quat α) :=
  let t558 := (V3.length tmin sqrt ⟨vfrom.x, vfrom.y, vfrom.z⟩)
  let t559 := (V3.length tmin sqrt ⟨vto.x, vto.y, vto.z⟩)
  let t560 := ((0 : α) * (0 : α))
  let t562 := ((t560 + t560) + t560)
  let t563 := ((0 : α) + (0 : α))
  let t564 := (V3.length tmin sqrt ⟨t563, t563, t563⟩)
  let t565 := (t560 - t560)
  let t566 := (t563 / t564)
  let t567 := ((0 : α) * t566)
  let t569 := ((t567 + t567) + t567)
  let t570 := (t567 - t567)
  let t571 := (t565 * t565)
  let t575 := ((t562 * t562) - ((t571 + t571) + t571))
  let t580 := (((t562 * t565) + (t565 * t562)) + (t571 - t571))
  let t581 := (t566 * t566)
  let t583 := ((t581 + t581) + t581)
  let t584 := ((0 : α) * (1 : α))
  let t585 := (t560 - t584)
  let t586 := (t584 - t560)
  let t587 := (V3.length tmin sqrt ⟨t565, t586, t585⟩)
  let t588 := (t585 / t587)
  let t589 := (t586 / t587)
  let t590 := (t565 / t587)
  let t591 := ((0 : α) + t566)
  let t592 := (V3.length tmin sqrt ⟨t591, t591, t591⟩)
  let t593 := (t566 + (0 : α))
  let t594 := (V3.length tmin sqrt ⟨t593, t593, t593⟩)
  let t595 := (t566 * (0 : α))
  let t597 := ((t595 + t595) + t595)
  let t598 := (t595 - t595)
  let t599 := (t565 * t598)
  let t608 := (((t562 * t598) + (t565 * t597)) + (t599 - t599))
  let t610 := (t566 * (t593 / t594))
  let t612 := ((t610 + t610) + t610)
  let t613 := (t610 - t610)
  let t614 := (t565 * t613)
  let t623 := (((t562 * t613) + (t565 * t612)) + (t614 - t614))
  let t625 := ((0 : α) * (t591 / t592))
  let t627 := ((t625 + t625) + t625)
  let t628 := (t625 - t625)
  let t629 := (t628 * t598)
  let t638 := (((t627 * t598) + (t628 * t597)) + (t629 - t629))
  let t639 := (t628 * t613)
  let t648 := (((t627 * t613) + (t628 * t612)) + (t639 - t639))
  let t649 := (vto.z / t559)
  let t650 := (vto.y / t559)
  let t651 := (vto.x / t559)
  let t656 := ((((0 : α) * t651) + ((0 : α) * t650)) + ((0 : α) * t649))
  let t657 := ((0 : α) + t649)
  let t658 := ((0 : α) + t650)
  let t659 := ((0 : α) + t651)
  let t660 := (V3.length tmin sqrt ⟨t659, t658, t657⟩)
  let t661 := (t657 / t660)
  let t662 := (t658 / t660)
  let t663 := (t659 / t660)
  let t664 := ((0 : α) * t661)
  let t665 := ((0 : α) * t662)
  let t666 := ((0 : α) * t663)
  let t668 := ((t666 + t665) + t664)
  let t669 := (t665 - t666)
  let t670 := (t666 - t664)
  let t671 := (t664 - t665)
  let t672 := (t570 * t565)
  let t681 := (((t569 * t565) + (t570 * t562)) + (t672 - t672))
  let t686 := (((t663 * t663) + (t662 * t662)) + (t661 * t661))
  let t687 := ((0 : α) + t661)
  let t688 := ((0 : α) + t662)
  let t689 := ((0 : α) + t663)
  let t690 := (V3.length tmin sqrt ⟨t689, t688, t687⟩)
  let t691 := (t661 + t649)
  let t692 := (t662 + t650)
  let t693 := (t663 + t651)
  let t694 := (V3.length tmin sqrt ⟨t693, t692, t691⟩)
  let t695 := (t661 * (0 : α))
  let t696 := (t662 * (0 : α))
  let t697 := (t663 * (0 : α))
  let t699 := ((t697 + t696) + t695)
  let t700 := (t697 - t696)
  let t701 := (t695 - t697)
  let t702 := (t696 - t695)
  let t703 := (t565 * t700)
  let t704 := (t565 * t701)
  let t705 := (t565 * t702)
  let t713 := (t565 * t699)
  let t723 := (t691 / t694)
  let t724 := (t692 / t694)
  let t725 := (t693 / t694)
  let t730 := (((t663 * t725) + (t662 * t724)) + (t661 * t723))
  let t733 := ((t663 * t724) - (t662 * t725))
  let t736 := ((t661 * t725) - (t663 * t723))
  let t739 := ((t662 * t723) - (t661 * t724))
  let t740 := (t565 * t733)
  let t741 := (t565 * t736)
  let t742 := (t565 * t739)
  let t750 := (t565 * t730)
  let t763 := ((0 : α) * (t687 / t690))
  let t764 := ((0 : α) * (t688 / t690))
  let t765 := ((0 : α) * (t689 / t690))
  let t767 := ((t765 + t764) + t763)
  let t768 := (t764 - t765)
  let t769 := (t765 - t763)
  let t770 := (t763 - t764)
  let t827 := (vfrom.z / t558)
  let t828 := (vfrom.y / t558)
  let t829 := (vfrom.x / t558)
  let t830 := (t827 * (0 : α))
  let t831 := (t828 * (0 : α))
  let t832 := (t829 * (0 : α))
  let t834 := ((t832 + t831) + t830)
  let t835 := (t827 + (0 : α))
  let t836 := (t828 + (0 : α))
  let t837 := (t829 + (0 : α))
  let t838 := (V3.length tmin sqrt ⟨t837, t836, t835⟩)
  let t839 := (t832 - t831)
  let t840 := (t830 - t832)
  let t841 := (t831 - t830)
  let t842 := (t835 / t838)
  let t843 := (t836 / t838)
  let t844 := (t837 / t838)
  let t849 := (((t829 * t844) + (t828 * t843)) + (t827 * t842))
  let t852 := ((t829 * t843) - (t828 * t844))
  let t855 := ((t827 * t844) - (t829 * t842))
  let t858 := ((t828 * t842) - (t827 * t843))
  let t859 := (t827 * t827)
  let t860 := (t828 * t828)
  let t861 := (t829 * t829)
  let t862 := (t828 * (1 : α))
  let t863 := (t832 - t862)
  let t864 := (t827 * (1 : α))
  let t865 := (t864 - t832)
  let t866 := (V3.length tmin sqrt ⟨t841, t865, t863⟩)
  let t867 := (t863 / t866)
  let t868 := (t865 / t866)
  let t869 := (t841 / t866)
  let t870 := (t829 * (1 : α))
  let t871 := (t870 - t831)
  let t872 := (t831 - t864)
  let t873 := (V3.length tmin sqrt ⟨t872, t840, t871⟩)
  let t874 := (t871 / t873)
  let t875 := (t840 / t873)
  let t876 := (t872 / t873)
  let t877 := (t830 - t870)
  let t878 := (t862 - t830)
  let t879 := (V3.length tmin sqrt ⟨t878, t877, t839⟩)
  let t880 := (t839 / t879)
  let t881 := (t877 / t879)
  let t882 := (t878 / t879)
  let t883 := (t839 * t565)
  let t884 := (t840 * t565)
  let t885 := (t841 * t565)
  let t889 := ((t834 * t562) - ((t885 + t884) + t883))
  let t896 := (t834 * t565)
  let t900 := ((t896 + (t839 * t562)) + (t885 - t884))
  let t901 := ((t896 + (t840 * t562)) + (t883 - t885))
  let t902 := ((t896 + (t841 * t562)) + (t884 - t883))
  let t903 := (t839 * t570)
  let t904 := (t840 * t570)
  let t905 := (t841 * t570)
  let t916 := (t834 * t570)
  let t927 := (((t844 * t844) + (t843 * t843)) + (t842 * t842))
  let t928 := (t827 + t842)
  let t929 := (t828 + t843)
  let t930 := (t829 + t844)
  let t931 := (V3.length tmin sqrt ⟨t930, t929, t928⟩)
  let t932 := (t842 + (0 : α))
  let t933 := (t843 + (0 : α))
  let t934 := (t844 + (0 : α))
  let t935 := (V3.length tmin sqrt ⟨t934, t933, t932⟩)
  let t936 := (t842 * (0 : α))
  let t937 := (t843 * (0 : α))
  let t938 := (t844 * (0 : α))
  let t940 := ((t938 + t937) + t936)
  let t941 := (t938 - t937)
  let t942 := (t936 - t938)
  let t943 := (t937 - t936)
  let t972 := (t932 / t935)
  let t973 := (t933 / t935)
  let t974 := (t934 / t935)
  let t979 := (((t844 * t974) + (t843 * t973)) + (t842 * t972))
  let t982 := ((t844 * t973) - (t843 * t974))
  let t985 := ((t842 * t974) - (t844 * t972))
  let t988 := ((t843 * t972) - (t842 * t973))
  let t1017 := (t928 / t931)
  let t1018 := (t929 / t931)
  let t1019 := (t930 / t931)
  let t1024 := (((t829 * t1019) + (t828 * t1018)) + (t827 * t1017))
  let t1027 := ((t829 * t1018) - (t828 * t1019))
  let t1030 := ((t827 * t1019) - (t829 * t1017))
  let t1033 := ((t828 * t1017) - (t827 * t1018))
  let t1094 := (((t829 * t651) + (t828 * t650)) + (t827 * t649))
  let t1095 := (t827 + t649)
  let t1096 := (t828 + t650)
  let t1097 := (t829 + t651)
  let t1098 := (V3.length tmin sqrt ⟨t1097, t1096, t1095⟩)
  let t1099 := (t1095 / t1098)
  let t1100 := (t1096 / t1098)
  let t1101 := (t1097 / t1098)
  let t1144 := (t852 * t565)
  let t1145 := (t855 * t565)
  let t1146 := (t858 * t565)
  let t1157 := (t849 * t565)
  let t1196 := (((t1101 * t1101) + (t1100 * t1100)) + (t1099 * t1099))
  let t1197 := (t827 + t1099)
  let t1198 := (t828 + t1100)
  let t1199 := (t829 + t1101)
  let t1200 := (V3.length tmin sqrt ⟨t1199, t1198, t1197⟩)
  let t1201 := (t1099 + t649)
  let t1202 := (t1100 + t650)
  let t1203 := (t1101 + t651)
  let t1204 := (V3.length tmin sqrt ⟨t1203, t1202, t1201⟩)
  let t1205 := (t1099 * (0 : α))
  let t1206 := (t1100 * (0 : α))
  let t1207 := (t1101 * (0 : α))
  let t1209 := ((t1207 + t1206) + t1205)
  let t1210 := (t1207 - t1206)
  let t1211 := (t1205 - t1207)
  let t1212 := (t1206 - t1205)
  let t1241 := (t1201 / t1204)
  let t1242 := (t1202 / t1204)
  let t1243 := (t1203 / t1204)
  let t1248 := (((t1101 * t1243) + (t1100 * t1242)) + (t1099 * t1241))
  let t1251 := ((t1101 * t1242) - (t1100 * t1243))
  let t1254 := ((t1099 * t1243) - (t1101 * t1241))
  let t1257 := ((t1100 * t1241) - (t1099 * t1242))
  let t1286 := (t1197 / t1200)
  let t1287 := (t1198 / t1200)
  let t1288 := (t1199 / t1200)
  let t1293 := (((t829 * t1288) + (t828 * t1287)) + (t827 * t1286))
  let t1296 := ((t829 * t1287) - (t828 * t1288))
  let t1299 := ((t827 * t1288) - (t829 * t1286))
  let t1302 := ((t828 * t1286) - (t827 * t1287))
  if t558 = (0 : α) then
    if t559 = (0 : α) then
      if (0 : α) ≤ t562 then
        if t564 = (0 : α) then
          ⟨t562, ⟨t565, t565, t565⟩⟩
        else
          ⟨t569, ⟨t570, t570, t570⟩⟩
      else
        if t564 = (0 : α) then
          ⟨t575, ⟨t580, t580, t580⟩⟩
        else
          if t583 = (0 : α) then
            if t587 = (0 : α) then
              ⟨(0 : α), ⟨(0 : α), (0 : α), (0 : α)⟩⟩
            else
              ⟨(0 : α), ⟨t590, t589, t588⟩⟩
          else
            if t592 = (0 : α) then
              if t594 = (0 : α) then
                ⟨((t562 * t597) - ((t599 + t599) + t599)), ⟨t608, t608, t608⟩⟩
              else
                ⟨((t562 * t612) - ((t614 + t614) + t614)), ⟨t623, t623, t623⟩⟩
            else
              if t594 = (0 : α) then
                ⟨((t627 * t597) - ((t629 + t629) + t629)), ⟨t638, t638, t638⟩⟩
              else
                ⟨((t627 * t612) - ((t639 + t639) + t639)), ⟨t648, t648, t648⟩⟩
    else
      if (0 : α) ≤ t656 then
        if t660 = (0 : α) then
          ⟨t562, ⟨t565, t565, t565⟩⟩
        else
          ⟨t668, ⟨t671, t670, t669⟩⟩
      else
        if t660 = (0 : α) then
          if t562 = (0 : α) then
            if t587 = (0 : α) then
              ⟨(0 : α), ⟨(0 : α), (0 : α), (0 : α)⟩⟩
            else
              ⟨(0 : α), ⟨t590, t589, t588⟩⟩
          else
            if t564 = (0 : α) then
              ⟨t575, ⟨t580, t580, t580⟩⟩
            else
              ⟨((t569 * t562) - ((t672 + t672) + t672)), ⟨t681, t681, t681⟩⟩
        else
          if t686 = (0 : α) then
            if t587 = (0 : α) then
              ⟨(0 : α), ⟨(0 : α), (0 : α), (0 : α)⟩⟩
            else
              ⟨(0 : α), ⟨t590, t589, t588⟩⟩
          else
            if t690 = (0 : α) then
              if t694 = (0 : α) then
                ⟨((t562 * t699) - ((t705 + t704) + t703)), ⟨(((t562 * t702) + t713) + (t703 - t704)), (((t562 * t701) + t713) + (t705 - t703)), (((t562 * t700) + t713) + (t704 - t705))⟩⟩
              else
                ⟨((t562 * t730) - ((t742 + t741) + t740)), ⟨(((t562 * t739) + t750) + (t740 - t741)), (((t562 * t736) + t750) + (t742 - t740)), (((t562 * t733) + t750) + (t741 - t742))⟩⟩
            else
              if t694 = (0 : α) then
                ⟨((t767 * t699) - (((t770 * t702) + (t769 * t701)) + (t768 * t700))), ⟨(((t767 * t702) + (t770 * t699)) + ((t769 * t700) - (t768 * t701))), (((t767 * t701) + (t769 * t699)) + ((t768 * t702) - (t770 * t700))), (((t767 * t700) + (t768 * t699)) + ((t770 * t701) - (t769 * t702)))⟩⟩
              else
                ⟨((t767 * t730) - (((t770 * t739) + (t769 * t736)) + (t768 * t733))), ⟨(((t767 * t739) + (t770 * t730)) + ((t769 * t733) - (t768 * t736))), (((t767 * t736) + (t769 * t730)) + ((t768 * t739) - (t770 * t733))), (((t767 * t733) + (t768 * t730)) + ((t770 * t736) - (t769 * t739)))⟩⟩
  else
    if t559 = (0 : α) then
      if (0 : α) ≤ t834 then
        if t838 = (0 : α) then
          ⟨t834, ⟨t841, t840, t839⟩⟩
        else
          ⟨t849, ⟨t858, t855, t852⟩⟩
      else
        if t838 = (0 : α) then
          if t562 = (0 : α) then
            if t861 ≤ t860 then
              if t861 ≤ t859 then
                if t866 = (0 : α) then
                  ⟨(0 : α), ⟨(0 : α), (0 : α), (0 : α)⟩⟩
                else
                  ⟨(0 : α), ⟨t869, t868, t867⟩⟩
              else
                if t860 ≤ t859 then
                  if t873 = (0 : α) then
                    ⟨(0 : α), ⟨(0 : α), (0 : α), (0 : α)⟩⟩
                  else
                    ⟨(0 : α), ⟨t876, t875, t874⟩⟩
                else
                  if t879 = (0 : α) then
                    ⟨(0 : α), ⟨(0 : α), (0 : α), (0 : α)⟩⟩
                  else
                    ⟨(0 : α), ⟨t882, t881, t880⟩⟩
            else
              if t860 ≤ t859 then
                if t873 = (0 : α) then
                  ⟨(0 : α), ⟨(0 : α), (0 : α), (0 : α)⟩⟩
                else
                  ⟨(0 : α), ⟨t876, t875, t874⟩⟩
              else
                if t879 = (0 : α) then
                  ⟨(0 : α), ⟨(0 : α), (0 : α), (0 : α)⟩⟩
                else
                  ⟨(0 : α), ⟨t882, t881, t880⟩⟩
          else
            if t564 = (0 : α) then
              ⟨t889, ⟨t902, t901, t900⟩⟩
            else
              ⟨((t834 * t569) - ((t905 + t904) + t903)), ⟨((t916 + (t841 * t569)) + (t904 - t903)), ((t916 + (t840 * t569)) + (t903 - t905)), ((t916 + (t839 * t569)) + (t905 - t904))⟩⟩
        else
          if t927 = (0 : α) then
            if t861 ≤ t860 then
              if t861 ≤ t859 then
                if t866 = (0 : α) then
                  ⟨(0 : α), ⟨(0 : α), (0 : α), (0 : α)⟩⟩
                else
                  ⟨(0 : α), ⟨t869, t868, t867⟩⟩
              else
                if t860 ≤ t859 then
                  if t873 = (0 : α) then
                    ⟨(0 : α), ⟨(0 : α), (0 : α), (0 : α)⟩⟩
                  else
                    ⟨(0 : α), ⟨t876, t875, t874⟩⟩
                else
                  if t879 = (0 : α) then
                    ⟨(0 : α), ⟨(0 : α), (0 : α), (0 : α)⟩⟩
                  else
                    ⟨(0 : α), ⟨t882, t881, t880⟩⟩
            else
              if t860 ≤ t859 then
                if t873 = (0 : α) then
                  ⟨(0 : α), ⟨(0 : α), (0 : α), (0 : α)⟩⟩
                else
                  ⟨(0 : α), ⟨t876, t875, t874⟩⟩
              else
                if t879 = (0 : α) then
                  ⟨(0 : α), ⟨(0 : α), (0 : α), (0 : α)⟩⟩
                else
                  ⟨(0 : α), ⟨t882, t881, t880⟩⟩
          else
            if t931 = (0 : α) then
              if t935 = (0 : α) then
                ⟨((t834 * t940) - (((t841 * t943) + (t840 * t942)) + (t839 * t941))), ⟨(((t834 * t943) + (t841 * t940)) + ((t840 * t941) - (t839 * t942))), (((t834 * t942) + (t840 * t940)) + ((t839 * t943) - (t841 * t941))), (((t834 * t941) + (t839 * t940)) + ((t841 * t942) - (t840 * t943)))⟩⟩
              else
                ⟨((t834 * t979) - (((t841 * t988) + (t840 * t985)) + (t839 * t982))), ⟨(((t834 * t988) + (t841 * t979)) + ((t840 * t982) - (t839 * t985))), (((t834 * t985) + (t840 * t979)) + ((t839 * t988) - (t841 * t982))), (((t834 * t982) + (t839 * t979)) + ((t841 * t985) - (t840 * t988)))⟩⟩
            else
              if t935 = (0 : α) then
                ⟨((t1024 * t940) - (((t1033 * t943) + (t1030 * t942)) + (t1027 * t941))), ⟨(((t1024 * t943) + (t1033 * t940)) + ((t1030 * t941) - (t1027 * t942))), (((t1024 * t942) + (t1030 * t940)) + ((t1027 * t943) - (t1033 * t941))), (((t1024 * t941) + (t1027 * t940)) + ((t1033 * t942) - (t1030 * t943)))⟩⟩
              else
                ⟨((t1024 * t979) - (((t1033 * t988) + (t1030 * t985)) + (t1027 * t982))), ⟨(((t1024 * t988) + (t1033 * t979)) + ((t1030 * t982) - (t1027 * t985))), (((t1024 * t985) + (t1030 * t979)) + ((t1027 * t988) - (t1033 * t982))), (((t1024 * t982) + (t1027 * t979)) + ((t1033 * t985) - (t1030 * t988)))⟩⟩
    else
      if (0 : α) ≤ t1094 then
        if t1098 = (0 : α) then
          ⟨t834, ⟨t841, t840, t839⟩⟩
        else
          ⟨(((t829 * t1101) + (t828 * t1100)) + (t827 * t1099)), ⟨((t828 * t1099) - (t827 * t1100)), ((t827 * t1101) - (t829 * t1099)), ((t829 * t1100) - (t828 * t1101))⟩⟩
      else
        if t1098 = (0 : α) then
          if t562 = (0 : α) then
            if t861 ≤ t860 then
              if t861 ≤ t859 then
                if t866 = (0 : α) then
                  ⟨(0 : α), ⟨(0 : α), (0 : α), (0 : α)⟩⟩
                else
                  ⟨(0 : α), ⟨t869, t868, t867⟩⟩
              else
                if t860 ≤ t859 then
                  if t873 = (0 : α) then
                    ⟨(0 : α), ⟨(0 : α), (0 : α), (0 : α)⟩⟩
                  else
                    ⟨(0 : α), ⟨t876, t875, t874⟩⟩
                else
                  if t879 = (0 : α) then
                    ⟨(0 : α), ⟨(0 : α), (0 : α), (0 : α)⟩⟩
                  else
                    ⟨(0 : α), ⟨t882, t881, t880⟩⟩
            else
              if t860 ≤ t859 then
                if t873 = (0 : α) then
                  ⟨(0 : α), ⟨(0 : α), (0 : α), (0 : α)⟩⟩
                else
                  ⟨(0 : α), ⟨t876, t875, t874⟩⟩
              else
                if t879 = (0 : α) then
                  ⟨(0 : α), ⟨(0 : α), (0 : α), (0 : α)⟩⟩
                else
                  ⟨(0 : α), ⟨t882, t881, t880⟩⟩
          else
            if t838 = (0 : α) then
              if t660 = (0 : α) then
                ⟨t889, ⟨t902, t901, t900⟩⟩
              else
                ⟨((t834 * t668) - (((t841 * t671) + (t840 * t670)) + (t839 * t669))), ⟨(((t834 * t671) + (t841 * t668)) + ((t840 * t669) - (t839 * t670))), (((t834 * t670) + (t840 * t668)) + ((t839 * t671) - (t841 * t669))), (((t834 * t669) + (t839 * t668)) + ((t841 * t670) - (t840 * t671)))⟩⟩
            else
              if t660 = (0 : α) then
                ⟨((t849 * t562) - ((t1146 + t1145) + t1144)), ⟨((t1157 + (t858 * t562)) + (t1145 - t1144)), ((t1157 + (t855 * t562)) + (t1144 - t1146)), ((t1157 + (t852 * t562)) + (t1146 - t1145))⟩⟩
              else
                ⟨((t849 * t668) - (((t858 * t671) + (t855 * t670)) + (t852 * t669))), ⟨(((t849 * t671) + (t858 * t668)) + ((t855 * t669) - (t852 * t670))), (((t849 * t670) + (t855 * t668)) + ((t852 * t671) - (t858 * t669))), (((t849 * t669) + (t852 * t668)) + ((t858 * t670) - (t855 * t671)))⟩⟩
        else
          if t1196 = (0 : α) then
            if t861 ≤ t860 then
              if t861 ≤ t859 then
                if t866 = (0 : α) then
                  ⟨(0 : α), ⟨(0 : α), (0 : α), (0 : α)⟩⟩
                else
                  ⟨(0 : α), ⟨t869, t868, t867⟩⟩
              else
                if t860 ≤ t859 then
                  if t873 = (0 : α) then
                    ⟨(0 : α), ⟨(0 : α), (0 : α), (0 : α)⟩⟩
                  else
                    ⟨(0 : α), ⟨t876, t875, t874⟩⟩
                else
                  if t879 = (0 : α) then
                    ⟨(0 : α), ⟨(0 : α), (0 : α), (0 : α)⟩⟩
                  else
                    ⟨(0 : α), ⟨t882, t881, t880⟩⟩
            else
              if t860 ≤ t859 then
                if t873 = (0 : α) then
                  ⟨(0 : α), ⟨(0 : α), (0 : α), (0 : α)⟩⟩
                else
                  ⟨(0 : α), ⟨t876, t875, t874⟩⟩
              else
                if t879 = (0 : α) then
                  ⟨(0 : α), ⟨(0 : α), (0 : α), (0 : α)⟩⟩
                else
                  ⟨(0 : α), ⟨t882, t881, t880⟩⟩
          else
            if t1200 = (0 : α) then
              if t1204 = (0 : α) then
                ⟨((t834 * t1209) - (((t841 * t1212) + (t840 * t1211)) + (t839 * t1210))), ⟨(((t834 * t1212) + (t841 * t1209)) + ((t840 * t1210) - (t839 * t1211))), (((t834 * t1211) + (t840 * t1209)) + ((t839 * t1212) - (t841 * t1210))), (((t834 * t1210) + (t839 * t1209)) + ((t841 * t1211) - (t840 * t1212)))⟩⟩
              else
                ⟨((t834 * t1248) - (((t841 * t1257) + (t840 * t1254)) + (t839 * t1251))), ⟨(((t834 * t1257) + (t841 * t1248)) + ((t840 * t1251) - (t839 * t1254))), (((t834 * t1254) + (t840 * t1248)) + ((t839 * t1257) - (t841 * t1251))), (((t834 * t1251) + (t839 * t1248)) + ((t841 * t1254) - (t840 * t1257)))⟩⟩
            else
              if t1204 = (0 : α) then
                ⟨((t1293 * t1209) - (((t1302 * t1212) + (t1299 * t1211)) + (t1296 * t1210))), ⟨(((t1293 * t1212) + (t1302 * t1209)) + ((t1299 * t1210) - (t1296 * t1211))), (((t1293 * t1211) + (t1299 * t1209)) + ((t1296 * t1212) - (t1302 * t1210))), (((t1293 * t1210) + (t1296 * t1209)) + ((t1302 * t1211) - (t1299 * t1212)))⟩⟩
              else
                ⟨((t1293 * t1248) - (((t1302 * t1257) + (t1299 * t1254)) + (t1296 * t1251))), ⟨(((t1293 * t1257) + (t1302 * t1248)) + ((t1299 * t1251) - (t1296 * t1254))), (((t1293 * t1254) + (t1299 * t1248)) + ((t1296 * t1257) - (t1302 * t1251))), (((t1293 * t1251) + (t1296 * t1248)) + ((t1302 * t1254) - (t1299 * t1257)))⟩⟩

/-- extracted from the C++ template at T = Sym; 2 path(s) -/
def C10.sinx_over_x {α : Type} [Mul α] [Div α] [LT α] [DecidableLT α] [OfNat α 1] (teps : α) (sin : α → α) (x : α) : α :=
  let t1361 := (x * x)
  if t1361 < teps then
    (1 : α)
  else
    ((sin x) / x)

/-- extracted from the C++ template at T = Sym; 1 path(s) -/
def C10.Quat.angle4D {α : Type} [Add α] [Sub α] [Mul α] [OfNat α 2] (sqrt : α → α) (atan2 : α → α → α) (q1 : Quat α) (q2 : Quat α) : α :=
  let t1372 := (q1.v.z - q2.v.z)
  let t1373 := (q1.v.y - q2.v.y)
  let t1374 := (q1.v.x - q2.v.x)
  let t1375 := (q1.r - q2.r)
  let t1384 := (q1.v.z + q2.v.z)
  let t1385 := (q1.v.y + q2.v.y)
  let t1386 := (q1.v.x + q2.v.x)
  let t1387 := (q1.r + q2.r)
  ((2 : α) * (atan2 (sqrt ((t1375 * t1375) + (((t1374 * t1374) + (t1373 * t1373)) + (t1372 * t1372)))) (sqrt ((t1387 * t1387) + (((t1386 * t1386) + (t1385 * t1385)) + (t1384 * t1384))))))

/-- extracted from the C++ template at T = Sym; 16 path(s) -/
def C10.Quat.slerp {α : Type} [Add α] [Sub α] [Mul α] [Div α] [LT α] [DecidableLT α] [DecidableEq α] [OfNat α 0] [OfNat α 1] [OfNat α 2] (teps : α) (sqrt : α → α) (sin : α → α) (atan2 : α → α → α) (q1 : Quat α) (q2 : Quat α) (t : α) : (Quat α) :=
  let t1372 := (q1.v.z - q2.v.z)
  let t1373 := (q1.v.y - q2.v.y)
  let t1374 := (q1.v.x - q2.v.x)
  let t1375 := (q1.r - q2.r)
  let t1384 := (q1.v.z + q2.v.z)
  let t1385 := (q1.v.y + q2.v.y)
  let t1386 := (q1.v.x + q2.v.x)
  let t1387 := (q1.r + q2.r)
  let t1397 := ((2 : α) * (atan2 (sqrt ((t1375 * t1375) + (((t1374 * t1374) + (t1373 * t1373)) + (t1372 * t1372)))) (sqrt ((t1387 * t1387) + (((t1386 * t1386) + (t1385 * t1385)) + (t1384 * t1384))))))
  let t1399 := ((1 : α) - t)
  let t1400 := (t1397 * t1397)
  let t1401 := (t * t1397)
  let t1402 := (t1401 * t1401)
  let t1403 := ((1 : α) / (1 : α))
  let t1404 := (t1403 * t)
  let t1405 := (q2.v.z * t1404)
  let t1406 := (q2.v.y * t1404)
  let t1407 := (q2.v.x * t1404)
  let t1408 := (q2.r * t1404)
  let t1409 := (t1399 * t1397)
  let t1410 := (t1409 * t1409)
  let t1411 := (t1403 * t1399)
  let t1412 := (q1.v.z * t1411)
  let t1413 := (q1.v.y * t1411)
  let t1414 := (q1.v.x * t1411)
  let t1415 := (q1.r * t1411)
  let t1416 := (t1412 + t1405)
  let t1417 := (t1413 + t1406)
  let t1418 := (t1414 + t1407)
  let t1419 := (t1415 + t1408)
  let t1427 := (sqrt ((t1419 * t1419) + (((t1418 * t1418) + (t1417 * t1417)) + (t1416 * t1416))))
  let t1433 := ((sin t1409) / t1409)
  let t1435 := ((t1433 / (1 : α)) * t1399)
  let t1436 := (q1.v.z * t1435)
  let t1437 := (q1.v.y * t1435)
  let t1438 := (q1.v.x * t1435)
  let t1439 := (q1.r * t1435)
  let t1440 := (t1436 + t1405)
  let t1441 := (t1437 + t1406)
  let t1442 := (t1438 + t1407)
  let t1443 := (t1439 + t1408)
  let t1451 := (sqrt ((t1443 * t1443) + (((t1442 * t1442) + (t1441 * t1441)) + (t1440 * t1440))))
  let t1457 := ((sin t1401) / t1401)
  let t1459 := ((t1457 / (1 : α)) * t)
  let t1460 := (q2.v.z * t1459)
  let t1461 := (q2.v.y * t1459)
  let t1462 := (q2.v.x * t1459)
  let t1463 := (q2.r * t1459)
  let t1464 := (t1412 + t1460)
  let t1465 := (t1413 + t1461)
  let t1466 := (t1414 + t1462)
  let t1467 := (t1415 + t1463)
  let t1475 := (sqrt ((t1467 * t1467) + (((t1466 * t1466) + (t1465 * t1465)) + (t1464 * t1464))))
  let t1480 := (t1436 + t1460)
  let t1481 := (t1437 + t1461)
  let t1482 := (t1438 + t1462)
  let t1483 := (t1439 + t1463)
  let t1491 := (sqrt ((t1483 * t1483) + (((t1482 * t1482) + (t1481 * t1481)) + (t1480 * t1480))))
  let t1497 := ((sin t1397) / t1397)
  let t1498 := ((1 : α) / t1497)
  let t1499 := (t1498 * t)
  let t1500 := (q2.v.z * t1499)
  let t1501 := (q2.v.y * t1499)
  let t1502 := (q2.v.x * t1499)
  let t1503 := (q2.r * t1499)
  let t1504 := (t1498 * t1399)
  let t1505 := (q1.v.z * t1504)
  let t1506 := (q1.v.y * t1504)
  let t1507 := (q1.v.x * t1504)
  let t1508 := (q1.r * t1504)
  let t1509 := (t1505 + t1500)
  let t1510 := (t1506 + t1501)
  let t1511 := (t1507 + t1502)
  let t1512 := (t1508 + t1503)
  let t1520 := (sqrt ((t1512 * t1512) + (((t1511 * t1511) + (t1510 * t1510)) + (t1509 * t1509))))
  let t1526 := ((t1433 / t1497) * t1399)
  let t1527 := (q1.v.z * t1526)
  let t1528 := (q1.v.y * t1526)
  let t1529 := (q1.v.x * t1526)
  let t1530 := (q1.r * t1526)
  let t1531 := (t1527 + t1500)
  let t1532 := (t1528 + t1501)
  let t1533 := (t1529 + t1502)
  let t1534 := (t1530 + t1503)
  let t1542 := (sqrt ((t1534 * t1534) + (((t1533 * t1533) + (t1532 * t1532)) + (t1531 * t1531))))
  let t1548 := ((t1457 / t1497) * t)
  let t1549 := (q2.v.z * t1548)
  let t1550 := (q2.v.y * t1548)
  let t1551 := (q2.v.x * t1548)
  let t1552 := (q2.r * t1548)
  let t1553 := (t1505 + t1549)
  let t1554 := (t1506 + t1550)
  let t1555 := (t1507 + t1551)
  let t1556 := (t1508 + t1552)
  let t1564 := (sqrt ((t1556 * t1556) + (((t1555 * t1555) + (t1554 * t1554)) + (t1553 * t1553))))
  let t1569 := (t1527 + t1549)
  let t1570 := (t1528 + t1550)
  let t1571 := (t1529 + t1551)
  let t1572 := (t1530 + t1552)
  let t1580 := (sqrt ((t1572 * t1572) + (((t1571 * t1571) + (t1570 * t1570)) + (t1569 * t1569))))
  if t1400 < teps then
    if t1402 < teps then
      if t1410 < teps then
        if t1427 = (0 : α) then
          ⟨(1 : α), ⟨(0 : α), (0 : α), (0 : α)⟩⟩
        else
          ⟨(t1419 / t1427), ⟨(t1418 / t1427), (t1417 / t1427), (t1416 / t1427)⟩⟩
      else
        if t1451 = (0 : α) then
          ⟨(1 : α), ⟨(0 : α), (0 : α), (0 : α)⟩⟩
        else
          ⟨(t1443 / t1451), ⟨(t1442 / t1451), (t1441 / t1451), (t1440 / t1451)⟩⟩
    else
      if t1410 < teps then
        if t1475 = (0 : α) then
          ⟨(1 : α), ⟨(0 : α), (0 : α), (0 : α)⟩⟩
        else
          ⟨(t1467 / t1475), ⟨(t1466 / t1475), (t1465 / t1475), (t1464 / t1475)⟩⟩
      else
        if t1491 = (0 : α) then
          ⟨(1 : α), ⟨(0 : α), (0 : α), (0 : α)⟩⟩
        else
          ⟨(t1483 / t1491), ⟨(t1482 / t1491), (t1481 / t1491), (t1480 / t1491)⟩⟩
  else
    if t1402 < teps then
      if t1410 < teps then
        if t1520 = (0 : α) then
          ⟨(1 : α), ⟨(0 : α), (0 : α), (0 : α)⟩⟩
        else
          ⟨(t1512 / t1520), ⟨(t1511 / t1520), (t1510 / t1520), (t1509 / t1520)⟩⟩
      else
        if t1542 = (0 : α) then
          ⟨(1 : α), ⟨(0 : α), (0 : α), (0 : α)⟩⟩
        else
          ⟨(t1534 / t1542), ⟨(t1533 / t1542), (t1532 / t1542), (t1531 / t1542)⟩⟩
    else
      if t1410 < teps then
        if t1564 = (0 : α) then
          ⟨(1 : α), ⟨(0 : α), (0 : α), (0 : α)⟩⟩
        else
          ⟨(t1556 / t1564), ⟨(t1555 / t1564), (t1554 / t1564), (t1553 / t1564)⟩⟩
      else
        if t1580 = (0 : α) then
          ⟨(1 : α), ⟨(0 : α), (0 : α), (0 : α)⟩⟩
        else
          ⟨(t1572 / t1580), ⟨(t1571 / t1580), (t1570 / t1580), (t1569 / t1580)⟩⟩

/-- extracted from the C++ template at T = Sym; 32 path(s) -/
def C10.Quat.slerpShortestArc {α : Type} [Add α] [Sub α] [Mul α] [Div α] [Neg α] [LT α] [LE α] [DecidableLT α] [DecidableLE α] [DecidableEq α] [OfNat α 0] [OfNat α 1] [OfNat α 2] (teps : α) (sqrt : α → α) (sin : α → α) (atan2 : α → α → α) (q1 : Quat α) (q2 : Quat α) (t : α) : (Quat α) :=
  let t1372 := (q1.v.z - q2.v.z)
  let t1373 := (q1.v.y - q2.v.y)
  let t1374 := (q1.v.x - q2.v.x)
  let t1375 := (q1.r - q2.r)
  let t1384 := (q1.v.z + q2.v.z)
  let t1385 := (q1.v.y + q2.v.y)
  let t1386 := (q1.v.x + q2.v.x)
  let t1387 := (q1.r + q2.r)
  let t1397 := ((2 : α) * (atan2 (sqrt ((t1375 * t1375) + (((t1374 * t1374) + (t1373 * t1373)) + (t1372 * t1372)))) (sqrt ((t1387 * t1387) + (((t1386 * t1386) + (t1385 * t1385)) + (t1384 * t1384))))))
  let t1399 := ((1 : α) - t)
  let t1400 := (t1397 * t1397)
  let t1401 := (t * t1397)
  let t1402 := (t1401 * t1401)
  let t1403 := ((1 : α) / (1 : α))
  let t1404 := (t1403 * t)
  let t1405 := (q2.v.z * t1404)
  let t1406 := (q2.v.y * t1404)
  let t1407 := (q2.v.x * t1404)
  let t1408 := (q2.r * t1404)
  let t1409 := (t1399 * t1397)
  let t1410 := (t1409 * t1409)
  let t1411 := (t1403 * t1399)
  let t1412 := (q1.v.z * t1411)
  let t1413 := (q1.v.y * t1411)
  let t1414 := (q1.v.x * t1411)
  let t1415 := (q1.r * t1411)
  let t1416 := (t1412 + t1405)
  let t1417 := (t1413 + t1406)
  let t1418 := (t1414 + t1407)
  let t1419 := (t1415 + t1408)
  let t1427 := (sqrt ((t1419 * t1419) + (((t1418 * t1418) + (t1417 * t1417)) + (t1416 * t1416))))
  let t1433 := ((sin t1409) / t1409)
  let t1435 := ((t1433 / (1 : α)) * t1399)
  let t1436 := (q1.v.z * t1435)
  let t1437 := (q1.v.y * t1435)
  let t1438 := (q1.v.x * t1435)
  let t1439 := (q1.r * t1435)
  let t1440 := (t1436 + t1405)
  let t1441 := (t1437 + t1406)
  let t1442 := (t1438 + t1407)
  let t1443 := (t1439 + t1408)
  let t1451 := (sqrt ((t1443 * t1443) + (((t1442 * t1442) + (t1441 * t1441)) + (t1440 * t1440))))
  let t1457 := ((sin t1401) / t1401)
  let t1459 := ((t1457 / (1 : α)) * t)
  let t1460 := (q2.v.z * t1459)
  let t1461 := (q2.v.y * t1459)
  let t1462 := (q2.v.x * t1459)
  let t1463 := (q2.r * t1459)
  let t1464 := (t1412 + t1460)
  let t1465 := (t1413 + t1461)
  let t1466 := (t1414 + t1462)
  let t1467 := (t1415 + t1463)
  let t1475 := (sqrt ((t1467 * t1467) + (((t1466 * t1466) + (t1465 * t1465)) + (t1464 * t1464))))
  let t1480 := (t1436 + t1460)
  let t1481 := (t1437 + t1461)
  let t1482 := (t1438 + t1462)
  let t1483 := (t1439 + t1463)
  let t1491 := (sqrt ((t1483 * t1483) + (((t1482 * t1482) + (t1481 * t1481)) + (t1480 * t1480))))
  let t1497 := ((sin t1397) / t1397)
  let t1498 := ((1 : α) / t1497)
  let t1499 := (t1498 * t)
  let t1500 := (q2.v.z * t1499)
  let t1501 := (q2.v.y * t1499)
  let t1502 := (q2.v.x * t1499)
  let t1503 := (q2.r * t1499)
  let t1504 := (t1498 * t1399)
  let t1505 := (q1.v.z * t1504)
  let t1506 := (q1.v.y * t1504)
  let t1507 := (q1.v.x * t1504)
  let t1508 := (q1.r * t1504)
  let t1509 := (t1505 + t1500)
  let t1510 := (t1506 + t1501)
  let t1511 := (t1507 + t1502)
  let t1512 := (t1508 + t1503)
  let t1520 := (sqrt ((t1512 * t1512) + (((t1511 * t1511) + (t1510 * t1510)) + (t1509 * t1509))))
  let t1526 := ((t1433 / t1497) * t1399)
  let t1527 := (q1.v.z * t1526)
  let t1528 := (q1.v.y * t1526)
  let t1529 := (q1.v.x * t1526)
  let t1530 := (q1.r * t1526)
  let t1531 := (t1527 + t1500)
  let t1532 := (t1528 + t1501)
  let t1533 := (t1529 + t1502)
  let t1534 := (t1530 + t1503)
  let t1542 := (sqrt ((t1534 * t1534) + (((t1533 * t1533) + (t1532 * t1532)) + (t1531 * t1531))))
  let t1548 := ((t1457 / t1497) * t)
  let t1549 := (q2.v.z * t1548)
  let t1550 := (q2.v.y * t1548)
  let t1551 := (q2.v.x * t1548)
  let t1552 := (q2.r * t1548)
  let t1553 := (t1505 + t1549)
  let t1554 := (t1506 + t1550)
  let t1555 := (t1507 + t1551)
  let t1556 := (t1508 + t1552)
  let t1564 := (sqrt ((t1556 * t1556) + (((t1555 * t1555) + (t1554 * t1554)) + (t1553 * t1553))))
  let t1569 := (t1527 + t1549)
  let t1570 := (t1528 + t1550)
  let t1571 := (t1529 + t1551)
  let t1572 := (t1530 + t1552)
  let t1580 := (sqrt ((t1572 * t1572) + (((t1571 * t1571) + (t1570 * t1570)) + (t1569 * t1569))))
  let t1591 := ((q1.r * q2.r) + (((q1.v.x * q2.v.x) + (q1.v.y * q2.v.y)) + (q1.v.z * q2.v.z)))
  let t1592 := (-q2.v.z)
  let t1593 := (-q2.v.y)
  let t1594 := (-q2.v.x)
  let t1595 := (-q2.r)
  let t1596 := (q1.v.z - t1592)
  let t1597 := (q1.v.y - t1593)
  let t1598 := (q1.v.x - t1594)
  let t1599 := (q1.r - t1595)
  let t1608 := (q1.v.z + t1592)
  let t1609 := (q1.v.y + t1593)
  let t1610 := (q1.v.x + t1594)
  let t1611 := (q1.r + t1595)
  let t1621 := ((2 : α) * (atan2 (sqrt ((t1599 * t1599) + (((t1598 * t1598) + (t1597 * t1597)) + (t1596 * t1596)))) (sqrt ((t1611 * t1611) + (((t1610 * t1610) + (t1609 * t1609)) + (t1608 * t1608))))))
  let t1622 := (t1621 * t1621)
  let t1623 := (t * t1621)
  let t1624 := (t1623 * t1623)
  let t1625 := (t1592 * t1404)
  let t1626 := (t1593 * t1404)
  let t1627 := (t1594 * t1404)
  let t1628 := (t1595 * t1404)
  let t1629 := (t1399 * t1621)
  let t1630 := (t1629 * t1629)
  let t1631 := (t1412 + t1625)
  let t1632 := (t1413 + t1626)
  let t1633 := (t1414 + t1627)
  let t1634 := (t1415 + t1628)
  let t1642 := (sqrt ((t1634 * t1634) + (((t1633 * t1633) + (t1632 * t1632)) + (t1631 * t1631))))
  let t1648 := ((sin t1629) / t1629)
  let t1650 := ((t1648 / (1 : α)) * t1399)
  let t1651 := (q1.v.z * t1650)
  let t1652 := (q1.v.y * t1650)
  let t1653 := (q1.v.x * t1650)
  let t1654 := (q1.r * t1650)
  let t1655 := (t1651 + t1625)
  let t1656 := (t1652 + t1626)
  let t1657 := (t1653 + t1627)
  let t1658 := (t1654 + t1628)
  let t1666 := (sqrt ((t1658 * t1658) + (((t1657 * t1657) + (t1656 * t1656)) + (t1655 * t1655))))
  let t1672 := ((sin t1623) / t1623)
  let t1674 := ((t1672 / (1 : α)) * t)
  let t1675 := (t1592 * t1674)
  let t1676 := (t1593 * t1674)
  let t1677 := (t1594 * t1674)
  let t1678 := (t1595 * t1674)
  let t1679 := (t1412 + t1675)
  let t1680 := (t1413 + t1676)
  let t1681 := (t1414 + t1677)
  let t1682 := (t1415 + t1678)
  let t1690 := (sqrt ((t1682 * t1682) + (((t1681 * t1681) + (t1680 * t1680)) + (t1679 * t1679))))
  let t1695 := (t1651 + t1675)
  let t1696 := (t1652 + t1676)
  let t1697 := (t1653 + t1677)
  let t1698 := (t1654 + t1678)
  let t1706 := (sqrt ((t1698 * t1698) + (((t1697 * t1697) + (t1696 * t1696)) + (t1695 * t1695))))
  let t1712 := ((sin t1621) / t1621)
  let t1713 := ((1 : α) / t1712)
  let t1714 := (t1713 * t)
  let t1715 := (t1592 * t1714)
  let t1716 := (t1593 * t1714)
  let t1717 := (t1594 * t1714)
  let t1718 := (t1595 * t1714)
  let t1719 := (t1713 * t1399)
  let t1720 := (q1.v.z * t1719)
  let t1721 := (q1.v.y * t1719)
  let t1722 := (q1.v.x * t1719)
  let t1723 := (q1.r * t1719)
  let t1724 := (t1720 + t1715)
  let t1725 := (t1721 + t1716)
  let t1726 := (t1722 + t1717)
  let t1727 := (t1723 + t1718)
  let t1735 := (sqrt ((t1727 * t1727) + (((t1726 * t1726) + (t1725 * t1725)) + (t1724 * t1724))))
  let t1741 := ((t1648 / t1712) * t1399)
  let t1742 := (q1.v.z * t1741)
  let t1743 := (q1.v.y * t1741)
  let t1744 := (q1.v.x * t1741)
  let t1745 := (q1.r * t1741)
  let t1746 := (t1742 + t1715)
  let t1747 := (t1743 + t1716)
  let t1748 := (t1744 + t1717)
  let t1749 := (t1745 + t1718)
  let t1757 := (sqrt ((t1749 * t1749) + (((t1748 * t1748) + (t1747 * t1747)) + (t1746 * t1746))))
  let t1763 := ((t1672 / t1712) * t)
  let t1764 := (t1592 * t1763)
  let t1765 := (t1593 * t1763)
  let t1766 := (t1594 * t1763)
  let t1767 := (t1595 * t1763)
  let t1768 := (t1720 + t1764)
  let t1769 := (t1721 + t1765)
  let t1770 := (t1722 + t1766)
  let t1771 := (t1723 + t1767)
  let t1779 := (sqrt ((t1771 * t1771) + (((t1770 * t1770) + (t1769 * t1769)) + (t1768 * t1768))))
  let t1784 := (t1742 + t1764)
  let t1785 := (t1743 + t1765)
  let t1786 := (t1744 + t1766)
  let t1787 := (t1745 + t1767)
  let t1795 := (sqrt ((t1787 * t1787) + (((t1786 * t1786) + (t1785 * t1785)) + (t1784 * t1784))))
  if (0 : α) ≤ t1591 then
    if t1400 < teps then
      if t1402 < teps then
        if t1410 < teps then
          if t1427 = (0 : α) then
            ⟨(1 : α), ⟨(0 : α), (0 : α), (0 : α)⟩⟩
          else
            ⟨(t1419 / t1427), ⟨(t1418 / t1427), (t1417 / t1427), (t1416 / t1427)⟩⟩
        else
          if t1451 = (0 : α) then
            ⟨(1 : α), ⟨(0 : α), (0 : α), (0 : α)⟩⟩
          else
            ⟨(t1443 / t1451), ⟨(t1442 / t1451), (t1441 / t1451), (t1440 / t1451)⟩⟩
      else
        if t1410 < teps then
          if t1475 = (0 : α) then
            ⟨(1 : α), ⟨(0 : α), (0 : α), (0 : α)⟩⟩
          else
            ⟨(t1467 / t1475), ⟨(t1466 / t1475), (t1465 / t1475), (t1464 / t1475)⟩⟩
        else
          if t1491 = (0 : α) then
            ⟨(1 : α), ⟨(0 : α), (0 : α), (0 : α)⟩⟩
          else
            ⟨(t1483 / t1491), ⟨(t1482 / t1491), (t1481 / t1491), (t1480 / t1491)⟩⟩
    else
      if t1402 < teps then
        if t1410 < teps then
          if t1520 = (0 : α) then
            ⟨(1 : α), ⟨(0 : α), (0 : α), (0 : α)⟩⟩
          else
            ⟨(t1512 / t1520), ⟨(t1511 / t1520), (t1510 / t1520), (t1509 / t1520)⟩⟩
        else
          if t1542 = (0 : α) then
            ⟨(1 : α), ⟨(0 : α), (0 : α), (0 : α)⟩⟩
          else
            ⟨(t1534 / t1542), ⟨(t1533 / t1542), (t1532 / t1542), (t1531 / t1542)⟩⟩
      else
        if t1410 < teps then
          if t1564 = (0 : α) then
            ⟨(1 : α), ⟨(0 : α), (0 : α), (0 : α)⟩⟩
          else
            ⟨(t1556 / t1564), ⟨(t1555 / t1564), (t1554 / t1564), (t1553 / t1564)⟩⟩
        else
          if t1580 = (0 : α) then
            ⟨(1 : α), ⟨(0 : α), (0 : α), (0 : α)⟩⟩
          else
            ⟨(t1572 / t1580), ⟨(t1571 / t1580), (t1570 / t1580), (t1569 / t1580)⟩⟩
  else
    if t1622 < teps then
      if t1624 < teps then
        if t1630 < teps then
          if t1642 = (0 : α) then
            ⟨(1 : α), ⟨(0 : α), (0 : α), (0 : α)⟩⟩
          else
            ⟨(t1634 / t1642), ⟨(t1633 / t1642), (t1632 / t1642), (t1631 / t1642)⟩⟩
        else
          if t1666 = (0 : α) then
            ⟨(1 : α), ⟨(0 : α), (0 : α), (0 : α)⟩⟩
          else
            ⟨(t1658 / t1666), ⟨(t1657 / t1666), (t1656 / t1666), (t1655 / t1666)⟩⟩
      else
        if t1630 < teps then
          if t1690 = (0 : α) then
            ⟨(1 : α), ⟨(0 : α), (0 : α), (0 : α)⟩⟩
          else
            ⟨(t1682 / t1690), ⟨(t1681 / t1690), (t1680 / t1690), (t1679 / t1690)⟩⟩
        else
          if t1706 = (0 : α) then
            ⟨(1 : α), ⟨(0 : α), (0 : α), (0 : α)⟩⟩
          else
            ⟨(t1698 / t1706), ⟨(t1697 / t1706), (t1696 / t1706), (t1695 / t1706)⟩⟩
    else
      if t1624 < teps then
        if t1630 < teps then
          if t1735 = (0 : α) then
            ⟨(1 : α), ⟨(0 : α), (0 : α), (0 : α)⟩⟩
          else
            ⟨(t1727 / t1735), ⟨(t1726 / t1735), (t1725 / t1735), (t1724 / t1735)⟩⟩
        else
          if t1757 = (0 : α) then
            ⟨(1 : α), ⟨(0 : α), (0 : α), (0 : α)⟩⟩
          else
            ⟨(t1749 / t1757), ⟨(t1748 / t1757), (t1747 / t1757), (t1746 / t1757)⟩⟩
      else
        if t1630 < teps then
          if t1779 = (0 : α) then
            ⟨(1 : α), ⟨(0 : α), (0 : α), (0 : α)⟩⟩
          else
            ⟨(t1771 / t1779), ⟨(t1770 / t1779), (t1769 / t1779), (t1768 / t1779)⟩⟩
        else
          if t1795 = (0 : α) then
            ⟨(1 : α), ⟨(0 : α), (0 : α), (0 : α)⟩⟩
          else
            ⟨(t1787 / t1795), ⟨(t1786 / t1795), (t1785 / t1795), (t1784 / t1795)⟩⟩

/-- extracted from the C++ template at T = Sym; 96 path(s) -/
def C10.Quat.intermediate {α : Type} [Add α] [Sub α] [Mul α] [Div α] [Neg α] [LT α] [LE α] [DecidableLT α] [DecidableLE α] [DecidableEq α] [OfNat α 0] [OfNat α 1] [OfNat α 2] [OfNat α 4] (tmin : α) (tmax : α) (sqrt : α → α) (sin : α → α) (cos : α → α) (acos : α → α) (q0 : Quat α) (q1 : Quat α) (q2 : Quat α) : (Quat α) :=
  let t1810 := ((q1.r * q1.r) + (((q1.v.x * q1.v.x) + (q1.v.y * q1.v.y)) + (q1.v.z * q1.v.z)))
  let t1814 := ((-q1.v.z) / t1810)
  let t1815 := ((-q1.v.y) / t1810)
  let t1816 := ((-q1.v.x) / t1810)
  let t1817 := (q1.r / t1810)
  let t1836 := (((t1817 * q2.v.z) + (t1814 * q2.r)) + ((t1816 * q2.v.y) - (t1815 * q2.v.x)))
  let t1837 := (((t1817 * q2.v.y) + (t1815 * q2.r)) + ((t1814 * q2.v.x) - (t1816 * q2.v.z)))
  let t1838 := (((t1817 * q2.v.x) + (t1816 * q2.r)) + ((t1815 * q2.v.z) - (t1814 * q2.v.y)))
  let t1864 := (((t1817 * q0.v.z) + (t1814 * q0.r)) + ((t1816 * q0.v.y) - (t1815 * q0.v.x)))
  let t1865 := (((t1817 * q0.v.y) + (t1815 * q0.r)) + ((t1814 * q0.v.x) - (t1816 * q0.v.z)))
  let t1866 := (((t1817 * q0.v.x) + (t1816 * q0.r)) + ((t1815 * q0.v.z) - (t1814 * q0.v.y)))
  let t1875 := (acos (smin ((t1817 * q2.r) - (((t1816 * q2.v.x) + (t1815 * q2.v.y)) + (t1814 * q2.v.z))) (1 : α)))
  let t1877 := (acos (smin ((t1817 * q0.r) - (((t1816 * q0.v.x) + (t1815 * q0.v.y)) + (t1814 * q0.v.z))) (1 : α)))
  let t1882 := ((t1864 + t1836) * (-((1 : α) / (4 : α))))
  let t1883 := ((t1865 + t1837) * (-((1 : α) / (4 : α))))
  let t1884 := ((t1866 + t1838) * (-((1 : α) / (4 : α))))
  let t1886 := (V3.length tmin sqrt ⟨t1884, t1883, t1882⟩)
  let t1887 := (sin t1886)
  let t1888 := (sabs t1886)
  let t1889 := (tmax * t1888)
  let t1890 := (sabs t1887)
  let t1891 := (cos t1886)
  let t1892 := (t1882 * (1 : α))
  let t1893 := (t1883 * (1 : α))
  let t1894 := (t1884 * (1 : α))
  let t1904 := (q1.v.z * t1891)
  let t1905 := (q1.v.y * t1891)
  let t1906 := (q1.v.x * t1891)
  let t1913 := (((q1.r * t1892) + t1904) + ((q1.v.x * t1893) - (q1.v.y * t1894)))
  let t1914 := (((q1.r * t1893) + t1905) + ((q1.v.z * t1894) - (q1.v.x * t1892)))
  let t1915 := (((q1.r * t1894) + t1906) + ((q1.v.y * t1892) - (q1.v.z * t1893)))
  let t1921 := (q1.r * t1891)
  let t1922 := (t1921 - (((q1.v.x * t1894) + (q1.v.y * t1893)) + (q1.v.z * t1892)))
  let t1930 := (sqrt ((t1922 * t1922) + (((t1915 * t1915) + (t1914 * t1914)) + (t1913 * t1913))))
  let t1935 := (t1887 / t1886)
  let t1936 := (t1882 * t1935)
  let t1937 := (t1883 * t1935)
  let t1938 := (t1884 * t1935)
  let t1954 := (((q1.r * t1936) + t1904) + ((q1.v.x * t1937) - (q1.v.y * t1938)))
  let t1955 := (((q1.r * t1937) + t1905) + ((q1.v.z * t1938) - (q1.v.x * t1936)))
  let t1956 := (((q1.r * t1938) + t1906) + ((q1.v.y * t1936) - (q1.v.z * t1937)))
  let t1962 := (t1921 - (((q1.v.x * t1938) + (q1.v.y * t1937)) + (q1.v.z * t1936)))
  let t1970 := (sqrt ((t1962 * t1962) + (((t1956 * t1956) + (t1955 * t1955)) + (t1954 * t1954))))
  let t1971 := (t1962 / t1970)
  let t1972 := (t1956 / t1970)
  let t1973 := (t1955 / t1970)
  let t1974 := (t1954 / t1970)
  let t1975 := (sin t1877)
  let t1976 := (sabs t1975)
  let t1977 := (tmax * t1976)
  let t1978 := (sabs t1877)
  let t1979 := (t1864 * (1 : α))
  let t1980 := (t1865 * (1 : α))
  let t1981 := (t1866 * (1 : α))
  let t1985 := ((t1979 + t1836) * (-((1 : α) / (4 : α))))
  let t1986 := ((t1980 + t1837) * (-((1 : α) / (4 : α))))
  let t1987 := ((t1981 + t1838) * (-((1 : α) / (4 : α))))
  let t1988 := (V3.length tmin sqrt ⟨t1987, t1986, t1985⟩)
  let t1989 := (sin t1988)
  let t1990 := (sabs t1988)
  let t1991 := (tmax * t1990)
  let t1992 := (sabs t1989)
  let t1993 := (cos t1988)
  let t1994 := (t1985 * (1 : α))
  let t1995 := (t1986 * (1 : α))
  let t1996 := (t1987 * (1 : α))
  let t2006 := (q1.v.z * t1993)
  let t2007 := (q1.v.y * t1993)
  let t2008 := (q1.v.x * t1993)
  let t2015 := (((q1.r * t1994) + t2006) + ((q1.v.x * t1995) - (q1.v.y * t1996)))
  let t2016 := (((q1.r * t1995) + t2007) + ((q1.v.z * t1996) - (q1.v.x * t1994)))
  let t2017 := (((q1.r * t1996) + t2008) + ((q1.v.y * t1994) - (q1.v.z * t1995)))
  let t2023 := (q1.r * t1993)
  let t2024 := (t2023 - (((q1.v.x * t1996) + (q1.v.y * t1995)) + (q1.v.z * t1994)))
  let t2032 := (sqrt ((t2024 * t2024) + (((t2017 * t2017) + (t2016 * t2016)) + (t2015 * t2015))))
  let t2037 := (t1989 / t1988)
  let t2038 := (t1985 * t2037)
  let t2039 := (t1986 * t2037)
  let t2040 := (t1987 * t2037)
  let t2056 := (((q1.r * t2038) + t2006) + ((q1.v.x * t2039) - (q1.v.y * t2040)))
  let t2057 := (((q1.r * t2039) + t2007) + ((q1.v.z * t2040) - (q1.v.x * t2038)))
  let t2058 := (((q1.r * t2040) + t2008) + ((q1.v.y * t2038) - (q1.v.z * t2039)))
  let t2064 := (t2023 - (((q1.v.x * t2040) + (q1.v.y * t2039)) + (q1.v.z * t2038)))
  let t2072 := (sqrt ((t2064 * t2064) + (((t2058 * t2058) + (t2057 * t2057)) + (t2056 * t2056))))
  let t2073 := (t2064 / t2072)
  let t2074 := (t2058 / t2072)
  let t2075 := (t2057 / t2072)
  let t2076 := (t2056 / t2072)
  let t2077 := (t1877 / t1975)
  let t2078 := (t1864 * t2077)
  let t2079 := (t1865 * t2077)
  let t2080 := (t1866 * t2077)
  let t2084 := ((t2078 + t1836) * (-((1 : α) / (4 : α))))
  let t2085 := ((t2079 + t1837) * (-((1 : α) / (4 : α))))
  let t2086 := ((t2080 + t1838) * (-((1 : α) / (4 : α))))
  let t2087 := (V3.length tmin sqrt ⟨t2086, t2085, t2084⟩)
  let t2088 := (sin t2087)
  let t2089 := (sabs t2087)
  let t2090 := (tmax * t2089)
  let t2091 := (sabs t2088)
  let t2092 := (cos t2087)
  let t2093 := (t2084 * (1 : α))
  let t2094 := (t2085 * (1 : α))
  let t2095 := (t2086 * (1 : α))
  let t2105 := (q1.v.z * t2092)
  let t2106 := (q1.v.y * t2092)
  let t2107 := (q1.v.x * t2092)
  let t2114 := (((q1.r * t2093) + t2105) + ((q1.v.x * t2094) - (q1.v.y * t2095)))
  let t2115 := (((q1.r * t2094) + t2106) + ((q1.v.z * t2095) - (q1.v.x * t2093)))
  let t2116 := (((q1.r * t2095) + t2107) + ((q1.v.y * t2093) - (q1.v.z * t2094)))
  let t2122 := (q1.r * t2092)
  let t2123 := (t2122 - (((q1.v.x * t2095) + (q1.v.y * t2094)) + (q1.v.z * t2093)))
  let t2131 := (sqrt ((t2123 * t2123) + (((t2116 * t2116) + (t2115 * t2115)) + (t2114 * t2114))))
  let t2132 := (t2123 / t2131)
  let t2133 := (t2116 / t2131)
  let t2134 := (t2115 / t2131)
  let t2135 := (t2114 / t2131)
  let t2136 := (t2088 / t2087)
  let t2137 := (t2084 * t2136)
  let t2138 := (t2085 * t2136)
  let t2139 := (t2086 * t2136)
  let t2155 := (((q1.r * t2137) + t2105) + ((q1.v.x * t2138) - (q1.v.y * t2139)))
  let t2156 := (((q1.r * t2138) + t2106) + ((q1.v.z * t2139) - (q1.v.x * t2137)))
  let t2157 := (((q1.r * t2139) + t2107) + ((q1.v.y * t2137) - (q1.v.z * t2138)))
  let t2163 := (t2122 - (((q1.v.x * t2139) + (q1.v.y * t2138)) + (q1.v.z * t2137)))
  let t2171 := (sqrt ((t2163 * t2163) + (((t2157 * t2157) + (t2156 * t2156)) + (t2155 * t2155))))
  let t2172 := (t2163 / t2171)
  let t2173 := (t2157 / t2171)
  let t2174 := (t2156 / t2171)
  let t2175 := (t2155 / t2171)
  let t2176 := (sin t1875)
  let t2177 := (sabs t2176)
  let t2178 := (tmax * t2177)
  let t2179 := (sabs t1875)
  let t2180 := (t1836 * (1 : α))
  let t2181 := (t1837 * (1 : α))
  let t2182 := (t1838 * (1 : α))
  let t2186 := ((t1864 + t2180) * (-((1 : α) / (4 : α))))
  let t2187 := ((t1865 + t2181) * (-((1 : α) / (4 : α))))
  let t2188 := ((t1866 + t2182) * (-((1 : α) / (4 : α))))
  let t2189 := (V3.length tmin sqrt ⟨t2188, t2187, t2186⟩)
  let t2190 := (sin t2189)
  let t2191 := (sabs t2189)
  let t2192 := (tmax * t2191)
  let t2193 := (sabs t2190)
  let t2194 := (cos t2189)
  let t2195 := (t2186 * (1 : α))
  let t2196 := (t2187 * (1 : α))
  let t2197 := (t2188 * (1 : α))
  let t2207 := (q1.v.z * t2194)
  let t2208 := (q1.v.y * t2194)
  let t2209 := (q1.v.x * t2194)
  let t2216 := (((q1.r * t2195) + t2207) + ((q1.v.x * t2196) - (q1.v.y * t2197)))
  let t2217 := (((q1.r * t2196) + t2208) + ((q1.v.z * t2197) - (q1.v.x * t2195)))
  let t2218 := (((q1.r * t2197) + t2209) + ((q1.v.y * t2195) - (q1.v.z * t2196)))
  let t2224 := (q1.r * t2194)
  let t2225 := (t2224 - (((q1.v.x * t2197) + (q1.v.y * t2196)) + (q1.v.z * t2195)))
  let t2233 := (sqrt ((t2225 * t2225) + (((t2218 * t2218) + (t2217 * t2217)) + (t2216 * t2216))))
  let t2238 := (t2190 / t2189)
  let t2239 := (t2186 * t2238)
  let t2240 := (t2187 * t2238)
  let t2241 := (t2188 * t2238)
  let t2257 := (((q1.r * t2239) + t2207) + ((q1.v.x * t2240) - (q1.v.y * t2241)))
  let t2258 := (((q1.r * t2240) + t2208) + ((q1.v.z * t2241) - (q1.v.x * t2239)))
  let t2259 := (((q1.r * t2241) + t2209) + ((q1.v.y * t2239) - (q1.v.z * t2240)))
  let t2265 := (t2224 - (((q1.v.x * t2241) + (q1.v.y * t2240)) + (q1.v.z * t2239)))
  let t2273 := (sqrt ((t2265 * t2265) + (((t2259 * t2259) + (t2258 * t2258)) + (t2257 * t2257))))
  let t2274 := (t2265 / t2273)
  let t2275 := (t2259 / t2273)
  let t2276 := (t2258 / t2273)
  let t2277 := (t2257 / t2273)
  let t2281 := ((t1979 + t2180) * (-((1 : α) / (4 : α))))
  let t2282 := ((t1980 + t2181) * (-((1 : α) / (4 : α))))
  let t2283 := ((t1981 + t2182) * (-((1 : α) / (4 : α))))
  let t2284 := (V3.length tmin sqrt ⟨t2283, t2282, t2281⟩)
  let t2285 := (sin t2284)
  let t2286 := (sabs t2284)
  let t2287 := (tmax * t2286)
  let t2288 := (sabs t2285)
  let t2289 := (cos t2284)
  let t2290 := (t2281 * (1 : α))
  let t2291 := (t2282 * (1 : α))
  let t2292 := (t2283 * (1 : α))
  let t2302 := (q1.v.z * t2289)
  let t2303 := (q1.v.y * t2289)
  let t2304 := (q1.v.x * t2289)
  let t2311 := (((q1.r * t2290) + t2302) + ((q1.v.x * t2291) - (q1.v.y * t2292)))
  let t2312 := (((q1.r * t2291) + t2303) + ((q1.v.z * t2292) - (q1.v.x * t2290)))
  let t2313 := (((q1.r * t2292) + t2304) + ((q1.v.y * t2290) - (q1.v.z * t2291)))
  let t2319 := (q1.r * t2289)
  let t2320 := (t2319 - (((q1.v.x * t2292) + (q1.v.y * t2291)) + (q1.v.z * t2290)))
  let t2328 := (sqrt ((t2320 * t2320) + (((t2313 * t2313) + (t2312 * t2312)) + (t2311 * t2311))))
  let t2333 := (t2285 / t2284)
  let t2334 := (t2281 * t2333)
  let t2335 := (t2282 * t2333)
  let t2336 := (t2283 * t2333)
  let t2352 := (((q1.r * t2334) + t2302) + ((q1.v.x * t2335) - (q1.v.y * t2336)))
  let t2353 := (((q1.r * t2335) + t2303) + ((q1.v.z * t2336) - (q1.v.x * t2334)))
  let t2354 := (((q1.r * t2336) + t2304) + ((q1.v.y * t2334) - (q1.v.z * t2335)))
  let t2360 := (t2319 - (((q1.v.x * t2336) + (q1.v.y * t2335)) + (q1.v.z * t2334)))
  let t2368 := (sqrt ((t2360 * t2360) + (((t2354 * t2354) + (t2353 * t2353)) + (t2352 * t2352))))
  let t2369 := (t2360 / t2368)
  let t2370 := (t2354 / t2368)
  let t2371 := (t2353 / t2368)
  let t2372 := (t2352 / t2368)
  let t2376 := ((t2078 + t2180) * (-((1 : α) / (4 : α))))
  let t2377 := ((t2079 + t2181) * (-((1 : α) / (4 : α))))
  let t2378 := ((t2080 + t2182) * (-((1 : α) / (4 : α))))
  let t2379 := (V3.length tmin sqrt ⟨t2378, t2377, t2376⟩)
  let t2380 := (sin t2379)
  let t2381 := (sabs t2379)
  let t2382 := (tmax * t2381)
  let t2383 := (sabs t2380)
  let t2384 := (cos t2379)
  let t2385 := (t2376 * (1 : α))
  let t2386 := (t2377 * (1 : α))
  let t2387 := (t2378 * (1 : α))
  let t2397 := (q1.v.z * t2384)
  let t2398 := (q1.v.y * t2384)
  let t2399 := (q1.v.x * t2384)
  let t2406 := (((q1.r * t2385) + t2397) + ((q1.v.x * t2386) - (q1.v.y * t2387)))
  let t2407 := (((q1.r * t2386) + t2398) + ((q1.v.z * t2387) - (q1.v.x * t2385)))
  let t2408 := (((q1.r * t2387) + t2399) + ((q1.v.y * t2385) - (q1.v.z * t2386)))
  let t2414 := (q1.r * t2384)
  let t2415 := (t2414 - (((q1.v.x * t2387) + (q1.v.y * t2386)) + (q1.v.z * t2385)))
  let t2423 := (sqrt ((t2415 * t2415) + (((t2408 * t2408) + (t2407 * t2407)) + (t2406 * t2406))))
  let t2424 := (t2415 / t2423)
  let t2425 := (t2408 / t2423)
  let t2426 := (t2407 / t2423)
  let t2427 := (t2406 / t2423)
  let t2428 := (t2380 / t2379)
  let t2429 := (t2376 * t2428)
  let t2430 := (t2377 * t2428)
  let t2431 := (t2378 * t2428)
  let t2447 := (((q1.r * t2429) + t2397) + ((q1.v.x * t2430) - (q1.v.y * t2431)))
  let t2448 := (((q1.r * t2430) + t2398) + ((q1.v.z * t2431) - (q1.v.x * t2429)))
  let t2449 := (((q1.r * t2431) + t2399) + ((q1.v.y * t2429) - (q1.v.z * t2430)))
  let t2455 := (t2414 - (((q1.v.x * t2431) + (q1.v.y * t2430)) + (q1.v.z * t2429)))
  let t2463 := (sqrt ((t2455 * t2455) + (((t2449 * t2449) + (t2448 * t2448)) + (t2447 * t2447))))
  let t2464 := (t2455 / t2463)
  let t2465 := (t2449 / t2463)
  let t2466 := (t2448 / t2463)
  let t2467 := (t2447 / t2463)
  let t2468 := (t1875 / t2176)
  let t2469 := (t1836 * t2468)
  let t2470 := (t1837 * t2468)
  let t2471 := (t1838 * t2468)
  let t2475 := ((t1864 + t2469) * (-((1 : α) / (4 : α))))
  let t2476 := ((t1865 + t2470) * (-((1 : α) / (4 : α))))
  let t2477 := ((t1866 + t2471) * (-((1 : α) / (4 : α))))
  let t2478 := (V3.length tmin sqrt ⟨t2477, t2476, t2475⟩)
  let t2479 := (sin t2478)
  let t2480 := (sabs t2478)
  let t2481 := (tmax * t2480)
  let t2482 := (sabs t2479)
  let t2483 := (cos t2478)
  let t2484 := (t2475 * (1 : α))
  let t2485 := (t2476 * (1 : α))
  let t2486 := (t2477 * (1 : α))
  let t2496 := (q1.v.z * t2483)
  let t2497 := (q1.v.y * t2483)
  let t2498 := (q1.v.x * t2483)
  let t2505 := (((q1.r * t2484) + t2496) + ((q1.v.x * t2485) - (q1.v.y * t2486)))
  let t2506 := (((q1.r * t2485) + t2497) + ((q1.v.z * t2486) - (q1.v.x * t2484)))
  let t2507 := (((q1.r * t2486) + t2498) + ((q1.v.y * t2484) - (q1.v.z * t2485)))
  let t2513 := (q1.r * t2483)
  let t2514 := (t2513 - (((q1.v.x * t2486) + (q1.v.y * t2485)) + (q1.v.z * t2484)))
  let t2522 := (sqrt ((t2514 * t2514) + (((t2507 * t2507) + (t2506 * t2506)) + (t2505 * t2505))))
  let t2523 := (t2514 / t2522)
  let t2524 := (t2507 / t2522)
  let t2525 := (t2506 / t2522)
  let t2526 := (t2505 / t2522)
  let t2527 := (t2479 / t2478)
  let t2528 := (t2475 * t2527)
  let t2529 := (t2476 * t2527)
  let t2530 := (t2477 * t2527)
  let t2546 := (((q1.r * t2528) + t2496) + ((q1.v.x * t2529) - (q1.v.y * t2530)))
  let t2547 := (((q1.r * t2529) + t2497) + ((q1.v.z * t2530) - (q1.v.x * t2528)))
  let t2548 := (((q1.r * t2530) + t2498) + ((q1.v.y * t2528) - (q1.v.z * t2529)))
  let t2554 := (t2513 - (((q1.v.x * t2530) + (q1.v.y * t2529)) + (q1.v.z * t2528)))
  let t2562 := (sqrt ((t2554 * t2554) + (((t2548 * t2548) + (t2547 * t2547)) + (t2546 * t2546))))
  let t2563 := (t2554 / t2562)
  let t2564 := (t2548 / t2562)
  let t2565 := (t2547 / t2562)
  let t2566 := (t2546 / t2562)
  let t2570 := ((t1979 + t2469) * (-((1 : α) / (4 : α))))
  let t2571 := ((t1980 + t2470) * (-((1 : α) / (4 : α))))
  let t2572 := ((t1981 + t2471) * (-((1 : α) / (4 : α))))
  let t2573 := (V3.length tmin sqrt ⟨t2572, t2571, t2570⟩)
  let t2574 := (sin t2573)
  let t2575 := (sabs t2573)
  let t2576 := (tmax * t2575)
  let t2577 := (sabs t2574)
  let t2578 := (cos t2573)
  let t2579 := (t2570 * (1 : α))
  let t2580 := (t2571 * (1 : α))
  let t2581 := (t2572 * (1 : α))
  let t2591 := (q1.v.z * t2578)
  let t2592 := (q1.v.y * t2578)
  let t2593 := (q1.v.x * t2578)
  let t2600 := (((q1.r * t2579) + t2591) + ((q1.v.x * t2580) - (q1.v.y * t2581)))
  let t2601 := (((q1.r * t2580) + t2592) + ((q1.v.z * t2581) - (q1.v.x * t2579)))
  let t2602 := (((q1.r * t2581) + t2593) + ((q1.v.y * t2579) - (q1.v.z * t2580)))
  let t2608 := (q1.r * t2578)
  let t2609 := (t2608 - (((q1.v.x * t2581) + (q1.v.y * t2580)) + (q1.v.z * t2579)))
  let t2617 := (sqrt ((t2609 * t2609) + (((t2602 * t2602) + (t2601 * t2601)) + (t2600 * t2600))))
  let t2618 := (t2609 / t2617)
  let t2619 := (t2602 / t2617)
  let t2620 := (t2601 / t2617)
  let t2621 := (t2600 / t2617)
  let t2622 := (t2574 / t2573)
  let t2623 := (t2570 * t2622)
  let t2624 := (t2571 * t2622)
  let t2625 := (t2572 * t2622)
  let t2641 := (((q1.r * t2623) + t2591) + ((q1.v.x * t2624) - (q1.v.y * t2625)))
  let t2642 := (((q1.r * t2624) + t2592) + ((q1.v.z * t2625) - (q1.v.x * t2623)))
  let t2643 := (((q1.r * t2625) + t2593) + ((q1.v.y * t2623) - (q1.v.z * t2624)))
  let t2649 := (t2608 - (((q1.v.x * t2625) + (q1.v.y * t2624)) + (q1.v.z * t2623)))
  let t2657 := (sqrt ((t2649 * t2649) + (((t2643 * t2643) + (t2642 * t2642)) + (t2641 * t2641))))
  let t2658 := (t2649 / t2657)
  let t2659 := (t2643 / t2657)
  let t2660 := (t2642 / t2657)
  let t2661 := (t2641 / t2657)
  let t2665 := ((t2078 + t2469) * (-((1 : α) / (4 : α))))
  let t2666 := ((t2079 + t2470) * (-((1 : α) / (4 : α))))
  let t2667 := ((t2080 + t2471) * (-((1 : α) / (4 : α))))
  let t2668 := (V3.length tmin sqrt ⟨t2667, t2666, t2665⟩)
  let t2669 := (sin t2668)
  let t2670 := (sabs t2668)
  let t2671 := (tmax * t2670)
  let t2672 := (sabs t2669)
  let t2673 := (cos t2668)
  let t2674 := (t2665 * (1 : α))
  let t2675 := (t2666 * (1 : α))
  let t2676 := (t2667 * (1 : α))
  let t2686 := (q1.v.z * t2673)
  let t2687 := (q1.v.y * t2673)
  let t2688 := (q1.v.x * t2673)
  let t2695 := (((q1.r * t2674) + t2686) + ((q1.v.x * t2675) - (q1.v.y * t2676)))
  let t2696 := (((q1.r * t2675) + t2687) + ((q1.v.z * t2676) - (q1.v.x * t2674)))
  let t2697 := (((q1.r * t2676) + t2688) + ((q1.v.y * t2674) - (q1.v.z * t2675)))
  let t2703 := (q1.r * t2673)
  let t2704 := (t2703 - (((q1.v.x * t2676) + (q1.v.y * t2675)) + (q1.v.z * t2674)))
  let t2712 := (sqrt ((t2704 * t2704) + (((t2697 * t2697) + (t2696 * t2696)) + (t2695 * t2695))))
  let t2713 := (t2704 / t2712)
  let t2714 := (t2697 / t2712)
  let t2715 := (t2696 / t2712)
  let t2716 := (t2695 / t2712)
  let t2717 := (t2669 / t2668)
  let t2718 := (t2665 * t2717)
  let t2719 := (t2666 * t2717)
  let t2720 := (t2667 * t2717)
  let t2736 := (((q1.r * t2718) + t2686) + ((q1.v.x * t2719) - (q1.v.y * t2720)))
  let t2737 := (((q1.r * t2719) + t2687) + ((q1.v.z * t2720) - (q1.v.x * t2718)))
  let t2738 := (((q1.r * t2720) + t2688) + ((q1.v.y * t2718) - (q1.v.z * t2719)))
  let t2744 := (t2703 - (((q1.v.x * t2720) + (q1.v.y * t2719)) + (q1.v.z * t2718)))
  let t2752 := (sqrt ((t2744 * t2744) + (((t2738 * t2738) + (t2737 * t2737)) + (t2736 * t2736))))
  let t2753 := (t2744 / t2752)
  let t2754 := (t2738 / t2752)
  let t2755 := (t2737 / t2752)
  let t2756 := (t2736 / t2752)
  if t1875 = (0 : α) then
    if t1877 = (0 : α) then
      if t1888 < (1 : α) then
        if t1889 ≤ t1890 then
          if t1930 = (0 : α) then
            ⟨(1 : α), ⟨(0 : α), (0 : α), (0 : α)⟩⟩
          else
            ⟨(t1922 / t1930), ⟨(t1915 / t1930), (t1914 / t1930), (t1913 / t1930)⟩⟩
        else
          if t1970 = (0 : α) then
            ⟨(1 : α), ⟨(0 : α), (0 : α), (0 : α)⟩⟩
          else
            ⟨t1971, ⟨t1972, t1973, t1974⟩⟩
      else
        if t1970 = (0 : α) then
          ⟨(1 : α), ⟨(0 : α), (0 : α), (0 : α)⟩⟩
        else
          ⟨t1971, ⟨t1972, t1973, t1974⟩⟩
    else
      if t1976 < (1 : α) then
        if t1977 ≤ t1978 then
          if t1990 < (1 : α) then
            if t1991 ≤ t1992 then
              if t2032 = (0 : α) then
                ⟨(1 : α), ⟨(0 : α), (0 : α), (0 : α)⟩⟩
              else
                ⟨(t2024 / t2032), ⟨(t2017 / t2032), (t2016 / t2032), (t2015 / t2032)⟩⟩
            else
              if t2072 = (0 : α) then
                ⟨(1 : α), ⟨(0 : α), (0 : α), (0 : α)⟩⟩
              else
                ⟨t2073, ⟨t2074, t2075, t2076⟩⟩
          else
            if t2072 = (0 : α) then
              ⟨(1 : α), ⟨(0 : α), (0 : α), (0 : α)⟩⟩
            else
              ⟨t2073, ⟨t2074, t2075, t2076⟩⟩
        else
          if t2089 < (1 : α) then
            if t2090 ≤ t2091 then
              if t2131 = (0 : α) then
                ⟨(1 : α), ⟨(0 : α), (0 : α), (0 : α)⟩⟩
              else
                ⟨t2132, ⟨t2133, t2134, t2135⟩⟩
            else
              if t2171 = (0 : α) then
                ⟨(1 : α), ⟨(0 : α), (0 : α), (0 : α)⟩⟩
              else
                ⟨t2172, ⟨t2173, t2174, t2175⟩⟩
          else
            if t2171 = (0 : α) then
              ⟨(1 : α), ⟨(0 : α), (0 : α), (0 : α)⟩⟩
            else
              ⟨t2172, ⟨t2173, t2174, t2175⟩⟩
      else
        if t2089 < (1 : α) then
          if t2090 ≤ t2091 then
            if t2131 = (0 : α) then
              ⟨(1 : α), ⟨(0 : α), (0 : α), (0 : α)⟩⟩
            else
              ⟨t2132, ⟨t2133, t2134, t2135⟩⟩
          else
            if t2171 = (0 : α) then
              ⟨(1 : α), ⟨(0 : α), (0 : α), (0 : α)⟩⟩
            else
              ⟨t2172, ⟨t2173, t2174, t2175⟩⟩
        else
          if t2171 = (0 : α) then
            ⟨(1 : α), ⟨(0 : α), (0 : α), (0 : α)⟩⟩
          else
            ⟨t2172, ⟨t2173, t2174, t2175⟩⟩
  else
    if t2177 < (1 : α) then
      if t2178 ≤ t2179 then
        if t1877 = (0 : α) then
          if t2191 < (1 : α) then
            if t2192 ≤ t2193 then
              if t2233 = (0 : α) then
                ⟨(1 : α), ⟨(0 : α), (0 : α), (0 : α)⟩⟩
              else
                ⟨(t2225 / t2233), ⟨(t2218 / t2233), (t2217 / t2233), (t2216 / t2233)⟩⟩
            else
              if t2273 = (0 : α) then
                ⟨(1 : α), ⟨(0 : α), (0 : α), (0 : α)⟩⟩
              else
                ⟨t2274, ⟨t2275, t2276, t2277⟩⟩
          else
            if t2273 = (0 : α) then
              ⟨(1 : α), ⟨(0 : α), (0 : α), (0 : α)⟩⟩
            else
              ⟨t2274, ⟨t2275, t2276, t2277⟩⟩
        else
          if t1976 < (1 : α) then
            if t1977 ≤ t1978 then
              if t2286 < (1 : α) then
                if t2287 ≤ t2288 then
                  if t2328 = (0 : α) then
                    ⟨(1 : α), ⟨(0 : α), (0 : α), (0 : α)⟩⟩
                  else
                    ⟨(t2320 / t2328), ⟨(t2313 / t2328), (t2312 / t2328), (t2311 / t2328)⟩⟩
                else
                  if t2368 = (0 : α) then
                    ⟨(1 : α), ⟨(0 : α), (0 : α), (0 : α)⟩⟩
                  else
                    ⟨t2369, ⟨t2370, t2371, t2372⟩⟩
              else
                if t2368 = (0 : α) then
                  ⟨(1 : α), ⟨(0 : α), (0 : α), (0 : α)⟩⟩
                else
                  ⟨t2369, ⟨t2370, t2371, t2372⟩⟩
            else
              if t2381 < (1 : α) then
                if t2382 ≤ t2383 then
                  if t2423 = (0 : α) then
                    ⟨(1 : α), ⟨(0 : α), (0 : α), (0 : α)⟩⟩
                  else
                    ⟨t2424, ⟨t2425, t2426, t2427⟩⟩
                else
                  if t2463 = (0 : α) then
                    ⟨(1 : α), ⟨(0 : α), (0 : α), (0 : α)⟩⟩
                  else
                    ⟨t2464, ⟨t2465, t2466, t2467⟩⟩
              else
                if t2463 = (0 : α) then
                  ⟨(1 : α), ⟨(0 : α), (0 : α), (0 : α)⟩⟩
                else
                  ⟨t2464, ⟨t2465, t2466, t2467⟩⟩
          else
            if t2381 < (1 : α) then
              if t2382 ≤ t2383 then
                if t2423 = (0 : α) then
                  ⟨(1 : α), ⟨(0 : α), (0 : α), (0 : α)⟩⟩
                else
                  ⟨t2424, ⟨t2425, t2426, t2427⟩⟩
              else
                if t2463 = (0 : α) then
                  ⟨(1 : α), ⟨(0 : α), (0 : α), (0 : α)⟩⟩
                else
                  ⟨t2464, ⟨t2465, t2466, t2467⟩⟩
            else
              if t2463 = (0 : α) then
                ⟨(1 : α), ⟨(0 : α), (0 : α), (0 : α)⟩⟩
              else
                ⟨t2464, ⟨t2465, t2466, t2467⟩⟩
      else
        if t1877 = (0 : α) then
          if t2480 < (1 : α) then
            if t2481 ≤ t2482 then
              if t2522 = (0 : α) then
                ⟨(1 : α), ⟨(0 : α), (0 : α), (0 : α)⟩⟩
              else
                ⟨t2523, ⟨t2524, t2525, t2526⟩⟩
            else
              if t2562 = (0 : α) then
                ⟨(1 : α), ⟨(0 : α), (0 : α), (0 : α)⟩⟩
              else
                ⟨t2563, ⟨t2564, t2565, t2566⟩⟩
          else
            if t2562 = (0 : α) then
              ⟨(1 : α), ⟨(0 : α), (0 : α), (0 : α)⟩⟩
            else
              ⟨t2563, ⟨t2564, t2565, t2566⟩⟩
        else
          if t1976 < (1 : α) then
            if t1977 ≤ t1978 then
              if t2575 < (1 : α) then
                if t2576 ≤ t2577 then
                  if t2617 = (0 : α) then
                    ⟨(1 : α), ⟨(0 : α), (0 : α), (0 : α)⟩⟩
                  else
                    ⟨t2618, ⟨t2619, t2620, t2621⟩⟩
                else
                  if t2657 = (0 : α) then
                    ⟨(1 : α), ⟨(0 : α), (0 : α), (0 : α)⟩⟩
                  else
                    ⟨t2658, ⟨t2659, t2660, t2661⟩⟩
              else
                if t2657 = (0 : α) then
                  ⟨(1 : α), ⟨(0 : α), (0 : α), (0 : α)⟩⟩
                else
                  ⟨t2658, ⟨t2659, t2660, t2661⟩⟩
            else
              if t2670 < (1 : α) then
                if t2671 ≤ t2672 then
                  if t2712 = (0 : α) then
                    ⟨(1 : α), ⟨(0 : α), (0 : α), (0 : α)⟩⟩
                  else
                    ⟨t2713, ⟨t2714, t2715, t2716⟩⟩
                else
                  if t2752 = (0 : α) then
                    ⟨(1 : α), ⟨(0 : α), (0 : α), (0 : α)⟩⟩
                  else
                    ⟨t2753, ⟨t2754, t2755, t2756⟩⟩
              else
                if t2752 = (0 : α) then
                  ⟨(1 : α), ⟨(0 : α), (0 : α), (0 : α)⟩⟩
                else
                  ⟨t2753, ⟨t2754, t2755, t2756⟩⟩
          else
            if t2670 < (1 : α) then
              if t2671 ≤ t2672 then
                if t2712 = (0 : α) then
                  ⟨(1 : α), ⟨(0 : α), (0 : α), (0 : α)⟩⟩
                else
                  ⟨t2713, ⟨t2714, t2715, t2716⟩⟩
              else
                if t2752 = (0 : α) then
                  ⟨(1 : α), ⟨(0 : α), (0 : α), (0 : α)⟩⟩
                else
                  ⟨t2753, ⟨t2754, t2755, t2756⟩⟩
            else
              if t2752 = (0 : α) then
                ⟨(1 : α), ⟨(0 : α), (0 : α), (0 : α)⟩⟩
              else
                ⟨t2753, ⟨t2754, t2755, t2756⟩⟩
    else
      if t1877 = (0 : α) then
        if t2480 < (1 : α) then
          if t2481 ≤ t2482 then
            if t2522 = (0 : α) then
              ⟨(1 : α), ⟨(0 : α), (0 : α), (0 : α)⟩⟩
            else
              ⟨t2523, ⟨t2524, t2525, t2526⟩⟩
          else
            if t2562 = (0 : α) then
              ⟨(1 : α), ⟨(0 : α), (0 : α), (0 : α)⟩⟩
            else
              ⟨t2563, ⟨t2564, t2565, t2566⟩⟩
        else
          if t2562 = (0 : α) then
            ⟨(1 : α), ⟨(0 : α), (0 : α), (0 : α)⟩⟩
          else
            ⟨t2563, ⟨t2564, t2565, t2566⟩⟩
      else
        if t1976 < (1 : α) then
          if t1977 ≤ t1978 then
            if t2575 < (1 : α) then
              if t2576 ≤ t2577 then
                if t2617 = (0 : α) then
                  ⟨(1 : α), ⟨(0 : α), (0 : α), (0 : α)⟩⟩
                else
                  ⟨t2618, ⟨t2619, t2620, t2621⟩⟩
              else
                if t2657 = (0 : α) then
                  ⟨(1 : α), ⟨(0 : α), (0 : α), (0 : α)⟩⟩
                else
                  ⟨t2658, ⟨t2659, t2660, t2661⟩⟩
            else
              if t2657 = (0 : α) then
                ⟨(1 : α), ⟨(0 : α), (0 : α), (0 : α)⟩⟩
              else
                ⟨t2658, ⟨t2659, t2660, t2661⟩⟩
          else
            if t2670 < (1 : α) then
              if t2671 ≤ t2672 then
                if t2712 = (0 : α) then
                  ⟨(1 : α), ⟨(0 : α), (0 : α), (0 : α)⟩⟩
                else
                  ⟨t2713, ⟨t2714, t2715, t2716⟩⟩
              else
                if t2752 = (0 : α) then
                  ⟨(1 : α), ⟨(0 : α), (0 : α), (0 : α)⟩⟩
                else
                  ⟨t2753, ⟨t2754, t2755, t2756⟩⟩
            else
              if t2752 = (0 : α) then
                ⟨(1 : α), ⟨(0 : α), (0 : α), (0 : α)⟩⟩
              else
                ⟨t2753, ⟨t2754, t2755, t2756⟩⟩
        else
          if t2670 < (1 : α) then
            if t2671 ≤ t2672 then
              if t2712 = (0 : α) then
                ⟨(1 : α), ⟨(0 : α), (0 : α), (0 : α)⟩⟩
              else
                ⟨t2713, ⟨t2714, t2715, t2716⟩⟩
            else
              if t2752 = (0 : α) then
                ⟨(1 : α), ⟨(0 : α), (0 : α), (0 : α)⟩⟩
              else
                ⟨t2753, ⟨t2754, t2755, t2756⟩⟩
          else
            if t2752 = (0 : α) then
              ⟨(1 : α), ⟨(0 : α), (0 : α), (0 : α)⟩⟩
            else
              ⟨t2753, ⟨t2754, t2755, t2756⟩⟩

end ImathVerif.Gen
