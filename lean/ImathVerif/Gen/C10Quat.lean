-- GENERATED from /repo/src/Imath by harness/sym (T = Sym path extraction); do not edit.
import ImathVerif.Basic.Types
import ImathVerif.Gen.Leaf
set_option linter.unusedVariables false
namespace ImathVerif.Gen
open ImathVerif

/-- extracted from the C++ template at T = Sym; 1 path(s) -/
def C10.Quat.rotateVector {α : Type} [Add α] [Sub α] [Mul α] [Neg α] [OfNat α 0] [OfNat α 1] (q : Quat α) (v : V3 α) : (V3 α) :=
  let t10 := (q.v.x * (-(1 : α)))
  let t11 := (q.v.y * (-(1 : α)))
  let t12 := (q.v.z * (-(1 : α)))
  let t31 := (((q.r * v.z) + (q.v.z * (0 : α))) + ((q.v.x * v.y) - (q.v.y * v.x)))
  let t32 := (((q.r * v.y) + (q.v.y * (0 : α))) + ((q.v.z * v.x) - (q.v.x * v.z)))
  let t33 := (((q.r * v.x) + (q.v.x * (0 : α))) + ((q.v.y * v.z) - (q.v.z * v.y)))
  let t40 := ((q.r * (0 : α)) - (((q.v.x * v.x) + (q.v.y * v.y)) + (q.v.z * v.z)))
  ⟨(((t40 * t10) + (t33 * q.r)) + ((t32 * t12) - (t31 * t11))), (((t40 * t11) + (t32 * q.r)) + ((t31 * t10) - (t33 * t12))), (((t40 * t12) + (t31 * q.r)) + ((t33 * t11) - (t32 * t10)))⟩

/-- extracted from the C++ template at T = Sym; 1 path(s) -/
def C10.V3.mulQuat {α : Type} [Add α] [Sub α] [Mul α] [OfNat α 2] (v : V3 α) (q : Quat α) : (V3 α) :=
  let t15 := ((q.v.x * v.y) - (q.v.y * v.x))
  let t18 := ((q.v.z * v.x) - (q.v.x * v.z))
  let t21 := ((q.v.y * v.z) - (q.v.z * v.y))
  ⟨(v.x + ((2 : α) * ((q.r * t21) + ((q.v.y * t15) - (q.v.z * t18))))), (v.y + ((2 : α) * ((q.r * t18) + ((q.v.z * t21) - (q.v.x * t15))))), (v.z + ((2 : α) * ((q.r * t15) + ((q.v.x * t18) - (q.v.y * t21)))))⟩

/-- extracted from the C++ template at T = Sym; 1 path(s) -/
def C10.Quat.toMatrix33 {α : Type} [Add α] [Sub α] [Mul α] [OfNat α 1] [OfNat α 2] (q : Quat α) : (M33 α) :=
  let t91 := (q.v.x * q.v.x)
  let t92 := (q.v.y * q.v.y)
  let t96 := (q.v.x * q.r)
  let t97 := (q.v.y * q.v.z)
  let t100 := (q.v.y * q.r)
  let t101 := (q.v.z * q.v.x)
  let t106 := (q.v.z * q.v.z)
  let t110 := (q.v.z * q.r)
  let t111 := (q.v.x * q.v.y)
  ⟨((1 : α) - ((2 : α) * (t92 + t106))), ((2 : α) * (t111 + t110)), ((2 : α) * (t101 - t100)), ((2 : α) * (t111 - t110)), ((1 : α) - ((2 : α) * (t106 + t91))), ((2 : α) * (t97 + t96)), ((2 : α) * (t101 + t100)), ((2 : α) * (t97 - t96)), ((1 : α) - ((2 : α) * (t92 + t91)))⟩

/-- extracted from the C++ template at T = Sym; 1 path(s) -/
def C10.Quat.toMatrix44 {α : Type} [Add α] [Sub α] [Mul α] [OfNat α 0] [OfNat α 1] [OfNat α 2] (q : Quat α) : (M44 α) :=
  let t91 := (q.v.x * q.v.x)
  let t92 := (q.v.y * q.v.y)
  let t96 := (q.v.x * q.r)
  let t97 := (q.v.y * q.v.z)
  let t100 := (q.v.y * q.r)
  let t101 := (q.v.z * q.v.x)
  let t106 := (q.v.z * q.v.z)
  let t110 := (q.v.z * q.r)
  let t111 := (q.v.x * q.v.y)
  ⟨((1 : α) - ((2 : α) * (t92 + t106))), ((2 : α) * (t111 + t110)), ((2 : α) * (t101 - t100)), (0 : α), ((2 : α) * (t111 - t110)), ((1 : α) - ((2 : α) * (t106 + t91))), ((2 : α) * (t97 + t96)), (0 : α), ((2 : α) * (t101 + t100)), ((2 : α) * (t97 - t96)), ((1 : α) - ((2 : α) * (t92 + t91))), (0 : α), (0 : α), (0 : α), (0 : α), (1 : α)⟩

/-- extracted from the C++ template at T = Sym; 1 path(s) -/
def C10.M33.mulQuat {α : Type} [Add α] [Sub α] [Mul α] [OfNat α 1] [OfNat α 2] (m : M33 α) (q : Quat α) : (M33 α) :=
  let t91 := (q.v.x * q.v.x)
  let t92 := (q.v.y * q.v.y)
  let t95 := ((1 : α) - ((2 : α) * (t92 + t91)))
  let t96 := (q.v.x * q.r)
  let t97 := (q.v.y * q.v.z)
  let t99 := ((2 : α) * (t97 - t96))
  let t100 := (q.v.y * q.r)
  let t101 := (q.v.z * q.v.x)
  let t103 := ((2 : α) * (t101 + t100))
  let t105 := ((2 : α) * (t97 + t96))
  let t106 := (q.v.z * q.v.z)
  let t109 := ((1 : α) - ((2 : α) * (t106 + t91)))
  let t110 := (q.v.z * q.r)
  let t111 := (q.v.x * q.v.y)
  let t113 := ((2 : α) * (t111 - t110))
  let t115 := ((2 : α) * (t101 - t100))
  let t117 := ((2 : α) * (t111 + t110))
  let t120 := ((1 : α) - ((2 : α) * (t92 + t106)))
  ⟨(((m.x00 * t120) + (m.x01 * t113)) + (m.x02 * t103)), (((m.x00 * t117) + (m.x01 * t109)) + (m.x02 * t99)), (((m.x00 * t115) + (m.x01 * t105)) + (m.x02 * t95)), (((m.x10 * t120) + (m.x11 * t113)) + (m.x12 * t103)), (((m.x10 * t117) + (m.x11 * t109)) + (m.x12 * t99)), (((m.x10 * t115) + (m.x11 * t105)) + (m.x12 * t95)), (((m.x20 * t120) + (m.x21 * t113)) + (m.x22 * t103)), (((m.x20 * t117) + (m.x21 * t109)) + (m.x22 * t99)), (((m.x20 * t115) + (m.x21 * t105)) + (m.x22 * t95))⟩

/-- extracted from the C++ template at T = Sym; 1 path(s) -/
def C10.Quat.mulM33 {α : Type} [Add α] [Sub α] [Mul α] [OfNat α 1] [OfNat α 2] (q : Quat α) (m : M33 α) : (M33 α) :=
  let t91 := (q.v.x * q.v.x)
  let t92 := (q.v.y * q.v.y)
  let t95 := ((1 : α) - ((2 : α) * (t92 + t91)))
  let t96 := (q.v.x * q.r)
  let t97 := (q.v.y * q.v.z)
  let t99 := ((2 : α) * (t97 - t96))
  let t100 := (q.v.y * q.r)
  let t101 := (q.v.z * q.v.x)
  let t103 := ((2 : α) * (t101 + t100))
  let t105 := ((2 : α) * (t97 + t96))
  let t106 := (q.v.z * q.v.z)
  let t109 := ((1 : α) - ((2 : α) * (t106 + t91)))
  let t110 := (q.v.z * q.r)
  let t111 := (q.v.x * q.v.y)
  let t113 := ((2 : α) * (t111 - t110))
  let t115 := ((2 : α) * (t101 - t100))
  let t117 := ((2 : α) * (t111 + t110))
  let t120 := ((1 : α) - ((2 : α) * (t92 + t106)))
  ⟨(((t120 * m.x00) + (t117 * m.x10)) + (t115 * m.x20)), (((t120 * m.x01) + (t117 * m.x11)) + (t115 * m.x21)), (((t120 * m.x02) + (t117 * m.x12)) + (t115 * m.x22)), (((t113 * m.x00) + (t109 * m.x10)) + (t105 * m.x20)), (((t113 * m.x01) + (t109 * m.x11)) + (t105 * m.x21)), (((t113 * m.x02) + (t109 * m.x12)) + (t105 * m.x22)), (((t103 * m.x00) + (t99 * m.x10)) + (t95 * m.x20)), (((t103 * m.x01) + (t99 * m.x11)) + (t95 * m.x21)), (((t103 * m.x02) + (t99 * m.x12)) + (t95 * m.x22))⟩

/-- extracted from the C++ template at T = Sym; 1 path(s) -/
def C10.V3.mulM33 {α : Type} [Add α] [Mul α] (v : V3 α) (m : M33 α) : (V3 α) :=
  ⟨(((v.x * m.x00) + (v.y * m.x10)) + (v.z * m.x20)), (((v.x * m.x01) + (v.y * m.x11)) + (v.z * m.x21)), (((v.x * m.x02) + (v.y * m.x12)) + (v.z * m.x22))⟩

/-- extracted from the C++ template at T = Sym; 1 path(s) -/
def C10.V3.mulM44 {α : Type} [Add α] [Mul α] [Div α] (v : V3 α) (m : M44 α) : (V3 α) :=
  let t250 := ((((v.x * m.x03) + (v.y * m.x13)) + (v.z * m.x23)) + m.x33)
  ⟨(((((v.x * m.x00) + (v.y * m.x10)) + (v.z * m.x20)) + m.x30) / t250), (((((v.x * m.x01) + (v.y * m.x11)) + (v.z * m.x21)) + m.x31) / t250), (((((v.x * m.x02) + (v.y * m.x12)) + (v.z * m.x22)) + m.x32) / t250)⟩

/-- extracted from the C++ template at T = Sym; 1 path(s) -/
def C10.M44.multDirMatrix {α : Type} [Add α] [Mul α] (m : M44 α) (v : V3 α) : (V3 α) :=
  ⟨(((v.x * m.x00) + (v.y * m.x10)) + (v.z * m.x20)), (((v.x * m.x01) + (v.y * m.x11)) + (v.z * m.x21)), (((v.x * m.x02) + (v.y * m.x12)) + (v.z * m.x22))⟩

/-- extracted from the C++ template at T = Sym; 1 path(s) -/
def C10.M33.mul {α : Type} [Add α] [Mul α] (a : M33 α) (b : M33 α) : (M33 α) :=
  ⟨(((a.x00 * b.x00) + (a.x01 * b.x10)) + (a.x02 * b.x20)), (((a.x00 * b.x01) + (a.x01 * b.x11)) + (a.x02 * b.x21)), (((a.x00 * b.x02) + (a.x01 * b.x12)) + (a.x02 * b.x22)), (((a.x10 * b.x00) + (a.x11 * b.x10)) + (a.x12 * b.x20)), (((a.x10 * b.x01) + (a.x11 * b.x11)) + (a.x12 * b.x21)), (((a.x10 * b.x02) + (a.x11 * b.x12)) + (a.x12 * b.x22)), (((a.x20 * b.x00) + (a.x21 * b.x10)) + (a.x22 * b.x20)), (((a.x20 * b.x01) + (a.x21 * b.x11)) + (a.x22 * b.x21)), (((a.x20 * b.x02) + (a.x21 * b.x12)) + (a.x22 * b.x22))⟩

/-- extracted from the C++ template at T = Sym; 1 path(s) -/
def C10.M44.mul {α : Type} [Add α] [Mul α] (a : M44 α) (b : M44 α) : (M44 α) :=
  ⟨((((a.x00 * b.x00) + (a.x01 * b.x10)) + (a.x02 * b.x20)) + (a.x03 * b.x30)), ((((a.x00 * b.x01) + (a.x01 * b.x11)) + (a.x02 * b.x21)) + (a.x03 * b.x31)), ((((a.x00 * b.x02) + (a.x01 * b.x12)) + (a.x02 * b.x22)) + (a.x03 * b.x32)), ((((a.x00 * b.x03) + (a.x01 * b.x13)) + (a.x02 * b.x23)) + (a.x03 * b.x33)), ((((a.x10 * b.x00) + (a.x11 * b.x10)) + (a.x12 * b.x20)) + (a.x13 * b.x30)), ((((a.x10 * b.x01) + (a.x11 * b.x11)) + (a.x12 * b.x21)) + (a.x13 * b.x31)), ((((a.x10 * b.x02) + (a.x11 * b.x12)) + (a.x12 * b.x22)) + (a.x13 * b.x32)), ((((a.x10 * b.x03) + (a.x11 * b.x13)) + (a.x12 * b.x23)) + (a.x13 * b.x33)), ((((a.x20 * b.x00) + (a.x21 * b.x10)) + (a.x22 * b.x20)) + (a.x23 * b.x30)), ((((a.x20 * b.x01) + (a.x21 * b.x11)) + (a.x22 * b.x21)) + (a.x23 * b.x31)), ((((a.x20 * b.x02) + (a.x21 * b.x12)) + (a.x22 * b.x22)) + (a.x23 * b.x32)), ((((a.x20 * b.x03) + (a.x21 * b.x13)) + (a.x22 * b.x23)) + (a.x23 * b.x33)), ((((a.x30 * b.x00) + (a.x31 * b.x10)) + (a.x32 * b.x20)) + (a.x33 * b.x30)), ((((a.x30 * b.x01) + (a.x31 * b.x11)) + (a.x32 * b.x21)) + (a.x33 * b.x31)), ((((a.x30 * b.x02) + (a.x31 * b.x12)) + (a.x32 * b.x22)) + (a.x33 * b.x32)), ((((a.x30 * b.x03) + (a.x31 * b.x13)) + (a.x32 * b.x23)) + (a.x33 * b.x33))⟩

/-- extracted from the C++ template at T = Sym; 1 path(s) -/
def C10.M33.transposed {α : Type} (a : M33 α) : (M33 α) :=
  ⟨a.x00, a.x10, a.x20, a.x01, a.x11, a.x21, a.x02, a.x12, a.x22⟩

/-- extracted from the C++ template at T = Sym; 1 path(s) -/
def C10.M33.determinant {α : Type} [Add α] [Sub α] [Mul α] (a : M33 α) : α :=
  (((a.x00 * ((a.x11 * a.x22) - (a.x12 * a.x21))) + (a.x01 * ((a.x12 * a.x20) - (a.x10 * a.x22)))) + (a.x02 * ((a.x10 * a.x21) - (a.x11 * a.x20))))

/-- extracted from the C++ template at T = Sym; 1 path(s) -/
def C10.Quat.mul {α : Type} [Add α] [Sub α] [Mul α] (a : Quat α) (b : Quat α) : (Quat α) :=
  ⟨((a.r * b.r) - (((a.v.x * b.v.x) + (a.v.y * b.v.y)) + (a.v.z * b.v.z))), ⟨(((a.r * b.v.x) + (a.v.x * b.r)) + ((a.v.y * b.v.z) - (a.v.z * b.v.y))), (((a.r * b.v.y) + (a.v.y * b.r)) + ((a.v.z * b.v.x) - (a.v.x * b.v.z))), (((a.r * b.v.z) + (a.v.z * b.r)) + ((a.v.x * b.v.y) - (a.v.y * b.v.x)))⟩⟩

/-- extracted from the C++ template at T = Sym; 1 path(s) -/
def C10.Quat.conj {α : Type} [Neg α] (q : Quat α) : (Quat α) :=
  ⟨q.r, ⟨(-q.v.x), (-q.v.y), (-q.v.z)⟩⟩

/-- extracted from the C++ template at T = Sym; 1 path(s) -/
def C10.Quat.neg {α : Type} [Neg α] (q : Quat α) : (Quat α) :=
  ⟨(-q.r), ⟨(-q.v.x), (-q.v.y), (-q.v.z)⟩⟩

/-- extracted from the C++ template at T = Sym; 1 path(s) -/
def C10.Quat.inverse {α : Type} [Add α] [Mul α] [Div α] [Neg α] (q : Quat α) : (Quat α) :=
  let t455 := ((q.r * q.r) + (((q.v.x * q.v.x) + (q.v.y * q.v.y)) + (q.v.z * q.v.z)))
  ⟨(q.r / t455), ⟨((-q.v.x) / t455), ((-q.v.y) / t455), ((-q.v.z) / t455)⟩⟩

/-- extracted from the C++ template at T = Sym; 1 path(s) -/
def C10.Quat.invert {α : Type} [Add α] [Mul α] [Div α] [Neg α] (q : Quat α) : (Quat α) :=
  let t455 := ((q.r * q.r) + (((q.v.x * q.v.x) + (q.v.y * q.v.y)) + (q.v.z * q.v.z)))
  ⟨(q.r / t455), ⟨((-q.v.x) / t455), ((-q.v.y) / t455), ((-q.v.z) / t455)⟩⟩

/-- extracted from the C++ template at T = Sym; 1 path(s) -/
def C10.Quat.invertRet {α : Type} [Add α] [Mul α] [Div α] [Neg α] (q : Quat α) : (Quat α) :=
  let t455 := ((q.r * q.r) + (((q.v.x * q.v.x) + (q.v.y * q.v.y)) + (q.v.z * q.v.z)))
  ⟨(q.r / t455), ⟨((-q.v.x) / t455), ((-q.v.y) / t455), ((-q.v.z) / t455)⟩⟩

/-- extracted from the C++ template at T = Sym; 1 path(s) -/
def C10.Quat.div {α : Type} [Add α] [Sub α] [Mul α] [Div α] [Neg α] (a : Quat α) (b : Quat α) : (Quat α) :=
  let t466 := ((b.r * b.r) + (((b.v.x * b.v.x) + (b.v.y * b.v.y)) + (b.v.z * b.v.z)))
  let t470 := ((-b.v.z) / t466)
  let t471 := ((-b.v.y) / t466)
  let t472 := ((-b.v.x) / t466)
  let t473 := (b.r / t466)
  ⟨((a.r * t473) - (((a.v.x * t472) + (a.v.y * t471)) + (a.v.z * t470))), ⟨(((a.r * t472) + (a.v.x * t473)) + ((a.v.y * t470) - (a.v.z * t471))), (((a.r * t471) + (a.v.y * t473)) + ((a.v.z * t472) - (a.v.x * t470))), (((a.r * t470) + (a.v.z * t473)) + ((a.v.x * t471) - (a.v.y * t472)))⟩⟩

/-- extracted from the C++ template at T = Sym; 1 path(s) -/
def C10.Quat.divAssign {α : Type} [Add α] [Sub α] [Mul α] [Div α] [Neg α] (a : Quat α) (b : Quat α) : (Quat α) :=
  let t466 := ((b.r * b.r) + (((b.v.x * b.v.x) + (b.v.y * b.v.y)) + (b.v.z * b.v.z)))
  let t470 := ((-b.v.z) / t466)
  let t471 := ((-b.v.y) / t466)
  let t472 := ((-b.v.x) / t466)
  let t473 := (b.r / t466)
  ⟨((a.r * t473) - (((a.v.x * t472) + (a.v.y * t471)) + (a.v.z * t470))), ⟨(((a.r * t472) + (a.v.x * t473)) + ((a.v.y * t470) - (a.v.z * t471))), (((a.r * t471) + (a.v.y * t473)) + ((a.v.z * t472) - (a.v.x * t470))), (((a.r * t470) + (a.v.z * t473)) + ((a.v.x * t471) - (a.v.y * t472)))⟩⟩

/-- extracted from the C++ template at T = Sym; 1 path(s) -/
def C10.Quat.dot4 {α : Type} [Add α] [Mul α] (a : Quat α) (b : Quat α) : α :=
  ((a.r * b.r) + (((a.v.x * b.v.x) + (a.v.y * b.v.y)) + (a.v.z * b.v.z)))

/-- extracted from the C++ template at T = Sym; 1 path(s) -/
def C10.Quat.length {α : Type} [Add α] [Mul α] (sqrt : α → α) (q : Quat α) : α :=
  (sqrt ((q.r * q.r) + (((q.v.x * q.v.x) + (q.v.y * q.v.y)) + (q.v.z * q.v.z))))

/-- extracted from the C++ template at T = Sym; 2 path(s) -/
def C10.Quat.normalize {α : Type} [Add α] [Mul α] [Div α] [DecidableEq α] [OfNat α 0] [OfNat α 1] (sqrt : α → α) (q : Quat α) : (Quat α) :=
  let t503 := (sqrt ((q.r * q.r) + (((q.v.x * q.v.x) + (q.v.y * q.v.y)) + (q.v.z * q.v.z))))
  if t503 = (0 : α) then
    ⟨(1 : α), ⟨(0 : α), (0 : α), (0 : α)⟩⟩
  else
    ⟨(q.r / t503), ⟨(q.v.x / t503), (q.v.y / t503), (q.v.z / t503)⟩⟩

/-- extracted from the C++ template at T = Sym; 2 path(s) -/
def C10.Quat.normalized {α : Type} [Add α] [Mul α] [Div α] [DecidableEq α] [OfNat α 0] [OfNat α 1] (sqrt : α → α) (q : Quat α) : (Quat α) :=
  let t503 := (sqrt ((q.r * q.r) + (((q.v.x * q.v.x) + (q.v.y * q.v.y)) + (q.v.z * q.v.z))))
  if t503 = (0 : α) then
    ⟨(1 : α), ⟨(0 : α), (0 : α), (0 : α)⟩⟩
  else
    ⟨(q.r / t503), ⟨(q.v.x / t503), (q.v.y / t503), (q.v.z / t503)⟩⟩

/-- extracted from the C++ template at T = Sym; 4 path(s) -/
def C10.Quat.log {α : Type} [Mul α] [Div α] [Neg α] [LT α] [LE α] [DecidableLT α] [DecidableLE α] [DecidableEq α] [OfNat α 0] [OfNat α 1] (tmax : α) (sin : α → α) (acos : α → α) (q : Quat α) : (Quat α) :=
  let t509 := (acos (smin q.r (1 : α)))
  let t510 := (sin t509)
  let t511 := (sabs t510)
  let t513 := (tmax * t511)
  let t514 := (sabs t509)
  let t518 := (t509 / t510)
  let t519 := (q.v.z * t518)
  let t520 := (q.v.y * t518)
  let t521 := (q.v.x * t518)
  if t509 = (0 : α) then
    ⟨(0 : α), ⟨q.v.x, q.v.y, q.v.z⟩⟩
  else
    if t511 < (1 : α) then
      if t513 ≤ t514 then
        ⟨(0 : α), ⟨(q.v.x * (1 : α)), (q.v.y * (1 : α)), (q.v.z * (1 : α))⟩⟩
      else
        ⟨(0 : α), ⟨t521, t520, t519⟩⟩
    else
      ⟨(0 : α), ⟨t521, t520, t519⟩⟩

/-- extracted from the C++ template at T = Sym; 3 path(s) -/
def C10.Quat.exp {α : Type} [Add α] [Mul α] [Div α] [Neg α] [LT α] [LE α] [DecidableLT α] [DecidableLE α] [DecidableEq α] [OfNat α 0] [OfNat α 1] [OfNat α 2] (tmin : α) (tmax : α) (sqrt : α → α) (sin : α → α) (cos : α → α) (q : Quat α) : (Quat α) :=
  let t522 := (V3.length tmin tmax sqrt ⟨q.v.x, q.v.y, q.v.z⟩)
  let t523 := (sin t522)
  let t524 := (sabs t522)
  let t525 := (tmax * t524)
  let t526 := (sabs t523)
  let t527 := (cos t522)
  let t528 := (t523 / t522)
  let t529 := (q.v.z * t528)
  let t530 := (q.v.y * t528)
  let t531 := (q.v.x * t528)
  if t524 < (1 : α) then
    if t525 ≤ t526 then
      ⟨t527, ⟨(q.v.x * (1 : α)), (q.v.y * (1 : α)), (q.v.z * (1 : α))⟩⟩
    else
      ⟨t527, ⟨t531, t530, t529⟩⟩
  else
    ⟨t527, ⟨t531, t530, t529⟩⟩

/-- extracted from the C++ template at T = Sym; 1 path(s) -/
def C10.Quat.angle {α : Type} [Add α] [Mul α] [Div α] [Neg α] [LT α] [LE α] [DecidableLT α] [DecidableLE α] [DecidableEq α] [OfNat α 0] [OfNat α 2] (tmin : α) (tmax : α) (sqrt : α → α) (atan2 : α → α → α) (q : Quat α) : α :=
  ((2 : α) * (atan2 (V3.length tmin tmax sqrt ⟨q.v.x, q.v.y, q.v.z⟩) q.r))

/-- extracted from the C++ template at T = Sym; 2 path(s) -/
def C10.Quat.axis {α : Type} [Add α] [Mul α] [Div α] [Neg α] [LT α] [LE α] [DecidableLT α] [DecidableLE α] [DecidableEq α] [OfNat α 0] [OfNat α 2] (tmin : α) (tmax : α) (sqrt : α → α) (q : Quat α) : (V3 α) :=
  let t522 := (V3.length tmin tmax sqrt ⟨q.v.x, q.v.y, q.v.z⟩)
  if t522 = (0 : α) then
    ⟨(0 : α), (0 : α), (0 : α)⟩
  else
    ⟨(q.v.x / t522), (q.v.y / t522), (q.v.z / t522)⟩

/-- extracted from the C++ template at T = Sym; 2 path(s) -/
def C10.Quat.setAxisAngle {α : Type} [Add α] [Mul α] [Div α] [Neg α] [LT α] [LE α] [DecidableLT α] [DecidableLE α] [DecidableEq α] [OfNat α 0] [OfNat α 2] (tmin : α) (tmax : α) (sqrt : α → α) (sin : α → α) (cos : α → α) (q : Quat α) (axis : V3 α) (radians : α) : (Quat α) :=
  let t541 := (radians / (2 : α))
  let t542 := (cos t541)
  let t543 := (sin t541)
  let t544 := (V3.length tmin tmax sqrt ⟨axis.x, axis.y, axis.z⟩)
  let t545 := ((0 : α) * t543)
  if t544 = (0 : α) then
    ⟨t542, ⟨t545, t545, t545⟩⟩
  else
    ⟨t542, ⟨((axis.x / t544) * t543), ((axis.y / t544) * t543), ((axis.z / t544) * t543)⟩⟩

/-- extracted from the C++ template at T = Sym; 115 path(s) -/
def C10.Quat.setRotation {α : Type} [Add α] [Sub α] [Mul α] [Div α] [Neg α] [LT α] [LE α] [DecidableLT α] [DecidableLE α] [DecidableEq α] [OfNat α 0] [OfNat α 1] [OfNat α 2] [OfNat α 8] (tmin : α) (tmax : α) (teps : α) (sqrt : α → α) (q : Quat α) (vfrom : V3 α) (vto : V3 α) : (Quat α) :=
  let t558 := (V3.length tmin tmax sqrt ⟨vfrom.x, vfrom.y, vfrom.z⟩)
  let t559 := (V3.length tmin tmax sqrt ⟨vto.x, vto.y, vto.z⟩)
  let t560 := ((0 : α) * (0 : α))
  let t562 := ((t560 + t560) + t560)
  let t563 := ((0 : α) + (0 : α))
  let t564 := (V3.length tmin tmax sqrt ⟨t563, t563, t563⟩)
  let t565 := (t560 - t560)
  let t566 := (t563 / t564)
  let t567 := ((0 : α) * t566)
  let t569 := ((t567 + t567) + t567)
  let t570 := (t567 - t567)
  let t573 := ((8 : α) * teps)
  let t574 := (t573 * t573)
  let t575 := (t563 * t563)
  let t577 := ((t575 + t575) + t575)
  let t578 := (t565 * t565)
  let t582 := ((t562 * t562) - ((t578 + t578) + t578))
  let t587 := (((t562 * t565) + (t565 * t562)) + (t578 - t578))
  let t588 := (t566 * t566)
  let t590 := ((t588 + t588) + t588)
  let t591 := ((0 : α) * (1 : α))
  let t592 := (t560 - t591)
  let t593 := (t591 - t560)
  let t594 := (V3.length tmin tmax sqrt ⟨t565, t593, t592⟩)
  let t595 := (t592 / t594)
  let t596 := (t593 / t594)
  let t597 := (t565 / t594)
  let t598 := ((0 : α) + t566)
  let t599 := (V3.length tmin tmax sqrt ⟨t598, t598, t598⟩)
  let t600 := (t566 + (0 : α))
  let t601 := (V3.length tmin tmax sqrt ⟨t600, t600, t600⟩)
  let t602 := (t566 * (0 : α))
  let t604 := ((t602 + t602) + t602)
  let t605 := (t602 - t602)
  let t606 := (t565 * t605)
  let t615 := (((t562 * t605) + (t565 * t604)) + (t606 - t606))
  let t617 := (t566 * (t600 / t601))
  let t619 := ((t617 + t617) + t617)
  let t620 := (t617 - t617)
  let t621 := (t565 * t620)
  let t630 := (((t562 * t620) + (t565 * t619)) + (t621 - t621))
  let t632 := ((0 : α) * (t598 / t599))
  let t634 := ((t632 + t632) + t632)
  let t635 := (t632 - t632)
  let t636 := (t635 * t605)
  let t645 := (((t634 * t605) + (t635 * t604)) + (t636 - t636))
  let t646 := (t635 * t620)
  let t655 := (((t634 * t620) + (t635 * t619)) + (t646 - t646))
  let t656 := (t570 * t570)
  let t665 := (((t569 * t570) + (t570 * t569)) + (t656 - t656))
  let t666 := (vto.z / t559)
  let t667 := (vto.y / t559)
  let t668 := (vto.x / t559)
  let t673 := ((((0 : α) * t668) + ((0 : α) * t667)) + ((0 : α) * t666))
  let t674 := ((0 : α) + t666)
  let t675 := ((0 : α) + t667)
  let t676 := ((0 : α) + t668)
  let t677 := (V3.length tmin tmax sqrt ⟨t676, t675, t674⟩)
  let t678 := (t674 / t677)
  let t679 := (t675 / t677)
  let t680 := (t676 / t677)
  let t681 := ((0 : α) * t678)
  let t682 := ((0 : α) * t679)
  let t683 := ((0 : α) * t680)
  let t685 := ((t683 + t682) + t681)
  let t686 := (t682 - t683)
  let t687 := (t683 - t681)
  let t688 := (t681 - t682)
  let t693 := (((t676 * t676) + (t675 * t675)) + (t674 * t674))
  let t694 := (t570 * t565)
  let t698 := ((t569 * t562) - ((t694 + t694) + t694))
  let t703 := (((t569 * t565) + (t570 * t562)) + (t694 - t694))
  let t708 := (((t680 * t680) + (t679 * t679)) + (t678 * t678))
  let t709 := ((0 : α) + t678)
  let t710 := ((0 : α) + t679)
  let t711 := ((0 : α) + t680)
  let t712 := (V3.length tmin tmax sqrt ⟨t711, t710, t709⟩)
  let t713 := (t678 + t666)
  let t714 := (t679 + t667)
  let t715 := (t680 + t668)
  let t716 := (V3.length tmin tmax sqrt ⟨t715, t714, t713⟩)
  let t717 := (t678 * (0 : α))
  let t718 := (t679 * (0 : α))
  let t719 := (t680 * (0 : α))
  let t721 := ((t719 + t718) + t717)
  let t722 := (t719 - t718)
  let t723 := (t717 - t719)
  let t724 := (t718 - t717)
  let t725 := (t565 * t722)
  let t726 := (t565 * t723)
  let t727 := (t565 * t724)
  let t735 := (t565 * t721)
  let t745 := (t713 / t716)
  let t746 := (t714 / t716)
  let t747 := (t715 / t716)
  let t752 := (((t680 * t747) + (t679 * t746)) + (t678 * t745))
  let t755 := ((t680 * t746) - (t679 * t747))
  let t758 := ((t678 * t747) - (t680 * t745))
  let t761 := ((t679 * t745) - (t678 * t746))
  let t762 := (t565 * t755)
  let t763 := (t565 * t758)
  let t764 := (t565 * t761)
  let t772 := (t565 * t752)
  let t785 := ((0 : α) * (t709 / t712))
  let t786 := ((0 : α) * (t710 / t712))
  let t787 := ((0 : α) * (t711 / t712))
  let t789 := ((t787 + t786) + t785)
  let t790 := (t786 - t787)
  let t791 := (t787 - t785)
  let t792 := (t785 - t786)
  let t849 := (t565 * t686)
  let t850 := (t565 * t687)
  let t851 := (t565 * t688)
  let t859 := (t565 * t685)
  let t869 := (t570 * t686)
  let t870 := (t570 * t687)
  let t871 := (t570 * t688)
  let t879 := (t570 * t685)
  let t889 := (vfrom.z / t558)
  let t890 := (vfrom.y / t558)
  let t891 := (vfrom.x / t558)
  let t892 := (t889 * (0 : α))
  let t893 := (t890 * (0 : α))
  let t894 := (t891 * (0 : α))
  let t896 := ((t894 + t893) + t892)
  let t897 := (t889 + (0 : α))
  let t898 := (t890 + (0 : α))
  let t899 := (t891 + (0 : α))
  let t900 := (V3.length tmin tmax sqrt ⟨t899, t898, t897⟩)
  let t901 := (t894 - t893)
  let t902 := (t892 - t894)
  let t903 := (t893 - t892)
  let t904 := (t897 / t900)
  let t905 := (t898 / t900)
  let t906 := (t899 / t900)
  let t911 := (((t891 * t906) + (t890 * t905)) + (t889 * t904))
  let t914 := ((t891 * t905) - (t890 * t906))
  let t917 := ((t889 * t906) - (t891 * t904))
  let t920 := ((t890 * t904) - (t889 * t905))
  let t925 := (((t899 * t899) + (t898 * t898)) + (t897 * t897))
  let t926 := (t889 * t889)
  let t927 := (t890 * t890)
  let t928 := (t891 * t891)
  let t929 := (t890 * (1 : α))
  let t930 := (t894 - t929)
  let t931 := (t889 * (1 : α))
  let t932 := (t931 - t894)
  let t933 := (V3.length tmin tmax sqrt ⟨t903, t932, t930⟩)
  let t934 := (t930 / t933)
  let t935 := (t932 / t933)
  let t936 := (t903 / t933)
  let t937 := (t891 * (1 : α))
  let t938 := (t937 - t893)
  let t939 := (t893 - t931)
  let t940 := (V3.length tmin tmax sqrt ⟨t939, t902, t938⟩)
  let t941 := (t938 / t940)
  let t942 := (t902 / t940)
  let t943 := (t939 / t940)
  let t944 := (t892 - t937)
  let t945 := (t929 - t892)
  let t946 := (V3.length tmin tmax sqrt ⟨t945, t944, t901⟩)
  let t947 := (t901 / t946)
  let t948 := (t944 / t946)
  let t949 := (t945 / t946)
  let t950 := (t901 * t565)
  let t951 := (t902 * t565)
  let t952 := (t903 * t565)
  let t956 := ((t896 * t562) - ((t952 + t951) + t950))
  let t963 := (t896 * t565)
  let t967 := ((t963 + (t901 * t562)) + (t952 - t951))
  let t968 := ((t963 + (t902 * t562)) + (t950 - t952))
  let t969 := ((t963 + (t903 * t562)) + (t951 - t950))
  let t970 := (t901 * t570)
  let t971 := (t902 * t570)
  let t972 := (t903 * t570)
  let t976 := ((t896 * t569) - ((t972 + t971) + t970))
  let t983 := (t896 * t570)
  let t987 := ((t983 + (t901 * t569)) + (t972 - t971))
  let t988 := ((t983 + (t902 * t569)) + (t970 - t972))
  let t989 := ((t983 + (t903 * t569)) + (t971 - t970))
  let t994 := (((t906 * t906) + (t905 * t905)) + (t904 * t904))
  let t995 := (t889 + t904)
  let t996 := (t890 + t905)
  let t997 := (t891 + t906)
  let t998 := (V3.length tmin tmax sqrt ⟨t997, t996, t995⟩)
  let t999 := (t904 + (0 : α))
  let t1000 := (t905 + (0 : α))
  let t1001 := (t906 + (0 : α))
  let t1002 := (V3.length tmin tmax sqrt ⟨t1001, t1000, t999⟩)
  let t1003 := (t904 * (0 : α))
  let t1004 := (t905 * (0 : α))
  let t1005 := (t906 * (0 : α))
  let t1007 := ((t1005 + t1004) + t1003)
  let t1008 := (t1005 - t1004)
  let t1009 := (t1003 - t1005)
  let t1010 := (t1004 - t1003)
  let t1039 := (t999 / t1002)
  let t1040 := (t1000 / t1002)
  let t1041 := (t1001 / t1002)
  let t1046 := (((t906 * t1041) + (t905 * t1040)) + (t904 * t1039))
  let t1049 := ((t906 * t1040) - (t905 * t1041))
  let t1052 := ((t904 * t1041) - (t906 * t1039))
  let t1055 := ((t905 * t1039) - (t904 * t1040))
  let t1084 := (t995 / t998)
  let t1085 := (t996 / t998)
  let t1086 := (t997 / t998)
  let t1091 := (((t891 * t1086) + (t890 * t1085)) + (t889 * t1084))
  let t1094 := ((t891 * t1085) - (t890 * t1086))
  let t1097 := ((t889 * t1086) - (t891 * t1084))
  let t1100 := ((t890 * t1084) - (t889 * t1085))
  let t1157 := (t914 * t565)
  let t1158 := (t917 * t565)
  let t1159 := (t920 * t565)
  let t1163 := ((t911 * t562) - ((t1159 + t1158) + t1157))
  let t1170 := (t911 * t565)
  let t1174 := ((t1170 + (t914 * t562)) + (t1159 - t1158))
  let t1175 := ((t1170 + (t917 * t562)) + (t1157 - t1159))
  let t1176 := ((t1170 + (t920 * t562)) + (t1158 - t1157))
  let t1177 := (t914 * t570)
  let t1178 := (t917 * t570)
  let t1179 := (t920 * t570)
  let t1190 := (t911 * t570)
  let t1201 := (((t891 * t668) + (t890 * t667)) + (t889 * t666))
  let t1202 := (t889 + t666)
  let t1203 := (t890 + t667)
  let t1204 := (t891 + t668)
  let t1205 := (V3.length tmin tmax sqrt ⟨t1204, t1203, t1202⟩)
  let t1206 := (t1202 / t1205)
  let t1207 := (t1203 / t1205)
  let t1208 := (t1204 / t1205)
  let t1227 := (((t1204 * t1204) + (t1203 * t1203)) + (t1202 * t1202))
  let t1234 := ((t896 * t685) - (((t903 * t688) + (t902 * t687)) + (t901 * t686)))
  let t1253 := (((t896 * t686) + (t901 * t685)) + ((t903 * t687) - (t902 * t688)))
  let t1254 := (((t896 * t687) + (t902 * t685)) + ((t901 * t688) - (t903 * t686)))
  let t1255 := (((t896 * t688) + (t903 * t685)) + ((t902 * t686) - (t901 * t687)))
  let t1262 := ((t911 * t685) - (((t920 * t688) + (t917 * t687)) + (t914 * t686)))
  let t1281 := (((t911 * t686) + (t914 * t685)) + ((t920 * t687) - (t917 * t688)))
  let t1282 := (((t911 * t687) + (t917 * t685)) + ((t914 * t688) - (t920 * t686)))
  let t1283 := (((t911 * t688) + (t920 * t685)) + ((t917 * t686) - (t914 * t687)))
  let t1288 := (((t1208 * t1208) + (t1207 * t1207)) + (t1206 * t1206))
  let t1289 := (t889 + t1206)
  let t1290 := (t890 + t1207)
  let t1291 := (t891 + t1208)
  let t1292 := (V3.length tmin tmax sqrt ⟨t1291, t1290, t1289⟩)
  let t1293 := (t1206 + t666)
  let t1294 := (t1207 + t667)
  let t1295 := (t1208 + t668)
  let t1296 := (V3.length tmin tmax sqrt ⟨t1295, t1294, t1293⟩)
  let t1297 := (t1206 * (0 : α))
  let t1298 := (t1207 * (0 : α))
  let t1299 := (t1208 * (0 : α))
  let t1301 := ((t1299 + t1298) + t1297)
  let t1302 := (t1299 - t1298)
  let t1303 := (t1297 - t1299)
  let t1304 := (t1298 - t1297)
  let t1333 := (t1293 / t1296)
  let t1334 := (t1294 / t1296)
  let t1335 := (t1295 / t1296)
  let t1340 := (((t1208 * t1335) + (t1207 * t1334)) + (t1206 * t1333))
  let t1343 := ((t1208 * t1334) - (t1207 * t1335))
  let t1346 := ((t1206 * t1335) - (t1208 * t1333))
  let t1349 := ((t1207 * t1333) - (t1206 * t1334))
  let t1378 := (t1289 / t1292)
  let t1379 := (t1290 / t1292)
  let t1380 := (t1291 / t1292)
  let t1385 := (((t891 * t1380) + (t890 * t1379)) + (t889 * t1378))
  let t1388 := ((t891 * t1379) - (t890 * t1380))
  let t1391 := ((t889 * t1380) - (t891 * t1378))
  let t1394 := ((t890 * t1378) - (t889 * t1379))
  if t558 = (0 : α) then
    if t559 = (0 : α) then
      if (0 : α) ≤ t562 then
        if t564 = (0 : α) then
          ⟨t562, ⟨t565, t565, t565⟩⟩
        else
          ⟨t569, ⟨t570, t570, t570⟩⟩
      else
        if t574 < t577 then
          if t564 = (0 : α) then
            ⟨t582, ⟨t587, t587, t587⟩⟩
          else
            if t590 = (0 : α) then
              if t594 = (0 : α) then
                ⟨(0 : α), ⟨(0 : α), (0 : α), (0 : α)⟩⟩
              else
                ⟨(0 : α), ⟨t597, t596, t595⟩⟩
            else
              if t599 = (0 : α) then
                if t601 = (0 : α) then
                  ⟨((t562 * t604) - ((t606 + t606) + t606)), ⟨t615, t615, t615⟩⟩
                else
                  ⟨((t562 * t619) - ((t621 + t621) + t621)), ⟨t630, t630, t630⟩⟩
              else
                if t601 = (0 : α) then
                  ⟨((t634 * t604) - ((t636 + t636) + t636)), ⟨t645, t645, t645⟩⟩
                else
                  ⟨((t634 * t619) - ((t646 + t646) + t646)), ⟨t655, t655, t655⟩⟩
        else
          if t564 = (0 : α) then
            ⟨t582, ⟨t587, t587, t587⟩⟩
          else
            ⟨((t569 * t569) - ((t656 + t656) + t656)), ⟨t665, t665, t665⟩⟩
    else
      if (0 : α) ≤ t673 then
        if t677 = (0 : α) then
          ⟨t562, ⟨t565, t565, t565⟩⟩
        else
          ⟨t685, ⟨t688, t687, t686⟩⟩
      else
        if t574 < t693 then
          if t677 = (0 : α) then
            if t562 = (0 : α) then
              if t594 = (0 : α) then
                ⟨(0 : α), ⟨(0 : α), (0 : α), (0 : α)⟩⟩
              else
                ⟨(0 : α), ⟨t597, t596, t595⟩⟩
            else
              if t564 = (0 : α) then
                ⟨t582, ⟨t587, t587, t587⟩⟩
              else
                ⟨t698, ⟨t703, t703, t703⟩⟩
          else
            if t708 = (0 : α) then
              if t594 = (0 : α) then
                ⟨(0 : α), ⟨(0 : α), (0 : α), (0 : α)⟩⟩
              else
                ⟨(0 : α), ⟨t597, t596, t595⟩⟩
            else
              if t712 = (0 : α) then
                if t716 = (0 : α) then
                  ⟨((t562 * t721) - ((t727 + t726) + t725)), ⟨(((t562 * t724) + t735) + (t725 - t726)), (((t562 * t723) + t735) + (t727 - t725)), (((t562 * t722) + t735) + (t726 - t727))⟩⟩
                else
                  ⟨((t562 * t752) - ((t764 + t763) + t762)), ⟨(((t562 * t761) + t772) + (t762 - t763)), (((t562 * t758) + t772) + (t764 - t762)), (((t562 * t755) + t772) + (t763 - t764))⟩⟩
              else
                if t716 = (0 : α) then
                  ⟨((t789 * t721) - (((t792 * t724) + (t791 * t723)) + (t790 * t722))), ⟨(((t789 * t724) + (t792 * t721)) + ((t791 * t722) - (t790 * t723))), (((t789 * t723) + (t791 * t721)) + ((t790 * t724) - (t792 * t722))), (((t789 * t722) + (t790 * t721)) + ((t792 * t723) - (t791 * t724)))⟩⟩
                else
                  ⟨((t789 * t752) - (((t792 * t761) + (t791 * t758)) + (t790 * t755))), ⟨(((t789 * t761) + (t792 * t752)) + ((t791 * t755) - (t790 * t758))), (((t789 * t758) + (t791 * t752)) + ((t790 * t761) - (t792 * t755))), (((t789 * t755) + (t790 * t752)) + ((t792 * t758) - (t791 * t761)))⟩⟩
        else
          if t562 = (0 : α) then
            if t594 = (0 : α) then
              ⟨(0 : α), ⟨(0 : α), (0 : α), (0 : α)⟩⟩
            else
              ⟨(0 : α), ⟨t597, t596, t595⟩⟩
          else
            if t564 = (0 : α) then
              if t677 = (0 : α) then
                ⟨t582, ⟨t587, t587, t587⟩⟩
              else
                ⟨((t562 * t685) - ((t851 + t850) + t849)), ⟨(((t562 * t688) + t859) + (t849 - t850)), (((t562 * t687) + t859) + (t851 - t849)), (((t562 * t686) + t859) + (t850 - t851))⟩⟩
            else
              if t677 = (0 : α) then
                ⟨t698, ⟨t703, t703, t703⟩⟩
              else
                ⟨((t569 * t685) - ((t871 + t870) + t869)), ⟨(((t569 * t688) + t879) + (t869 - t870)), (((t569 * t687) + t879) + (t871 - t869)), (((t569 * t686) + t879) + (t870 - t871))⟩⟩
  else
    if t559 = (0 : α) then
      if (0 : α) ≤ t896 then
        if t900 = (0 : α) then
          ⟨t896, ⟨t903, t902, t901⟩⟩
        else
          ⟨t911, ⟨t920, t917, t914⟩⟩
      else
        if t574 < t925 then
          if t900 = (0 : α) then
            if t562 = (0 : α) then
              if t928 ≤ t927 then
                if t928 ≤ t926 then
                  if t933 = (0 : α) then
                    ⟨(0 : α), ⟨(0 : α), (0 : α), (0 : α)⟩⟩
                  else
                    ⟨(0 : α), ⟨t936, t935, t934⟩⟩
                else
                  if t927 ≤ t926 then
                    if t940 = (0 : α) then
                      ⟨(0 : α), ⟨(0 : α), (0 : α), (0 : α)⟩⟩
                    else
                      ⟨(0 : α), ⟨t943, t942, t941⟩⟩
                  else
                    if t946 = (0 : α) then
                      ⟨(0 : α), ⟨(0 : α), (0 : α), (0 : α)⟩⟩
                    else
                      ⟨(0 : α), ⟨t949, t948, t947⟩⟩
              else
                if t927 ≤ t926 then
                  if t940 = (0 : α) then
                    ⟨(0 : α), ⟨(0 : α), (0 : α), (0 : α)⟩⟩
                  else
                    ⟨(0 : α), ⟨t943, t942, t941⟩⟩
                else
                  if t946 = (0 : α) then
                    ⟨(0 : α), ⟨(0 : α), (0 : α), (0 : α)⟩⟩
                  else
                    ⟨(0 : α), ⟨t949, t948, t947⟩⟩
            else
              if t564 = (0 : α) then
                ⟨t956, ⟨t969, t968, t967⟩⟩
              else
                ⟨t976, ⟨t989, t988, t987⟩⟩
          else
            if t994 = (0 : α) then
              if t928 ≤ t927 then
                if t928 ≤ t926 then
                  if t933 = (0 : α) then
                    ⟨(0 : α), ⟨(0 : α), (0 : α), (0 : α)⟩⟩
                  else
                    ⟨(0 : α), ⟨t936, t935, t934⟩⟩
                else
                  if t927 ≤ t926 then
                    if t940 = (0 : α) then
                      ⟨(0 : α), ⟨(0 : α), (0 : α), (0 : α)⟩⟩
                    else
                      ⟨(0 : α), ⟨t943, t942, t941⟩⟩
                  else
                    if t946 = (0 : α) then
                      ⟨(0 : α), ⟨(0 : α), (0 : α), (0 : α)⟩⟩
                    else
                      ⟨(0 : α), ⟨t949, t948, t947⟩⟩
              else
                if t927 ≤ t926 then
                  if t940 = (0 : α) then
                    ⟨(0 : α), ⟨(0 : α), (0 : α), (0 : α)⟩⟩
                  else
                    ⟨(0 : α), ⟨t943, t942, t941⟩⟩
                else
                  if t946 = (0 : α) then
                    ⟨(0 : α), ⟨(0 : α), (0 : α), (0 : α)⟩⟩
                  else
                    ⟨(0 : α), ⟨t949, t948, t947⟩⟩
            else
              if t998 = (0 : α) then
                if t1002 = (0 : α) then
                  ⟨((t896 * t1007) - (((t903 * t1010) + (t902 * t1009)) + (t901 * t1008))), ⟨(((t896 * t1010) + (t903 * t1007)) + ((t902 * t1008) - (t901 * t1009))), (((t896 * t1009) + (t902 * t1007)) + ((t901 * t1010) - (t903 * t1008))), (((t896 * t1008) + (t901 * t1007)) + ((t903 * t1009) - (t902 * t1010)))⟩⟩
                else
                  ⟨((t896 * t1046) - (((t903 * t1055) + (t902 * t1052)) + (t901 * t1049))), ⟨(((t896 * t1055) + (t903 * t1046)) + ((t902 * t1049) - (t901 * t1052))), (((t896 * t1052) + (t902 * t1046)) + ((t901 * t1055) - (t903 * t1049))), (((t896 * t1049) + (t901 * t1046)) + ((t903 * t1052) - (t902 * t1055)))⟩⟩
              else
                if t1002 = (0 : α) then
                  ⟨((t1091 * t1007) - (((t1100 * t1010) + (t1097 * t1009)) + (t1094 * t1008))), ⟨(((t1091 * t1010) + (t1100 * t1007)) + ((t1097 * t1008) - (t1094 * t1009))), (((t1091 * t1009) + (t1097 * t1007)) + ((t1094 * t1010) - (t1100 * t1008))), (((t1091 * t1008) + (t1094 * t1007)) + ((t1100 * t1009) - (t1097 * t1010)))⟩⟩
                else
                  ⟨((t1091 * t1046) - (((t1100 * t1055) + (t1097 * t1052)) + (t1094 * t1049))), ⟨(((t1091 * t1055) + (t1100 * t1046)) + ((t1097 * t1049) - (t1094 * t1052))), (((t1091 * t1052) + (t1097 * t1046)) + ((t1094 * t1055) - (t1100 * t1049))), (((t1091 * t1049) + (t1094 * t1046)) + ((t1100 * t1052) - (t1097 * t1055)))⟩⟩
        else
          if t562 = (0 : α) then
            if t928 ≤ t927 then
              if t928 ≤ t926 then
                if t933 = (0 : α) then
                  ⟨(0 : α), ⟨(0 : α), (0 : α), (0 : α)⟩⟩
                else
                  ⟨(0 : α), ⟨t936, t935, t934⟩⟩
              else
                if t927 ≤ t926 then
                  if t940 = (0 : α) then
                    ⟨(0 : α), ⟨(0 : α), (0 : α), (0 : α)⟩⟩
                  else
                    ⟨(0 : α), ⟨t943, t942, t941⟩⟩
                else
                  if t946 = (0 : α) then
                    ⟨(0 : α), ⟨(0 : α), (0 : α), (0 : α)⟩⟩
                  else
                    ⟨(0 : α), ⟨t949, t948, t947⟩⟩
            else
              if t927 ≤ t926 then
                if t940 = (0 : α) then
                  ⟨(0 : α), ⟨(0 : α), (0 : α), (0 : α)⟩⟩
                else
                  ⟨(0 : α), ⟨t943, t942, t941⟩⟩
              else
                if t946 = (0 : α) then
                  ⟨(0 : α), ⟨(0 : α), (0 : α), (0 : α)⟩⟩
                else
                  ⟨(0 : α), ⟨t949, t948, t947⟩⟩
          else
            if t900 = (0 : α) then
              if t564 = (0 : α) then
                ⟨t956, ⟨t969, t968, t967⟩⟩
              else
                ⟨t976, ⟨t989, t988, t987⟩⟩
            else
              if t564 = (0 : α) then
                ⟨t1163, ⟨t1176, t1175, t1174⟩⟩
              else
                ⟨((t911 * t569) - ((t1179 + t1178) + t1177)), ⟨((t1190 + (t920 * t569)) + (t1178 - t1177)), ((t1190 + (t917 * t569)) + (t1177 - t1179)), ((t1190 + (t914 * t569)) + (t1179 - t1178))⟩⟩
    else
      if (0 : α) ≤ t1201 then
        if t1205 = (0 : α) then
          ⟨t896, ⟨t903, t902, t901⟩⟩
        else
          ⟨(((t891 * t1208) + (t890 * t1207)) + (t889 * t1206)), ⟨((t890 * t1206) - (t889 * t1207)), ((t889 * t1208) - (t891 * t1206)), ((t891 * t1207) - (t890 * t1208))⟩⟩
      else
        if t574 < t1227 then
          if t1205 = (0 : α) then
            if t562 = (0 : α) then
              if t928 ≤ t927 then
                if t928 ≤ t926 then
                  if t933 = (0 : α) then
                    ⟨(0 : α), ⟨(0 : α), (0 : α), (0 : α)⟩⟩
                  else
                    ⟨(0 : α), ⟨t936, t935, t934⟩⟩
                else
                  if t927 ≤ t926 then
                    if t940 = (0 : α) then
                      ⟨(0 : α), ⟨(0 : α), (0 : α), (0 : α)⟩⟩
                    else
                      ⟨(0 : α), ⟨t943, t942, t941⟩⟩
                  else
                    if t946 = (0 : α) then
                      ⟨(0 : α), ⟨(0 : α), (0 : α), (0 : α)⟩⟩
                    else
                      ⟨(0 : α), ⟨t949, t948, t947⟩⟩
              else
                if t927 ≤ t926 then
                  if t940 = (0 : α) then
                    ⟨(0 : α), ⟨(0 : α), (0 : α), (0 : α)⟩⟩
                  else
                    ⟨(0 : α), ⟨t943, t942, t941⟩⟩
                else
                  if t946 = (0 : α) then
                    ⟨(0 : α), ⟨(0 : α), (0 : α), (0 : α)⟩⟩
                  else
                    ⟨(0 : α), ⟨t949, t948, t947⟩⟩
            else
              if t900 = (0 : α) then
                if t677 = (0 : α) then
                  ⟨t956, ⟨t969, t968, t967⟩⟩
                else
                  ⟨t1234, ⟨t1255, t1254, t1253⟩⟩
              else
                if t677 = (0 : α) then
                  ⟨t1163, ⟨t1176, t1175, t1174⟩⟩
                else
                  ⟨t1262, ⟨t1283, t1282, t1281⟩⟩
          else
            if t1288 = (0 : α) then
              if t928 ≤ t927 then
                if t928 ≤ t926 then
                  if t933 = (0 : α) then
                    ⟨(0 : α), ⟨(0 : α), (0 : α), (0 : α)⟩⟩
                  else
                    ⟨(0 : α), ⟨t936, t935, t934⟩⟩
                else
                  if t927 ≤ t926 then
                    if t940 = (0 : α) then
                      ⟨(0 : α), ⟨(0 : α), (0 : α), (0 : α)⟩⟩
                    else
                      ⟨(0 : α), ⟨t943, t942, t941⟩⟩
                  else
                    if t946 = (0 : α) then
                      ⟨(0 : α), ⟨(0 : α), (0 : α), (0 : α)⟩⟩
                    else
                      ⟨(0 : α), ⟨t949, t948, t947⟩⟩
              else
                if t927 ≤ t926 then
                  if t940 = (0 : α) then
                    ⟨(0 : α), ⟨(0 : α), (0 : α), (0 : α)⟩⟩
                  else
                    ⟨(0 : α), ⟨t943, t942, t941⟩⟩
                else
                  if t946 = (0 : α) then
                    ⟨(0 : α), ⟨(0 : α), (0 : α), (0 : α)⟩⟩
                  else
                    ⟨(0 : α), ⟨t949, t948, t947⟩⟩
            else
              if t1292 = (0 : α) then
                if t1296 = (0 : α) then
                  ⟨((t896 * t1301) - (((t903 * t1304) + (t902 * t1303)) + (t901 * t1302))), ⟨(((t896 * t1304) + (t903 * t1301)) + ((t902 * t1302) - (t901 * t1303))), (((t896 * t1303) + (t902 * t1301)) + ((t901 * t1304) - (t903 * t1302))), (((t896 * t1302) + (t901 * t1301)) + ((t903 * t1303) - (t902 * t1304)))⟩⟩
                else
                  ⟨((t896 * t1340) - (((t903 * t1349) + (t902 * t1346)) + (t901 * t1343))), ⟨(((t896 * t1349) + (t903 * t1340)) + ((t902 * t1343) - (t901 * t1346))), (((t896 * t1346) + (t902 * t1340)) + ((t901 * t1349) - (t903 * t1343))), (((t896 * t1343) + (t901 * t1340)) + ((t903 * t1346) - (t902 * t1349)))⟩⟩
              else
                if t1296 = (0 : α) then
                  ⟨((t1385 * t1301) - (((t1394 * t1304) + (t1391 * t1303)) + (t1388 * t1302))), ⟨(((t1385 * t1304) + (t1394 * t1301)) + ((t1391 * t1302) - (t1388 * t1303))), (((t1385 * t1303) + (t1391 * t1301)) + ((t1388 * t1304) - (t1394 * t1302))), (((t1385 * t1302) + (t1388 * t1301)) + ((t1394 * t1303) - (t1391 * t1304)))⟩⟩
                else
                  ⟨((t1385 * t1340) - (((t1394 * t1349) + (t1391 * t1346)) + (t1388 * t1343))), ⟨(((t1385 * t1349) + (t1394 * t1340)) + ((t1391 * t1343) - (t1388 * t1346))), (((t1385 * t1346) + (t1391 * t1340)) + ((t1388 * t1349) - (t1394 * t1343))), (((t1385 * t1343) + (t1388 * t1340)) + ((t1394 * t1346) - (t1391 * t1349)))⟩⟩
        else
          if t562 = (0 : α) then
            if t928 ≤ t927 then
              if t928 ≤ t926 then
                if t933 = (0 : α) then
                  ⟨(0 : α), ⟨(0 : α), (0 : α), (0 : α)⟩⟩
                else
                  ⟨(0 : α), ⟨t936, t935, t934⟩⟩
              else
                if t927 ≤ t926 then
                  if t940 = (0 : α) then
                    ⟨(0 : α), ⟨(0 : α), (0 : α), (0 : α)⟩⟩
                  else
                    ⟨(0 : α), ⟨t943, t942, t941⟩⟩
                else
                  if t946 = (0 : α) then
                    ⟨(0 : α), ⟨(0 : α), (0 : α), (0 : α)⟩⟩
                  else
                    ⟨(0 : α), ⟨t949, t948, t947⟩⟩
            else
              if t927 ≤ t926 then
                if t940 = (0 : α) then
                  ⟨(0 : α), ⟨(0 : α), (0 : α), (0 : α)⟩⟩
                else
                  ⟨(0 : α), ⟨t943, t942, t941⟩⟩
              else
                if t946 = (0 : α) then
                  ⟨(0 : α), ⟨(0 : α), (0 : α), (0 : α)⟩⟩
                else
                  ⟨(0 : α), ⟨t949, t948, t947⟩⟩
          else
            if t900 = (0 : α) then
              if t677 = (0 : α) then
                ⟨t956, ⟨t969, t968, t967⟩⟩
              else
                ⟨t1234, ⟨t1255, t1254, t1253⟩⟩
            else
              if t677 = (0 : α) then
                ⟨t1163, ⟨t1176, t1175, t1174⟩⟩
              else
                ⟨t1262, ⟨t1283, t1282, t1281⟩⟩

/-- extracted from the C++ template at T = Sym; 2 path(s) -/
def C10.V3.normalized {α : Type} [Add α] [Mul α] [Div α] [Neg α] [LT α] [LE α] [DecidableLT α] [DecidableLE α] [DecidableEq α] [OfNat α 0] [OfNat α 2] (tmin : α) (tmax : α) (sqrt : α → α) (a : V3 α) : (V3 α) :=
  let t1454 := (V3.length tmin tmax sqrt ⟨a.x, a.y, a.z⟩)
  if t1454 = (0 : α) then
    ⟨(0 : α), (0 : α), (0 : α)⟩
  else
    ⟨(a.x / t1454), (a.y / t1454), (a.z / t1454)⟩

/-- extracted from the C++ template at T = Sym; 2 path(s) -/
def C10.Quat.setRotationInternal {α : Type} [Add α] [Sub α] [Mul α] [Div α] [Neg α] [LT α] [LE α] [DecidableLT α] [DecidableLE α] [DecidableEq α] [OfNat α 0] [OfNat α 2] (tmin : α) (tmax : α) (sqrt : α → α) (f0 : V3 α) (t0 : V3 α) : (Quat α) :=
  let t1464 := (f0.z + t0.z)
  let t1465 := (f0.y + t0.y)
  let t1466 := (f0.x + t0.x)
  let t1467 := (V3.length tmin tmax sqrt ⟨t1466, t1465, t1464⟩)
  let t1468 := (f0.z * (0 : α))
  let t1469 := (f0.y * (0 : α))
  let t1470 := (f0.x * (0 : α))
  let t1476 := (t1464 / t1467)
  let t1477 := (t1465 / t1467)
  let t1478 := (t1466 / t1467)
  if t1467 = (0 : α) then
    ⟨((t1470 + t1469) + t1468), ⟨(t1469 - t1468), (t1468 - t1470), (t1470 - t1469)⟩⟩
  else
    ⟨(((f0.x * t1478) + (f0.y * t1477)) + (f0.z * t1476)), ⟨((f0.y * t1476) - (f0.z * t1477)), ((f0.z * t1478) - (f0.x * t1476)), ((f0.x * t1477) - (f0.y * t1478))⟩⟩

/-- extracted from the C++ template at T = Sym; 2 path(s) -/
def C10.sinx_over_x {α : Type} [Mul α] [Div α] [LT α] [DecidableLT α] [OfNat α 1] (teps : α) (sin : α → α) (x : α) : α :=
  let t1494 := (x * x)
  if t1494 < teps then
    (1 : α)
  else
    ((sin x) / x)

/-- extracted from the C++ template at T = Sym; 1 path(s) -/
def C10.Quat.angle4D {α : Type} [Add α] [Sub α] [Mul α] [OfNat α 2] (sqrt : α → α) (atan2 : α → α → α) (q1 : Quat α) (q2 : Quat α) : α :=
  let t1505 := (q1.v.z - q2.v.z)
  let t1506 := (q1.v.y - q2.v.y)
  let t1507 := (q1.v.x - q2.v.x)
  let t1508 := (q1.r - q2.r)
  let t1517 := (q1.v.z + q2.v.z)
  let t1518 := (q1.v.y + q2.v.y)
  let t1519 := (q1.v.x + q2.v.x)
  let t1520 := (q1.r + q2.r)
  ((2 : α) * (atan2 (sqrt ((t1508 * t1508) + (((t1507 * t1507) + (t1506 * t1506)) + (t1505 * t1505)))) (sqrt ((t1520 * t1520) + (((t1519 * t1519) + (t1518 * t1518)) + (t1517 * t1517))))))

/-- extracted from the C++ template at T = Sym; 16 path(s) -/
def C10.Quat.slerp {α : Type} [Add α] [Sub α] [Mul α] [Div α] [LT α] [DecidableLT α] [DecidableEq α] [OfNat α 0] [OfNat α 1] [OfNat α 2] (teps : α) (sqrt : α → α) (sin : α → α) (atan2 : α → α → α) (q1 : Quat α) (q2 : Quat α) (t : α) : (Quat α) :=
  let t1505 := (q1.v.z - q2.v.z)
  let t1506 := (q1.v.y - q2.v.y)
  let t1507 := (q1.v.x - q2.v.x)
  let t1508 := (q1.r - q2.r)
  let t1517 := (q1.v.z + q2.v.z)
  let t1518 := (q1.v.y + q2.v.y)
  let t1519 := (q1.v.x + q2.v.x)
  let t1520 := (q1.r + q2.r)
  let t1530 := ((2 : α) * (atan2 (sqrt ((t1508 * t1508) + (((t1507 * t1507) + (t1506 * t1506)) + (t1505 * t1505)))) (sqrt ((t1520 * t1520) + (((t1519 * t1519) + (t1518 * t1518)) + (t1517 * t1517))))))
  let t1532 := ((1 : α) - t)
  let t1533 := (t1530 * t1530)
  let t1534 := (t * t1530)
  let t1535 := (t1534 * t1534)
  let t1536 := ((1 : α) / (1 : α))
  let t1537 := (t1536 * t)
  let t1538 := (q2.v.z * t1537)
  let t1539 := (q2.v.y * t1537)
  let t1540 := (q2.v.x * t1537)
  let t1541 := (q2.r * t1537)
  let t1542 := (t1532 * t1530)
  let t1543 := (t1542 * t1542)
  let t1544 := (t1536 * t1532)
  let t1545 := (q1.v.z * t1544)
  let t1546 := (q1.v.y * t1544)
  let t1547 := (q1.v.x * t1544)
  let t1548 := (q1.r * t1544)
  let t1549 := (t1545 + t1538)
  let t1550 := (t1546 + t1539)
  let t1551 := (t1547 + t1540)
  let t1552 := (t1548 + t1541)
  let t1560 := (sqrt ((t1552 * t1552) + (((t1551 * t1551) + (t1550 * t1550)) + (t1549 * t1549))))
  let t1566 := ((sin t1542) / t1542)
  let t1568 := ((t1566 / (1 : α)) * t1532)
  let t1569 := (q1.v.z * t1568)
  let t1570 := (q1.v.y * t1568)
  let t1571 := (q1.v.x * t1568)
  let t1572 := (q1.r * t1568)
  let t1573 := (t1569 + t1538)
  let t1574 := (t1570 + t1539)
  let t1575 := (t1571 + t1540)
  let t1576 := (t1572 + t1541)
  let t1584 := (sqrt ((t1576 * t1576) + (((t1575 * t1575) + (t1574 * t1574)) + (t1573 * t1573))))
  let t1590 := ((sin t1534) / t1534)
  let t1592 := ((t1590 / (1 : α)) * t)
  let t1593 := (q2.v.z * t1592)
  let t1594 := (q2.v.y * t1592)
  let t1595 := (q2.v.x * t1592)
  let t1596 := (q2.r * t1592)
  let t1597 := (t1545 + t1593)
  let t1598 := (t1546 + t1594)
  let t1599 := (t1547 + t1595)
  let t1600 := (t1548 + t1596)
  let t1608 := (sqrt ((t1600 * t1600) + (((t1599 * t1599) + (t1598 * t1598)) + (t1597 * t1597))))
  let t1613 := (t1569 + t1593)
  let t1614 := (t1570 + t1594)
  let t1615 := (t1571 + t1595)
  let t1616 := (t1572 + t1596)
  let t1624 := (sqrt ((t1616 * t1616) + (((t1615 * t1615) + (t1614 * t1614)) + (t1613 * t1613))))
  let t1630 := ((sin t1530) / t1530)
  let t1631 := ((1 : α) / t1630)
  let t1632 := (t1631 * t)
  let t1633 := (q2.v.z * t1632)
  let t1634 := (q2.v.y * t1632)
  let t1635 := (q2.v.x * t1632)
  let t1636 := (q2.r * t1632)
  let t1637 := (t1631 * t1532)
  let t1638 := (q1.v.z * t1637)
  let t1639 := (q1.v.y * t1637)
  let t1640 := (q1.v.x * t1637)
  let t1641 := (q1.r * t1637)
  let t1642 := (t1638 + t1633)
  let t1643 := (t1639 + t1634)
  let t1644 := (t1640 + t1635)
  let t1645 := (t1641 + t1636)
  let t1653 := (sqrt ((t1645 * t1645) + (((t1644 * t1644) + (t1643 * t1643)) + (t1642 * t1642))))
  let t1659 := ((t1566 / t1630) * t1532)
  let t1660 := (q1.v.z * t1659)
  let t1661 := (q1.v.y * t1659)
  let t1662 := (q1.v.x * t1659)
  let t1663 := (q1.r * t1659)
  let t1664 := (t1660 + t1633)
  let t1665 := (t1661 + t1634)
  let t1666 := (t1662 + t1635)
  let t1667 := (t1663 + t1636)
  let t1675 := (sqrt ((t1667 * t1667) + (((t1666 * t1666) + (t1665 * t1665)) + (t1664 * t1664))))
  let t1681 := ((t1590 / t1630) * t)
  let t1682 := (q2.v.z * t1681)
  let t1683 := (q2.v.y * t1681)
  let t1684 := (q2.v.x * t1681)
  let t1685 := (q2.r * t1681)
  let t1686 := (t1638 + t1682)
  let t1687 := (t1639 + t1683)
  let t1688 := (t1640 + t1684)
  let t1689 := (t1641 + t1685)
  let t1697 := (sqrt ((t1689 * t1689) + (((t1688 * t1688) + (t1687 * t1687)) + (t1686 * t1686))))
  let t1702 := (t1660 + t1682)
  let t1703 := (t1661 + t1683)
  let t1704 := (t1662 + t1684)
  let t1705 := (t1663 + t1685)
  let t1713 := (sqrt ((t1705 * t1705) + (((t1704 * t1704) + (t1703 * t1703)) + (t1702 * t1702))))
  if t1533 < teps then
    if t1535 < teps then
      if t1543 < teps then
        if t1560 = (0 : α) then
          ⟨(1 : α), ⟨(0 : α), (0 : α), (0 : α)⟩⟩
        else
          ⟨(t1552 / t1560), ⟨(t1551 / t1560), (t1550 / t1560), (t1549 / t1560)⟩⟩
      else
        if t1584 = (0 : α) then
          ⟨(1 : α), ⟨(0 : α), (0 : α), (0 : α)⟩⟩
        else
          ⟨(t1576 / t1584), ⟨(t1575 / t1584), (t1574 / t1584), (t1573 / t1584)⟩⟩
    else
      if t1543 < teps then
        if t1608 = (0 : α) then
          ⟨(1 : α), ⟨(0 : α), (0 : α), (0 : α)⟩⟩
        else
          ⟨(t1600 / t1608), ⟨(t1599 / t1608), (t1598 / t1608), (t1597 / t1608)⟩⟩
      else
        if t1624 = (0 : α) then
          ⟨(1 : α), ⟨(0 : α), (0 : α), (0 : α)⟩⟩
        else
          ⟨(t1616 / t1624), ⟨(t1615 / t1624), (t1614 / t1624), (t1613 / t1624)⟩⟩
  else
    if t1535 < teps then
      if t1543 < teps then
        if t1653 = (0 : α) then
          ⟨(1 : α), ⟨(0 : α), (0 : α), (0 : α)⟩⟩
        else
          ⟨(t1645 / t1653), ⟨(t1644 / t1653), (t1643 / t1653), (t1642 / t1653)⟩⟩
      else
        if t1675 = (0 : α) then
          ⟨(1 : α), ⟨(0 : α), (0 : α), (0 : α)⟩⟩
        else
          ⟨(t1667 / t1675), ⟨(t1666 / t1675), (t1665 / t1675), (t1664 / t1675)⟩⟩
    else
      if t1543 < teps then
        if t1697 = (0 : α) then
          ⟨(1 : α), ⟨(0 : α), (0 : α), (0 : α)⟩⟩
        else
          ⟨(t1689 / t1697), ⟨(t1688 / t1697), (t1687 / t1697), (t1686 / t1697)⟩⟩
      else
        if t1713 = (0 : α) then
          ⟨(1 : α), ⟨(0 : α), (0 : α), (0 : α)⟩⟩
        else
          ⟨(t1705 / t1713), ⟨(t1704 / t1713), (t1703 / t1713), (t1702 / t1713)⟩⟩

/-- extracted from the C++ template at T = Sym; 32 path(s) -/
def C10.Quat.slerpShortestArc {α : Type} [Add α] [Sub α] [Mul α] [Div α] [Neg α] [LT α] [LE α] [DecidableLT α] [DecidableLE α] [DecidableEq α] [OfNat α 0] [OfNat α 1] [OfNat α 2] (teps : α) (sqrt : α → α) (sin : α → α) (atan2 : α → α → α) (q1 : Quat α) (q2 : Quat α) (t : α) : (Quat α) :=
  let t1505 := (q1.v.z - q2.v.z)
  let t1506 := (q1.v.y - q2.v.y)
  let t1507 := (q1.v.x - q2.v.x)
  let t1508 := (q1.r - q2.r)
  let t1517 := (q1.v.z + q2.v.z)
  let t1518 := (q1.v.y + q2.v.y)
  let t1519 := (q1.v.x + q2.v.x)
  let t1520 := (q1.r + q2.r)
  let t1530 := ((2 : α) * (atan2 (sqrt ((t1508 * t1508) + (((t1507 * t1507) + (t1506 * t1506)) + (t1505 * t1505)))) (sqrt ((t1520 * t1520) + (((t1519 * t1519) + (t1518 * t1518)) + (t1517 * t1517))))))
  let t1532 := ((1 : α) - t)
  let t1533 := (t1530 * t1530)
  let t1534 := (t * t1530)
  let t1535 := (t1534 * t1534)
  let t1536 := ((1 : α) / (1 : α))
  let t1537 := (t1536 * t)
  let t1538 := (q2.v.z * t1537)
  let t1539 := (q2.v.y * t1537)
  let t1540 := (q2.v.x * t1537)
  let t1541 := (q2.r * t1537)
  let t1542 := (t1532 * t1530)
  let t1543 := (t1542 * t1542)
  let t1544 := (t1536 * t1532)
  let t1545 := (q1.v.z * t1544)
  let t1546 := (q1.v.y * t1544)
  let t1547 := (q1.v.x * t1544)
  let t1548 := (q1.r * t1544)
  let t1549 := (t1545 + t1538)
  let t1550 := (t1546 + t1539)
  let t1551 := (t1547 + t1540)
  let t1552 := (t1548 + t1541)
  let t1560 := (sqrt ((t1552 * t1552) + (((t1551 * t1551) + (t1550 * t1550)) + (t1549 * t1549))))
  let t1566 := ((sin t1542) / t1542)
  let t1568 := ((t1566 / (1 : α)) * t1532)
  let t1569 := (q1.v.z * t1568)
  let t1570 := (q1.v.y * t1568)
  let t1571 := (q1.v.x * t1568)
  let t1572 := (q1.r * t1568)
  let t1573 := (t1569 + t1538)
  let t1574 := (t1570 + t1539)
  let t1575 := (t1571 + t1540)
  let t1576 := (t1572 + t1541)
  let t1584 := (sqrt ((t1576 * t1576) + (((t1575 * t1575) + (t1574 * t1574)) + (t1573 * t1573))))
  let t1590 := ((sin t1534) / t1534)
  let t1592 := ((t1590 / (1 : α)) * t)
  let t1593 := (q2.v.z * t1592)
  let t1594 := (q2.v.y * t1592)
  let t1595 := (q2.v.x * t1592)
  let t1596 := (q2.r * t1592)
  let t1597 := (t1545 + t1593)
  let t1598 := (t1546 + t1594)
  let t1599 := (t1547 + t1595)
  let t1600 := (t1548 + t1596)
  let t1608 := (sqrt ((t1600 * t1600) + (((t1599 * t1599) + (t1598 * t1598)) + (t1597 * t1597))))
  let t1613 := (t1569 + t1593)
  let t1614 := (t1570 + t1594)
  let t1615 := (t1571 + t1595)
  let t1616 := (t1572 + t1596)
  let t1624 := (sqrt ((t1616 * t1616) + (((t1615 * t1615) + (t1614 * t1614)) + (t1613 * t1613))))
  let t1630 := ((sin t1530) / t1530)
  let t1631 := ((1 : α) / t1630)
  let t1632 := (t1631 * t)
  let t1633 := (q2.v.z * t1632)
  let t1634 := (q2.v.y * t1632)
  let t1635 := (q2.v.x * t1632)
  let t1636 := (q2.r * t1632)
  let t1637 := (t1631 * t1532)
  let t1638 := (q1.v.z * t1637)
  let t1639 := (q1.v.y * t1637)
  let t1640 := (q1.v.x * t1637)
  let t1641 := (q1.r * t1637)
  let t1642 := (t1638 + t1633)
  let t1643 := (t1639 + t1634)
  let t1644 := (t1640 + t1635)
  let t1645 := (t1641 + t1636)
  let t1653 := (sqrt ((t1645 * t1645) + (((t1644 * t1644) + (t1643 * t1643)) + (t1642 * t1642))))
  let t1659 := ((t1566 / t1630) * t1532)
  let t1660 := (q1.v.z * t1659)
  let t1661 := (q1.v.y * t1659)
  let t1662 := (q1.v.x * t1659)
  let t1663 := (q1.r * t1659)
  let t1664 := (t1660 + t1633)
  let t1665 := (t1661 + t1634)
  let t1666 := (t1662 + t1635)
  let t1667 := (t1663 + t1636)
  let t1675 := (sqrt ((t1667 * t1667) + (((t1666 * t1666) + (t1665 * t1665)) + (t1664 * t1664))))
  let t1681 := ((t1590 / t1630) * t)
  let t1682 := (q2.v.z * t1681)
  let t1683 := (q2.v.y * t1681)
  let t1684 := (q2.v.x * t1681)
  let t1685 := (q2.r * t1681)
  let t1686 := (t1638 + t1682)
  let t1687 := (t1639 + t1683)
  let t1688 := (t1640 + t1684)
  let t1689 := (t1641 + t1685)
  let t1697 := (sqrt ((t1689 * t1689) + (((t1688 * t1688) + (t1687 * t1687)) + (t1686 * t1686))))
  let t1702 := (t1660 + t1682)
  let t1703 := (t1661 + t1683)
  let t1704 := (t1662 + t1684)
  let t1705 := (t1663 + t1685)
  let t1713 := (sqrt ((t1705 * t1705) + (((t1704 * t1704) + (t1703 * t1703)) + (t1702 * t1702))))
  let t1724 := ((q1.r * q2.r) + (((q1.v.x * q2.v.x) + (q1.v.y * q2.v.y)) + (q1.v.z * q2.v.z)))
  let t1725 := (-q2.v.z)
  let t1726 := (-q2.v.y)
  let t1727 := (-q2.v.x)
  let t1728 := (-q2.r)
  let t1729 := (q1.v.z - t1725)
  let t1730 := (q1.v.y - t1726)
  let t1731 := (q1.v.x - t1727)
  let t1732 := (q1.r - t1728)
  let t1741 := (q1.v.z + t1725)
  let t1742 := (q1.v.y + t1726)
  let t1743 := (q1.v.x + t1727)
  let t1744 := (q1.r + t1728)
  let t1754 := ((2 : α) * (atan2 (sqrt ((t1732 * t1732) + (((t1731 * t1731) + (t1730 * t1730)) + (t1729 * t1729)))) (sqrt ((t1744 * t1744) + (((t1743 * t1743) + (t1742 * t1742)) + (t1741 * t1741))))))
  let t1755 := (t1754 * t1754)
  let t1756 := (t * t1754)
  let t1757 := (t1756 * t1756)
  let t1758 := (t1725 * t1537)
  let t1759 := (t1726 * t1537)
  let t1760 := (t1727 * t1537)
  let t1761 := (t1728 * t1537)
  let t1762 := (t1532 * t1754)
  let t1763 := (t1762 * t1762)
  let t1764 := (t1545 + t1758)
  let t1765 := (t1546 + t1759)
  let t1766 := (t1547 + t1760)
  let t1767 := (t1548 + t1761)
  let t1775 := (sqrt ((t1767 * t1767) + (((t1766 * t1766) + (t1765 * t1765)) + (t1764 * t1764))))
  let t1781 := ((sin t1762) / t1762)
  let t1783 := ((t1781 / (1 : α)) * t1532)
  let t1784 := (q1.v.z * t1783)
  let t1785 := (q1.v.y * t1783)
  let t1786 := (q1.v.x * t1783)
  let t1787 := (q1.r * t1783)
  let t1788 := (t1784 + t1758)
  let t1789 := (t1785 + t1759)
  let t1790 := (t1786 + t1760)
  let t1791 := (t1787 + t1761)
  let t1799 := (sqrt ((t1791 * t1791) + (((t1790 * t1790) + (t1789 * t1789)) + (t1788 * t1788))))
  let t1805 := ((sin t1756) / t1756)
  let t1807 := ((t1805 / (1 : α)) * t)
  let t1808 := (t1725 * t1807)
  let t1809 := (t1726 * t1807)
  let t1810 := (t1727 * t1807)
  let t1811 := (t1728 * t1807)
  let t1812 := (t1545 + t1808)
  let t1813 := (t1546 + t1809)
  let t1814 := (t1547 + t1810)
  let t1815 := (t1548 + t1811)
  let t1823 := (sqrt ((t1815 * t1815) + (((t1814 * t1814) + (t1813 * t1813)) + (t1812 * t1812))))
  let t1828 := (t1784 + t1808)
  let t1829 := (t1785 + t1809)
  let t1830 := (t1786 + t1810)
  let t1831 := (t1787 + t1811)
  let t1839 := (sqrt ((t1831 * t1831) + (((t1830 * t1830) + (t1829 * t1829)) + (t1828 * t1828))))
  let t1845 := ((sin t1754) / t1754)
  let t1846 := ((1 : α) / t1845)
  let t1847 := (t1846 * t)
  let t1848 := (t1725 * t1847)
  let t1849 := (t1726 * t1847)
  let t1850 := (t1727 * t1847)
  let t1851 := (t1728 * t1847)
  let t1852 := (t1846 * t1532)
  let t1853 := (q1.v.z * t1852)
  let t1854 := (q1.v.y * t1852)
  let t1855 := (q1.v.x * t1852)
  let t1856 := (q1.r * t1852)
  let t1857 := (t1853 + t1848)
  let t1858 := (t1854 + t1849)
  let t1859 := (t1855 + t1850)
  let t1860 := (t1856 + t1851)
  let t1868 := (sqrt ((t1860 * t1860) + (((t1859 * t1859) + (t1858 * t1858)) + (t1857 * t1857))))
  let t1874 := ((t1781 / t1845) * t1532)
  let t1875 := (q1.v.z * t1874)
  let t1876 := (q1.v.y * t1874)
  let t1877 := (q1.v.x * t1874)
  let t1878 := (q1.r * t1874)
  let t1879 := (t1875 + t1848)
  let t1880 := (t1876 + t1849)
  let t1881 := (t1877 + t1850)
  let t1882 := (t1878 + t1851)
  let t1890 := (sqrt ((t1882 * t1882) + (((t1881 * t1881) + (t1880 * t1880)) + (t1879 * t1879))))
  let t1896 := ((t1805 / t1845) * t)
  let t1897 := (t1725 * t1896)
  let t1898 := (t1726 * t1896)
  let t1899 := (t1727 * t1896)
  let t1900 := (t1728 * t1896)
  let t1901 := (t1853 + t1897)
  let t1902 := (t1854 + t1898)
  let t1903 := (t1855 + t1899)
  let t1904 := (t1856 + t1900)
  let t1912 := (sqrt ((t1904 * t1904) + (((t1903 * t1903) + (t1902 * t1902)) + (t1901 * t1901))))
  let t1917 := (t1875 + t1897)
  let t1918 := (t1876 + t1898)
  let t1919 := (t1877 + t1899)
  let t1920 := (t1878 + t1900)
  let t1928 := (sqrt ((t1920 * t1920) + (((t1919 * t1919) + (t1918 * t1918)) + (t1917 * t1917))))
  if (0 : α) ≤ t1724 then
    if t1533 < teps then
      if t1535 < teps then
        if t1543 < teps then
          if t1560 = (0 : α) then
            ⟨(1 : α), ⟨(0 : α), (0 : α), (0 : α)⟩⟩
          else
            ⟨(t1552 / t1560), ⟨(t1551 / t1560), (t1550 / t1560), (t1549 / t1560)⟩⟩
        else
          if t1584 = (0 : α) then
            ⟨(1 : α), ⟨(0 : α), (0 : α), (0 : α)⟩⟩
          else
            ⟨(t1576 / t1584), ⟨(t1575 / t1584), (t1574 / t1584), (t1573 / t1584)⟩⟩
      else
        if t1543 < teps then
          if t1608 = (0 : α) then
            ⟨(1 : α), ⟨(0 : α), (0 : α), (0 : α)⟩⟩
          else
            ⟨(t1600 / t1608), ⟨(t1599 / t1608), (t1598 / t1608), (t1597 / t1608)⟩⟩
        else
          if t1624 = (0 : α) then
            ⟨(1 : α), ⟨(0 : α), (0 : α), (0 : α)⟩⟩
          else
            ⟨(t1616 / t1624), ⟨(t1615 / t1624), (t1614 / t1624), (t1613 / t1624)⟩⟩
    else
      if t1535 < teps then
        if t1543 < teps then
          if t1653 = (0 : α) then
            ⟨(1 : α), ⟨(0 : α), (0 : α), (0 : α)⟩⟩
          else
            ⟨(t1645 / t1653), ⟨(t1644 / t1653), (t1643 / t1653), (t1642 / t1653)⟩⟩
        else
          if t1675 = (0 : α) then
            ⟨(1 : α), ⟨(0 : α), (0 : α), (0 : α)⟩⟩
          else
            ⟨(t1667 / t1675), ⟨(t1666 / t1675), (t1665 / t1675), (t1664 / t1675)⟩⟩
      else
        if t1543 < teps then
          if t1697 = (0 : α) then
            ⟨(1 : α), ⟨(0 : α), (0 : α), (0 : α)⟩⟩
          else
            ⟨(t1689 / t1697), ⟨(t1688 / t1697), (t1687 / t1697), (t1686 / t1697)⟩⟩
        else
          if t1713 = (0 : α) then
            ⟨(1 : α), ⟨(0 : α), (0 : α), (0 : α)⟩⟩
          else
            ⟨(t1705 / t1713), ⟨(t1704 / t1713), (t1703 / t1713), (t1702 / t1713)⟩⟩
  else
    if t1755 < teps then
      if t1757 < teps then
        if t1763 < teps then
          if t1775 = (0 : α) then
            ⟨(1 : α), ⟨(0 : α), (0 : α), (0 : α)⟩⟩
          else
            ⟨(t1767 / t1775), ⟨(t1766 / t1775), (t1765 / t1775), (t1764 / t1775)⟩⟩
        else
          if t1799 = (0 : α) then
            ⟨(1 : α), ⟨(0 : α), (0 : α), (0 : α)⟩⟩
          else
            ⟨(t1791 / t1799), ⟨(t1790 / t1799), (t1789 / t1799), (t1788 / t1799)⟩⟩
      else
        if t1763 < teps then
          if t1823 = (0 : α) then
            ⟨(1 : α), ⟨(0 : α), (0 : α), (0 : α)⟩⟩
          else
            ⟨(t1815 / t1823), ⟨(t1814 / t1823), (t1813 / t1823), (t1812 / t1823)⟩⟩
        else
          if t1839 = (0 : α) then
            ⟨(1 : α), ⟨(0 : α), (0 : α), (0 : α)⟩⟩
          else
            ⟨(t1831 / t1839), ⟨(t1830 / t1839), (t1829 / t1839), (t1828 / t1839)⟩⟩
    else
      if t1757 < teps then
        if t1763 < teps then
          if t1868 = (0 : α) then
            ⟨(1 : α), ⟨(0 : α), (0 : α), (0 : α)⟩⟩
          else
            ⟨(t1860 / t1868), ⟨(t1859 / t1868), (t1858 / t1868), (t1857 / t1868)⟩⟩
        else
          if t1890 = (0 : α) then
            ⟨(1 : α), ⟨(0 : α), (0 : α), (0 : α)⟩⟩
          else
            ⟨(t1882 / t1890), ⟨(t1881 / t1890), (t1880 / t1890), (t1879 / t1890)⟩⟩
      else
        if t1763 < teps then
          if t1912 = (0 : α) then
            ⟨(1 : α), ⟨(0 : α), (0 : α), (0 : α)⟩⟩
          else
            ⟨(t1904 / t1912), ⟨(t1903 / t1912), (t1902 / t1912), (t1901 / t1912)⟩⟩
        else
          if t1928 = (0 : α) then
            ⟨(1 : α), ⟨(0 : α), (0 : α), (0 : α)⟩⟩
          else
            ⟨(t1920 / t1928), ⟨(t1919 / t1928), (t1918 / t1928), (t1917 / t1928)⟩⟩

/-- extracted from the C++ template at T = Sym; 96 path(s) -/
def C10.Quat.intermediate {α : Type} [Add α] [Sub α] [Mul α] [Div α] [Neg α] [LT α] [LE α] [DecidableLT α] [DecidableLE α] [DecidableEq α] [OfNat α 0] [OfNat α 1] [OfNat α 2] [OfNat α 4] (tmin : α) (tmax : α) (sqrt : α → α) (sin : α → α) (cos : α → α) (acos : α → α) (q0 : Quat α) (q1 : Quat α) (q2 : Quat α) : (Quat α) :=
  let t1943 := ((q1.r * q1.r) + (((q1.v.x * q1.v.x) + (q1.v.y * q1.v.y)) + (q1.v.z * q1.v.z)))
  let t1947 := ((-q1.v.z) / t1943)
  let t1948 := ((-q1.v.y) / t1943)
  let t1949 := ((-q1.v.x) / t1943)
  let t1950 := (q1.r / t1943)
  let t1969 := (((t1950 * q2.v.z) + (t1947 * q2.r)) + ((t1949 * q2.v.y) - (t1948 * q2.v.x)))
  let t1970 := (((t1950 * q2.v.y) + (t1948 * q2.r)) + ((t1947 * q2.v.x) - (t1949 * q2.v.z)))
  let t1971 := (((t1950 * q2.v.x) + (t1949 * q2.r)) + ((t1948 * q2.v.z) - (t1947 * q2.v.y)))
  let t1997 := (((t1950 * q0.v.z) + (t1947 * q0.r)) + ((t1949 * q0.v.y) - (t1948 * q0.v.x)))
  let t1998 := (((t1950 * q0.v.y) + (t1948 * q0.r)) + ((t1947 * q0.v.x) - (t1949 * q0.v.z)))
  let t1999 := (((t1950 * q0.v.x) + (t1949 * q0.r)) + ((t1948 * q0.v.z) - (t1947 * q0.v.y)))
  let t2008 := (acos (smin ((t1950 * q2.r) - (((t1949 * q2.v.x) + (t1948 * q2.v.y)) + (t1947 * q2.v.z))) (1 : α)))
  let t2010 := (acos (smin ((t1950 * q0.r) - (((t1949 * q0.v.x) + (t1948 * q0.v.y)) + (t1947 * q0.v.z))) (1 : α)))
  let t2015 := ((t1997 + t1969) * (-((1 : α) / (4 : α))))
  let t2016 := ((t1998 + t1970) * (-((1 : α) / (4 : α))))
  let t2017 := ((t1999 + t1971) * (-((1 : α) / (4 : α))))
  let t2019 := (V3.length tmin tmax sqrt ⟨t2017, t2016, t2015⟩)
  let t2020 := (sin t2019)
  let t2021 := (sabs t2019)
  let t2022 := (tmax * t2021)
  let t2023 := (sabs t2020)
  let t2024 := (cos t2019)
  let t2025 := (t2015 * (1 : α))
  let t2026 := (t2016 * (1 : α))
  let t2027 := (t2017 * (1 : α))
  let t2037 := (q1.v.z * t2024)
  let t2038 := (q1.v.y * t2024)
  let t2039 := (q1.v.x * t2024)
  let t2046 := (((q1.r * t2025) + t2037) + ((q1.v.x * t2026) - (q1.v.y * t2027)))
  let t2047 := (((q1.r * t2026) + t2038) + ((q1.v.z * t2027) - (q1.v.x * t2025)))
  let t2048 := (((q1.r * t2027) + t2039) + ((q1.v.y * t2025) - (q1.v.z * t2026)))
  let t2054 := (q1.r * t2024)
  let t2055 := (t2054 - (((q1.v.x * t2027) + (q1.v.y * t2026)) + (q1.v.z * t2025)))
  let t2063 := (sqrt ((t2055 * t2055) + (((t2048 * t2048) + (t2047 * t2047)) + (t2046 * t2046))))
  let t2068 := (t2020 / t2019)
  let t2069 := (t2015 * t2068)
  let t2070 := (t2016 * t2068)
  let t2071 := (t2017 * t2068)
  let t2087 := (((q1.r * t2069) + t2037) + ((q1.v.x * t2070) - (q1.v.y * t2071)))
  let t2088 := (((q1.r * t2070) + t2038) + ((q1.v.z * t2071) - (q1.v.x * t2069)))
  let t2089 := (((q1.r * t2071) + t2039) + ((q1.v.y * t2069) - (q1.v.z * t2070)))
  let t2095 := (t2054 - (((q1.v.x * t2071) + (q1.v.y * t2070)) + (q1.v.z * t2069)))
  let t2103 := (sqrt ((t2095 * t2095) + (((t2089 * t2089) + (t2088 * t2088)) + (t2087 * t2087))))
  let t2104 := (t2095 / t2103)
  let t2105 := (t2089 / t2103)
  let t2106 := (t2088 / t2103)
  let t2107 := (t2087 / t2103)
  let t2108 := (sin t2010)
  let t2109 := (sabs t2108)
  let t2110 := (tmax * t2109)
  let t2111 := (sabs t2010)
  let t2112 := (t1997 * (1 : α))
  let t2113 := (t1998 * (1 : α))
  let t2114 := (t1999 * (1 : α))
  let t2118 := ((t2112 + t1969) * (-((1 : α) / (4 : α))))
  let t2119 := ((t2113 + t1970) * (-((1 : α) / (4 : α))))
  let t2120 := ((t2114 + t1971) * (-((1 : α) / (4 : α))))
  let t2121 := (V3.length tmin tmax sqrt ⟨t2120, t2119, t2118⟩)
  let t2122 := (sin t2121)
  let t2123 := (sabs t2121)
  let t2124 := (tmax * t2123)
  let t2125 := (sabs t2122)
  let t2126 := (cos t2121)
  let t2127 := (t2118 * (1 : α))
  let t2128 := (t2119 * (1 : α))
  let t2129 := (t2120 * (1 : α))
  let t2139 := (q1.v.z * t2126)
  let t2140 := (q1.v.y * t2126)
  let t2141 := (q1.v.x * t2126)
  let t2148 := (((q1.r * t2127) + t2139) + ((q1.v.x * t2128) - (q1.v.y * t2129)))
  let t2149 := (((q1.r * t2128) + t2140) + ((q1.v.z * t2129) - (q1.v.x * t2127)))
  let t2150 := (((q1.r * t2129) + t2141) + ((q1.v.y * t2127) - (q1.v.z * t2128)))
  let t2156 := (q1.r * t2126)
  let t2157 := (t2156 - (((q1.v.x * t2129) + (q1.v.y * t2128)) + (q1.v.z * t2127)))
  let t2165 := (sqrt ((t2157 * t2157) + (((t2150 * t2150) + (t2149 * t2149)) + (t2148 * t2148))))
  let t2170 := (t2122 / t2121)
  let t2171 := (t2118 * t2170)
  let t2172 := (t2119 * t2170)
  let t2173 := (t2120 * t2170)
  let t2189 := (((q1.r * t2171) + t2139) + ((q1.v.x * t2172) - (q1.v.y * t2173)))
  let t2190 := (((q1.r * t2172) + t2140) + ((q1.v.z * t2173) - (q1.v.x * t2171)))
  let t2191 := (((q1.r * t2173) + t2141) + ((q1.v.y * t2171) - (q1.v.z * t2172)))
  let t2197 := (t2156 - (((q1.v.x * t2173) + (q1.v.y * t2172)) + (q1.v.z * t2171)))
  let t2205 := (sqrt ((t2197 * t2197) + (((t2191 * t2191) + (t2190 * t2190)) + (t2189 * t2189))))
  let t2206 := (t2197 / t2205)
  let t2207 := (t2191 / t2205)
  let t2208 := (t2190 / t2205)
  let t2209 := (t2189 / t2205)
  let t2210 := (t2010 / t2108)
  let t2211 := (t1997 * t2210)
  let t2212 := (t1998 * t2210)
  let t2213 := (t1999 * t2210)
  let t2217 := ((t2211 + t1969) * (-((1 : α) / (4 : α))))
  let t2218 := ((t2212 + t1970) * (-((1 : α) / (4 : α))))
  let t2219 := ((t2213 + t1971) * (-((1 : α) / (4 : α))))
  let t2220 := (V3.length tmin tmax sqrt ⟨t2219, t2218, t2217⟩)
  let t2221 := (sin t2220)
  let t2222 := (sabs t2220)
  let t2223 := (tmax * t2222)
  let t2224 := (sabs t2221)
  let t2225 := (cos t2220)
  let t2226 := (t2217 * (1 : α))
  let t2227 := (t2218 * (1 : α))
  let t2228 := (t2219 * (1 : α))
  let t2238 := (q1.v.z * t2225)
  let t2239 := (q1.v.y * t2225)
  let t2240 := (q1.v.x * t2225)
  let t2247 := (((q1.r * t2226) + t2238) + ((q1.v.x * t2227) - (q1.v.y * t2228)))
  let t2248 := (((q1.r * t2227) + t2239) + ((q1.v.z * t2228) - (q1.v.x * t2226)))
  let t2249 := (((q1.r * t2228) + t2240) + ((q1.v.y * t2226) - (q1.v.z * t2227)))
  let t2255 := (q1.r * t2225)
  let t2256 := (t2255 - (((q1.v.x * t2228) + (q1.v.y * t2227)) + (q1.v.z * t2226)))
  let t2264 := (sqrt ((t2256 * t2256) + (((t2249 * t2249) + (t2248 * t2248)) + (t2247 * t2247))))
  let t2265 := (t2256 / t2264)
  let t2266 := (t2249 / t2264)
  let t2267 := (t2248 / t2264)
  let t2268 := (t2247 / t2264)
  let t2269 := (t2221 / t2220)
  let t2270 := (t2217 * t2269)
  let t2271 := (t2218 * t2269)
  let t2272 := (t2219 * t2269)
  let t2288 := (((q1.r * t2270) + t2238) + ((q1.v.x * t2271) - (q1.v.y * t2272)))
  let t2289 := (((q1.r * t2271) + t2239) + ((q1.v.z * t2272) - (q1.v.x * t2270)))
  let t2290 := (((q1.r * t2272) + t2240) + ((q1.v.y * t2270) - (q1.v.z * t2271)))
  let t2296 := (t2255 - (((q1.v.x * t2272) + (q1.v.y * t2271)) + (q1.v.z * t2270)))
  let t2304 := (sqrt ((t2296 * t2296) + (((t2290 * t2290) + (t2289 * t2289)) + (t2288 * t2288))))
  let t2305 := (t2296 / t2304)
  let t2306 := (t2290 / t2304)
  let t2307 := (t2289 / t2304)
  let t2308 := (t2288 / t2304)
  let t2309 := (sin t2008)
  let t2310 := (sabs t2309)
  let t2311 := (tmax * t2310)
  let t2312 := (sabs t2008)
  let t2313 := (t1969 * (1 : α))
  let t2314 := (t1970 * (1 : α))
  let t2315 := (t1971 * (1 : α))
  let t2319 := ((t1997 + t2313) * (-((1 : α) / (4 : α))))
  let t2320 := ((t1998 + t2314) * (-((1 : α) / (4 : α))))
  let t2321 := ((t1999 + t2315) * (-((1 : α) / (4 : α))))
  let t2322 := (V3.length tmin tmax sqrt ⟨t2321, t2320, t2319⟩)
  let t2323 := (sin t2322)
  let t2324 := (sabs t2322)
  let t2325 := (tmax * t2324)
  let t2326 := (sabs t2323)
  let t2327 := (cos t2322)
  let t2328 := (t2319 * (1 : α))
  let t2329 := (t2320 * (1 : α))
  let t2330 := (t2321 * (1 : α))
  let t2340 := (q1.v.z * t2327)
  let t2341 := (q1.v.y * t2327)
  let t2342 := (q1.v.x * t2327)
  let t2349 := (((q1.r * t2328) + t2340) + ((q1.v.x * t2329) - (q1.v.y * t2330)))
  let t2350 := (((q1.r * t2329) + t2341) + ((q1.v.z * t2330) - (q1.v.x * t2328)))
  let t2351 := (((q1.r * t2330) + t2342) + ((q1.v.y * t2328) - (q1.v.z * t2329)))
  let t2357 := (q1.r * t2327)
  let t2358 := (t2357 - (((q1.v.x * t2330) + (q1.v.y * t2329)) + (q1.v.z * t2328)))
  let t2366 := (sqrt ((t2358 * t2358) + (((t2351 * t2351) + (t2350 * t2350)) + (t2349 * t2349))))
  let t2371 := (t2323 / t2322)
  let t2372 := (t2319 * t2371)
  let t2373 := (t2320 * t2371)
  let t2374 := (t2321 * t2371)
  let t2390 := (((q1.r * t2372) + t2340) + ((q1.v.x * t2373) - (q1.v.y * t2374)))
  let t2391 := (((q1.r * t2373) + t2341) + ((q1.v.z * t2374) - (q1.v.x * t2372)))
  let t2392 := (((q1.r * t2374) + t2342) + ((q1.v.y * t2372) - (q1.v.z * t2373)))
  let t2398 := (t2357 - (((q1.v.x * t2374) + (q1.v.y * t2373)) + (q1.v.z * t2372)))
  let t2406 := (sqrt ((t2398 * t2398) + (((t2392 * t2392) + (t2391 * t2391)) + (t2390 * t2390))))
  let t2407 := (t2398 / t2406)
  let t2408 := (t2392 / t2406)
  let t2409 := (t2391 / t2406)
  let t2410 := (t2390 / t2406)
  let t2414 := ((t2112 + t2313) * (-((1 : α) / (4 : α))))
  let t2415 := ((t2113 + t2314) * (-((1 : α) / (4 : α))))
  let t2416 := ((t2114 + t2315) * (-((1 : α) / (4 : α))))
  let t2417 := (V3.length tmin tmax sqrt ⟨t2416, t2415, t2414⟩)
  let t2418 := (sin t2417)
  let t2419 := (sabs t2417)
  let t2420 := (tmax * t2419)
  let t2421 := (sabs t2418)
  let t2422 := (cos t2417)
  let t2423 := (t2414 * (1 : α))
  let t2424 := (t2415 * (1 : α))
  let t2425 := (t2416 * (1 : α))
  let t2435 := (q1.v.z * t2422)
  let t2436 := (q1.v.y * t2422)
  let t2437 := (q1.v.x * t2422)
  let t2444 := (((q1.r * t2423) + t2435) + ((q1.v.x * t2424) - (q1.v.y * t2425)))
  let t2445 := (((q1.r * t2424) + t2436) + ((q1.v.z * t2425) - (q1.v.x * t2423)))
  let t2446 := (((q1.r * t2425) + t2437) + ((q1.v.y * t2423) - (q1.v.z * t2424)))
  let t2452 := (q1.r * t2422)
  let t2453 := (t2452 - (((q1.v.x * t2425) + (q1.v.y * t2424)) + (q1.v.z * t2423)))
  let t2461 := (sqrt ((t2453 * t2453) + (((t2446 * t2446) + (t2445 * t2445)) + (t2444 * t2444))))
  let t2466 := (t2418 / t2417)
  let t2467 := (t2414 * t2466)
  let t2468 := (t2415 * t2466)
  let t2469 := (t2416 * t2466)
  let t2485 := (((q1.r * t2467) + t2435) + ((q1.v.x * t2468) - (q1.v.y * t2469)))
  let t2486 := (((q1.r * t2468) + t2436) + ((q1.v.z * t2469) - (q1.v.x * t2467)))
  let t2487 := (((q1.r * t2469) + t2437) + ((q1.v.y * t2467) - (q1.v.z * t2468)))
  let t2493 := (t2452 - (((q1.v.x * t2469) + (q1.v.y * t2468)) + (q1.v.z * t2467)))
  let t2501 := (sqrt ((t2493 * t2493) + (((t2487 * t2487) + (t2486 * t2486)) + (t2485 * t2485))))
  let t2502 := (t2493 / t2501)
  let t2503 := (t2487 / t2501)
  let t2504 := (t2486 / t2501)
  let t2505 := (t2485 / t2501)
  let t2509 := ((t2211 + t2313) * (-((1 : α) / (4 : α))))
  let t2510 := ((t2212 + t2314) * (-((1 : α) / (4 : α))))
  let t2511 := ((t2213 + t2315) * (-((1 : α) / (4 : α))))
  let t2512 := (V3.length tmin tmax sqrt ⟨t2511, t2510, t2509⟩)
  let t2513 := (sin t2512)
  let t2514 := (sabs t2512)
  let t2515 := (tmax * t2514)
  let t2516 := (sabs t2513)
  let t2517 := (cos t2512)
  let t2518 := (t2509 * (1 : α))
  let t2519 := (t2510 * (1 : α))
  let t2520 := (t2511 * (1 : α))
  let t2530 := (q1.v.z * t2517)
  let t2531 := (q1.v.y * t2517)
  let t2532 := (q1.v.x * t2517)
  let t2539 := (((q1.r * t2518) + t2530) + ((q1.v.x * t2519) - (q1.v.y * t2520)))
  let t2540 := (((q1.r * t2519) + t2531) + ((q1.v.z * t2520) - (q1.v.x * t2518)))
  let t2541 := (((q1.r * t2520) + t2532) + ((q1.v.y * t2518) - (q1.v.z * t2519)))
  let t2547 := (q1.r * t2517)
  let t2548 := (t2547 - (((q1.v.x * t2520) + (q1.v.y * t2519)) + (q1.v.z * t2518)))
  let t2556 := (sqrt ((t2548 * t2548) + (((t2541 * t2541) + (t2540 * t2540)) + (t2539 * t2539))))
  let t2557 := (t2548 / t2556)
  let t2558 := (t2541 / t2556)
  let t2559 := (t2540 / t2556)
  let t2560 := (t2539 / t2556)
  let t2561 := (t2513 / t2512)
  let t2562 := (t2509 * t2561)
  let t2563 := (t2510 * t2561)
  let t2564 := (t2511 * t2561)
  let t2580 := (((q1.r * t2562) + t2530) + ((q1.v.x * t2563) - (q1.v.y * t2564)))
  let t2581 := (((q1.r * t2563) + t2531) + ((q1.v.z * t2564) - (q1.v.x * t2562)))
  let t2582 := (((q1.r * t2564) + t2532) + ((q1.v.y * t2562) - (q1.v.z * t2563)))
  let t2588 := (t2547 - (((q1.v.x * t2564) + (q1.v.y * t2563)) + (q1.v.z * t2562)))
  let t2596 := (sqrt ((t2588 * t2588) + (((t2582 * t2582) + (t2581 * t2581)) + (t2580 * t2580))))
  let t2597 := (t2588 / t2596)
  let t2598 := (t2582 / t2596)
  let t2599 := (t2581 / t2596)
  let t2600 := (t2580 / t2596)
  let t2601 := (t2008 / t2309)
  let t2602 := (t1969 * t2601)
  let t2603 := (t1970 * t2601)
  let t2604 := (t1971 * t2601)
  let t2608 := ((t1997 + t2602) * (-((1 : α) / (4 : α))))
  let t2609 := ((t1998 + t2603) * (-((1 : α) / (4 : α))))
  let t2610 := ((t1999 + t2604) * (-((1 : α) / (4 : α))))
  let t2611 := (V3.length tmin tmax sqrt ⟨t2610, t2609, t2608⟩)
  let t2612 := (sin t2611)
  let t2613 := (sabs t2611)
  let t2614 := (tmax * t2613)
  let t2615 := (sabs t2612)
  let t2616 := (cos t2611)
  let t2617 := (t2608 * (1 : α))
  let t2618 := (t2609 * (1 : α))
  let t2619 := (t2610 * (1 : α))
  let t2629 := (q1.v.z * t2616)
  let t2630 := (q1.v.y * t2616)
  let t2631 := (q1.v.x * t2616)
  let t2638 := (((q1.r * t2617) + t2629) + ((q1.v.x * t2618) - (q1.v.y * t2619)))
  let t2639 := (((q1.r * t2618) + t2630) + ((q1.v.z * t2619) - (q1.v.x * t2617)))
  let t2640 := (((q1.r * t2619) + t2631) + ((q1.v.y * t2617) - (q1.v.z * t2618)))
  let t2646 := (q1.r * t2616)
  let t2647 := (t2646 - (((q1.v.x * t2619) + (q1.v.y * t2618)) + (q1.v.z * t2617)))
  let t2655 := (sqrt ((t2647 * t2647) + (((t2640 * t2640) + (t2639 * t2639)) + (t2638 * t2638))))
  let t2656 := (t2647 / t2655)
  let t2657 := (t2640 / t2655)
  let t2658 := (t2639 / t2655)
  let t2659 := (t2638 / t2655)
  let t2660 := (t2612 / t2611)
  let t2661 := (t2608 * t2660)
  let t2662 := (t2609 * t2660)
  let t2663 := (t2610 * t2660)
  let t2679 := (((q1.r * t2661) + t2629) + ((q1.v.x * t2662) - (q1.v.y * t2663)))
  let t2680 := (((q1.r * t2662) + t2630) + ((q1.v.z * t2663) - (q1.v.x * t2661)))
  let t2681 := (((q1.r * t2663) + t2631) + ((q1.v.y * t2661) - (q1.v.z * t2662)))
  let t2687 := (t2646 - (((q1.v.x * t2663) + (q1.v.y * t2662)) + (q1.v.z * t2661)))
  let t2695 := (sqrt ((t2687 * t2687) + (((t2681 * t2681) + (t2680 * t2680)) + (t2679 * t2679))))
  let t2696 := (t2687 / t2695)
  let t2697 := (t2681 / t2695)
  let t2698 := (t2680 / t2695)
  let t2699 := (t2679 / t2695)
  let t2703 := ((t2112 + t2602) * (-((1 : α) / (4 : α))))
  let t2704 := ((t2113 + t2603) * (-((1 : α) / (4 : α))))
  let t2705 := ((t2114 + t2604) * (-((1 : α) / (4 : α))))
  let t2706 := (V3.length tmin tmax sqrt ⟨t2705, t2704, t2703⟩)
  let t2707 := (sin t2706)
  let t2708 := (sabs t2706)
  let t2709 := (tmax * t2708)
  let t2710 := (sabs t2707)
  let t2711 := (cos t2706)
  let t2712 := (t2703 * (1 : α))
  let t2713 := (t2704 * (1 : α))
  let t2714 := (t2705 * (1 : α))
  let t2724 := (q1.v.z * t2711)
  let t2725 := (q1.v.y * t2711)
  let t2726 := (q1.v.x * t2711)
  let t2733 := (((q1.r * t2712) + t2724) + ((q1.v.x * t2713) - (q1.v.y * t2714)))
  let t2734 := (((q1.r * t2713) + t2725) + ((q1.v.z * t2714) - (q1.v.x * t2712)))
  let t2735 := (((q1.r * t2714) + t2726) + ((q1.v.y * t2712) - (q1.v.z * t2713)))
  let t2741 := (q1.r * t2711)
  let t2742 := (t2741 - (((q1.v.x * t2714) + (q1.v.y * t2713)) + (q1.v.z * t2712)))
  let t2750 := (sqrt ((t2742 * t2742) + (((t2735 * t2735) + (t2734 * t2734)) + (t2733 * t2733))))
  let t2751 := (t2742 / t2750)
  let t2752 := (t2735 / t2750)
  let t2753 := (t2734 / t2750)
  let t2754 := (t2733 / t2750)
  let t2755 := (t2707 / t2706)
  let t2756 := (t2703 * t2755)
  let t2757 := (t2704 * t2755)
  let t2758 := (t2705 * t2755)
  let t2774 := (((q1.r * t2756) + t2724) + ((q1.v.x * t2757) - (q1.v.y * t2758)))
  let t2775 := (((q1.r * t2757) + t2725) + ((q1.v.z * t2758) - (q1.v.x * t2756)))
  let t2776 := (((q1.r * t2758) + t2726) + ((q1.v.y * t2756) - (q1.v.z * t2757)))
  let t2782 := (t2741 - (((q1.v.x * t2758) + (q1.v.y * t2757)) + (q1.v.z * t2756)))
  let t2790 := (sqrt ((t2782 * t2782) + (((t2776 * t2776) + (t2775 * t2775)) + (t2774 * t2774))))
  let t2791 := (t2782 / t2790)
  let t2792 := (t2776 / t2790)
  let t2793 := (t2775 / t2790)
  let t2794 := (t2774 / t2790)
  let t2798 := ((t2211 + t2602) * (-((1 : α) / (4 : α))))
  let t2799 := ((t2212 + t2603) * (-((1 : α) / (4 : α))))
  let t2800 := ((t2213 + t2604) * (-((1 : α) / (4 : α))))
  let t2801 := (V3.length tmin tmax sqrt ⟨t2800, t2799, t2798⟩)
  let t2802 := (sin t2801)
  let t2803 := (sabs t2801)
  let t2804 := (tmax * t2803)
  let t2805 := (sabs t2802)
  let t2806 := (cos t2801)
  let t2807 := (t2798 * (1 : α))
  let t2808 := (t2799 * (1 : α))
  let t2809 := (t2800 * (1 : α))
  let t2819 := (q1.v.z * t2806)
  let t2820 := (q1.v.y * t2806)
  let t2821 := (q1.v.x * t2806)
  let t2828 := (((q1.r * t2807) + t2819) + ((q1.v.x * t2808) - (q1.v.y * t2809)))
  let t2829 := (((q1.r * t2808) + t2820) + ((q1.v.z * t2809) - (q1.v.x * t2807)))
  let t2830 := (((q1.r * t2809) + t2821) + ((q1.v.y * t2807) - (q1.v.z * t2808)))
  let t2836 := (q1.r * t2806)
  let t2837 := (t2836 - (((q1.v.x * t2809) + (q1.v.y * t2808)) + (q1.v.z * t2807)))
  let t2845 := (sqrt ((t2837 * t2837) + (((t2830 * t2830) + (t2829 * t2829)) + (t2828 * t2828))))
  let t2846 := (t2837 / t2845)
  let t2847 := (t2830 / t2845)
  let t2848 := (t2829 / t2845)
  let t2849 := (t2828 / t2845)
  let t2850 := (t2802 / t2801)
  let t2851 := (t2798 * t2850)
  let t2852 := (t2799 * t2850)
  let t2853 := (t2800 * t2850)
  let t2869 := (((q1.r * t2851) + t2819) + ((q1.v.x * t2852) - (q1.v.y * t2853)))
  let t2870 := (((q1.r * t2852) + t2820) + ((q1.v.z * t2853) - (q1.v.x * t2851)))
  let t2871 := (((q1.r * t2853) + t2821) + ((q1.v.y * t2851) - (q1.v.z * t2852)))
  let t2877 := (t2836 - (((q1.v.x * t2853) + (q1.v.y * t2852)) + (q1.v.z * t2851)))
  let t2885 := (sqrt ((t2877 * t2877) + (((t2871 * t2871) + (t2870 * t2870)) + (t2869 * t2869))))
  let t2886 := (t2877 / t2885)
  let t2887 := (t2871 / t2885)
  let t2888 := (t2870 / t2885)
  let t2889 := (t2869 / t2885)
  if t2008 = (0 : α) then
    if t2010 = (0 : α) then
      if t2021 < (1 : α) then
        if t2022 ≤ t2023 then
          if t2063 = (0 : α) then
            ⟨(1 : α), ⟨(0 : α), (0 : α), (0 : α)⟩⟩
          else
            ⟨(t2055 / t2063), ⟨(t2048 / t2063), (t2047 / t2063), (t2046 / t2063)⟩⟩
        else
          if t2103 = (0 : α) then
            ⟨(1 : α), ⟨(0 : α), (0 : α), (0 : α)⟩⟩
          else
            ⟨t2104, ⟨t2105, t2106, t2107⟩⟩
      else
        if t2103 = (0 : α) then
          ⟨(1 : α), ⟨(0 : α), (0 : α), (0 : α)⟩⟩
        else
          ⟨t2104, ⟨t2105, t2106, t2107⟩⟩
    else
      if t2109 < (1 : α) then
        if t2110 ≤ t2111 then
          if t2123 < (1 : α) then
            if t2124 ≤ t2125 then
              if t2165 = (0 : α) then
                ⟨(1 : α), ⟨(0 : α), (0 : α), (0 : α)⟩⟩
              else
                ⟨(t2157 / t2165), ⟨(t2150 / t2165), (t2149 / t2165), (t2148 / t2165)⟩⟩
            else
              if t2205 = (0 : α) then
                ⟨(1 : α), ⟨(0 : α), (0 : α), (0 : α)⟩⟩
              else
                ⟨t2206, ⟨t2207, t2208, t2209⟩⟩
          else
            if t2205 = (0 : α) then
              ⟨(1 : α), ⟨(0 : α), (0 : α), (0 : α)⟩⟩
            else
              ⟨t2206, ⟨t2207, t2208, t2209⟩⟩
        else
          if t2222 < (1 : α) then
            if t2223 ≤ t2224 then
              if t2264 = (0 : α) then
                ⟨(1 : α), ⟨(0 : α), (0 : α), (0 : α)⟩⟩
              else
                ⟨t2265, ⟨t2266, t2267, t2268⟩⟩
            else
              if t2304 = (0 : α) then
                ⟨(1 : α), ⟨(0 : α), (0 : α), (0 : α)⟩⟩
              else
                ⟨t2305, ⟨t2306, t2307, t2308⟩⟩
          else
            if t2304 = (0 : α) then
              ⟨(1 : α), ⟨(0 : α), (0 : α), (0 : α)⟩⟩
            else
              ⟨t2305, ⟨t2306, t2307, t2308⟩⟩
      else
        if t2222 < (1 : α) then
          if t2223 ≤ t2224 then
            if t2264 = (0 : α) then
              ⟨(1 : α), ⟨(0 : α), (0 : α), (0 : α)⟩⟩
            else
              ⟨t2265, ⟨t2266, t2267, t2268⟩⟩
          else
            if t2304 = (0 : α) then
              ⟨(1 : α), ⟨(0 : α), (0 : α), (0 : α)⟩⟩
            else
              ⟨t2305, ⟨t2306, t2307, t2308⟩⟩
        else
          if t2304 = (0 : α) then
            ⟨(1 : α), ⟨(0 : α), (0 : α), (0 : α)⟩⟩
          else
            ⟨t2305, ⟨t2306, t2307, t2308⟩⟩
  else
    if t2310 < (1 : α) then
      if t2311 ≤ t2312 then
        if t2010 = (0 : α) then
          if t2324 < (1 : α) then
            if t2325 ≤ t2326 then
              if t2366 = (0 : α) then
                ⟨(1 : α), ⟨(0 : α), (0 : α), (0 : α)⟩⟩
              else
                ⟨(t2358 / t2366), ⟨(t2351 / t2366), (t2350 / t2366), (t2349 / t2366)⟩⟩
            else
              if t2406 = (0 : α) then
                ⟨(1 : α), ⟨(0 : α), (0 : α), (0 : α)⟩⟩
              else
                ⟨t2407, ⟨t2408, t2409, t2410⟩⟩
          else
            if t2406 = (0 : α) then
              ⟨(1 : α), ⟨(0 : α), (0 : α), (0 : α)⟩⟩
            else
              ⟨t2407, ⟨t2408, t2409, t2410⟩⟩
        else
          if t2109 < (1 : α) then
            if t2110 ≤ t2111 then
              if t2419 < (1 : α) then
                if t2420 ≤ t2421 then
                  if t2461 = (0 : α) then
                    ⟨(1 : α), ⟨(0 : α), (0 : α), (0 : α)⟩⟩
                  else
                    ⟨(t2453 / t2461), ⟨(t2446 / t2461), (t2445 / t2461), (t2444 / t2461)⟩⟩
                else
                  if t2501 = (0 : α) then
                    ⟨(1 : α), ⟨(0 : α), (0 : α), (0 : α)⟩⟩
                  else
                    ⟨t2502, ⟨t2503, t2504, t2505⟩⟩
              else
                if t2501 = (0 : α) then
                  ⟨(1 : α), ⟨(0 : α), (0 : α), (0 : α)⟩⟩
                else
                  ⟨t2502, ⟨t2503, t2504, t2505⟩⟩
            else
              if t2514 < (1 : α) then
                if t2515 ≤ t2516 then
                  if t2556 = (0 : α) then
                    ⟨(1 : α), ⟨(0 : α), (0 : α), (0 : α)⟩⟩
                  else
                    ⟨t2557, ⟨t2558, t2559, t2560⟩⟩
                else
                  if t2596 = (0 : α) then
                    ⟨(1 : α), ⟨(0 : α), (0 : α), (0 : α)⟩⟩
                  else
                    ⟨t2597, ⟨t2598, t2599, t2600⟩⟩
              else
                if t2596 = (0 : α) then
                  ⟨(1 : α), ⟨(0 : α), (0 : α), (0 : α)⟩⟩
                else
                  ⟨t2597, ⟨t2598, t2599, t2600⟩⟩
          else
            if t2514 < (1 : α) then
              if t2515 ≤ t2516 then
                if t2556 = (0 : α) then
                  ⟨(1 : α), ⟨(0 : α), (0 : α), (0 : α)⟩⟩
                else
                  ⟨t2557, ⟨t2558, t2559, t2560⟩⟩
              else
                if t2596 = (0 : α) then
                  ⟨(1 : α), ⟨(0 : α), (0 : α), (0 : α)⟩⟩
                else
                  ⟨t2597, ⟨t2598, t2599, t2600⟩⟩
            else
              if t2596 = (0 : α) then
                ⟨(1 : α), ⟨(0 : α), (0 : α), (0 : α)⟩⟩
              else
                ⟨t2597, ⟨t2598, t2599, t2600⟩⟩
      else
        if t2010 = (0 : α) then
          if t2613 < (1 : α) then
            if t2614 ≤ t2615 then
              if t2655 = (0 : α) then
                ⟨(1 : α), ⟨(0 : α), (0 : α), (0 : α)⟩⟩
              else
                ⟨t2656, ⟨t2657, t2658, t2659⟩⟩
            else
              if t2695 = (0 : α) then
                ⟨(1 : α), ⟨(0 : α), (0 : α), (0 : α)⟩⟩
              else
                ⟨t2696, ⟨t2697, t2698, t2699⟩⟩
          else
            if t2695 = (0 : α) then
              ⟨(1 : α), ⟨(0 : α), (0 : α), (0 : α)⟩⟩
            else
              ⟨t2696, ⟨t2697, t2698, t2699⟩⟩
        else
          if t2109 < (1 : α) then
            if t2110 ≤ t2111 then
              if t2708 < (1 : α) then
                if t2709 ≤ t2710 then
                  if t2750 = (0 : α) then
                    ⟨(1 : α), ⟨(0 : α), (0 : α), (0 : α)⟩⟩
                  else
                    ⟨t2751, ⟨t2752, t2753, t2754⟩⟩
                else
                  if t2790 = (0 : α) then
                    ⟨(1 : α), ⟨(0 : α), (0 : α), (0 : α)⟩⟩
                  else
                    ⟨t2791, ⟨t2792, t2793, t2794⟩⟩
              else
                if t2790 = (0 : α) then
                  ⟨(1 : α), ⟨(0 : α), (0 : α), (0 : α)⟩⟩
                else
                  ⟨t2791, ⟨t2792, t2793, t2794⟩⟩
            else
              if t2803 < (1 : α) then
                if t2804 ≤ t2805 then
                  if t2845 = (0 : α) then
                    ⟨(1 : α), ⟨(0 : α), (0 : α), (0 : α)⟩⟩
                  else
                    ⟨t2846, ⟨t2847, t2848, t2849⟩⟩
                else
                  if t2885 = (0 : α) then
                    ⟨(1 : α), ⟨(0 : α), (0 : α), (0 : α)⟩⟩
                  else
                    ⟨t2886, ⟨t2887, t2888, t2889⟩⟩
              else
                if t2885 = (0 : α) then
                  ⟨(1 : α), ⟨(0 : α), (0 : α), (0 : α)⟩⟩
                else
                  ⟨t2886, ⟨t2887, t2888, t2889⟩⟩
          else
            if t2803 < (1 : α) then
              if t2804 ≤ t2805 then
                if t2845 = (0 : α) then
                  ⟨(1 : α), ⟨(0 : α), (0 : α), (0 : α)⟩⟩
                else
                  ⟨t2846, ⟨t2847, t2848, t2849⟩⟩
              else
                if t2885 = (0 : α) then
                  ⟨(1 : α), ⟨(0 : α), (0 : α), (0 : α)⟩⟩
                else
                  ⟨t2886, ⟨t2887, t2888, t2889⟩⟩
            else
              if t2885 = (0 : α) then
                ⟨(1 : α), ⟨(0 : α), (0 : α), (0 : α)⟩⟩
              else
                ⟨t2886, ⟨t2887, t2888, t2889⟩⟩
    else
      if t2010 = (0 : α) then
        if t2613 < (1 : α) then
          if t2614 ≤ t2615 then
            if t2655 = (0 : α) then
              ⟨(1 : α), ⟨(0 : α), (0 : α), (0 : α)⟩⟩
            else
              ⟨t2656, ⟨t2657, t2658, t2659⟩⟩
          else
            if t2695 = (0 : α) then
              ⟨(1 : α), ⟨(0 : α), (0 : α), (0 : α)⟩⟩
            else
              ⟨t2696, ⟨t2697, t2698, t2699⟩⟩
        else
          if t2695 = (0 : α) then
            ⟨(1 : α), ⟨(0 : α), (0 : α), (0 : α)⟩⟩
          else
            ⟨t2696, ⟨t2697, t2698, t2699⟩⟩
      else
        if t2109 < (1 : α) then
          if t2110 ≤ t2111 then
            if t2708 < (1 : α) then
              if t2709 ≤ t2710 then
                if t2750 = (0 : α) then
                  ⟨(1 : α), ⟨(0 : α), (0 : α), (0 : α)⟩⟩
                else
                  ⟨t2751, ⟨t2752, t2753, t2754⟩⟩
              else
                if t2790 = (0 : α) then
                  ⟨(1 : α), ⟨(0 : α), (0 : α), (0 : α)⟩⟩
                else
                  ⟨t2791, ⟨t2792, t2793, t2794⟩⟩
            else
              if t2790 = (0 : α) then
                ⟨(1 : α), ⟨(0 : α), (0 : α), (0 : α)⟩⟩
              else
                ⟨t2791, ⟨t2792, t2793, t2794⟩⟩
          else
            if t2803 < (1 : α) then
              if t2804 ≤ t2805 then
                if t2845 = (0 : α) then
                  ⟨(1 : α), ⟨(0 : α), (0 : α), (0 : α)⟩⟩
                else
                  ⟨t2846, ⟨t2847, t2848, t2849⟩⟩
              else
                if t2885 = (0 : α) then
                  ⟨(1 : α), ⟨(0 : α), (0 : α), (0 : α)⟩⟩
                else
                  ⟨t2886, ⟨t2887, t2888, t2889⟩⟩
            else
              if t2885 = (0 : α) then
                ⟨(1 : α), ⟨(0 : α), (0 : α), (0 : α)⟩⟩
              else
                ⟨t2886, ⟨t2887, t2888, t2889⟩⟩
        else
          if t2803 < (1 : α) then
            if t2804 ≤ t2805 then
              if t2845 = (0 : α) then
                ⟨(1 : α), ⟨(0 : α), (0 : α), (0 : α)⟩⟩
              else
                ⟨t2846, ⟨t2847, t2848, t2849⟩⟩
            else
              if t2885 = (0 : α) then
                ⟨(1 : α), ⟨(0 : α), (0 : α), (0 : α)⟩⟩
              else
                ⟨t2886, ⟨t2887, t2888, t2889⟩⟩
          else
            if t2885 = (0 : α) then
              ⟨(1 : α), ⟨(0 : α), (0 : α), (0 : α)⟩⟩
            else
              ⟨t2886, ⟨t2887, t2888, t2889⟩⟩

end ImathVerif.Gen
