-- GENERATED from /repo/src/Imath by harness/sym (T = Sym path extraction); do not edit.
import ImathVerif.Basic.Types
import ImathVerif.Gen.Leaf
set_option linter.unusedVariables false
namespace ImathVerif.Gen
open ImathVerif

/-- extracted from the C++ template at T = Sym; 1 path(s) -/
def C10.Quat.rotateVector {α : Type} [Add α] [Sub α] [Mul α] [Neg α] [OfNat α 0] [OfNat α 1] (q : Quat α) (v : V3 α) : (V3 α) :=
  let t10 := (q.v.x * (-(1 : α)))
  let t11 := (q.v.y * (-(1 : α)))
  let t12 := (q.v.z * (-(1 : α)))
  let t31 := (((q.r * v.z) + (q.v.z * (0 : α))) + ((q.v.x * v.y) - (q.v.y * v.x)))
  let t32 := (((q.r * v.y) + (q.v.y * (0 : α))) + ((q.v.z * v.x) - (q.v.x * v.z)))
  let t33 := (((q.r * v.x) + (q.v.x * (0 : α))) + ((q.v.y * v.z) - (q.v.z * v.y)))
  let t40 := ((q.r * (0 : α)) - (((q.v.x * v.x) + (q.v.y * v.y)) + (q.v.z * v.z)))
  ⟨(((t40 * t10) + (t33 * q.r)) + ((t32 * t12) - (t31 * t11))), (((t40 * t11) + (t32 * q.r)) + ((t31 * t10) - (t33 * t12))), (((t40 * t12) + (t31 * q.r)) + ((t33 * t11) - (t32 * t10)))⟩

/-- extracted from the C++ template at T = Sym; 1 path(s) -/
def C10.V3.mulQuat {α : Type} [Add α] [Sub α] [Mul α] [OfNat α 2] (v : V3 α) (q : Quat α) : (V3 α) :=
  let t15 := ((q.v.x * v.y) - (q.v.y * v.x))
  let t18 := ((q.v.z * v.x) - (q.v.x * v.z))
  let t21 := ((q.v.y * v.z) - (q.v.z * v.y))
  ⟨(v.x + ((2 : α) * ((q.r * t21) + ((q.v.y * t15) - (q.v.z * t18))))), (v.y + ((2 : α) * ((q.r * t18) + ((q.v.z * t21) - (q.v.x * t15))))), (v.z + ((2 : α) * ((q.r * t15) + ((q.v.x * t18) - (q.v.y * t21)))))⟩

/-- extracted from the C++ template at T = Sym; 1 path(s) -/
def C10.Quat.toMatrix33 {α : Type} [Add α] [Sub α] [Mul α] [OfNat α 1] [OfNat α 2] (q : Quat α) : (M33 α) :=
  let t91 := (q.v.x * q.v.x)
  let t92 := (q.v.y * q.v.y)
  let t96 := (q.v.x * q.r)
  let t97 := (q.v.y * q.v.z)
  let t100 := (q.v.y * q.r)
  let t101 := (q.v.z * q.v.x)
  let t106 := (q.v.z * q.v.z)
  let t110 := (q.v.z * q.r)
  let t111 := (q.v.x * q.v.y)
  ⟨((1 : α) - ((2 : α) * (t92 + t106))), ((2 : α) * (t111 + t110)), ((2 : α) * (t101 - t100)), ((2 : α) * (t111 - t110)), ((1 : α) - ((2 : α) * (t106 + t91))), ((2 : α) * (t97 + t96)), ((2 : α) * (t101 + t100)), ((2 : α) * (t97 - t96)), ((1 : α) - ((2 : α) * (t92 + t91)))⟩

/-- extracted from the C++ template at T = Sym; 1 path(s) -/
def C10.Quat.toMatrix44 {α : Type} [Add α] [Sub α] [Mul α] [OfNat α 0] [OfNat α 1] [OfNat α 2] (q : Quat α) : (M44 α) :=
  let t91 := (q.v.x * q.v.x)
  let t92 := (q.v.y * q.v.y)
  let t96 := (q.v.x * q.r)
  let t97 := (q.v.y * q.v.z)
  let t100 := (q.v.y * q.r)
  let t101 := (q.v.z * q.v.x)
  let t106 := (q.v.z * q.v.z)
  let t110 := (q.v.z * q.r)
  let t111 := (q.v.x * q.v.y)
  ⟨((1 : α) - ((2 : α) * (t92 + t106))), ((2 : α) * (t111 + t110)), ((2 : α) * (t101 - t100)), (0 : α), ((2 : α) * (t111 - t110)), ((1 : α) - ((2 : α) * (t106 + t91))), ((2 : α) * (t97 + t96)), (0 : α), ((2 : α) * (t101 + t100)), ((2 : α) * (t97 - t96)), ((1 : α) - ((2 : α) * (t92 + t91))), (0 : α), (0 : α), (0 : α), (0 : α), (1 : α)⟩

/-- extracted from the C++ template at T = Sym; 1 path(s) -/
def C10.M33.mulQuat {α : Type} [Add α] [Sub α] [Mul α] [OfNat α 1] [OfNat α 2] (m : M33 α) (q : Quat α) : (M33 α) :=
  let t91 := (q.v.x * q.v.x)
  let t92 := (q.v.y * q.v.y)
  let t95 := ((1 : α) - ((2 : α) * (t92 + t91)))
  let t96 := (q.v.x * q.r)
  let t97 := (q.v.y * q.v.z)
  let t99 := ((2 : α) * (t97 - t96))
  let t100 := (q.v.y * q.r)
  let t101 := (q.v.z * q.v.x)
  let t103 := ((2 : α) * (t101 + t100))
  let t105 := ((2 : α) * (t97 + t96))
  let t106 := (q.v.z * q.v.z)
  let t109 := ((1 : α) - ((2 : α) * (t106 + t91)))
  let t110 := (q.v.z * q.r)
  let t111 := (q.v.x * q.v.y)
  let t113 := ((2 : α) * (t111 - t110))
  let t115 := ((2 : α) * (t101 - t100))
  let t117 := ((2 : α) * (t111 + t110))
  let t120 := ((1 : α) - ((2 : α) * (t92 + t106)))
  ⟨(((m.x00 * t120) + (m.x01 * t113)) + (m.x02 * t103)), (((m.x00 * t117) + (m.x01 * t109)) + (m.x02 * t99)), (((m.x00 * t115) + (m.x01 * t105)) + (m.x02 * t95)), (((m.x10 * t120) + (m.x11 * t113)) + (m.x12 * t103)), (((m.x10 * t117) + (m.x11 * t109)) + (m.x12 * t99)), (((m.x10 * t115) + (m.x11 * t105)) + (m.x12 * t95)), (((m.x20 * t120) + (m.x21 * t113)) + (m.x22 * t103)), (((m.x20 * t117) + (m.x21 * t109)) + (m.x22 * t99)), (((m.x20 * t115) + (m.x21 * t105)) + (m.x22 * t95))⟩

/-- extracted from the C++ template at T = Sym; 1 path(s) -/
def C10.Quat.mulM33 {α : Type} [Add α] [Sub α] [Mul α] [OfNat α 1] [OfNat α 2] (q : Quat α) (m : M33 α) : (M33 α) :=
  let t91 := (q.v.x * q.v.x)
  let t92 := (q.v.y * q.v.y)
  let t95 := ((1 : α) - ((2 : α) * (t92 + t91)))
  let t96 := (q.v.x * q.r)
  let t97 := (q.v.y * q.v.z)
  let t99 := ((2 : α) * (t97 - t96))
  let t100 := (q.v.y * q.r)
  let t101 := (q.v.z * q.v.x)
  let t103 := ((2 : α) * (t101 + t100))
  let t105 := ((2 : α) * (t97 + t96))
  let t106 := (q.v.z * q.v.z)
  let t109 := ((1 : α) - ((2 : α) * (t106 + t91)))
  let t110 := (q.v.z * q.r)
  let t111 := (q.v.x * q.v.y)
  let t113 := ((2 : α) * (t111 - t110))
  let t115 := ((2 : α) * (t101 - t100))
  let t117 := ((2 : α) * (t111 + t110))
  let t120 := ((1 : α) - ((2 : α) * (t92 + t106)))
  ⟨(((t120 * m.x00) + (t117 * m.x10)) + (t115 * m.x20)), (((t120 * m.x01) + (t117 * m.x11)) + (t115 * m.x21)), (((t120 * m.x02) + (t117 * m.x12)) + (t115 * m.x22)), (((t113 * m.x00) + (t109 * m.x10)) + (t105 * m.x20)), (((t113 * m.x01) + (t109 * m.x11)) + (t105 * m.x21)), (((t113 * m.x02) + (t109 * m.x12)) + (t105 * m.x22)), (((t103 * m.x00) + (t99 * m.x10)) + (t95 * m.x20)), (((t103 * m.x01) + (t99 * m.x11)) + (t95 * m.x21)), (((t103 * m.x02) + (t99 * m.x12)) + (t95 * m.x22))⟩

/-- extracted from the C++ template at T = Sym; 1 path(s) -/
def C10.V3.mulM33 {α : Type} [Add α] [Mul α] (v : V3 α) (m : M33 α) : (V3 α) :=
  ⟨(((v.x * m.x00) + (v.y * m.x10)) + (v.z * m.x20)), (((v.x * m.x01) + (v.y * m.x11)) + (v.z * m.x21)), (((v.x * m.x02) + (v.y * m.x12)) + (v.z * m.x22))⟩

/-- extracted from the C++ template at T = Sym; 1 path(s) -/
def C10.V3.mulM44 {α : Type} [Add α] [Mul α] [Div α] (v : V3 α) (m : M44 α) : (V3 α) :=
  let t250 := ((((v.x * m.x03) + (v.y * m.x13)) + (v.z * m.x23)) + m.x33)
  ⟨(((((v.x * m.x00) + (v.y * m.x10)) + (v.z * m.x20)) + m.x30) / t250), (((((v.x * m.x01) + (v.y * m.x11)) + (v.z * m.x21)) + m.x31) / t250), (((((v.x * m.x02) + (v.y * m.x12)) + (v.z * m.x22)) + m.x32) / t250)⟩

/-- extracted from the C++ template at T = Sym; 1 path(s) -/
def C10.M44.multDirMatrix {α : Type} [Add α] [Mul α] (m : M44 α) (v : V3 α) : (V3 α) :=
  ⟨(((v.x * m.x00) + (v.y * m.x10)) + (v.z * m.x20)), (((v.x * m.x01) + (v.y * m.x11)) + (v.z * m.x21)), (((v.x * m.x02) + (v.y * m.x12)) + (v.z * m.x22))⟩

/-- extracted from the C++ template at T = Sym; 1 path(s) -/
def C10.M33.mul {α : Type} [Add α] [Mul α] (a : M33 α) (b : M33 α) : (M33 α) :=
  ⟨(((a.x00 * b.x00) + (a.x01 * b.x10)) + (a.x02 * b.x20)), (((a.x00 * b.x01) + (a.x01 * b.x11)) + (a.x02 * b.x21)), (((a.x00 * b.x02) + (a.x01 * b.x12)) + (a.x02 * b.x22)), (((a.x10 * b.x00) + (a.x11 * b.x10)) + (a.x12 * b.x20)), (((a.x10 * b.x01) + (a.x11 * b.x11)) + (a.x12 * b.x21)), (((a.x10 * b.x02) + (a.x11 * b.x12)) + (a.x12 * b.x22)), (((a.x20 * b.x00) + (a.x21 * b.x10)) + (a.x22 * b.x20)), (((a.x20 * b.x01) + (a.x21 * b.x11)) + (a.x22 * b.x21)), (((a.x20 * b.x02) + (a.x21 * b.x12)) + (a.x22 * b.x22))⟩

/-- extracted from the C++ template at T = Sym; 1 path(s) -/
def C10.M44.mul {α : Type} [Add α] [Mul α] (a : M44 α) (b : M44 α) : (M44 α) :=
  ⟨((((a.x00 * b.x00) + (a.x01 * b.x10)) + (a.x02 * b.x20)) + (a.x03 * b.x30)), ((((a.x00 * b.x01) + (a.x01 * b.x11)) + (a.x02 * b.x21)) + (a.x03 * b.x31)), ((((a.x00 * b.x02) + (a.x01 * b.x12)) + (a.x02 * b.x22)) + (a.x03 * b.x32)), ((((a.x00 * b.x03) + (a.x01 * b.x13)) + (a.x02 * b.x23)) + (a.x03 * b.x33)), ((((a.x10 * b.x00) + (a.x11 * b.x10)) + (a.x12 * b.x20)) + (a.x13 * b.x30)), ((((a.x10 * b.x01) + (a.x11 * b.x11)) + (a.x12 * b.x21)) + (a.x13 * b.x31)), ((((a.x10 * b.x02) + (a.x11 * b.x12)) + (a.x12 * b.x22)) + (a.x13 * b.x32)), ((((a.x10 * b.x03) + (a.x11 * b.x13)) + (a.x12 * b.x23)) + (a.x13 * b.x33)), ((((a.x20 * b.x00) + (a.x21 * b.x10)) + (a.x22 * b.x20)) + (a.x23 * b.x30)), ((((a.x20 * b.x01) + (a.x21 * b.x11)) + (a.x22 * b.x21)) + (a.x23 * b.x31)), ((((a.x20 * b.x02) + (a.x21 * b.x12)) + (a.x22 * b.x22)) + (a.x23 * b.x32)), ((((a.x20 * b.x03) + (a.x21 * b.x13)) + (a.x22 * b.x23)) + (a.x23 * b.x33)), ((((a.x30 * b.x00) + (a.x31 * b.x10)) + (a.x32 * b.x20)) + (a.x33 * b.x30)), ((((a.x30 * b.x01) + (a.x31 * b.x11)) + (a.x32 * b.x21)) + (a.x33 * b.x31)), ((((a.x30 * b.x02) + (a.x31 * b.x12)) + (a.x32 * b.x22)) + (a.x33 * b.x32)), ((((a.x30 * b.x03) + (a.x31 * b.x13)) + (a.x32 * b.x23)) + (a.x33 * b.x33))⟩

/-- extracted from the C++ template at T = Sym; 1 path(s) -/
def C10.M33.transposed {α : Type} (a : M33 α) : (M33 α) :=
  ⟨a.x00, a.x10, a.x20, a.x01, a.x11, a.x21, a.x02, a.x12, a.x22⟩

/-- extracted from the C++ template at T = Sym; 1 path(s) -/
def C10.M33.determinant {α : Type} [Add α] [Sub α] [Mul α] (a : M33 α) : α :=
  (((a.x00 * ((a.x11 * a.x22) - (a.x12 * a.x21))) + (a.x01 * ((a.x12 * a.x20) - (a.x10 * a.x22)))) + (a.x02 * ((a.x10 * a.x21) - (a.x11 * a.x20))))

/-- extracted from the C++ template at T = Sym; 1 path(s) -/
def C10.Quat.mul {α : Type} [Add α] [Sub α] [Mul α] (a : Quat α) (b : Quat α) : (Quat α) :=
  ⟨((a.r * b.r) - (((a.v.x * b.v.x) + (a.v.y * b.v.y)) + (a.v.z * b.v.z))), ⟨(((a.r * b.v.x) + (a.v.x * b.r)) + ((a.v.y * b.v.z) - (a.v.z * b.v.y))), (((a.r * b.v.y) + (a.v.y * b.r)) + ((a.v.z * b.v.x) - (a.v.x * b.v.z))), (((a.r * b.v.z) + (a.v.z * b.r)) + ((a.v.x * b.v.y) - (a.v.y * b.v.x)))⟩⟩

/-- extracted from the C++ template at T = Sym; 1 path(s) -/
def C10.Quat.conj {α : Type} [Neg α] (q : Quat α) : (Quat α) :=
  ⟨q.r, ⟨(-q.v.x), (-q.v.y), (-q.v.z)⟩⟩

/-- extracted from the C++ template at T = Sym; 1 path(s) -/
def C10.Quat.neg {α : Type} [Neg α] (q : Quat α) : (Quat α) :=
  ⟨(-q.r), ⟨(-q.v.x), (-q.v.y), (-q.v.z)⟩⟩

/-- extracted from the C++ template at T = Sym; 1 path(s) -/
def C10.Quat.inverse {α : Type} [Add α] [Mul α] [Div α] [Neg α] (q : Quat α) : (Quat α) :=
  let t455 := ((q.r * q.r) + (((q.v.x * q.v.x) + (q.v.y * q.v.y)) + (q.v.z * q.v.z)))
  ⟨(q.r / t455), ⟨((-q.v.x) / t455), ((-q.v.y) / t455), ((-q.v.z) / t455)⟩⟩

/-- extracted from the C++ template at T = Sym; 1 path(s) -/
def C10.Quat.invert {α : Type} [Add α] [Mul α] [Div α] [Neg α] (q : Quat α) : (Quat α) :=
  let t455 := ((q.r * q.r) + (((q.v.x * q.v.x) + (q.v.y * q.v.y)) + (q.v.z * q.v.z)))
  ⟨(q.r / t455), ⟨((-q.v.x) / t455), ((-q.v.y) / t455), ((-q.v.z) / t455)⟩⟩

/-- extracted from the C++ template at T = Sym; 1 path(s) -/
def C10.Quat.invertRet {α : Type} [Add α] [Mul α] [Div α] [Neg α] (q : Quat α) : (Quat α) :=
  let t455 := ((q.r * q.r) + (((q.v.x * q.v.x) + (q.v.y * q.v.y)) + (q.v.z * q.v.z)))
  ⟨(q.r / t455), ⟨((-q.v.x) / t455), ((-q.v.y) / t455), ((-q.v.z) / t455)⟩⟩

/-- extracted from the C++ template at T = Sym; 1 path(s) -/
def C10.Quat.div {α : Type} [Add α] [Sub α] [Mul α] [Div α] [Neg α] (a : Quat α) (b : Quat α) : (Quat α) :=
  let t466 := ((b.r * b.r) + (((b.v.x * b.v.x) + (b.v.y * b.v.y)) + (b.v.z * b.v.z)))
  let t470 := ((-b.v.z) / t466)
  let t471 := ((-b.v.y) / t466)
  let t472 := ((-b.v.x) / t466)
  let t473 := (b.r / t466)
  ⟨((a.r * t473) - (((a.v.x * t472) + (a.v.y * t471)) + (a.v.z * t470))), ⟨(((a.r * t472) + (a.v.x * t473)) + ((a.v.y * t470) - (a.v.z * t471))), (((a.r * t471) + (a.v.y * t473)) + ((a.v.z * t472) - (a.v.x * t470))), (((a.r * t470) + (a.v.z * t473)) + ((a.v.x * t471) - (a.v.y * t472)))⟩⟩

/-- extracted from the C++ template at T = Sym; 1 path(s) -/
def C10.Quat.divAssign {α : Type} [Add α] [Sub α] [Mul α] [Div α] [Neg α] (a : Quat α) (b : Quat α) : (Quat α) :=
  let t466 := ((b.r * b.r) + (((b.v.x * b.v.x) + (b.v.y * b.v.y)) + (b.v.z * b.v.z)))
  let t470 := ((-b.v.z) / t466)
  let t471 := ((-b.v.y) / t466)
  let t472 := ((-b.v.x) / t466)
  let t473 := (b.r / t466)
  ⟨((a.r * t473) - (((a.v.x * t472) + (a.v.y * t471)) + (a.v.z * t470))), ⟨(((a.r * t472) + (a.v.x * t473)) + ((a.v.y * t470) - (a.v.z * t471))), (((a.r * t471) + (a.v.y * t473)) + ((a.v.z * t472) - (a.v.x * t470))), (((a.r * t470) + (a.v.z * t473)) + ((a.v.x * t471) - (a.v.y * t472)))⟩⟩

/-- extracted from the C++ template at T = Sym; 1 path(s) -/
def C10.Quat.dot4 {α : Type} [Add α] [Mul α] (a : Quat α) (b : Quat α) : α :=
  ((a.r * b.r) + (((a.v.x * b.v.x) + (a.v.y * b.v.y)) + (a.v.z * b.v.z)))

/-- extracted from the C++ template at T = Sym; 1 path(s) -/
def C10.Quat.length {α : Type} [Add α] [Mul α] (sqrt : α → α) (q : Quat α) : α :=
  (sqrt ((q.r * q.r) + (((q.v.x * q.v.x) + (q.v.y * q.v.y)) + (q.v.z * q.v.z))))

/-- extracted from the C++ template at T = Sym; 2 path(s) -/
def C10.Quat.normalize {α : Type} [Add α] [Mul α] [Div α] [DecidableEq α] [OfNat α 0] [OfNat α 1] (sqrt : α → α) (q : Quat α) : (Quat α) :=
  let t503 := (sqrt ((q.r * q.r) + (((q.v.x * q.v.x) + (q.v.y * q.v.y)) + (q.v.z * q.v.z))))
  if t503 = (0 : α) then
    ⟨(1 : α), ⟨(0 : α), (0 : α), (0 : α)⟩⟩
  else
    ⟨(q.r / t503), ⟨(q.v.x / t503), (q.v.y / t503), (q.v.z / t503)⟩⟩

/-- extracted from the C++ template at T = Sym; 2 path(s) -/
def C10.Quat.normalized {α : Type} [Add α] [Mul α] [Div α] [DecidableEq α] [OfNat α 0] [OfNat α 1] (sqrt : α → α) (q : Quat α) : (Quat α) :=
  let t503 := (sqrt ((q.r * q.r) + (((q.v.x * q.v.x) + (q.v.y * q.v.y)) + (q.v.z * q.v.z))))
  if t503 = (0 : α) then
    ⟨(1 : α), ⟨(0 : α), (0 : α), (0 : α)⟩⟩
  else
    ⟨(q.r / t503), ⟨(q.v.x / t503), (q.v.y / t503), (q.v.z / t503)⟩⟩

/-- extracted from the C++ template at T = Sym; 4 path(s) -/
def C10.Quat.log {α : Type} [Mul α] [Div α] [Neg α] [LT α] [LE α] [DecidableLT α] [DecidableLE α] [DecidableEq α] [OfNat α 0] [OfNat α 1] (tmax : α) (sin : α → α) (acos : α → α) (q : Quat α) : (Quat α) :=
  let t509 := (acos (smin q.r (1 : α)))
  let t510 := (sin t509)
  let t511 := (sabs t510)
  let t513 := (tmax * t511)
  let t514 := (sabs t509)
  let t518 := (t509 / t510)
  let t519 := (q.v.z * t518)
  let t520 := (q.v.y * t518)
  let t521 := (q.v.x * t518)
  if t509 = (0 : α) then
    ⟨(0 : α), ⟨q.v.x, q.v.y, q.v.z⟩⟩
  else
    if t511 < (1 : α) then
      if t513 ≤ t514 then
        ⟨(0 : α), ⟨(q.v.x * (1 : α)), (q.v.y * (1 : α)), (q.v.z * (1 : α))⟩⟩
      else
        ⟨(0 : α), ⟨t521, t520, t519⟩⟩
    else
      ⟨(0 : α), ⟨t521, t520, t519⟩⟩

/-- extracted from the C++ template at T = Sym; 3 path(s) -/
def C10.Quat.exp {α : Type} [Add α] [Mul α] [Div α] [Neg α] [LT α] [LE α] [DecidableLT α] [DecidableLE α] [DecidableEq α] [OfNat α 0] [OfNat α 1] [OfNat α 2] (tmin : α) (tmax : α) (sqrt : α → α) (sin : α → α) (cos : α → α) (q : Quat α) : (Quat α) :=
  let t522 := (V3.length tmin sqrt ⟨q.v.x, q.v.y, q.v.z⟩)
  let t523 := (sin t522)
  let t524 := (sabs t522)
  let t525 := (tmax * t524)
  let t526 := (sabs t523)
  let t527 := (cos t522)
  let t528 := (t523 / t522)
  let t529 := (q.v.z * t528)
  let t530 := (q.v.y * t528)
  let t531 := (q.v.x * t528)
  if t524 < (1 : α) then
    if t525 ≤ t526 then
      ⟨t527, ⟨(q.v.x * (1 : α)), (q.v.y * (1 : α)), (q.v.z * (1 : α))⟩⟩
    else
      ⟨t527, ⟨t531, t530, t529⟩⟩
  else
    ⟨t527, ⟨t531, t530, t529⟩⟩

/-- extracted from the C++ template at T = Sym; 1 path(s) -/
def C10.Quat.angle {α : Type} [Add α] [Mul α] [Div α] [Neg α] [LT α] [LE α] [DecidableLT α] [DecidableLE α] [DecidableEq α] [OfNat α 0] [OfNat α 2] (tmin : α) (sqrt : α → α) (atan2 : α → α → α) (q : Quat α) : α :=
  ((2 : α) * (atan2 (V3.length tmin sqrt ⟨q.v.x, q.v.y, q.v.z⟩) q.r))

/-- extracted from the C++ template at T = Sym; 2 path(s) -/
def C10.Quat.axis {α : Type} [Add α] [Mul α] [Div α] [Neg α] [LT α] [LE α] [DecidableLT α] [DecidableLE α] [DecidableEq α] [OfNat α 0] [OfNat α 2] (tmin : α) (sqrt : α → α) (q : Quat α) : (V3 α) :=
  let t522 := (V3.length tmin sqrt ⟨q.v.x, q.v.y, q.v.z⟩)
  if t522 = (0 : α) then
    ⟨(0 : α), (0 : α), (0 : α)⟩
  else
    ⟨(q.v.x / t522), (q.v.y / t522), (q.v.z / t522)⟩

/-- extracted from the C++ template at T = Sym; 2 path(s) -/
def C10.Quat.setAxisAngle {α : Type} [Add α] [Mul α] [Div α] [Neg α] [LT α] [LE α] [DecidableLT α] [DecidableLE α] [DecidableEq α] [OfNat α 0] [OfNat α 2] (tmin : α) (sqrt : α → α) (sin : α → α) (cos : α → α) (q : Quat α) (axis : V3 α) (radians : α) : (Quat α) :=
  let t541 := (radians / (2 : α))
  let t542 := (cos t541)
  let t543 := (sin t541)
  let t544 := (V3.length tmin sqrt ⟨axis.x, axis.y, axis.z⟩)
  let t545 := ((0 : α) * t543)
  if t544 = (0 : α) then
    ⟨t542, ⟨t545, t545, t545⟩⟩
  else
    ⟨t542, ⟨((axis.x / t544) * t543), ((axis.y / t544) * t543), ((axis.z / t544) * t543)⟩⟩

/-- extracted from the C++ template at T = Sym; 115 path(s) -/
def C10.Quat.setRotation {α : Type} [Add α] [Sub α] [Mul α] [Div α] [Neg α] [LT α] [LE α] [DecidableLT α] [DecidableLE α] [DecidableEq α] [OfNat α 0] [OfNat α 1] [OfNat α 2] [OfNat α 8] (tmin : α) (teps : α) (sqrt : α → α) (q : Quat α) (vfrom : V3 α) (vto : V3 α) : (Quat α) :=
  let t558 := (V3.length tmin sqrt ⟨vfrom.x, vfrom.y, vfrom.z⟩)
  let t559 := (V3.length tmin sqrt ⟨vto.x, vto.y, vto.z⟩)
  let t560 := ((0 : α) * (0 : α))
  let t562 := ((t560 + t560) + t560)
  let t563 := ((0 : α) + (0 : α))
  let t564 := (V3.length tmin sqrt ⟨t563, t563, t563⟩)
  let t565 := (t560 - t560)
  let t566 := (t563 / t564)
  let t567 := ((0 : α) * t566)
  let t569 := ((t567 + t567) + t567)
  let t570 := (t567 - t567)
  let t573 := ((8 : α) * teps)
  let t574 := (t573 * t573)
  let t575 := (t563 * t563)
  let t577 := ((t575 + t575) + t575)
  let t578 := (t565 * t565)
  let t582 := ((t562 * t562) - ((t578 + t578) + t578))
  let t587 := (((t562 * t565) + (t565 * t562)) + (t578 - t578))
  let t588 := (t566 * t566)
  let t590 := ((t588 + t588) + t588)
  let t591 := ((0 : α) * (1 : α))
  let t592 := (t560 - t591)
  let t593 := (t591 - t560)
  let t594 := (V3.length tmin sqrt ⟨t565, t593, t592⟩)
  let t595 := (t592 / t594)
  let t596 := (t593 / t594)
  let t597 := (t565 / t594)
  let t598 := ((0 : α) + t566)
  let t599 := (V3.length tmin sqrt ⟨t598, t598, t598⟩)
  let t600 := (t566 + (0 : α))
  let t601 := (V3.length tmin sqrt ⟨t600, t600, t600⟩)
  let t602 := (t566 * (0 : α))
  let t604 := ((t602 + t602) + t602)
  let t605 := (t602 - t602)
  let t606 := (t565 * t605)
  let t615 := (((t562 * t605) + (t565 * t604)) + (t606 - t606))
  let t617 := (t566 * (t600 / t601))
  let t619 := ((t617 + t617) + t617)
  let t620 := (t617 - t617)
  let t621 := (t565 * t620)
  let t630 := (((t562 * t620) + (t565 * t619)) + (t621 - t621))
  let t632 := ((0 : α) * (t598 / t599))
  let t634 := ((t632 + t632) + t632)
  let t635 := (t632 - t632)
  let t636 := (t635 * t605)
  let t645 := (((t634 * t605) + (t635 * t604)) + (t636 - t636))
  let t646 := (t635 * t620)
  let t655 := (((t634 * t620) + (t635 * t619)) + (t646 - t646))
  let t656 := (t570 * t570)
  let t665 := (((t569 * t570) + (t570 * t569)) + (t656 - t656))
  let t666 := (vto.z / t559)
  let t667 := (vto.y / t559)
  let t668 := (vto.x / t559)
  let t673 := ((((0 : α) * t668) + ((0 : α) * t667)) + ((0 : α) * t666))
  let t674 := ((0 : α) + t666)
  let t675 := ((0 : α) + t667)
  let t676 := ((0 : α) + t668)
  let t677 := (V3.length tmin sqrt ⟨t676, t675, t674⟩)
  let t678 := (t674 / t677)
  let t679 := (t675 / t677)
  let t680 := (t676 / t677)
  let t681 := ((0 : α) * t678)
  let t682 := ((0 : α) * t679)
  let t683 := ((0 : α) * t680)
  let t685 := ((t683 + t682) + t681)
  let t686 := (t682 - t683)
  let t687 := (t683 - t681)
  let t688 := (t681 - t682)
  let t693 := (((t676 * t676) + (t675 * t675)) + (t674 * t674))
  let t694 := (t570 * t565)
  let t698 := ((t569 * t562) - ((t694 + t694) + t694))
  let t703 := (((t569 * t565) + (t570 * t562)) + (t694 - t694))
  let t708 := (((t680 * t680) + (t679 * t679)) + (t678 * t678))
  let t709 := ((0 : α) + t678)
  let t710 := ((0 : α) + t679)
  let t711 := ((0 : α) + t680)
  let t712 := (V3.length tmin sqrt ⟨t711, t710, t709⟩)
  let t713 := (t678 + t666)
  let t714 := (t679 + t667)
  let t715 := (t680 + t668)
  let t716 := (V3.length tmin sqrt ⟨t715, t714, t713⟩)
  let t717 := (t678 * (0 : α))
  let t718 := (t679 * (0 : α))
  let t719 := (t680 * (0 : α))
  let t721 := ((t719 + t718) + t717)
  let t722 := (t719 - t718)
  let t723 := (t717 - t719)
  let t724 := (t718 - t717)
  let t725 := (t565 * t722)
  let t726 := (t565 * t723)
  let t727 := (t565 * t724)
  let t735 := (t565 * t721)
  let t745 := (t713 / t716)
  let t746 := (t714 / t716)
  let t747 := (t715 / t716)
  let t752 := (((t680 * t747) + (t679 * t746)) + (t678 * t745))
  let t755 := ((t680 * t746) - (t679 * t747))
  let t758 := ((t678 * t747) - (t680 * t745))
  let t761 := ((t679 * t745) - (t678 * t746))
  let t762 := (t565 * t755)
  let t763 := (t565 * t758)
  let t764 := (t565 * t761)
  let t772 := (t565 * t752)
  let t785 := ((0 : α) * (t709 / t712))
  let t786 := ((0 : α) * (t710 / t712))
  let t787 := ((0 : α) * (t711 / t712))
  let t789 := ((t787 + t786) + t785)
  let t790 := (t786 - t787)
  let t791 := (t787 - t785)
  let t792 := (t785 - t786)
  let t849 := (t565 * t686)
  let t850 := (t565 * t687)
  let t851 := (t565 * t688)
  let t859 := (t565 * t685)
  let t869 := (t570 * t686)
  let t870 := (t570 * t687)
  let t871 := (t570 * t688)
  let t879 := (t570 * t685)
  let t889 := (vfrom.z / t558)
  let t890 := (vfrom.y / t558)
  let t891 := (vfrom.x / t558)
  let t892 := (t889 * (0 : α))
  let t893 := (t890 * (0 : α))
  let t894 := (t891 * (0 : α))
  let t896 := ((t894 + t893) + t892)
  let t897 := (t889 + (0 : α))
  let t898 := (t890 + (0 : α))
  let t899 := (t891 + (0 : α))
  let t900 := (V3.length tmin sqrt ⟨t899, t898, t897⟩)
  let t901 := (t894 - t893)
  let t902 := (t892 - t894)
  let t903 := (t893 - t892)
  let t904 := (t897 / t900)
  let t905 := (t898 / t900)
  let t906 := (t899 / t900)
  let t911 := (((t891 * t906) + (t890 * t905)) + (t889 * t904))
  let t914 := ((t891 * t905) - (t890 * t906))
  let t917 := ((t889 * t906) - (t891 * t904))
  let t920 := ((t890 * t904) - (t889 * t905))
  let t925 := (((t899 * t899) + (t898 * t898)) + (t897 * t897))
  let t926 := (t889 * t889)
  let t927 := (t890 * t890)
  let t928 := (t891 * t891)
  let t929 := (t890 * (1 : α))
  let t930 := (t894 - t929)
  let t931 := (t889 * (1 : α))
  let t932 := (t931 - t894)
  let t933 := (V3.length tmin sqrt ⟨t903, t932, t930⟩)
  let t934 := (t930 / t933)
  let t935 := (t932 / t933)
  let t936 := (t903 / t933)
  let t937 := (t891 * (1 : α))
  let t938 := (t937 - t893)
  let t939 := (t893 - t931)
  let t940 := (V3.length tmin sqrt ⟨t939, t902, t938⟩)
  let t941 := (t938 / t940)
  let t942 := (t902 / t940)
  let t943 := (t939 / t940)
  let t944 := (t892 - t937)
  let t945 := (t929 - t892)
  let t946 := (V3.length tmin sqrt ⟨t945, t944, t901⟩)
  let t947 := (t901 / t946)
  let t948 := (t944 / t946)
  let t949 := (t945 / t946)
  let t950 := (t901 * t565)
  let t951 := (t902 * t565)
  let t952 := (t903 * t565)
  let t956 := ((t896 * t562) - ((t952 + t951) + t950))
  let t963 := (t896 * t565)
  let t967 := ((t963 + (t901 * t562)) + (t952 - t951))
  let t968 := ((t963 + (t902 * t562)) + (t950 - t952))
  let t969 := ((t963 + (t903 * t562)) + (t951 - t950))
  let t970 := (t901 * t570)
  let t971 := (t902 * t570)
  let t972 := (t903 * t570)
  let t976 := ((t896 * t569) - ((t972 + t971) + t970))
  let t983 := (t896 * t570)
  let t987 := ((t983 + (t901 * t569)) + (t972 - t971))
  let t988 := ((t983 + (t902 * t569)) + (t970 - t972))
  let t989 := ((t983 + (t903 * t569)) + (t971 - t970))
  let t994 := (((t906 * t906) + (t905 * t905)) + (t904 * t904))
  let t995 := (t889 + t904)
  let t996 := (t890 + t905)
  let t997 := (t891 + t906)
  let t998 := (V3.length tmin sqrt ⟨t997, t996, t995⟩)
  let t999 := (t904 + (0 : α))
  let t1000 := (t905 + (0 : α))
  let t1001 := (t906 + (0 : α))
  let t1002 := (V3.length tmin sqrt ⟨t1001, t1000, t999⟩)
  let t1003 := (t904 * (0 : α))
  let t1004 := (t905 * (0 : α))
  let t1005 := (t906 * (0 : α))
  let t1007 := ((t1005 + t1004) + t1003)
  let t1008 := (t1005 - t1004)
  let t1009 := (t1003 - t1005)
  let t1010 := (t1004 - t1003)
  let t1039 := (t999 / t1002)
  let t1040 := (t1000 / t1002)
  let t1041 := (t1001 / t1002)
  let t1046 := (((t906 * t1041) + (t905 * t1040)) + (t904 * t1039))
  let t1049 := ((t906 * t1040) - (t905 * t1041))
  let t1052 := ((t904 * t1041) - (t906 * t1039))
  let t1055 := ((t905 * t1039) - (t904 * t1040))
  let t1084 := (t995 / t998)
  let t1085 := (t996 / t998)
  let t1086 := (t997 / t998)
  let t1091 := (((t891 * t1086) + (t890 * t1085)) + (t889 * t1084))
  let t1094 := ((t891 * t1085) - (t890 * t1086))
  let t1097 := ((t889 * t1086) - (t891 * t1084))
  let t1100 := ((t890 * t1084) - (t889 * t1085))
  let t1157 := (t914 * t565)
  let t1158 := (t917 * t565)
  let t1159 := (t920 * t565)
  let t1163 := ((t911 * t562) - ((t1159 + t1158) + t1157))
  let t1170 := (t911 * t565)
  let t1174 := ((t1170 + (t914 * t562)) + (t1159 - t1158))
  let t1175 := ((t1170 + (t917 * t562)) + (t1157 - t1159))
  let t1176 := ((t1170 + (t920 * t562)) + (t1158 - t1157))
  let t1177 := (t914 * t570)
  let t1178 := (t917 * t570)
  let t1179 := (t920 * t570)
  let t1190 := (t911 * t570)
  let t1201 := (((t891 * t668) + (t890 * t667)) + (t889 * t666))
  let t1202 := (t889 + t666)
  let t1203 := (t890 + t667)
  let t1204 := (t891 + t668)
  let t1205 := (V3.length tmin sqrt ⟨t1204, t1203, t1202⟩)
  let t1206 := (t1202 / t1205)
  let t1207 := (t1203 / t1205)
  let t1208 := (t1204 / t1205)
  let t1227 := (((t1204 * t1204) + (t1203 * t1203)) + (t1202 * t1202))
  let t1234 := ((t896 * t685) - (((t903 * t688) + (t902 * t687)) + (t901 * t686)))
  let t1253 := (((t896 * t686) + (t901 * t685)) + ((t903 * t687) - (t902 * t688)))
  let t1254 := (((t896 * t687) + (t902 * t685)) + ((t901 * t688) - (t903 * t686)))
  let t1255 := (((t896 * t688) + (t903 * t685)) + ((t902 * t686) - (t901 * t687)))
  let t1262 := ((t911 * t685) - (((t920 * t688) + (t917 * t687)) + (t914 * t686)))
  let t1281 := (((t911 * t686) + (t914 * t685)) + ((t920 * t687) - (t917 * t688)))
  let t1282 := (((t911 * t687) + (t917 * t685)) + ((t914 * t688) - (t920 * t686)))
  let t1283 := (((t911 * t688) + (t920 * t685)) + ((t917 * t686) - (t914 * t687)))
  let t1288 := (((t1208 * t1208) + (t1207 * t1207)) + (t1206 * t1206))
  let t1289 := (t889 + t1206)
  let t1290 := (t890 + t1207)
  let t1291 := (t891 + t1208)
  let t1292 := (V3.length tmin sqrt ⟨t1291, t1290, t1289⟩)
  let t1293 := (t1206 + t666)
  let t1294 := (t1207 + t667)
  let t1295 := (t1208 + t668)
  let t1296 := (V3.length tmin sqrt ⟨t1295, t1294, t1293⟩)
  let t1297 := (t1206 * (0 : α))
  let t1298 := (t1207 * (0 : α))
  let t1299 := (t1208 * (0 : α))
  let t1301 := ((t1299 + t1298) + t1297)
  let t1302 := (t1299 - t1298)
  let t1303 := (t1297 - t1299)
  let t1304 := (t1298 - t1297)
  let t1333 := (t1293 / t1296)
  let t1334 := (t1294 / t1296)
  let t1335 := (t1295 / t1296)
  let t1340 := (((t1208 * t1335) + (t1207 * t1334)) + (t1206 * t1333))
  let t1343 := ((t1208 * t1334) - (t1207 * t1335))
  let t1346 := ((t1206 * t1335) - (t1208 * t1333))
  let t1349 := ((t1207 * t1333) - (t1206 * t1334))
  let t1378 := (t1289 / t1292)
  let t1379 := (t1290 / t1292)
  let t1380 := (t1291 / t1292)
  let t1385 := (((t891 * t1380) + (t890 * t1379)) + (t889 * t1378))
  let t1388 := ((t891 * t1379) - (t890 * t1380))
  let t1391 := ((t889 * t1380) - (t891 * t1378))
  let t1394 := ((t890 * t1378) - (t889 * t1379))
  if t558 = (0 : α) then
    if t559 = (0 : α) then
      if (0 : α) ≤ t562 then
        if t564 = (0 : α) then
          ⟨t562, ⟨t565, t565, t565⟩⟩
        else
          ⟨t569, ⟨t570, t570, t570⟩⟩
      else
        if t574 < t577 then
          if t564 = (0 : α) then
            ⟨t582, ⟨t587, t587, t587⟩⟩
          else
            if t590 = (0 : α) then
              if t594 = (0 : α) then
                ⟨(0 : α), ⟨(0 : α), (0 : α), (0 : α)⟩⟩
              else
                ⟨(0 : α), ⟨t597, t596, t595⟩⟩
            else
              if t599 = (0 : α) then
                if t601 = (0 : α) then
                  ⟨((t562 * t604) - ((t606 + t606) + t606)), ⟨t615, t615, t615⟩⟩
                else
                  ⟨((t562 * t619) - ((t621 + t621) + t621)), ⟨t630, t630, t630⟩⟩
              else
                if t601 = (0 : α) then
                  ⟨((t634 * t604) - ((t636 + t636) + t636)), ⟨t645, t645, t645⟩⟩
                else
                  ⟨((t634 * t619) - ((t646 + t646) + t646)), ⟨t655, t655, t655⟩⟩
        else
          if t564 = (0 : α) then
            ⟨t582, ⟨t587, t587, t587⟩⟩
          else
            ⟨((t569 * t569) - ((t656 + t656) + t656)), ⟨t665, t665, t665⟩⟩
    else
      if (0 : α) ≤ t673 then
        if t677 = (0 : α) then
          ⟨t562, ⟨t565, t565, t565⟩⟩
        else
          ⟨t685, ⟨t688, t687, t686⟩⟩
      else
        if t574 < t693 then
          if t677 = (0 : α) then
            if t562 = (0 : α) then
              if t594 = (0 : α) then
                ⟨(0 : α), ⟨(0 : α), (0 : α), (0 : α)⟩⟩
              else
                ⟨(0 : α), ⟨t597, t596, t595⟩⟩
            else
              if t564 = (0 : α) then
                ⟨t582, ⟨t587, t587, t587⟩⟩
              else
                ⟨t698, ⟨t703, t703, t703⟩⟩
          else
            if t708 = (0 : α) then
              if t594 = (0 : α) then
                ⟨(0 : α), ⟨(0 : α), (0 : α), (0 : α)⟩⟩
              else
                ⟨(0 : α), ⟨t597, t596, t595⟩⟩
            else
              if t712 = (0 : α) then
                if t716 = (0 : α) then
                  ⟨((t562 * t721) - ((t727 + t726) + t725)), ⟨(((t562 * t724) + t735) + (t725 - t726)), (((t562 * t723) + t735) + (t727 - t725)), (((t562 * t722) + t735) + (t726 - t727))⟩⟩
                else
                  ⟨((t562 * t752) - ((t764 + t763) + t762)), ⟨(((t562 * t761) + t772) + (t762 - t763)), (((t562 * t758) + t772) + (t764 - t762)), (((t562 * t755) + t772) + (t763 - t764))⟩⟩
              else
                if t716 = (0 : α) then
                  ⟨((t789 * t721) - (((t792 * t724) + (t791 * t723)) + (t790 * t722))), ⟨(((t789 * t724) + (t792 * t721)) + ((t791 * t722) - (t790 * t723))), (((t789 * t723) + (t791 * t721)) + ((t790 * t724) - (t792 * t722))), (((t789 * t722) + (t790 * t721)) + ((t792 * t723) - (t791 * t724)))⟩⟩
                else
                  ⟨((t789 * t752) - (((t792 * t761) + (t791 * t758)) + (t790 * t755))), ⟨(((t789 * t761) + (t792 * t752)) + ((t791 * t755) - (t790 * t758))), (((t789 * t758) + (t791 * t752)) + ((t790 * t761) - (t792 * t755))), (((t789 * t755) + (t790 * t752)) + ((t792 * t758) - (t791 * t761)))⟩⟩
        else
          if t562 = (0 : α) then
            if t594 = (0 : α) then
              ⟨(0 : α), ⟨(0 : α), (0 : α), (0 : α)⟩⟩
            else
              ⟨(0 : α), ⟨t597, t596, t595⟩⟩
          else
            if t564 = (0 : α) then
              if t677 = (0 : α) then
                ⟨t582, ⟨t587, t587, t587⟩⟩
              else
                ⟨((t562 * t685) - ((t851 + t850) + t849)), ⟨(((t562 * t688) + t859) + (t849 - t850)), (((t562 * t687) + t859) + (t851 - t849)), (((t562 * t686) + t859) + (t850 - t851))⟩⟩
            else
              if t677 = (0 : α) then
                ⟨t698, ⟨t703, t703, t703⟩⟩
              else
                ⟨((t569 * t685) - ((t871 + t870) + t869)), ⟨(((t569 * t688) + t879) + (t869 - t870)), (((t569 * t687) + t879) + (t871 - t869)), (((t569 * t686) + t879) + (t870 - t871))⟩⟩
  else
    if t559 = (0 : α) then
      if (0 : α) ≤ t896 then
        if t900 = (0 : α) then
          ⟨t896, ⟨t903, t902, t901⟩⟩
        else
          ⟨t911, ⟨t920, t917, t914⟩⟩
      else
        if t574 < t925 then
          if t900 = (0 : α) then
            if t562 = (0 : α) then
              if t928 ≤ t927 then
                if t928 ≤ t926 then
                  if t933 = (0 : α) then
                    ⟨(0 : α), ⟨(0 : α), (0 : α), (0 : α)⟩⟩
                  else
                    ⟨(0 : α), ⟨t936, t935, t934⟩⟩
                else
                  if t927 ≤ t926 then
                    if t940 = (0 : α) then
                      ⟨(0 : α), ⟨(0 : α), (0 : α), (0 : α)⟩⟩
                    else
                      ⟨(0 : α), ⟨t943, t942, t941⟩⟩
                  else
                    if t946 = (0 : α) then
                      ⟨(0 : α), ⟨(0 : α), (0 : α), (0 : α)⟩⟩
                    else
                      ⟨(0 : α), ⟨t949, t948, t947⟩⟩
              else
                if t927 ≤ t926 then
                  if t940 = (0 : α) then
                    ⟨(0 : α), ⟨(0 : α), (0 : α), (0 : α)⟩⟩
                  else
                    ⟨(0 : α), ⟨t943, t942, t941⟩⟩
                else
                  if t946 = (0 : α) then
                    ⟨(0 : α), ⟨(0 : α), (0 : α), (0 : α)⟩⟩
                  else
                    ⟨(0 : α), ⟨t949, t948, t947⟩⟩
            else
              if t564 = (0 : α) then
                ⟨t956, ⟨t969, t968, t967⟩⟩
              else
                ⟨t976, ⟨t989, t988, t987⟩⟩
          else
            if t994 = (0 : α) then
              if t928 ≤ t927 then
                if t928 ≤ t926 then
                  if t933 = (0 : α) then
                    ⟨(0 : α), ⟨(0 : α), (0 : α), (0 : α)⟩⟩
                  else
                    ⟨(0 : α), ⟨t936, t935, t934⟩⟩
                else
                  if t927 ≤ t926 then
                    if t940 = (0 : α) then
                      ⟨(0 : α), ⟨(0 : α), (0 : α), (0 : α)⟩⟩
                    else
                      ⟨(0 : α), ⟨t943, t942, t941⟩⟩
                  else
                    if t946 = (0 : α) then
                      ⟨(0 : α), ⟨(0 : α), (0 : α), (0 : α)⟩⟩
                    else
                      ⟨(0 : α), ⟨t949, t948, t947⟩⟩
              else
                if t927 ≤ t926 then
                  if t940 = (0 : α) then
                    ⟨(0 : α), ⟨(0 : α), (0 : α), (0 : α)⟩⟩
                  else
                    ⟨(0 : α), ⟨t943, t942, t941⟩⟩
                else
                  if t946 = (0 : α) then
                    ⟨(0 : α), ⟨(0 : α), (0 : α), (0 : α)⟩⟩
                  else
                    ⟨(0 : α), ⟨t949, t948, t947⟩⟩
            else
              if t998 = (0 : α) then
                if t1002 = (0 : α) then
                  ⟨((t896 * t1007) - (((t903 * t1010) + (t902 * t1009)) + (t901 * t1008))), ⟨(((t896 * t1010) + (t903 * t1007)) + ((t902 * t1008) - (t901 * t1009))), (((t896 * t1009) + (t902 * t1007)) + ((t901 * t1010) - (t903 * t1008))), (((t896 * t1008) + (t901 * t1007)) + ((t903 * t1009) - (t902 * t1010)))⟩⟩
                else
                  ⟨((t896 * t1046) - (((t903 * t1055) + (t902 * t1052)) + (t901 * t1049))), ⟨(((t896 * t1055) + (t903 * t1046)) + ((t902 * t1049) - (t901 * t1052))), (((t896 * t1052) + (t902 * t1046)) + ((t901 * t1055) - (t903 * t1049))), (((t896 * t1049) + (t901 * t1046)) + ((t903 * t1052) - (t902 * t1055)))⟩⟩
              else
                if t1002 = (0 : α) then
                  ⟨((t1091 * t1007) - (((t1100 * t1010) + (t1097 * t1009)) + (t1094 * t1008))), ⟨(((t1091 * t1010) + (t1100 * t1007)) + ((t1097 * t1008) - (t1094 * t1009))), (((t1091 * t1009) + (t1097 * t1007)) + ((t1094 * t1010) - (t1100 * t1008))), (((t1091 * t1008) + (t1094 * t1007)) + ((t1100 * t1009) - (t1097 * t1010)))⟩⟩
                else
                  ⟨((t1091 * t1046) - (((t1100 * t1055) + (t1097 * t1052)) + (t1094 * t1049))), ⟨(((t1091 * t1055) + (t1100 * t1046)) + ((t1097 * t1049) - (t1094 * t1052))), (((t1091 * t1052) + (t1097 * t1046)) + ((t1094 * t1055) - (t1100 * t1049))), (((t1091 * t1049) + (t1094 * t1046)) + ((t1100 * t1052) - (t1097 * t1055)))⟩⟩
        else
          if t562 = (0 : α) then
            if t928 ≤ t927 then
              if t928 ≤ t926 then
                if t933 = (0 : α) then
                  ⟨(0 : α), ⟨(0 : α), (0 : α), (0 : α)⟩⟩
                else
                  ⟨(0 : α), ⟨t936, t935, t934⟩⟩
              else
                if t927 ≤ t926 then
                  if t940 = (0 : α) then
                    ⟨(0 : α), ⟨(0 : α), (0 : α), (0 : α)⟩⟩
                  else
                    ⟨(0 : α), ⟨t943, t942, t941⟩⟩
                else
                  if t946 = (0 : α) then
                    ⟨(0 : α), ⟨(0 : α), (0 : α), (0 : α)⟩⟩
                  else
                    ⟨(0 : α), ⟨t949, t948, t947⟩⟩
            else
              if t927 ≤ t926 then
                if t940 = (0 : α) then
                  ⟨(0 : α), ⟨(0 : α), (0 : α), (0 : α)⟩⟩
                else
                  ⟨(0 : α), ⟨t943, t942, t941⟩⟩
              else
                if t946 = (0 : α) then
                  ⟨(0 : α), ⟨(0 : α), (0 : α), (0 : α)⟩⟩
                else
                  ⟨(0 : α), ⟨t949, t948, t947⟩⟩
          else
            if t900 = (0 : α) then
              if t564 = (0 : α) then
                ⟨t956, ⟨t969, t968, t967⟩⟩
              else
                ⟨t976, ⟨t989, t988, t987⟩⟩
            else
              if t564 = (0 : α) then
                ⟨t1163, ⟨t1176, t1175, t1174⟩⟩
              else
                ⟨((t911 * t569) - ((t1179 + t1178) + t1177)), ⟨((t1190 + (t920 * t569)) + (t1178 - t1177)), ((t1190 + (t917 * t569)) + (t1177 - t1179)), ((t1190 + (t914 * t569)) + (t1179 - t1178))⟩⟩
    else
      if (0 : α) ≤ t1201 then
        if t1205 = (0 : α) then
          ⟨t896, ⟨t903, t902, t901⟩⟩
        else
          ⟨(((t891 * t1208) + (t890 * t1207)) + (t889 * t1206)), ⟨((t890 * t1206) - (t889 * t1207)), ((t889 * t1208) - (t891 * t1206)), ((t891 * t1207) - (t890 * t1208))⟩⟩
      else
        if t574 < t1227 then
          if t1205 = (0 : α) then
            if t562 = (0 : α) then
              if t928 ≤ t927 then
                if t928 ≤ t926 then
                  if t933 = (0 : α) then
                    ⟨(0 : α), ⟨(0 : α), (0 : α), (0 : α)⟩⟩
                  else
                    ⟨(0 : α), ⟨t936, t935, t934⟩⟩
                else
                  if t927 ≤ t926 then
                    if t940 = (0 : α) then
                      ⟨(0 : α), ⟨(0 : α), (0 : α), (0 : α)⟩⟩
                    else
                      ⟨(0 : α), ⟨t943, t942, t941⟩⟩
                  else
                    if t946 = (0 : α) then
                      ⟨(0 : α), ⟨(0 : α), (0 : α), (0 : α)⟩⟩
                    else
                      ⟨(0 : α), ⟨t949, t948, t947⟩⟩
              else
                if t927 ≤ t926 then
                  if t940 = (0 : α) then
                    ⟨(0 : α), ⟨(0 : α), (0 : α), (0 : α)⟩⟩
                  else
                    ⟨(0 : α), ⟨t943, t942, t941⟩⟩
                else
                  if t946 = (0 : α) then
                    ⟨(0 : α), ⟨(0 : α), (0 : α), (0 : α)⟩⟩
                  else
                    ⟨(0 : α), ⟨t949, t948, t947⟩⟩
            else
              if t900 = (0 : α) then
                if t677 = (0 : α) then
                  ⟨t956, ⟨t969, t968, t967⟩⟩
                else
                  ⟨t1234, ⟨t1255, t1254, t1253⟩⟩
              else
                if t677 = (0 : α) then
                  ⟨t1163, ⟨t1176, t1175, t1174⟩⟩
                else
                  ⟨t1262, ⟨t1283, t1282, t1281⟩⟩
          else
            if t1288 = (0 : α) then
              if t928 ≤ t927 then
                if t928 ≤ t926 then
                  if t933 = (0 : α) then
                    ⟨(0 : α), ⟨(0 : α), (0 : α), (0 : α)⟩⟩
                  else
                    ⟨(0 : α), ⟨t936, t935, t934⟩⟩
                else
                  if t927 ≤ t926 then
                    if t940 = (0 : α) then
                      ⟨(0 : α), ⟨(0 : α), (0 : α), (0 : α)⟩⟩
                    else
                      ⟨(0 : α), ⟨t943, t942, t941⟩⟩
                  else
                    if t946 = (0 : α) then
                      ⟨(0 : α), ⟨(0 : α), (0 : α), (0 : α)⟩⟩
                    else
                      ⟨(0 : α), ⟨t949, t948, t947⟩⟩
              else
                if t927 ≤ t926 then
                  if t940 = (0 : α) then
                    ⟨(0 : α), ⟨(0 : α), (0 : α), (0 : α)⟩⟩
                  else
                    ⟨(0 : α), ⟨t943, t942, t941⟩⟩
                else
                  if t946 = (0 : α) then
                    ⟨(0 : α), ⟨(0 : α), (0 : α), (0 : α)⟩⟩
                  else
                    ⟨(0 : α), ⟨t949, t948, t947⟩⟩
            else
              if t1292 = (0 : α) then
                if t1296 = (0 : α) then
                  ⟨((t896 * t1301) - (((t903 * t1304) + (t902 * t1303)) + (t901 * t1302))), ⟨(((t896 * t1304) + (t903 * t1301)) + ((t902 * t1302) - (t901 * t1303))), (((t896 * t1303) + (t902 * t1301)) + ((t901 * t1304) - (t903 * t1302))), (((t896 * t1302) + (t901 * t1301)) + ((t903 * t1303) - (t902 * t1304)))⟩⟩
                else
                  ⟨((t896 * t1340) - (((t903 * t1349) + (t902 * t1346)) + (t901 * t1343))), ⟨(((t896 * t1349) + (t903 * t1340)) + ((t902 * t1343) - (t901 * t1346))), (((t896 * t1346) + (t902 * t1340)) + ((t901 * t1349) - (t903 * t1343))), (((t896 * t1343) + (t901 * t1340)) + ((t903 * t1346) - (t902 * t1349)))⟩⟩
              else
                if t1296 = (0 : α) then
                  ⟨((t1385 * t1301) - (((t1394 * t1304) + (t1391 * t1303)) + (t1388 * t1302))), ⟨(((t1385 * t1304) + (t1394 * t1301)) + ((t1391 * t1302) - (t1388 * t1303))), (((t1385 * t1303) + (t1391 * t1301)) + ((t1388 * t1304) - (t1394 * t1302))), (((t1385 * t1302) + (t1388 * t1301)) + ((t1394 * t1303) - (t1391 * t1304)))⟩⟩
                else
                  ⟨((t1385 * t1340) - (((t1394 * t1349) + (t1391 * t1346)) + (t1388 * t1343))), ⟨(((t1385 * t1349) + (t1394 * t1340)) + ((t1391 * t1343) - (t1388 * t1346))), (((t1385 * t1346) + (t1391 * t1340)) + ((t1388 * t1349) - (t1394 * t1343))), (((t1385 * t1343) + (t1388 * t1340)) + ((t1394 * t1346) - (t1391 * t1349)))⟩⟩
        else
          if t562 = (0 : α) then
            if t928 ≤ t927 then
              if t928 ≤ t926 then
                if t933 = (0 : α) then
                  ⟨(0 : α), ⟨(0 : α), (0 : α), (0 : α)⟩⟩
                else
                  ⟨(0 : α), ⟨t936, t935, t934⟩⟩
              else
                if t927 ≤ t926 then
                  if t940 = (0 : α) then
                    ⟨(0 : α), ⟨(0 : α), (0 : α), (0 : α)⟩⟩
                  else
                    ⟨(0 : α), ⟨t943, t942, t941⟩⟩
                else
                  if t946 = (0 : α) then
                    ⟨(0 : α), ⟨(0 : α), (0 : α), (0 : α)⟩⟩
                  else
                    ⟨(0 : α), ⟨t949, t948, t947⟩⟩
            else
              if t927 ≤ t926 then
                if t940 = (0 : α) then
                  ⟨(0 : α), ⟨(0 : α), (0 : α), (0 : α)⟩⟩
                else
                  ⟨(0 : α), ⟨t943, t942, t941⟩⟩
              else
                if t946 = (0 : α) then
                  ⟨(0 : α), ⟨(0 : α), (0 : α), (0 : α)⟩⟩
                else
                  ⟨(0 : α), ⟨t949, t948, t947⟩⟩
          else
            if t900 = (0 : α) then
              if t677 = (0 : α) then
                ⟨t956, ⟨t969, t968, t967⟩⟩
              else
                ⟨t1234, ⟨t1255, t1254, t1253⟩⟩
            else
              if t677 = (0 : α) then
                ⟨t1163, ⟨t1176, t1175, t1174⟩⟩
              else
                ⟨t1262, ⟨t1283, t1282, t1281⟩⟩

/-- extracted from the C++ template at T = Sym; 2 path(s) -/
def C10.sinx_over_x {α : Type} [Mul α] [Div α] [LT α] [DecidableLT α] [OfNat α 1] (teps : α) (sin : α → α) (x : α) : α :=
  let t1452 := (x * x)
  if t1452 < teps then
    (1 : α)
  else
    ((sin x) / x)

/-- extracted from the C++ template at T = Sym; 1 path(s) -/
def C10.Quat.angle4D {α : Type} [Add α] [Sub α] [Mul α] [OfNat α 2] (sqrt : α → α) (atan2 : α → α → α) (q1 : Quat α) (q2 : Quat α) : α :=
  let t1463 := (q1.v.z - q2.v.z)
  let t1464 := (q1.v.y - q2.v.y)
  let t1465 := (q1.v.x - q2.v.x)
  let t1466 := (q1.r - q2.r)
  let t1475 := (q1.v.z + q2.v.z)
  let t1476 := (q1.v.y + q2.v.y)
  let t1477 := (q1.v.x + q2.v.x)
  let t1478 := (q1.r + q2.r)
  ((2 : α) * (atan2 (sqrt ((t1466 * t1466) + (((t1465 * t1465) + (t1464 * t1464)) + (t1463 * t1463)))) (sqrt ((t1478 * t1478) + (((t1477 * t1477) + (t1476 * t1476)) + (t1475 * t1475))))))

/-- extracted from the C++ template at T = Sym; 16 path(s) -/
def C10.Quat.slerp {α : Type} [Add α] [Sub α] [Mul α] [Div α] [LT α] [DecidableLT α] [DecidableEq α] [OfNat α 0] [OfNat α 1] [OfNat α 2] (teps : α) (sqrt : α → α) (sin : α → α) (atan2 : α → α → α) (q1 : Quat α) (q2 : Quat α) (t : α) : (Quat α) :=
  let t1463 := (q1.v.z - q2.v.z)
  let t1464 := (q1.v.y - q2.v.y)
  let t1465 := (q1.v.x - q2.v.x)
  let t1466 := (q1.r - q2.r)
  let t1475 := (q1.v.z + q2.v.z)
  let t1476 := (q1.v.y + q2.v.y)
  let t1477 := (q1.v.x + q2.v.x)
  let t1478 := (q1.r + q2.r)
  let t1488 := ((2 : α) * (atan2 (sqrt ((t1466 * t1466) + (((t1465 * t1465) + (t1464 * t1464)) + (t1463 * t1463)))) (sqrt ((t1478 * t1478) + (((t1477 * t1477) + (t1476 * t1476)) + (t1475 * t1475))))))
  let t1490 := ((1 : α) - t)
  let t1491 := (t1488 * t1488)
  let t1492 := (t * t1488)
  let t1493 := (t1492 * t1492)
  let t1494 := ((1 : α) / (1 : α))
  let t1495 := (t1494 * t)
  let t1496 := (q2.v.z * t1495)
  let t1497 := (q2.v.y * t1495)
  let t1498 := (q2.v.x * t1495)
  let t1499 := (q2.r * t1495)
  let t1500 := (t1490 * t1488)
  let t1501 := (t1500 * t1500)
  let t1502 := (t1494 * t1490)
  let t1503 := (q1.v.z * t1502)
  let t1504 := (q1.v.y * t1502)
  let t1505 := (q1.v.x * t1502)
  let t1506 := (q1.r * t1502)
  let t1507 := (t1503 + t1496)
  let t1508 := (t1504 + t1497)
  let t1509 := (t1505 + t1498)
  let t1510 := (t1506 + t1499)
  let t1518 := (sqrt ((t1510 * t1510) + (((t1509 * t1509) + (t1508 * t1508)) + (t1507 * t1507))))
  let t1524 := ((sin t1500) / t1500)
  let t1526 := ((t1524 / (1 : α)) * t1490)
  let t1527 := (q1.v.z * t1526)
  let t1528 := (q1.v.y * t1526)
  let t1529 := (q1.v.x * t1526)
  let t1530 := (q1.r * t1526)
  let t1531 := (t1527 + t1496)
  let t1532 := (t1528 + t1497)
  let t1533 := (t1529 + t1498)
  let t1534 := (t1530 + t1499)
  let t1542 := (sqrt ((t1534 * t1534) + (((t1533 * t1533) + (t1532 * t1532)) + (t1531 * t1531))))
  let t1548 := ((sin t1492) / t1492)
  let t1550 := ((t1548 / (1 : α)) * t)
  let t1551 := (q2.v.z * t1550)
  let t1552 := (q2.v.y * t1550)
  let t1553 := (q2.v.x * t1550)
  let t1554 := (q2.r * t1550)
  let t1555 := (t1503 + t1551)
  let t1556 := (t1504 + t1552)
  let t1557 := (t1505 + t1553)
  let t1558 := (t1506 + t1554)
  let t1566 := (sqrt ((t1558 * t1558) + (((t1557 * t1557) + (t1556 * t1556)) + (t1555 * t1555))))
  let t1571 := (t1527 + t1551)
  let t1572 := (t1528 + t1552)
  let t1573 := (t1529 + t1553)
  let t1574 := (t1530 + t1554)
  let t1582 := (sqrt ((t1574 * t1574) + (((t1573 * t1573) + (t1572 * t1572)) + (t1571 * t1571))))
  let t1588 := ((sin t1488) / t1488)
  let t1589 := ((1 : α) / t1588)
  let t1590 := (t1589 * t)
  let t1591 := (q2.v.z * t1590)
  let t1592 := (q2.v.y * t1590)
  let t1593 := (q2.v.x * t1590)
  let t1594 := (q2.r * t1590)
  let t1595 := (t1589 * t1490)
  let t1596 := (q1.v.z * t1595)
  let t1597 := (q1.v.y * t1595)
  let t1598 := (q1.v.x * t1595)
  let t1599 := (q1.r * t1595)
  let t1600 := (t1596 + t1591)
  let t1601 := (t1597 + t1592)
  let t1602 := (t1598 + t1593)
  let t1603 := (t1599 + t1594)
  let t1611 := (sqrt ((t1603 * t1603) + (((t1602 * t1602) + (t1601 * t1601)) + (t1600 * t1600))))
  let t1617 := ((t1524 / t1588) * t1490)
  let t1618 := (q1.v.z * t1617)
  let t1619 := (q1.v.y * t1617)
  let t1620 := (q1.v.x * t1617)
  let t1621 := (q1.r * t1617)
  let t1622 := (t1618 + t1591)
  let t1623 := (t1619 + t1592)
  let t1624 := (t1620 + t1593)
  let t1625 := (t1621 + t1594)
  let t1633 := (sqrt ((t1625 * t1625) + (((t1624 * t1624) + (t1623 * t1623)) + (t1622 * t1622))))
  let t1639 := ((t1548 / t1588) * t)
  let t1640 := (q2.v.z * t1639)
  let t1641 := (q2.v.y * t1639)
  let t1642 := (q2.v.x * t1639)
  let t1643 := (q2.r * t1639)
  let t1644 := (t1596 + t1640)
  let t1645 := (t1597 + t1641)
  let t1646 := (t1598 + t1642)
  let t1647 := (t1599 + t1643)
  let t1655 := (sqrt ((t1647 * t1647) + (((t1646 * t1646) + (t1645 * t1645)) + (t1644 * t1644))))
  let t1660 := (t1618 + t1640)
  let t1661 := (t1619 + t1641)
  let t1662 := (t1620 + t1642)
  let t1663 := (t1621 + t1643)
  let t1671 := (sqrt ((t1663 * t1663) + (((t1662 * t1662) + (t1661 * t1661)) + (t1660 * t1660))))
  if t1491 < teps then
    if t1493 < teps then
      if t1501 < teps then
        if t1518 = (0 : α) then
          ⟨(1 : α), ⟨(0 : α), (0 : α), (0 : α)⟩⟩
        else
          ⟨(t1510 / t1518), ⟨(t1509 / t1518), (t1508 / t1518), (t1507 / t1518)⟩⟩
      else
        if t1542 = (0 : α) then
          ⟨(1 : α), ⟨(0 : α), (0 : α), (0 : α)⟩⟩
        else
          ⟨(t1534 / t1542), ⟨(t1533 / t1542), (t1532 / t1542), (t1531 / t1542)⟩⟩
    else
      if t1501 < teps then
        if t1566 = (0 : α) then
          ⟨(1 : α), ⟨(0 : α), (0 : α), (0 : α)⟩⟩
        else
          ⟨(t1558 / t1566), ⟨(t1557 / t1566), (t1556 / t1566), (t1555 / t1566)⟩⟩
      else
        if t1582 = (0 : α) then
          ⟨(1 : α), ⟨(0 : α), (0 : α), (0 : α)⟩⟩
        else
          ⟨(t1574 / t1582), ⟨(t1573 / t1582), (t1572 / t1582), (t1571 / t1582)⟩⟩
  else
    if t1493 < teps then
      if t1501 < teps then
        if t1611 = (0 : α) then
          ⟨(1 : α), ⟨(0 : α), (0 : α), (0 : α)⟩⟩
        else
          ⟨(t1603 / t1611), ⟨(t1602 / t1611), (t1601 / t1611), (t1600 / t1611)⟩⟩
      else
        if t1633 = (0 : α) then
          ⟨(1 : α), ⟨(0 : α), (0 : α), (0 : α)⟩⟩
        else
          ⟨(t1625 / t1633), ⟨(t1624 / t1633), (t1623 / t1633), (t1622 / t1633)⟩⟩
    else
      if t1501 < teps then
        if t1655 = (0 : α) then
          ⟨(1 : α), ⟨(0 : α), (0 : α), (0 : α)⟩⟩
        else
          ⟨(t1647 / t1655), ⟨(t1646 / t1655), (t1645 / t1655), (t1644 / t1655)⟩⟩
      else
        if t1671 = (0 : α) then
          ⟨(1 : α), ⟨(0 : α), (0 : α), (0 : α)⟩⟩
        else
          ⟨(t1663 / t1671), ⟨(t1662 / t1671), (t1661 / t1671), (t1660 / t1671)⟩⟩

/-- extracted from the C++ template at T = Sym; 32 path(s) -/
def C10.Quat.slerpShortestArc {α : Type} [Add α] [Sub α] [Mul α] [Div α] [Neg α] [LT α] [LE α] [DecidableLT α] [DecidableLE α] [DecidableEq α] [OfNat α 0] [OfNat α 1] [OfNat α 2] (teps : α) (sqrt : α → α) (sin : α → α) (atan2 : α → α → α) (q1 : Quat α) (q2 : Quat α) (t : α) : (Quat α) :=
  let t1463 := (q1.v.z - q2.v.z)
  let t1464 := (q1.v.y - q2.v.y)
  let t1465 := (q1.v.x - q2.v.x)
  let t1466 := (q1.r - q2.r)
  let t1475 := (q1.v.z + q2.v.z)
  let t1476 := (q1.v.y + q2.v.y)
  let t1477 := (q1.v.x + q2.v.x)
  let t1478 := (q1.r + q2.r)
  let t1488 := ((2 : α) * (atan2 (sqrt ((t1466 * t1466) + (((t1465 * t1465) + (t1464 * t1464)) + (t1463 * t1463)))) (sqrt ((t1478 * t1478) + (((t1477 * t1477) + (t1476 * t1476)) + (t1475 * t1475))))))
  let t1490 := ((1 : α) - t)
  let t1491 := (t1488 * t1488)
  let t1492 := (t * t1488)
  let t1493 := (t1492 * t1492)
  let t1494 := ((1 : α) / (1 : α))
  let t1495 := (t1494 * t)
  let t1496 := (q2.v.z * t1495)
  let t1497 := (q2.v.y * t1495)
  let t1498 := (q2.v.x * t1495)
  let t1499 := (q2.r * t1495)
  let t1500 := (t1490 * t1488)
  let t1501 := (t1500 * t1500)
  let t1502 := (t1494 * t1490)
  let t1503 := (q1.v.z * t1502)
  let t1504 := (q1.v.y * t1502)
  let t1505 := (q1.v.x * t1502)
  let t1506 := (q1.r * t1502)
  let t1507 := (t1503 + t1496)
  let t1508 := (t1504 + t1497)
  let t1509 := (t1505 + t1498)
  let t1510 := (t1506 + t1499)
  let t1518 := (sqrt ((t1510 * t1510) + (((t1509 * t1509) + (t1508 * t1508)) + (t1507 * t1507))))
  let t1524 := ((sin t1500) / t1500)
  let t1526 := ((t1524 / (1 : α)) * t1490)
  let t1527 := (q1.v.z * t1526)
  let t1528 := (q1.v.y * t1526)
  let t1529 := (q1.v.x * t1526)
  let t1530 := (q1.r * t1526)
  let t1531 := (t1527 + t1496)
  let t1532 := (t1528 + t1497)
  let t1533 := (t1529 + t1498)
  let t1534 := (t1530 + t1499)
  let t1542 := (sqrt ((t1534 * t1534) + (((t1533 * t1533) + (t1532 * t1532)) + (t1531 * t1531))))
  let t1548 := ((sin t1492) / t1492)
  let t1550 := ((t1548 / (1 : α)) * t)
  let t1551 := (q2.v.z * t1550)
  let t1552 := (q2.v.y * t1550)
  let t1553 := (q2.v.x * t1550)
  let t1554 := (q2.r * t1550)
  let t1555 := (t1503 + t1551)
  let t1556 := (t1504 + t1552)
  let t1557 := (t1505 + t1553)
  let t1558 := (t1506 + t1554)
  let t1566 := (sqrt ((t1558 * t1558) + (((t1557 * t1557) + (t1556 * t1556)) + (t1555 * t1555))))
  let t1571 := (t1527 + t1551)
  let t1572 := (t1528 + t1552)
  let t1573 := (t1529 + t1553)
  let t1574 := (t1530 + t1554)
  let t1582 := (sqrt ((t1574 * t1574) + (((t1573 * t1573) + (t1572 * t1572)) + (t1571 * t1571))))
  let t1588 := ((sin t1488) / t1488)
  let t1589 := ((1 : α) / t1588)
  let t1590 := (t1589 * t)
  let t1591 := (q2.v.z * t1590)
  let t1592 := (q2.v.y * t1590)
  let t1593 := (q2.v.x * t1590)
  let t1594 := (q2.r * t1590)
  let t1595 := (t1589 * t1490)
  let t1596 := (q1.v.z * t1595)
  let t1597 := (q1.v.y * t1595)
  let t1598 := (q1.v.x * t1595)
  let t1599 := (q1.r * t1595)
  let t1600 := (t1596 + t1591)
  let t1601 := (t1597 + t1592)
  let t1602 := (t1598 + t1593)
  let t1603 := (t1599 + t1594)
  let t1611 := (sqrt ((t1603 * t1603) + (((t1602 * t1602) + (t1601 * t1601)) + (t1600 * t1600))))
  let t1617 := ((t1524 / t1588) * t1490)
  let t1618 := (q1.v.z * t1617)
  let t1619 := (q1.v.y * t1617)
  let t1620 := (q1.v.x * t1617)
  let t1621 := (q1.r * t1617)
  let t1622 := (t1618 + t1591)
  let t1623 := (t1619 + t1592)
  let t1624 := (t1620 + t1593)
  let t1625 := (t1621 + t1594)
  let t1633 := (sqrt ((t1625 * t1625) + (((t1624 * t1624) + (t1623 * t1623)) + (t1622 * t1622))))
  let t1639 := ((t1548 / t1588) * t)
  let t1640 := (q2.v.z * t1639)
  let t1641 := (q2.v.y * t1639)
  let t1642 := (q2.v.x * t1639)
  let t1643 := (q2.r * t1639)
  let t1644 := (t1596 + t1640)
  let t1645 := (t1597 + t1641)
  let t1646 := (t1598 + t1642)
  let t1647 := (t1599 + t1643)
  let t1655 := (sqrt ((t1647 * t1647) + (((t1646 * t1646) + (t1645 * t1645)) + (t1644 * t1644))))
  let t1660 := (t1618 + t1640)
  let t1661 := (t1619 + t1641)
  let t1662 := (t1620 + t1642)
  let t1663 := (t1621 + t1643)
  let t1671 := (sqrt ((t1663 * t1663) + (((t1662 * t1662) + (t1661 * t1661)) + (t1660 * t1660))))
  let t1682 := ((q1.r * q2.r) + (((q1.v.x * q2.v.x) + (q1.v.y * q2.v.y)) + (q1.v.z * q2.v.z)))
  let t1683 := (-q2.v.z)
  let t1684 := (-q2.v.y)
  let t1685 := (-q2.v.x)
  let t1686 := (-q2.r)
  let t1687 := (q1.v.z - t1683)
  let t1688 := (q1.v.y - t1684)
  let t1689 := (q1.v.x - t1685)
  let t1690 := (q1.r - t1686)
  let t1699 := (q1.v.z + t1683)
  let t1700 := (q1.v.y + t1684)
  let t1701 := (q1.v.x + t1685)
  let t1702 := (q1.r + t1686)
  let t1712 := ((2 : α) * (atan2 (sqrt ((t1690 * t1690) + (((t1689 * t1689) + (t1688 * t1688)) + (t1687 * t1687)))) (sqrt ((t1702 * t1702) + (((t1701 * t1701) + (t1700 * t1700)) + (t1699 * t1699))))))
  let t1713 := (t1712 * t1712)
  let t1714 := (t * t1712)
  let t1715 := (t1714 * t1714)
  let t1716 := (t1683 * t1495)
  let t1717 := (t1684 * t1495)
  let t1718 := (t1685 * t1495)
  let t1719 := (t1686 * t1495)
  let t1720 := (t1490 * t1712)
  let t1721 := (t1720 * t1720)
  let t1722 := (t1503 + t1716)
  let t1723 := (t1504 + t1717)
  let t1724 := (t1505 + t1718)
  let t1725 := (t1506 + t1719)
  let t1733 := (sqrt ((t1725 * t1725) + (((t1724 * t1724) + (t1723 * t1723)) + (t1722 * t1722))))
  let t1739 := ((sin t1720) / t1720)
  let t1741 := ((t1739 / (1 : α)) * t1490)
  let t1742 := (q1.v.z * t1741)
  let t1743 := (q1.v.y * t1741)
  let t1744 := (q1.v.x * t1741)
  let t1745 := (q1.r * t1741)
  let t1746 := (t1742 + t1716)
  let t1747 := (t1743 + t1717)
  let t1748 := (t1744 + t1718)
  let t1749 := (t1745 + t1719)
  let t1757 := (sqrt ((t1749 * t1749) + (((t1748 * t1748) + (t1747 * t1747)) + (t1746 * t1746))))
  let t1763 := ((sin t1714) / t1714)
  let t1765 := ((t1763 / (1 : α)) * t)
  let t1766 := (t1683 * t1765)
  let t1767 := (t1684 * t1765)
  let t1768 := (t1685 * t1765)
  let t1769 := (t1686 * t1765)
  let t1770 := (t1503 + t1766)
  let t1771 := (t1504 + t1767)
  let t1772 := (t1505 + t1768)
  let t1773 := (t1506 + t1769)
  let t1781 := (sqrt ((t1773 * t1773) + (((t1772 * t1772) + (t1771 * t1771)) + (t1770 * t1770))))
  let t1786 := (t1742 + t1766)
  let t1787 := (t1743 + t1767)
  let t1788 := (t1744 + t1768)
  let t1789 := (t1745 + t1769)
  let t1797 := (sqrt ((t1789 * t1789) + (((t1788 * t1788) + (t1787 * t1787)) + (t1786 * t1786))))
  let t1803 := ((sin t1712) / t1712)
  let t1804 := ((1 : α) / t1803)
  let t1805 := (t1804 * t)
  let t1806 := (t1683 * t1805)
  let t1807 := (t1684 * t1805)
  let t1808 := (t1685 * t1805)
  let t1809 := (t1686 * t1805)
  let t1810 := (t1804 * t1490)
  let t1811 := (q1.v.z * t1810)
  let t1812 := (q1.v.y * t1810)
  let t1813 := (q1.v.x * t1810)
  let t1814 := (q1.r * t1810)
  let t1815 := (t1811 + t1806)
  let t1816 := (t1812 + t1807)
  let t1817 := (t1813 + t1808)
  let t1818 := (t1814 + t1809)
  let t1826 := (sqrt ((t1818 * t1818) + (((t1817 * t1817) + (t1816 * t1816)) + (t1815 * t1815))))
  let t1832 := ((t1739 / t1803) * t1490)
  let t1833 := (q1.v.z * t1832)
  let t1834 := (q1.v.y * t1832)
  let t1835 := (q1.v.x * t1832)
  let t1836 := (q1.r * t1832)
  let t1837 := (t1833 + t1806)
  let t1838 := (t1834 + t1807)
  let t1839 := (t1835 + t1808)
  let t1840 := (t1836 + t1809)
  let t1848 := (sqrt ((t1840 * t1840) + (((t1839 * t1839) + (t1838 * t1838)) + (t1837 * t1837))))
  let t1854 := ((t1763 / t1803) * t)
  let t1855 := (t1683 * t1854)
  let t1856 := (t1684 * t1854)
  let t1857 := (t1685 * t1854)
  let t1858 := (t1686 * t1854)
  let t1859 := (t1811 + t1855)
  let t1860 := (t1812 + t1856)
  let t1861 := (t1813 + t1857)
  let t1862 := (t1814 + t1858)
  let t1870 := (sqrt ((t1862 * t1862) + (((t1861 * t1861) + (t1860 * t1860)) + (t1859 * t1859))))
  let t1875 := (t1833 + t1855)
  let t1876 := (t1834 + t1856)
  let t1877 := (t1835 + t1857)
  let t1878 := (t1836 + t1858)
  let t1886 := (sqrt ((t1878 * t1878) + (((t1877 * t1877) + (t1876 * t1876)) + (t1875 * t1875))))
  if (0 : α) ≤ t1682 then
    if t1491 < teps then
      if t1493 < teps then
        if t1501 < teps then
          if t1518 = (0 : α) then
            ⟨(1 : α), ⟨(0 : α), (0 : α), (0 : α)⟩⟩
          else
            ⟨(t1510 / t1518), ⟨(t1509 / t1518), (t1508 / t1518), (t1507 / t1518)⟩⟩
        else
          if t1542 = (0 : α) then
            ⟨(1 : α), ⟨(0 : α), (0 : α), (0 : α)⟩⟩
          else
            ⟨(t1534 / t1542), ⟨(t1533 / t1542), (t1532 / t1542), (t1531 / t1542)⟩⟩
      else
        if t1501 < teps then
          if t1566 = (0 : α) then
            ⟨(1 : α), ⟨(0 : α), (0 : α), (0 : α)⟩⟩
          else
            ⟨(t1558 / t1566), ⟨(t1557 / t1566), (t1556 / t1566), (t1555 / t1566)⟩⟩
        else
          if t1582 = (0 : α) then
            ⟨(1 : α), ⟨(0 : α), (0 : α), (0 : α)⟩⟩
          else
            ⟨(t1574 / t1582), ⟨(t1573 / t1582), (t1572 / t1582), (t1571 / t1582)⟩⟩
    else
      if t1493 < teps then
        if t1501 < teps then
          if t1611 = (0 : α) then
            ⟨(1 : α), ⟨(0 : α), (0 : α), (0 : α)⟩⟩
          else
            ⟨(t1603 / t1611), ⟨(t1602 / t1611), (t1601 / t1611), (t1600 / t1611)⟩⟩
        else
          if t1633 = (0 : α) then
            ⟨(1 : α), ⟨(0 : α), (0 : α), (0 : α)⟩⟩
          else
            ⟨(t1625 / t1633), ⟨(t1624 / t1633), (t1623 / t1633), (t1622 / t1633)⟩⟩
      else
        if t1501 < teps then
          if t1655 = (0 : α) then
            ⟨(1 : α), ⟨(0 : α), (0 : α), (0 : α)⟩⟩
          else
            ⟨(t1647 / t1655), ⟨(t1646 / t1655), (t1645 / t1655), (t1644 / t1655)⟩⟩
        else
          if t1671 = (0 : α) then
            ⟨(1 : α), ⟨(0 : α), (0 : α), (0 : α)⟩⟩
          else
            ⟨(t1663 / t1671), ⟨(t1662 / t1671), (t1661 / t1671), (t1660 / t1671)⟩⟩
  else
    if t1713 < teps then
      if t1715 < teps then
        if t1721 < teps then
          if t1733 = (0 : α) then
            ⟨(1 : α), ⟨(0 : α), (0 : α), (0 : α)⟩⟩
          else
            ⟨(t1725 / t1733), ⟨(t1724 / t1733), (t1723 / t1733), (t1722 / t1733)⟩⟩
        else
          if t1757 = (0 : α) then
            ⟨(1 : α), ⟨(0 : α), (0 : α), (0 : α)⟩⟩
          else
            ⟨(t1749 / t1757), ⟨(t1748 / t1757), (t1747 / t1757), (t1746 / t1757)⟩⟩
      else
        if t1721 < teps then
          if t1781 = (0 : α) then
            ⟨(1 : α), ⟨(0 : α), (0 : α), (0 : α)⟩⟩
          else
            ⟨(t1773 / t1781), ⟨(t1772 / t1781), (t1771 / t1781), (t1770 / t1781)⟩⟩
        else
          if t1797 = (0 : α) then
            ⟨(1 : α), ⟨(0 : α), (0 : α), (0 : α)⟩⟩
          else
            ⟨(t1789 / t1797), ⟨(t1788 / t1797), (t1787 / t1797), (t1786 / t1797)⟩⟩
    else
      if t1715 < teps then
        if t1721 < teps then
          if t1826 = (0 : α) then
            ⟨(1 : α), ⟨(0 : α), (0 : α), (0 : α)⟩⟩
          else
            ⟨(t1818 / t1826), ⟨(t1817 / t1826), (t1816 / t1826), (t1815 / t1826)⟩⟩
        else
          if t1848 = (0 : α) then
            ⟨(1 : α), ⟨(0 : α), (0 : α), (0 : α)⟩⟩
          else
            ⟨(t1840 / t1848), ⟨(t1839 / t1848), (t1838 / t1848), (t1837 / t1848)⟩⟩
      else
        if t1721 < teps then
          if t1870 = (0 : α) then
            ⟨(1 : α), ⟨(0 : α), (0 : α), (0 : α)⟩⟩
          else
            ⟨(t1862 / t1870), ⟨(t1861 / t1870), (t1860 / t1870), (t1859 / t1870)⟩⟩
        else
          if t1886 = (0 : α) then
            ⟨(1 : α), ⟨(0 : α), (0 : α), (0 : α)⟩⟩
          else
            ⟨(t1878 / t1886), ⟨(t1877 / t1886), (t1876 / t1886), (t1875 / t1886)⟩⟩

/-- extracted from the C++ template at T = Sym; 96 path(s) -/
def C10.Quat.intermediate {α : Type} [Add α] [Sub α] [Mul α] [Div α] [Neg α] [LT α] [LE α] [DecidableLT α] [DecidableLE α] [DecidableEq α] [OfNat α 0] [OfNat α 1] [OfNat α 2] [OfNat α 4] (tmin : α) (tmax : α) (sqrt : α → α) (sin : α → α) (cos : α → α) (acos : α → α) (q0 : Quat α) (q1 : Quat α) (q2 : Quat α) : (Quat α) :=
  let t1901 := ((q1.r * q1.r) + (((q1.v.x * q1.v.x) + (q1.v.y * q1.v.y)) + (q1.v.z * q1.v.z)))
  let t1905 := ((-q1.v.z) / t1901)
  let t1906 := ((-q1.v.y) / t1901)
  let t1907 := ((-q1.v.x) / t1901)
  let t1908 := (q1.r / t1901)
  let t1927 := (((t1908 * q2.v.z) + (t1905 * q2.r)) + ((t1907 * q2.v.y) - (t1906 * q2.v.x)))
  let t1928 := (((t1908 * q2.v.y) + (t1906 * q2.r)) + ((t1905 * q2.v.x) - (t1907 * q2.v.z)))
  let t1929 := (((t1908 * q2.v.x) + (t1907 * q2.r)) + ((t1906 * q2.v.z) - (t1905 * q2.v.y)))
  let t1955 := (((t1908 * q0.v.z) + (t1905 * q0.r)) + ((t1907 * q0.v.y) - (t1906 * q0.v.x)))
  let t1956 := (((t1908 * q0.v.y) + (t1906 * q0.r)) + ((t1905 * q0.v.x) - (t1907 * q0.v.z)))
  let t1957 := (((t1908 * q0.v.x) + (t1907 * q0.r)) + ((t1906 * q0.v.z) - (t1905 * q0.v.y)))
  let t1966 := (acos (smin ((t1908 * q2.r) - (((t1907 * q2.v.x) + (t1906 * q2.v.y)) + (t1905 * q2.v.z))) (1 : α)))
  let t1968 := (acos (smin ((t1908 * q0.r) - (((t1907 * q0.v.x) + (t1906 * q0.v.y)) + (t1905 * q0.v.z))) (1 : α)))
  let t1973 := ((t1955 + t1927) * (-((1 : α) / (4 : α))))
  let t1974 := ((t1956 + t1928) * (-((1 : α) / (4 : α))))
  let t1975 := ((t1957 + t1929) * (-((1 : α) / (4 : α))))
  let t1977 := (V3.length tmin sqrt ⟨t1975, t1974, t1973⟩)
  let t1978 := (sin t1977)
  let t1979 := (sabs t1977)
  let t1980 := (tmax * t1979)
  let t1981 := (sabs t1978)
  let t1982 := (cos t1977)
  let t1983 := (t1973 * (1 : α))
  let t1984 := (t1974 * (1 : α))
  let t1985 := (t1975 * (1 : α))
  let t1995 := (q1.v.z * t1982)
  let t1996 := (q1.v.y * t1982)
  let t1997 := (q1.v.x * t1982)
  let t2004 := (((q1.r * t1983) + t1995) + ((q1.v.x * t1984) - (q1.v.y * t1985)))
  let t2005 := (((q1.r * t1984) + t1996) + ((q1.v.z * t1985) - (q1.v.x * t1983)))
  let t2006 := (((q1.r * t1985) + t1997) + ((q1.v.y * t1983) - (q1.v.z * t1984)))
  let t2012 := (q1.r * t1982)
  let t2013 := (t2012 - (((q1.v.x * t1985) + (q1.v.y * t1984)) + (q1.v.z * t1983)))
  let t2021 := (sqrt ((t2013 * t2013) + (((t2006 * t2006) + (t2005 * t2005)) + (t2004 * t2004))))
  let t2026 := (t1978 / t1977)
  let t2027 := (t1973 * t2026)
  let t2028 := (t1974 * t2026)
  let t2029 := (t1975 * t2026)
  let t2045 := (((q1.r * t2027) + t1995) + ((q1.v.x * t2028) - (q1.v.y * t2029)))
  let t2046 := (((q1.r * t2028) + t1996) + ((q1.v.z * t2029) - (q1.v.x * t2027)))
  let t2047 := (((q1.r * t2029) + t1997) + ((q1.v.y * t2027) - (q1.v.z * t2028)))
  let t2053 := (t2012 - (((q1.v.x * t2029) + (q1.v.y * t2028)) + (q1.v.z * t2027)))
  let t2061 := (sqrt ((t2053 * t2053) + (((t2047 * t2047) + (t2046 * t2046)) + (t2045 * t2045))))
  let t2062 := (t2053 / t2061)
  let t2063 := (t2047 / t2061)
  let t2064 := (t2046 / t2061)
  let t2065 := (t2045 / t2061)
  let t2066 := (sin t1968)
  let t2067 := (sabs t2066)
  let t2068 := (tmax * t2067)
  let t2069 := (sabs t1968)
  let t2070 := (t1955 * (1 : α))
  let t2071 := (t1956 * (1 : α))
  let t2072 := (t1957 * (1 : α))
  let t2076 := ((t2070 + t1927) * (-((1 : α) / (4 : α))))
  let t2077 := ((t2071 + t1928) * (-((1 : α) / (4 : α))))
  let t2078 := ((t2072 + t1929) * (-((1 : α) / (4 : α))))
  let t2079 := (V3.length tmin sqrt ⟨t2078, t2077, t2076⟩)
  let t2080 := (sin t2079)
  let t2081 := (sabs t2079)
  let t2082 := (tmax * t2081)
  let t2083 := (sabs t2080)
  let t2084 := (cos t2079)
  let t2085 := (t2076 * (1 : α))
  let t2086 := (t2077 * (1 : α))
  let t2087 := (t2078 * (1 : α))
  let t2097 := (q1.v.z * t2084)
  let t2098 := (q1.v.y * t2084)
  let t2099 := (q1.v.x * t2084)
  let t2106 := (((q1.r * t2085) + t2097) + ((q1.v.x * t2086) - (q1.v.y * t2087)))
  let t2107 := (((q1.r * t2086) + t2098) + ((q1.v.z * t2087) - (q1.v.x * t2085)))
  let t2108 := (((q1.r * t2087) + t2099) + ((q1.v.y * t2085) - (q1.v.z * t2086)))
  let t2114 := (q1.r * t2084)
  let t2115 := (t2114 - (((q1.v.x * t2087) + (q1.v.y * t2086)) + (q1.v.z * t2085)))
  let t2123 := (sqrt ((t2115 * t2115) + (((t2108 * t2108) + (t2107 * t2107)) + (t2106 * t2106))))
  let t2128 := (t2080 / t2079)
  let t2129 := (t2076 * t2128)
  let t2130 := (t2077 * t2128)
  let t2131 := (t2078 * t2128)
  let t2147 := (((q1.r * t2129) + t2097) + ((q1.v.x * t2130) - (q1.v.y * t2131)))
  let t2148 := (((q1.r * t2130) + t2098) + ((q1.v.z * t2131) - (q1.v.x * t2129)))
  let t2149 := (((q1.r * t2131) + t2099) + ((q1.v.y * t2129) - (q1.v.z * t2130)))
  let t2155 := (t2114 - (((q1.v.x * t2131) + (q1.v.y * t2130)) + (q1.v.z * t2129)))
  let t2163 := (sqrt ((t2155 * t2155) + (((t2149 * t2149) + (t2148 * t2148)) + (t2147 * t2147))))
  let t2164 := (t2155 / t2163)
  let t2165 := (t2149 / t2163)
  let t2166 := (t2148 / t2163)
  let t2167 := (t2147 / t2163)
  let t2168 := (t1968 / t2066)
  let t2169 := (t1955 * t2168)
  let t2170 := (t1956 * t2168)
  let t2171 := (t1957 * t2168)
  let t2175 := ((t2169 + t1927) * (-((1 : α) / (4 : α))))
  let t2176 := ((t2170 + t1928) * (-((1 : α) / (4 : α))))
  let t2177 := ((t2171 + t1929) * (-((1 : α) / (4 : α))))
  let t2178 := (V3.length tmin sqrt ⟨t2177, t2176, t2175⟩)
  let t2179 := (sin t2178)
  let t2180 := (sabs t2178)
  let t2181 := (tmax * t2180)
  let t2182 := (sabs t2179)
  let t2183 := (cos t2178)
  let t2184 := (t2175 * (1 : α))
  let t2185 := (t2176 * (1 : α))
  let t2186 := (t2177 * (1 : α))
  let t2196 := (q1.v.z * t2183)
  let t2197 := (q1.v.y * t2183)
  let t2198 := (q1.v.x * t2183)
  let t2205 := (((q1.r * t2184) + t2196) + ((q1.v.x * t2185) - (q1.v.y * t2186)))
  let t2206 := (((q1.r * t2185) + t2197) + ((q1.v.z * t2186) - (q1.v.x * t2184)))
  let t2207 := (((q1.r * t2186) + t2198) + ((q1.v.y * t2184) - (q1.v.z * t2185)))
  let t2213 := (q1.r * t2183)
  let t2214 := (t2213 - (((q1.v.x * t2186) + (q1.v.y * t2185)) + (q1.v.z * t2184)))
  let t2222 := (sqrt ((t2214 * t2214) + (((t2207 * t2207) + (t2206 * t2206)) + (t2205 * t2205))))
  let t2223 := (t2214 / t2222)
  let t2224 := (t2207 / t2222)
  let t2225 := (t2206 / t2222)
  let t2226 := (t2205 / t2222)
  let t2227 := (t2179 / t2178)
  let t2228 := (t2175 * t2227)
  let t2229 := (t2176 * t2227)
  let t2230 := (t2177 * t2227)
  let t2246 := (((q1.r * t2228) + t2196) + ((q1.v.x * t2229) - (q1.v.y * t2230)))
  let t2247 := (((q1.r * t2229) + t2197) + ((q1.v.z * t2230) - (q1.v.x * t2228)))
  let t2248 := (((q1.r * t2230) + t2198) + ((q1.v.y * t2228) - (q1.v.z * t2229)))
  let t2254 := (t2213 - (((q1.v.x * t2230) + (q1.v.y * t2229)) + (q1.v.z * t2228)))
  let t2262 := (sqrt ((t2254 * t2254) + (((t2248 * t2248) + (t2247 * t2247)) + (t2246 * t2246))))
  let t2263 := (t2254 / t2262)
  let t2264 := (t2248 / t2262)
  let t2265 := (t2247 / t2262)
  let t2266 := (t2246 / t2262)
  let t2267 := (sin t1966)
  let t2268 := (sabs t2267)
  let t2269 := (tmax * t2268)
  let t2270 := (sabs t1966)
  let t2271 := (t1927 * (1 : α))
  let t2272 := (t1928 * (1 : α))
  let t2273 := (t1929 * (1 : α))
  let t2277 := ((t1955 + t2271) * (-((1 : α) / (4 : α))))
  let t2278 := ((t1956 + t2272) * (-((1 : α) / (4 : α))))
  let t2279 := ((t1957 + t2273) * (-((1 : α) / (4 : α))))
  let t2280 := (V3.length tmin sqrt ⟨t2279, t2278, t2277⟩)
  let t2281 := (sin t2280)
  let t2282 := (sabs t2280)
  let t2283 := (tmax * t2282)
  let t2284 := (sabs t2281)
  let t2285 := (cos t2280)
  let t2286 := (t2277 * (1 : α))
  let t2287 := (t2278 * (1 : α))
  let t2288 := (t2279 * (1 : α))
  let t2298 := (q1.v.z * t2285)
  let t2299 := (q1.v.y * t2285)
  let t2300 := (q1.v.x * t2285)
  let t2307 := (((q1.r * t2286) + t2298) + ((q1.v.x * t2287) - (q1.v.y * t2288)))
  let t2308 := (((q1.r * t2287) + t2299) + ((q1.v.z * t2288) - (q1.v.x * t2286)))
  let t2309 := (((q1.r * t2288) + t2300) + ((q1.v.y * t2286) - (q1.v.z * t2287)))
  let t2315 := (q1.r * t2285)
  let t2316 := (t2315 - (((q1.v.x * t2288) + (q1.v.y * t2287)) + (q1.v.z * t2286)))
  let t2324 := (sqrt ((t2316 * t2316) + (((t2309 * t2309) + (t2308 * t2308)) + (t2307 * t2307))))
  let t2329 := (t2281 / t2280)
  let t2330 := (t2277 * t2329)
  let t2331 := (t2278 * t2329)
  let t2332 := (t2279 * t2329)
  let t2348 := (((q1.r * t2330) + t2298) + ((q1.v.x * t2331) - (q1.v.y * t2332)))
  let t2349 := (((q1.r * t2331) + t2299) + ((q1.v.z * t2332) - (q1.v.x * t2330)))
  let t2350 := (((q1.r * t2332) + t2300) + ((q1.v.y * t2330) - (q1.v.z * t2331)))
  let t2356 := (t2315 - (((q1.v.x * t2332) + (q1.v.y * t2331)) + (q1.v.z * t2330)))
  let t2364 := (sqrt ((t2356 * t2356) + (((t2350 * t2350) + (t2349 * t2349)) + (t2348 * t2348))))
  let t2365 := (t2356 / t2364)
  let t2366 := (t2350 / t2364)
  let t2367 := (t2349 / t2364)
  let t2368 := (t2348 / t2364)
  let t2372 := ((t2070 + t2271) * (-((1 : α) / (4 : α))))
  let t2373 := ((t2071 + t2272) * (-((1 : α) / (4 : α))))
  let t2374 := ((t2072 + t2273) * (-((1 : α) / (4 : α))))
  let t2375 := (V3.length tmin sqrt ⟨t2374, t2373, t2372⟩)
  let t2376 := (sin t2375)
  let t2377 := (sabs t2375)
  let t2378 := (tmax * t2377)
  let t2379 := (sabs t2376)
  let t2380 := (cos t2375)
  let t2381 := (t2372 * (1 : α))
  let t2382 := (t2373 * (1 : α))
  let t2383 := (t2374 * (1 : α))
  let t2393 := (q1.v.z * t2380)
  let t2394 := (q1.v.y * t2380)
  let t2395 := (q1.v.x * t2380)
  let t2402 := (((q1.r * t2381) + t2393) + ((q1.v.x * t2382) - (q1.v.y * t2383)))
  let t2403 := (((q1.r * t2382) + t2394) + ((q1.v.z * t2383) - (q1.v.x * t2381)))
  let t2404 := (((q1.r * t2383) + t2395) + ((q1.v.y * t2381) - (q1.v.z * t2382)))
  let t2410 := (q1.r * t2380)
  let t2411 := (t2410 - (((q1.v.x * t2383) + (q1.v.y * t2382)) + (q1.v.z * t2381)))
  let t2419 := (sqrt ((t2411 * t2411) + (((t2404 * t2404) + (t2403 * t2403)) + (t2402 * t2402))))
  let t2424 := (t2376 / t2375)
  let t2425 := (t2372 * t2424)
  let t2426 := (t2373 * t2424)
  let t2427 := (t2374 * t2424)
  let t2443 := (((q1.r * t2425) + t2393) + ((q1.v.x * t2426) - (q1.v.y * t2427)))
  let t2444 := (((q1.r * t2426) + t2394) + ((q1.v.z * t2427) - (q1.v.x * t2425)))
  let t2445 := (((q1.r * t2427) + t2395) + ((q1.v.y * t2425) - (q1.v.z * t2426)))
  let t2451 := (t2410 - (((q1.v.x * t2427) + (q1.v.y * t2426)) + (q1.v.z * t2425)))
  let t2459 := (sqrt ((t2451 * t2451) + (((t2445 * t2445) + (t2444 * t2444)) + (t2443 * t2443))))
  let t2460 := (t2451 / t2459)
  let t2461 := (t2445 / t2459)
  let t2462 := (t2444 / t2459)
  let t2463 := (t2443 / t2459)
  let t2467 := ((t2169 + t2271) * (-((1 : α) / (4 : α))))
  let t2468 := ((t2170 + t2272) * (-((1 : α) / (4 : α))))
  let t2469 := ((t2171 + t2273) * (-((1 : α) / (4 : α))))
  let t2470 := (V3.length tmin sqrt ⟨t2469, t2468, t2467⟩)
  let t2471 := (sin t2470)
  let t2472 := (sabs t2470)
  let t2473 := (tmax * t2472)
  let t2474 := (sabs t2471)
  let t2475 := (cos t2470)
  let t2476 := (t2467 * (1 : α))
  let t2477 := (t2468 * (1 : α))
  let t2478 := (t2469 * (1 : α))
  let t2488 := (q1.v.z * t2475)
  let t2489 := (q1.v.y * t2475)
  let t2490 := (q1.v.x * t2475)
  let t2497 := (((q1.r * t2476) + t2488) + ((q1.v.x * t2477) - (q1.v.y * t2478)))
  let t2498 := (((q1.r * t2477) + t2489) + ((q1.v.z * t2478) - (q1.v.x * t2476)))
  let t2499 := (((q1.r * t2478) + t2490) + ((q1.v.y * t2476) - (q1.v.z * t2477)))
  let t2505 := (q1.r * t2475)
  let t2506 := (t2505 - (((q1.v.x * t2478) + (q1.v.y * t2477)) + (q1.v.z * t2476)))
  let t2514 := (sqrt ((t2506 * t2506) + (((t2499 * t2499) + (t2498 * t2498)) + (t2497 * t2497))))
  let t2515 := (t2506 / t2514)
  let t2516 := (t2499 / t2514)
  let t2517 := (t2498 / t2514)
  let t2518 := (t2497 / t2514)
  let t2519 := (t2471 / t2470)
  let t2520 := (t2467 * t2519)
  let t2521 := (t2468 * t2519)
  let t2522 := (t2469 * t2519)
  let t2538 := (((q1.r * t2520) + t2488) + ((q1.v.x * t2521) - (q1.v.y * t2522)))
  let t2539 := (((q1.r * t2521) + t2489) + ((q1.v.z * t2522) - (q1.v.x * t2520)))
  let t2540 := (((q1.r * t2522) + t2490) + ((q1.v.y * t2520) - (q1.v.z * t2521)))
  let t2546 := (t2505 - (((q1.v.x * t2522) + (q1.v.y * t2521)) + (q1.v.z * t2520)))
  let t2554 := (sqrt ((t2546 * t2546) + (((t2540 * t2540) + (t2539 * t2539)) + (t2538 * t2538))))
  let t2555 := (t2546 / t2554)
  let t2556 := (t2540 / t2554)
  let t2557 := (t2539 / t2554)
  let t2558 := (t2538 / t2554)
  let t2559 := (t1966 / t2267)
  let t2560 := (t1927 * t2559)
  let t2561 := (t1928 * t2559)
  let t2562 := (t1929 * t2559)
  let t2566 := ((t1955 + t2560) * (-((1 : α) / (4 : α))))
  let t2567 := ((t1956 + t2561) * (-((1 : α) / (4 : α))))
  let t2568 := ((t1957 + t2562) * (-((1 : α) / (4 : α))))
  let t2569 := (V3.length tmin sqrt ⟨t2568, t2567, t2566⟩)
  let t2570 := (sin t2569)
  let t2571 := (sabs t2569)
  let t2572 := (tmax * t2571)
  let t2573 := (sabs t2570)
  let t2574 := (cos t2569)
  let t2575 := (t2566 * (1 : α))
  let t2576 := (t2567 * (1 : α))
  let t2577 := (t2568 * (1 : α))
  let t2587 := (q1.v.z * t2574)
  let t2588 := (q1.v.y * t2574)
  let t2589 := (q1.v.x * t2574)
  let t2596 := (((q1.r * t2575) + t2587) + ((q1.v.x * t2576) - (q1.v.y * t2577)))
  let t2597 := (((q1.r * t2576) + t2588) + ((q1.v.z * t2577) - (q1.v.x * t2575)))
  let t2598 := (((q1.r * t2577) + t2589) + ((q1.v.y * t2575) - (q1.v.z * t2576)))
  let t2604 := (q1.r * t2574)
  let t2605 := (t2604 - (((q1.v.x * t2577) + (q1.v.y * t2576)) + (q1.v.z * t2575)))
  let t2613 := (sqrt ((t2605 * t2605) + (((t2598 * t2598) + (t2597 * t2597)) + (t2596 * t2596))))
  let t2614 := (t2605 / t2613)
  let t2615 := (t2598 / t2613)
  let t2616 := (t2597 / t2613)
  let t2617 := (t2596 / t2613)
  let t2618 := (t2570 / t2569)
  let t2619 := (t2566 * t2618)
  let t2620 := (t2567 * t2618)
  let t2621 := (t2568 * t2618)
  let t2637 := (((q1.r * t2619) + t2587) + ((q1.v.x * t2620) - (q1.v.y * t2621)))
  let t2638 := (((q1.r * t2620) + t2588) + ((q1.v.z * t2621) - (q1.v.x * t2619)))
  let t2639 := (((q1.r * t2621) + t2589) + ((q1.v.y * t2619) - (q1.v.z * t2620)))
  let t2645 := (t2604 - (((q1.v.x * t2621) + (q1.v.y * t2620)) + (q1.v.z * t2619)))
  let t2653 := (sqrt ((t2645 * t2645) + (((t2639 * t2639) + (t2638 * t2638)) + (t2637 * t2637))))
  let t2654 := (t2645 / t2653)
  let t2655 := (t2639 / t2653)
  let t2656 := (t2638 / t2653)
  let t2657 := (t2637 / t2653)
  let t2661 := ((t2070 + t2560) * (-((1 : α) / (4 : α))))
  let t2662 := ((t2071 + t2561) * (-((1 : α) / (4 : α))))
  let t2663 := ((t2072 + t2562) * (-((1 : α) / (4 : α))))
  let t2664 := (V3.length tmin sqrt ⟨t2663, t2662, t2661⟩)
  let t2665 := (sin t2664)
  let t2666 := (sabs t2664)
  let t2667 := (tmax * t2666)
  let t2668 := (sabs t2665)
  let t2669 := (cos t2664)
  let t2670 := (t2661 * (1 : α))
  let t2671 := (t2662 * (1 : α))
  let t2672 := (t2663 * (1 : α))
  let t2682 := (q1.v.z * t2669)
  let t2683 := (q1.v.y * t2669)
  let t2684 := (q1.v.x * t2669)
  let t2691 := (((q1.r * t2670) + t2682) + ((q1.v.x * t2671) - (q1.v.y * t2672)))
  let t2692 := (((q1.r * t2671) + t2683) + ((q1.v.z * t2672) - (q1.v.x * t2670)))
  let t2693 := (((q1.r * t2672) + t2684) + ((q1.v.y * t2670) - (q1.v.z * t2671)))
  let t2699 := (q1.r * t2669)
  let t2700 := (t2699 - (((q1.v.x * t2672) + (q1.v.y * t2671)) + (q1.v.z * t2670)))
  let t2708 := (sqrt ((t2700 * t2700) + (((t2693 * t2693) + (t2692 * t2692)) + (t2691 * t2691))))
  let t2709 := (t2700 / t2708)
  let t2710 := (t2693 / t2708)
  let t2711 := (t2692 / t2708)
  let t2712 := (t2691 / t2708)
  let t2713 := (t2665 / t2664)
  let t2714 := (t2661 * t2713)
  let t2715 := (t2662 * t2713)
  let t2716 := (t2663 * t2713)
  let t2732 := (((q1.r * t2714) + t2682) + ((q1.v.x * t2715) - (q1.v.y * t2716)))
  let t2733 := (((q1.r * t2715) + t2683) + ((q1.v.z * t2716) - (q1.v.x * t2714)))
  let t2734 := (((q1.r * t2716) + t2684) + ((q1.v.y * t2714) - (q1.v.z * t2715)))
  let t2740 := (t2699 - (((q1.v.x * t2716) + (q1.v.y * t2715)) + (q1.v.z * t2714)))
  let t2748 := (sqrt ((t2740 * t2740) + (((t2734 * t2734) + (t2733 * t2733)) + (t2732 * t2732))))
  let t2749 := (t2740 / t2748)
  let t2750 := (t2734 / t2748)
  let t2751 := (t2733 / t2748)
  let t2752 := (t2732 / t2748)
  let t2756 := ((t2169 + t2560) * (-((1 : α) / (4 : α))))
  let t2757 := ((t2170 + t2561) * (-((1 : α) / (4 : α))))
  let t2758 := ((t2171 + t2562) * (-((1 : α) / (4 : α))))
  let t2759 := (V3.length tmin sqrt ⟨t2758, t2757, t2756⟩)
  let t2760 := (sin t2759)
  let t2761 := (sabs t2759)
  let t2762 := (tmax * t2761)
  let t2763 := (sabs t2760)
  let t2764 := (cos t2759)
  let t2765 := (t2756 * (1 : α))
  let t2766 := (t2757 * (1 : α))
  let t2767 := (t2758 * (1 : α))
  let t2777 := (q1.v.z * t2764)
  let t2778 := (q1.v.y * t2764)
  let t2779 := (q1.v.x * t2764)
  let t2786 := (((q1.r * t2765) + t2777) + ((q1.v.x * t2766) - (q1.v.y * t2767)))
  let t2787 := (((q1.r * t2766) + t2778) + ((q1.v.z * t2767) - (q1.v.x * t2765)))
  let t2788 := (((q1.r * t2767) + t2779) + ((q1.v.y * t2765) - (q1.v.z * t2766)))
  let t2794 := (q1.r * t2764)
  let t2795 := (t2794 - (((q1.v.x * t2767) + (q1.v.y * t2766)) + (q1.v.z * t2765)))
  let t2803 := (sqrt ((t2795 * t2795) + (((t2788 * t2788) + (t2787 * t2787)) + (t2786 * t2786))))
  let t2804 := (t2795 / t2803)
  let t2805 := (t2788 / t2803)
  let t2806 := (t2787 / t2803)
  let t2807 := (t2786 / t2803)
  let t2808 := (t2760 / t2759)
  let t2809 := (t2756 * t2808)
  let t2810 := (t2757 * t2808)
  let t2811 := (t2758 * t2808)
  let t2827 := (((q1.r * t2809) + t2777) + ((q1.v.x * t2810) - (q1.v.y * t2811)))
  let t2828 := (((q1.r * t2810) + t2778) + ((q1.v.z * t2811) - (q1.v.x * t2809)))
  let t2829 := (((q1.r * t2811) + t2779) + ((q1.v.y * t2809) - (q1.v.z * t2810)))
  let t2835 := (t2794 - (((q1.v.x * t2811) + (q1.v.y * t2810)) + (q1.v.z * t2809)))
  let t2843 := (sqrt ((t2835 * t2835) + (((t2829 * t2829) + (t2828 * t2828)) + (t2827 * t2827))))
  let t2844 := (t2835 / t2843)
  let t2845 := (t2829 / t2843)
  let t2846 := (t2828 / t2843)
  let t2847 := (t2827 / t2843)
  if t1966 = (0 : α) then
    if t1968 = (0 : α) then
      if t1979 < (1 : α) then
        if t1980 ≤ t1981 then
          if t2021 = (0 : α) then
            ⟨(1 : α), ⟨(0 : α), (0 : α), (0 : α)⟩⟩
          else
            ⟨(t2013 / t2021), ⟨(t2006 / t2021), (t2005 / t2021), (t2004 / t2021)⟩⟩
        else
          if t2061 = (0 : α) then
            ⟨(1 : α), ⟨(0 : α), (0 : α), (0 : α)⟩⟩
          else
            ⟨t2062, ⟨t2063, t2064, t2065⟩⟩
      else
        if t2061 = (0 : α) then
          ⟨(1 : α), ⟨(0 : α), (0 : α), (0 : α)⟩⟩
        else
          ⟨t2062, ⟨t2063, t2064, t2065⟩⟩
    else
      if t2067 < (1 : α) then
        if t2068 ≤ t2069 then
          if t2081 < (1 : α) then
            if t2082 ≤ t2083 then
              if t2123 = (0 : α) then
                ⟨(1 : α), ⟨(0 : α), (0 : α), (0 : α)⟩⟩
              else
                ⟨(t2115 / t2123), ⟨(t2108 / t2123), (t2107 / t2123), (t2106 / t2123)⟩⟩
            else
              if t2163 = (0 : α) then
                ⟨(1 : α), ⟨(0 : α), (0 : α), (0 : α)⟩⟩
              else
                ⟨t2164, ⟨t2165, t2166, t2167⟩⟩
          else
            if t2163 = (0 : α) then
              ⟨(1 : α), ⟨(0 : α), (0 : α), (0 : α)⟩⟩
            else
              ⟨t2164, ⟨t2165, t2166, t2167⟩⟩
        else
          if t2180 < (1 : α) then
            if t2181 ≤ t2182 then
              if t2222 = (0 : α) then
                ⟨(1 : α), ⟨(0 : α), (0 : α), (0 : α)⟩⟩
              else
                ⟨t2223, ⟨t2224, t2225, t2226⟩⟩
            else
              if t2262 = (0 : α) then
                ⟨(1 : α), ⟨(0 : α), (0 : α), (0 : α)⟩⟩
              else
                ⟨t2263, ⟨t2264, t2265, t2266⟩⟩
          else
            if t2262 = (0 : α) then
              ⟨(1 : α), ⟨(0 : α), (0 : α), (0 : α)⟩⟩
            else
              ⟨t2263, ⟨t2264, t2265, t2266⟩⟩
      else
        if t2180 < (1 : α) then
          if t2181 ≤ t2182 then
            if t2222 = (0 : α) then
              ⟨(1 : α), ⟨(0 : α), (0 : α), (0 : α)⟩⟩
            else
              ⟨t2223, ⟨t2224, t2225, t2226⟩⟩
          else
            if t2262 = (0 : α) then
              ⟨(1 : α), ⟨(0 : α), (0 : α), (0 : α)⟩⟩
            else
              ⟨t2263, ⟨t2264, t2265, t2266⟩⟩
        else
          if t2262 = (0 : α) then
            ⟨(1 : α), ⟨(0 : α), (0 : α), (0 : α)⟩⟩
          else
            ⟨t2263, ⟨t2264, t2265, t2266⟩⟩
  else
    if t2268 < (1 : α) then
      if t2269 ≤ t2270 then
        if t1968 = (0 : α) then
          if t2282 < (1 : α) then
            if t2283 ≤ t2284 then
              if t2324 = (0 : α) then
                ⟨(1 : α), ⟨(0 : α), (0 : α), (0 : α)⟩⟩
              else
                ⟨(t2316 / t2324), ⟨(t2309 / t2324), (t2308 / t2324), (t2307 / t2324)⟩⟩
            else
              if t2364 = (0 : α) then
                ⟨(1 : α), ⟨(0 : α), (0 : α), (0 : α)⟩⟩
              else
                ⟨t2365, ⟨t2366, t2367, t2368⟩⟩
          else
            if t2364 = (0 : α) then
              ⟨(1 : α), ⟨(0 : α), (0 : α), (0 : α)⟩⟩
            else
              ⟨t2365, ⟨t2366, t2367, t2368⟩⟩
        else
          if t2067 < (1 : α) then
            if t2068 ≤ t2069 then
              if t2377 < (1 : α) then
                if t2378 ≤ t2379 then
                  if t2419 = (0 : α) then
                    ⟨(1 : α), ⟨(0 : α), (0 : α), (0 : α)⟩⟩
                  else
                    ⟨(t2411 / t2419), ⟨(t2404 / t2419), (t2403 / t2419), (t2402 / t2419)⟩⟩
                else
                  if t2459 = (0 : α) then
                    ⟨(1 : α), ⟨(0 : α), (0 : α), (0 : α)⟩⟩
                  else
                    ⟨t2460, ⟨t2461, t2462, t2463⟩⟩
              else
                if t2459 = (0 : α) then
                  ⟨(1 : α), ⟨(0 : α), (0 : α), (0 : α)⟩⟩
                else
                  ⟨t2460, ⟨t2461, t2462, t2463⟩⟩
            else
              if t2472 < (1 : α) then
                if t2473 ≤ t2474 then
                  if t2514 = (0 : α) then
                    ⟨(1 : α), ⟨(0 : α), (0 : α), (0 : α)⟩⟩
                  else
                    ⟨t2515, ⟨t2516, t2517, t2518⟩⟩
                else
                  if t2554 = (0 : α) then
                    ⟨(1 : α), ⟨(0 : α), (0 : α), (0 : α)⟩⟩
                  else
                    ⟨t2555, ⟨t2556, t2557, t2558⟩⟩
              else
                if t2554 = (0 : α) then
                  ⟨(1 : α), ⟨(0 : α), (0 : α), (0 : α)⟩⟩
                else
                  ⟨t2555, ⟨t2556, t2557, t2558⟩⟩
          else
            if t2472 < (1 : α) then
              if t2473 ≤ t2474 then
                if t2514 = (0 : α) then
                  ⟨(1 : α), ⟨(0 : α), (0 : α), (0 : α)⟩⟩
                else
                  ⟨t2515, ⟨t2516, t2517, t2518⟩⟩
              else
                if t2554 = (0 : α) then
                  ⟨(1 : α), ⟨(0 : α), (0 : α), (0 : α)⟩⟩
                else
                  ⟨t2555, ⟨t2556, t2557, t2558⟩⟩
            else
              if t2554 = (0 : α) then
                ⟨(1 : α), ⟨(0 : α), (0 : α), (0 : α)⟩⟩
              else
                ⟨t2555, ⟨t2556, t2557, t2558⟩⟩
      else
        if t1968 = (0 : α) then
          if t2571 < (1 : α) then
            if t2572 ≤ t2573 then
              if t2613 = (0 : α) then
                ⟨(1 : α), ⟨(0 : α), (0 : α), (0 : α)⟩⟩
              else
                ⟨t2614, ⟨t2615, t2616, t2617⟩⟩
            else
              if t2653 = (0 : α) then
                ⟨(1 : α), ⟨(0 : α), (0 : α), (0 : α)⟩⟩
              else
                ⟨t2654, ⟨t2655, t2656, t2657⟩⟩
          else
            if t2653 = (0 : α) then
              ⟨(1 : α), ⟨(0 : α), (0 : α), (0 : α)⟩⟩
            else
              ⟨t2654, ⟨t2655, t2656, t2657⟩⟩
        else
          if t2067 < (1 : α) then
            if t2068 ≤ t2069 then
              if t2666 < (1 : α) then
                if t2667 ≤ t2668 then
                  if t2708 = (0 : α) then
                    ⟨(1 : α), ⟨(0 : α), (0 : α), (0 : α)⟩⟩
                  else
                    ⟨t2709, ⟨t2710, t2711, t2712⟩⟩
                else
                  if t2748 = (0 : α) then
                    ⟨(1 : α), ⟨(0 : α), (0 : α), (0 : α)⟩⟩
                  else
                    ⟨t2749, ⟨t2750, t2751, t2752⟩⟩
              else
                if t2748 = (0 : α) then
                  ⟨(1 : α), ⟨(0 : α), (0 : α), (0 : α)⟩⟩
                else
                  ⟨t2749, ⟨t2750, t2751, t2752⟩⟩
            else
              if t2761 < (1 : α) then
                if t2762 ≤ t2763 then
                  if t2803 = (0 : α) then
                    ⟨(1 : α), ⟨(0 : α), (0 : α), (0 : α)⟩⟩
                  else
                    ⟨t2804, ⟨t2805, t2806, t2807⟩⟩
                else
                  if t2843 = (0 : α) then
                    ⟨(1 : α), ⟨(0 : α), (0 : α), (0 : α)⟩⟩
                  else
                    ⟨t2844, ⟨t2845, t2846, t2847⟩⟩
              else
                if t2843 = (0 : α) then
                  ⟨(1 : α), ⟨(0 : α), (0 : α), (0 : α)⟩⟩
                else
                  ⟨t2844, ⟨t2845, t2846, t2847⟩⟩
          else
            if t2761 < (1 : α) then
              if t2762 ≤ t2763 then
                if t2803 = (0 : α) then
                  ⟨(1 : α), ⟨(0 : α), (0 : α), (0 : α)⟩⟩
                else
                  ⟨t2804, ⟨t2805, t2806, t2807⟩⟩
              else
                if t2843 = (0 : α) then
                  ⟨(1 : α), ⟨(0 : α), (0 : α), (0 : α)⟩⟩
                else
                  ⟨t2844, ⟨t2845, t2846, t2847⟩⟩
            else
              if t2843 = (0 : α) then
                ⟨(1 : α), ⟨(0 : α), (0 : α), (0 : α)⟩⟩
              else
                ⟨t2844, ⟨t2845, t2846, t2847⟩⟩
    else
      if t1968 = (0 : α) then
        if t2571 < (1 : α) then
          if t2572 ≤ t2573 then
            if t2613 = (0 : α) then
              ⟨(1 : α), ⟨(0 : α), (0 : α), (0 : α)⟩⟩
            else
              ⟨t2614, ⟨t2615, t2616, t2617⟩⟩
          else
            if t2653 = (0 : α) then
              ⟨(1 : α), ⟨(0 : α), (0 : α), (0 : α)⟩⟩
            else
              ⟨t2654, ⟨t2655, t2656, t2657⟩⟩
        else
          if t2653 = (0 : α) then
            ⟨(1 : α), ⟨(0 : α), (0 : α), (0 : α)⟩⟩
          else
            ⟨t2654, ⟨t2655, t2656, t2657⟩⟩
      else
        if t2067 < (1 : α) then
          if t2068 ≤ t2069 then
            if t2666 < (1 : α) then
              if t2667 ≤ t2668 then
                if t2708 = (0 : α) then
                  ⟨(1 : α), ⟨(0 : α), (0 : α), (0 : α)⟩⟩
                else
                  ⟨t2709, ⟨t2710, t2711, t2712⟩⟩
              else
                if t2748 = (0 : α) then
                  ⟨(1 : α), ⟨(0 : α), (0 : α), (0 : α)⟩⟩
                else
                  ⟨t2749, ⟨t2750, t2751, t2752⟩⟩
            else
              if t2748 = (0 : α) then
                ⟨(1 : α), ⟨(0 : α), (0 : α), (0 : α)⟩⟩
              else
                ⟨t2749, ⟨t2750, t2751, t2752⟩⟩
          else
            if t2761 < (1 : α) then
              if t2762 ≤ t2763 then
                if t2803 = (0 : α) then
                  ⟨(1 : α), ⟨(0 : α), (0 : α), (0 : α)⟩⟩
                else
                  ⟨t2804, ⟨t2805, t2806, t2807⟩⟩
              else
                if t2843 = (0 : α) then
                  ⟨(1 : α), ⟨(0 : α), (0 : α), (0 : α)⟩⟩
                else
                  ⟨t2844, ⟨t2845, t2846, t2847⟩⟩
            else
              if t2843 = (0 : α) then
                ⟨(1 : α), ⟨(0 : α), (0 : α), (0 : α)⟩⟩
              else
                ⟨t2844, ⟨t2845, t2846, t2847⟩⟩
        else
          if t2761 < (1 : α) then
            if t2762 ≤ t2763 then
              if t2803 = (0 : α) then
                ⟨(1 : α), ⟨(0 : α), (0 : α), (0 : α)⟩⟩
              else
                ⟨t2804, ⟨t2805, t2806, t2807⟩⟩
            else
              if t2843 = (0 : α) then
                ⟨(1 : α), ⟨(0 : α), (0 : α), (0 : α)⟩⟩
              else
                ⟨t2844, ⟨t2845, t2846, t2847⟩⟩
          else
            if t2843 = (0 : α) then
              ⟨(1 : α), ⟨(0 : α), (0 : α), (0 : α)⟩⟩
            else
              ⟨t2844, ⟨t2845, t2846, t2847⟩⟩

end ImathVerif.Gen
