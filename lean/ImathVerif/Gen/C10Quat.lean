-- GENERATED from /repo/src/Imath by harness/sym (T = Sym path extraction); do not edit.
import ImathVerif.Basic.Types
import ImathVerif.Gen.Leaf
set_option linter.unusedVariables false
namespace ImathVerif.Gen
open ImathVerif

/-- extracted from the C++ template at T = Sym; 1 path(s) -/
def C10.Quat.rotateVector {α : Type} [Add α] [Sub α] [Mul α] [Neg α] [OfNat α 0] [OfNat α 1] (q : Quat α) (v : V3 α) : (V3 α) :=
  let t10 := (q.v.x * (-(1 : α)))
  let t11 := (q.v.y * (-(1 : α)))
  let t12 := (q.v.z * (-(1 : α)))
  let t31 := (((q.r * v.z) + (q.v.z * (0 : α))) + ((q.v.x * v.y) - (q.v.y * v.x)))
  let t32 := (((q.r * v.y) + (q.v.y * (0 : α))) + ((q.v.z * v.x) - (q.v.x * v.z)))
  let t33 := (((q.r * v.x) + (q.v.x * (0 : α))) + ((q.v.y * v.z) - (q.v.z * v.y)))
  let t40 := ((q.r * (0 : α)) - (((q.v.x * v.x) + (q.v.y * v.y)) + (q.v.z * v.z)))
  ⟨(((t40 * t10) + (t33 * q.r)) + ((t32 * t12) - (t31 * t11))), (((t40 * t11) + (t32 * q.r)) + ((t31 * t10) - (t33 * t12))), (((t40 * t12) + (t31 * q.r)) + ((t33 * t11) - (t32 * t10)))⟩

/-- extracted from the C++ template at T = Sym; 1 path(s) -/
def C10.V3.mulQuat {α : Type} [Add α] [Sub α] [Mul α] [OfNat α 2] (v : V3 α) (q : Quat α) : (V3 α) :=
  let t15 := ((q.v.x * v.y) - (q.v.y * v.x))
  let t18 := ((q.v.z * v.x) - (q.v.x * v.z))
  let t21 := ((q.v.y * v.z) - (q.v.z * v.y))
  ⟨(v.x + ((2 : α) * ((q.r * t21) + ((q.v.y * t15) - (q.v.z * t18))))), (v.y + ((2 : α) * ((q.r * t18) + ((q.v.z * t21) - (q.v.x * t15))))), (v.z + ((2 : α) * ((q.r * t15) + ((q.v.x * t18) - (q.v.y * t21)))))⟩

/-- extracted from the C++ template at T = Sym; 1 path(s) -/
def C10.Quat.toMatrix33 {α : Type} [Add α] [Sub α] [Mul α] [OfNat α 1] [OfNat α 2] (q : Quat α) : (M33 α) :=
  let t91 := (q.v.x * q.v.x)
  let t92 := (q.v.y * q.v.y)
  let t96 := (q.v.x * q.r)
  let t97 := (q.v.y * q.v.z)
  let t100 := (q.v.y * q.r)
  let t101 := (q.v.z * q.v.x)
  let t106 := (q.v.z * q.v.z)
  let t110 := (q.v.z * q.r)
  let t111 := (q.v.x * q.v.y)
  ⟨((1 : α) - ((2 : α) * (t92 + t106))), ((2 : α) * (t111 + t110)), ((2 : α) * (t101 - t100)), ((2 : α) * (t111 - t110)), ((1 : α) - ((2 : α) * (t106 + t91))), ((2 : α) * (t97 + t96)), ((2 : α) * (t101 + t100)), ((2 : α) * (t97 - t96)), ((1 : α) - ((2 : α) * (t92 + t91)))⟩

/-- extracted from the C++ template at T = Sym; 1 path(s) -/
def C10.Quat.toMatrix44 {α : Type} [Add α] [Sub α] [Mul α] [OfNat α 0] [OfNat α 1] [OfNat α 2] (q : Quat α) : (M44 α) :=
  let t91 := (q.v.x * q.v.x)
  let t92 := (q.v.y * q.v.y)
  let t96 := (q.v.x * q.r)
  let t97 := (q.v.y * q.v.z)
  let t100 := (q.v.y * q.r)
  let t101 := (q.v.z * q.v.x)
  let t106 := (q.v.z * q.v.z)
  let t110 := (q.v.z * q.r)
  let t111 := (q.v.x * q.v.y)
  ⟨((1 : α) - ((2 : α) * (t92 + t106))), ((2 : α) * (t111 + t110)), ((2 : α) * (t101 - t100)), (0 : α), ((2 : α) * (t111 - t110)), ((1 : α) - ((2 : α) * (t106 + t91))), ((2 : α) * (t97 + t96)), (0 : α), ((2 : α) * (t101 + t100)), ((2 : α) * (t97 - t96)), ((1 : α) - ((2 : α) * (t92 + t91))), (0 : α), (0 : α), (0 : α), (0 : α), (1 : α)⟩

/-- extracted from the C++ template at T = Sym; 1 path(s) -/
def C10.M33.mulQuat {α : Type} [Add α] [Sub α] [Mul α] [OfNat α 1] [OfNat α 2] (m : M33 α) (q : Quat α) : (M33 α) :=
  let t91 := (q.v.x * q.v.x)
  let t92 := (q.v.y * q.v.y)
  let t95 := ((1 : α) - ((2 : α) * (t92 + t91)))
  let t96 := (q.v.x * q.r)
  let t97 := (q.v.y * q.v.z)
  let t99 := ((2 : α) * (t97 - t96))
  let t100 := (q.v.y * q.r)
  let t101 := (q.v.z * q.v.x)
  let t103 := ((2 : α) * (t101 + t100))
  let t105 := ((2 : α) * (t97 + t96))
  let t106 := (q.v.z * q.v.z)
  let t109 := ((1 : α) - ((2 : α) * (t106 + t91)))
  let t110 := (q.v.z * q.r)
  let t111 := (q.v.x * q.v.y)
  let t113 := ((2 : α) * (t111 - t110))
  let t115 := ((2 : α) * (t101 - t100))
  let t117 := ((2 : α) * (t111 + t110))
  let t120 := ((1 : α) - ((2 : α) * (t92 + t106)))
  ⟨(((m.x00 * t120) + (m.x01 * t113)) + (m.x02 * t103)), (((m.x00 * t117) + (m.x01 * t109)) + (m.x02 * t99)), (((m.x00 * t115) + (m.x01 * t105)) + (m.x02 * t95)), (((m.x10 * t120) + (m.x11 * t113)) + (m.x12 * t103)), (((m.x10 * t117) + (m.x11 * t109)) + (m.x12 * t99)), (((m.x10 * t115) + (m.x11 * t105)) + (m.x12 * t95)), (((m.x20 * t120) + (m.x21 * t113)) + (m.x22 * t103)), (((m.x20 * t117) + (m.x21 * t109)) + (m.x22 * t99)), (((m.x20 * t115) + (m.x21 * t105)) + (m.x22 * t95))⟩

/-- extracted from the C++ template at T = Sym; 1 path(s) -/
def C10.Quat.mulM33 {α : Type} [Add α] [Sub α] [Mul α] [OfNat α 1] [OfNat α 2] (q : Quat α) (m : M33 α) : (M33 α) :=
  let t91 := (q.v.x * q.v.x)
  let t92 := (q.v.y * q.v.y)
  let t95 := ((1 : α) - ((2 : α) * (t92 + t91)))
  let t96 := (q.v.x * q.r)
  let t97 := (q.v.y * q.v.z)
  let t99 := ((2 : α) * (t97 - t96))
  let t100 := (q.v.y * q.r)
  let t101 := (q.v.z * q.v.x)
  let t103 := ((2 : α) * (t101 + t100))
  let t105 := ((2 : α) * (t97 + t96))
  let t106 := (q.v.z * q.v.z)
  let t109 := ((1 : α) - ((2 : α) * (t106 + t91)))
  let t110 := (q.v.z * q.r)
  let t111 := (q.v.x * q.v.y)
  let t113 := ((2 : α) * (t111 - t110))
  let t115 := ((2 : α) * (t101 - t100))
  let t117 := ((2 : α) * (t111 + t110))
  let t120 := ((1 : α) - ((2 : α) * (t92 + t106)))
  ⟨(((t120 * m.x00) + (t117 * m.x10)) + (t115 * m.x20)), (((t120 * m.x01) + (t117 * m.x11)) + (t115 * m.x21)), (((t120 * m.x02) + (t117 * m.x12)) + (t115 * m.x22)), (((t113 * m.x00) + (t109 * m.x10)) + (t105 * m.x20)), (((t113 * m.x01) + (t109 * m.x11)) + (t105 * m.x21)), (((t113 * m.x02) + (t109 * m.x12)) + (t105 * m.x22)), (((t103 * m.x00) + (t99 * m.x10)) + (t95 * m.x20)), (((t103 * m.x01) + (t99 * m.x11)) + (t95 * m.x21)), (((t103 * m.x02) + (t99 * m.x12)) + (t95 * m.x22))⟩

/-- extracted from the C++ template at T = Sym; 1 path(s) -/
def C10.V3.mulM33 {α : Type} [Add α] [Mul α] (v : V3 α) (m : M33 α) : (V3 α) :=
  ⟨(((v.x * m.x00) + (v.y * m.x10)) + (v.z * m.x20)), (((v.x * m.x01) + (v.y * m.x11)) + (v.z * m.x21)), (((v.x * m.x02) + (v.y * m.x12)) + (v.z * m.x22))⟩

/-- extracted from the C++ template at T = Sym; 1 path(s) -/
def C10.V3.mulM44 {α : Type} [Add α] [Mul α] [Div α] (v : V3 α) (m : M44 α) : (V3 α) :=
  let t250 := ((((v.x * m.x03) + (v.y * m.x13)) + (v.z * m.x23)) + m.x33)
  ⟨(((((v.x * m.x00) + (v.y * m.x10)) + (v.z * m.x20)) + m.x30) / t250), (((((v.x * m.x01) + (v.y * m.x11)) + (v.z * m.x21)) + m.x31) / t250), (((((v.x * m.x02) + (v.y * m.x12)) + (v.z * m.x22)) + m.x32) / t250)⟩

/-- extracted from the C++ template at T = Sym; 1 path(s) -/
def C10.M44.multDirMatrix {α : Type} [Add α] [Mul α] (m : M44 α) (v : V3 α) : (V3 α) :=
  ⟨(((v.x * m.x00) + (v.y * m.x10)) + (v.z * m.x20)), (((v.x * m.x01) + (v.y * m.x11)) + (v.z * m.x21)), (((v.x * m.x02) + (v.y * m.x12)) + (v.z * m.x22))⟩

/-- extracted from the C++ template at T = Sym; 1 path(s) -/
def C10.M33.mul {α : Type} [Add α] [Mul α] (a : M33 α) (b : M33 α) : (M33 α) :=
  ⟨(((a.x00 * b.x00) + (a.x01 * b.x10)) + (a.x02 * b.x20)), (((a.x00 * b.x01) + (a.x01 * b.x11)) + (a.x02 * b.x21)), (((a.x00 * b.x02) + (a.x01 * b.x12)) + (a.x02 * b.x22)), (((a.x10 * b.x00) + (a.x11 * b.x10)) + (a.x12 * b.x20)), (((a.x10 * b.x01) + (a.x11 * b.x11)) + (a.x12 * b.x21)), (((a.x10 * b.x02) + (a.x11 * b.x12)) + (a.x12 * b.x22)), (((a.x20 * b.x00) + (a.x21 * b.x10)) + (a.x22 * b.x20)), (((a.x20 * b.x01) + (a.x21 * b.x11)) + (a.x22 * b.x21)), (((a.x20 * b.x02) + (a.x21 * b.x12)) + (a.x22 * b.x22))⟩

/-- extracted from the C++ template at T = Sym; 1 path(s) -/
def C10.M44.mul {α : Type} [Add α] [Mul α] (a : M44 α) (b : M44 α) : (M44 α) :=
  ⟨((((a.x00 * b.x00) + (a.x01 * b.x10)) + (a.x02 * b.x20)) + (a.x03 * b.x30)), ((((a.x00 * b.x01) + (a.x01 * b.x11)) + (a.x02 * b.x21)) + (a.x03 * b.x31)), ((((a.x00 * b.x02) + (a.x01 * b.x12)) + (a.x02 * b.x22)) + (a.x03 * b.x32)), ((((a.x00 * b.x03) + (a.x01 * b.x13)) + (a.x02 * b.x23)) + (a.x03 * b.x33)), ((((a.x10 * b.x00) + (a.x11 * b.x10)) + (a.x12 * b.x20)) + (a.x13 * b.x30)), ((((a.x10 * b.x01) + (a.x11 * b.x11)) + (a.x12 * b.x21)) + (a.x13 * b.x31)), ((((a.x10 * b.x02) + (a.x11 * b.x12)) + (a.x12 * b.x22)) + (a.x13 * b.x32)), ((((a.x10 * b.x03) + (a.x11 * b.x13)) + (a.x12 * b.x23)) + (a.x13 * b.x33)), ((((a.x20 * b.x00) + (a.x21 * b.x10)) + (a.x22 * b.x20)) + (a.x23 * b.x30)), ((((a.x20 * b.x01) + (a.x21 * b.x11)) + (a.x22 * b.x21)) + (a.x23 * b.x31)), ((((a.x20 * b.x02) + (a.x21 * b.x12)) + (a.x22 * b.x22)) + (a.x23 * b.x32)), ((((a.x20 * b.x03) + (a.x21 * b.x13)) + (a.x22 * b.x23)) + (a.x23 * b.x33)), ((((a.x30 * b.x00) + (a.x31 * b.x10)) + (a.x32 * b.x20)) + (a.x33 * b.x30)), ((((a.x30 * b.x01) + (a.x31 * b.x11)) + (a.x32 * b.x21)) + (a.x33 * b.x31)), ((((a.x30 * b.x02) + (a.x31 * b.x12)) + (a.x32 * b.x22)) + (a.x33 * b.x32)), ((((a.x30 * b.x03) + (a.x31 * b.x13)) + (a.x32 * b.x23)) + (a.x33 * b.x33))⟩

/-- extracted from the C++ template at T = Sym; 1 path(s) -/
def C10.M33.transposed {α : Type} (a : M33 α) : (M33 α) :=
  ⟨a.x00, a.x10, a.x20, a.x01, a.x11, a.x21, a.x02, a.x12, a.x22⟩

/-- extracted from the C++ template at T = Sym; 1 path(s) -/
def C10.M33.determinant {α : Type} [Add α] [Sub α] [Mul α] (a : M33 α) : α :=
  (((a.x00 * ((a.x11 * a.x22) - (a.x12 * a.x21))) + (a.x01 * ((a.x12 * a.x20) - (a.x10 * a.x22)))) + (a.x02 * ((a.x10 * a.x21) - (a.x11 * a.x20))))

/-- extracted from the C++ template at T = Sym; 1 path(s) -/
def C10.Quat.mul {α : Type} [Add α] [Sub α] [Mul α] (a : Quat α) (b : Quat α) : (Quat α) :=
  ⟨((a.r * b.r) - (((a.v.x * b.v.x) + (a.v.y * b.v.y)) + (a.v.z * b.v.z))), ⟨(((a.r * b.v.x) + (a.v.x * b.r)) + ((a.v.y * b.v.z) - (a.v.z * b.v.y))), (((a.r * b.v.y) + (a.v.y * b.r)) + ((a.v.z * b.v.x) - (a.v.x * b.v.z))), (((a.r * b.v.z) + (a.v.z * b.r)) + ((a.v.x * b.v.y) - (a.v.y * b.v.x)))⟩⟩

/-- extracted from the C++ template at T = Sym; 1 path(s) -/
def C10.Quat.conj {α : Type} [Neg α] (q : Quat α) : (Quat α) :=
  ⟨q.r, ⟨(-q.v.x), (-q.v.y), (-q.v.z)⟩⟩

/-- extracted from the C++ template at T = Sym; 1 path(s) -/
def C10.Quat.neg {α : Type} [Neg α] (q : Quat α) : (Quat α) :=
  ⟨(-q.r), ⟨(-q.v.x), (-q.v.y), (-q.v.z)⟩⟩

/-- extracted from the C++ template at T = Sym; 1 path(s) -/
def C10.Quat.inverse {α : Type} [Add α] [Mul α] [Div α] [Neg α] (q : Quat α) : (Quat α) :=
  let t455 := ((q.r * q.r) + (((q.v.x * q.v.x) + (q.v.y * q.v.y)) + (q.v.z * q.v.z)))
  ⟨(q.r / t455), ⟨((-q.v.x) / t455), ((-q.v.y) / t455), ((-q.v.z) / t455)⟩⟩

/-- extracted from the C++ template at T = Sym; 1 path(s) -/
def C10.Quat.invert {α : Type} [Add α] [Mul α] [Div α] [Neg α] (q : Quat α) : (Quat α) :=
  let t455 := ((q.r * q.r) + (((q.v.x * q.v.x) + (q.v.y * q.v.y)) + (q.v.z * q.v.z)))
  ⟨(q.r / t455), ⟨((-q.v.x) / t455), ((-q.v.y) / t455), ((-q.v.z) / t455)⟩⟩

/-- extracted from the C++ template at T = Sym; 1 path(s) -/
def C10.Quat.invertRet {α : Type} [Add α] [Mul α] [Div α] [Neg α] (q : Quat α) : (Quat α) :=
  let t455 := ((q.r * q.r) + (((q.v.x * q.v.x) + (q.v.y * q.v.y)) + (q.v.z * q.v.z)))
  ⟨(q.r / t455), ⟨((-q.v.x) / t455), ((-q.v.y) / t455), ((-q.v.z) / t455)⟩⟩

/-- extracted from the C++ template at T = Sym; 1 path(s) -/
def C10.Quat.div {α : Type} [Add α] [Sub α] [Mul α] [Div α] [Neg α] (a : Quat α) (b : Quat α) : (Quat α) :=
  let t466 := ((b.r * b.r) + (((b.v.x * b.v.x) + (b.v.y * b.v.y)) + (b.v.z * b.v.z)))
  let t470 := ((-b.v.z) / t466)
  let t471 := ((-b.v.y) / t466)
  let t472 := ((-b.v.x) / t466)
  let t473 := (b.r / t466)
  ⟨((a.r * t473) - (((a.v.x * t472) + (a.v.y * t471)) + (a.v.z * t470))), ⟨(((a.r * t472) + (a.v.x * t473)) + ((a.v.y * t470) - (a.v.z * t471))), (((a.r * t471) + (a.v.y * t473)) + ((a.v.z * t472) - (a.v.x * t470))), (((a.r * t470) + (a.v.z * t473)) + ((a.v.x * t471) - (a.v.y * t472)))⟩⟩

/-- extracted from the C++ template at T = Sym; 1 path(s) -/
def C10.Quat.divAssign {α : Type} [Add α] [Sub α] [Mul α] [Div α] [Neg α] (a : Quat α) (b : Quat α) : (Quat α) :=
  let t466 := ((b.r * b.r) + (((b.v.x * b.v.x) + (b.v.y * b.v.y)) + (b.v.z * b.v.z)))
  let t470 := ((-b.v.z) / t466)
  let t471 := ((-b.v.y) / t466)
  let t472 := ((-b.v.x) / t466)
  let t473 := (b.r / t466)
  ⟨((a.r * t473) - (((a.v.x * t472) + (a.v.y * t471)) + (a.v.z * t470))), ⟨(((a.r * t472) + (a.v.x * t473)) + ((a.v.y * t470) - (a.v.z * t471))), (((a.r * t471) + (a.v.y * t473)) + ((a.v.z * t472) - (a.v.x * t470))), (((a.r * t470) + (a.v.z * t473)) + ((a.v.x * t471) - (a.v.y * t472)))⟩⟩

/-- extracted from the C++ template at T = Sym; 1 path(s) -/
def C10.Quat.dot4 {α : Type} [Add α] [Mul α] (a : Quat α) (b : Quat α) : α :=
  ((a.r * b.r) + (((a.v.x * b.v.x) + (a.v.y * b.v.y)) + (a.v.z * b.v.z)))

/-- extracted from the C++ template at T = Sym; 1 path(s) -/
def C10.Quat.mulAssign {α : Type} [Add α] [Sub α] [Mul α] (a : Quat α) (b : Quat α) : (Quat α) :=
  ⟨((a.r * b.r) - (((a.v.x * b.v.x) + (a.v.y * b.v.y)) + (a.v.z * b.v.z))), ⟨(((a.r * b.v.x) + (a.v.x * b.r)) + ((a.v.y * b.v.z) - (a.v.z * b.v.y))), (((a.r * b.v.y) + (a.v.y * b.r)) + ((a.v.z * b.v.x) - (a.v.x * b.v.z))), (((a.r * b.v.z) + (a.v.z * b.r)) + ((a.v.x * b.v.y) - (a.v.y * b.v.x)))⟩⟩

/-- extracted from the C++ template at T = Sym; 1 path(s) -/
def C10.Quat.mulAssignSelf {α : Type} [Add α] [Sub α] [Mul α] (a : Quat α) : (Quat α) :=
  ⟨((a.r * a.r) - (((a.v.x * a.v.x) + (a.v.y * a.v.y)) + (a.v.z * a.v.z))), ⟨(((a.r * a.v.x) + (a.v.x * a.r)) + ((a.v.y * a.v.z) - (a.v.z * a.v.y))), (((a.r * a.v.y) + (a.v.y * a.r)) + ((a.v.z * a.v.x) - (a.v.x * a.v.z))), (((a.r * a.v.z) + (a.v.z * a.r)) + ((a.v.x * a.v.y) - (a.v.y * a.v.x)))⟩⟩

/-- extracted from the C++ template at T = Sym; 1 path(s) -/
def C10.Quat.mulSelf {α : Type} [Add α] [Sub α] [Mul α] (a : Quat α) : (Quat α) :=
  ⟨((a.r * a.r) - (((a.v.x * a.v.x) + (a.v.y * a.v.y)) + (a.v.z * a.v.z))), ⟨(((a.r * a.v.x) + (a.v.x * a.r)) + ((a.v.y * a.v.z) - (a.v.z * a.v.y))), (((a.r * a.v.y) + (a.v.y * a.r)) + ((a.v.z * a.v.x) - (a.v.x * a.v.z))), (((a.r * a.v.z) + (a.v.z * a.r)) + ((a.v.x * a.v.y) - (a.v.y * a.v.x)))⟩⟩

/-- extracted from the C++ template at T = Sym; 1 path(s) -/
def C10.Quat.divAssignSelf {α : Type} [Add α] [Sub α] [Mul α] [Div α] [Neg α] (a : Quat α) : (Quat α) :=
  let t531 := ((a.r * a.r) + (((a.v.x * a.v.x) + (a.v.y * a.v.y)) + (a.v.z * a.v.z)))
  let t535 := ((-a.v.z) / t531)
  let t536 := ((-a.v.y) / t531)
  let t537 := ((-a.v.x) / t531)
  let t538 := (a.r / t531)
  ⟨((a.r * t538) - (((a.v.x * t537) + (a.v.y * t536)) + (a.v.z * t535))), ⟨(((a.r * t537) + (a.v.x * t538)) + ((a.v.y * t535) - (a.v.z * t536))), (((a.r * t536) + (a.v.y * t538)) + ((a.v.z * t537) - (a.v.x * t535))), (((a.r * t535) + (a.v.z * t538)) + ((a.v.x * t536) - (a.v.y * t537)))⟩⟩

/-- extracted from the C++ template at T = Sym; 1 path(s) -/
def C10.Quat.divSelf {α : Type} [Add α] [Sub α] [Mul α] [Div α] [Neg α] (a : Quat α) : (Quat α) :=
  let t531 := ((a.r * a.r) + (((a.v.x * a.v.x) + (a.v.y * a.v.y)) + (a.v.z * a.v.z)))
  let t535 := ((-a.v.z) / t531)
  let t536 := ((-a.v.y) / t531)
  let t537 := ((-a.v.x) / t531)
  let t538 := (a.r / t531)
  ⟨((a.r * t538) - (((a.v.x * t537) + (a.v.y * t536)) + (a.v.z * t535))), ⟨(((a.r * t537) + (a.v.x * t538)) + ((a.v.y * t535) - (a.v.z * t536))), (((a.r * t536) + (a.v.y * t538)) + ((a.v.z * t537) - (a.v.x * t535))), (((a.r * t535) + (a.v.z * t538)) + ((a.v.x * t536) - (a.v.y * t537)))⟩⟩

/-- extracted from the C++ template at T = Sym; 1 path(s) -/
def C10.Quat.mulAssignInverseSelf {α : Type} [Add α] [Sub α] [Mul α] [Div α] [Neg α] (a : Quat α) : (Quat α) :=
  let t531 := ((a.r * a.r) + (((a.v.x * a.v.x) + (a.v.y * a.v.y)) + (a.v.z * a.v.z)))
  let t535 := ((-a.v.z) / t531)
  let t536 := ((-a.v.y) / t531)
  let t537 := ((-a.v.x) / t531)
  let t538 := (a.r / t531)
  ⟨((a.r * t538) - (((a.v.x * t537) + (a.v.y * t536)) + (a.v.z * t535))), ⟨(((a.r * t537) + (a.v.x * t538)) + ((a.v.y * t535) - (a.v.z * t536))), (((a.r * t536) + (a.v.y * t538)) + ((a.v.z * t537) - (a.v.x * t535))), (((a.r * t535) + (a.v.z * t538)) + ((a.v.x * t536) - (a.v.y * t537)))⟩⟩

/-- extracted from the C++ template at T = Sym; 1 path(s) -/
def C10.Quat.mulAssignConjSelf {α : Type} [Add α] [Sub α] [Mul α] [Neg α] (a : Quat α) : (Quat α) :=
  let t532 := (-a.v.z)
  let t533 := (-a.v.y)
  let t534 := (-a.v.x)
  ⟨((a.r * a.r) - (((a.v.x * t534) + (a.v.y * t533)) + (a.v.z * t532))), ⟨(((a.r * t534) + (a.v.x * a.r)) + ((a.v.y * t532) - (a.v.z * t533))), (((a.r * t533) + (a.v.y * a.r)) + ((a.v.z * t534) - (a.v.x * t532))), (((a.r * t532) + (a.v.z * a.r)) + ((a.v.x * t533) - (a.v.y * t534)))⟩⟩

/-- extracted from the C++ template at T = Sym; 2 path(s) -/
def C10.Quat.setAxisAngleAliasV {α : Type} [Add α] [Mul α] [Div α] [Neg α] [LT α] [LE α] [DecidableLT α] [DecidableLE α] [DecidableEq α] [OfNat α 0] [OfNat α 2] (tmin : α) (tmax : α) (sqrt : α → α) (sin : α → α) (cos : α → α) (q : Quat α) (radians : α) : (Quat α) :=
  let t592 := (radians / (2 : α))
  let t593 := (cos t592)
  let t594 := (sin t592)
  let t595 := (V3.length tmin tmax sqrt ⟨q.v.x, q.v.y, q.v.z⟩)
  let t596 := ((0 : α) * t594)
  if t595 = (0 : α) then
    ⟨t593, ⟨t596, t596, t596⟩⟩
  else
    ⟨t593, ⟨((q.v.x / t595) * t594), ((q.v.y / t595) * t594), ((q.v.z / t595) * t594)⟩⟩

/-- extracted from the C++ template at T = Sym; 1 path(s) -/
def C10.Quat.rotateVectorAliasV {α : Type} [Add α] [Sub α] [Mul α] [Neg α] [OfNat α 0] [OfNat α 1] (q : Quat α) : (Quat α) :=
  let t10 := (q.v.x * (-(1 : α)))
  let t11 := (q.v.y * (-(1 : α)))
  let t12 := (q.v.z * (-(1 : α)))
  let t615 := (((q.r * q.v.z) + (q.v.z * (0 : α))) + ((q.v.x * q.v.y) - (q.v.y * q.v.x)))
  let t616 := (((q.r * q.v.y) + (q.v.y * (0 : α))) + ((q.v.z * q.v.x) - (q.v.x * q.v.z)))
  let t617 := (((q.r * q.v.x) + (q.v.x * (0 : α))) + ((q.v.y * q.v.z) - (q.v.z * q.v.y)))
  let t618 := ((q.r * (0 : α)) - (((q.v.x * q.v.x) + (q.v.y * q.v.y)) + (q.v.z * q.v.z)))
  ⟨q.r, ⟨(((t618 * t10) + (t617 * q.r)) + ((t616 * t12) - (t615 * t11))), (((t618 * t11) + (t616 * q.r)) + ((t615 * t10) - (t617 * t12))), (((t618 * t12) + (t615 * q.r)) + ((t617 * t11) - (t616 * t10)))⟩⟩

/-- extracted from the C++ template at T = Sym; 16 path(s) -/
def C10.Quat.slerpSame {α : Type} [Add α] [Sub α] [Mul α] [Div α] [LT α] [DecidableLT α] [DecidableEq α] [OfNat α 0] [OfNat α 1] [OfNat α 2] (teps : α) (sqrt : α → α) (sin : α → α) (atan2 : α → α → α) (q : Quat α) (t : α) : (Quat α) :=
  let t648 := (q.v.z - q.v.z)
  let t649 := (q.v.y - q.v.y)
  let t650 := (q.v.x - q.v.x)
  let t651 := (q.r - q.r)
  let t660 := (q.v.z + q.v.z)
  let t661 := (q.v.y + q.v.y)
  let t662 := (q.v.x + q.v.x)
  let t663 := (q.r + q.r)
  let t673 := ((2 : α) * (atan2 (sqrt ((t651 * t651) + (((t650 * t650) + (t649 * t649)) + (t648 * t648)))) (sqrt ((t663 * t663) + (((t662 * t662) + (t661 * t661)) + (t660 * t660))))))
  let t674 := ((1 : α) - t)
  let t676 := (t673 * t673)
  let t677 := (t * t673)
  let t678 := (t677 * t677)
  let t679 := ((1 : α) / (1 : α))
  let t680 := (t679 * t)
  let t681 := (q.v.z * t680)
  let t682 := (q.v.y * t680)
  let t683 := (q.v.x * t680)
  let t684 := (q.r * t680)
  let t685 := (t674 * t673)
  let t686 := (t685 * t685)
  let t687 := (t679 * t674)
  let t688 := (q.v.z * t687)
  let t689 := (q.v.y * t687)
  let t690 := (q.v.x * t687)
  let t691 := (q.r * t687)
  let t692 := (t688 + t681)
  let t693 := (t689 + t682)
  let t694 := (t690 + t683)
  let t695 := (t691 + t684)
  let t703 := (sqrt ((t695 * t695) + (((t694 * t694) + (t693 * t693)) + (t692 * t692))))
  let t709 := ((sin t685) / t685)
  let t711 := ((t709 / (1 : α)) * t674)
  let t712 := (q.v.z * t711)
  let t713 := (q.v.y * t711)
  let t714 := (q.v.x * t711)
  let t715 := (q.r * t711)
  let t716 := (t712 + t681)
  let t717 := (t713 + t682)
  let t718 := (t714 + t683)
  let t719 := (t715 + t684)
  let t727 := (sqrt ((t719 * t719) + (((t718 * t718) + (t717 * t717)) + (t716 * t716))))
  let t733 := ((sin t677) / t677)
  let t735 := ((t733 / (1 : α)) * t)
  let t736 := (q.v.z * t735)
  let t737 := (q.v.y * t735)
  let t738 := (q.v.x * t735)
  let t739 := (q.r * t735)
  let t740 := (t688 + t736)
  let t741 := (t689 + t737)
  let t742 := (t690 + t738)
  let t743 := (t691 + t739)
  let t751 := (sqrt ((t743 * t743) + (((t742 * t742) + (t741 * t741)) + (t740 * t740))))
  let t756 := (t712 + t736)
  let t757 := (t713 + t737)
  let t758 := (t714 + t738)
  let t759 := (t715 + t739)
  let t767 := (sqrt ((t759 * t759) + (((t758 * t758) + (t757 * t757)) + (t756 * t756))))
  let t773 := ((sin t673) / t673)
  let t774 := ((1 : α) / t773)
  let t775 := (t774 * t)
  let t776 := (q.v.z * t775)
  let t777 := (q.v.y * t775)
  let t778 := (q.v.x * t775)
  let t779 := (q.r * t775)
  let t780 := (t774 * t674)
  let t781 := (q.v.z * t780)
  let t782 := (q.v.y * t780)
  let t783 := (q.v.x * t780)
  let t784 := (q.r * t780)
  let t785 := (t781 + t776)
  let t786 := (t782 + t777)
  let t787 := (t783 + t778)
  let t788 := (t784 + t779)
  let t796 := (sqrt ((t788 * t788) + (((t787 * t787) + (t786 * t786)) + (t785 * t785))))
  let t802 := ((t709 / t773) * t674)
  let t803 := (q.v.z * t802)
  let t804 := (q.v.y * t802)
  let t805 := (q.v.x * t802)
  let t806 := (q.r * t802)
  let t807 := (t803 + t776)
  let t808 := (t804 + t777)
  let t809 := (t805 + t778)
  let t810 := (t806 + t779)
  let t818 := (sqrt ((t810 * t810) + (((t809 * t809) + (t808 * t808)) + (t807 * t807))))
  let t824 := ((t733 / t773) * t)
  let t825 := (q.v.z * t824)
  let t826 := (q.v.y * t824)
  let t827 := (q.v.x * t824)
  let t828 := (q.r * t824)
  let t829 := (t781 + t825)
  let t830 := (t782 + t826)
  let t831 := (t783 + t827)
  let t832 := (t784 + t828)
  let t840 := (sqrt ((t832 * t832) + (((t831 * t831) + (t830 * t830)) + (t829 * t829))))
  let t845 := (t803 + t825)
  let t846 := (t804 + t826)
  let t847 := (t805 + t827)
  let t848 := (t806 + t828)
  let t856 := (sqrt ((t848 * t848) + (((t847 * t847) + (t846 * t846)) + (t845 * t845))))
  if t676 < teps then
    if t678 < teps then
      if t686 < teps then
        if t703 = (0 : α) then
          ⟨(1 : α), ⟨(0 : α), (0 : α), (0 : α)⟩⟩
        else
          ⟨(t695 / t703), ⟨(t694 / t703), (t693 / t703), (t692 / t703)⟩⟩
      else
        if t727 = (0 : α) then
          ⟨(1 : α), ⟨(0 : α), (0 : α), (0 : α)⟩⟩
        else
          ⟨(t719 / t727), ⟨(t718 / t727), (t717 / t727), (t716 / t727)⟩⟩
    else
      if t686 < teps then
        if t751 = (0 : α) then
          ⟨(1 : α), ⟨(0 : α), (0 : α), (0 : α)⟩⟩
        else
          ⟨(t743 / t751), ⟨(t742 / t751), (t741 / t751), (t740 / t751)⟩⟩
      else
        if t767 = (0 : α) then
          ⟨(1 : α), ⟨(0 : α), (0 : α), (0 : α)⟩⟩
        else
          ⟨(t759 / t767), ⟨(t758 / t767), (t757 / t767), (t756 / t767)⟩⟩
  else
    if t678 < teps then
      if t686 < teps then
        if t796 = (0 : α) then
          ⟨(1 : α), ⟨(0 : α), (0 : α), (0 : α)⟩⟩
        else
          ⟨(t788 / t796), ⟨(t787 / t796), (t786 / t796), (t785 / t796)⟩⟩
      else
        if t818 = (0 : α) then
          ⟨(1 : α), ⟨(0 : α), (0 : α), (0 : α)⟩⟩
        else
          ⟨(t810 / t818), ⟨(t809 / t818), (t808 / t818), (t807 / t818)⟩⟩
    else
      if t686 < teps then
        if t840 = (0 : α) then
          ⟨(1 : α), ⟨(0 : α), (0 : α), (0 : α)⟩⟩
        else
          ⟨(t832 / t840), ⟨(t831 / t840), (t830 / t840), (t829 / t840)⟩⟩
      else
        if t856 = (0 : α) then
          ⟨(1 : α), ⟨(0 : α), (0 : α), (0 : α)⟩⟩
        else
          ⟨(t848 / t856), ⟨(t847 / t856), (t846 / t856), (t845 / t856)⟩⟩

/-- extracted from the C++ template at T = Sym; 1 path(s) -/
def C10.Quat.length {α : Type} [Add α] [Mul α] (sqrt : α → α) (q : Quat α) : α :=
  (sqrt ((q.r * q.r) + (((q.v.x * q.v.x) + (q.v.y * q.v.y)) + (q.v.z * q.v.z))))

/-- extracted from the C++ template at T = Sym; 2 path(s) -/
def C10.Quat.normalize {α : Type} [Add α] [Mul α] [Div α] [DecidableEq α] [OfNat α 0] [OfNat α 1] (sqrt : α → α) (q : Quat α) : (Quat α) :=
  let t861 := (sqrt ((q.r * q.r) + (((q.v.x * q.v.x) + (q.v.y * q.v.y)) + (q.v.z * q.v.z))))
  if t861 = (0 : α) then
    ⟨(1 : α), ⟨(0 : α), (0 : α), (0 : α)⟩⟩
  else
    ⟨(q.r / t861), ⟨(q.v.x / t861), (q.v.y / t861), (q.v.z / t861)⟩⟩

/-- extracted from the C++ template at T = Sym; 2 path(s) -/
def C10.Quat.normalized {α : Type} [Add α] [Mul α] [Div α] [DecidableEq α] [OfNat α 0] [OfNat α 1] (sqrt : α → α) (q : Quat α) : (Quat α) :=
  let t861 := (sqrt ((q.r * q.r) + (((q.v.x * q.v.x) + (q.v.y * q.v.y)) + (q.v.z * q.v.z))))
  if t861 = (0 : α) then
    ⟨(1 : α), ⟨(0 : α), (0 : α), (0 : α)⟩⟩
  else
    ⟨(q.r / t861), ⟨(q.v.x / t861), (q.v.y / t861), (q.v.z / t861)⟩⟩

/-- extracted from the C++ template at T = Sym; 4 path(s) -/
def C10.Quat.log {α : Type} [Mul α] [Div α] [Neg α] [LT α] [LE α] [DecidableLT α] [DecidableLE α] [DecidableEq α] [OfNat α 0] [OfNat α 1] (tmax : α) (sin : α → α) (acos : α → α) (q : Quat α) : (Quat α) :=
  let t867 := (acos (smin q.r (1 : α)))
  let t868 := (sin t867)
  let t869 := (sabs t868)
  let t871 := (tmax * t869)
  let t872 := (sabs t867)
  let t876 := (t867 / t868)
  let t877 := (q.v.z * t876)
  let t878 := (q.v.y * t876)
  let t879 := (q.v.x * t876)
  if t867 = (0 : α) then
    ⟨(0 : α), ⟨q.v.x, q.v.y, q.v.z⟩⟩
  else
    if t869 < (1 : α) then
      if t871 ≤ t872 then
        ⟨(0 : α), ⟨(q.v.x * (1 : α)), (q.v.y * (1 : α)), (q.v.z * (1 : α))⟩⟩
      else
        ⟨(0 : α), ⟨t879, t878, t877⟩⟩
    else
      ⟨(0 : α), ⟨t879, t878, t877⟩⟩

/-- extracted from the C++ template at T = Sym; 3 path(s) -/
def C10.Quat.exp {α : Type} [Add α] [Mul α] [Div α] [Neg α] [LT α] [LE α] [DecidableLT α] [DecidableLE α] [DecidableEq α] [OfNat α 0] [OfNat α 1] [OfNat α 2] (tmin : α) (tmax : α) (sqrt : α → α) (sin : α → α) (cos : α → α) (q : Quat α) : (Quat α) :=
  let t595 := (V3.length tmin tmax sqrt ⟨q.v.x, q.v.y, q.v.z⟩)
  let t880 := (sin t595)
  let t881 := (sabs t595)
  let t882 := (tmax * t881)
  let t883 := (sabs t880)
  let t884 := (cos t595)
  let t885 := (t880 / t595)
  let t886 := (q.v.z * t885)
  let t887 := (q.v.y * t885)
  let t888 := (q.v.x * t885)
  if t881 < (1 : α) then
    if t882 ≤ t883 then
      ⟨t884, ⟨(q.v.x * (1 : α)), (q.v.y * (1 : α)), (q.v.z * (1 : α))⟩⟩
    else
      ⟨t884, ⟨t888, t887, t886⟩⟩
  else
    ⟨t884, ⟨t888, t887, t886⟩⟩

/-- extracted from the C++ template at T = Sym; 1 path(s) -/
def C10.Quat.angle {α : Type} [Add α] [Mul α] [Div α] [Neg α] [LT α] [LE α] [DecidableLT α] [DecidableLE α] [DecidableEq α] [OfNat α 0] [OfNat α 2] (tmin : α) (tmax : α) (sqrt : α → α) (atan2 : α → α → α) (q : Quat α) : α :=
  ((2 : α) * (atan2 (V3.length tmin tmax sqrt ⟨q.v.x, q.v.y, q.v.z⟩) q.r))

/-- extracted from the C++ template at T = Sym; 2 path(s) -/
def C10.Quat.axis {α : Type} [Add α] [Mul α] [Div α] [Neg α] [LT α] [LE α] [DecidableLT α] [DecidableLE α] [DecidableEq α] [OfNat α 0] [OfNat α 2] (tmin : α) (tmax : α) (sqrt : α → α) (q : Quat α) : (V3 α) :=
  let t595 := (V3.length tmin tmax sqrt ⟨q.v.x, q.v.y, q.v.z⟩)
  if t595 = (0 : α) then
    ⟨(0 : α), (0 : α), (0 : α)⟩
  else
    ⟨(q.v.x / t595), (q.v.y / t595), (q.v.z / t595)⟩

/-- extracted from the C++ template at T = Sym; 2 path(s) -/
def C10.Quat.setAxisAngle {α : Type} [Add α] [Mul α] [Div α] [Neg α] [LT α] [LE α] [DecidableLT α] [DecidableLE α] [DecidableEq α] [OfNat α 0] [OfNat α 2] (tmin : α) (tmax : α) (sqrt : α → α) (sin : α → α) (cos : α → α) (q : Quat α) (axis : V3 α) (radians : α) : (Quat α) :=
  let t592 := (radians / (2 : α))
  let t593 := (cos t592)
  let t594 := (sin t592)
  let t596 := ((0 : α) * t594)
  let t894 := (V3.length tmin tmax sqrt ⟨axis.x, axis.y, axis.z⟩)
  if t894 = (0 : α) then
    ⟨t593, ⟨t596, t596, t596⟩⟩
  else
    ⟨t593, ⟨((axis.x / t894) * t594), ((axis.y / t894) * t594), ((axis.z / t894) * t594)⟩⟩

/-- extracted from the C++ template at T = Sym; 2 path(s) -/
def C10.V3.normalized {α : Type} [Add α] [Mul α] [Div α] [Neg α] [LT α] [LE α] [DecidableLT α] [DecidableLE α] [DecidableEq α] [OfNat α 0] [OfNat α 2] (tmin : α) (tmax : α) (sqrt : α → α) (a : V3 α) : (V3 α) :=
  let t904 := (V3.length tmin tmax sqrt ⟨a.x, a.y, a.z⟩)
  if t904 = (0 : α) then
    ⟨(0 : α), (0 : α), (0 : α)⟩
  else
    ⟨(a.x / t904), (a.y / t904), (a.z / t904)⟩

/-- extracted from the C++ template at T = Sym; 2 path(s) -/
def C10.Quat.setRotationInternal {α : Type} [Add α] [Sub α] [Mul α] [Div α] [Neg α] [LT α] [LE α] [DecidableLT α] [DecidableLE α] [DecidableEq α] [OfNat α 0] [OfNat α 2] (tmin : α) (tmax : α) (sqrt : α → α) (f0 : V3 α) (t0 : V3 α) : (Quat α) :=
  let t914 := (f0.z + t0.z)
  let t915 := (f0.y + t0.y)
  let t916 := (f0.x + t0.x)
  let t917 := (V3.length tmin tmax sqrt ⟨t916, t915, t914⟩)
  let t918 := (f0.z * (0 : α))
  let t919 := (f0.y * (0 : α))
  let t920 := (f0.x * (0 : α))
  let t926 := (t914 / t917)
  let t927 := (t915 / t917)
  let t928 := (t916 / t917)
  if t917 = (0 : α) then
    ⟨((t920 + t919) + t918), ⟨(t919 - t918), (t918 - t920), (t920 - t919)⟩⟩
  else
    ⟨(((f0.x * t928) + (f0.y * t927)) + (f0.z * t926)), ⟨((f0.y * t926) - (f0.z * t927)), ((f0.z * t928) - (f0.x * t926)), ((f0.x * t927) - (f0.y * t928))⟩⟩

/-- extracted from the C++ template at T = Sym; 2 path(s) -/
def C10.sinx_over_x {α : Type} [Mul α] [Div α] [LT α] [DecidableLT α] [OfNat α 1] (teps : α) (sin : α → α) (x : α) : α :=
  let t944 := (x * x)
  if t944 < teps then
    (1 : α)
  else
    ((sin x) / x)

/-- extracted from the C++ template at T = Sym; 1 path(s) -/
def C10.Quat.angle4D {α : Type} [Add α] [Sub α] [Mul α] [OfNat α 2] (sqrt : α → α) (atan2 : α → α → α) (q1 : Quat α) (q2 : Quat α) : α :=
  let t955 := (q1.v.z - q2.v.z)
  let t956 := (q1.v.y - q2.v.y)
  let t957 := (q1.v.x - q2.v.x)
  let t958 := (q1.r - q2.r)
  let t967 := (q1.v.z + q2.v.z)
  let t968 := (q1.v.y + q2.v.y)
  let t969 := (q1.v.x + q2.v.x)
  let t970 := (q1.r + q2.r)
  ((2 : α) * (atan2 (sqrt ((t958 * t958) + (((t957 * t957) + (t956 * t956)) + (t955 * t955)))) (sqrt ((t970 * t970) + (((t969 * t969) + (t968 * t968)) + (t967 * t967))))))

/-- extracted from the C++ template at T = Sym; 16 path(s) -/
def C10.Quat.slerp {α : Type} [Add α] [Sub α] [Mul α] [Div α] [LT α] [DecidableLT α] [DecidableEq α] [OfNat α 0] [OfNat α 1] [OfNat α 2] (teps : α) (sqrt : α → α) (sin : α → α) (atan2 : α → α → α) (q1 : Quat α) (q2 : Quat α) (t : α) : (Quat α) :=
  let t674 := ((1 : α) - t)
  let t679 := ((1 : α) / (1 : α))
  let t680 := (t679 * t)
  let t687 := (t679 * t674)
  let t955 := (q1.v.z - q2.v.z)
  let t956 := (q1.v.y - q2.v.y)
  let t957 := (q1.v.x - q2.v.x)
  let t958 := (q1.r - q2.r)
  let t967 := (q1.v.z + q2.v.z)
  let t968 := (q1.v.y + q2.v.y)
  let t969 := (q1.v.x + q2.v.x)
  let t970 := (q1.r + q2.r)
  let t980 := ((2 : α) * (atan2 (sqrt ((t958 * t958) + (((t957 * t957) + (t956 * t956)) + (t955 * t955)))) (sqrt ((t970 * t970) + (((t969 * t969) + (t968 * t968)) + (t967 * t967))))))
  let t981 := (t980 * t980)
  let t982 := (t * t980)
  let t983 := (t982 * t982)
  let t984 := (q2.v.z * t680)
  let t985 := (q2.v.y * t680)
  let t986 := (q2.v.x * t680)
  let t987 := (q2.r * t680)
  let t988 := (t674 * t980)
  let t989 := (t988 * t988)
  let t990 := (q1.v.z * t687)
  let t991 := (q1.v.y * t687)
  let t992 := (q1.v.x * t687)
  let t993 := (q1.r * t687)
  let t994 := (t990 + t984)
  let t995 := (t991 + t985)
  let t996 := (t992 + t986)
  let t997 := (t993 + t987)
  let t1005 := (sqrt ((t997 * t997) + (((t996 * t996) + (t995 * t995)) + (t994 * t994))))
  let t1011 := ((sin t988) / t988)
  let t1013 := ((t1011 / (1 : α)) * t674)
  let t1014 := (q1.v.z * t1013)
  let t1015 := (q1.v.y * t1013)
  let t1016 := (q1.v.x * t1013)
  let t1017 := (q1.r * t1013)
  let t1018 := (t1014 + t984)
  let t1019 := (t1015 + t985)
  let t1020 := (t1016 + t986)
  let t1021 := (t1017 + t987)
  let t1029 := (sqrt ((t1021 * t1021) + (((t1020 * t1020) + (t1019 * t1019)) + (t1018 * t1018))))
  let t1035 := ((sin t982) / t982)
  let t1037 := ((t1035 / (1 : α)) * t)
  let t1038 := (q2.v.z * t1037)
  let t1039 := (q2.v.y * t1037)
  let t1040 := (q2.v.x * t1037)
  let t1041 := (q2.r * t1037)
  let t1042 := (t990 + t1038)
  let t1043 := (t991 + t1039)
  let t1044 := (t992 + t1040)
  let t1045 := (t993 + t1041)
  let t1053 := (sqrt ((t1045 * t1045) + (((t1044 * t1044) + (t1043 * t1043)) + (t1042 * t1042))))
  let t1058 := (t1014 + t1038)
  let t1059 := (t1015 + t1039)
  let t1060 := (t1016 + t1040)
  let t1061 := (t1017 + t1041)
  let t1069 := (sqrt ((t1061 * t1061) + (((t1060 * t1060) + (t1059 * t1059)) + (t1058 * t1058))))
  let t1075 := ((sin t980) / t980)
  let t1076 := ((1 : α) / t1075)
  let t1077 := (t1076 * t)
  let t1078 := (q2.v.z * t1077)
  let t1079 := (q2.v.y * t1077)
  let t1080 := (q2.v.x * t1077)
  let t1081 := (q2.r * t1077)
  let t1082 := (t1076 * t674)
  let t1083 := (q1.v.z * t1082)
  let t1084 := (q1.v.y * t1082)
  let t1085 := (q1.v.x * t1082)
  let t1086 := (q1.r * t1082)
  let t1087 := (t1083 + t1078)
  let t1088 := (t1084 + t1079)
  let t1089 := (t1085 + t1080)
  let t1090 := (t1086 + t1081)
  let t1098 := (sqrt ((t1090 * t1090) + (((t1089 * t1089) + (t1088 * t1088)) + (t1087 * t1087))))
  let t1104 := ((t1011 / t1075) * t674)
  let t1105 := (q1.v.z * t1104)
  let t1106 := (q1.v.y * t1104)
  let t1107 := (q1.v.x * t1104)
  let t1108 := (q1.r * t1104)
  let t1109 := (t1105 + t1078)
  let t1110 := (t1106 + t1079)
  let t1111 := (t1107 + t1080)
  let t1112 := (t1108 + t1081)
  let t1120 := (sqrt ((t1112 * t1112) + (((t1111 * t1111) + (t1110 * t1110)) + (t1109 * t1109))))
  let t1126 := ((t1035 / t1075) * t)
  let t1127 := (q2.v.z * t1126)
  let t1128 := (q2.v.y * t1126)
  let t1129 := (q2.v.x * t1126)
  let t1130 := (q2.r * t1126)
  let t1131 := (t1083 + t1127)
  let t1132 := (t1084 + t1128)
  let t1133 := (t1085 + t1129)
  let t1134 := (t1086 + t1130)
  let t1142 := (sqrt ((t1134 * t1134) + (((t1133 * t1133) + (t1132 * t1132)) + (t1131 * t1131))))
  let t1147 := (t1105 + t1127)
  let t1148 := (t1106 + t1128)
  let t1149 := (t1107 + t1129)
  let t1150 := (t1108 + t1130)
  let t1158 := (sqrt ((t1150 * t1150) + (((t1149 * t1149) + (t1148 * t1148)) + (t1147 * t1147))))
  if t981 < teps then
    if t983 < teps then
      if t989 < teps then
        if t1005 = (0 : α) then
          ⟨(1 : α), ⟨(0 : α), (0 : α), (0 : α)⟩⟩
        else
          ⟨(t997 / t1005), ⟨(t996 / t1005), (t995 / t1005), (t994 / t1005)⟩⟩
      else
        if t1029 = (0 : α) then
          ⟨(1 : α), ⟨(0 : α), (0 : α), (0 : α)⟩⟩
        else
          ⟨(t1021 / t1029), ⟨(t1020 / t1029), (t1019 / t1029), (t1018 / t1029)⟩⟩
    else
      if t989 < teps then
        if t1053 = (0 : α) then
          ⟨(1 : α), ⟨(0 : α), (0 : α), (0 : α)⟩⟩
        else
          ⟨(t1045 / t1053), ⟨(t1044 / t1053), (t1043 / t1053), (t1042 / t1053)⟩⟩
      else
        if t1069 = (0 : α) then
          ⟨(1 : α), ⟨(0 : α), (0 : α), (0 : α)⟩⟩
        else
          ⟨(t1061 / t1069), ⟨(t1060 / t1069), (t1059 / t1069), (t1058 / t1069)⟩⟩
  else
    if t983 < teps then
      if t989 < teps then
        if t1098 = (0 : α) then
          ⟨(1 : α), ⟨(0 : α), (0 : α), (0 : α)⟩⟩
        else
          ⟨(t1090 / t1098), ⟨(t1089 / t1098), (t1088 / t1098), (t1087 / t1098)⟩⟩
      else
        if t1120 = (0 : α) then
          ⟨(1 : α), ⟨(0 : α), (0 : α), (0 : α)⟩⟩
        else
          ⟨(t1112 / t1120), ⟨(t1111 / t1120), (t1110 / t1120), (t1109 / t1120)⟩⟩
    else
      if t989 < teps then
        if t1142 = (0 : α) then
          ⟨(1 : α), ⟨(0 : α), (0 : α), (0 : α)⟩⟩
        else
          ⟨(t1134 / t1142), ⟨(t1133 / t1142), (t1132 / t1142), (t1131 / t1142)⟩⟩
      else
        if t1158 = (0 : α) then
          ⟨(1 : α), ⟨(0 : α), (0 : α), (0 : α)⟩⟩
        else
          ⟨(t1150 / t1158), ⟨(t1149 / t1158), (t1148 / t1158), (t1147 / t1158)⟩⟩

/-- extracted from the C++ template at T = Sym; 32 path(s) -/
def C10.Quat.slerpShortestArc {α : Type} [Add α] [Sub α] [Mul α] [Div α] [Neg α] [LT α] [LE α] [DecidableLT α] [DecidableLE α] [DecidableEq α] [OfNat α 0] [OfNat α 1] [OfNat α 2] (teps : α) (sqrt : α → α) (sin : α → α) (atan2 : α → α → α) (q1 : Quat α) (q2 : Quat α) (t : α) : (Quat α) :=
  let t674 := ((1 : α) - t)
  let t679 := ((1 : α) / (1 : α))
  let t680 := (t679 * t)
  let t687 := (t679 * t674)
  let t955 := (q1.v.z - q2.v.z)
  let t956 := (q1.v.y - q2.v.y)
  let t957 := (q1.v.x - q2.v.x)
  let t958 := (q1.r - q2.r)
  let t967 := (q1.v.z + q2.v.z)
  let t968 := (q1.v.y + q2.v.y)
  let t969 := (q1.v.x + q2.v.x)
  let t970 := (q1.r + q2.r)
  let t980 := ((2 : α) * (atan2 (sqrt ((t958 * t958) + (((t957 * t957) + (t956 * t956)) + (t955 * t955)))) (sqrt ((t970 * t970) + (((t969 * t969) + (t968 * t968)) + (t967 * t967))))))
  let t981 := (t980 * t980)
  let t982 := (t * t980)
  let t983 := (t982 * t982)
  let t984 := (q2.v.z * t680)
  let t985 := (q2.v.y * t680)
  let t986 := (q2.v.x * t680)
  let t987 := (q2.r * t680)
  let t988 := (t674 * t980)
  let t989 := (t988 * t988)
  let t990 := (q1.v.z * t687)
  let t991 := (q1.v.y * t687)
  let t992 := (q1.v.x * t687)
  let t993 := (q1.r * t687)
  let t994 := (t990 + t984)
  let t995 := (t991 + t985)
  let t996 := (t992 + t986)
  let t997 := (t993 + t987)
  let t1005 := (sqrt ((t997 * t997) + (((t996 * t996) + (t995 * t995)) + (t994 * t994))))
  let t1011 := ((sin t988) / t988)
  let t1013 := ((t1011 / (1 : α)) * t674)
  let t1014 := (q1.v.z * t1013)
  let t1015 := (q1.v.y * t1013)
  let t1016 := (q1.v.x * t1013)
  let t1017 := (q1.r * t1013)
  let t1018 := (t1014 + t984)
  let t1019 := (t1015 + t985)
  let t1020 := (t1016 + t986)
  let t1021 := (t1017 + t987)
  let t1029 := (sqrt ((t1021 * t1021) + (((t1020 * t1020) + (t1019 * t1019)) + (t1018 * t1018))))
  let t1035 := ((sin t982) / t982)
  let t1037 := ((t1035 / (1 : α)) * t)
  let t1038 := (q2.v.z * t1037)
  let t1039 := (q2.v.y * t1037)
  let t1040 := (q2.v.x * t1037)
  let t1041 := (q2.r * t1037)
  let t1042 := (t990 + t1038)
  let t1043 := (t991 + t1039)
  let t1044 := (t992 + t1040)
  let t1045 := (t993 + t1041)
  let t1053 := (sqrt ((t1045 * t1045) + (((t1044 * t1044) + (t1043 * t1043)) + (t1042 * t1042))))
  let t1058 := (t1014 + t1038)
  let t1059 := (t1015 + t1039)
  let t1060 := (t1016 + t1040)
  let t1061 := (t1017 + t1041)
  let t1069 := (sqrt ((t1061 * t1061) + (((t1060 * t1060) + (t1059 * t1059)) + (t1058 * t1058))))
  let t1075 := ((sin t980) / t980)
  let t1076 := ((1 : α) / t1075)
  let t1077 := (t1076 * t)
  let t1078 := (q2.v.z * t1077)
  let t1079 := (q2.v.y * t1077)
  let t1080 := (q2.v.x * t1077)
  let t1081 := (q2.r * t1077)
  let t1082 := (t1076 * t674)
  let t1083 := (q1.v.z * t1082)
  let t1084 := (q1.v.y * t1082)
  let t1085 := (q1.v.x * t1082)
  let t1086 := (q1.r * t1082)
  let t1087 := (t1083 + t1078)
  let t1088 := (t1084 + t1079)
  let t1089 := (t1085 + t1080)
  let t1090 := (t1086 + t1081)
  let t1098 := (sqrt ((t1090 * t1090) + (((t1089 * t1089) + (t1088 * t1088)) + (t1087 * t1087))))
  let t1104 := ((t1011 / t1075) * t674)
  let t1105 := (q1.v.z * t1104)
  let t1106 := (q1.v.y * t1104)
  let t1107 := (q1.v.x * t1104)
  let t1108 := (q1.r * t1104)
  let t1109 := (t1105 + t1078)
  let t1110 := (t1106 + t1079)
  let t1111 := (t1107 + t1080)
  let t1112 := (t1108 + t1081)
  let t1120 := (sqrt ((t1112 * t1112) + (((t1111 * t1111) + (t1110 * t1110)) + (t1109 * t1109))))
  let t1126 := ((t1035 / t1075) * t)
  let t1127 := (q2.v.z * t1126)
  let t1128 := (q2.v.y * t1126)
  let t1129 := (q2.v.x * t1126)
  let t1130 := (q2.r * t1126)
  let t1131 := (t1083 + t1127)
  let t1132 := (t1084 + t1128)
  let t1133 := (t1085 + t1129)
  let t1134 := (t1086 + t1130)
  let t1142 := (sqrt ((t1134 * t1134) + (((t1133 * t1133) + (t1132 * t1132)) + (t1131 * t1131))))
  let t1147 := (t1105 + t1127)
  let t1148 := (t1106 + t1128)
  let t1149 := (t1107 + t1129)
  let t1150 := (t1108 + t1130)
  let t1158 := (sqrt ((t1150 * t1150) + (((t1149 * t1149) + (t1148 * t1148)) + (t1147 * t1147))))
  let t1169 := ((q1.r * q2.r) + (((q1.v.x * q2.v.x) + (q1.v.y * q2.v.y)) + (q1.v.z * q2.v.z)))
  let t1170 := (-q2.v.z)
  let t1171 := (-q2.v.y)
  let t1172 := (-q2.v.x)
  let t1173 := (-q2.r)
  let t1174 := (q1.v.z - t1170)
  let t1175 := (q1.v.y - t1171)
  let t1176 := (q1.v.x - t1172)
  let t1177 := (q1.r - t1173)
  let t1186 := (q1.v.z + t1170)
  let t1187 := (q1.v.y + t1171)
  let t1188 := (q1.v.x + t1172)
  let t1189 := (q1.r + t1173)
  let t1199 := ((2 : α) * (atan2 (sqrt ((t1177 * t1177) + (((t1176 * t1176) + (t1175 * t1175)) + (t1174 * t1174)))) (sqrt ((t1189 * t1189) + (((t1188 * t1188) + (t1187 * t1187)) + (t1186 * t1186))))))
  let t1200 := (t1199 * t1199)
  let t1201 := (t * t1199)
  let t1202 := (t1201 * t1201)
  let t1203 := (t1170 * t680)
  let t1204 := (t1171 * t680)
  let t1205 := (t1172 * t680)
  let t1206 := (t1173 * t680)
  let t1207 := (t674 * t1199)
  let t1208 := (t1207 * t1207)
  let t1209 := (t990 + t1203)
  let t1210 := (t991 + t1204)
  let t1211 := (t992 + t1205)
  let t1212 := (t993 + t1206)
  let t1220 := (sqrt ((t1212 * t1212) + (((t1211 * t1211) + (t1210 * t1210)) + (t1209 * t1209))))
  let t1226 := ((sin t1207) / t1207)
  let t1228 := ((t1226 / (1 : α)) * t674)
  let t1229 := (q1.v.z * t1228)
  let t1230 := (q1.v.y * t1228)
  let t1231 := (q1.v.x * t1228)
  let t1232 := (q1.r * t1228)
  let t1233 := (t1229 + t1203)
  let t1234 := (t1230 + t1204)
  let t1235 := (t1231 + t1205)
  let t1236 := (t1232 + t1206)
  let t1244 := (sqrt ((t1236 * t1236) + (((t1235 * t1235) + (t1234 * t1234)) + (t1233 * t1233))))
  let t1250 := ((sin t1201) / t1201)
  let t1252 := ((t1250 / (1 : α)) * t)
  let t1253 := (t1170 * t1252)
  let t1254 := (t1171 * t1252)
  let t1255 := (t1172 * t1252)
  let t1256 := (t1173 * t1252)
  let t1257 := (t990 + t1253)
  let t1258 := (t991 + t1254)
  let t1259 := (t992 + t1255)
  let t1260 := (t993 + t1256)
  let t1268 := (sqrt ((t1260 * t1260) + (((t1259 * t1259) + (t1258 * t1258)) + (t1257 * t1257))))
  let t1273 := (t1229 + t1253)
  let t1274 := (t1230 + t1254)
  let t1275 := (t1231 + t1255)
  let t1276 := (t1232 + t1256)
  let t1284 := (sqrt ((t1276 * t1276) + (((t1275 * t1275) + (t1274 * t1274)) + (t1273 * t1273))))
  let t1290 := ((sin t1199) / t1199)
  let t1291 := ((1 : α) / t1290)
  let t1292 := (t1291 * t)
  let t1293 := (t1170 * t1292)
  let t1294 := (t1171 * t1292)
  let t1295 := (t1172 * t1292)
  let t1296 := (t1173 * t1292)
  let t1297 := (t1291 * t674)
  let t1298 := (q1.v.z * t1297)
  let t1299 := (q1.v.y * t1297)
  let t1300 := (q1.v.x * t1297)
  let t1301 := (q1.r * t1297)
  let t1302 := (t1298 + t1293)
  let t1303 := (t1299 + t1294)
  let t1304 := (t1300 + t1295)
  let t1305 := (t1301 + t1296)
  let t1313 := (sqrt ((t1305 * t1305) + (((t1304 * t1304) + (t1303 * t1303)) + (t1302 * t1302))))
  let t1319 := ((t1226 / t1290) * t674)
  let t1320 := (q1.v.z * t1319)
  let t1321 := (q1.v.y * t1319)
  let t1322 := (q1.v.x * t1319)
  let t1323 := (q1.r * t1319)
  let t1324 := (t1320 + t1293)
  let t1325 := (t1321 + t1294)
  let t1326 := (t1322 + t1295)
  let t1327 := (t1323 + t1296)
  let t1335 := (sqrt ((t1327 * t1327) + (((t1326 * t1326) + (t1325 * t1325)) + (t1324 * t1324))))
  let t1341 := ((t1250 / t1290) * t)
  let t1342 := (t1170 * t1341)
  let t1343 := (t1171 * t1341)
  let t1344 := (t1172 * t1341)
  let t1345 := (t1173 * t1341)
  let t1346 := (t1298 + t1342)
  let t1347 := (t1299 + t1343)
  let t1348 := (t1300 + t1344)
  let t1349 := (t1301 + t1345)
  let t1357 := (sqrt ((t1349 * t1349) + (((t1348 * t1348) + (t1347 * t1347)) + (t1346 * t1346))))
  let t1362 := (t1320 + t1342)
  let t1363 := (t1321 + t1343)
  let t1364 := (t1322 + t1344)
  let t1365 := (t1323 + t1345)
  let t1373 := (sqrt ((t1365 * t1365) + (((t1364 * t1364) + (t1363 * t1363)) + (t1362 * t1362))))
  if (0 : α) ≤ t1169 then
    if t981 < teps then
      if t983 < teps then
        if t989 < teps then
          if t1005 = (0 : α) then
            ⟨(1 : α), ⟨(0 : α), (0 : α), (0 : α)⟩⟩
          else
            ⟨(t997 / t1005), ⟨(t996 / t1005), (t995 / t1005), (t994 / t1005)⟩⟩
        else
          if t1029 = (0 : α) then
            ⟨(1 : α), ⟨(0 : α), (0 : α), (0 : α)⟩⟩
          else
            ⟨(t1021 / t1029), ⟨(t1020 / t1029), (t1019 / t1029), (t1018 / t1029)⟩⟩
      else
        if t989 < teps then
          if t1053 = (0 : α) then
            ⟨(1 : α), ⟨(0 : α), (0 : α), (0 : α)⟩⟩
          else
            ⟨(t1045 / t1053), ⟨(t1044 / t1053), (t1043 / t1053), (t1042 / t1053)⟩⟩
        else
          if t1069 = (0 : α) then
            ⟨(1 : α), ⟨(0 : α), (0 : α), (0 : α)⟩⟩
          else
            ⟨(t1061 / t1069), ⟨(t1060 / t1069), (t1059 / t1069), (t1058 / t1069)⟩⟩
    else
      if t983 < teps then
        if t989 < teps then
          if t1098 = (0 : α) then
            ⟨(1 : α), ⟨(0 : α), (0 : α), (0 : α)⟩⟩
          else
            ⟨(t1090 / t1098), ⟨(t1089 / t1098), (t1088 / t1098), (t1087 / t1098)⟩⟩
        else
          if t1120 = (0 : α) then
            ⟨(1 : α), ⟨(0 : α), (0 : α), (0 : α)⟩⟩
          else
            ⟨(t1112 / t1120), ⟨(t1111 / t1120), (t1110 / t1120), (t1109 / t1120)⟩⟩
      else
        if t989 < teps then
          if t1142 = (0 : α) then
            ⟨(1 : α), ⟨(0 : α), (0 : α), (0 : α)⟩⟩
          else
            ⟨(t1134 / t1142), ⟨(t1133 / t1142), (t1132 / t1142), (t1131 / t1142)⟩⟩
        else
          if t1158 = (0 : α) then
            ⟨(1 : α), ⟨(0 : α), (0 : α), (0 : α)⟩⟩
          else
            ⟨(t1150 / t1158), ⟨(t1149 / t1158), (t1148 / t1158), (t1147 / t1158)⟩⟩
  else
    if t1200 < teps then
      if t1202 < teps then
        if t1208 < teps then
          if t1220 = (0 : α) then
            ⟨(1 : α), ⟨(0 : α), (0 : α), (0 : α)⟩⟩
          else
            ⟨(t1212 / t1220), ⟨(t1211 / t1220), (t1210 / t1220), (t1209 / t1220)⟩⟩
        else
          if t1244 = (0 : α) then
            ⟨(1 : α), ⟨(0 : α), (0 : α), (0 : α)⟩⟩
          else
            ⟨(t1236 / t1244), ⟨(t1235 / t1244), (t1234 / t1244), (t1233 / t1244)⟩⟩
      else
        if t1208 < teps then
          if t1268 = (0 : α) then
            ⟨(1 : α), ⟨(0 : α), (0 : α), (0 : α)⟩⟩
          else
            ⟨(t1260 / t1268), ⟨(t1259 / t1268), (t1258 / t1268), (t1257 / t1268)⟩⟩
        else
          if t1284 = (0 : α) then
            ⟨(1 : α), ⟨(0 : α), (0 : α), (0 : α)⟩⟩
          else
            ⟨(t1276 / t1284), ⟨(t1275 / t1284), (t1274 / t1284), (t1273 / t1284)⟩⟩
    else
      if t1202 < teps then
        if t1208 < teps then
          if t1313 = (0 : α) then
            ⟨(1 : α), ⟨(0 : α), (0 : α), (0 : α)⟩⟩
          else
            ⟨(t1305 / t1313), ⟨(t1304 / t1313), (t1303 / t1313), (t1302 / t1313)⟩⟩
        else
          if t1335 = (0 : α) then
            ⟨(1 : α), ⟨(0 : α), (0 : α), (0 : α)⟩⟩
          else
            ⟨(t1327 / t1335), ⟨(t1326 / t1335), (t1325 / t1335), (t1324 / t1335)⟩⟩
      else
        if t1208 < teps then
          if t1357 = (0 : α) then
            ⟨(1 : α), ⟨(0 : α), (0 : α), (0 : α)⟩⟩
          else
            ⟨(t1349 / t1357), ⟨(t1348 / t1357), (t1347 / t1357), (t1346 / t1357)⟩⟩
        else
          if t1373 = (0 : α) then
            ⟨(1 : α), ⟨(0 : α), (0 : α), (0 : α)⟩⟩
          else
            ⟨(t1365 / t1373), ⟨(t1364 / t1373), (t1363 / t1373), (t1362 / t1373)⟩⟩

/-- extracted from the C++ template at T = Sym; 96 path(s) -/
def C10.Quat.intermediate {α : Type} [Add α] [Sub α] [Mul α] [Div α] [Neg α] [LT α] [LE α] [DecidableLT α] [DecidableLE α] [DecidableEq α] [OfNat α 0] [OfNat α 1] [OfNat α 2] [OfNat α 4] (tmin : α) (tmax : α) (sqrt : α → α) (sin : α → α) (cos : α → α) (acos : α → α) (q0 : Quat α) (q1 : Quat α) (q2 : Quat α) : (Quat α) :=
  let t1388 := ((q1.r * q1.r) + (((q1.v.x * q1.v.x) + (q1.v.y * q1.v.y)) + (q1.v.z * q1.v.z)))
  let t1392 := ((-q1.v.z) / t1388)
  let t1393 := ((-q1.v.y) / t1388)
  let t1394 := ((-q1.v.x) / t1388)
  let t1395 := (q1.r / t1388)
  let t1414 := (((t1395 * q2.v.z) + (t1392 * q2.r)) + ((t1394 * q2.v.y) - (t1393 * q2.v.x)))
  let t1415 := (((t1395 * q2.v.y) + (t1393 * q2.r)) + ((t1392 * q2.v.x) - (t1394 * q2.v.z)))
  let t1416 := (((t1395 * q2.v.x) + (t1394 * q2.r)) + ((t1393 * q2.v.z) - (t1392 * q2.v.y)))
  let t1442 := (((t1395 * q0.v.z) + (t1392 * q0.r)) + ((t1394 * q0.v.y) - (t1393 * q0.v.x)))
  let t1443 := (((t1395 * q0.v.y) + (t1393 * q0.r)) + ((t1392 * q0.v.x) - (t1394 * q0.v.z)))
  let t1444 := (((t1395 * q0.v.x) + (t1394 * q0.r)) + ((t1393 * q0.v.z) - (t1392 * q0.v.y)))
  let t1453 := (acos (smin ((t1395 * q2.r) - (((t1394 * q2.v.x) + (t1393 * q2.v.y)) + (t1392 * q2.v.z))) (1 : α)))
  let t1455 := (acos (smin ((t1395 * q0.r) - (((t1394 * q0.v.x) + (t1393 * q0.v.y)) + (t1392 * q0.v.z))) (1 : α)))
  let t1461 := ((t1442 + t1414) * (-((1 : α) / (4 : α))))
  let t1462 := ((t1443 + t1415) * (-((1 : α) / (4 : α))))
  let t1463 := ((t1444 + t1416) * (-((1 : α) / (4 : α))))
  let t1465 := (V3.length tmin tmax sqrt ⟨t1463, t1462, t1461⟩)
  let t1466 := (sin t1465)
  let t1467 := (sabs t1465)
  let t1468 := (tmax * t1467)
  let t1469 := (sabs t1466)
  let t1470 := (cos t1465)
  let t1471 := (t1461 * (1 : α))
  let t1472 := (t1462 * (1 : α))
  let t1473 := (t1463 * (1 : α))
  let t1483 := (q1.v.z * t1470)
  let t1484 := (q1.v.y * t1470)
  let t1485 := (q1.v.x * t1470)
  let t1492 := (((q1.r * t1471) + t1483) + ((q1.v.x * t1472) - (q1.v.y * t1473)))
  let t1493 := (((q1.r * t1472) + t1484) + ((q1.v.z * t1473) - (q1.v.x * t1471)))
  let t1494 := (((q1.r * t1473) + t1485) + ((q1.v.y * t1471) - (q1.v.z * t1472)))
  let t1500 := (q1.r * t1470)
  let t1501 := (t1500 - (((q1.v.x * t1473) + (q1.v.y * t1472)) + (q1.v.z * t1471)))
  let t1509 := (sqrt ((t1501 * t1501) + (((t1494 * t1494) + (t1493 * t1493)) + (t1492 * t1492))))
  let t1514 := (t1466 / t1465)
  let t1515 := (t1461 * t1514)
  let t1516 := (t1462 * t1514)
  let t1517 := (t1463 * t1514)
  let t1533 := (((q1.r * t1515) + t1483) + ((q1.v.x * t1516) - (q1.v.y * t1517)))
  let t1534 := (((q1.r * t1516) + t1484) + ((q1.v.z * t1517) - (q1.v.x * t1515)))
  let t1535 := (((q1.r * t1517) + t1485) + ((q1.v.y * t1515) - (q1.v.z * t1516)))
  let t1541 := (t1500 - (((q1.v.x * t1517) + (q1.v.y * t1516)) + (q1.v.z * t1515)))
  let t1549 := (sqrt ((t1541 * t1541) + (((t1535 * t1535) + (t1534 * t1534)) + (t1533 * t1533))))
  let t1550 := (t1541 / t1549)
  let t1551 := (t1535 / t1549)
  let t1552 := (t1534 / t1549)
  let t1553 := (t1533 / t1549)
  let t1554 := (sin t1455)
  let t1555 := (sabs t1554)
  let t1556 := (tmax * t1555)
  let t1557 := (sabs t1455)
  let t1558 := (t1442 * (1 : α))
  let t1559 := (t1443 * (1 : α))
  let t1560 := (t1444 * (1 : α))
  let t1564 := ((t1558 + t1414) * (-((1 : α) / (4 : α))))
  let t1565 := ((t1559 + t1415) * (-((1 : α) / (4 : α))))
  let t1566 := ((t1560 + t1416) * (-((1 : α) / (4 : α))))
  let t1567 := (V3.length tmin tmax sqrt ⟨t1566, t1565, t1564⟩)
  let t1568 := (sin t1567)
  let t1569 := (sabs t1567)
  let t1570 := (tmax * t1569)
  let t1571 := (sabs t1568)
  let t1572 := (cos t1567)
  let t1573 := (t1564 * (1 : α))
  let t1574 := (t1565 * (1 : α))
  let t1575 := (t1566 * (1 : α))
  let t1585 := (q1.v.z * t1572)
  let t1586 := (q1.v.y * t1572)
  let t1587 := (q1.v.x * t1572)
  let t1594 := (((q1.r * t1573) + t1585) + ((q1.v.x * t1574) - (q1.v.y * t1575)))
  let t1595 := (((q1.r * t1574) + t1586) + ((q1.v.z * t1575) - (q1.v.x * t1573)))
  let t1596 := (((q1.r * t1575) + t1587) + ((q1.v.y * t1573) - (q1.v.z * t1574)))
  let t1602 := (q1.r * t1572)
  let t1603 := (t1602 - (((q1.v.x * t1575) + (q1.v.y * t1574)) + (q1.v.z * t1573)))
  let t1611 := (sqrt ((t1603 * t1603) + (((t1596 * t1596) + (t1595 * t1595)) + (t1594 * t1594))))
  let t1616 := (t1568 / t1567)
  let t1617 := (t1564 * t1616)
  let t1618 := (t1565 * t1616)
  let t1619 := (t1566 * t1616)
  let t1635 := (((q1.r * t1617) + t1585) + ((q1.v.x * t1618) - (q1.v.y * t1619)))
  let t1636 := (((q1.r * t1618) + t1586) + ((q1.v.z * t1619) - (q1.v.x * t1617)))
  let t1637 := (((q1.r * t1619) + t1587) + ((q1.v.y * t1617) - (q1.v.z * t1618)))
  let t1643 := (t1602 - (((q1.v.x * t1619) + (q1.v.y * t1618)) + (q1.v.z * t1617)))
  let t1651 := (sqrt ((t1643 * t1643) + (((t1637 * t1637) + (t1636 * t1636)) + (t1635 * t1635))))
  let t1652 := (t1643 / t1651)
  let t1653 := (t1637 / t1651)
  let t1654 := (t1636 / t1651)
  let t1655 := (t1635 / t1651)
  let t1656 := (t1455 / t1554)
  let t1657 := (t1442 * t1656)
  let t1658 := (t1443 * t1656)
  let t1659 := (t1444 * t1656)
  let t1663 := ((t1657 + t1414) * (-((1 : α) / (4 : α))))
  let t1664 := ((t1658 + t1415) * (-((1 : α) / (4 : α))))
  let t1665 := ((t1659 + t1416) * (-((1 : α) / (4 : α))))
  let t1666 := (V3.length tmin tmax sqrt ⟨t1665, t1664, t1663⟩)
  let t1667 := (sin t1666)
  let t1668 := (sabs t1666)
  let t1669 := (tmax * t1668)
  let t1670 := (sabs t1667)
  let t1671 := (cos t1666)
  let t1672 := (t1663 * (1 : α))
  let t1673 := (t1664 * (1 : α))
  let t1674 := (t1665 * (1 : α))
  let t1684 := (q1.v.z * t1671)
  let t1685 := (q1.v.y * t1671)
  let t1686 := (q1.v.x * t1671)
  let t1693 := (((q1.r * t1672) + t1684) + ((q1.v.x * t1673) - (q1.v.y * t1674)))
  let t1694 := (((q1.r * t1673) + t1685) + ((q1.v.z * t1674) - (q1.v.x * t1672)))
  let t1695 := (((q1.r * t1674) + t1686) + ((q1.v.y * t1672) - (q1.v.z * t1673)))
  let t1701 := (q1.r * t1671)
  let t1702 := (t1701 - (((q1.v.x * t1674) + (q1.v.y * t1673)) + (q1.v.z * t1672)))
  let t1710 := (sqrt ((t1702 * t1702) + (((t1695 * t1695) + (t1694 * t1694)) + (t1693 * t1693))))
  let t1711 := (t1702 / t1710)
  let t1712 := (t1695 / t1710)
  let t1713 := (t1694 / t1710)
  let t1714 := (t1693 / t1710)
  let t1715 := (t1667 / t1666)
  let t1716 := (t1663 * t1715)
  let t1717 := (t1664 * t1715)
  let t1718 := (t1665 * t1715)
  let t1734 := (((q1.r * t1716) + t1684) + ((q1.v.x * t1717) - (q1.v.y * t1718)))
  let t1735 := (((q1.r * t1717) + t1685) + ((q1.v.z * t1718) - (q1.v.x * t1716)))
  let t1736 := (((q1.r * t1718) + t1686) + ((q1.v.y * t1716) - (q1.v.z * t1717)))
  let t1742 := (t1701 - (((q1.v.x * t1718) + (q1.v.y * t1717)) + (q1.v.z * t1716)))
  let t1750 := (sqrt ((t1742 * t1742) + (((t1736 * t1736) + (t1735 * t1735)) + (t1734 * t1734))))
  let t1751 := (t1742 / t1750)
  let t1752 := (t1736 / t1750)
  let t1753 := (t1735 / t1750)
  let t1754 := (t1734 / t1750)
  let t1755 := (sin t1453)
  let t1756 := (sabs t1755)
  let t1757 := (tmax * t1756)
  let t1758 := (sabs t1453)
  let t1759 := (t1414 * (1 : α))
  let t1760 := (t1415 * (1 : α))
  let t1761 := (t1416 * (1 : α))
  let t1765 := ((t1442 + t1759) * (-((1 : α) / (4 : α))))
  let t1766 := ((t1443 + t1760) * (-((1 : α) / (4 : α))))
  let t1767 := ((t1444 + t1761) * (-((1 : α) / (4 : α))))
  let t1768 := (V3.length tmin tmax sqrt ⟨t1767, t1766, t1765⟩)
  let t1769 := (sin t1768)
  let t1770 := (sabs t1768)
  let t1771 := (tmax * t1770)
  let t1772 := (sabs t1769)
  let t1773 := (cos t1768)
  let t1774 := (t1765 * (1 : α))
  let t1775 := (t1766 * (1 : α))
  let t1776 := (t1767 * (1 : α))
  let t1786 := (q1.v.z * t1773)
  let t1787 := (q1.v.y * t1773)
  let t1788 := (q1.v.x * t1773)
  let t1795 := (((q1.r * t1774) + t1786) + ((q1.v.x * t1775) - (q1.v.y * t1776)))
  let t1796 := (((q1.r * t1775) + t1787) + ((q1.v.z * t1776) - (q1.v.x * t1774)))
  let t1797 := (((q1.r * t1776) + t1788) + ((q1.v.y * t1774) - (q1.v.z * t1775)))
  let t1803 := (q1.r * t1773)
  let t1804 := (t1803 - (((q1.v.x * t1776) + (q1.v.y * t1775)) + (q1.v.z * t1774)))
  let t1812 := (sqrt ((t1804 * t1804) + (((t1797 * t1797) + (t1796 * t1796)) + (t1795 * t1795))))
  let t1817 := (t1769 / t1768)
  let t1818 := (t1765 * t1817)
  let t1819 := (t1766 * t1817)
  let t1820 := (t1767 * t1817)
  let t1836 := (((q1.r * t1818) + t1786) + ((q1.v.x * t1819) - (q1.v.y * t1820)))
  let t1837 := (((q1.r * t1819) + t1787) + ((q1.v.z * t1820) - (q1.v.x * t1818)))
  let t1838 := (((q1.r * t1820) + t1788) + ((q1.v.y * t1818) - (q1.v.z * t1819)))
  let t1844 := (t1803 - (((q1.v.x * t1820) + (q1.v.y * t1819)) + (q1.v.z * t1818)))
  let t1852 := (sqrt ((t1844 * t1844) + (((t1838 * t1838) + (t1837 * t1837)) + (t1836 * t1836))))
  let t1853 := (t1844 / t1852)
  let t1854 := (t1838 / t1852)
  let t1855 := (t1837 / t1852)
  let t1856 := (t1836 / t1852)
  let t1860 := ((t1558 + t1759) * (-((1 : α) / (4 : α))))
  let t1861 := ((t1559 + t1760) * (-((1 : α) / (4 : α))))
  let t1862 := ((t1560 + t1761) * (-((1 : α) / (4 : α))))
  let t1863 := (V3.length tmin tmax sqrt ⟨t1862, t1861, t1860⟩)
  let t1864 := (sin t1863)
  let t1865 := (sabs t1863)
  let t1866 := (tmax * t1865)
  let t1867 := (sabs t1864)
  let t1868 := (cos t1863)
  let t1869 := (t1860 * (1 : α))
  let t1870 := (t1861 * (1 : α))
  let t1871 := (t1862 * (1 : α))
  let t1881 := (q1.v.z * t1868)
  let t1882 := (q1.v.y * t1868)
  let t1883 := (q1.v.x * t1868)
  let t1890 := (((q1.r * t1869) + t1881) + ((q1.v.x * t1870) - (q1.v.y * t1871)))
  let t1891 := (((q1.r * t1870) + t1882) + ((q1.v.z * t1871) - (q1.v.x * t1869)))
  let t1892 := (((q1.r * t1871) + t1883) + ((q1.v.y * t1869) - (q1.v.z * t1870)))
  let t1898 := (q1.r * t1868)
  let t1899 := (t1898 - (((q1.v.x * t1871) + (q1.v.y * t1870)) + (q1.v.z * t1869)))
  let t1907 := (sqrt ((t1899 * t1899) + (((t1892 * t1892) + (t1891 * t1891)) + (t1890 * t1890))))
  let t1912 := (t1864 / t1863)
  let t1913 := (t1860 * t1912)
  let t1914 := (t1861 * t1912)
  let t1915 := (t1862 * t1912)
  let t1931 := (((q1.r * t1913) + t1881) + ((q1.v.x * t1914) - (q1.v.y * t1915)))
  let t1932 := (((q1.r * t1914) + t1882) + ((q1.v.z * t1915) - (q1.v.x * t1913)))
  let t1933 := (((q1.r * t1915) + t1883) + ((q1.v.y * t1913) - (q1.v.z * t1914)))
  let t1939 := (t1898 - (((q1.v.x * t1915) + (q1.v.y * t1914)) + (q1.v.z * t1913)))
  let t1947 := (sqrt ((t1939 * t1939) + (((t1933 * t1933) + (t1932 * t1932)) + (t1931 * t1931))))
  let t1948 := (t1939 / t1947)
  let t1949 := (t1933 / t1947)
  let t1950 := (t1932 / t1947)
  let t1951 := (t1931 / t1947)
  let t1955 := ((t1657 + t1759) * (-((1 : α) / (4 : α))))
  let t1956 := ((t1658 + t1760) * (-((1 : α) / (4 : α))))
  let t1957 := ((t1659 + t1761) * (-((1 : α) / (4 : α))))
  let t1958 := (V3.length tmin tmax sqrt ⟨t1957, t1956, t1955⟩)
  let t1959 := (sin t1958)
  let t1960 := (sabs t1958)
  let t1961 := (tmax * t1960)
  let t1962 := (sabs t1959)
  let t1963 := (cos t1958)
  let t1964 := (t1955 * (1 : α))
  let t1965 := (t1956 * (1 : α))
  let t1966 := (t1957 * (1 : α))
  let t1976 := (q1.v.z * t1963)
  let t1977 := (q1.v.y * t1963)
  let t1978 := (q1.v.x * t1963)
  let t1985 := (((q1.r * t1964) + t1976) + ((q1.v.x * t1965) - (q1.v.y * t1966)))
  let t1986 := (((q1.r * t1965) + t1977) + ((q1.v.z * t1966) - (q1.v.x * t1964)))
  let t1987 := (((q1.r * t1966) + t1978) + ((q1.v.y * t1964) - (q1.v.z * t1965)))
  let t1993 := (q1.r * t1963)
  let t1994 := (t1993 - (((q1.v.x * t1966) + (q1.v.y * t1965)) + (q1.v.z * t1964)))
  let t2002 := (sqrt ((t1994 * t1994) + (((t1987 * t1987) + (t1986 * t1986)) + (t1985 * t1985))))
  let t2003 := (t1994 / t2002)
  let t2004 := (t1987 / t2002)
  let t2005 := (t1986 / t2002)
  let t2006 := (t1985 / t2002)
  let t2007 := (t1959 / t1958)
  let t2008 := (t1955 * t2007)
  let t2009 := (t1956 * t2007)
  let t2010 := (t1957 * t2007)
  let t2026 := (((q1.r * t2008) + t1976) + ((q1.v.x * t2009) - (q1.v.y * t2010)))
  let t2027 := (((q1.r * t2009) + t1977) + ((q1.v.z * t2010) - (q1.v.x * t2008)))
  let t2028 := (((q1.r * t2010) + t1978) + ((q1.v.y * t2008) - (q1.v.z * t2009)))
  let t2034 := (t1993 - (((q1.v.x * t2010) + (q1.v.y * t2009)) + (q1.v.z * t2008)))
  let t2042 := (sqrt ((t2034 * t2034) + (((t2028 * t2028) + (t2027 * t2027)) + (t2026 * t2026))))
  let t2043 := (t2034 / t2042)
  let t2044 := (t2028 / t2042)
  let t2045 := (t2027 / t2042)
  let t2046 := (t2026 / t2042)
  let t2047 := (t1453 / t1755)
  let t2048 := (t1414 * t2047)
  let t2049 := (t1415 * t2047)
  let t2050 := (t1416 * t2047)
  let t2054 := ((t1442 + t2048) * (-((1 : α) / (4 : α))))
  let t2055 := ((t1443 + t2049) * (-((1 : α) / (4 : α))))
  let t2056 := ((t1444 + t2050) * (-((1 : α) / (4 : α))))
  let t2057 := (V3.length tmin tmax sqrt ⟨t2056, t2055, t2054⟩)
  let t2058 := (sin t2057)
  let t2059 := (sabs t2057)
  let t2060 := (tmax * t2059)
  let t2061 := (sabs t2058)
  let t2062 := (cos t2057)
  let t2063 := (t2054 * (1 : α))
  let t2064 := (t2055 * (1 : α))
  let t2065 := (t2056 * (1 : α))
  let t2075 := (q1.v.z * t2062)
  let t2076 := (q1.v.y * t2062)
  let t2077 := (q1.v.x * t2062)
  let t2084 := (((q1.r * t2063) + t2075) + ((q1.v.x * t2064) - (q1.v.y * t2065)))
  let t2085 := (((q1.r * t2064) + t2076) + ((q1.v.z * t2065) - (q1.v.x * t2063)))
  let t2086 := (((q1.r * t2065) + t2077) + ((q1.v.y * t2063) - (q1.v.z * t2064)))
  let t2092 := (q1.r * t2062)
  let t2093 := (t2092 - (((q1.v.x * t2065) + (q1.v.y * t2064)) + (q1.v.z * t2063)))
  let t2101 := (sqrt ((t2093 * t2093) + (((t2086 * t2086) + (t2085 * t2085)) + (t2084 * t2084))))
  let t2102 := (t2093 / t2101)
  let t2103 := (t2086 / t2101)
  let t2104 := (t2085 / t2101)
  let t2105 := (t2084 / t2101)
  let t2106 := (t2058 / t2057)
  let t2107 := (t2054 * t2106)
  let t2108 := (t2055 * t2106)
  let t2109 := (t2056 * t2106)
  let t2125 := (((q1.r * t2107) + t2075) + ((q1.v.x * t2108) - (q1.v.y * t2109)))
  let t2126 := (((q1.r * t2108) + t2076) + ((q1.v.z * t2109) - (q1.v.x * t2107)))
  let t2127 := (((q1.r * t2109) + t2077) + ((q1.v.y * t2107) - (q1.v.z * t2108)))
  let t2133 := (t2092 - (((q1.v.x * t2109) + (q1.v.y * t2108)) + (q1.v.z * t2107)))
  let t2141 := (sqrt ((t2133 * t2133) + (((t2127 * t2127) + (t2126 * t2126)) + (t2125 * t2125))))
  let t2142 := (t2133 / t2141)
  let t2143 := (t2127 / t2141)
  let t2144 := (t2126 / t2141)
  let t2145 := (t2125 / t2141)
  let t2149 := ((t1558 + t2048) * (-((1 : α) / (4 : α))))
  let t2150 := ((t1559 + t2049) * (-((1 : α) / (4 : α))))
  let t2151 := ((t1560 + t2050) * (-((1 : α) / (4 : α))))
  let t2152 := (V3.length tmin tmax sqrt ⟨t2151, t2150, t2149⟩)
  let t2153 := (sin t2152)
  let t2154 := (sabs t2152)
  let t2155 := (tmax * t2154)
  let t2156 := (sabs t2153)
  let t2157 := (cos t2152)
  let t2158 := (t2149 * (1 : α))
  let t2159 := (t2150 * (1 : α))
  let t2160 := (t2151 * (1 : α))
  let t2170 := (q1.v.z * t2157)
  let t2171 := (q1.v.y * t2157)
  let t2172 := (q1.v.x * t2157)
  let t2179 := (((q1.r * t2158) + t2170) + ((q1.v.x * t2159) - (q1.v.y * t2160)))
  let t2180 := (((q1.r * t2159) + t2171) + ((q1.v.z * t2160) - (q1.v.x * t2158)))
  let t2181 := (((q1.r * t2160) + t2172) + ((q1.v.y * t2158) - (q1.v.z * t2159)))
  let t2187 := (q1.r * t2157)
  let t2188 := (t2187 - (((q1.v.x * t2160) + (q1.v.y * t2159)) + (q1.v.z * t2158)))
  let t2196 := (sqrt ((t2188 * t2188) + (((t2181 * t2181) + (t2180 * t2180)) + (t2179 * t2179))))
  let t2197 := (t2188 / t2196)
  let t2198 := (t2181 / t2196)
  let t2199 := (t2180 / t2196)
  let t2200 := (t2179 / t2196)
  let t2201 := (t2153 / t2152)
  let t2202 := (t2149 * t2201)
  let t2203 := (t2150 * t2201)
  let t2204 := (t2151 * t2201)
  let t2220 := (((q1.r * t2202) + t2170) + ((q1.v.x * t2203) - (q1.v.y * t2204)))
  let t2221 := (((q1.r * t2203) + t2171) + ((q1.v.z * t2204) - (q1.v.x * t2202)))
  let t2222 := (((q1.r * t2204) + t2172) + ((q1.v.y * t2202) - (q1.v.z * t2203)))
  let t2228 := (t2187 - (((q1.v.x * t2204) + (q1.v.y * t2203)) + (q1.v.z * t2202)))
  let t2236 := (sqrt ((t2228 * t2228) + (((t2222 * t2222) + (t2221 * t2221)) + (t2220 * t2220))))
  let t2237 := (t2228 / t2236)
  let t2238 := (t2222 / t2236)
  let t2239 := (t2221 / t2236)
  let t2240 := (t2220 / t2236)
  let t2244 := ((t1657 + t2048) * (-((1 : α) / (4 : α))))
  let t2245 := ((t1658 + t2049) * (-((1 : α) / (4 : α))))
  let t2246 := ((t1659 + t2050) * (-((1 : α) / (4 : α))))
  let t2247 := (V3.length tmin tmax sqrt ⟨t2246, t2245, t2244⟩)
  let t2248 := (sin t2247)
  let t2249 := (sabs t2247)
  let t2250 := (tmax * t2249)
  let t2251 := (sabs t2248)
  let t2252 := (cos t2247)
  let t2253 := (t2244 * (1 : α))
  let t2254 := (t2245 * (1 : α))
  let t2255 := (t2246 * (1 : α))
  let t2265 := (q1.v.z * t2252)
  let t2266 := (q1.v.y * t2252)
  let t2267 := (q1.v.x * t2252)
  let t2274 := (((q1.r * t2253) + t2265) + ((q1.v.x * t2254) - (q1.v.y * t2255)))
  let t2275 := (((q1.r * t2254) + t2266) + ((q1.v.z * t2255) - (q1.v.x * t2253)))
  let t2276 := (((q1.r * t2255) + t2267) + ((q1.v.y * t2253) - (q1.v.z * t2254)))
  let t2282 := (q1.r * t2252)
  let t2283 := (t2282 - (((q1.v.x * t2255) + (q1.v.y * t2254)) + (q1.v.z * t2253)))
  let t2291 := (sqrt ((t2283 * t2283) + (((t2276 * t2276) + (t2275 * t2275)) + (t2274 * t2274))))
  let t2292 := (t2283 / t2291)
  let t2293 := (t2276 / t2291)
  let t2294 := (t2275 / t2291)
  let t2295 := (t2274 / t2291)
  let t2296 := (t2248 / t2247)
  let t2297 := (t2244 * t2296)
  let t2298 := (t2245 * t2296)
  let t2299 := (t2246 * t2296)
  let t2315 := (((q1.r * t2297) + t2265) + ((q1.v.x * t2298) - (q1.v.y * t2299)))
  let t2316 := (((q1.r * t2298) + t2266) + ((q1.v.z * t2299) - (q1.v.x * t2297)))
  let t2317 := (((q1.r * t2299) + t2267) + ((q1.v.y * t2297) - (q1.v.z * t2298)))
  let t2323 := (t2282 - (((q1.v.x * t2299) + (q1.v.y * t2298)) + (q1.v.z * t2297)))
  let t2331 := (sqrt ((t2323 * t2323) + (((t2317 * t2317) + (t2316 * t2316)) + (t2315 * t2315))))
  let t2332 := (t2323 / t2331)
  let t2333 := (t2317 / t2331)
  let t2334 := (t2316 / t2331)
  let t2335 := (t2315 / t2331)
  if t1453 = (0 : α) then
    if t1455 = (0 : α) then
      if t1467 < (1 : α) then
        if t1468 ≤ t1469 then
          if t1509 = (0 : α) then
            ⟨(1 : α), ⟨(0 : α), (0 : α), (0 : α)⟩⟩
          else
            ⟨(t1501 / t1509), ⟨(t1494 / t1509), (t1493 / t1509), (t1492 / t1509)⟩⟩
        else
          if t1549 = (0 : α) then
            ⟨(1 : α), ⟨(0 : α), (0 : α), (0 : α)⟩⟩
          else
            ⟨t1550, ⟨t1551, t1552, t1553⟩⟩
      else
        if t1549 = (0 : α) then
          ⟨(1 : α), ⟨(0 : α), (0 : α), (0 : α)⟩⟩
        else
          ⟨t1550, ⟨t1551, t1552, t1553⟩⟩
    else
      if t1555 < (1 : α) then
        if t1556 ≤ t1557 then
          if t1569 < (1 : α) then
            if t1570 ≤ t1571 then
              if t1611 = (0 : α) then
                ⟨(1 : α), ⟨(0 : α), (0 : α), (0 : α)⟩⟩
              else
                ⟨(t1603 / t1611), ⟨(t1596 / t1611), (t1595 / t1611), (t1594 / t1611)⟩⟩
            else
              if t1651 = (0 : α) then
                ⟨(1 : α), ⟨(0 : α), (0 : α), (0 : α)⟩⟩
              else
                ⟨t1652, ⟨t1653, t1654, t1655⟩⟩
          else
            if t1651 = (0 : α) then
              ⟨(1 : α), ⟨(0 : α), (0 : α), (0 : α)⟩⟩
            else
              ⟨t1652, ⟨t1653, t1654, t1655⟩⟩
        else
          if t1668 < (1 : α) then
            if t1669 ≤ t1670 then
              if t1710 = (0 : α) then
                ⟨(1 : α), ⟨(0 : α), (0 : α), (0 : α)⟩⟩
              else
                ⟨t1711, ⟨t1712, t1713, t1714⟩⟩
            else
              if t1750 = (0 : α) then
                ⟨(1 : α), ⟨(0 : α), (0 : α), (0 : α)⟩⟩
              else
                ⟨t1751, ⟨t1752, t1753, t1754⟩⟩
          else
            if t1750 = (0 : α) then
              ⟨(1 : α), ⟨(0 : α), (0 : α), (0 : α)⟩⟩
            else
              ⟨t1751, ⟨t1752, t1753, t1754⟩⟩
      else
        if t1668 < (1 : α) then
          if t1669 ≤ t1670 then
            if t1710 = (0 : α) then
              ⟨(1 : α), ⟨(0 : α), (0 : α), (0 : α)⟩⟩
            else
              ⟨t1711, ⟨t1712, t1713, t1714⟩⟩
          else
            if t1750 = (0 : α) then
              ⟨(1 : α), ⟨(0 : α), (0 : α), (0 : α)⟩⟩
            else
              ⟨t1751, ⟨t1752, t1753, t1754⟩⟩
        else
          if t1750 = (0 : α) then
            ⟨(1 : α), ⟨(0 : α), (0 : α), (0 : α)⟩⟩
          else
            ⟨t1751, ⟨t1752, t1753, t1754⟩⟩
  else
    if t1756 < (1 : α) then
      if t1757 ≤ t1758 then
        if t1455 = (0 : α) then
          if t1770 < (1 : α) then
            if t1771 ≤ t1772 then
              if t1812 = (0 : α) then
                ⟨(1 : α), ⟨(0 : α), (0 : α), (0 : α)⟩⟩
              else
                ⟨(t1804 / t1812), ⟨(t1797 / t1812), (t1796 / t1812), (t1795 / t1812)⟩⟩
            else
              if t1852 = (0 : α) then
                ⟨(1 : α), ⟨(0 : α), (0 : α), (0 : α)⟩⟩
              else
                ⟨t1853, ⟨t1854, t1855, t1856⟩⟩
          else
            if t1852 = (0 : α) then
              ⟨(1 : α), ⟨(0 : α), (0 : α), (0 : α)⟩⟩
            else
              ⟨t1853, ⟨t1854, t1855, t1856⟩⟩
        else
          if t1555 < (1 : α) then
            if t1556 ≤ t1557 then
              if t1865 < (1 : α) then
                if t1866 ≤ t1867 then
                  if t1907 = (0 : α) then
                    ⟨(1 : α), ⟨(0 : α), (0 : α), (0 : α)⟩⟩
                  else
                    ⟨(t1899 / t1907), ⟨(t1892 / t1907), (t1891 / t1907), (t1890 / t1907)⟩⟩
                else
                  if t1947 = (0 : α) then
                    ⟨(1 : α), ⟨(0 : α), (0 : α), (0 : α)⟩⟩
                  else
                    ⟨t1948, ⟨t1949, t1950, t1951⟩⟩
              else
                if t1947 = (0 : α) then
                  ⟨(1 : α), ⟨(0 : α), (0 : α), (0 : α)⟩⟩
                else
                  ⟨t1948, ⟨t1949, t1950, t1951⟩⟩
            else
              if t1960 < (1 : α) then
                if t1961 ≤ t1962 then
                  if t2002 = (0 : α) then
                    ⟨(1 : α), ⟨(0 : α), (0 : α), (0 : α)⟩⟩
                  else
                    ⟨t2003, ⟨t2004, t2005, t2006⟩⟩
                else
                  if t2042 = (0 : α) then
                    ⟨(1 : α), ⟨(0 : α), (0 : α), (0 : α)⟩⟩
                  else
                    ⟨t2043, ⟨t2044, t2045, t2046⟩⟩
              else
                if t2042 = (0 : α) then
                  ⟨(1 : α), ⟨(0 : α), (0 : α), (0 : α)⟩⟩
                else
                  ⟨t2043, ⟨t2044, t2045, t2046⟩⟩
          else
            if t1960 < (1 : α) then
              if t1961 ≤ t1962 then
                if t2002 = (0 : α) then
                  ⟨(1 : α), ⟨(0 : α), (0 : α), (0 : α)⟩⟩
                else
                  ⟨t2003, ⟨t2004, t2005, t2006⟩⟩
              else
                if t2042 = (0 : α) then
                  ⟨(1 : α), ⟨(0 : α), (0 : α), (0 : α)⟩⟩
                else
                  ⟨t2043, ⟨t2044, t2045, t2046⟩⟩
            else
              if t2042 = (0 : α) then
                ⟨(1 : α), ⟨(0 : α), (0 : α), (0 : α)⟩⟩
              else
                ⟨t2043, ⟨t2044, t2045, t2046⟩⟩
      else
        if t1455 = (0 : α) then
          if t2059 < (1 : α) then
            if t2060 ≤ t2061 then
              if t2101 = (0 : α) then
                ⟨(1 : α), ⟨(0 : α), (0 : α), (0 : α)⟩⟩
              else
                ⟨t2102, ⟨t2103, t2104, t2105⟩⟩
            else
              if t2141 = (0 : α) then
                ⟨(1 : α), ⟨(0 : α), (0 : α), (0 : α)⟩⟩
              else
                ⟨t2142, ⟨t2143, t2144, t2145⟩⟩
          else
            if t2141 = (0 : α) then
              ⟨(1 : α), ⟨(0 : α), (0 : α), (0 : α)⟩⟩
            else
              ⟨t2142, ⟨t2143, t2144, t2145⟩⟩
        else
          if t1555 < (1 : α) then
            if t1556 ≤ t1557 then
              if t2154 < (1 : α) then
                if t2155 ≤ t2156 then
                  if t2196 = (0 : α) then
                    ⟨(1 : α), ⟨(0 : α), (0 : α), (0 : α)⟩⟩
                  else
                    ⟨t2197, ⟨t2198, t2199, t2200⟩⟩
                else
                  if t2236 = (0 : α) then
                    ⟨(1 : α), ⟨(0 : α), (0 : α), (0 : α)⟩⟩
                  else
                    ⟨t2237, ⟨t2238, t2239, t2240⟩⟩
              else
                if t2236 = (0 : α) then
                  ⟨(1 : α), ⟨(0 : α), (0 : α), (0 : α)⟩⟩
                else
                  ⟨t2237, ⟨t2238, t2239, t2240⟩⟩
            else
              if t2249 < (1 : α) then
                if t2250 ≤ t2251 then
                  if t2291 = (0 : α) then
                    ⟨(1 : α), ⟨(0 : α), (0 : α), (0 : α)⟩⟩
                  else
                    ⟨t2292, ⟨t2293, t2294, t2295⟩⟩
                else
                  if t2331 = (0 : α) then
                    ⟨(1 : α), ⟨(0 : α), (0 : α), (0 : α)⟩⟩
                  else
                    ⟨t2332, ⟨t2333, t2334, t2335⟩⟩
              else
                if t2331 = (0 : α) then
                  ⟨(1 : α), ⟨(0 : α), (0 : α), (0 : α)⟩⟩
                else
                  ⟨t2332, ⟨t2333, t2334, t2335⟩⟩
          else
            if t2249 < (1 : α) then
              if t2250 ≤ t2251 then
                if t2291 = (0 : α) then
                  ⟨(1 : α), ⟨(0 : α), (0 : α), (0 : α)⟩⟩
                else
                  ⟨t2292, ⟨t2293, t2294, t2295⟩⟩
              else
                if t2331 = (0 : α) then
                  ⟨(1 : α), ⟨(0 : α), (0 : α), (0 : α)⟩⟩
                else
                  ⟨t2332, ⟨t2333, t2334, t2335⟩⟩
            else
              if t2331 = (0 : α) then
                ⟨(1 : α), ⟨(0 : α), (0 : α), (0 : α)⟩⟩
              else
                ⟨t2332, ⟨t2333, t2334, t2335⟩⟩
    else
      if t1455 = (0 : α) then
        if t2059 < (1 : α) then
          if t2060 ≤ t2061 then
            if t2101 = (0 : α) then
              ⟨(1 : α), ⟨(0 : α), (0 : α), (0 : α)⟩⟩
            else
              ⟨t2102, ⟨t2103, t2104, t2105⟩⟩
          else
            if t2141 = (0 : α) then
              ⟨(1 : α), ⟨(0 : α), (0 : α), (0 : α)⟩⟩
            else
              ⟨t2142, ⟨t2143, t2144, t2145⟩⟩
        else
          if t2141 = (0 : α) then
            ⟨(1 : α), ⟨(0 : α), (0 : α), (0 : α)⟩⟩
          else
            ⟨t2142, ⟨t2143, t2144, t2145⟩⟩
      else
        if t1555 < (1 : α) then
          if t1556 ≤ t1557 then
            if t2154 < (1 : α) then
              if t2155 ≤ t2156 then
                if t2196 = (0 : α) then
                  ⟨(1 : α), ⟨(0 : α), (0 : α), (0 : α)⟩⟩
                else
                  ⟨t2197, ⟨t2198, t2199, t2200⟩⟩
              else
                if t2236 = (0 : α) then
                  ⟨(1 : α), ⟨(0 : α), (0 : α), (0 : α)⟩⟩
                else
                  ⟨t2237, ⟨t2238, t2239, t2240⟩⟩
            else
              if t2236 = (0 : α) then
                ⟨(1 : α), ⟨(0 : α), (0 : α), (0 : α)⟩⟩
              else
                ⟨t2237, ⟨t2238, t2239, t2240⟩⟩
          else
            if t2249 < (1 : α) then
              if t2250 ≤ t2251 then
                if t2291 = (0 : α) then
                  ⟨(1 : α), ⟨(0 : α), (0 : α), (0 : α)⟩⟩
                else
                  ⟨t2292, ⟨t2293, t2294, t2295⟩⟩
              else
                if t2331 = (0 : α) then
                  ⟨(1 : α), ⟨(0 : α), (0 : α), (0 : α)⟩⟩
                else
                  ⟨t2332, ⟨t2333, t2334, t2335⟩⟩
            else
              if t2331 = (0 : α) then
                ⟨(1 : α), ⟨(0 : α), (0 : α), (0 : α)⟩⟩
              else
                ⟨t2332, ⟨t2333, t2334, t2335⟩⟩
        else
          if t2249 < (1 : α) then
            if t2250 ≤ t2251 then
              if t2291 = (0 : α) then
                ⟨(1 : α), ⟨(0 : α), (0 : α), (0 : α)⟩⟩
              else
                ⟨t2292, ⟨t2293, t2294, t2295⟩⟩
            else
              if t2331 = (0 : α) then
                ⟨(1 : α), ⟨(0 : α), (0 : α), (0 : α)⟩⟩
              else
                ⟨t2332, ⟨t2333, t2334, t2335⟩⟩
          else
            if t2331 = (0 : α) then
              ⟨(1 : α), ⟨(0 : α), (0 : α), (0 : α)⟩⟩
            else
              ⟨t2332, ⟨t2333, t2334, t2335⟩⟩

end ImathVerif.Gen
