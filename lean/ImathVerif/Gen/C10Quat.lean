-- GENERATED from /repo/src/Imath by harness/sym (T = Sym path extraction); do not edit.
import ImathVerif.Basic.Types
import ImathVerif.Gen.Leaf
set_option linter.unusedVariables false
namespace ImathVerif.Gen
open ImathVerif

/-- extracted from the C++ template at T = Sym; 1 path(s) -/
def C10.Quat.rotateVector {α : Type} [Add α] [Sub α] [Mul α] [Neg α] [OfNat α 0] [OfNat α 1] (q : Quat α) (v : V3 α) : (V3 α) :=
  let t10 := (q.v.x * (-(1 : α)))
  let t11 := (q.v.y * (-(1 : α)))
  let t12 := (q.v.z * (-(1 : α)))
  let t31 := (((q.r * v.z) + (t12 * (0 : α))) + ((t10 * v.y) - (t11 * v.x)))
  let t32 := (((q.r * v.y) + (t11 * (0 : α))) + ((t12 * v.x) - (t10 * v.z)))
  let t33 := (((q.r * v.x) + (t10 * (0 : α))) + ((t11 * v.z) - (t12 * v.y)))
  let t40 := ((q.r * (0 : α)) - (((t10 * v.x) + (t11 * v.y)) + (t12 * v.z)))
  ⟨(((t40 * q.v.x) + (t33 * q.r)) + ((t32 * q.v.z) - (t31 * q.v.y))), (((t40 * q.v.y) + (t32 * q.r)) + ((t31 * q.v.x) - (t33 * q.v.z))), (((t40 * q.v.z) + (t31 * q.r)) + ((t33 * q.v.y) - (t32 * q.v.x)))⟩

/-- extracted from the C++ template at T = Sym; 1 path(s) -/
def C10.V3.mulQuat {α : Type} [Add α] [Sub α] [Mul α] [OfNat α 2] (v : V3 α) (q : Quat α) : (V3 α) :=
  let t71 := ((q.v.x * v.y) - (q.v.y * v.x))
  let t74 := ((q.v.z * v.x) - (q.v.x * v.z))
  let t77 := ((q.v.y * v.z) - (q.v.z * v.y))
  ⟨(v.x + ((2 : α) * ((q.r * t77) + ((q.v.y * t71) - (q.v.z * t74))))), (v.y + ((2 : α) * ((q.r * t74) + ((q.v.z * t77) - (q.v.x * t71))))), (v.z + ((2 : α) * ((q.r * t71) + ((q.v.x * t74) - (q.v.y * t77)))))⟩

/-- extracted from the C++ template at T = Sym; 1 path(s) -/
def C10.Quat.toMatrix33 {α : Type} [Add α] [Sub α] [Mul α] [OfNat α 1] [OfNat α 2] (q : Quat α) : (M33 α) :=
  let t100 := (q.v.x * q.v.x)
  let t101 := (q.v.y * q.v.y)
  let t105 := (q.v.x * q.r)
  let t106 := (q.v.y * q.v.z)
  let t109 := (q.v.y * q.r)
  let t110 := (q.v.z * q.v.x)
  let t115 := (q.v.z * q.v.z)
  let t119 := (q.v.z * q.r)
  let t120 := (q.v.x * q.v.y)
  ⟨((1 : α) - ((2 : α) * (t101 + t115))), ((2 : α) * (t120 + t119)), ((2 : α) * (t110 - t109)), ((2 : α) * (t120 - t119)), ((1 : α) - ((2 : α) * (t115 + t100))), ((2 : α) * (t106 + t105)), ((2 : α) * (t110 + t109)), ((2 : α) * (t106 - t105)), ((1 : α) - ((2 : α) * (t101 + t100)))⟩

/-- extracted from the C++ template at T = Sym; 1 path(s) -/
def C10.Quat.toMatrix44 {α : Type} [Add α] [Sub α] [Mul α] [OfNat α 0] [OfNat α 1] [OfNat α 2] (q : Quat α) : (M44 α) :=
  let t100 := (q.v.x * q.v.x)
  let t101 := (q.v.y * q.v.y)
  let t105 := (q.v.x * q.r)
  let t106 := (q.v.y * q.v.z)
  let t109 := (q.v.y * q.r)
  let t110 := (q.v.z * q.v.x)
  let t115 := (q.v.z * q.v.z)
  let t119 := (q.v.z * q.r)
  let t120 := (q.v.x * q.v.y)
  ⟨((1 : α) - ((2 : α) * (t101 + t115))), ((2 : α) * (t120 + t119)), ((2 : α) * (t110 - t109)), (0 : α), ((2 : α) * (t120 - t119)), ((1 : α) - ((2 : α) * (t115 + t100))), ((2 : α) * (t106 + t105)), (0 : α), ((2 : α) * (t110 + t109)), ((2 : α) * (t106 - t105)), ((1 : α) - ((2 : α) * (t101 + t100))), (0 : α), (0 : α), (0 : α), (0 : α), (1 : α)⟩

/-- extracted from the C++ template at T = Sym; 1 path(s) -/
def C10.M33.mulQuat {α : Type} [Add α] [Sub α] [Mul α] [OfNat α 1] [OfNat α 2] (m : M33 α) (q : Quat α) : (M33 α) :=
  let t100 := (q.v.x * q.v.x)
  let t101 := (q.v.y * q.v.y)
  let t104 := ((1 : α) - ((2 : α) * (t101 + t100)))
  let t105 := (q.v.x * q.r)
  let t106 := (q.v.y * q.v.z)
  let t108 := ((2 : α) * (t106 - t105))
  let t109 := (q.v.y * q.r)
  let t110 := (q.v.z * q.v.x)
  let t112 := ((2 : α) * (t110 + t109))
  let t114 := ((2 : α) * (t106 + t105))
  let t115 := (q.v.z * q.v.z)
  let t118 := ((1 : α) - ((2 : α) * (t115 + t100)))
  let t119 := (q.v.z * q.r)
  let t120 := (q.v.x * q.v.y)
  let t122 := ((2 : α) * (t120 - t119))
  let t124 := ((2 : α) * (t110 - t109))
  let t126 := ((2 : α) * (t120 + t119))
  let t129 := ((1 : α) - ((2 : α) * (t101 + t115)))
  ⟨(((m.x00 * t129) + (m.x01 * t122)) + (m.x02 * t112)), (((m.x00 * t126) + (m.x01 * t118)) + (m.x02 * t108)), (((m.x00 * t124) + (m.x01 * t114)) + (m.x02 * t104)), (((m.x10 * t129) + (m.x11 * t122)) + (m.x12 * t112)), (((m.x10 * t126) + (m.x11 * t118)) + (m.x12 * t108)), (((m.x10 * t124) + (m.x11 * t114)) + (m.x12 * t104)), (((m.x20 * t129) + (m.x21 * t122)) + (m.x22 * t112)), (((m.x20 * t126) + (m.x21 * t118)) + (m.x22 * t108)), (((m.x20 * t124) + (m.x21 * t114)) + (m.x22 * t104))⟩

/-- extracted from the C++ template at T = Sym; 1 path(s) -/
def C10.Quat.mulM33 {α : Type} [Add α] [Sub α] [Mul α] [OfNat α 1] [OfNat α 2] (q : Quat α) (m : M33 α) : (M33 α) :=
  let t100 := (q.v.x * q.v.x)
  let t101 := (q.v.y * q.v.y)
  let t104 := ((1 : α) - ((2 : α) * (t101 + t100)))
  let t105 := (q.v.x * q.r)
  let t106 := (q.v.y * q.v.z)
  let t108 := ((2 : α) * (t106 - t105))
  let t109 := (q.v.y * q.r)
  let t110 := (q.v.z * q.v.x)
  let t112 := ((2 : α) * (t110 + t109))
  let t114 := ((2 : α) * (t106 + t105))
  let t115 := (q.v.z * q.v.z)
  let t118 := ((1 : α) - ((2 : α) * (t115 + t100)))
  let t119 := (q.v.z * q.r)
  let t120 := (q.v.x * q.v.y)
  let t122 := ((2 : α) * (t120 - t119))
  let t124 := ((2 : α) * (t110 - t109))
  let t126 := ((2 : α) * (t120 + t119))
  let t129 := ((1 : α) - ((2 : α) * (t101 + t115)))
  ⟨(((t129 * m.x00) + (t126 * m.x10)) + (t124 * m.x20)), (((t129 * m.x01) + (t126 * m.x11)) + (t124 * m.x21)), (((t129 * m.x02) + (t126 * m.x12)) + (t124 * m.x22)), (((t122 * m.x00) + (t118 * m.x10)) + (t114 * m.x20)), (((t122 * m.x01) + (t118 * m.x11)) + (t114 * m.x21)), (((t122 * m.x02) + (t118 * m.x12)) + (t114 * m.x22)), (((t112 * m.x00) + (t108 * m.x10)) + (t104 * m.x20)), (((t112 * m.x01) + (t108 * m.x11)) + (t104 * m.x21)), (((t112 * m.x02) + (t108 * m.x12)) + (t104 * m.x22))⟩

/-- extracted from the C++ template at T = Sym; 1 path(s) -/
def C10.V3.mulM33 {α : Type} [Add α] [Mul α] (v : V3 α) (m : M33 α) : (V3 α) :=
  ⟨(((v.x * m.x00) + (v.y * m.x10)) + (v.z * m.x20)), (((v.x * m.x01) + (v.y * m.x11)) + (v.z * m.x21)), (((v.x * m.x02) + (v.y * m.x12)) + (v.z * m.x22))⟩

/-- extracted from the C++ template at T = Sym; 1 path(s) -/
def C10.V3.mulM44 {α : Type} [Add α] [Mul α] [Div α] (v : V3 α) (m : M44 α) : (V3 α) :=
  let t259 := ((((v.x * m.x03) + (v.y * m.x13)) + (v.z * m.x23)) + m.x33)
  ⟨(((((v.x * m.x00) + (v.y * m.x10)) + (v.z * m.x20)) + m.x30) / t259), (((((v.x * m.x01) + (v.y * m.x11)) + (v.z * m.x21)) + m.x31) / t259), (((((v.x * m.x02) + (v.y * m.x12)) + (v.z * m.x22)) + m.x32) / t259)⟩

/-- extracted from the C++ template at T = Sym; 1 path(s) -/
def C10.M44.multDirMatrix {α : Type} [Add α] [Mul α] (m : M44 α) (v : V3 α) : (V3 α) :=
  ⟨(((v.x * m.x00) + (v.y * m.x10)) + (v.z * m.x20)), (((v.x * m.x01) + (v.y * m.x11)) + (v.z * m.x21)), (((v.x * m.x02) + (v.y * m.x12)) + (v.z * m.x22))⟩

/-- extracted from the C++ template at T = Sym; 1 path(s) -/
def C10.M33.mul {α : Type} [Add α] [Mul α] (a : M33 α) (b : M33 α) : (M33 α) :=
  ⟨(((a.x00 * b.x00) + (a.x01 * b.x10)) + (a.x02 * b.x20)), (((a.x00 * b.x01) + (a.x01 * b.x11)) + (a.x02 * b.x21)), (((a.x00 * b.x02) + (a.x01 * b.x12)) + (a.x02 * b.x22)), (((a.x10 * b.x00) + (a.x11 * b.x10)) + (a.x12 * b.x20)), (((a.x10 * b.x01) + (a.x11 * b.x11)) + (a.x12 * b.x21)), (((a.x10 * b.x02) + (a.x11 * b.x12)) + (a.x12 * b.x22)), (((a.x20 * b.x00) + (a.x21 * b.x10)) + (a.x22 * b.x20)), (((a.x20 * b.x01) + (a.x21 * b.x11)) + (a.x22 * b.x21)), (((a.x20 * b.x02) + (a.x21 * b.x12)) + (a.x22 * b.x22))⟩

/-- extracted from the C++ template at T = Sym; 1 path(s) -/
def C10.M44.mul {α : Type} [Add α] [Mul α] (a : M44 α) (b : M44 α) : (M44 α) :=
  ⟨((((a.x00 * b.x00) + (a.x01 * b.x10)) + (a.x02 * b.x20)) + (a.x03 * b.x30)), ((((a.x00 * b.x01) + (a.x01 * b.x11)) + (a.x02 * b.x21)) + (a.x03 * b.x31)), ((((a.x00 * b.x02) + (a.x01 * b.x12)) + (a.x02 * b.x22)) + (a.x03 * b.x32)), ((((a.x00 * b.x03) + (a.x01 * b.x13)) + (a.x02 * b.x23)) + (a.x03 * b.x33)), ((((a.x10 * b.x00) + (a.x11 * b.x10)) + (a.x12 * b.x20)) + (a.x13 * b.x30)), ((((a.x10 * b.x01) + (a.x11 * b.x11)) + (a.x12 * b.x21)) + (a.x13 * b.x31)), ((((a.x10 * b.x02) + (a.x11 * b.x12)) + (a.x12 * b.x22)) + (a.x13 * b.x32)), ((((a.x10 * b.x03) + (a.x11 * b.x13)) + (a.x12 * b.x23)) + (a.x13 * b.x33)), ((((a.x20 * b.x00) + (a.x21 * b.x10)) + (a.x22 * b.x20)) + (a.x23 * b.x30)), ((((a.x20 * b.x01) + (a.x21 * b.x11)) + (a.x22 * b.x21)) + (a.x23 * b.x31)), ((((a.x20 * b.x02) + (a.x21 * b.x12)) + (a.x22 * b.x22)) + (a.x23 * b.x32)), ((((a.x20 * b.x03) + (a.x21 * b.x13)) + (a.x22 * b.x23)) + (a.x23 * b.x33)), ((((a.x30 * b.x00) + (a.x31 * b.x10)) + (a.x32 * b.x20)) + (a.x33 * b.x30)), ((((a.x30 * b.x01) + (a.x31 * b.x11)) + (a.x32 * b.x21)) + (a.x33 * b.x31)), ((((a.x30 * b.x02) + (a.x31 * b.x12)) + (a.x32 * b.x22)) + (a.x33 * b.x32)), ((((a.x30 * b.x03) + (a.x31 * b.x13)) + (a.x32 * b.x23)) + (a.x33 * b.x33))⟩

/-- extracted from the C++ template at T = Sym; 1 path(s) -/
def C10.M33.transposed {α : Type} (a : M33 α) : (M33 α) :=
  ⟨a.x00, a.x10, a.x20, a.x01, a.x11, a.x21, a.x02, a.x12, a.x22⟩

/-- extracted from the C++ template at T = Sym; 1 path(s) -/
def C10.M33.determinant {α : Type} [Add α] [Sub α] [Mul α] (a : M33 α) : α :=
  (((a.x00 * ((a.x11 * a.x22) - (a.x12 * a.x21))) + (a.x01 * ((a.x12 * a.x20) - (a.x10 * a.x22)))) + (a.x02 * ((a.x10 * a.x21) - (a.x11 * a.x20))))

/-- extracted from the C++ template at T = Sym; 1 path(s) -/
def C10.Quat.mul {α : Type} [Add α] [Sub α] [Mul α] (a : Quat α) (b : Quat α) : (Quat α) :=
  ⟨((a.r * b.r) - (((a.v.x * b.v.x) + (a.v.y * b.v.y)) + (a.v.z * b.v.z))), ⟨(((a.r * b.v.x) + (a.v.x * b.r)) + ((a.v.y * b.v.z) - (a.v.z * b.v.y))), (((a.r * b.v.y) + (a.v.y * b.r)) + ((a.v.z * b.v.x) - (a.v.x * b.v.z))), (((a.r * b.v.z) + (a.v.z * b.r)) + ((a.v.x * b.v.y) - (a.v.y * b.v.x)))⟩⟩

/-- extracted from the C++ template at T = Sym; 1 path(s) -/
def C10.Quat.conj {α : Type} [Neg α] (q : Quat α) : (Quat α) :=
  ⟨q.r, ⟨(-q.v.x), (-q.v.y), (-q.v.z)⟩⟩

/-- extracted from the C++ template at T = Sym; 1 path(s) -/
def C10.Quat.neg {α : Type} [Neg α] (q : Quat α) : (Quat α) :=
  ⟨(-q.r), ⟨(-q.v.x), (-q.v.y), (-q.v.z)⟩⟩

/-- extracted from the C++ template at T = Sym; 1 path(s) -/
def C10.Quat.inverse {α : Type} [Add α] [Mul α] [Div α] [Neg α] (q : Quat α) : (Quat α) :=
  let t464 := ((q.r * q.r) + (((q.v.x * q.v.x) + (q.v.y * q.v.y)) + (q.v.z * q.v.z)))
  ⟨(q.r / t464), ⟨((-q.v.x) / t464), ((-q.v.y) / t464), ((-q.v.z) / t464)⟩⟩

/-- extracted from the C++ template at T = Sym; 1 path(s) -/
def C10.Quat.invert {α : Type} [Add α] [Mul α] [Div α] [Neg α] (q : Quat α) : (Quat α) :=
  let t464 := ((q.r * q.r) + (((q.v.x * q.v.x) + (q.v.y * q.v.y)) + (q.v.z * q.v.z)))
  ⟨(q.r / t464), ⟨((-q.v.x) / t464), ((-q.v.y) / t464), ((-q.v.z) / t464)⟩⟩

/-- extracted from the C++ template at T = Sym; 1 path(s) -/
def C10.Quat.invertRet {α : Type} [Add α] [Mul α] [Div α] [Neg α] (q : Quat α) : (Quat α) :=
  let t464 := ((q.r * q.r) + (((q.v.x * q.v.x) + (q.v.y * q.v.y)) + (q.v.z * q.v.z)))
  ⟨(q.r / t464), ⟨((-q.v.x) / t464), ((-q.v.y) / t464), ((-q.v.z) / t464)⟩⟩

/-- extracted from the C++ template at T = Sym; 1 path(s) -/
def C10.Quat.div {α : Type} [Add α] [Sub α] [Mul α] [Div α] [Neg α] (a : Quat α) (b : Quat α) : (Quat α) :=
  let t475 := ((b.r * b.r) + (((b.v.x * b.v.x) + (b.v.y * b.v.y)) + (b.v.z * b.v.z)))
  let t479 := ((-b.v.z) / t475)
  let t480 := ((-b.v.y) / t475)
  let t481 := ((-b.v.x) / t475)
  let t482 := (b.r / t475)
  ⟨((a.r * t482) - (((a.v.x * t481) + (a.v.y * t480)) + (a.v.z * t479))), ⟨(((a.r * t481) + (a.v.x * t482)) + ((a.v.y * t479) - (a.v.z * t480))), (((a.r * t480) + (a.v.y * t482)) + ((a.v.z * t481) - (a.v.x * t479))), (((a.r * t479) + (a.v.z * t482)) + ((a.v.x * t480) - (a.v.y * t481)))⟩⟩

/-- extracted from the C++ template at T = Sym; 1 path(s) -/
def C10.Quat.divAssign {α : Type} [Add α] [Sub α] [Mul α] [Div α] [Neg α] (a : Quat α) (b : Quat α) : (Quat α) :=
  let t475 := ((b.r * b.r) + (((b.v.x * b.v.x) + (b.v.y * b.v.y)) + (b.v.z * b.v.z)))
  let t479 := ((-b.v.z) / t475)
  let t480 := ((-b.v.y) / t475)
  let t481 := ((-b.v.x) / t475)
  let t482 := (b.r / t475)
  ⟨((a.r * t482) - (((a.v.x * t481) + (a.v.y * t480)) + (a.v.z * t479))), ⟨(((a.r * t481) + (a.v.x * t482)) + ((a.v.y * t479) - (a.v.z * t480))), (((a.r * t480) + (a.v.y * t482)) + ((a.v.z * t481) - (a.v.x * t479))), (((a.r * t479) + (a.v.z * t482)) + ((a.v.x * t480) - (a.v.y * t481)))⟩⟩

/-- extracted from the C++ template at T = Sym; 1 path(s) -/
def C10.Quat.dot4 {α : Type} [Add α] [Mul α] (a : Quat α) (b : Quat α) : α :=
  ((a.r * b.r) + (((a.v.x * b.v.x) + (a.v.y * b.v.y)) + (a.v.z * b.v.z)))

/-- extracted from the C++ template at T = Sym; 1 path(s) -/
def C10.Quat.length {α : Type} [Add α] [Mul α] (sqrt : α → α) (q : Quat α) : α :=
  (sqrt ((q.r * q.r) + (((q.v.x * q.v.x) + (q.v.y * q.v.y)) + (q.v.z * q.v.z))))

/-- extracted from the C++ template at T = Sym; 2 path(s) -/
def C10.Quat.normalize {α : Type} [Add α] [Mul α] [Div α] [DecidableEq α] [OfNat α 0] [OfNat α 1] (sqrt : α → α) (q : Quat α) : (Quat α) :=
  let t512 := (sqrt ((q.r * q.r) + (((q.v.x * q.v.x) + (q.v.y * q.v.y)) + (q.v.z * q.v.z))))
  if t512 = (0 : α) then
    ⟨(1 : α), ⟨(0 : α), (0 : α), (0 : α)⟩⟩
  else
    ⟨(q.r / t512), ⟨(q.v.x / t512), (q.v.y / t512), (q.v.z / t512)⟩⟩

/-- extracted from the C++ template at T = Sym; 2 path(s) -/
def C10.Quat.normalized {α : Type} [Add α] [Mul α] [Div α] [DecidableEq α] [OfNat α 0] [OfNat α 1] (sqrt : α → α) (q : Quat α) : (Quat α) :=
  let t512 := (sqrt ((q.r * q.r) + (((q.v.x * q.v.x) + (q.v.y * q.v.y)) + (q.v.z * q.v.z))))
  if t512 = (0 : α) then
    ⟨(1 : α), ⟨(0 : α), (0 : α), (0 : α)⟩⟩
  else
    ⟨(q.r / t512), ⟨(q.v.x / t512), (q.v.y / t512), (q.v.z / t512)⟩⟩

/-- extracted from the C++ template at T = Sym; 4 path(s) -/
def C10.Quat.log {α : Type} [Mul α] [Div α] [Neg α] [LT α] [LE α] [DecidableLT α] [DecidableLE α] [DecidableEq α] [OfNat α 0] [OfNat α 1] (tmax : α) (sin : α → α) (acos : α → α) (q : Quat α) : (Quat α) :=
  let t518 := (acos (smin q.r (1 : α)))
  let t519 := (sin t518)
  let t520 := (sabs t519)
  let t522 := (tmax * t520)
  let t523 := (sabs t518)
  let t527 := (t518 / t519)
  let t528 := (q.v.z * t527)
  let t529 := (q.v.y * t527)
  let t530 := (q.v.x * t527)
  if t518 = (0 : α) then
    ⟨(0 : α), ⟨q.v.x, q.v.y, q.v.z⟩⟩
  else
    if t520 < (1 : α) then
      if t522 ≤ t523 then
        ⟨(0 : α), ⟨(q.v.x * (1 : α)), (q.v.y * (1 : α)), (q.v.z * (1 : α))⟩⟩
      else
        ⟨(0 : α), ⟨t530, t529, t528⟩⟩
    else
      ⟨(0 : α), ⟨t530, t529, t528⟩⟩

/-- extracted from the C++ template at T = Sym; 3 path(s) -/
def C10.Quat.exp {α : Type} [Add α] [Mul α] [Div α] [Neg α] [LT α] [LE α] [DecidableLT α] [DecidableLE α] [DecidableEq α] [OfNat α 0] [OfNat α 1] [OfNat α 2] (tmin : α) (tmax : α) (sqrt : α → α) (sin : α → α) (cos : α → α) (q : Quat α) : (Quat α) :=
  let t531 := (V3.length tmin sqrt ⟨q.v.x, q.v.y, q.v.z⟩)
  let t532 := (sin t531)
  let t533 := (sabs t531)
  let t534 := (tmax * t533)
  let t535 := (sabs t532)
  let t536 := (cos t531)
  let t537 := (t532 / t531)
  let t538 := (q.v.z * t537)
  let t539 := (q.v.y * t537)
  let t540 := (q.v.x * t537)
  if t533 < (1 : α) then
    if t534 ≤ t535 then
      ⟨t536, ⟨(q.v.x * (1 : α)), (q.v.y * (1 : α)), (q.v.z * (1 : α))⟩⟩
    else
      ⟨t536, ⟨t540, t539, t538⟩⟩
  else
    ⟨t536, ⟨t540, t539, t538⟩⟩

/-- extracted from the C++ template at T = Sym; 1 path(s) -/
def C10.Quat.angle {α : Type} [Add α] [Mul α] [Div α] [Neg α] [LT α] [LE α] [DecidableLT α] [DecidableLE α] [DecidableEq α] [OfNat α 0] [OfNat α 2] (tmin : α) (sqrt : α → α) (atan2 : α → α → α) (q : Quat α) : α :=
  ((2 : α) * (atan2 (V3.length tmin sqrt ⟨q.v.x, q.v.y, q.v.z⟩) q.r))

/-- extracted from the C++ template at T = Sym; 2 path(s) -/
def C10.Quat.axis {α : Type} [Add α] [Mul α] [Div α] [Neg α] [LT α] [LE α] [DecidableLT α] [DecidableLE α] [DecidableEq α] [OfNat α 0] [OfNat α 2] (tmin : α) (sqrt : α → α) (q : Quat α) : (V3 α) :=
  let t531 := (V3.length tmin sqrt ⟨q.v.x, q.v.y, q.v.z⟩)
  if t531 = (0 : α) then
    ⟨(0 : α), (0 : α), (0 : α)⟩
  else
    ⟨(q.v.x / t531), (q.v.y / t531), (q.v.z / t531)⟩

/-- extracted from the C++ template at T = Sym; 2 path(s) -/
def C10.Quat.setAxisAngle {α : Type} [Add α] [Mul α] [Div α] [Neg α] [LT α] [LE α] [DecidableLT α] [DecidableLE α] [DecidableEq α] [OfNat α 0] [OfNat α 2] (tmin : α) (sqrt : α → α) (sin : α → α) (cos : α → α) (q : Quat α) (axis : V3 α) (radians : α) : (Quat α) :=
  let t550 := (radians / (2 : α))
  let t551 := (cos t550)
  let t552 := (sin t550)
  let t553 := (V3.length tmin sqrt ⟨axis.x, axis.y, axis.z⟩)
  let t554 := ((0 : α) * t552)
  if t553 = (0 : α) then
    ⟨t551, ⟨t554, t554, t554⟩⟩
  else
    ⟨t551, ⟨((axis.x / t553) * t552), ((axis.y / t553) * t552), ((axis.z / t553) * t552)⟩⟩

/-- extracted from the C++ template at T = Sym; 115 path(s) -/
def C10.Quat.setRotation {α : Type} [Add α] [Sub α] [Mul α] [Div α] [Neg α] [LT α] [LE α] [DecidableLT α] [DecidableLE α] [DecidableEq α] [OfNat α 0] [OfNat α 1] [OfNat α 2] [OfNat α 8] (tmin : α) (teps : α) (sqrt : α → α) (q : Quat α) (vfrom : V3 α) (vto : V3 α) : (Quat α) :=
  let t567 := (V3.length tmin sqrt ⟨vfrom.x, vfrom.y, vfrom.z⟩)
  let t568 := (V3.length tmin sqrt ⟨vto.x, vto.y, vto.z⟩)
  let t569 := ((0 : α) * (0 : α))
  let t571 := ((t569 + t569) + t569)
  let t572 := ((0 : α) + (0 : α))
  let t573 := (V3.length tmin sqrt ⟨t572, t572, t572⟩)
  let t574 := (t569 - t569)
  let t575 := (t572 / t573)
  let t576 := ((0 : α) * t575)
  let t578 := ((t576 + t576) + t576)
  let t579 := (t576 - t576)
  let t582 := ((8 : α) * teps)
  let t583 := (t582 * t582)
  let t584 := (t572 * t572)
  let t586 := ((t584 + t584) + t584)
  let t587 := (t574 * t574)
  let t591 := ((t571 * t571) - ((t587 + t587) + t587))
  let t596 := (((t571 * t574) + (t574 * t571)) + (t587 - t587))
  let t597 := (t575 * t575)
  let t599 := ((t597 + t597) + t597)
  let t600 := ((0 : α) * (1 : α))
  let t601 := (t569 - t600)
  let t602 := (t600 - t569)
  let t603 := (V3.length tmin sqrt ⟨t574, t602, t601⟩)
  let t604 := (t601 / t603)
  let t605 := (t602 / t603)
  let t606 := (t574 / t603)
  let t607 := ((0 : α) + t575)
  let t608 := (V3.length tmin sqrt ⟨t607, t607, t607⟩)
  let t609 := (t575 + (0 : α))
  let t610 := (V3.length tmin sqrt ⟨t609, t609, t609⟩)
  let t611 := (t575 * (0 : α))
  let t613 := ((t611 + t611) + t611)
  let t614 := (t611 - t611)
  let t615 := (t574 * t614)
  let t624 := (((t571 * t614) + (t574 * t613)) + (t615 - t615))
  let t626 := (t575 * (t609 / t610))
  let t628 := ((t626 + t626) + t626)
  let t629 := (t626 - t626)
  let t630 := (t574 * t629)
  let t639 := (((t571 * t629) + (t574 * t628)) + (t630 - t630))
  let t641 := ((0 : α) * (t607 / t608))
  let t643 := ((t641 + t641) + t641)
  let t644 := (t641 - t641)
  let t645 := (t644 * t614)
  let t654 := (((t643 * t614) + (t644 * t613)) + (t645 - t645))
  let t655 := (t644 * t629)
  let t664 := (((t643 * t629) + (t644 * t628)) + (t655 - t655))
  let t665 := (t579 * t579)
  let t674 := (((t578 * t579) + (t579 * t578)) + (t665 - t665))
  let t675 := (vto.z / t568)
  let t676 := (vto.y / t568)
  let t677 := (vto.x / t568)
  let t682 := ((((0 : α) * t677) + ((0 : α) * t676)) + ((0 : α) * t675))
  let t683 := ((0 : α) + t675)
  let t684 := ((0 : α) + t676)
  let t685 := ((0 : α) + t677)
  let t686 := (V3.length tmin sqrt ⟨t685, t684, t683⟩)
  let t687 := (t683 / t686)
  let t688 := (t684 / t686)
  let t689 := (t685 / t686)
  let t690 := ((0 : α) * t687)
  let t691 := ((0 : α) * t688)
  let t692 := ((0 : α) * t689)
  let t694 := ((t692 + t691) + t690)
  let t695 := (t691 - t692)
  let t696 := (t692 - t690)
  let t697 := (t690 - t691)
  let t702 := (((t685 * t685) + (t684 * t684)) + (t683 * t683))
  let t703 := (t579 * t574)
  let t707 := ((t578 * t571) - ((t703 + t703) + t703))
  let t712 := (((t578 * t574) + (t579 * t571)) + (t703 - t703))
  let t717 := (((t689 * t689) + (t688 * t688)) + (t687 * t687))
  let t718 := ((0 : α) + t687)
  let t719 := ((0 : α) + t688)
  let t720 := ((0 : α) + t689)
  let t721 := (V3.length tmin sqrt ⟨t720, t719, t718⟩)
  let t722 := (t687 + t675)
  let t723 := (t688 + t676)
  let t724 := (t689 + t677)
  let t725 := (V3.length tmin sqrt ⟨t724, t723, t722⟩)
  let t726 := (t687 * (0 : α))
  let t727 := (t688 * (0 : α))
  let t728 := (t689 * (0 : α))
  let t730 := ((t728 + t727) + t726)
  let t731 := (t728 - t727)
  let t732 := (t726 - t728)
  let t733 := (t727 - t726)
  let t734 := (t574 * t731)
  let t735 := (t574 * t732)
  let t736 := (t574 * t733)
  let t744 := (t574 * t730)
  let t754 := (t722 / t725)
  let t755 := (t723 / t725)
  let t756 := (t724 / t725)
  let t761 := (((t689 * t756) + (t688 * t755)) + (t687 * t754))
  let t764 := ((t689 * t755) - (t688 * t756))
  let t767 := ((t687 * t756) - (t689 * t754))
  let t770 := ((t688 * t754) - (t687 * t755))
  let t771 := (t574 * t764)
  let t772 := (t574 * t767)
  let t773 := (t574 * t770)
  let t781 := (t574 * t761)
  let t794 := ((0 : α) * (t718 / t721))
  let t795 := ((0 : α) * (t719 / t721))
  let t796 := ((0 : α) * (t720 / t721))
  let t798 := ((t796 + t795) + t794)
  let t799 := (t795 - t796)
  let t800 := (t796 - t794)
  let t801 := (t794 - t795)
  let t858 := (t574 * t695)
  let t859 := (t574 * t696)
  let t860 := (t574 * t697)
  let t868 := (t574 * t694)
  let t878 := (t579 * t695)
  let t879 := (t579 * t696)
  let t880 := (t579 * t697)
  let t888 := (t579 * t694)
  let t898 := (vfrom.z / t567)
  let t899 := (vfrom.y / t567)
  let t900 := (vfrom.x / t567)
  let t901 := (t898 * (0 : α))
  let t902 := (t899 * (0 : α))
  let t903 := (t900 * (0 : α))
  let t905 := ((t903 + t902) + t901)
  let t906 := (t898 + (0 : α))
  let t907 := (t899 + (0 : α))
  let t908 := (t900 + (0 : α))
  let t909 := (V3.length tmin sqrt ⟨t908, t907, t906⟩)
  let t910 := (t903 - t902)
  let t911 := (t901 - t903)
  let t912 := (t902 - t901)
  let t913 := (t906 / t909)
  let t914 := (t907 / t909)
  let t915 := (t908 / t909)
  let t920 := (((t900 * t915) + (t899 * t914)) + (t898 * t913))
  let t923 := ((t900 * t914) - (t899 * t915))
  let t926 := ((t898 * t915) - (t900 * t913))
  let t929 := ((t899 * t913) - (t898 * t914))
  let t934 := (((t908 * t908) + (t907 * t907)) + (t906 * t906))
  let t935 := (t898 * t898)
  let t936 := (t899 * t899)
  let t937 := (t900 * t900)
  let t938 := (t899 * (1 : α))
  let t939 := (t903 - t938)
  let t940 := (t898 * (1 : α))
  let t941 := (t940 - t903)
  let t942 := (V3.length tmin sqrt ⟨t912, t941, t939⟩)
  let t943 := (t939 / t942)
  let t944 := (t941 / t942)
  let t945 := (t912 / t942)
  let t946 := (t900 * (1 : α))
  let t947 := (t946 - t902)
  let t948 := (t902 - t940)
  let t949 := (V3.length tmin sqrt ⟨t948, t911, t947⟩)
  let t950 := (t947 / t949)
  let t951 := (t911 / t949)
  let t952 := (t948 / t949)
  let t953 := (t901 - t946)
  let t954 := (t938 - t901)
  let t955 := (V3.length tmin sqrt ⟨t954, t953, t910⟩)
  let t956 := (t910 / t955)
  let t957 := (t953 / t955)
  let t958 := (t954 / t955)
  let t959 := (t910 * t574)
  let t960 := (t911 * t574)
  let t961 := (t912 * t574)
  let t965 := ((t905 * t571) - ((t961 + t960) + t959))
  let t972 := (t905 * t574)
  let t976 := ((t972 + (t910 * t571)) + (t961 - t960))
  let t977 := ((t972 + (t911 * t571)) + (t959 - t961))
  let t978 := ((t972 + (t912 * t571)) + (t960 - t959))
  let t979 := (t910 * t579)
  let t980 := (t911 * t579)
  let t981 := (t912 * t579)
  let t985 := ((t905 * t578) - ((t981 + t980) + t979))
  let t992 := (t905 * t579)
  let t996 := ((t992 + (t910 * t578)) + (t981 - t980))
  let t997 := ((t992 + (t911 * t578)) + (t979 - t981))
  let t998 := ((t992 + (t912 * t578)) + (t980 - t979))
  let t1003 := (((t915 * t915) + (t914 * t914)) + (t913 * t913))
  let t1004 := (t898 + t913)
  let t1005 := (t899 + t914)
  let t1006 := (t900 + t915)
  let t1007 := (V3.length tmin sqrt ⟨t1006, t1005, t1004⟩)
  let t1008 := (t913 + (0 : α))
  let t1009 := (t914 + (0 : α))
  let t1010 := (t915 + (0 : α))
  let t1011 := (V3.length tmin sqrt ⟨t1010, t1009, t1008⟩)
  let t1012 := (t913 * (0 : α))
  let t1013 := (t914 * (0 : α))
  let t1014 := (t915 * (0 : α))
  let t1016 := ((t1014 + t1013) + t1012)
  let t1017 := (t1014 - t1013)
  let t1018 := (t1012 - t1014)
  let t1019 := (t1013 - t1012)
  let t1048 := (t1008 / t1011)
  let t1049 := (t1009 / t1011)
  let t1050 := (t1010 / t1011)
  let t1055 := (((t915 * t1050) + (t914 * t1049)) + (t913 * t1048))
  let t1058 := ((t915 * t1049) - (t914 * t1050))
  let t1061 := ((t913 * t1050) - (t915 * t1048))
  let t1064 := ((t914 * t1048) - (t913 * t1049))
  let t1093 := (t1004 / t1007)
  let t1094 := (t1005 / t1007)
  let t1095 := (t1006 / t1007)
  let t1100 := (((t900 * t1095) + (t899 * t1094)) + (t898 * t1093))
  let t1103 := ((t900 * t1094) - (t899 * t1095))
  let t1106 := ((t898 * t1095) - (t900 * t1093))
  let t1109 := ((t899 * t1093) - (t898 * t1094))
  let t1166 := (t923 * t574)
  let t1167 := (t926 * t574)
  let t1168 := (t929 * t574)
  let t1172 := ((t920 * t571) - ((t1168 + t1167) + t1166))
  let t1179 := (t920 * t574)
  let t1183 := ((t1179 + (t923 * t571)) + (t1168 - t1167))
  let t1184 := ((t1179 + (t926 * t571)) + (t1166 - t1168))
  let t1185 := ((t1179 + (t929 * t571)) + (t1167 - t1166))
  let t1186 := (t923 * t579)
  let t1187 := (t926 * t579)
  let t1188 := (t929 * t579)
  let t1199 := (t920 * t579)
  let t1210 := (((t900 * t677) + (t899 * t676)) + (t898 * t675))
  let t1211 := (t898 + t675)
  let t1212 := (t899 + t676)
  let t1213 := (t900 + t677)
  let t1214 := (V3.length tmin sqrt ⟨t1213, t1212, t1211⟩)
  let t1215 := (t1211 / t1214)
  let t1216 := (t1212 / t1214)
  let t1217 := (t1213 / t1214)
  let t1236 := (((t1213 * t1213) + (t1212 * t1212)) + (t1211 * t1211))
  let t1243 := ((t905 * t694) - (((t912 * t697) + (t911 * t696)) + (t910 * t695)))
  let t1262 := (((t905 * t695) + (t910 * t694)) + ((t912 * t696) - (t911 * t697)))
  let t1263 := (((t905 * t696) + (t911 * t694)) + ((t910 * t697) - (t912 * t695)))
  let t1264 := (((t905 * t697) + (t912 * t694)) + ((t911 * t695) - (t910 * t696)))
  let t1271 := ((t920 * t694) - (((t929 * t697) + (t926 * t696)) + (t923 * t695)))
  let t1290 := (((t920 * t695) + (t923 * t694)) + ((t929 * t696) - (t926 * t697)))
  let t1291 := (((t920 * t696) + (t926 * t694)) + ((t923 * t697) - (t929 * t695)))
  let t1292 := (((t920 * t697) + (t929 * t694)) + ((t926 * t695) - (t923 * t696)))
  let t1297 := (((t1217 * t1217) + (t1216 * t1216)) + (t1215 * t1215))
  let t1298 := (t898 + t1215)
  let t1299 := (t899 + t1216)
  let t1300 := (t900 + t1217)
  let t1301 := (V3.length tmin sqrt ⟨t1300, t1299, t1298⟩)
  let t1302 := (t1215 + t675)
  let t1303 := (t1216 + t676)
  let t1304 := (t1217 + t677)
  let t1305 := (V3.length tmin sqrt ⟨t1304, t1303, t1302⟩)
  let t1306 := (t1215 * (0 : α))
  let t1307 := (t1216 * (0 : α))
  let t1308 := (t1217 * (0 : α))
  let t1310 := ((t1308 + t1307) + t1306)
  let t1311 := (t1308 - t1307)
  let t1312 := (t1306 - t1308)
  let t1313 := (t1307 - t1306)
  let t1342 := (t1302 / t1305)
  let t1343 := (t1303 / t1305)
  let t1344 := (t1304 / t1305)
  let t1349 := (((t1217 * t1344) + (t1216 * t1343)) + (t1215 * t1342))
  let t1352 := ((t1217 * t1343) - (t1216 * t1344))
  let t1355 := ((t1215 * t1344) - (t1217 * t1342))
  let t1358 := ((t1216 * t1342) - (t1215 * t1343))
  let t1387 := (t1298 / t1301)
  let t1388 := (t1299 / t1301)
  let t1389 := (t1300 / t1301)
  let t1394 := (((t900 * t1389) + (t899 * t1388)) + (t898 * t1387))
  let t1397 := ((t900 * t1388) - (t899 * t1389))
  let t1400 := ((t898 * t1389) - (t900 * t1387))
  let t1403 := ((t899 * t1387) - (t898 * t1388))
  if t567 = (0 : α) then
    if t568 = (0 : α) then
      if (0 : α) ≤ t571 then
        if t573 = (0 : α) then
          ⟨t571, ⟨t574, t574, t574⟩⟩
        else
          ⟨t578, ⟨t579, t579, t579⟩⟩
      else
        if t583 < t586 then
          if t573 = (0 : α) then
            ⟨t591, ⟨t596, t596, t596⟩⟩
          else
            if t599 = (0 : α) then
              if t603 = (0 : α) then
                ⟨(0 : α), ⟨(0 : α), (0 : α), (0 : α)⟩⟩
              else
                ⟨(0 : α), ⟨t606, t605, t604⟩⟩
            else
              if t608 = (0 : α) then
                if t610 = (0 : α) then
                  ⟨((t571 * t613) - ((t615 + t615) + t615)), ⟨t624, t624, t624⟩⟩
                else
                  ⟨((t571 * t628) - ((t630 + t630) + t630)), ⟨t639, t639, t639⟩⟩
              else
                if t610 = (0 : α) then
                  ⟨((t643 * t613) - ((t645 + t645) + t645)), ⟨t654, t654, t654⟩⟩
                else
                  ⟨((t643 * t628) - ((t655 + t655) + t655)), ⟨t664, t664, t664⟩⟩
        else
          if t573 = (0 : α) then
            ⟨t591, ⟨t596, t596, t596⟩⟩
          else
            ⟨((t578 * t578) - ((t665 + t665) + t665)), ⟨t674, t674, t674⟩⟩
    else
      if (0 : α) ≤ t682 then
        if t686 = (0 : α) then
          ⟨t571, ⟨t574, t574, t574⟩⟩
        else
          ⟨t694, ⟨t697, t696, t695⟩⟩
      else
        if t583 < t702 then
          if t686 = (0 : α) then
            if t571 = (0 : α) then
              if t603 = (0 : α) then
                ⟨(0 : α), ⟨(0 : α), (0 : α), (0 : α)⟩⟩
              else
                ⟨(0 : α), ⟨t606, t605, t604⟩⟩
            else
              if t573 = (0 : α) then
                ⟨t591, ⟨t596, t596, t596⟩⟩
              else
                ⟨t707, ⟨t712, t712, t712⟩⟩
          else
            if t717 = (0 : α) then
              if t603 = (0 : α) then
                ⟨(0 : α), ⟨(0 : α), (0 : α), (0 : α)⟩⟩
              else
                ⟨(0 : α), ⟨t606, t605, t604⟩⟩
            else
              if t721 = (0 : α) then
                if t725 = (0 : α) then
                  ⟨((t571 * t730) - ((t736 + t735) + t734)), ⟨(((t571 * t733) + t744) + (t734 - t735)), (((t571 * t732) + t744) + (t736 - t734)), (((t571 * t731) + t744) + (t735 - t736))⟩⟩
                else
                  ⟨((t571 * t761) - ((t773 + t772) + t771)), ⟨(((t571 * t770) + t781) + (t771 - t772)), (((t571 * t767) + t781) + (t773 - t771)), (((t571 * t764) + t781) + (t772 - t773))⟩⟩
              else
                if t725 = (0 : α) then
                  ⟨((t798 * t730) - (((t801 * t733) + (t800 * t732)) + (t799 * t731))), ⟨(((t798 * t733) + (t801 * t730)) + ((t800 * t731) - (t799 * t732))), (((t798 * t732) + (t800 * t730)) + ((t799 * t733) - (t801 * t731))), (((t798 * t731) + (t799 * t730)) + ((t801 * t732) - (t800 * t733)))⟩⟩
                else
                  ⟨((t798 * t761) - (((t801 * t770) + (t800 * t767)) + (t799 * t764))), ⟨(((t798 * t770) + (t801 * t761)) + ((t800 * t764) - (t799 * t767))), (((t798 * t767) + (t800 * t761)) + ((t799 * t770) - (t801 * t764))), (((t798 * t764) + (t799 * t761)) + ((t801 * t767) - (t800 * t770)))⟩⟩
        else
          if t571 = (0 : α) then
            if t603 = (0 : α) then
              ⟨(0 : α), ⟨(0 : α), (0 : α), (0 : α)⟩⟩
            else
              ⟨(0 : α), ⟨t606, t605, t604⟩⟩
          else
            if t573 = (0 : α) then
              if t686 = (0 : α) then
                ⟨t591, ⟨t596, t596, t596⟩⟩
              else
                ⟨((t571 * t694) - ((t860 + t859) + t858)), ⟨(((t571 * t697) + t868) + (t858 - t859)), (((t571 * t696) + t868) + (t860 - t858)), (((t571 * t695) + t868) + (t859 - t860))⟩⟩
            else
              if t686 = (0 : α) then
                ⟨t707, ⟨t712, t712, t712⟩⟩
              else
                ⟨((t578 * t694) - ((t880 + t879) + t878)), ⟨(((t578 * t697) + t888) + (t878 - t879)), (((t578 * t696) + t888) + (t880 - t878)), (((t578 * t695) + t888) + (t879 - t880))⟩⟩
  else
    if t568 = (0 : α) then
      if (0 : α) ≤ t905 then
        if t909 = (0 : α) then
          ⟨t905, ⟨t912, t911, t910⟩⟩
        else
          ⟨t920, ⟨t929, t926, t923⟩⟩
      else
        if t583 < t934 then
          if t909 = (0 : α) then
            if t571 = (0 : α) then
              if t937 ≤ t936 then
                if t937 ≤ t935 then
                  if t942 = (0 : α) then
                    ⟨(0 : α), ⟨(0 : α), (0 : α), (0 : α)⟩⟩
                  else
                    ⟨(0 : α), ⟨t945, t944, t943⟩⟩
                else
                  if t936 ≤ t935 then
                    if t949 = (0 : α) then
                      ⟨(0 : α), ⟨(0 : α), (0 : α), (0 : α)⟩⟩
                    else
                      ⟨(0 : α), ⟨t952, t951, t950⟩⟩
                  else
                    if t955 = (0 : α) then
                      ⟨(0 : α), ⟨(0 : α), (0 : α), (0 : α)⟩⟩
                    else
                      ⟨(0 : α), ⟨t958, t957, t956⟩⟩
              else
                if t936 ≤ t935 then
                  if t949 = (0 : α) then
                    ⟨(0 : α), ⟨(0 : α), (0 : α), (0 : α)⟩⟩
                  else
                    ⟨(0 : α), ⟨t952, t951, t950⟩⟩
                else
                  if t955 = (0 : α) then
                    ⟨(0 : α), ⟨(0 : α), (0 : α), (0 : α)⟩⟩
                  else
                    ⟨(0 : α), ⟨t958, t957, t956⟩⟩
            else
              if t573 = (0 : α) then
                ⟨t965, ⟨t978, t977, t976⟩⟩
              else
                ⟨t985, ⟨t998, t997, t996⟩⟩
          else
            if t1003 = (0 : α) then
              if t937 ≤ t936 then
                if t937 ≤ t935 then
                  if t942 = (0 : α) then
                    ⟨(0 : α), ⟨(0 : α), (0 : α), (0 : α)⟩⟩
                  else
                    ⟨(0 : α), ⟨t945, t944, t943⟩⟩
                else
                  if t936 ≤ t935 then
                    if t949 = (0 : α) then
                      ⟨(0 : α), ⟨(0 : α), (0 : α), (0 : α)⟩⟩
                    else
                      ⟨(0 : α), ⟨t952, t951, t950⟩⟩
                  else
                    if t955 = (0 : α) then
                      ⟨(0 : α), ⟨(0 : α), (0 : α), (0 : α)⟩⟩
                    else
                      ⟨(0 : α), ⟨t958, t957, t956⟩⟩
              else
                if t936 ≤ t935 then
                  if t949 = (0 : α) then
                    ⟨(0 : α), ⟨(0 : α), (0 : α), (0 : α)⟩⟩
                  else
                    ⟨(0 : α), ⟨t952, t951, t950⟩⟩
                else
                  if t955 = (0 : α) then
                    ⟨(0 : α), ⟨(0 : α), (0 : α), (0 : α)⟩⟩
                  else
                    ⟨(0 : α), ⟨t958, t957, t956⟩⟩
            else
              if t1007 = (0 : α) then
                if t1011 = (0 : α) then
                  ⟨((t905 * t1016) - (((t912 * t1019) + (t911 * t1018)) + (t910 * t1017))), ⟨(((t905 * t1019) + (t912 * t1016)) + ((t911 * t1017) - (t910 * t1018))), (((t905 * t1018) + (t911 * t1016)) + ((t910 * t1019) - (t912 * t1017))), (((t905 * t1017) + (t910 * t1016)) + ((t912 * t1018) - (t911 * t1019)))⟩⟩
                else
                  ⟨((t905 * t1055) - (((t912 * t1064) + (t911 * t1061)) + (t910 * t1058))), ⟨(((t905 * t1064) + (t912 * t1055)) + ((t911 * t1058) - (t910 * t1061))), (((t905 * t1061) + (t911 * t1055)) + ((t910 * t1064) - (t912 * t1058))), (((t905 * t1058) + (t910 * t1055)) + ((t912 * t1061) - (t911 * t1064)))⟩⟩
              else
                if t1011 = (0 : α) then
                  ⟨((t1100 * t1016) - (((t1109 * t1019) + (t1106 * t1018)) + (t1103 * t1017))), ⟨(((t1100 * t1019) + (t1109 * t1016)) + ((t1106 * t1017) - (t1103 * t1018))), (((t1100 * t1018) + (t1106 * t1016)) + ((t1103 * t1019) - (t1109 * t1017))), (((t1100 * t1017) + (t1103 * t1016)) + ((t1109 * t1018) - (t1106 * t1019)))⟩⟩
                else
                  ⟨((t1100 * t1055) - (((t1109 * t1064) + (t1106 * t1061)) + (t1103 * t1058))), ⟨(((t1100 * t1064) + (t1109 * t1055)) + ((t1106 * t1058) - (t1103 * t1061))), (((t1100 * t1061) + (t1106 * t1055)) + ((t1103 * t1064) - (t1109 * t1058))), (((t1100 * t1058) + (t1103 * t1055)) + ((t1109 * t1061) - (t1106 * t1064)))⟩⟩
        else
          if t571 = (0 : α) then
            if t937 ≤ t936 then
              if t937 ≤ t935 then
                if t942 = (0 : α) then
                  ⟨(0 : α), ⟨(0 : α), (0 : α), (0 : α)⟩⟩
                else
                  ⟨(0 : α), ⟨t945, t944, t943⟩⟩
              else
                if t936 ≤ t935 then
                  if t949 = (0 : α) then
                    ⟨(0 : α), ⟨(0 : α), (0 : α), (0 : α)⟩⟩
                  else
                    ⟨(0 : α), ⟨t952, t951, t950⟩⟩
                else
                  if t955 = (0 : α) then
                    ⟨(0 : α), ⟨(0 : α), (0 : α), (0 : α)⟩⟩
                  else
                    ⟨(0 : α), ⟨t958, t957, t956⟩⟩
            else
              if t936 ≤ t935 then
                if t949 = (0 : α) then
                  ⟨(0 : α), ⟨(0 : α), (0 : α), (0 : α)⟩⟩
                else
                  ⟨(0 : α), ⟨t952, t951, t950⟩⟩
              else
                if t955 = (0 : α) then
                  ⟨(0 : α), ⟨(0 : α), (0 : α), (0 : α)⟩⟩
                else
                  ⟨(0 : α), ⟨t958, t957, t956⟩⟩
          else
            if t909 = (0 : α) then
              if t573 = (0 : α) then
                ⟨t965, ⟨t978, t977, t976⟩⟩
              else
                ⟨t985, ⟨t998, t997, t996⟩⟩
            else
              if t573 = (0 : α) then
                ⟨t1172, ⟨t1185, t1184, t1183⟩⟩
              else
                ⟨((t920 * t578) - ((t1188 + t1187) + t1186)), ⟨((t1199 + (t929 * t578)) + (t1187 - t1186)), ((t1199 + (t926 * t578)) + (t1186 - t1188)), ((t1199 + (t923 * t578)) + (t1188 - t1187))⟩⟩
    else
      if (0 : α) ≤ t1210 then
        if t1214 = (0 : α) then
          ⟨t905, ⟨t912, t911, t910⟩⟩
        else
          ⟨(((t900 * t1217) + (t899 * t1216)) + (t898 * t1215)), ⟨((t899 * t1215) - (t898 * t1216)), ((t898 * t1217) - (t900 * t1215)), ((t900 * t1216) - (t899 * t1217))⟩⟩
      else
        if t583 < t1236 then
          if t1214 = (0 : α) then
            if t571 = (0 : α) then
              if t937 ≤ t936 then
                if t937 ≤ t935 then
                  if t942 = (0 : α) then
                    ⟨(0 : α), ⟨(0 : α), (0 : α), (0 : α)⟩⟩
                  else
                    ⟨(0 : α), ⟨t945, t944, t943⟩⟩
                else
                  if t936 ≤ t935 then
                    if t949 = (0 : α) then
                      ⟨(0 : α), ⟨(0 : α), (0 : α), (0 : α)⟩⟩
                    else
                      ⟨(0 : α), ⟨t952, t951, t950⟩⟩
                  else
                    if t955 = (0 : α) then
                      ⟨(0 : α), ⟨(0 : α), (0 : α), (0 : α)⟩⟩
                    else
                      ⟨(0 : α), ⟨t958, t957, t956⟩⟩
              else
                if t936 ≤ t935 then
                  if t949 = (0 : α) then
                    ⟨(0 : α), ⟨(0 : α), (0 : α), (0 : α)⟩⟩
                  else
                    ⟨(0 : α), ⟨t952, t951, t950⟩⟩
                else
                  if t955 = (0 : α) then
                    ⟨(0 : α), ⟨(0 : α), (0 : α), (0 : α)⟩⟩
                  else
                    ⟨(0 : α), ⟨t958, t957, t956⟩⟩
            else
              if t909 = (0 : α) then
                if t686 = (0 : α) then
                  ⟨t965, ⟨t978, t977, t976⟩⟩
                else
                  ⟨t1243, ⟨t1264, t1263, t1262⟩⟩
              else
                if t686 = (0 : α) then
                  ⟨t1172, ⟨t1185, t1184, t1183⟩⟩
                else
                  ⟨t1271, ⟨t1292, t1291, t1290⟩⟩
          else
            if t1297 = (0 : α) then
              if t937 ≤ t936 then
                if t937 ≤ t935 then
                  if t942 = (0 : α) then
                    ⟨(0 : α), ⟨(0 : α), (0 : α), (0 : α)⟩⟩
                  else
                    ⟨(0 : α), ⟨t945, t944, t943⟩⟩
                else
                  if t936 ≤ t935 then
                    if t949 = (0 : α) then
                      ⟨(0 : α), ⟨(0 : α), (0 : α), (0 : α)⟩⟩
                    else
                      ⟨(0 : α), ⟨t952, t951, t950⟩⟩
                  else
                    if t955 = (0 : α) then
                      ⟨(0 : α), ⟨(0 : α), (0 : α), (0 : α)⟩⟩
                    else
                      ⟨(0 : α), ⟨t958, t957, t956⟩⟩
              else
                if t936 ≤ t935 then
                  if t949 = (0 : α) then
                    ⟨(0 : α), ⟨(0 : α), (0 : α), (0 : α)⟩⟩
                  else
                    ⟨(0 : α), ⟨t952, t951, t950⟩⟩
                else
                  if t955 = (0 : α) then
                    ⟨(0 : α), ⟨(0 : α), (0 : α), (0 : α)⟩⟩
                  else
                    ⟨(0 : α), ⟨t958, t957, t956⟩⟩
            else
              if t1301 = (0 : α) then
                if t1305 = (0 : α) then
                  ⟨((t905 * t1310) - (((t912 * t1313) + (t911 * t1312)) + (t910 * t1311))), ⟨(((t905 * t1313) + (t912 * t1310)) + ((t911 * t1311) - (t910 * t1312))), (((t905 * t1312) + (t911 * t1310)) + ((t910 * t1313) - (t912 * t1311))), (((t905 * t1311) + (t910 * t1310)) + ((t912 * t1312) - (t911 * t1313)))⟩⟩
                else
                  ⟨((t905 * t1349) - (((t912 * t1358) + (t911 * t1355)) + (t910 * t1352))), ⟨(((t905 * t1358) + (t912 * t1349)) + ((t911 * t1352) - (t910 * t1355))), (((t905 * t1355) + (t911 * t1349)) + ((t910 * t1358) - (t912 * t1352))), (((t905 * t1352) + (t910 * t1349)) + ((t912 * t1355) - (t911 * t1358)))⟩⟩
              else
                if t1305 = (0 : α) then
                  ⟨((t1394 * t1310) - (((t1403 * t1313) + (t1400 * t1312)) + (t1397 * t1311))), ⟨(((t1394 * t1313) + (t1403 * t1310)) + ((t1400 * t1311) - (t1397 * t1312))), (((t1394 * t1312) + (t1400 * t1310)) + ((t1397 * t1313) - (t1403 * t1311))), (((t1394 * t1311) + (t1397 * t1310)) + ((t1403 * t1312) - (t1400 * t1313)))⟩⟩
                else
                  ⟨((t1394 * t1349) - (((t1403 * t1358) + (t1400 * t1355)) + (t1397 * t1352))), ⟨(((t1394 * t1358) + (t1403 * t1349)) + ((t1400 * t1352) - (t1397 * t1355))), (((t1394 * t1355) + (t1400 * t1349)) + ((t1397 * t1358) - (t1403 * t1352))), (((t1394 * t1352) + (t1397 * t1349)) + ((t1403 * t1355) - (t1400 * t1358)))⟩⟩
        else
          if t571 = (0 : α) then
            if t937 ≤ t936 then
              if t937 ≤ t935 then
                if t942 = (0 : α) then
                  ⟨(0 : α), ⟨(0 : α), (0 : α), (0 : α)⟩⟩
                else
                  ⟨(0 : α), ⟨t945, t944, t943⟩⟩
              else
                if t936 ≤ t935 then
                  if t949 = (0 : α) then
                    ⟨(0 : α), ⟨(0 : α), (0 : α), (0 : α)⟩⟩
                  else
                    ⟨(0 : α), ⟨t952, t951, t950⟩⟩
                else
                  if t955 = (0 : α) then
                    ⟨(0 : α), ⟨(0 : α), (0 : α), (0 : α)⟩⟩
                  else
                    ⟨(0 : α), ⟨t958, t957, t956⟩⟩
            else
              if t936 ≤ t935 then
                if t949 = (0 : α) then
                  ⟨(0 : α), ⟨(0 : α), (0 : α), (0 : α)⟩⟩
                else
                  ⟨(0 : α), ⟨t952, t951, t950⟩⟩
              else
                if t955 = (0 : α) then
                  ⟨(0 : α), ⟨(0 : α), (0 : α), (0 : α)⟩⟩
                else
                  ⟨(0 : α), ⟨t958, t957, t956⟩⟩
          else
            if t909 = (0 : α) then
              if t686 = (0 : α) then
                ⟨t965, ⟨t978, t977, t976⟩⟩
              else
                ⟨t1243, ⟨t1264, t1263, t1262⟩⟩
            else
              if t686 = (0 : α) then
                ⟨t1172, ⟨t1185, t1184, t1183⟩⟩
              else
                ⟨t1271, ⟨t1292, t1291, t1290⟩⟩

/-- extracted from the C++ template at T = Sym; 2 path(s) -/
def C10.V3.normalized {α : Type} [Add α] [Mul α] [Div α] [Neg α] [LT α] [LE α] [DecidableLT α] [DecidableLE α] [DecidableEq α] [OfNat α 0] [OfNat α 2] (tmin : α) (sqrt : α → α) (a : V3 α) : (V3 α) :=
  let t1463 := (V3.length tmin sqrt ⟨a.x, a.y, a.z⟩)
  if t1463 = (0 : α) then
    ⟨(0 : α), (0 : α), (0 : α)⟩
  else
    ⟨(a.x / t1463), (a.y / t1463), (a.z / t1463)⟩

/-- extracted from the C++ template at T = Sym; 2 path(s) -/
def C10.Quat.setRotationInternal {α : Type} [Add α] [Sub α] [Mul α] [Div α] [Neg α] [LT α] [LE α] [DecidableLT α] [DecidableLE α] [DecidableEq α] [OfNat α 0] [OfNat α 2] (tmin : α) (sqrt : α → α) (f0 : V3 α) (t0 : V3 α) : (Quat α) :=
  let t1473 := (f0.z + t0.z)
  let t1474 := (f0.y + t0.y)
  let t1475 := (f0.x + t0.x)
  let t1476 := (V3.length tmin sqrt ⟨t1475, t1474, t1473⟩)
  let t1477 := (f0.z * (0 : α))
  let t1478 := (f0.y * (0 : α))
  let t1479 := (f0.x * (0 : α))
  let t1485 := (t1473 / t1476)
  let t1486 := (t1474 / t1476)
  let t1487 := (t1475 / t1476)
  if t1476 = (0 : α) then
    ⟨((t1479 + t1478) + t1477), ⟨(t1478 - t1477), (t1477 - t1479), (t1479 - t1478)⟩⟩
  else
    ⟨(((f0.x * t1487) + (f0.y * t1486)) + (f0.z * t1485)), ⟨((f0.y * t1485) - (f0.z * t1486)), ((f0.z * t1487) - (f0.x * t1485)), ((f0.x * t1486) - (f0.y * t1487))⟩⟩

/-- extracted from the C++ template at T = Sym; 2 path(s) -/
def C10.sinx_over_x {α : Type} [Mul α] [Div α] [LT α] [DecidableLT α] [OfNat α 1] (teps : α) (sin : α → α) (x : α) : α :=
  let t1503 := (x * x)
  if t1503 < teps then
    (1 : α)
  else
    ((sin x) / x)

/-- extracted from the C++ template at T = Sym; 1 path(s) -/
def C10.Quat.angle4D {α : Type} [Add α] [Sub α] [Mul α] [OfNat α 2] (sqrt : α → α) (atan2 : α → α → α) (q1 : Quat α) (q2 : Quat α) : α :=
  let t1514 := (q1.v.z - q2.v.z)
  let t1515 := (q1.v.y - q2.v.y)
  let t1516 := (q1.v.x - q2.v.x)
  let t1517 := (q1.r - q2.r)
  let t1526 := (q1.v.z + q2.v.z)
  let t1527 := (q1.v.y + q2.v.y)
  let t1528 := (q1.v.x + q2.v.x)
  let t1529 := (q1.r + q2.r)
  ((2 : α) * (atan2 (sqrt ((t1517 * t1517) + (((t1516 * t1516) + (t1515 * t1515)) + (t1514 * t1514)))) (sqrt ((t1529 * t1529) + (((t1528 * t1528) + (t1527 * t1527)) + (t1526 * t1526))))))

/-- extracted from the C++ template at T = Sym; 16 path(s) -/
def C10.Quat.slerp {α : Type} [Add α] [Sub α] [Mul α] [Div α] [LT α] [DecidableLT α] [DecidableEq α] [OfNat α 0] [OfNat α 1] [OfNat α 2] (teps : α) (sqrt : α → α) (sin : α → α) (atan2 : α → α → α) (q1 : Quat α) (q2 : Quat α) (t : α) : (Quat α) :=
  let t1514 := (q1.v.z - q2.v.z)
  let t1515 := (q1.v.y - q2.v.y)
  let t1516 := (q1.v.x - q2.v.x)
  let t1517 := (q1.r - q2.r)
  let t1526 := (q1.v.z + q2.v.z)
  let t1527 := (q1.v.y + q2.v.y)
  let t1528 := (q1.v.x + q2.v.x)
  let t1529 := (q1.r + q2.r)
  let t1539 := ((2 : α) * (atan2 (sqrt ((t1517 * t1517) + (((t1516 * t1516) + (t1515 * t1515)) + (t1514 * t1514)))) (sqrt ((t1529 * t1529) + (((t1528 * t1528) + (t1527 * t1527)) + (t1526 * t1526))))))
  let t1541 := ((1 : α) - t)
  let t1542 := (t1539 * t1539)
  let t1543 := (t * t1539)
  let t1544 := (t1543 * t1543)
  let t1545 := ((1 : α) / (1 : α))
  let t1546 := (t1545 * t)
  let t1547 := (q2.v.z * t1546)
  let t1548 := (q2.v.y * t1546)
  let t1549 := (q2.v.x * t1546)
  let t1550 := (q2.r * t1546)
  let t1551 := (t1541 * t1539)
  let t1552 := (t1551 * t1551)
  let t1553 := (t1545 * t1541)
  let t1554 := (q1.v.z * t1553)
  let t1555 := (q1.v.y * t1553)
  let t1556 := (q1.v.x * t1553)
  let t1557 := (q1.r * t1553)
  let t1558 := (t1554 + t1547)
  let t1559 := (t1555 + t1548)
  let t1560 := (t1556 + t1549)
  let t1561 := (t1557 + t1550)
  let t1569 := (sqrt ((t1561 * t1561) + (((t1560 * t1560) + (t1559 * t1559)) + (t1558 * t1558))))
  let t1575 := ((sin t1551) / t1551)
  let t1577 := ((t1575 / (1 : α)) * t1541)
  let t1578 := (q1.v.z * t1577)
  let t1579 := (q1.v.y * t1577)
  let t1580 := (q1.v.x * t1577)
  let t1581 := (q1.r * t1577)
  let t1582 := (t1578 + t1547)
  let t1583 := (t1579 + t1548)
  let t1584 := (t1580 + t1549)
  let t1585 := (t1581 + t1550)
  let t1593 := (sqrt ((t1585 * t1585) + (((t1584 * t1584) + (t1583 * t1583)) + (t1582 * t1582))))
  let t1599 := ((sin t1543) / t1543)
  let t1601 := ((t1599 / (1 : α)) * t)
  let t1602 := (q2.v.z * t1601)
  let t1603 := (q2.v.y * t1601)
  let t1604 := (q2.v.x * t1601)
  let t1605 := (q2.r * t1601)
  let t1606 := (t1554 + t1602)
  let t1607 := (t1555 + t1603)
  let t1608 := (t1556 + t1604)
  let t1609 := (t1557 + t1605)
  let t1617 := (sqrt ((t1609 * t1609) + (((t1608 * t1608) + (t1607 * t1607)) + (t1606 * t1606))))
  let t1622 := (t1578 + t1602)
  let t1623 := (t1579 + t1603)
  let t1624 := (t1580 + t1604)
  let t1625 := (t1581 + t1605)
  let t1633 := (sqrt ((t1625 * t1625) + (((t1624 * t1624) + (t1623 * t1623)) + (t1622 * t1622))))
  let t1639 := ((sin t1539) / t1539)
  let t1640 := ((1 : α) / t1639)
  let t1641 := (t1640 * t)
  let t1642 := (q2.v.z * t1641)
  let t1643 := (q2.v.y * t1641)
  let t1644 := (q2.v.x * t1641)
  let t1645 := (q2.r * t1641)
  let t1646 := (t1640 * t1541)
  let t1647 := (q1.v.z * t1646)
  let t1648 := (q1.v.y * t1646)
  let t1649 := (q1.v.x * t1646)
  let t1650 := (q1.r * t1646)
  let t1651 := (t1647 + t1642)
  let t1652 := (t1648 + t1643)
  let t1653 := (t1649 + t1644)
  let t1654 := (t1650 + t1645)
  let t1662 := (sqrt ((t1654 * t1654) + (((t1653 * t1653) + (t1652 * t1652)) + (t1651 * t1651))))
  let t1668 := ((t1575 / t1639) * t1541)
  let t1669 := (q1.v.z * t1668)
  let t1670 := (q1.v.y * t1668)
  let t1671 := (q1.v.x * t1668)
  let t1672 := (q1.r * t1668)
  let t1673 := (t1669 + t1642)
  let t1674 := (t1670 + t1643)
  let t1675 := (t1671 + t1644)
  let t1676 := (t1672 + t1645)
  let t1684 := (sqrt ((t1676 * t1676) + (((t1675 * t1675) + (t1674 * t1674)) + (t1673 * t1673))))
  let t1690 := ((t1599 / t1639) * t)
  let t1691 := (q2.v.z * t1690)
  let t1692 := (q2.v.y * t1690)
  let t1693 := (q2.v.x * t1690)
  let t1694 := (q2.r * t1690)
  let t1695 := (t1647 + t1691)
  let t1696 := (t1648 + t1692)
  let t1697 := (t1649 + t1693)
  let t1698 := (t1650 + t1694)
  let t1706 := (sqrt ((t1698 * t1698) + (((t1697 * t1697) + (t1696 * t1696)) + (t1695 * t1695))))
  let t1711 := (t1669 + t1691)
  let t1712 := (t1670 + t1692)
  let t1713 := (t1671 + t1693)
  let t1714 := (t1672 + t1694)
  let t1722 := (sqrt ((t1714 * t1714) + (((t1713 * t1713) + (t1712 * t1712)) + (t1711 * t1711))))
  if t1542 < teps then
    if t1544 < teps then
      if t1552 < teps then
        if t1569 = (0 : α) then
          ⟨(1 : α), ⟨(0 : α), (0 : α), (0 : α)⟩⟩
        else
          ⟨(t1561 / t1569), ⟨(t1560 / t1569), (t1559 / t1569), (t1558 / t1569)⟩⟩
      else
        if t1593 = (0 : α) then
          ⟨(1 : α), ⟨(0 : α), (0 : α), (0 : α)⟩⟩
        else
          ⟨(t1585 / t1593), ⟨(t1584 / t1593), (t1583 / t1593), (t1582 / t1593)⟩⟩
    else
      if t1552 < teps then
        if t1617 = (0 : α) then
          ⟨(1 : α), ⟨(0 : α), (0 : α), (0 : α)⟩⟩
        else
          ⟨(t1609 / t1617), ⟨(t1608 / t1617), (t1607 / t1617), (t1606 / t1617)⟩⟩
      else
        if t1633 = (0 : α) then
          ⟨(1 : α), ⟨(0 : α), (0 : α), (0 : α)⟩⟩
        else
          ⟨(t1625 / t1633), ⟨(t1624 / t1633), (t1623 / t1633), (t1622 / t1633)⟩⟩
  else
    if t1544 < teps then
      if t1552 < teps then
        if t1662 = (0 : α) then
          ⟨(1 : α), ⟨(0 : α), (0 : α), (0 : α)⟩⟩
        else
          ⟨(t1654 / t1662), ⟨(t1653 / t1662), (t1652 / t1662), (t1651 / t1662)⟩⟩
      else
        if t1684 = (0 : α) then
          ⟨(1 : α), ⟨(0 : α), (0 : α), (0 : α)⟩⟩
        else
          ⟨(t1676 / t1684), ⟨(t1675 / t1684), (t1674 / t1684), (t1673 / t1684)⟩⟩
    else
      if t1552 < teps then
        if t1706 = (0 : α) then
          ⟨(1 : α), ⟨(0 : α), (0 : α), (0 : α)⟩⟩
        else
          ⟨(t1698 / t1706), ⟨(t1697 / t1706), (t1696 / t1706), (t1695 / t1706)⟩⟩
      else
        if t1722 = (0 : α) then
          ⟨(1 : α), ⟨(0 : α), (0 : α), (0 : α)⟩⟩
        else
          ⟨(t1714 / t1722), ⟨(t1713 / t1722), (t1712 / t1722), (t1711 / t1722)⟩⟩

/-- extracted from the C++ template at T = Sym; 32 path(s) -/
def C10.Quat.slerpShortestArc {α : Type} [Add α] [Sub α] [Mul α] [Div α] [Neg α] [LT α] [LE α] [DecidableLT α] [DecidableLE α] [DecidableEq α] [OfNat α 0] [OfNat α 1] [OfNat α 2] (teps : α) (sqrt : α → α) (sin : α → α) (atan2 : α → α → α) (q1 : Quat α) (q2 : Quat α) (t : α) : (Quat α) :=
  let t1514 := (q1.v.z - q2.v.z)
  let t1515 := (q1.v.y - q2.v.y)
  let t1516 := (q1.v.x - q2.v.x)
  let t1517 := (q1.r - q2.r)
  let t1526 := (q1.v.z + q2.v.z)
  let t1527 := (q1.v.y + q2.v.y)
  let t1528 := (q1.v.x + q2.v.x)
  let t1529 := (q1.r + q2.r)
  let t1539 := ((2 : α) * (atan2 (sqrt ((t1517 * t1517) + (((t1516 * t1516) + (t1515 * t1515)) + (t1514 * t1514)))) (sqrt ((t1529 * t1529) + (((t1528 * t1528) + (t1527 * t1527)) + (t1526 * t1526))))))
  let t1541 := ((1 : α) - t)
  let t1542 := (t1539 * t1539)
  let t1543 := (t * t1539)
  let t1544 := (t1543 * t1543)
  let t1545 := ((1 : α) / (1 : α))
  let t1546 := (t1545 * t)
  let t1547 := (q2.v.z * t1546)
  let t1548 := (q2.v.y * t1546)
  let t1549 := (q2.v.x * t1546)
  let t1550 := (q2.r * t1546)
  let t1551 := (t1541 * t1539)
  let t1552 := (t1551 * t1551)
  let t1553 := (t1545 * t1541)
  let t1554 := (q1.v.z * t1553)
  let t1555 := (q1.v.y * t1553)
  let t1556 := (q1.v.x * t1553)
  let t1557 := (q1.r * t1553)
  let t1558 := (t1554 + t1547)
  let t1559 := (t1555 + t1548)
  let t1560 := (t1556 + t1549)
  let t1561 := (t1557 + t1550)
  let t1569 := (sqrt ((t1561 * t1561) + (((t1560 * t1560) + (t1559 * t1559)) + (t1558 * t1558))))
  let t1575 := ((sin t1551) / t1551)
  let t1577 := ((t1575 / (1 : α)) * t1541)
  let t1578 := (q1.v.z * t1577)
  let t1579 := (q1.v.y * t1577)
  let t1580 := (q1.v.x * t1577)
  let t1581 := (q1.r * t1577)
  let t1582 := (t1578 + t1547)
  let t1583 := (t1579 + t1548)
  let t1584 := (t1580 + t1549)
  let t1585 := (t1581 + t1550)
  let t1593 := (sqrt ((t1585 * t1585) + (((t1584 * t1584) + (t1583 * t1583)) + (t1582 * t1582))))
  let t1599 := ((sin t1543) / t1543)
  let t1601 := ((t1599 / (1 : α)) * t)
  let t1602 := (q2.v.z * t1601)
  let t1603 := (q2.v.y * t1601)
  let t1604 := (q2.v.x * t1601)
  let t1605 := (q2.r * t1601)
  let t1606 := (t1554 + t1602)
  let t1607 := (t1555 + t1603)
  let t1608 := (t1556 + t1604)
  let t1609 := (t1557 + t1605)
  let t1617 := (sqrt ((t1609 * t1609) + (((t1608 * t1608) + (t1607 * t1607)) + (t1606 * t1606))))
  let t1622 := (t1578 + t1602)
  let t1623 := (t1579 + t1603)
  let t1624 := (t1580 + t1604)
  let t1625 := (t1581 + t1605)
  let t1633 := (sqrt ((t1625 * t1625) + (((t1624 * t1624) + (t1623 * t1623)) + (t1622 * t1622))))
  let t1639 := ((sin t1539) / t1539)
  let t1640 := ((1 : α) / t1639)
  let t1641 := (t1640 * t)
  let t1642 := (q2.v.z * t1641)
  let t1643 := (q2.v.y * t1641)
  let t1644 := (q2.v.x * t1641)
  let t1645 := (q2.r * t1641)
  let t1646 := (t1640 * t1541)
  let t1647 := (q1.v.z * t1646)
  let t1648 := (q1.v.y * t1646)
  let t1649 := (q1.v.x * t1646)
  let t1650 := (q1.r * t1646)
  let t1651 := (t1647 + t1642)
  let t1652 := (t1648 + t1643)
  let t1653 := (t1649 + t1644)
  let t1654 := (t1650 + t1645)
  let t1662 := (sqrt ((t1654 * t1654) + (((t1653 * t1653) + (t1652 * t1652)) + (t1651 * t1651))))
  let t1668 := ((t1575 / t1639) * t1541)
  let t1669 := (q1.v.z * t1668)
  let t1670 := (q1.v.y * t1668)
  let t1671 := (q1.v.x * t1668)
  let t1672 := (q1.r * t1668)
  let t1673 := (t1669 + t1642)
  let t1674 := (t1670 + t1643)
  let t1675 := (t1671 + t1644)
  let t1676 := (t1672 + t1645)
  let t1684 := (sqrt ((t1676 * t1676) + (((t1675 * t1675) + (t1674 * t1674)) + (t1673 * t1673))))
  let t1690 := ((t1599 / t1639) * t)
  let t1691 := (q2.v.z * t1690)
  let t1692 := (q2.v.y * t1690)
  let t1693 := (q2.v.x * t1690)
  let t1694 := (q2.r * t1690)
  let t1695 := (t1647 + t1691)
  let t1696 := (t1648 + t1692)
  let t1697 := (t1649 + t1693)
  let t1698 := (t1650 + t1694)
  let t1706 := (sqrt ((t1698 * t1698) + (((t1697 * t1697) + (t1696 * t1696)) + (t1695 * t1695))))
  let t1711 := (t1669 + t1691)
  let t1712 := (t1670 + t1692)
  let t1713 := (t1671 + t1693)
  let t1714 := (t1672 + t1694)
  let t1722 := (sqrt ((t1714 * t1714) + (((t1713 * t1713) + (t1712 * t1712)) + (t1711 * t1711))))
  let t1733 := ((q1.r * q2.r) + (((q1.v.x * q2.v.x) + (q1.v.y * q2.v.y)) + (q1.v.z * q2.v.z)))
  let t1734 := (-q2.v.z)
  let t1735 := (-q2.v.y)
  let t1736 := (-q2.v.x)
  let t1737 := (-q2.r)
  let t1738 := (q1.v.z - t1734)
  let t1739 := (q1.v.y - t1735)
  let t1740 := (q1.v.x - t1736)
  let t1741 := (q1.r - t1737)
  let t1750 := (q1.v.z + t1734)
  let t1751 := (q1.v.y + t1735)
  let t1752 := (q1.v.x + t1736)
  let t1753 := (q1.r + t1737)
  let t1763 := ((2 : α) * (atan2 (sqrt ((t1741 * t1741) + (((t1740 * t1740) + (t1739 * t1739)) + (t1738 * t1738)))) (sqrt ((t1753 * t1753) + (((t1752 * t1752) + (t1751 * t1751)) + (t1750 * t1750))))))
  let t1764 := (t1763 * t1763)
  let t1765 := (t * t1763)
  let t1766 := (t1765 * t1765)
  let t1767 := (t1734 * t1546)
  let t1768 := (t1735 * t1546)
  let t1769 := (t1736 * t1546)
  let t1770 := (t1737 * t1546)
  let t1771 := (t1541 * t1763)
  let t1772 := (t1771 * t1771)
  let t1773 := (t1554 + t1767)
  let t1774 := (t1555 + t1768)
  let t1775 := (t1556 + t1769)
  let t1776 := (t1557 + t1770)
  let t1784 := (sqrt ((t1776 * t1776) + (((t1775 * t1775) + (t1774 * t1774)) + (t1773 * t1773))))
  let t1790 := ((sin t1771) / t1771)
  let t1792 := ((t1790 / (1 : α)) * t1541)
  let t1793 := (q1.v.z * t1792)
  let t1794 := (q1.v.y * t1792)
  let t1795 := (q1.v.x * t1792)
  let t1796 := (q1.r * t1792)
  let t1797 := (t1793 + t1767)
  let t1798 := (t1794 + t1768)
  let t1799 := (t1795 + t1769)
  let t1800 := (t1796 + t1770)
  let t1808 := (sqrt ((t1800 * t1800) + (((t1799 * t1799) + (t1798 * t1798)) + (t1797 * t1797))))
  let t1814 := ((sin t1765) / t1765)
  let t1816 := ((t1814 / (1 : α)) * t)
  let t1817 := (t1734 * t1816)
  let t1818 := (t1735 * t1816)
  let t1819 := (t1736 * t1816)
  let t1820 := (t1737 * t1816)
  let t1821 := (t1554 + t1817)
  let t1822 := (t1555 + t1818)
  let t1823 := (t1556 + t1819)
  let t1824 := (t1557 + t1820)
  let t1832 := (sqrt ((t1824 * t1824) + (((t1823 * t1823) + (t1822 * t1822)) + (t1821 * t1821))))
  let t1837 := (t1793 + t1817)
  let t1838 := (t1794 + t1818)
  let t1839 := (t1795 + t1819)
  let t1840 := (t1796 + t1820)
  let t1848 := (sqrt ((t1840 * t1840) + (((t1839 * t1839) + (t1838 * t1838)) + (t1837 * t1837))))
  let t1854 := ((sin t1763) / t1763)
  let t1855 := ((1 : α) / t1854)
  let t1856 := (t1855 * t)
  let t1857 := (t1734 * t1856)
  let t1858 := (t1735 * t1856)
  let t1859 := (t1736 * t1856)
  let t1860 := (t1737 * t1856)
  let t1861 := (t1855 * t1541)
  let t1862 := (q1.v.z * t1861)
  let t1863 := (q1.v.y * t1861)
  let t1864 := (q1.v.x * t1861)
  let t1865 := (q1.r * t1861)
  let t1866 := (t1862 + t1857)
  let t1867 := (t1863 + t1858)
  let t1868 := (t1864 + t1859)
  let t1869 := (t1865 + t1860)
  let t1877 := (sqrt ((t1869 * t1869) + (((t1868 * t1868) + (t1867 * t1867)) + (t1866 * t1866))))
  let t1883 := ((t1790 / t1854) * t1541)
  let t1884 := (q1.v.z * t1883)
  let t1885 := (q1.v.y * t1883)
  let t1886 := (q1.v.x * t1883)
  let t1887 := (q1.r * t1883)
  let t1888 := (t1884 + t1857)
  let t1889 := (t1885 + t1858)
  let t1890 := (t1886 + t1859)
  let t1891 := (t1887 + t1860)
  let t1899 := (sqrt ((t1891 * t1891) + (((t1890 * t1890) + (t1889 * t1889)) + (t1888 * t1888))))
  let t1905 := ((t1814 / t1854) * t)
  let t1906 := (t1734 * t1905)
  let t1907 := (t1735 * t1905)
  let t1908 := (t1736 * t1905)
  let t1909 := (t1737 * t1905)
  let t1910 := (t1862 + t1906)
  let t1911 := (t1863 + t1907)
  let t1912 := (t1864 + t1908)
  let t1913 := (t1865 + t1909)
  let t1921 := (sqrt ((t1913 * t1913) + (((t1912 * t1912) + (t1911 * t1911)) + (t1910 * t1910))))
  let t1926 := (t1884 + t1906)
  let t1927 := (t1885 + t1907)
  let t1928 := (t1886 + t1908)
  let t1929 := (t1887 + t1909)
  let t1937 := (sqrt ((t1929 * t1929) + (((t1928 * t1928) + (t1927 * t1927)) + (t1926 * t1926))))
  if (0 : α) ≤ t1733 then
    if t1542 < teps then
      if t1544 < teps then
        if t1552 < teps then
          if t1569 = (0 : α) then
            ⟨(1 : α), ⟨(0 : α), (0 : α), (0 : α)⟩⟩
          else
            ⟨(t1561 / t1569), ⟨(t1560 / t1569), (t1559 / t1569), (t1558 / t1569)⟩⟩
        else
          if t1593 = (0 : α) then
            ⟨(1 : α), ⟨(0 : α), (0 : α), (0 : α)⟩⟩
          else
            ⟨(t1585 / t1593), ⟨(t1584 / t1593), (t1583 / t1593), (t1582 / t1593)⟩⟩
      else
        if t1552 < teps then
          if t1617 = (0 : α) then
            ⟨(1 : α), ⟨(0 : α), (0 : α), (0 : α)⟩⟩
          else
            ⟨(t1609 / t1617), ⟨(t1608 / t1617), (t1607 / t1617), (t1606 / t1617)⟩⟩
        else
          if t1633 = (0 : α) then
            ⟨(1 : α), ⟨(0 : α), (0 : α), (0 : α)⟩⟩
          else
            ⟨(t1625 / t1633), ⟨(t1624 / t1633), (t1623 / t1633), (t1622 / t1633)⟩⟩
    else
      if t1544 < teps then
        if t1552 < teps then
          if t1662 = (0 : α) then
            ⟨(1 : α), ⟨(0 : α), (0 : α), (0 : α)⟩⟩
          else
            ⟨(t1654 / t1662), ⟨(t1653 / t1662), (t1652 / t1662), (t1651 / t1662)⟩⟩
        else
          if t1684 = (0 : α) then
            ⟨(1 : α), ⟨(0 : α), (0 : α), (0 : α)⟩⟩
          else
            ⟨(t1676 / t1684), ⟨(t1675 / t1684), (t1674 / t1684), (t1673 / t1684)⟩⟩
      else
        if t1552 < teps then
          if t1706 = (0 : α) then
            ⟨(1 : α), ⟨(0 : α), (0 : α), (0 : α)⟩⟩
          else
            ⟨(t1698 / t1706), ⟨(t1697 / t1706), (t1696 / t1706), (t1695 / t1706)⟩⟩
        else
          if t1722 = (0 : α) then
            ⟨(1 : α), ⟨(0 : α), (0 : α), (0 : α)⟩⟩
          else
            ⟨(t1714 / t1722), ⟨(t1713 / t1722), (t1712 / t1722), (t1711 / t1722)⟩⟩
  else
    if t1764 < teps then
      if t1766 < teps then
        if t1772 < teps then
          if t1784 = (0 : α) then
            ⟨(1 : α), ⟨(0 : α), (0 : α), (0 : α)⟩⟩
          else
            ⟨(t1776 / t1784), ⟨(t1775 / t1784), (t1774 / t1784), (t1773 / t1784)⟩⟩
        else
          if t1808 = (0 : α) then
            ⟨(1 : α), ⟨(0 : α), (0 : α), (0 : α)⟩⟩
          else
            ⟨(t1800 / t1808), ⟨(t1799 / t1808), (t1798 / t1808), (t1797 / t1808)⟩⟩
      else
        if t1772 < teps then
          if t1832 = (0 : α) then
            ⟨(1 : α), ⟨(0 : α), (0 : α), (0 : α)⟩⟩
          else
            ⟨(t1824 / t1832), ⟨(t1823 / t1832), (t1822 / t1832), (t1821 / t1832)⟩⟩
        else
          if t1848 = (0 : α) then
            ⟨(1 : α), ⟨(0 : α), (0 : α), (0 : α)⟩⟩
          else
            ⟨(t1840 / t1848), ⟨(t1839 / t1848), (t1838 / t1848), (t1837 / t1848)⟩⟩
    else
      if t1766 < teps then
        if t1772 < teps then
          if t1877 = (0 : α) then
            ⟨(1 : α), ⟨(0 : α), (0 : α), (0 : α)⟩⟩
          else
            ⟨(t1869 / t1877), ⟨(t1868 / t1877), (t1867 / t1877), (t1866 / t1877)⟩⟩
        else
          if t1899 = (0 : α) then
            ⟨(1 : α), ⟨(0 : α), (0 : α), (0 : α)⟩⟩
          else
            ⟨(t1891 / t1899), ⟨(t1890 / t1899), (t1889 / t1899), (t1888 / t1899)⟩⟩
      else
        if t1772 < teps then
          if t1921 = (0 : α) then
            ⟨(1 : α), ⟨(0 : α), (0 : α), (0 : α)⟩⟩
          else
            ⟨(t1913 / t1921), ⟨(t1912 / t1921), (t1911 / t1921), (t1910 / t1921)⟩⟩
        else
          if t1937 = (0 : α) then
            ⟨(1 : α), ⟨(0 : α), (0 : α), (0 : α)⟩⟩
          else
            ⟨(t1929 / t1937), ⟨(t1928 / t1937), (t1927 / t1937), (t1926 / t1937)⟩⟩

/-- extracted from the C++ template at T = Sym; 96 path(s) -/
def C10.Quat.intermediate {α : Type} [Add α] [Sub α] [Mul α] [Div α] [Neg α] [LT α] [LE α] [DecidableLT α] [DecidableLE α] [DecidableEq α] [OfNat α 0] [OfNat α 1] [OfNat α 2] [OfNat α 4] (tmin : α) (tmax : α) (sqrt : α → α) (sin : α → α) (cos : α → α) (acos : α → α) (q0 : Quat α) (q1 : Quat α) (q2 : Quat α) : (Quat α) :=
  let t1952 := ((q1.r * q1.r) + (((q1.v.x * q1.v.x) + (q1.v.y * q1.v.y)) + (q1.v.z * q1.v.z)))
  let t1956 := ((-q1.v.z) / t1952)
  let t1957 := ((-q1.v.y) / t1952)
  let t1958 := ((-q1.v.x) / t1952)
  let t1959 := (q1.r / t1952)
  let t1978 := (((t1959 * q2.v.z) + (t1956 * q2.r)) + ((t1958 * q2.v.y) - (t1957 * q2.v.x)))
  let t1979 := (((t1959 * q2.v.y) + (t1957 * q2.r)) + ((t1956 * q2.v.x) - (t1958 * q2.v.z)))
  let t1980 := (((t1959 * q2.v.x) + (t1958 * q2.r)) + ((t1957 * q2.v.z) - (t1956 * q2.v.y)))
  let t2006 := (((t1959 * q0.v.z) + (t1956 * q0.r)) + ((t1958 * q0.v.y) - (t1957 * q0.v.x)))
  let t2007 := (((t1959 * q0.v.y) + (t1957 * q0.r)) + ((t1956 * q0.v.x) - (t1958 * q0.v.z)))
  let t2008 := (((t1959 * q0.v.x) + (t1958 * q0.r)) + ((t1957 * q0.v.z) - (t1956 * q0.v.y)))
  let t2017 := (acos (smin ((t1959 * q2.r) - (((t1958 * q2.v.x) + (t1957 * q2.v.y)) + (t1956 * q2.v.z))) (1 : α)))
  let t2019 := (acos (smin ((t1959 * q0.r) - (((t1958 * q0.v.x) + (t1957 * q0.v.y)) + (t1956 * q0.v.z))) (1 : α)))
  let t2024 := ((t2006 + t1978) * (-((1 : α) / (4 : α))))
  let t2025 := ((t2007 + t1979) * (-((1 : α) / (4 : α))))
  let t2026 := ((t2008 + t1980) * (-((1 : α) / (4 : α))))
  let t2028 := (V3.length tmin sqrt ⟨t2026, t2025, t2024⟩)
  let t2029 := (sin t2028)
  let t2030 := (sabs t2028)
  let t2031 := (tmax * t2030)
  let t2032 := (sabs t2029)
  let t2033 := (cos t2028)
  let t2034 := (t2024 * (1 : α))
  let t2035 := (t2025 * (1 : α))
  let t2036 := (t2026 * (1 : α))
  let t2046 := (q1.v.z * t2033)
  let t2047 := (q1.v.y * t2033)
  let t2048 := (q1.v.x * t2033)
  let t2055 := (((q1.r * t2034) + t2046) + ((q1.v.x * t2035) - (q1.v.y * t2036)))
  let t2056 := (((q1.r * t2035) + t2047) + ((q1.v.z * t2036) - (q1.v.x * t2034)))
  let t2057 := (((q1.r * t2036) + t2048) + ((q1.v.y * t2034) - (q1.v.z * t2035)))
  let t2063 := (q1.r * t2033)
  let t2064 := (t2063 - (((q1.v.x * t2036) + (q1.v.y * t2035)) + (q1.v.z * t2034)))
  let t2072 := (sqrt ((t2064 * t2064) + (((t2057 * t2057) + (t2056 * t2056)) + (t2055 * t2055))))
  let t2077 := (t2029 / t2028)
  let t2078 := (t2024 * t2077)
  let t2079 := (t2025 * t2077)
  let t2080 := (t2026 * t2077)
  let t2096 := (((q1.r * t2078) + t2046) + ((q1.v.x * t2079) - (q1.v.y * t2080)))
  let t2097 := (((q1.r * t2079) + t2047) + ((q1.v.z * t2080) - (q1.v.x * t2078)))
  let t2098 := (((q1.r * t2080) + t2048) + ((q1.v.y * t2078) - (q1.v.z * t2079)))
  let t2104 := (t2063 - (((q1.v.x * t2080) + (q1.v.y * t2079)) + (q1.v.z * t2078)))
  let t2112 := (sqrt ((t2104 * t2104) + (((t2098 * t2098) + (t2097 * t2097)) + (t2096 * t2096))))
  let t2113 := (t2104 / t2112)
  let t2114 := (t2098 / t2112)
  let t2115 := (t2097 / t2112)
  let t2116 := (t2096 / t2112)
  let t2117 := (sin t2019)
  let t2118 := (sabs t2117)
  let t2119 := (tmax * t2118)
  let t2120 := (sabs t2019)
  let t2121 := (t2006 * (1 : α))
  let t2122 := (t2007 * (1 : α))
  let t2123 := (t2008 * (1 : α))
  let t2127 := ((t2121 + t1978) * (-((1 : α) / (4 : α))))
  let t2128 := ((t2122 + t1979) * (-((1 : α) / (4 : α))))
  let t2129 := ((t2123 + t1980) * (-((1 : α) / (4 : α))))
  let t2130 := (V3.length tmin sqrt ⟨t2129, t2128, t2127⟩)
  let t2131 := (sin t2130)
  let t2132 := (sabs t2130)
  let t2133 := (tmax * t2132)
  let t2134 := (sabs t2131)
  let t2135 := (cos t2130)
  let t2136 := (t2127 * (1 : α))
  let t2137 := (t2128 * (1 : α))
  let t2138 := (t2129 * (1 : α))
  let t2148 := (q1.v.z * t2135)
  let t2149 := (q1.v.y * t2135)
  let t2150 := (q1.v.x * t2135)
  let t2157 := (((q1.r * t2136) + t2148) + ((q1.v.x * t2137) - (q1.v.y * t2138)))
  let t2158 := (((q1.r * t2137) + t2149) + ((q1.v.z * t2138) - (q1.v.x * t2136)))
  let t2159 := (((q1.r * t2138) + t2150) + ((q1.v.y * t2136) - (q1.v.z * t2137)))
  let t2165 := (q1.r * t2135)
  let t2166 := (t2165 - (((q1.v.x * t2138) + (q1.v.y * t2137)) + (q1.v.z * t2136)))
  let t2174 := (sqrt ((t2166 * t2166) + (((t2159 * t2159) + (t2158 * t2158)) + (t2157 * t2157))))
  let t2179 := (t2131 / t2130)
  let t2180 := (t2127 * t2179)
  let t2181 := (t2128 * t2179)
  let t2182 := (t2129 * t2179)
  let t2198 := (((q1.r * t2180) + t2148) + ((q1.v.x * t2181) - (q1.v.y * t2182)))
  let t2199 := (((q1.r * t2181) + t2149) + ((q1.v.z * t2182) - (q1.v.x * t2180)))
  let t2200 := (((q1.r * t2182) + t2150) + ((q1.v.y * t2180) - (q1.v.z * t2181)))
  let t2206 := (t2165 - (((q1.v.x * t2182) + (q1.v.y * t2181)) + (q1.v.z * t2180)))
  let t2214 := (sqrt ((t2206 * t2206) + (((t2200 * t2200) + (t2199 * t2199)) + (t2198 * t2198))))
  let t2215 := (t2206 / t2214)
  let t2216 := (t2200 / t2214)
  let t2217 := (t2199 / t2214)
  let t2218 := (t2198 / t2214)
  let t2219 := (t2019 / t2117)
  let t2220 := (t2006 * t2219)
  let t2221 := (t2007 * t2219)
  let t2222 := (t2008 * t2219)
  let t2226 := ((t2220 + t1978) * (-((1 : α) / (4 : α))))
  let t2227 := ((t2221 + t1979) * (-((1 : α) / (4 : α))))
  let t2228 := ((t2222 + t1980) * (-((1 : α) / (4 : α))))
  let t2229 := (V3.length tmin sqrt ⟨t2228, t2227, t2226⟩)
  let t2230 := (sin t2229)
  let t2231 := (sabs t2229)
  let t2232 := (tmax * t2231)
  let t2233 := (sabs t2230)
  let t2234 := (cos t2229)
  let t2235 := (t2226 * (1 : α))
  let t2236 := (t2227 * (1 : α))
  let t2237 := (t2228 * (1 : α))
  let t2247 := (q1.v.z * t2234)
  let t2248 := (q1.v.y * t2234)
  let t2249 := (q1.v.x * t2234)
  let t2256 := (((q1.r * t2235) + t2247) + ((q1.v.x * t2236) - (q1.v.y * t2237)))
  let t2257 := (((q1.r * t2236) + t2248) + ((q1.v.z * t2237) - (q1.v.x * t2235)))
  let t2258 := (((q1.r * t2237) + t2249) + ((q1.v.y * t2235) - (q1.v.z * t2236)))
  let t2264 := (q1.r * t2234)
  let t2265 := (t2264 - (((q1.v.x * t2237) + (q1.v.y * t2236)) + (q1.v.z * t2235)))
  let t2273 := (sqrt ((t2265 * t2265) + (((t2258 * t2258) + (t2257 * t2257)) + (t2256 * t2256))))
  let t2274 := (t2265 / t2273)
  let t2275 := (t2258 / t2273)
  let t2276 := (t2257 / t2273)
  let t2277 := (t2256 / t2273)
  let t2278 := (t2230 / t2229)
  let t2279 := (t2226 * t2278)
  let t2280 := (t2227 * t2278)
  let t2281 := (t2228 * t2278)
  let t2297 := (((q1.r * t2279) + t2247) + ((q1.v.x * t2280) - (q1.v.y * t2281)))
  let t2298 := (((q1.r * t2280) + t2248) + ((q1.v.z * t2281) - (q1.v.x * t2279)))
  let t2299 := (((q1.r * t2281) + t2249) + ((q1.v.y * t2279) - (q1.v.z * t2280)))
  let t2305 := (t2264 - (((q1.v.x * t2281) + (q1.v.y * t2280)) + (q1.v.z * t2279)))
  let t2313 := (sqrt ((t2305 * t2305) + (((t2299 * t2299) + (t2298 * t2298)) + (t2297 * t2297))))
  let t2314 := (t2305 / t2313)
  let t2315 := (t2299 / t2313)
  let t2316 := (t2298 / t2313)
  let t2317 := (t2297 / t2313)
  let t2318 := (sin t2017)
  let t2319 := (sabs t2318)
  let t2320 := (tmax * t2319)
  let t2321 := (sabs t2017)
  let t2322 := (t1978 * (1 : α))
  let t2323 := (t1979 * (1 : α))
  let t2324 := (t1980 * (1 : α))
  let t2328 := ((t2006 + t2322) * (-((1 : α) / (4 : α))))
  let t2329 := ((t2007 + t2323) * (-((1 : α) / (4 : α))))
  let t2330 := ((t2008 + t2324) * (-((1 : α) / (4 : α))))
  let t2331 := (V3.length tmin sqrt ⟨t2330, t2329, t2328⟩)
  let t2332 := (sin t2331)
  let t2333 := (sabs t2331)
  let t2334 := (tmax * t2333)
  let t2335 := (sabs t2332)
  let t2336 := (cos t2331)
  let t2337 := (t2328 * (1 : α))
  let t2338 := (t2329 * (1 : α))
  let t2339 := (t2330 * (1 : α))
  let t2349 := (q1.v.z * t2336)
  let t2350 := (q1.v.y * t2336)
  let t2351 := (q1.v.x * t2336)
  let t2358 := (((q1.r * t2337) + t2349) + ((q1.v.x * t2338) - (q1.v.y * t2339)))
  let t2359 := (((q1.r * t2338) + t2350) + ((q1.v.z * t2339) - (q1.v.x * t2337)))
  let t2360 := (((q1.r * t2339) + t2351) + ((q1.v.y * t2337) - (q1.v.z * t2338)))
  let t2366 := (q1.r * t2336)
  let t2367 := (t2366 - (((q1.v.x * t2339) + (q1.v.y * t2338)) + (q1.v.z * t2337)))
  let t2375 := (sqrt ((t2367 * t2367) + (((t2360 * t2360) + (t2359 * t2359)) + (t2358 * t2358))))
  let t2380 := (t2332 / t2331)
  let t2381 := (t2328 * t2380)
  let t2382 := (t2329 * t2380)
  let t2383 := (t2330 * t2380)
  let t2399 := (((q1.r * t2381) + t2349) + ((q1.v.x * t2382) - (q1.v.y * t2383)))
  let t2400 := (((q1.r * t2382) + t2350) + ((q1.v.z * t2383) - (q1.v.x * t2381)))
  let t2401 := (((q1.r * t2383) + t2351) + ((q1.v.y * t2381) - (q1.v.z * t2382)))
  let t2407 := (t2366 - (((q1.v.x * t2383) + (q1.v.y * t2382)) + (q1.v.z * t2381)))
  let t2415 := (sqrt ((t2407 * t2407) + (((t2401 * t2401) + (t2400 * t2400)) + (t2399 * t2399))))
  let t2416 := (t2407 / t2415)
  let t2417 := (t2401 / t2415)
  let t2418 := (t2400 / t2415)
  let t2419 := (t2399 / t2415)
  let t2423 := ((t2121 + t2322) * (-((1 : α) / (4 : α))))
  let t2424 := ((t2122 + t2323) * (-((1 : α) / (4 : α))))
  let t2425 := ((t2123 + t2324) * (-((1 : α) / (4 : α))))
  let t2426 := (V3.length tmin sqrt ⟨t2425, t2424, t2423⟩)
  let t2427 := (sin t2426)
  let t2428 := (sabs t2426)
  let t2429 := (tmax * t2428)
  let t2430 := (sabs t2427)
  let t2431 := (cos t2426)
  let t2432 := (t2423 * (1 : α))
  let t2433 := (t2424 * (1 : α))
  let t2434 := (t2425 * (1 : α))
  let t2444 := (q1.v.z * t2431)
  let t2445 := (q1.v.y * t2431)
  let t2446 := (q1.v.x * t2431)
  let t2453 := (((q1.r * t2432) + t2444) + ((q1.v.x * t2433) - (q1.v.y * t2434)))
  let t2454 := (((q1.r * t2433) + t2445) + ((q1.v.z * t2434) - (q1.v.x * t2432)))
  let t2455 := (((q1.r * t2434) + t2446) + ((q1.v.y * t2432) - (q1.v.z * t2433)))
  let t2461 := (q1.r * t2431)
  let t2462 := (t2461 - (((q1.v.x * t2434) + (q1.v.y * t2433)) + (q1.v.z * t2432)))
  let t2470 := (sqrt ((t2462 * t2462) + (((t2455 * t2455) + (t2454 * t2454)) + (t2453 * t2453))))
  let t2475 := (t2427 / t2426)
  let t2476 := (t2423 * t2475)
  let t2477 := (t2424 * t2475)
  let t2478 := (t2425 * t2475)
  let t2494 := (((q1.r * t2476) + t2444) + ((q1.v.x * t2477) - (q1.v.y * t2478)))
  let t2495 := (((q1.r * t2477) + t2445) + ((q1.v.z * t2478) - (q1.v.x * t2476)))
  let t2496 := (((q1.r * t2478) + t2446) + ((q1.v.y * t2476) - (q1.v.z * t2477)))
  let t2502 := (t2461 - (((q1.v.x * t2478) + (q1.v.y * t2477)) + (q1.v.z * t2476)))
  let t2510 := (sqrt ((t2502 * t2502) + (((t2496 * t2496) + (t2495 * t2495)) + (t2494 * t2494))))
  let t2511 := (t2502 / t2510)
  let t2512 := (t2496 / t2510)
  let t2513 := (t2495 / t2510)
  let t2514 := (t2494 / t2510)
  let t2518 := ((t2220 + t2322) * (-((1 : α) / (4 : α))))
  let t2519 := ((t2221 + t2323) * (-((1 : α) / (4 : α))))
  let t2520 := ((t2222 + t2324) * (-((1 : α) / (4 : α))))
  let t2521 := (V3.length tmin sqrt ⟨t2520, t2519, t2518⟩)
  let t2522 := (sin t2521)
  let t2523 := (sabs t2521)
  let t2524 := (tmax * t2523)
  let t2525 := (sabs t2522)
  let t2526 := (cos t2521)
  let t2527 := (t2518 * (1 : α))
  let t2528 := (t2519 * (1 : α))
  let t2529 := (t2520 * (1 : α))
  let t2539 := (q1.v.z * t2526)
  let t2540 := (q1.v.y * t2526)
  let t2541 := (q1.v.x * t2526)
  let t2548 := (((q1.r * t2527) + t2539) + ((q1.v.x * t2528) - (q1.v.y * t2529)))
  let t2549 := (((q1.r * t2528) + t2540) + ((q1.v.z * t2529) - (q1.v.x * t2527)))
  let t2550 := (((q1.r * t2529) + t2541) + ((q1.v.y * t2527) - (q1.v.z * t2528)))
  let t2556 := (q1.r * t2526)
  let t2557 := (t2556 - (((q1.v.x * t2529) + (q1.v.y * t2528)) + (q1.v.z * t2527)))
  let t2565 := (sqrt ((t2557 * t2557) + (((t2550 * t2550) + (t2549 * t2549)) + (t2548 * t2548))))
  let t2566 := (t2557 / t2565)
  let t2567 := (t2550 / t2565)
  let t2568 := (t2549 / t2565)
  let t2569 := (t2548 / t2565)
  let t2570 := (t2522 / t2521)
  let t2571 := (t2518 * t2570)
  let t2572 := (t2519 * t2570)
  let t2573 := (t2520 * t2570)
  let t2589 := (((q1.r * t2571) + t2539) + ((q1.v.x * t2572) - (q1.v.y * t2573)))
  let t2590 := (((q1.r * t2572) + t2540) + ((q1.v.z * t2573) - (q1.v.x * t2571)))
  let t2591 := (((q1.r * t2573) + t2541) + ((q1.v.y * t2571) - (q1.v.z * t2572)))
  let t2597 := (t2556 - (((q1.v.x * t2573) + (q1.v.y * t2572)) + (q1.v.z * t2571)))
  let t2605 := (sqrt ((t2597 * t2597) + (((t2591 * t2591) + (t2590 * t2590)) + (t2589 * t2589))))
  let t2606 := (t2597 / t2605)
  let t2607 := (t2591 / t2605)
  let t2608 := (t2590 / t2605)
  let t2609 := (t2589 / t2605)
  let t2610 := (t2017 / t2318)
  let t2611 := (t1978 * t2610)
  let t2612 := (t1979 * t2610)
  let t2613 := (t1980 * t2610)
  let t2617 := ((t2006 + t2611) * (-((1 : α) / (4 : α))))
  let t2618 := ((t2007 + t2612) * (-((1 : α) / (4 : α))))
  let t2619 := ((t2008 + t2613) * (-((1 : α) / (4 : α))))
  let t2620 := (V3.length tmin sqrt ⟨t2619, t2618, t2617⟩)
  let t2621 := (sin t2620)
  let t2622 := (sabs t2620)
  let t2623 := (tmax * t2622)
  let t2624 := (sabs t2621)
  let t2625 := (cos t2620)
  let t2626 := (t2617 * (1 : α))
  let t2627 := (t2618 * (1 : α))
  let t2628 := (t2619 * (1 : α))
  let t2638 := (q1.v.z * t2625)
  let t2639 := (q1.v.y * t2625)
  let t2640 := (q1.v.x * t2625)
  let t2647 := (((q1.r * t2626) + t2638) + ((q1.v.x * t2627) - (q1.v.y * t2628)))
  let t2648 := (((q1.r * t2627) + t2639) + ((q1.v.z * t2628) - (q1.v.x * t2626)))
  let t2649 := (((q1.r * t2628) + t2640) + ((q1.v.y * t2626) - (q1.v.z * t2627)))
  let t2655 := (q1.r * t2625)
  let t2656 := (t2655 - (((q1.v.x * t2628) + (q1.v.y * t2627)) + (q1.v.z * t2626)))
  let t2664 := (sqrt ((t2656 * t2656) + (((t2649 * t2649) + (t2648 * t2648)) + (t2647 * t2647))))
  let t2665 := (t2656 / t2664)
  let t2666 := (t2649 / t2664)
  let t2667 := (t2648 / t2664)
  let t2668 := (t2647 / t2664)
  let t2669 := (t2621 / t2620)
  let t2670 := (t2617 * t2669)
  let t2671 := (t2618 * t2669)
  let t2672 := (t2619 * t2669)
  let t2688 := (((q1.r * t2670) + t2638) + ((q1.v.x * t2671) - (q1.v.y * t2672)))
  let t2689 := (((q1.r * t2671) + t2639) + ((q1.v.z * t2672) - (q1.v.x * t2670)))
  let t2690 := (((q1.r * t2672) + t2640) + ((q1.v.y * t2670) - (q1.v.z * t2671)))
  let t2696 := (t2655 - (((q1.v.x * t2672) + (q1.v.y * t2671)) + (q1.v.z * t2670)))
  let t2704 := (sqrt ((t2696 * t2696) + (((t2690 * t2690) + (t2689 * t2689)) + (t2688 * t2688))))
  let t2705 := (t2696 / t2704)
  let t2706 := (t2690 / t2704)
  let t2707 := (t2689 / t2704)
  let t2708 := (t2688 / t2704)
  let t2712 := ((t2121 + t2611) * (-((1 : α) / (4 : α))))
  let t2713 := ((t2122 + t2612) * (-((1 : α) / (4 : α))))
  let t2714 := ((t2123 + t2613) * (-((1 : α) / (4 : α))))
  let t2715 := (V3.length tmin sqrt ⟨t2714, t2713, t2712⟩)
  let t2716 := (sin t2715)
  let t2717 := (sabs t2715)
  let t2718 := (tmax * t2717)
  let t2719 := (sabs t2716)
  let t2720 := (cos t2715)
  let t2721 := (t2712 * (1 : α))
  let t2722 := (t2713 * (1 : α))
  let t2723 := (t2714 * (1 : α))
  let t2733 := (q1.v.z * t2720)
  let t2734 := (q1.v.y * t2720)
  let t2735 := (q1.v.x * t2720)
  let t2742 := (((q1.r * t2721) + t2733) + ((q1.v.x * t2722) - (q1.v.y * t2723)))
  let t2743 := (((q1.r * t2722) + t2734) + ((q1.v.z * t2723) - (q1.v.x * t2721)))
  let t2744 := (((q1.r * t2723) + t2735) + ((q1.v.y * t2721) - (q1.v.z * t2722)))
  let t2750 := (q1.r * t2720)
  let t2751 := (t2750 - (((q1.v.x * t2723) + (q1.v.y * t2722)) + (q1.v.z * t2721)))
  let t2759 := (sqrt ((t2751 * t2751) + (((t2744 * t2744) + (t2743 * t2743)) + (t2742 * t2742))))
  let t2760 := (t2751 / t2759)
  let t2761 := (t2744 / t2759)
  let t2762 := (t2743 / t2759)
  let t2763 := (t2742 / t2759)
  let t2764 := (t2716 / t2715)
  let t2765 := (t2712 * t2764)
  let t2766 := (t2713 * t2764)
  let t2767 := (t2714 * t2764)
  let t2783 := (((q1.r * t2765) + t2733) + ((q1.v.x * t2766) - (q1.v.y * t2767)))
  let t2784 := (((q1.r * t2766) + t2734) + ((q1.v.z * t2767) - (q1.v.x * t2765)))
  let t2785 := (((q1.r * t2767) + t2735) + ((q1.v.y * t2765) - (q1.v.z * t2766)))
  let t2791 := (t2750 - (((q1.v.x * t2767) + (q1.v.y * t2766)) + (q1.v.z * t2765)))
  let t2799 := (sqrt ((t2791 * t2791) + (((t2785 * t2785) + (t2784 * t2784)) + (t2783 * t2783))))
  let t2800 := (t2791 / t2799)
  let t2801 := (t2785 / t2799)
  let t2802 := (t2784 / t2799)
  let t2803 := (t2783 / t2799)
  let t2807 := ((t2220 + t2611) * (-((1 : α) / (4 : α))))
  let t2808 := ((t2221 + t2612) * (-((1 : α) / (4 : α))))
  let t2809 := ((t2222 + t2613) * (-((1 : α) / (4 : α))))
  let t2810 := (V3.length tmin sqrt ⟨t2809, t2808, t2807⟩)
  let t2811 := (sin t2810)
  let t2812 := (sabs t2810)
  let t2813 := (tmax * t2812)
  let t2814 := (sabs t2811)
  let t2815 := (cos t2810)
  let t2816 := (t2807 * (1 : α))
  let t2817 := (t2808 * (1 : α))
  let t2818 := (t2809 * (1 : α))
  let t2828 := (q1.v.z * t2815)
  let t2829 := (q1.v.y * t2815)
  let t2830 := (q1.v.x * t2815)
  let t2837 := (((q1.r * t2816) + t2828) + ((q1.v.x * t2817) - (q1.v.y * t2818)))
  let t2838 := (((q1.r * t2817) + t2829) + ((q1.v.z * t2818) - (q1.v.x * t2816)))
  let t2839 := (((q1.r * t2818) + t2830) + ((q1.v.y * t2816) - (q1.v.z * t2817)))
  let t2845 := (q1.r * t2815)
  let t2846 := (t2845 - (((q1.v.x * t2818) + (q1.v.y * t2817)) + (q1.v.z * t2816)))
  let t2854 := (sqrt ((t2846 * t2846) + (((t2839 * t2839) + (t2838 * t2838)) + (t2837 * t2837))))
  let t2855 := (t2846 / t2854)
  let t2856 := (t2839 / t2854)
  let t2857 := (t2838 / t2854)
  let t2858 := (t2837 / t2854)
  let t2859 := (t2811 / t2810)
  let t2860 := (t2807 * t2859)
  let t2861 := (t2808 * t2859)
  let t2862 := (t2809 * t2859)
  let t2878 := (((q1.r * t2860) + t2828) + ((q1.v.x * t2861) - (q1.v.y * t2862)))
  let t2879 := (((q1.r * t2861) + t2829) + ((q1.v.z * t2862) - (q1.v.x * t2860)))
  let t2880 := (((q1.r * t2862) + t2830) + ((q1.v.y * t2860) - (q1.v.z * t2861)))
  let t2886 := (t2845 - (((q1.v.x * t2862) + (q1.v.y * t2861)) + (q1.v.z * t2860)))
  let t2894 := (sqrt ((t2886 * t2886) + (((t2880 * t2880) + (t2879 * t2879)) + (t2878 * t2878))))
  let t2895 := (t2886 / t2894)
  let t2896 := (t2880 / t2894)
  let t2897 := (t2879 / t2894)
  let t2898 := (t2878 / t2894)
  if t2017 = (0 : α) then
    if t2019 = (0 : α) then
      if t2030 < (1 : α) then
        if t2031 ≤ t2032 then
          if t2072 = (0 : α) then
            ⟨(1 : α), ⟨(0 : α), (0 : α), (0 : α)⟩⟩
          else
            ⟨(t2064 / t2072), ⟨(t2057 / t2072), (t2056 / t2072), (t2055 / t2072)⟩⟩
        else
          if t2112 = (0 : α) then
            ⟨(1 : α), ⟨(0 : α), (0 : α), (0 : α)⟩⟩
          else
            ⟨t2113, ⟨t2114, t2115, t2116⟩⟩
      else
        if t2112 = (0 : α) then
          ⟨(1 : α), ⟨(0 : α), (0 : α), (0 : α)⟩⟩
        else
          ⟨t2113, ⟨t2114, t2115, t2116⟩⟩
    else
      if t2118 < (1 : α) then
        if t2119 ≤ t2120 then
          if t2132 < (1 : α) then
            if t2133 ≤ t2134 then
              if t2174 = (0 : α) then
                ⟨(1 : α), ⟨(0 : α), (0 : α), (0 : α)⟩⟩
              else
                ⟨(t2166 / t2174), ⟨(t2159 / t2174), (t2158 / t2174), (t2157 / t2174)⟩⟩
            else
              if t2214 = (0 : α) then
                ⟨(1 : α), ⟨(0 : α), (0 : α), (0 : α)⟩⟩
              else
                ⟨t2215, ⟨t2216, t2217, t2218⟩⟩
          else
            if t2214 = (0 : α) then
              ⟨(1 : α), ⟨(0 : α), (0 : α), (0 : α)⟩⟩
            else
              ⟨t2215, ⟨t2216, t2217, t2218⟩⟩
        else
          if t2231 < (1 : α) then
            if t2232 ≤ t2233 then
              if t2273 = (0 : α) then
                ⟨(1 : α), ⟨(0 : α), (0 : α), (0 : α)⟩⟩
              else
                ⟨t2274, ⟨t2275, t2276, t2277⟩⟩
            else
              if t2313 = (0 : α) then
                ⟨(1 : α), ⟨(0 : α), (0 : α), (0 : α)⟩⟩
              else
                ⟨t2314, ⟨t2315, t2316, t2317⟩⟩
          else
            if t2313 = (0 : α) then
              ⟨(1 : α), ⟨(0 : α), (0 : α), (0 : α)⟩⟩
            else
              ⟨t2314, ⟨t2315, t2316, t2317⟩⟩
      else
        if t2231 < (1 : α) then
          if t2232 ≤ t2233 then
            if t2273 = (0 : α) then
              ⟨(1 : α), ⟨(0 : α), (0 : α), (0 : α)⟩⟩
            else
              ⟨t2274, ⟨t2275, t2276, t2277⟩⟩
          else
            if t2313 = (0 : α) then
              ⟨(1 : α), ⟨(0 : α), (0 : α), (0 : α)⟩⟩
            else
              ⟨t2314, ⟨t2315, t2316, t2317⟩⟩
        else
          if t2313 = (0 : α) then
            ⟨(1 : α), ⟨(0 : α), (0 : α), (0 : α)⟩⟩
          else
            ⟨t2314, ⟨t2315, t2316, t2317⟩⟩
  else
    if t2319 < (1 : α) then
      if t2320 ≤ t2321 then
        if t2019 = (0 : α) then
          if t2333 < (1 : α) then
            if t2334 ≤ t2335 then
              if t2375 = (0 : α) then
                ⟨(1 : α), ⟨(0 : α), (0 : α), (0 : α)⟩⟩
              else
                ⟨(t2367 / t2375), ⟨(t2360 / t2375), (t2359 / t2375), (t2358 / t2375)⟩⟩
            else
              if t2415 = (0 : α) then
                ⟨(1 : α), ⟨(0 : α), (0 : α), (0 : α)⟩⟩
              else
                ⟨t2416, ⟨t2417, t2418, t2419⟩⟩
          else
            if t2415 = (0 : α) then
              ⟨(1 : α), ⟨(0 : α), (0 : α), (0 : α)⟩⟩
            else
              ⟨t2416, ⟨t2417, t2418, t2419⟩⟩
        else
          if t2118 < (1 : α) then
            if t2119 ≤ t2120 then
              if t2428 < (1 : α) then
                if t2429 ≤ t2430 then
                  if t2470 = (0 : α) then
                    ⟨(1 : α), ⟨(0 : α), (0 : α), (0 : α)⟩⟩
                  else
                    ⟨(t2462 / t2470), ⟨(t2455 / t2470), (t2454 / t2470), (t2453 / t2470)⟩⟩
                else
                  if t2510 = (0 : α) then
                    ⟨(1 : α), ⟨(0 : α), (0 : α), (0 : α)⟩⟩
                  else
                    ⟨t2511, ⟨t2512, t2513, t2514⟩⟩
              else
                if t2510 = (0 : α) then
                  ⟨(1 : α), ⟨(0 : α), (0 : α), (0 : α)⟩⟩
                else
                  ⟨t2511, ⟨t2512, t2513, t2514⟩⟩
            else
              if t2523 < (1 : α) then
                if t2524 ≤ t2525 then
                  if t2565 = (0 : α) then
                    ⟨(1 : α), ⟨(0 : α), (0 : α), (0 : α)⟩⟩
                  else
                    ⟨t2566, ⟨t2567, t2568, t2569⟩⟩
                else
                  if t2605 = (0 : α) then
                    ⟨(1 : α), ⟨(0 : α), (0 : α), (0 : α)⟩⟩
                  else
                    ⟨t2606, ⟨t2607, t2608, t2609⟩⟩
              else
                if t2605 = (0 : α) then
                  ⟨(1 : α), ⟨(0 : α), (0 : α), (0 : α)⟩⟩
                else
                  ⟨t2606, ⟨t2607, t2608, t2609⟩⟩
          else
            if t2523 < (1 : α) then
              if t2524 ≤ t2525 then
                if t2565 = (0 : α) then
                  ⟨(1 : α), ⟨(0 : α), (0 : α), (0 : α)⟩⟩
                else
                  ⟨t2566, ⟨t2567, t2568, t2569⟩⟩
              else
                if t2605 = (0 : α) then
                  ⟨(1 : α), ⟨(0 : α), (0 : α), (0 : α)⟩⟩
                else
                  ⟨t2606, ⟨t2607, t2608, t2609⟩⟩
            else
              if t2605 = (0 : α) then
                ⟨(1 : α), ⟨(0 : α), (0 : α), (0 : α)⟩⟩
              else
                ⟨t2606, ⟨t2607, t2608, t2609⟩⟩
      else
        if t2019 = (0 : α) then
          if t2622 < (1 : α) then
            if t2623 ≤ t2624 then
              if t2664 = (0 : α) then
                ⟨(1 : α), ⟨(0 : α), (0 : α), (0 : α)⟩⟩
              else
                ⟨t2665, ⟨t2666, t2667, t2668⟩⟩
            else
              if t2704 = (0 : α) then
                ⟨(1 : α), ⟨(0 : α), (0 : α), (0 : α)⟩⟩
              else
                ⟨t2705, ⟨t2706, t2707, t2708⟩⟩
          else
            if t2704 = (0 : α) then
              ⟨(1 : α), ⟨(0 : α), (0 : α), (0 : α)⟩⟩
            else
              ⟨t2705, ⟨t2706, t2707, t2708⟩⟩
        else
          if t2118 < (1 : α) then
            if t2119 ≤ t2120 then
              if t2717 < (1 : α) then
                if t2718 ≤ t2719 then
                  if t2759 = (0 : α) then
                    ⟨(1 : α), ⟨(0 : α), (0 : α), (0 : α)⟩⟩
                  else
                    ⟨t2760, ⟨t2761, t2762, t2763⟩⟩
                else
                  if t2799 = (0 : α) then
                    ⟨(1 : α), ⟨(0 : α), (0 : α), (0 : α)⟩⟩
                  else
                    ⟨t2800, ⟨t2801, t2802, t2803⟩⟩
              else
                if t2799 = (0 : α) then
                  ⟨(1 : α), ⟨(0 : α), (0 : α), (0 : α)⟩⟩
                else
                  ⟨t2800, ⟨t2801, t2802, t2803⟩⟩
            else
              if t2812 < (1 : α) then
                if t2813 ≤ t2814 then
                  if t2854 = (0 : α) then
                    ⟨(1 : α), ⟨(0 : α), (0 : α), (0 : α)⟩⟩
                  else
                    ⟨t2855, ⟨t2856, t2857, t2858⟩⟩
                else
                  if t2894 = (0 : α) then
                    ⟨(1 : α), ⟨(0 : α), (0 : α), (0 : α)⟩⟩
                  else
                    ⟨t2895, ⟨t2896, t2897, t2898⟩⟩
              else
                if t2894 = (0 : α) then
                  ⟨(1 : α), ⟨(0 : α), (0 : α), (0 : α)⟩⟩
                else
                  ⟨t2895, ⟨t2896, t2897, t2898⟩⟩
          else
            if t2812 < (1 : α) then
              if t2813 ≤ t2814 then
                if t2854 = (0 : α) then
                  ⟨(1 : α), ⟨(0 : α), (0 : α), (0 : α)⟩⟩
                else
                  ⟨t2855, ⟨t2856, t2857, t2858⟩⟩
              else
                if t2894 = (0 : α) then
                  ⟨(1 : α), ⟨(0 : α), (0 : α), (0 : α)⟩⟩
                else
                  ⟨t2895, ⟨t2896, t2897, t2898⟩⟩
            else
              if t2894 = (0 : α) then
                ⟨(1 : α), ⟨(0 : α), (0 : α), (0 : α)⟩⟩
              else
                ⟨t2895, ⟨t2896, t2897, t2898⟩⟩
    else
      if t2019 = (0 : α) then
        if t2622 < (1 : α) then
          if t2623 ≤ t2624 then
            if t2664 = (0 : α) then
              ⟨(1 : α), ⟨(0 : α), (0 : α), (0 : α)⟩⟩
            else
              ⟨t2665, ⟨t2666, t2667, t2668⟩⟩
          else
            if t2704 = (0 : α) then
              ⟨(1 : α), ⟨(0 : α), (0 : α), (0 : α)⟩⟩
            else
              ⟨t2705, ⟨t2706, t2707, t2708⟩⟩
        else
          if t2704 = (0 : α) then
            ⟨(1 : α), ⟨(0 : α), (0 : α), (0 : α)⟩⟩
          else
            ⟨t2705, ⟨t2706, t2707, t2708⟩⟩
      else
        if t2118 < (1 : α) then
          if t2119 ≤ t2120 then
            if t2717 < (1 : α) then
              if t2718 ≤ t2719 then
                if t2759 = (0 : α) then
                  ⟨(1 : α), ⟨(0 : α), (0 : α), (0 : α)⟩⟩
                else
                  ⟨t2760, ⟨t2761, t2762, t2763⟩⟩
              else
                if t2799 = (0 : α) then
                  ⟨(1 : α), ⟨(0 : α), (0 : α), (0 : α)⟩⟩
                else
                  ⟨t2800, ⟨t2801, t2802, t2803⟩⟩
            else
              if t2799 = (0 : α) then
                ⟨(1 : α), ⟨(0 : α), (0 : α), (0 : α)⟩⟩
              else
                ⟨t2800, ⟨t2801, t2802, t2803⟩⟩
          else
            if t2812 < (1 : α) then
              if t2813 ≤ t2814 then
                if t2854 = (0 : α) then
                  ⟨(1 : α), ⟨(0 : α), (0 : α), (0 : α)⟩⟩
                else
                  ⟨t2855, ⟨t2856, t2857, t2858⟩⟩
              else
                if t2894 = (0 : α) then
                  ⟨(1 : α), ⟨(0 : α), (0 : α), (0 : α)⟩⟩
                else
                  ⟨t2895, ⟨t2896, t2897, t2898⟩⟩
            else
              if t2894 = (0 : α) then
                ⟨(1 : α), ⟨(0 : α), (0 : α), (0 : α)⟩⟩
              else
                ⟨t2895, ⟨t2896, t2897, t2898⟩⟩
        else
          if t2812 < (1 : α) then
            if t2813 ≤ t2814 then
              if t2854 = (0 : α) then
                ⟨(1 : α), ⟨(0 : α), (0 : α), (0 : α)⟩⟩
              else
                ⟨t2855, ⟨t2856, t2857, t2858⟩⟩
            else
              if t2894 = (0 : α) then
                ⟨(1 : α), ⟨(0 : α), (0 : α), (0 : α)⟩⟩
              else
                ⟨t2895, ⟨t2896, t2897, t2898⟩⟩
          else
            if t2894 = (0 : α) then
              ⟨(1 : α), ⟨(0 : α), (0 : α), (0 : α)⟩⟩
            else
              ⟨t2895, ⟨t2896, t2897, t2898⟩⟩

end ImathVerif.Gen
