-- GENERATED from /repo/src/Imath by harness/sym (T = Sym path extraction); do not edit.
import ImathVerif.Basic.Types
import ImathVerif.Gen.Leaf
set_option linter.unusedVariables false
namespace ImathVerif.Gen
open ImathVerif

/-- extracted from the C++ template at T = Sym; 4 path(s) -/
def LineAlgo.closestPoints {α : Type} [Add α] [Sub α] [Mul α] [Div α] [Neg α] [LT α] [DecidableLT α] [OfNat α 0] [OfNat α 1] (tmax : α) (l1 : Line3 α) (l2 : Line3 α) : (Bool × (V3 α) × (V3 α)) :=
  let t56 := (l1.pos.z - l2.pos.z)
  let t57 := (l1.pos.y - l2.pos.y)
  let t58 := (l1.pos.x - l2.pos.x)
  let t63 := (((l1.dir.x * t58) + (l1.dir.y * t57)) + (l1.dir.z * t56))
  let t73 := (((l2.dir.x * t58) + (l2.dir.y * t57)) + (l2.dir.z * t56))
  let t214 := (((l1.dir.x * l2.dir.x) + (l1.dir.y * l2.dir.y)) + (l1.dir.z * l2.dir.z))
  let t216 := ((t214 * t73) - t63)
  let t218 := (t73 - (t214 * t63))
  let t220 := ((1 : α) - (t214 * t214))
  let t221 := (sabs t220)
  let t222 := (t216 / t220)
  let t226 := (l1.pos.z + (l1.dir.z * t222))
  let t227 := (l1.pos.y + (l1.dir.y * t222))
  let t228 := (l1.pos.x + (l1.dir.x * t222))
  let t229 := (t218 / t220)
  let t233 := (l2.pos.z + (l2.dir.z * t229))
  let t234 := (l2.pos.y + (l2.dir.y * t229))
  let t235 := (l2.pos.x + (l2.dir.x * t229))
  let t236 := (tmax * t221)
  let t237 := (sabs t216)
  let t238 := (sabs t218)
  if (1 : α) < t221 then
    (true, ⟨t228, t227, t226⟩, ⟨t235, t234, t233⟩)
  else
    if t237 < t236 then
      if t238 < t236 then
        (true, ⟨t228, t227, t226⟩, ⟨t235, t234, t233⟩)
      else
        (false, ⟨(0 : α), (0 : α), (0 : α)⟩, ⟨(0 : α), (0 : α), (0 : α)⟩)
    else
      (false, ⟨(0 : α), (0 : α), (0 : α)⟩, ⟨(0 : α), (0 : α), (0 : α)⟩)

/-- extracted from the C++ template at T = Sym; 50 path(s) -/
def LineAlgo.intersect {α : Type} [Add α] [Sub α] [Mul α] [Div α] [Neg α] [LT α] [LE α] [DecidableLT α] [DecidableLE α] [DecidableEq α] [OfNat α 0] [OfNat α 1] [OfNat α 2] (tmin : α) (tmax : α) (sqrt : α → α) (l : Line3 α) (v0 : V3 α) (v1 : V3 α) (v2 : V3 α) : (Bool × (V3 α) × (V3 α) × Bool) :=
  let t248 := (v1.z - v0.z)
  let t249 := (v1.y - v0.y)
  let t250 := (v1.x - v0.x)
  let t251 := (v2.z - v1.z)
  let t252 := (v2.y - v1.y)
  let t253 := (v2.x - v1.x)
  let t256 := ((t253 * t249) - (t252 * t250))
  let t259 := ((t251 * t250) - (t253 * t248))
  let t262 := ((t252 * t248) - (t251 * t249))
  let t263 := (V3.length tmin tmax sqrt ⟨t262, t259, t256⟩)
  let t264 := (t262 / t263)
  let t265 := (t259 / t263)
  let t266 := (t256 / t263)
  let t274 := (((t264 * (v0.x - l.pos.x)) + (t265 * (v0.y - l.pos.y))) + (t266 * (v0.z - l.pos.z)))
  let t279 := (((t264 * l.dir.x) + (t265 * l.dir.y)) + (t266 * l.dir.z))
  let t280 := (sabs t279)
  let t281 := (t274 / t279)
  let t285 := (l.pos.z + (l.dir.z * t281))
  let t286 := (l.pos.y + (l.dir.y * t281))
  let t287 := (l.pos.x + (l.dir.x * t281))
  let t288 := (V3.length tmin tmax sqrt ⟨t250, t249, t248⟩)
  let t289 := (t285 - v0.z)
  let t290 := (t286 - v0.y)
  let t291 := (t287 - v0.x)
  let t292 := (v2.z - v0.z)
  let t293 := (v2.y - v0.y)
  let t294 := (v2.x - v0.x)
  let t300 := ((0 : α) * ((((0 : α) * t291) + ((0 : α) * t290)) + ((0 : α) * t289)))
  let t309 := ((0 : α) * ((((0 : α) * t294) + ((0 : α) * t293)) + ((0 : α) * t292)))
  let t310 := (t292 - t309)
  let t311 := (t293 - t309)
  let t312 := (t294 - t309)
  let t317 := ((((t291 - t300) * t312) + ((t290 - t300) * t311)) + ((t289 - t300) * t310))
  let t322 := (((t312 * t312) + (t311 * t311)) + (t310 * t310))
  let t323 := (t317 / t322)
  let t324 := (V3.length tmin tmax sqrt ⟨t253, t252, t251⟩)
  let t325 := (t285 - v1.z)
  let t326 := (t286 - v1.y)
  let t327 := (t287 - v1.x)
  let t328 := (v0.z - v1.z)
  let t329 := (v0.y - v1.y)
  let t330 := (v0.x - v1.x)
  let t336 := ((0 : α) * ((((0 : α) * t327) + ((0 : α) * t326)) + ((0 : α) * t325)))
  let t345 := ((0 : α) * ((((0 : α) * t330) + ((0 : α) * t329)) + ((0 : α) * t328)))
  let t346 := (t328 - t345)
  let t347 := (t329 - t345)
  let t348 := (t330 - t345)
  let t353 := ((((t327 - t336) * t348) + ((t326 - t336) * t347)) + ((t325 - t336) * t346))
  let t358 := (((t348 * t348) + (t347 * t347)) + (t346 * t346))
  let t359 := (t353 / t358)
  let t360 := ((1 : α) - t359)
  let t361 := (t360 - t323)
  let t366 := (((l.dir.x * t264) + (l.dir.y * t265)) + (l.dir.z * t266))
  let t367 := (t251 / t324)
  let t368 := (t252 / t324)
  let t369 := (t253 / t324)
  let t374 := (((t369 * t327) + (t368 * t326)) + (t367 * t325))
  let t385 := (((t369 * t330) + (t368 * t329)) + (t367 * t328))
  let t389 := (t328 - (t367 * t385))
  let t390 := (t329 - (t368 * t385))
  let t391 := (t330 - (t369 * t385))
  let t396 := ((((t327 - (t369 * t374)) * t391) + ((t326 - (t368 * t374)) * t390)) + ((t325 - (t367 * t374)) * t389))
  let t401 := (((t391 * t391) + (t390 * t390)) + (t389 * t389))
  let t402 := (t396 / t401)
  let t403 := ((1 : α) - t402)
  let t404 := (t403 - t323)
  let t405 := (t248 / t288)
  let t406 := (t249 / t288)
  let t407 := (t250 / t288)
  let t412 := (((t407 * t291) + (t406 * t290)) + (t405 * t289))
  let t423 := (((t407 * t294) + (t406 * t293)) + (t405 * t292))
  let t427 := (t292 - (t405 * t423))
  let t428 := (t293 - (t406 * t423))
  let t429 := (t294 - (t407 * t423))
  let t434 := ((((t291 - (t407 * t412)) * t429) + ((t290 - (t406 * t412)) * t428)) + ((t289 - (t405 * t412)) * t427))
  let t439 := (((t429 * t429) + (t428 * t428)) + (t427 * t427))
  let t440 := (t434 / t439)
  let t441 := (t360 - t440)
  let t442 := (t403 - t440)
  let t443 := (tmax * t280)
  let t444 := (sabs t274)
  if t263 = (0 : α) then
    (false, ⟨(0 : α), (0 : α), (0 : α)⟩, ⟨(0 : α), (0 : α), (0 : α)⟩, false)
  else
    if (1 : α) < t280 then
      if t288 = (0 : α) then
        if (0 : α) ≤ t317 then
          if t317 ≤ t322 then
            if t324 = (0 : α) then
              if (0 : α) ≤ t353 then
                if t353 ≤ t358 then
                  if t361 < (0 : α) then
                    (false, ⟨t287, t286, t285⟩, ⟨t359, t361, t323⟩, false)
                  else
                    if t366 < (0 : α) then
                      (true, ⟨t287, t286, t285⟩, ⟨t359, t361, t323⟩, true)
                    else
                      (true, ⟨t287, t286, t285⟩, ⟨t359, t361, t323⟩, false)
                else
                  (false, ⟨t287, t286, t285⟩, ⟨(0 : α), (0 : α), t323⟩, false)
              else
                (false, ⟨t287, t286, t285⟩, ⟨(0 : α), (0 : α), t323⟩, false)
            else
              if (0 : α) ≤ t396 then
                if t396 ≤ t401 then
                  if t404 < (0 : α) then
                    (false, ⟨t287, t286, t285⟩, ⟨t402, t404, t323⟩, false)
                  else
                    if t366 < (0 : α) then
                      (true, ⟨t287, t286, t285⟩, ⟨t402, t404, t323⟩, true)
                    else
                      (true, ⟨t287, t286, t285⟩, ⟨t402, t404, t323⟩, false)
                else
                  (false, ⟨t287, t286, t285⟩, ⟨(0 : α), (0 : α), t323⟩, false)
              else
                (false, ⟨t287, t286, t285⟩, ⟨(0 : α), (0 : α), t323⟩, false)
          else
            (false, ⟨t287, t286, t285⟩, ⟨(0 : α), (0 : α), (0 : α)⟩, false)
        else
          (false, ⟨t287, t286, t285⟩, ⟨(0 : α), (0 : α), (0 : α)⟩, false)
      else
        if (0 : α) ≤ t434 then
          if t434 ≤ t439 then
            if t324 = (0 : α) then
              if (0 : α) ≤ t353 then
                if t353 ≤ t358 then
                  if t441 < (0 : α) then
                    (false, ⟨t287, t286, t285⟩, ⟨t359, t441, t440⟩, false)
                  else
                    if t366 < (0 : α) then
                      (true, ⟨t287, t286, t285⟩, ⟨t359, t441, t440⟩, true)
                    else
                      (true, ⟨t287, t286, t285⟩, ⟨t359, t441, t440⟩, false)
                else
                  (false, ⟨t287, t286, t285⟩, ⟨(0 : α), (0 : α), t440⟩, false)
              else
                (false, ⟨t287, t286, t285⟩, ⟨(0 : α), (0 : α), t440⟩, false)
            else
              if (0 : α) ≤ t396 then
                if t396 ≤ t401 then
                  if t442 < (0 : α) then
                    (false, ⟨t287, t286, t285⟩, ⟨t402, t442, t440⟩, false)
                  else
                    if t366 < (0 : α) then
                      (true, ⟨t287, t286, t285⟩, ⟨t402, t442, t440⟩, true)
                    else
                      (true, ⟨t287, t286, t285⟩, ⟨t402, t442, t440⟩, false)
                else
                  (false, ⟨t287, t286, t285⟩, ⟨(0 : α), (0 : α), t440⟩, false)
              else
                (false, ⟨t287, t286, t285⟩, ⟨(0 : α), (0 : α), t440⟩, false)
          else
            (false, ⟨t287, t286, t285⟩, ⟨(0 : α), (0 : α), (0 : α)⟩, false)
        else
          (false, ⟨t287, t286, t285⟩, ⟨(0 : α), (0 : α), (0 : α)⟩, false)
    else
      if t444 < t443 then
        if t288 = (0 : α) then
          if (0 : α) ≤ t317 then
            if t317 ≤ t322 then
              if t324 = (0 : α) then
                if (0 : α) ≤ t353 then
                  if t353 ≤ t358 then
                    if t361 < (0 : α) then
                      (false, ⟨t287, t286, t285⟩, ⟨t359, t361, t323⟩, false)
                    else
                      if t366 < (0 : α) then
                        (true, ⟨t287, t286, t285⟩, ⟨t359, t361, t323⟩, true)
                      else
                        (true, ⟨t287, t286, t285⟩, ⟨t359, t361, t323⟩, false)
                  else
                    (false, ⟨t287, t286, t285⟩, ⟨(0 : α), (0 : α), t323⟩, false)
                else
                  (false, ⟨t287, t286, t285⟩, ⟨(0 : α), (0 : α), t323⟩, false)
              else
                if (0 : α) ≤ t396 then
                  if t396 ≤ t401 then
                    if t404 < (0 : α) then
                      (false, ⟨t287, t286, t285⟩, ⟨t402, t404, t323⟩, false)
                    else
                      if t366 < (0 : α) then
                        (true, ⟨t287, t286, t285⟩, ⟨t402, t404, t323⟩, true)
                      else
                        (true, ⟨t287, t286, t285⟩, ⟨t402, t404, t323⟩, false)
                  else
                    (false, ⟨t287, t286, t285⟩, ⟨(0 : α), (0 : α), t323⟩, false)
                else
                  (false, ⟨t287, t286, t285⟩, ⟨(0 : α), (0 : α), t323⟩, false)
            else
              (false, ⟨t287, t286, t285⟩, ⟨(0 : α), (0 : α), (0 : α)⟩, false)
          else
            (false, ⟨t287, t286, t285⟩, ⟨(0 : α), (0 : α), (0 : α)⟩, false)
        else
          if (0 : α) ≤ t434 then
            if t434 ≤ t439 then
              if t324 = (0 : α) then
                if (0 : α) ≤ t353 then
                  if t353 ≤ t358 then
                    if t441 < (0 : α) then
                      (false, ⟨t287, t286, t285⟩, ⟨t359, t441, t440⟩, false)
                    else
                      if t366 < (0 : α) then
                        (true, ⟨t287, t286, t285⟩, ⟨t359, t441, t440⟩, true)
                      else
                        (true, ⟨t287, t286, t285⟩, ⟨t359, t441, t440⟩, false)
                  else
                    (false, ⟨t287, t286, t285⟩, ⟨(0 : α), (0 : α), t440⟩, false)
                else
                  (false, ⟨t287, t286, t285⟩, ⟨(0 : α), (0 : α), t440⟩, false)
              else
                if (0 : α) ≤ t396 then
                  if t396 ≤ t401 then
                    if t442 < (0 : α) then
                      (false, ⟨t287, t286, t285⟩, ⟨t402, t442, t440⟩, false)
                    else
                      if t366 < (0 : α) then
                        (true, ⟨t287, t286, t285⟩, ⟨t402, t442, t440⟩, true)
                      else
                        (true, ⟨t287, t286, t285⟩, ⟨t402, t442, t440⟩, false)
                  else
                    (false, ⟨t287, t286, t285⟩, ⟨(0 : α), (0 : α), t440⟩, false)
                else
                  (false, ⟨t287, t286, t285⟩, ⟨(0 : α), (0 : α), t440⟩, false)
            else
              (false, ⟨t287, t286, t285⟩, ⟨(0 : α), (0 : α), (0 : α)⟩, false)
          else
            (false, ⟨t287, t286, t285⟩, ⟨(0 : α), (0 : α), (0 : α)⟩, false)
      else
        (false, ⟨(0 : α), (0 : α), (0 : α)⟩, ⟨(0 : α), (0 : α), (0 : α)⟩, false)

/-- extracted from the C++ template at T = Sym; 4 path(s) -/
def LineAlgo.closestVertex {α : Type} [Add α] [Sub α] [Mul α] [LT α] [DecidableLT α] (v0 : V3 α) (v1 : V3 α) (v2 : V3 α) (l : Line3 α) : (V3 α) :=
  let t449 := ((((v0.x - l.pos.x) * l.dir.x) + ((v0.y - l.pos.y) * l.dir.y)) + ((v0.z - l.pos.z) * l.dir.z))
  let t456 := (v0.z - ((t449 * l.dir.z) + l.pos.z))
  let t457 := (v0.y - ((t449 * l.dir.y) + l.pos.y))
  let t458 := (v0.x - ((t449 * l.dir.x) + l.pos.x))
  let t463 := (((t458 * t458) + (t457 * t457)) + (t456 * t456))
  let t471 := ((((v1.x - l.pos.x) * l.dir.x) + ((v1.y - l.pos.y) * l.dir.y)) + ((v1.z - l.pos.z) * l.dir.z))
  let t478 := (v1.z - ((t471 * l.dir.z) + l.pos.z))
  let t479 := (v1.y - ((t471 * l.dir.y) + l.pos.y))
  let t480 := (v1.x - ((t471 * l.dir.x) + l.pos.x))
  let t485 := (((t480 * t480) + (t479 * t479)) + (t478 * t478))
  let t493 := ((((v2.x - l.pos.x) * l.dir.x) + ((v2.y - l.pos.y) * l.dir.y)) + ((v2.z - l.pos.z) * l.dir.z))
  let t500 := (v2.z - ((t493 * l.dir.z) + l.pos.z))
  let t501 := (v2.y - ((t493 * l.dir.y) + l.pos.y))
  let t502 := (v2.x - ((t493 * l.dir.x) + l.pos.x))
  let t507 := (((t502 * t502) + (t501 * t501)) + (t500 * t500))
  if t485 < t463 then
    if t507 < t485 then
      ⟨v2.x, v2.y, v2.z⟩
    else
      ⟨v1.x, v1.y, v1.z⟩
  else
    if t507 < t463 then
      ⟨v2.x, v2.y, v2.z⟩
    else
      ⟨v0.x, v0.y, v0.z⟩

/-- extracted from the C++ template at T = Sym; 4 path(s) -/
def LineAlgo.rotatePoint {α : Type} [Add α] [Sub α] [Mul α] [Div α] [Neg α] [LT α] [LE α] [DecidableLT α] [DecidableLE α] [DecidableEq α] [OfNat α 0] [OfNat α 2] (tmin : α) (tmax : α) (sqrt : α → α) (sin : α → α) (cos : α → α) (p : V3 α) (l : Line3 α) (angle : α) : (V3 α) :=
  let t37 := ((((p.x - l.pos.x) * l.dir.x) + ((p.y - l.pos.y) * l.dir.y)) + ((p.z - l.pos.z) * l.dir.z))
  let t41 := ((t37 * l.dir.z) + l.pos.z)
  let t42 := ((t37 * l.dir.y) + l.pos.y)
  let t43 := ((t37 * l.dir.x) + l.pos.x)
  let t509 := (p.z - t41)
  let t510 := (p.y - t42)
  let t511 := (p.x - t43)
  let t512 := (V3.length tmin tmax sqrt ⟨t511, t510, t509⟩)
  let t515 := ((t511 * l.dir.y) - (t510 * l.dir.x))
  let t518 := ((t509 * l.dir.x) - (t511 * l.dir.z))
  let t521 := ((t510 * l.dir.z) - (t509 * l.dir.y))
  let t522 := (V3.length tmin tmax sqrt ⟨t521, t518, t515⟩)
  let t523 := (cos angle)
  let t524 := (sin angle)
  let t537 := (t41 + ((t509 * t512) * t523))
  let t538 := (t42 + ((t510 * t512) * t523))
  let t539 := (t43 + ((t511 * t512) * t523))
  let t555 := (t511 / t512)
  let t556 := (t510 / t512)
  let t557 := (t509 / t512)
  let t560 := ((t555 * l.dir.y) - (t556 * l.dir.x))
  let t563 := ((t557 * l.dir.x) - (t555 * l.dir.z))
  let t566 := ((t556 * l.dir.z) - (t557 * l.dir.y))
  let t567 := (V3.length tmin tmax sqrt ⟨t566, t563, t560⟩)
  let t580 := (t41 + ((t557 * t512) * t523))
  let t581 := (t42 + ((t556 * t512) * t523))
  let t582 := (t43 + ((t555 * t512) * t523))
  if t512 = (0 : α) then
    if t522 = (0 : α) then
      ⟨(t539 + ((t521 * t512) * t524)), (t538 + ((t518 * t512) * t524)), (t537 + ((t515 * t512) * t524))⟩
    else
      ⟨(t539 + (((t521 / t522) * t512) * t524)), (t538 + (((t518 / t522) * t512) * t524)), (t537 + (((t515 / t522) * t512) * t524))⟩
  else
    if t567 = (0 : α) then
      ⟨(t582 + ((t566 * t512) * t524)), (t581 + ((t563 * t512) * t524)), (t580 + ((t560 * t512) * t524))⟩
    else
      ⟨(t582 + (((t566 / t567) * t512) * t524)), (t581 + (((t563 / t567) * t512) * t524)), (t580 + (((t560 / t567) * t512) * t524))⟩

/-- extracted from the C++ template at T = Sym; 2 path(s) -/
def VecAlgo2.project {α : Type} [Add α] [Mul α] [Div α] [Neg α] [LT α] [DecidableLT α] [DecidableEq α] [OfNat α 0] [OfNat α 2] (tmin : α) (tmax : α) (sqrt : α → α) (s : V2 α) (t : V2 α) : (V2 α) :=
  let t602 := (V2.length tmin tmax sqrt ⟨s.x, s.y⟩)
  let t606 := ((0 : α) * (((0 : α) * t.x) + ((0 : α) * t.y)))
  let t607 := (s.y / t602)
  let t608 := (s.x / t602)
  let t611 := ((t608 * t.x) + (t607 * t.y))
  if t602 = (0 : α) then
    ⟨t606, t606⟩
  else
    ⟨(t608 * t611), (t607 * t611)⟩

/-- extracted from the C++ template at T = Sym; 2 path(s) -/
def VecAlgo2.orthogonal {α : Type} [Add α] [Sub α] [Mul α] [Div α] [Neg α] [LT α] [DecidableLT α] [DecidableEq α] [OfNat α 0] [OfNat α 2] (tmin : α) (tmax : α) (sqrt : α → α) (s : V2 α) (t : V2 α) : (V2 α) :=
  let t602 := (V2.length tmin tmax sqrt ⟨s.x, s.y⟩)
  let t606 := ((0 : α) * (((0 : α) * t.x) + ((0 : α) * t.y)))
  let t607 := (s.y / t602)
  let t608 := (s.x / t602)
  let t611 := ((t608 * t.x) + (t607 * t.y))
  if t602 = (0 : α) then
    ⟨(t.x - t606), (t.y - t606)⟩
  else
    ⟨(t.x - (t608 * t611)), (t.y - (t607 * t611))⟩

/-- extracted from the C++ template at T = Sym; 2 path(s) -/
def VecAlgo2.reflect {α : Type} [Add α] [Sub α] [Mul α] [Div α] [Neg α] [LT α] [DecidableLT α] [DecidableEq α] [OfNat α 0] [OfNat α 2] (tmin : α) (tmax : α) (sqrt : α → α) (s : V2 α) (t : V2 α) : (V2 α) :=
  let t618 := (V2.length tmin tmax sqrt ⟨t.x, t.y⟩)
  let t622 := ((0 : α) * (((0 : α) * s.x) + ((0 : α) * s.y)))
  let t630 := (t.y / t618)
  let t631 := (t.x / t618)
  let t634 := ((t631 * s.x) + (t630 * s.y))
  if t618 = (0 : α) then
    ⟨(s.x - ((2 : α) * (s.x - t622))), (s.y - ((2 : α) * (s.y - t622)))⟩
  else
    ⟨(s.x - ((2 : α) * (s.x - (t631 * t634)))), (s.y - ((2 : α) * (s.y - (t630 * t634))))⟩

/-- extracted from the C++ template at T = Sym; 4 path(s) -/
def VecAlgo2.closestVertex {α : Type} [Add α] [Sub α] [Mul α] [LT α] [DecidableLT α] (v0 : V2 α) (v1 : V2 α) (v2 : V2 α) (p : V2 α) : (V2 α) :=
  let t643 := (v0.y - p.y)
  let t644 := (v0.x - p.x)
  let t647 := ((t644 * t644) + (t643 * t643))
  let t648 := (v1.y - p.y)
  let t649 := (v1.x - p.x)
  let t652 := ((t649 * t649) + (t648 * t648))
  let t653 := (v2.y - p.y)
  let t654 := (v2.x - p.x)
  let t657 := ((t654 * t654) + (t653 * t653))
  if t652 < t647 then
    if t657 < t652 then
      ⟨v2.x, v2.y⟩
    else
      ⟨v1.x, v1.y⟩
  else
    if t657 < t647 then
      ⟨v2.x, v2.y⟩
    else
      ⟨v0.x, v0.y⟩

/-- extracted from the C++ template at T = Sym; 2 path(s) -/
def VecAlgo3.project {α : Type} [Add α] [Mul α] [Div α] [Neg α] [LT α] [LE α] [DecidableLT α] [DecidableLE α] [DecidableEq α] [OfNat α 0] [OfNat α 2] (tmin : α) (tmax : α) (sqrt : α → α) (s : V3 α) (t : V3 α) : (V3 α) :=
  let t660 := (V3.length tmin tmax sqrt ⟨s.x, s.y, s.z⟩)
  let t663 := ((0 : α) * ((((0 : α) * t.x) + ((0 : α) * t.y)) + ((0 : α) * t.z)))
  let t664 := (s.z / t660)
  let t665 := (s.y / t660)
  let t666 := (s.x / t660)
  let t671 := (((t666 * t.x) + (t665 * t.y)) + (t664 * t.z))
  if t660 = (0 : α) then
    ⟨t663, t663, t663⟩
  else
    ⟨(t666 * t671), (t665 * t671), (t664 * t671)⟩

/-- extracted from the C++ template at T = Sym; 2 path(s) -/
def VecAlgo3.orthogonal {α : Type} [Add α] [Sub α] [Mul α] [Div α] [Neg α] [LT α] [LE α] [DecidableLT α] [DecidableLE α] [DecidableEq α] [OfNat α 0] [OfNat α 2] (tmin : α) (tmax : α) (sqrt : α → α) (s : V3 α) (t : V3 α) : (V3 α) :=
  let t660 := (V3.length tmin tmax sqrt ⟨s.x, s.y, s.z⟩)
  let t663 := ((0 : α) * ((((0 : α) * t.x) + ((0 : α) * t.y)) + ((0 : α) * t.z)))
  let t664 := (s.z / t660)
  let t665 := (s.y / t660)
  let t666 := (s.x / t660)
  let t671 := (((t666 * t.x) + (t665 * t.y)) + (t664 * t.z))
  if t660 = (0 : α) then
    ⟨(t.x - t663), (t.y - t663), (t.z - t663)⟩
  else
    ⟨(t.x - (t666 * t671)), (t.y - (t665 * t671)), (t.z - (t664 * t671))⟩

/-- extracted from the C++ template at T = Sym; 2 path(s) -/
def VecAlgo3.reflect {α : Type} [Add α] [Sub α] [Mul α] [Div α] [Neg α] [LT α] [LE α] [DecidableLT α] [DecidableLE α] [DecidableEq α] [OfNat α 0] [OfNat α 2] (tmin : α) (tmax : α) (sqrt : α → α) (s : V3 α) (t : V3 α) : (V3 α) :=
  let t681 := (V3.length tmin tmax sqrt ⟨t.x, t.y, t.z⟩)
  let t684 := ((0 : α) * ((((0 : α) * s.x) + ((0 : α) * s.y)) + ((0 : α) * s.z)))
  let t694 := (t.z / t681)
  let t695 := (t.y / t681)
  let t696 := (t.x / t681)
  let t701 := (((t696 * s.x) + (t695 * s.y)) + (t694 * s.z))
  if t681 = (0 : α) then
    ⟨(s.x - ((2 : α) * (s.x - t684))), (s.y - ((2 : α) * (s.y - t684))), (s.z - ((2 : α) * (s.z - t684)))⟩
  else
    ⟨(s.x - ((2 : α) * (s.x - (t696 * t701)))), (s.y - ((2 : α) * (s.y - (t695 * t701)))), (s.z - ((2 : α) * (s.z - (t694 * t701))))⟩

/-- extracted from the C++ template at T = Sym; 4 path(s) -/
def VecAlgo3.closestVertex {α : Type} [Add α] [Sub α] [Mul α] [LT α] [DecidableLT α] (v0 : V3 α) (v1 : V3 α) (v2 : V3 α) (p : V3 α) : (V3 α) :=
  let t643 := (v0.y - p.y)
  let t644 := (v0.x - p.x)
  let t648 := (v1.y - p.y)
  let t649 := (v1.x - p.x)
  let t653 := (v2.y - p.y)
  let t654 := (v2.x - p.x)
  let t714 := (v0.z - p.z)
  let t716 := (((t644 * t644) + (t643 * t643)) + (t714 * t714))
  let t717 := (v1.z - p.z)
  let t719 := (((t649 * t649) + (t648 * t648)) + (t717 * t717))
  let t720 := (v2.z - p.z)
  let t722 := (((t654 * t654) + (t653 * t653)) + (t720 * t720))
  if t719 < t716 then
    if t722 < t719 then
      ⟨v2.x, v2.y, v2.z⟩
    else
      ⟨v1.x, v1.y, v1.z⟩
  else
    if t722 < t716 then
      ⟨v2.x, v2.y, v2.z⟩
    else
      ⟨v0.x, v0.y, v0.z⟩

/-- extracted from the C++ template at T = Sym; 2 path(s) -/
def VecAlgo4.project {α : Type} [Add α] [Mul α] [Div α] [Neg α] [LT α] [LE α] [DecidableLT α] [DecidableLE α] [DecidableEq α] [OfNat α 0] [OfNat α 2] (tmin : α) (tmax : α) (sqrt : α → α) (s : V4 α) (t : V4 α) : (V4 α) :=
  let t725 := (V4.length tmin tmax sqrt ⟨s.x, s.y, s.z, s.w⟩)
  let t728 := ((0 : α) * (((((0 : α) * t.x) + ((0 : α) * t.y)) + ((0 : α) * t.z)) + ((0 : α) * t.w)))
  let t729 := (s.w / t725)
  let t730 := (s.z / t725)
  let t731 := (s.y / t725)
  let t732 := (s.x / t725)
  let t739 := ((((t732 * t.x) + (t731 * t.y)) + (t730 * t.z)) + (t729 * t.w))
  if t725 = (0 : α) then
    ⟨t728, t728, t728, t728⟩
  else
    ⟨(t732 * t739), (t731 * t739), (t730 * t739), (t729 * t739)⟩

/-- extracted from the C++ template at T = Sym; 2 path(s) -/
def VecAlgo4.orthogonal {α : Type} [Add α] [Sub α] [Mul α] [Div α] [Neg α] [LT α] [LE α] [DecidableLT α] [DecidableLE α] [DecidableEq α] [OfNat α 0] [OfNat α 2] (tmin : α) (tmax : α) (sqrt : α → α) (s : V4 α) (t : V4 α) : (V4 α) :=
  let t725 := (V4.length tmin tmax sqrt ⟨s.x, s.y, s.z, s.w⟩)
  let t728 := ((0 : α) * (((((0 : α) * t.x) + ((0 : α) * t.y)) + ((0 : α) * t.z)) + ((0 : α) * t.w)))
  let t729 := (s.w / t725)
  let t730 := (s.z / t725)
  let t731 := (s.y / t725)
  let t732 := (s.x / t725)
  let t739 := ((((t732 * t.x) + (t731 * t.y)) + (t730 * t.z)) + (t729 * t.w))
  if t725 = (0 : α) then
    ⟨(t.x - t728), (t.y - t728), (t.z - t728), (t.w - t728)⟩
  else
    ⟨(t.x - (t732 * t739)), (t.y - (t731 * t739)), (t.z - (t730 * t739)), (t.w - (t729 * t739))⟩

/-- extracted from the C++ template at T = Sym; 2 path(s) -/
def VecAlgo4.reflect {α : Type} [Add α] [Sub α] [Mul α] [Div α] [Neg α] [LT α] [LE α] [DecidableLT α] [DecidableLE α] [DecidableEq α] [OfNat α 0] [OfNat α 2] (tmin : α) (tmax : α) (sqrt : α → α) (s : V4 α) (t : V4 α) : (V4 α) :=
  let t752 := (V4.length tmin tmax sqrt ⟨t.x, t.y, t.z, t.w⟩)
  let t755 := ((0 : α) * (((((0 : α) * s.x) + ((0 : α) * s.y)) + ((0 : α) * s.z)) + ((0 : α) * s.w)))
  let t768 := (t.w / t752)
  let t769 := (t.z / t752)
  let t770 := (t.y / t752)
  let t771 := (t.x / t752)
  let t778 := ((((t771 * s.x) + (t770 * s.y)) + (t769 * s.z)) + (t768 * s.w))
  if t752 = (0 : α) then
    ⟨(s.x - ((2 : α) * (s.x - t755))), (s.y - ((2 : α) * (s.y - t755))), (s.z - ((2 : α) * (s.z - t755))), (s.w - ((2 : α) * (s.w - t755)))⟩
  else
    ⟨(s.x - ((2 : α) * (s.x - (t771 * t778)))), (s.y - ((2 : α) * (s.y - (t770 * t778)))), (s.z - ((2 : α) * (s.z - (t769 * t778)))), (s.w - ((2 : α) * (s.w - (t768 * t778))))⟩

/-- extracted from the C++ template at T = Sym; 4 path(s) -/
def VecAlgo4.closestVertex {α : Type} [Add α] [Sub α] [Mul α] [LT α] [DecidableLT α] (v0 : V4 α) (v1 : V4 α) (v2 : V4 α) (p : V4 α) : (V4 α) :=
  let t643 := (v0.y - p.y)
  let t644 := (v0.x - p.x)
  let t648 := (v1.y - p.y)
  let t649 := (v1.x - p.x)
  let t653 := (v2.y - p.y)
  let t654 := (v2.x - p.x)
  let t714 := (v0.z - p.z)
  let t717 := (v1.z - p.z)
  let t720 := (v2.z - p.z)
  let t799 := (v0.w - p.w)
  let t801 := ((((t644 * t644) + (t643 * t643)) + (t714 * t714)) + (t799 * t799))
  let t802 := (v1.w - p.w)
  let t804 := ((((t649 * t649) + (t648 * t648)) + (t717 * t717)) + (t802 * t802))
  let t805 := (v2.w - p.w)
  let t807 := ((((t654 * t654) + (t653 * t653)) + (t720 * t720)) + (t805 * t805))
  if t804 < t801 then
    if t807 < t804 then
      ⟨v2.x, v2.y, v2.z, v2.w⟩
    else
      ⟨v1.x, v1.y, v1.z, v1.w⟩
  else
    if t807 < t801 then
      ⟨v2.x, v2.y, v2.z, v2.w⟩
    else
      ⟨v0.x, v0.y, v0.z, v0.w⟩

end ImathVerif.Gen
