-- GENERATED from /repo/src/Imath by harness/sym (T = Sym path extraction); do not edit.
import ImathVerif.Basic.Types
import ImathVerif.Gen.Leaf
set_option linter.unusedVariables false
namespace ImathVerif.Gen
open ImathVerif

/-- extracted from the C++ template at T = Sym; 4 path(s) -/
def LineAlgo.closestPoints {α : Type} [Add α] [Sub α] [Mul α] [Div α] [Neg α] [LT α] [DecidableLT α] [OfNat α 0] [OfNat α 1] (tmax : α) (l1 : Line3 α) (l2 : Line3 α) : (Bool × (V3 α) × (V3 α)) :=
  let t56 := (l1.pos.z - l2.pos.z)
  let t57 := (l1.pos.y - l2.pos.y)
  let t58 := (l1.pos.x - l2.pos.x)
  let t63 := (((l1.dir.x * t58) + (l1.dir.y * t57)) + (l1.dir.z * t56))
  let t73 := (((l2.dir.x * t58) + (l2.dir.y * t57)) + (l2.dir.z * t56))
  let t117 := (((l1.dir.x * l2.dir.x) + (l1.dir.y * l2.dir.y)) + (l1.dir.z * l2.dir.z))
  let t119 := ((t117 * t73) - t63)
  let t121 := (t73 - (t117 * t63))
  let t123 := ((1 : α) - (t117 * t117))
  let t124 := (sabs t123)
  let t125 := (t119 / t123)
  let t129 := (l1.pos.z + (l1.dir.z * t125))
  let t130 := (l1.pos.y + (l1.dir.y * t125))
  let t131 := (l1.pos.x + (l1.dir.x * t125))
  let t132 := (t121 / t123)
  let t136 := (l2.pos.z + (l2.dir.z * t132))
  let t137 := (l2.pos.y + (l2.dir.y * t132))
  let t138 := (l2.pos.x + (l2.dir.x * t132))
  let t139 := (tmax * t124)
  let t140 := (sabs t119)
  let t141 := (sabs t121)
  if (1 : α) < t124 then
    (true, ⟨t131, t130, t129⟩, ⟨t138, t137, t136⟩)
  else
    if t140 < t139 then
      if t141 < t139 then
        (true, ⟨t131, t130, t129⟩, ⟨t138, t137, t136⟩)
      else
        (false, ⟨(0 : α), (0 : α), (0 : α)⟩, ⟨(0 : α), (0 : α), (0 : α)⟩)
    else
      (false, ⟨(0 : α), (0 : α), (0 : α)⟩, ⟨(0 : α), (0 : α), (0 : α)⟩)

/-- extracted from the C++ template at T = Sym; 50 path(s) -/
def LineAlgo.intersect {α : Type} [Add α] [Sub α] [Mul α] [Div α] [Neg α] [LT α] [LE α] [DecidableLT α] [DecidableLE α] [DecidableEq α] [OfNat α 0] [OfNat α 1] [OfNat α 2] (tmin : α) (tmax : α) (sqrt : α → α) (l : Line3 α) (v0 : V3 α) (v1 : V3 α) (v2 : V3 α) : (Bool × (V3 α) × (V3 α) × Bool) :=
  let t151 := (v1.z - v0.z)
  let t152 := (v1.y - v0.y)
  let t153 := (v1.x - v0.x)
  let t154 := (v2.z - v1.z)
  let t155 := (v2.y - v1.y)
  let t156 := (v2.x - v1.x)
  let t159 := ((t156 * t152) - (t155 * t153))
  let t162 := ((t154 * t153) - (t156 * t151))
  let t165 := ((t155 * t151) - (t154 * t152))
  let t166 := (V3.length tmin sqrt ⟨t165, t162, t159⟩)
  let t167 := (t165 / t166)
  let t168 := (t162 / t166)
  let t169 := (t159 / t166)
  let t177 := (((t167 * (v0.x - l.pos.x)) + (t168 * (v0.y - l.pos.y))) + (t169 * (v0.z - l.pos.z)))
  let t182 := (((t167 * l.dir.x) + (t168 * l.dir.y)) + (t169 * l.dir.z))
  let t183 := (sabs t182)
  let t184 := (t177 / t182)
  let t188 := (l.pos.z + (l.dir.z * t184))
  let t189 := (l.pos.y + (l.dir.y * t184))
  let t190 := (l.pos.x + (l.dir.x * t184))
  let t191 := (V3.length tmin sqrt ⟨t153, t152, t151⟩)
  let t192 := (t188 - v0.z)
  let t193 := (t189 - v0.y)
  let t194 := (t190 - v0.x)
  let t195 := (v2.z - v0.z)
  let t196 := (v2.y - v0.y)
  let t197 := (v2.x - v0.x)
  let t203 := ((0 : α) * ((((0 : α) * t194) + ((0 : α) * t193)) + ((0 : α) * t192)))
  let t212 := ((0 : α) * ((((0 : α) * t197) + ((0 : α) * t196)) + ((0 : α) * t195)))
  let t213 := (t195 - t212)
  let t214 := (t196 - t212)
  let t215 := (t197 - t212)
  let t220 := ((((t194 - t203) * t215) + ((t193 - t203) * t214)) + ((t192 - t203) * t213))
  let t225 := (((t215 * t215) + (t214 * t214)) + (t213 * t213))
  let t226 := (t220 / t225)
  let t227 := (V3.length tmin sqrt ⟨t156, t155, t154⟩)
  let t228 := (t188 - v1.z)
  let t229 := (t189 - v1.y)
  let t230 := (t190 - v1.x)
  let t231 := (v0.z - v1.z)
  let t232 := (v0.y - v1.y)
  let t233 := (v0.x - v1.x)
  let t239 := ((0 : α) * ((((0 : α) * t230) + ((0 : α) * t229)) + ((0 : α) * t228)))
  let t248 := ((0 : α) * ((((0 : α) * t233) + ((0 : α) * t232)) + ((0 : α) * t231)))
  let t249 := (t231 - t248)
  let t250 := (t232 - t248)
  let t251 := (t233 - t248)
  let t256 := ((((t230 - t239) * t251) + ((t229 - t239) * t250)) + ((t228 - t239) * t249))
  let t261 := (((t251 * t251) + (t250 * t250)) + (t249 * t249))
  let t262 := (t256 / t261)
  let t263 := ((1 : α) - t262)
  let t264 := (t263 - t226)
  let t269 := (((l.dir.x * t167) + (l.dir.y * t168)) + (l.dir.z * t169))
  let t270 := (t154 / t227)
  let t271 := (t155 / t227)
  let t272 := (t156 / t227)
  let t277 := (((t272 * t230) + (t271 * t229)) + (t270 * t228))
  let t288 := (((t272 * t233) + (t271 * t232)) + (t270 * t231))
  let t292 := (t231 - (t270 * t288))
  let t293 := (t232 - (t271 * t288))
  let t294 := (t233 - (t272 * t288))
  let t299 := ((((t230 - (t272 * t277)) * t294) + ((t229 - (t271 * t277)) * t293)) + ((t228 - (t270 * t277)) * t292))
  let t304 := (((t294 * t294) + (t293 * t293)) + (t292 * t292))
  let t305 := (t299 / t304)
  let t306 := ((1 : α) - t305)
  let t307 := (t306 - t226)
  let t308 := (t151 / t191)
  let t309 := (t152 / t191)
  let t310 := (t153 / t191)
  let t315 := (((t310 * t194) + (t309 * t193)) + (t308 * t192))
  let t326 := (((t310 * t197) + (t309 * t196)) + (t308 * t195))
  let t330 := (t195 - (t308 * t326))
  let t331 := (t196 - (t309 * t326))
  let t332 := (t197 - (t310 * t326))
  let t337 := ((((t194 - (t310 * t315)) * t332) + ((t193 - (t309 * t315)) * t331)) + ((t192 - (t308 * t315)) * t330))
  let t342 := (((t332 * t332) + (t331 * t331)) + (t330 * t330))
  let t343 := (t337 / t342)
  let t344 := (t263 - t343)
  let t345 := (t306 - t343)
  let t346 := (tmax * t183)
  let t347 := (sabs t177)
  if t166 = (0 : α) then
    (false, ⟨(0 : α), (0 : α), (0 : α)⟩, ⟨(0 : α), (0 : α), (0 : α)⟩, false)
  else
    if (1 : α) < t183 then
      if t191 = (0 : α) then
        if (0 : α) ≤ t220 then
          if t220 ≤ t225 then
            if t227 = (0 : α) then
              if (0 : α) ≤ t256 then
                if t256 ≤ t261 then
                  if t264 < (0 : α) then
                    (false, ⟨t190, t189, t188⟩, ⟨t262, t264, t226⟩, false)
                  else
                    if t269 < (0 : α) then
                      (true, ⟨t190, t189, t188⟩, ⟨t262, t264, t226⟩, true)
                    else
                      (true, ⟨t190, t189, t188⟩, ⟨t262, t264, t226⟩, false)
                else
                  (false, ⟨t190, t189, t188⟩, ⟨(0 : α), (0 : α), t226⟩, false)
              else
                (false, ⟨t190, t189, t188⟩, ⟨(0 : α), (0 : α), t226⟩, false)
            else
              if (0 : α) ≤ t299 then
                if t299 ≤ t304 then
                  if t307 < (0 : α) then
                    (false, ⟨t190, t189, t188⟩, ⟨t305, t307, t226⟩, false)
                  else
                    if t269 < (0 : α) then
                      (true, ⟨t190, t189, t188⟩, ⟨t305, t307, t226⟩, true)
                    else
                      (true, ⟨t190, t189, t188⟩, ⟨t305, t307, t226⟩, false)
                else
                  (false, ⟨t190, t189, t188⟩, ⟨(0 : α), (0 : α), t226⟩, false)
              else
                (false, ⟨t190, t189, t188⟩, ⟨(0 : α), (0 : α), t226⟩, false)
          else
            (false, ⟨t190, t189, t188⟩, ⟨(0 : α), (0 : α), (0 : α)⟩, false)
        else
          (false, ⟨t190, t189, t188⟩, ⟨(0 : α), (0 : α), (0 : α)⟩, false)
      else
        if (0 : α) ≤ t337 then
          if t337 ≤ t342 then
            if t227 = (0 : α) then
              if (0 : α) ≤ t256 then
                if t256 ≤ t261 then
                  if t344 < (0 : α) then
                    (false, ⟨t190, t189, t188⟩, ⟨t262, t344, t343⟩, false)
                  else
                    if t269 < (0 : α) then
                      (true, ⟨t190, t189, t188⟩, ⟨t262, t344, t343⟩, true)
                    else
                      (true, ⟨t190, t189, t188⟩, ⟨t262, t344, t343⟩, false)
                else
                  (false, ⟨t190, t189, t188⟩, ⟨(0 : α), (0 : α), t343⟩, false)
              else
                (false, ⟨t190, t189, t188⟩, ⟨(0 : α), (0 : α), t343⟩, false)
            else
              if (0 : α) ≤ t299 then
                if t299 ≤ t304 then
                  if t345 < (0 : α) then
                    (false, ⟨t190, t189, t188⟩, ⟨t305, t345, t343⟩, false)
                  else
                    if t269 < (0 : α) then
                      (true, ⟨t190, t189, t188⟩, ⟨t305, t345, t343⟩, true)
                    else
                      (true, ⟨t190, t189, t188⟩, ⟨t305, t345, t343⟩, false)
                else
                  (false, ⟨t190, t189, t188⟩, ⟨(0 : α), (0 : α), t343⟩, false)
              else
                (false, ⟨t190, t189, t188⟩, ⟨(0 : α), (0 : α), t343⟩, false)
          else
            (false, ⟨t190, t189, t188⟩, ⟨(0 : α), (0 : α), (0 : α)⟩, false)
        else
          (false, ⟨t190, t189, t188⟩, ⟨(0 : α), (0 : α), (0 : α)⟩, false)
    else
      if t347 < t346 then
        if t191 = (0 : α) then
          if (0 : α) ≤ t220 then
            if t220 ≤ t225 then
              if t227 = (0 : α) then
                if (0 : α) ≤ t256 then
                  if t256 ≤ t261 then
                    if t264 < (0 : α) then
                      (false, ⟨t190, t189, t188⟩, ⟨t262, t264, t226⟩, false)
                    else
                      if t269 < (0 : α) then
                        (true, ⟨t190, t189, t188⟩, ⟨t262, t264, t226⟩, true)
                      else
                        (true, ⟨t190, t189, t188⟩, ⟨t262, t264, t226⟩, false)
                  else
                    (false, ⟨t190, t189, t188⟩, ⟨(0 : α), (0 : α), t226⟩, false)
                else
                  (false, ⟨t190, t189, t188⟩, ⟨(0 : α), (0 : α), t226⟩, false)
              else
                if (0 : α) ≤ t299 then
                  if t299 ≤ t304 then
                    if t307 < (0 : α) then
                      (false, ⟨t190, t189, t188⟩, ⟨t305, t307, t226⟩, false)
                    else
                      if t269 < (0 : α) then
                        (true, ⟨t190, t189, t188⟩, ⟨t305, t307, t226⟩, true)
                      else
                        (true, ⟨t190, t189, t188⟩, ⟨t305, t307, t226⟩, false)
                  else
                    (false, ⟨t190, t189, t188⟩, ⟨(0 : α), (0 : α), t226⟩, false)
                else
                  (false, ⟨t190, t189, t188⟩, ⟨(0 : α), (0 : α), t226⟩, false)
            else
              (false, ⟨t190, t189, t188⟩, ⟨(0 : α), (0 : α), (0 : α)⟩, false)
          else
            (false, ⟨t190, t189, t188⟩, ⟨(0 : α), (0 : α), (0 : α)⟩, false)
        else
          if (0 : α) ≤ t337 then
            if t337 ≤ t342 then
              if t227 = (0 : α) then
                if (0 : α) ≤ t256 then
                  if t256 ≤ t261 then
                    if t344 < (0 : α) then
                      (false, ⟨t190, t189, t188⟩, ⟨t262, t344, t343⟩, false)
                    else
                      if t269 < (0 : α) then
                        (true, ⟨t190, t189, t188⟩, ⟨t262, t344, t343⟩, true)
                      else
                        (true, ⟨t190, t189, t188⟩, ⟨t262, t344, t343⟩, false)
                  else
                    (false, ⟨t190, t189, t188⟩, ⟨(0 : α), (0 : α), t343⟩, false)
                else
                  (false, ⟨t190, t189, t188⟩, ⟨(0 : α), (0 : α), t343⟩, false)
              else
                if (0 : α) ≤ t299 then
                  if t299 ≤ t304 then
                    if t345 < (0 : α) then
                      (false, ⟨t190, t189, t188⟩, ⟨t305, t345, t343⟩, false)
                    else
                      if t269 < (0 : α) then
                        (true, ⟨t190, t189, t188⟩, ⟨t305, t345, t343⟩, true)
                      else
                        (true, ⟨t190, t189, t188⟩, ⟨t305, t345, t343⟩, false)
                  else
                    (false, ⟨t190, t189, t188⟩, ⟨(0 : α), (0 : α), t343⟩, false)
                else
                  (false, ⟨t190, t189, t188⟩, ⟨(0 : α), (0 : α), t343⟩, false)
            else
              (false, ⟨t190, t189, t188⟩, ⟨(0 : α), (0 : α), (0 : α)⟩, false)
          else
            (false, ⟨t190, t189, t188⟩, ⟨(0 : α), (0 : α), (0 : α)⟩, false)
      else
        (false, ⟨(0 : α), (0 : α), (0 : α)⟩, ⟨(0 : α), (0 : α), (0 : α)⟩, false)

/-- extracted from the C++ template at T = Sym; 4 path(s) -/
def LineAlgo.closestVertex {α : Type} [Add α] [Sub α] [Mul α] [LT α] [DecidableLT α] (v0 : V3 α) (v1 : V3 α) (v2 : V3 α) (l : Line3 α) : (V3 α) :=
  let t352 := ((((v0.x - l.pos.x) * l.dir.x) + ((v0.y - l.pos.y) * l.dir.y)) + ((v0.z - l.pos.z) * l.dir.z))
  let t359 := (v0.z - ((t352 * l.dir.z) + l.pos.z))
  let t360 := (v0.y - ((t352 * l.dir.y) + l.pos.y))
  let t361 := (v0.x - ((t352 * l.dir.x) + l.pos.x))
  let t366 := (((t361 * t361) + (t360 * t360)) + (t359 * t359))
  let t374 := ((((v1.x - l.pos.x) * l.dir.x) + ((v1.y - l.pos.y) * l.dir.y)) + ((v1.z - l.pos.z) * l.dir.z))
  let t381 := (v1.z - ((t374 * l.dir.z) + l.pos.z))
  let t382 := (v1.y - ((t374 * l.dir.y) + l.pos.y))
  let t383 := (v1.x - ((t374 * l.dir.x) + l.pos.x))
  let t388 := (((t383 * t383) + (t382 * t382)) + (t381 * t381))
  let t396 := ((((v2.x - l.pos.x) * l.dir.x) + ((v2.y - l.pos.y) * l.dir.y)) + ((v2.z - l.pos.z) * l.dir.z))
  let t403 := (v2.z - ((t396 * l.dir.z) + l.pos.z))
  let t404 := (v2.y - ((t396 * l.dir.y) + l.pos.y))
  let t405 := (v2.x - ((t396 * l.dir.x) + l.pos.x))
  let t410 := (((t405 * t405) + (t404 * t404)) + (t403 * t403))
  if t388 < t366 then
    if t410 < t388 then
      ⟨v2.x, v2.y, v2.z⟩
    else
      ⟨v1.x, v1.y, v1.z⟩
  else
    if t410 < t366 then
      ⟨v2.x, v2.y, v2.z⟩
    else
      ⟨v0.x, v0.y, v0.z⟩

/-- extracted from the C++ template at T = Sym; 4 path(s) -/
def LineAlgo.rotatePoint {α : Type} [Add α] [Sub α] [Mul α] [Div α] [Neg α] [LT α] [LE α] [DecidableLT α] [DecidableLE α] [DecidableEq α] [OfNat α 0] [OfNat α 2] (tmin : α) (sqrt : α → α) (sin : α → α) (cos : α → α) (p : V3 α) (l : Line3 α) (angle : α) : (V3 α) :=
  let t37 := ((((p.x - l.pos.x) * l.dir.x) + ((p.y - l.pos.y) * l.dir.y)) + ((p.z - l.pos.z) * l.dir.z))
  let t41 := ((t37 * l.dir.z) + l.pos.z)
  let t42 := ((t37 * l.dir.y) + l.pos.y)
  let t43 := ((t37 * l.dir.x) + l.pos.x)
  let t412 := (p.z - t41)
  let t413 := (p.y - t42)
  let t414 := (p.x - t43)
  let t415 := (V3.length tmin sqrt ⟨t414, t413, t412⟩)
  let t418 := ((t414 * l.dir.y) - (t413 * l.dir.x))
  let t421 := ((t412 * l.dir.x) - (t414 * l.dir.z))
  let t424 := ((t413 * l.dir.z) - (t412 * l.dir.y))
  let t425 := (V3.length tmin sqrt ⟨t424, t421, t418⟩)
  let t426 := (cos angle)
  let t427 := (sin angle)
  let t440 := (t41 + ((t412 * t415) * t426))
  let t441 := (t42 + ((t413 * t415) * t426))
  let t442 := (t43 + ((t414 * t415) * t426))
  let t458 := (t414 / t415)
  let t459 := (t413 / t415)
  let t460 := (t412 / t415)
  let t463 := ((t458 * l.dir.y) - (t459 * l.dir.x))
  let t466 := ((t460 * l.dir.x) - (t458 * l.dir.z))
  let t469 := ((t459 * l.dir.z) - (t460 * l.dir.y))
  let t470 := (V3.length tmin sqrt ⟨t469, t466, t463⟩)
  let t483 := (t41 + ((t460 * t415) * t426))
  let t484 := (t42 + ((t459 * t415) * t426))
  let t485 := (t43 + ((t458 * t415) * t426))
  if t415 = (0 : α) then
    if t425 = (0 : α) then
      ⟨(t442 + ((t424 * t415) * t427)), (t441 + ((t421 * t415) * t427)), (t440 + ((t418 * t415) * t427))⟩
    else
      ⟨(t442 + (((t424 / t425) * t415) * t427)), (t441 + (((t421 / t425) * t415) * t427)), (t440 + (((t418 / t425) * t415) * t427))⟩
  else
    if t470 = (0 : α) then
      ⟨(t485 + ((t469 * t415) * t427)), (t484 + ((t466 * t415) * t427)), (t483 + ((t463 * t415) * t427))⟩
    else
      ⟨(t485 + (((t469 / t470) * t415) * t427)), (t484 + (((t466 / t470) * t415) * t427)), (t483 + (((t463 / t470) * t415) * t427))⟩

/-- extracted from the C++ template at T = Sym; 2 path(s) -/
def VecAlgo2.project {α : Type} [Add α] [Mul α] [Div α] [Neg α] [LT α] [DecidableLT α] [DecidableEq α] [OfNat α 0] [OfNat α 2] (tmin : α) (sqrt : α → α) (s : V2 α) (t : V2 α) : (V2 α) :=
  let t505 := (V2.length tmin sqrt ⟨s.x, s.y⟩)
  let t509 := ((0 : α) * (((0 : α) * t.x) + ((0 : α) * t.y)))
  let t510 := (s.y / t505)
  let t511 := (s.x / t505)
  let t514 := ((t511 * t.x) + (t510 * t.y))
  if t505 = (0 : α) then
    ⟨t509, t509⟩
  else
    ⟨(t511 * t514), (t510 * t514)⟩

/-- extracted from the C++ template at T = Sym; 2 path(s) -/
def VecAlgo2.orthogonal {α : Type} [Add α] [Sub α] [Mul α] [Div α] [Neg α] [LT α] [DecidableLT α] [DecidableEq α] [OfNat α 0] [OfNat α 2] (tmin : α) (sqrt : α → α) (s : V2 α) (t : V2 α) : (V2 α) :=
  let t505 := (V2.length tmin sqrt ⟨s.x, s.y⟩)
  let t509 := ((0 : α) * (((0 : α) * t.x) + ((0 : α) * t.y)))
  let t510 := (s.y / t505)
  let t511 := (s.x / t505)
  let t514 := ((t511 * t.x) + (t510 * t.y))
  if t505 = (0 : α) then
    ⟨(t.x - t509), (t.y - t509)⟩
  else
    ⟨(t.x - (t511 * t514)), (t.y - (t510 * t514))⟩

/-- extracted from the C++ template at T = Sym; 2 path(s) -/
def VecAlgo2.reflect {α : Type} [Add α] [Sub α] [Mul α] [Div α] [Neg α] [LT α] [DecidableLT α] [DecidableEq α] [OfNat α 0] [OfNat α 2] (tmin : α) (sqrt : α → α) (s : V2 α) (t : V2 α) : (V2 α) :=
  let t521 := (V2.length tmin sqrt ⟨t.x, t.y⟩)
  let t525 := ((0 : α) * (((0 : α) * s.x) + ((0 : α) * s.y)))
  let t533 := (t.y / t521)
  let t534 := (t.x / t521)
  let t537 := ((t534 * s.x) + (t533 * s.y))
  if t521 = (0 : α) then
    ⟨(s.x - ((2 : α) * (s.x - t525))), (s.y - ((2 : α) * (s.y - t525)))⟩
  else
    ⟨(s.x - ((2 : α) * (s.x - (t534 * t537)))), (s.y - ((2 : α) * (s.y - (t533 * t537))))⟩

/-- extracted from the C++ template at T = Sym; 4 path(s) -/
def VecAlgo2.closestVertex {α : Type} [Add α] [Sub α] [Mul α] [LT α] [DecidableLT α] (v0 : V2 α) (v1 : V2 α) (v2 : V2 α) (p : V2 α) : (V2 α) :=
  let t546 := (v0.y - p.y)
  let t547 := (v0.x - p.x)
  let t550 := ((t547 * t547) + (t546 * t546))
  let t551 := (v1.y - p.y)
  let t552 := (v1.x - p.x)
  let t555 := ((t552 * t552) + (t551 * t551))
  let t556 := (v2.y - p.y)
  let t557 := (v2.x - p.x)
  let t560 := ((t557 * t557) + (t556 * t556))
  if t555 < t550 then
    if t560 < t555 then
      ⟨v2.x, v2.y⟩
    else
      ⟨v1.x, v1.y⟩
  else
    if t560 < t550 then
      ⟨v2.x, v2.y⟩
    else
      ⟨v0.x, v0.y⟩

/-- extracted from the C++ template at T = Sym; 2 path(s) -/
def VecAlgo3.project {α : Type} [Add α] [Mul α] [Div α] [Neg α] [LT α] [LE α] [DecidableLT α] [DecidableLE α] [DecidableEq α] [OfNat α 0] [OfNat α 2] (tmin : α) (sqrt : α → α) (s : V3 α) (t : V3 α) : (V3 α) :=
  let t563 := (V3.length tmin sqrt ⟨s.x, s.y, s.z⟩)
  let t566 := ((0 : α) * ((((0 : α) * t.x) + ((0 : α) * t.y)) + ((0 : α) * t.z)))
  let t567 := (s.z / t563)
  let t568 := (s.y / t563)
  let t569 := (s.x / t563)
  let t574 := (((t569 * t.x) + (t568 * t.y)) + (t567 * t.z))
  if t563 = (0 : α) then
    ⟨t566, t566, t566⟩
  else
    ⟨(t569 * t574), (t568 * t574), (t567 * t574)⟩

/-- extracted from the C++ template at T = Sym; 2 path(s) -/
def VecAlgo3.orthogonal {α : Type} [Add α] [Sub α] [Mul α] [Div α] [Neg α] [LT α] [LE α] [DecidableLT α] [DecidableLE α] [DecidableEq α] [OfNat α 0] [OfNat α 2] (tmin : α) (sqrt : α → α) (s : V3 α) (t : V3 α) : (V3 α) :=
  let t563 := (V3.length tmin sqrt ⟨s.x, s.y, s.z⟩)
  let t566 := ((0 : α) * ((((0 : α) * t.x) + ((0 : α) * t.y)) + ((0 : α) * t.z)))
  let t567 := (s.z / t563)
  let t568 := (s.y / t563)
  let t569 := (s.x / t563)
  let t574 := (((t569 * t.x) + (t568 * t.y)) + (t567 * t.z))
  if t563 = (0 : α) then
    ⟨(t.x - t566), (t.y - t566), (t.z - t566)⟩
  else
    ⟨(t.x - (t569 * t574)), (t.y - (t568 * t574)), (t.z - (t567 * t574))⟩

/-- extracted from the C++ template at T = Sym; 2 path(s) -/
def VecAlgo3.reflect {α : Type} [Add α] [Sub α] [Mul α] [Div α] [Neg α] [LT α] [LE α] [DecidableLT α] [DecidableLE α] [DecidableEq α] [OfNat α 0] [OfNat α 2] (tmin : α) (sqrt : α → α) (s : V3 α) (t : V3 α) : (V3 α) :=
  let t584 := (V3.length tmin sqrt ⟨t.x, t.y, t.z⟩)
  let t587 := ((0 : α) * ((((0 : α) * s.x) + ((0 : α) * s.y)) + ((0 : α) * s.z)))
  let t597 := (t.z / t584)
  let t598 := (t.y / t584)
  let t599 := (t.x / t584)
  let t604 := (((t599 * s.x) + (t598 * s.y)) + (t597 * s.z))
  if t584 = (0 : α) then
    ⟨(s.x - ((2 : α) * (s.x - t587))), (s.y - ((2 : α) * (s.y - t587))), (s.z - ((2 : α) * (s.z - t587)))⟩
  else
    ⟨(s.x - ((2 : α) * (s.x - (t599 * t604)))), (s.y - ((2 : α) * (s.y - (t598 * t604)))), (s.z - ((2 : α) * (s.z - (t597 * t604))))⟩

/-- extracted from the C++ template at T = Sym; 4 path(s) -/
def VecAlgo3.closestVertex {α : Type} [Add α] [Sub α] [Mul α] [LT α] [DecidableLT α] (v0 : V3 α) (v1 : V3 α) (v2 : V3 α) (p : V3 α) : (V3 α) :=
  let t546 := (v0.y - p.y)
  let t547 := (v0.x - p.x)
  let t551 := (v1.y - p.y)
  let t552 := (v1.x - p.x)
  let t556 := (v2.y - p.y)
  let t557 := (v2.x - p.x)
  let t617 := (v0.z - p.z)
  let t619 := (((t547 * t547) + (t546 * t546)) + (t617 * t617))
  let t620 := (v1.z - p.z)
  let t622 := (((t552 * t552) + (t551 * t551)) + (t620 * t620))
  let t623 := (v2.z - p.z)
  let t625 := (((t557 * t557) + (t556 * t556)) + (t623 * t623))
  if t622 < t619 then
    if t625 < t622 then
      ⟨v2.x, v2.y, v2.z⟩
    else
      ⟨v1.x, v1.y, v1.z⟩
  else
    if t625 < t619 then
      ⟨v2.x, v2.y, v2.z⟩
    else
      ⟨v0.x, v0.y, v0.z⟩

/-- extracted from the C++ template at T = Sym; 2 path(s) -/
def VecAlgo4.project {α : Type} [Add α] [Mul α] [Div α] [Neg α] [LT α] [LE α] [DecidableLT α] [DecidableLE α] [DecidableEq α] [OfNat α 0] [OfNat α 2] (tmin : α) (sqrt : α → α) (s : V4 α) (t : V4 α) : (V4 α) :=
  let t628 := (V4.length tmin sqrt ⟨s.x, s.y, s.z, s.w⟩)
  let t631 := ((0 : α) * (((((0 : α) * t.x) + ((0 : α) * t.y)) + ((0 : α) * t.z)) + ((0 : α) * t.w)))
  let t632 := (s.w / t628)
  let t633 := (s.z / t628)
  let t634 := (s.y / t628)
  let t635 := (s.x / t628)
  let t642 := ((((t635 * t.x) + (t634 * t.y)) + (t633 * t.z)) + (t632 * t.w))
  if t628 = (0 : α) then
    ⟨t631, t631, t631, t631⟩
  else
    ⟨(t635 * t642), (t634 * t642), (t633 * t642), (t632 * t642)⟩

/-- extracted from the C++ template at T = Sym; 2 path(s) -/
def VecAlgo4.orthogonal {α : Type} [Add α] [Sub α] [Mul α] [Div α] [Neg α] [LT α] [LE α] [DecidableLT α] [DecidableLE α] [DecidableEq α] [OfNat α 0] [OfNat α 2] (tmin : α) (sqrt : α → α) (s : V4 α) (t : V4 α) : (V4 α) :=
  let t628 := (V4.length tmin sqrt ⟨s.x, s.y, s.z, s.w⟩)
  let t631 := ((0 : α) * (((((0 : α) * t.x) + ((0 : α) * t.y)) + ((0 : α) * t.z)) + ((0 : α) * t.w)))
  let t632 := (s.w / t628)
  let t633 := (s.z / t628)
  let t634 := (s.y / t628)
  let t635 := (s.x / t628)
  let t642 := ((((t635 * t.x) + (t634 * t.y)) + (t633 * t.z)) + (t632 * t.w))
  if t628 = (0 : α) then
    ⟨(t.x - t631), (t.y - t631), (t.z - t631), (t.w - t631)⟩
  else
    ⟨(t.x - (t635 * t642)), (t.y - (t634 * t642)), (t.z - (t633 * t642)), (t.w - (t632 * t642))⟩

/-- extracted from the C++ template at T = Sym; 2 path(s) -/
def VecAlgo4.reflect {α : Type} [Add α] [Sub α] [Mul α] [Div α] [Neg α] [LT α] [LE α] [DecidableLT α] [DecidableLE α] [DecidableEq α] [OfNat α 0] [OfNat α 2] (tmin : α) (sqrt : α → α) (s : V4 α) (t : V4 α) : (V4 α) :=
  let t655 := (V4.length tmin sqrt ⟨t.x, t.y, t.z, t.w⟩)
  let t658 := ((0 : α) * (((((0 : α) * s.x) + ((0 : α) * s.y)) + ((0 : α) * s.z)) + ((0 : α) * s.w)))
  let t671 := (t.w / t655)
  let t672 := (t.z / t655)
  let t673 := (t.y / t655)
  let t674 := (t.x / t655)
  let t681 := ((((t674 * s.x) + (t673 * s.y)) + (t672 * s.z)) + (t671 * s.w))
  if t655 = (0 : α) then
    ⟨(s.x - ((2 : α) * (s.x - t658))), (s.y - ((2 : α) * (s.y - t658))), (s.z - ((2 : α) * (s.z - t658))), (s.w - ((2 : α) * (s.w - t658)))⟩
  else
    ⟨(s.x - ((2 : α) * (s.x - (t674 * t681)))), (s.y - ((2 : α) * (s.y - (t673 * t681)))), (s.z - ((2 : α) * (s.z - (t672 * t681)))), (s.w - ((2 : α) * (s.w - (t671 * t681))))⟩

/-- extracted from the C++ template at T = Sym; 4 path(s) -/
def VecAlgo4.closestVertex {α : Type} [Add α] [Sub α] [Mul α] [LT α] [DecidableLT α] (v0 : V4 α) (v1 : V4 α) (v2 : V4 α) (p : V4 α) : (V4 α) :=
  let t546 := (v0.y - p.y)
  let t547 := (v0.x - p.x)
  let t551 := (v1.y - p.y)
  let t552 := (v1.x - p.x)
  let t556 := (v2.y - p.y)
  let t557 := (v2.x - p.x)
  let t617 := (v0.z - p.z)
  let t620 := (v1.z - p.z)
  let t623 := (v2.z - p.z)
  let t702 := (v0.w - p.w)
  let t704 := ((((t547 * t547) + (t546 * t546)) + (t617 * t617)) + (t702 * t702))
  let t705 := (v1.w - p.w)
  let t707 := ((((t552 * t552) + (t551 * t551)) + (t620 * t620)) + (t705 * t705))
  let t708 := (v2.w - p.w)
  let t710 := ((((t557 * t557) + (t556 * t556)) + (t623 * t623)) + (t708 * t708))
  if t707 < t704 then
    if t710 < t707 then
      ⟨v2.x, v2.y, v2.z, v2.w⟩
    else
      ⟨v1.x, v1.y, v1.z, v1.w⟩
  else
    if t710 < t704 then
      ⟨v2.x, v2.y, v2.z, v2.w⟩
    else
      ⟨v0.x, v0.y, v0.z, v0.w⟩

end ImathVerif.Gen
