-- GENERATED from /repo/src/Imath by harness/sym (T = Sym path extraction); do not edit.
import ImathVerif.Basic.Types
import ImathVerif.Gen.Leaf
set_option linter.unusedVariables false
namespace ImathVerif.Gen
open ImathVerif

/-- extracted from the C++ template at T = Sym; 4 path(s) -/
def LineAlgo.closestPoints {α : Type} [Add α] [Sub α] [Mul α] [Div α] [Neg α] [LT α] [DecidableLT α] [OfNat α 0] [OfNat α 1] (tmax : α) (l1 : Line3 α) (l2 : Line3 α) : (Bool × (V3 α) × (V3 α)) :=
  let t56 := (l1.pos.z - l2.pos.z)
  let t57 := (l1.pos.y - l2.pos.y)
  let t58 := (l1.pos.x - l2.pos.x)
  let t63 := (((l1.dir.x * t58) + (l1.dir.y * t57)) + (l1.dir.z * t56))
  let t73 := (((l2.dir.x * t58) + (l2.dir.y * t57)) + (l2.dir.z * t56))
  let t214 := (((l1.dir.x * l2.dir.x) + (l1.dir.y * l2.dir.y)) + (l1.dir.z * l2.dir.z))
  let t216 := ((t214 * t73) - t63)
  let t218 := (t73 - (t214 * t63))
  let t220 := ((1 : α) - (t214 * t214))
  let t221 := (sabs t220)
  let t222 := (t216 / t220)
  let t226 := (l1.pos.z + (l1.dir.z * t222))
  let t227 := (l1.pos.y + (l1.dir.y * t222))
  let t228 := (l1.pos.x + (l1.dir.x * t222))
  let t229 := (t218 / t220)
  let t233 := (l2.pos.z + (l2.dir.z * t229))
  let t234 := (l2.pos.y + (l2.dir.y * t229))
  let t235 := (l2.pos.x + (l2.dir.x * t229))
  let t236 := (tmax * t221)
  let t237 := (sabs t216)
  let t238 := (sabs t218)
  if (1 : α) < t221 then
    (true, ⟨t228, t227, t226⟩, ⟨t235, t234, t233⟩)
  else
    if t237 < t236 then
      if t238 < t236 then
        (true, ⟨t228, t227, t226⟩, ⟨t235, t234, t233⟩)
      else
        (false, ⟨(0 : α), (0 : α), (0 : α)⟩, ⟨(0 : α), (0 : α), (0 : α)⟩)
    else
      (false, ⟨(0 : α), (0 : α), (0 : α)⟩, ⟨(0 : α), (0 : α), (0 : α)⟩)

/-- extracted from the C++ template at T = Sym; 50 path(s) -/
def LineAlgo.intersect {α : Type} [Add α] [Sub α] [Mul α] [Div α] [Neg α] [LT α] [LE α] [DecidableLT α] [DecidableLE α] [DecidableEq α] [OfNat α 0] [OfNat α 1] [OfNat α 2] (tmin : α) (tmax : α) (sqrt : α → α) (l : Line3 α) (v0 : V3 α) (v1 : V3 α) (v2 : V3 α) : (Bool × (V3 α) × (V3 α) × Bool) :=
  let t248 := (v1.z - v0.z)
  let t249 := (v1.y - v0.y)
  let t250 := (v1.x - v0.x)
  let t251 := (v2.z - v1.z)
  let t252 := (v2.y - v1.y)
  let t253 := (v2.x - v1.x)
  let t256 := ((t253 * t249) - (t252 * t250))
  let t259 := ((t251 * t250) - (t253 * t248))
  let t262 := ((t252 * t248) - (t251 * t249))
  let t263 := (V3.length tmin tmax sqrt ⟨t262, t259, t256⟩)
  let t264 := (t262 / t263)
  let t265 := (t259 / t263)
  let t266 := (t256 / t263)
  let t279 := (((t264 * l.dir.x) + (t265 * l.dir.y)) + (t266 * l.dir.z))
  let t280 := (sabs t279)
  let t281 := ((((t264 * (v0.x - l.pos.x)) + (t265 * (v0.y - l.pos.y))) + (t266 * (v0.z - l.pos.z))) / t279)
  let t285 := (l.pos.z + (l.dir.z * t281))
  let t286 := (l.pos.y + (l.dir.y * t281))
  let t287 := (l.pos.x + (l.dir.x * t281))
  let t288 := (V3.length tmin tmax sqrt ⟨t250, t249, t248⟩)
  let t289 := (t285 - v0.z)
  let t290 := (t286 - v0.y)
  let t291 := (t287 - v0.x)
  let t292 := (v2.z - v0.z)
  let t293 := (v2.y - v0.y)
  let t294 := (v2.x - v0.x)
  let t300 := ((0 : α) * ((((0 : α) * t291) + ((0 : α) * t290)) + ((0 : α) * t289)))
  let t309 := ((0 : α) * ((((0 : α) * t294) + ((0 : α) * t293)) + ((0 : α) * t292)))
  let t310 := (t292 - t309)
  let t311 := (t293 - t309)
  let t312 := (t294 - t309)
  let t317 := ((((t291 - t300) * t312) + ((t290 - t300) * t311)) + ((t289 - t300) * t310))
  let t322 := (((t312 * t312) + (t311 * t311)) + (t310 * t310))
  let t323 := (t317 / t322)
  let t324 := (V3.length tmin tmax sqrt ⟨t253, t252, t251⟩)
  let t325 := (t285 - v1.z)
  let t326 := (t286 - v1.y)
  let t327 := (t287 - v1.x)
  let t328 := (v0.z - v1.z)
  let t329 := (v0.y - v1.y)
  let t330 := (v0.x - v1.x)
  let t336 := ((0 : α) * ((((0 : α) * t327) + ((0 : α) * t326)) + ((0 : α) * t325)))
  let t345 := ((0 : α) * ((((0 : α) * t330) + ((0 : α) * t329)) + ((0 : α) * t328)))
  let t346 := (t328 - t345)
  let t347 := (t329 - t345)
  let t348 := (t330 - t345)
  let t353 := ((((t327 - t336) * t348) + ((t326 - t336) * t347)) + ((t325 - t336) * t346))
  let t358 := (((t348 * t348) + (t347 * t347)) + (t346 * t346))
  let t359 := (t353 / t358)
  let t360 := ((1 : α) - t359)
  let t361 := (t360 - t323)
  let t366 := (((l.dir.x * t264) + (l.dir.y * t265)) + (l.dir.z * t266))
  let t367 := (t251 / t324)
  let t368 := (t252 / t324)
  let t369 := (t253 / t324)
  let t374 := (((t369 * t327) + (t368 * t326)) + (t367 * t325))
  let t385 := (((t369 * t330) + (t368 * t329)) + (t367 * t328))
  let t389 := (t328 - (t367 * t385))
  let t390 := (t329 - (t368 * t385))
  let t391 := (t330 - (t369 * t385))
  let t396 := ((((t327 - (t369 * t374)) * t391) + ((t326 - (t368 * t374)) * t390)) + ((t325 - (t367 * t374)) * t389))
  let t401 := (((t391 * t391) + (t390 * t390)) + (t389 * t389))
  let t402 := (t396 / t401)
  let t403 := ((1 : α) - t402)
  let t404 := (t403 - t323)
  let t405 := (t248 / t288)
  let t406 := (t249 / t288)
  let t407 := (t250 / t288)
  let t412 := (((t407 * t291) + (t406 * t290)) + (t405 * t289))
  let t423 := (((t407 * t294) + (t406 * t293)) + (t405 * t292))
  let t427 := (t292 - (t405 * t423))
  let t428 := (t293 - (t406 * t423))
  let t429 := (t294 - (t407 * t423))
  let t434 := ((((t291 - (t407 * t412)) * t429) + ((t290 - (t406 * t412)) * t428)) + ((t289 - (t405 * t412)) * t427))
  let t439 := (((t429 * t429) + (t428 * t428)) + (t427 * t427))
  let t440 := (t434 / t439)
  let t441 := (t360 - t440)
  let t442 := (t403 - t440)
  if t263 = (0 : α) then
    (false, ⟨(0 : α), (0 : α), (0 : α)⟩, ⟨(0 : α), (0 : α), (0 : α)⟩, false)
  else
    if (1 : α) < t280 then
      if t288 = (0 : α) then
        if (0 : α) ≤ t317 then
          if t317 ≤ t322 then
            if t324 = (0 : α) then
              if (0 : α) ≤ t353 then
                if t353 ≤ t358 then
                  if t361 < (0 : α) then
                    (false, ⟨t287, t286, t285⟩, ⟨t359, t361, t323⟩, false)
                  else
                    if t366 < (0 : α) then
                      (true, ⟨t287, t286, t285⟩, ⟨t359, t361, t323⟩, true)
                    else
                      (true, ⟨t287, t286, t285⟩, ⟨t359, t361, t323⟩, false)
                else
                  (false, ⟨t287, t286, t285⟩, ⟨(0 : α), (0 : α), t323⟩, false)
              else
                (false, ⟨t287, t286, t285⟩, ⟨(0 : α), (0 : α), t323⟩, false)
            else
              if (0 : α) ≤ t396 then
                if t396 ≤ t401 then
                  if t404 < (0 : α) then
                    (false, ⟨t287, t286, t285⟩, ⟨t402, t404, t323⟩, false)
                  else
                    if t366 < (0 : α) then
                      (true, ⟨t287, t286, t285⟩, ⟨t402, t404, t323⟩, true)
                    else
                      (true, ⟨t287, t286, t285⟩, ⟨t402, t404, t323⟩, false)
                else
                  (false, ⟨t287, t286, t285⟩, ⟨(0 : α), (0 : α), t323⟩, false)
              else
                (false, ⟨t287, t286, t285⟩, ⟨(0 : α), (0 : α), t323⟩, false)
          else
            (false, ⟨t287, t286, t285⟩, ⟨(0 : α), (0 : α), (0 : α)⟩, false)
        else
          (false, ⟨t287, t286, t285⟩, ⟨(0 : α), (0 : α), (0 : α)⟩, false)
      else
        if (0 : α) ≤ t434 then
          if t434 ≤ t439 then
            if t324 = (0 : α) then
              if (0 : α) ≤ t353 then
                if t353 ≤ t358 then
                  if t441 < (0 : α) then
                    (false, ⟨t287, t286, t285⟩, ⟨t359, t441, t440⟩, false)
                  else
                    if t366 < (0 : α) then
                      (true, ⟨t287, t286, t285⟩, ⟨t359, t441, t440⟩, true)
                    else
                      (true, ⟨t287, t286, t285⟩, ⟨t359, t441, t440⟩, false)
                else
                  (false, ⟨t287, t286, t285⟩, ⟨(0 : α), (0 : α), t440⟩, false)
              else
                (false, ⟨t287, t286, t285⟩, ⟨(0 : α), (0 : α), t440⟩, false)
            else
              if (0 : α) ≤ t396 then
                if t396 ≤ t401 then
                  if t442 < (0 : α) then
                    (false, ⟨t287, t286, t285⟩, ⟨t402, t442, t440⟩, false)
                  else
                    if t366 < (0 : α) then
                      (true, ⟨t287, t286, t285⟩, ⟨t402, t442, t440⟩, true)
                    else
                      (true, ⟨t287, t286, t285⟩, ⟨t402, t442, t440⟩, false)
                else
                  (false, ⟨t287, t286, t285⟩, ⟨(0 : α), (0 : α), t440⟩, false)
              else
                (false, ⟨t287, t286, t285⟩, ⟨(0 : α), (0 : α), t440⟩, false)
          else
            (false, ⟨t287, t286, t285⟩, ⟨(0 : α), (0 : α), (0 : α)⟩, false)
        else
          (false, ⟨t287, t286, t285⟩, ⟨(0 : α), (0 : α), (0 : α)⟩, false)
    else
      if (0 : α) < t280 then
        if t288 = (0 : α) then
          if (0 : α) ≤ t317 then
            if t317 ≤ t322 then
              if t324 = (0 : α) then
                if (0 : α) ≤ t353 then
                  if t353 ≤ t358 then
                    if t361 < (0 : α) then
                      (false, ⟨t287, t286, t285⟩, ⟨t359, t361, t323⟩, false)
                    else
                      if t366 < (0 : α) then
                        (true, ⟨t287, t286, t285⟩, ⟨t359, t361, t323⟩, true)
                      else
                        (true, ⟨t287, t286, t285⟩, ⟨t359, t361, t323⟩, false)
                  else
                    (false, ⟨t287, t286, t285⟩, ⟨(0 : α), (0 : α), t323⟩, false)
                else
                  (false, ⟨t287, t286, t285⟩, ⟨(0 : α), (0 : α), t323⟩, false)
              else
                if (0 : α) ≤ t396 then
                  if t396 ≤ t401 then
                    if t404 < (0 : α) then
                      (false, ⟨t287, t286, t285⟩, ⟨t402, t404, t323⟩, false)
                    else
                      if t366 < (0 : α) then
                        (true, ⟨t287, t286, t285⟩, ⟨t402, t404, t323⟩, true)
                      else
                        (true, ⟨t287, t286, t285⟩, ⟨t402, t404, t323⟩, false)
                  else
                    (false, ⟨t287, t286, t285⟩, ⟨(0 : α), (0 : α), t323⟩, false)
                else
                  (false, ⟨t287, t286, t285⟩, ⟨(0 : α), (0 : α), t323⟩, false)
            else
              (false, ⟨t287, t286, t285⟩, ⟨(0 : α), (0 : α), (0 : α)⟩, false)
          else
            (false, ⟨t287, t286, t285⟩, ⟨(0 : α), (0 : α), (0 : α)⟩, false)
        else
          if (0 : α) ≤ t434 then
            if t434 ≤ t439 then
              if t324 = (0 : α) then
                if (0 : α) ≤ t353 then
                  if t353 ≤ t358 then
                    if t441 < (0 : α) then
                      (false, ⟨t287, t286, t285⟩, ⟨t359, t441, t440⟩, false)
                    else
                      if t366 < (0 : α) then
                        (true, ⟨t287, t286, t285⟩, ⟨t359, t441, t440⟩, true)
                      else
                        (true, ⟨t287, t286, t285⟩, ⟨t359, t441, t440⟩, false)
                  else
                    (false, ⟨t287, t286, t285⟩, ⟨(0 : α), (0 : α), t440⟩, false)
                else
                  (false, ⟨t287, t286, t285⟩, ⟨(0 : α), (0 : α), t440⟩, false)
              else
                if (0 : α) ≤ t396 then
                  if t396 ≤ t401 then
                    if t442 < (0 : α) then
                      (false, ⟨t287, t286, t285⟩, ⟨t402, t442, t440⟩, false)
                    else
                      if t366 < (0 : α) then
                        (true, ⟨t287, t286, t285⟩, ⟨t402, t442, t440⟩, true)
                      else
                        (true, ⟨t287, t286, t285⟩, ⟨t402, t442, t440⟩, false)
                  else
                    (false, ⟨t287, t286, t285⟩, ⟨(0 : α), (0 : α), t440⟩, false)
                else
                  (false, ⟨t287, t286, t285⟩, ⟨(0 : α), (0 : α), t440⟩, false)
            else
              (false, ⟨t287, t286, t285⟩, ⟨(0 : α), (0 : α), (0 : α)⟩, false)
          else
            (false, ⟨t287, t286, t285⟩, ⟨(0 : α), (0 : α), (0 : α)⟩, false)
      else
        (false, ⟨(0 : α), (0 : α), (0 : α)⟩, ⟨(0 : α), (0 : α), (0 : α)⟩, false)

/-- extracted from the C++ template at T = Sym; 4 path(s) -/
def LineAlgo.closestVertex {α : Type} [Add α] [Sub α] [Mul α] [LT α] [DecidableLT α] (v0 : V3 α) (v1 : V3 α) (v2 : V3 α) (l : Line3 α) : (V3 α) :=
  let t447 := ((((v0.x - l.pos.x) * l.dir.x) + ((v0.y - l.pos.y) * l.dir.y)) + ((v0.z - l.pos.z) * l.dir.z))
  let t454 := (v0.z - ((t447 * l.dir.z) + l.pos.z))
  let t455 := (v0.y - ((t447 * l.dir.y) + l.pos.y))
  let t456 := (v0.x - ((t447 * l.dir.x) + l.pos.x))
  let t461 := (((t456 * t456) + (t455 * t455)) + (t454 * t454))
  let t469 := ((((v1.x - l.pos.x) * l.dir.x) + ((v1.y - l.pos.y) * l.dir.y)) + ((v1.z - l.pos.z) * l.dir.z))
  let t476 := (v1.z - ((t469 * l.dir.z) + l.pos.z))
  let t477 := (v1.y - ((t469 * l.dir.y) + l.pos.y))
  let t478 := (v1.x - ((t469 * l.dir.x) + l.pos.x))
  let t483 := (((t478 * t478) + (t477 * t477)) + (t476 * t476))
  let t491 := ((((v2.x - l.pos.x) * l.dir.x) + ((v2.y - l.pos.y) * l.dir.y)) + ((v2.z - l.pos.z) * l.dir.z))
  let t498 := (v2.z - ((t491 * l.dir.z) + l.pos.z))
  let t499 := (v2.y - ((t491 * l.dir.y) + l.pos.y))
  let t500 := (v2.x - ((t491 * l.dir.x) + l.pos.x))
  let t505 := (((t500 * t500) + (t499 * t499)) + (t498 * t498))
  if t483 < t461 then
    if t505 < t483 then
      ⟨v2.x, v2.y, v2.z⟩
    else
      ⟨v1.x, v1.y, v1.z⟩
  else
    if t505 < t461 then
      ⟨v2.x, v2.y, v2.z⟩
    else
      ⟨v0.x, v0.y, v0.z⟩

/-- extracted from the C++ template at T = Sym; 4 path(s) -/
def LineAlgo.rotatePoint {α : Type} [Add α] [Sub α] [Mul α] [Div α] [Neg α] [LT α] [LE α] [DecidableLT α] [DecidableLE α] [DecidableEq α] [OfNat α 0] [OfNat α 2] (tmin : α) (tmax : α) (sqrt : α → α) (sin : α → α) (cos : α → α) (p : V3 α) (l : Line3 α) (angle : α) : (V3 α) :=
  let t37 := ((((p.x - l.pos.x) * l.dir.x) + ((p.y - l.pos.y) * l.dir.y)) + ((p.z - l.pos.z) * l.dir.z))
  let t41 := ((t37 * l.dir.z) + l.pos.z)
  let t42 := ((t37 * l.dir.y) + l.pos.y)
  let t43 := ((t37 * l.dir.x) + l.pos.x)
  let t507 := (p.z - t41)
  let t508 := (p.y - t42)
  let t509 := (p.x - t43)
  let t510 := (V3.length tmin tmax sqrt ⟨t509, t508, t507⟩)
  let t513 := ((t509 * l.dir.y) - (t508 * l.dir.x))
  let t516 := ((t507 * l.dir.x) - (t509 * l.dir.z))
  let t519 := ((t508 * l.dir.z) - (t507 * l.dir.y))
  let t520 := (V3.length tmin tmax sqrt ⟨t519, t516, t513⟩)
  let t521 := (cos angle)
  let t522 := (sin angle)
  let t535 := (t41 + ((t507 * t510) * t521))
  let t536 := (t42 + ((t508 * t510) * t521))
  let t537 := (t43 + ((t509 * t510) * t521))
  let t553 := (t509 / t510)
  let t554 := (t508 / t510)
  let t555 := (t507 / t510)
  let t558 := ((t553 * l.dir.y) - (t554 * l.dir.x))
  let t561 := ((t555 * l.dir.x) - (t553 * l.dir.z))
  let t564 := ((t554 * l.dir.z) - (t555 * l.dir.y))
  let t565 := (V3.length tmin tmax sqrt ⟨t564, t561, t558⟩)
  let t578 := (t41 + ((t555 * t510) * t521))
  let t579 := (t42 + ((t554 * t510) * t521))
  let t580 := (t43 + ((t553 * t510) * t521))
  if t510 = (0 : α) then
    if t520 = (0 : α) then
      ⟨(t537 + ((t519 * t510) * t522)), (t536 + ((t516 * t510) * t522)), (t535 + ((t513 * t510) * t522))⟩
    else
      ⟨(t537 + (((t519 / t520) * t510) * t522)), (t536 + (((t516 / t520) * t510) * t522)), (t535 + (((t513 / t520) * t510) * t522))⟩
  else
    if t565 = (0 : α) then
      ⟨(t580 + ((t564 * t510) * t522)), (t579 + ((t561 * t510) * t522)), (t578 + ((t558 * t510) * t522))⟩
    else
      ⟨(t580 + (((t564 / t565) * t510) * t522)), (t579 + (((t561 / t565) * t510) * t522)), (t578 + (((t558 / t565) * t510) * t522))⟩

/-- extracted from the C++ template at T = Sym; 2 path(s) -/
def VecAlgo2.project {α : Type} [Add α] [Mul α] [Div α] [Neg α] [LT α] [DecidableLT α] [DecidableEq α] [OfNat α 0] [OfNat α 2] (tmin : α) (tmax : α) (sqrt : α → α) (s : V2 α) (t : V2 α) : (V2 α) :=
  let t600 := (V2.length tmin tmax sqrt ⟨s.x, s.y⟩)
  let t604 := ((0 : α) * (((0 : α) * t.x) + ((0 : α) * t.y)))
  let t605 := (s.y / t600)
  let t606 := (s.x / t600)
  let t609 := ((t606 * t.x) + (t605 * t.y))
  if t600 = (0 : α) then
    ⟨t604, t604⟩
  else
    ⟨(t606 * t609), (t605 * t609)⟩

/-- extracted from the C++ template at T = Sym; 2 path(s) -/
def VecAlgo2.orthogonal {α : Type} [Add α] [Sub α] [Mul α] [Div α] [Neg α] [LT α] [DecidableLT α] [DecidableEq α] [OfNat α 0] [OfNat α 2] (tmin : α) (tmax : α) (sqrt : α → α) (s : V2 α) (t : V2 α) : (V2 α) :=
  let t600 := (V2.length tmin tmax sqrt ⟨s.x, s.y⟩)
  let t604 := ((0 : α) * (((0 : α) * t.x) + ((0 : α) * t.y)))
  let t605 := (s.y / t600)
  let t606 := (s.x / t600)
  let t609 := ((t606 * t.x) + (t605 * t.y))
  if t600 = (0 : α) then
    ⟨(t.x - t604), (t.y - t604)⟩
  else
    ⟨(t.x - (t606 * t609)), (t.y - (t605 * t609))⟩

/-- extracted from the C++ template at T = Sym; 2 path(s) -/
def VecAlgo2.reflect {α : Type} [Add α] [Sub α] [Mul α] [Div α] [Neg α] [LT α] [DecidableLT α] [DecidableEq α] [OfNat α 0] [OfNat α 2] (tmin : α) (tmax : α) (sqrt : α → α) (s : V2 α) (t : V2 α) : (V2 α) :=
  let t616 := (V2.length tmin tmax sqrt ⟨t.x, t.y⟩)
  let t620 := ((0 : α) * (((0 : α) * s.x) + ((0 : α) * s.y)))
  let t628 := (t.y / t616)
  let t629 := (t.x / t616)
  let t632 := ((t629 * s.x) + (t628 * s.y))
  if t616 = (0 : α) then
    ⟨(s.x - ((2 : α) * (s.x - t620))), (s.y - ((2 : α) * (s.y - t620)))⟩
  else
    ⟨(s.x - ((2 : α) * (s.x - (t629 * t632)))), (s.y - ((2 : α) * (s.y - (t628 * t632))))⟩

/-- extracted from the C++ template at T = Sym; 4 path(s) -/
def VecAlgo2.closestVertex {α : Type} [Add α] [Sub α] [Mul α] [LT α] [DecidableLT α] (v0 : V2 α) (v1 : V2 α) (v2 : V2 α) (p : V2 α) : (V2 α) :=
  let t641 := (v0.y - p.y)
  let t642 := (v0.x - p.x)
  let t645 := ((t642 * t642) + (t641 * t641))
  let t646 := (v1.y - p.y)
  let t647 := (v1.x - p.x)
  let t650 := ((t647 * t647) + (t646 * t646))
  let t651 := (v2.y - p.y)
  let t652 := (v2.x - p.x)
  let t655 := ((t652 * t652) + (t651 * t651))
  if t650 < t645 then
    if t655 < t650 then
      ⟨v2.x, v2.y⟩
    else
      ⟨v1.x, v1.y⟩
  else
    if t655 < t645 then
      ⟨v2.x, v2.y⟩
    else
      ⟨v0.x, v0.y⟩

/-- extracted from the C++ template at T = Sym; 2 path(s) -/
def VecAlgo3.project {α : Type} [Add α] [Mul α] [Div α] [Neg α] [LT α] [LE α] [DecidableLT α] [DecidableLE α] [DecidableEq α] [OfNat α 0] [OfNat α 2] (tmin : α) (tmax : α) (sqrt : α → α) (s : V3 α) (t : V3 α) : (V3 α) :=
  let t658 := (V3.length tmin tmax sqrt ⟨s.x, s.y, s.z⟩)
  let t661 := ((0 : α) * ((((0 : α) * t.x) + ((0 : α) * t.y)) + ((0 : α) * t.z)))
  let t662 := (s.z / t658)
  let t663 := (s.y / t658)
  let t664 := (s.x / t658)
  let t669 := (((t664 * t.x) + (t663 * t.y)) + (t662 * t.z))
  if t658 = (0 : α) then
    ⟨t661, t661, t661⟩
  else
    ⟨(t664 * t669), (t663 * t669), (t662 * t669)⟩

/-- extracted from the C++ template at T = Sym; 2 path(s) -/
def VecAlgo3.orthogonal {α : Type} [Add α] [Sub α] [Mul α] [Div α] [Neg α] [LT α] [LE α] [DecidableLT α] [DecidableLE α] [DecidableEq α] [OfNat α 0] [OfNat α 2] (tmin : α) (tmax : α) (sqrt : α → α) (s : V3 α) (t : V3 α) : (V3 α) :=
  let t658 := (V3.length tmin tmax sqrt ⟨s.x, s.y, s.z⟩)
  let t661 := ((0 : α) * ((((0 : α) * t.x) + ((0 : α) * t.y)) + ((0 : α) * t.z)))
  let t662 := (s.z / t658)
  let t663 := (s.y / t658)
  let t664 := (s.x / t658)
  let t669 := (((t664 * t.x) + (t663 * t.y)) + (t662 * t.z))
  if t658 = (0 : α) then
    ⟨(t.x - t661), (t.y - t661), (t.z - t661)⟩
  else
    ⟨(t.x - (t664 * t669)), (t.y - (t663 * t669)), (t.z - (t662 * t669))⟩

/-- extracted from the C++ template at T = Sym; 2 path(s) -/
def VecAlgo3.reflect {α : Type} [Add α] [Sub α] [Mul α] [Div α] [Neg α] [LT α] [LE α] [DecidableLT α] [DecidableLE α] [DecidableEq α] [OfNat α 0] [OfNat α 2] (tmin : α) (tmax : α) (sqrt : α → α) (s : V3 α) (t : V3 α) : (V3 α) :=
  let t679 := (V3.length tmin tmax sqrt ⟨t.x, t.y, t.z⟩)
  let t682 := ((0 : α) * ((((0 : α) * s.x) + ((0 : α) * s.y)) + ((0 : α) * s.z)))
  let t692 := (t.z / t679)
  let t693 := (t.y / t679)
  let t694 := (t.x / t679)
  let t699 := (((t694 * s.x) + (t693 * s.y)) + (t692 * s.z))
  if t679 = (0 : α) then
    ⟨(s.x - ((2 : α) * (s.x - t682))), (s.y - ((2 : α) * (s.y - t682))), (s.z - ((2 : α) * (s.z - t682)))⟩
  else
    ⟨(s.x - ((2 : α) * (s.x - (t694 * t699)))), (s.y - ((2 : α) * (s.y - (t693 * t699)))), (s.z - ((2 : α) * (s.z - (t692 * t699))))⟩

/-- extracted from the C++ template at T = Sym; 4 path(s) -/
def VecAlgo3.closestVertex {α : Type} [Add α] [Sub α] [Mul α] [LT α] [DecidableLT α] (v0 : V3 α) (v1 : V3 α) (v2 : V3 α) (p : V3 α) : (V3 α) :=
  let t641 := (v0.y - p.y)
  let t642 := (v0.x - p.x)
  let t646 := (v1.y - p.y)
  let t647 := (v1.x - p.x)
  let t651 := (v2.y - p.y)
  let t652 := (v2.x - p.x)
  let t712 := (v0.z - p.z)
  let t714 := (((t642 * t642) + (t641 * t641)) + (t712 * t712))
  let t715 := (v1.z - p.z)
  let t717 := (((t647 * t647) + (t646 * t646)) + (t715 * t715))
  let t718 := (v2.z - p.z)
  let t720 := (((t652 * t652) + (t651 * t651)) + (t718 * t718))
  if t717 < t714 then
    if t720 < t717 then
      ⟨v2.x, v2.y, v2.z⟩
    else
      ⟨v1.x, v1.y, v1.z⟩
  else
    if t720 < t714 then
      ⟨v2.x, v2.y, v2.z⟩
    else
      ⟨v0.x, v0.y, v0.z⟩

/-- extracted from the C++ template at T = Sym; 2 path(s) -/
def VecAlgo4.project {α : Type} [Add α] [Mul α] [Div α] [Neg α] [LT α] [LE α] [DecidableLT α] [DecidableLE α] [DecidableEq α] [OfNat α 0] [OfNat α 2] (tmin : α) (tmax : α) (sqrt : α → α) (s : V4 α) (t : V4 α) : (V4 α) :=
  let t723 := (V4.length tmin tmax sqrt ⟨s.x, s.y, s.z, s.w⟩)
  let t726 := ((0 : α) * (((((0 : α) * t.x) + ((0 : α) * t.y)) + ((0 : α) * t.z)) + ((0 : α) * t.w)))
  let t727 := (s.w / t723)
  let t728 := (s.z / t723)
  let t729 := (s.y / t723)
  let t730 := (s.x / t723)
  let t737 := ((((t730 * t.x) + (t729 * t.y)) + (t728 * t.z)) + (t727 * t.w))
  if t723 = (0 : α) then
    ⟨t726, t726, t726, t726⟩
  else
    ⟨(t730 * t737), (t729 * t737), (t728 * t737), (t727 * t737)⟩

/-- extracted from the C++ template at T = Sym; 2 path(s) -/
def VecAlgo4.orthogonal {α : Type} [Add α] [Sub α] [Mul α] [Div α] [Neg α] [LT α] [LE α] [DecidableLT α] [DecidableLE α] [DecidableEq α] [OfNat α 0] [OfNat α 2] (tmin : α) (tmax : α) (sqrt : α → α) (s : V4 α) (t : V4 α) : (V4 α) :=
  let t723 := (V4.length tmin tmax sqrt ⟨s.x, s.y, s.z, s.w⟩)
  let t726 := ((0 : α) * (((((0 : α) * t.x) + ((0 : α) * t.y)) + ((0 : α) * t.z)) + ((0 : α) * t.w)))
  let t727 := (s.w / t723)
  let t728 := (s.z / t723)
  let t729 := (s.y / t723)
  let t730 := (s.x / t723)
  let t737 := ((((t730 * t.x) + (t729 * t.y)) + (t728 * t.z)) + (t727 * t.w))
  if t723 = (0 : α) then
    ⟨(t.x - t726), (t.y - t726), (t.z - t726), (t.w - t726)⟩
  else
    ⟨(t.x - (t730 * t737)), (t.y - (t729 * t737)), (t.z - (t728 * t737)), (t.w - (t727 * t737))⟩

/-- extracted from the C++ template at T = Sym; 2 path(s) -/
def VecAlgo4.reflect {α : Type} [Add α] [Sub α] [Mul α] [Div α] [Neg α] [LT α] [LE α] [DecidableLT α] [DecidableLE α] [DecidableEq α] [OfNat α 0] [OfNat α 2] (tmin : α) (tmax : α) (sqrt : α → α) (s : V4 α) (t : V4 α) : (V4 α) :=
  let t750 := (V4.length tmin tmax sqrt ⟨t.x, t.y, t.z, t.w⟩)
  let t753 := ((0 : α) * (((((0 : α) * s.x) + ((0 : α) * s.y)) + ((0 : α) * s.z)) + ((0 : α) * s.w)))
  let t766 := (t.w / t750)
  let t767 := (t.z / t750)
  let t768 := (t.y / t750)
  let t769 := (t.x / t750)
  let t776 := ((((t769 * s.x) + (t768 * s.y)) + (t767 * s.z)) + (t766 * s.w))
  if t750 = (0 : α) then
    ⟨(s.x - ((2 : α) * (s.x - t753))), (s.y - ((2 : α) * (s.y - t753))), (s.z - ((2 : α) * (s.z - t753))), (s.w - ((2 : α) * (s.w - t753)))⟩
  else
    ⟨(s.x - ((2 : α) * (s.x - (t769 * t776)))), (s.y - ((2 : α) * (s.y - (t768 * t776)))), (s.z - ((2 : α) * (s.z - (t767 * t776)))), (s.w - ((2 : α) * (s.w - (t766 * t776))))⟩

/-- extracted from the C++ template at T = Sym; 4 path(s) -/
def VecAlgo4.closestVertex {α : Type} [Add α] [Sub α] [Mul α] [LT α] [DecidableLT α] (v0 : V4 α) (v1 : V4 α) (v2 : V4 α) (p : V4 α) : (V4 α) :=
  let t641 := (v0.y - p.y)
  let t642 := (v0.x - p.x)
  let t646 := (v1.y - p.y)
  let t647 := (v1.x - p.x)
  let t651 := (v2.y - p.y)
  let t652 := (v2.x - p.x)
  let t712 := (v0.z - p.z)
  let t715 := (v1.z - p.z)
  let t718 := (v2.z - p.z)
  let t797 := (v0.w - p.w)
  let t799 := ((((t642 * t642) + (t641 * t641)) + (t712 * t712)) + (t797 * t797))
  let t800 := (v1.w - p.w)
  let t802 := ((((t647 * t647) + (t646 * t646)) + (t715 * t715)) + (t800 * t800))
  let t803 := (v2.w - p.w)
  let t805 := ((((t652 * t652) + (t651 * t651)) + (t718 * t718)) + (t803 * t803))
  if t802 < t799 then
    if t805 < t802 then
      ⟨v2.x, v2.y, v2.z, v2.w⟩
    else
      ⟨v1.x, v1.y, v1.z, v1.w⟩
  else
    if t805 < t799 then
      ⟨v2.x, v2.y, v2.z, v2.w⟩
    else
      ⟨v0.x, v0.y, v0.z, v0.w⟩

end ImathVerif.Gen
