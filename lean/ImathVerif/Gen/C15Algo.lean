-- GENERATED from /repo/src/Imath by harness/sym (T = Sym path extraction); do not edit.
import ImathVerif.Basic.Types
import ImathVerif.Gen.Leaf
set_option linter.unusedVariables false
namespace ImathVerif.Gen
open ImathVerif

/-- extracted from the C++ template at T = Sym; 4 path(s) -/
def LineAlgo.closestPoints {α : Type} [Add α] [Sub α] [Mul α] [Div α] [Neg α] [LT α] [LE α] [DecidableLT α] [DecidableLE α] [OfNat α 0] [OfNat α 1] (tmax : α) (l1 : Line3 α) (l2 : Line3 α) : (Bool × (V3 α) × (V3 α)) :=
  let t56 := (l1.pos.z - l2.pos.z)
  let t57 := (l1.pos.y - l2.pos.y)
  let t58 := (l1.pos.x - l2.pos.x)
  let t63 := (((l1.dir.x * t58) + (l1.dir.y * t57)) + (l1.dir.z * t56))
  let t73 := (((l2.dir.x * t58) + (l2.dir.y * t57)) + (l2.dir.z * t56))
  let t134 := (((l1.dir.x * l2.dir.x) + (l1.dir.y * l2.dir.y)) + (l1.dir.z * l2.dir.z))
  let t136 := ((t134 * t73) - t63)
  let t138 := (t73 - (t134 * t63))
  let t140 := ((1 : α) - (t134 * t134))
  let t141 := (sabs t140)
  let t142 := (t136 / t140)
  let t146 := (l1.pos.z + (l1.dir.z * t142))
  let t147 := (l1.pos.y + (l1.dir.y * t142))
  let t148 := (l1.pos.x + (l1.dir.x * t142))
  let t149 := (t138 / t140)
  let t153 := (l2.pos.z + (l2.dir.z * t149))
  let t154 := (l2.pos.y + (l2.dir.y * t149))
  let t155 := (l2.pos.x + (l2.dir.x * t149))
  let t156 := (tmax * t141)
  let t157 := (sabs t136)
  let t158 := (sabs t138)
  if (1 : α) < t141 then
    (true, ⟨t148, t147, t146⟩, ⟨t155, t154, t153⟩)
  else
    if t157 < t156 then
      if t158 ≤ t156 then
        (true, ⟨t148, t147, t146⟩, ⟨t155, t154, t153⟩)
      else
        (false, ⟨(0 : α), (0 : α), (0 : α)⟩, ⟨(0 : α), (0 : α), (0 : α)⟩)
    else
      (false, ⟨(0 : α), (0 : α), (0 : α)⟩, ⟨(0 : α), (0 : α), (0 : α)⟩)

/-- extracted from the C++ template at T = Sym; 50 path(s) -/
def LineAlgo.intersect {α : Type} [Add α] [Sub α] [Mul α] [Div α] [Neg α] [LT α] [LE α] [DecidableLT α] [DecidableLE α] [DecidableEq α] [OfNat α 0] [OfNat α 1] [OfNat α 2] (tmin : α) (tmax : α) (sqrt : α → α) (l : Line3 α) (v0 : V3 α) (v1 : V3 α) (v2 : V3 α) : (Bool × (V3 α) × (V3 α) × Bool) :=
  let t168 := (v1.z - v0.z)
  let t169 := (v1.y - v0.y)
  let t170 := (v1.x - v0.x)
  let t171 := (v2.z - v1.z)
  let t172 := (v2.y - v1.y)
  let t173 := (v2.x - v1.x)
  let t176 := ((t173 * t169) - (t172 * t170))
  let t179 := ((t171 * t170) - (t173 * t168))
  let t182 := ((t172 * t168) - (t171 * t169))
  let t183 := (V3.length tmin tmax sqrt ⟨t182, t179, t176⟩)
  let t184 := (t182 / t183)
  let t185 := (t179 / t183)
  let t186 := (t176 / t183)
  let t194 := (((t184 * (v0.x - l.pos.x)) + (t185 * (v0.y - l.pos.y))) + (t186 * (v0.z - l.pos.z)))
  let t199 := (((t184 * l.dir.x) + (t185 * l.dir.y)) + (t186 * l.dir.z))
  let t200 := (sabs t199)
  let t201 := (t194 / t199)
  let t205 := (l.pos.z + (l.dir.z * t201))
  let t206 := (l.pos.y + (l.dir.y * t201))
  let t207 := (l.pos.x + (l.dir.x * t201))
  let t208 := (V3.length tmin tmax sqrt ⟨t170, t169, t168⟩)
  let t209 := (t205 - v0.z)
  let t210 := (t206 - v0.y)
  let t211 := (t207 - v0.x)
  let t212 := (v2.z - v0.z)
  let t213 := (v2.y - v0.y)
  let t214 := (v2.x - v0.x)
  let t220 := ((0 : α) * ((((0 : α) * t211) + ((0 : α) * t210)) + ((0 : α) * t209)))
  let t229 := ((0 : α) * ((((0 : α) * t214) + ((0 : α) * t213)) + ((0 : α) * t212)))
  let t230 := (t212 - t229)
  let t231 := (t213 - t229)
  let t232 := (t214 - t229)
  let t237 := ((((t211 - t220) * t232) + ((t210 - t220) * t231)) + ((t209 - t220) * t230))
  let t242 := (((t232 * t232) + (t231 * t231)) + (t230 * t230))
  let t243 := (t237 / t242)
  let t244 := (V3.length tmin tmax sqrt ⟨t173, t172, t171⟩)
  let t245 := (t205 - v1.z)
  let t246 := (t206 - v1.y)
  let t247 := (t207 - v1.x)
  let t248 := (v0.z - v1.z)
  let t249 := (v0.y - v1.y)
  let t250 := (v0.x - v1.x)
  let t256 := ((0 : α) * ((((0 : α) * t247) + ((0 : α) * t246)) + ((0 : α) * t245)))
  let t265 := ((0 : α) * ((((0 : α) * t250) + ((0 : α) * t249)) + ((0 : α) * t248)))
  let t266 := (t248 - t265)
  let t267 := (t249 - t265)
  let t268 := (t250 - t265)
  let t273 := ((((t247 - t256) * t268) + ((t246 - t256) * t267)) + ((t245 - t256) * t266))
  let t278 := (((t268 * t268) + (t267 * t267)) + (t266 * t266))
  let t279 := (t273 / t278)
  let t280 := ((1 : α) - t279)
  let t281 := (t280 - t243)
  let t286 := (((l.dir.x * t184) + (l.dir.y * t185)) + (l.dir.z * t186))
  let t287 := (t171 / t244)
  let t288 := (t172 / t244)
  let t289 := (t173 / t244)
  let t294 := (((t289 * t247) + (t288 * t246)) + (t287 * t245))
  let t305 := (((t289 * t250) + (t288 * t249)) + (t287 * t248))
  let t309 := (t248 - (t287 * t305))
  let t310 := (t249 - (t288 * t305))
  let t311 := (t250 - (t289 * t305))
  let t316 := ((((t247 - (t289 * t294)) * t311) + ((t246 - (t288 * t294)) * t310)) + ((t245 - (t287 * t294)) * t309))
  let t321 := (((t311 * t311) + (t310 * t310)) + (t309 * t309))
  let t322 := (t316 / t321)
  let t323 := ((1 : α) - t322)
  let t324 := (t323 - t243)
  let t325 := (t168 / t208)
  let t326 := (t169 / t208)
  let t327 := (t170 / t208)
  let t332 := (((t327 * t211) + (t326 * t210)) + (t325 * t209))
  let t343 := (((t327 * t214) + (t326 * t213)) + (t325 * t212))
  let t347 := (t212 - (t325 * t343))
  let t348 := (t213 - (t326 * t343))
  let t349 := (t214 - (t327 * t343))
  let t354 := ((((t211 - (t327 * t332)) * t349) + ((t210 - (t326 * t332)) * t348)) + ((t209 - (t325 * t332)) * t347))
  let t359 := (((t349 * t349) + (t348 * t348)) + (t347 * t347))
  let t360 := (t354 / t359)
  let t361 := (t280 - t360)
  let t362 := (t323 - t360)
  let t363 := (tmax * t200)
  let t364 := (sabs t194)
  if t183 = (0 : α) then
    (false, ⟨(0 : α), (0 : α), (0 : α)⟩, ⟨(0 : α), (0 : α), (0 : α)⟩, false)
  else
    if (1 : α) < t200 then
      if t208 = (0 : α) then
        if (0 : α) ≤ t237 then
          if t237 ≤ t242 then
            if t244 = (0 : α) then
              if (0 : α) ≤ t273 then
                if t273 ≤ t278 then
                  if t281 < (0 : α) then
                    (false, ⟨t207, t206, t205⟩, ⟨t279, t281, t243⟩, false)
                  else
                    if t286 < (0 : α) then
                      (true, ⟨t207, t206, t205⟩, ⟨t279, t281, t243⟩, true)
                    else
                      (true, ⟨t207, t206, t205⟩, ⟨t279, t281, t243⟩, false)
                else
                  (false, ⟨t207, t206, t205⟩, ⟨(0 : α), (0 : α), t243⟩, false)
              else
                (false, ⟨t207, t206, t205⟩, ⟨(0 : α), (0 : α), t243⟩, false)
            else
              if (0 : α) ≤ t316 then
                if t316 ≤ t321 then
                  if t324 < (0 : α) then
                    (false, ⟨t207, t206, t205⟩, ⟨t322, t324, t243⟩, false)
                  else
                    if t286 < (0 : α) then
                      (true, ⟨t207, t206, t205⟩, ⟨t322, t324, t243⟩, true)
                    else
                      (true, ⟨t207, t206, t205⟩, ⟨t322, t324, t243⟩, false)
                else
                  (false, ⟨t207, t206, t205⟩, ⟨(0 : α), (0 : α), t243⟩, false)
              else
                (false, ⟨t207, t206, t205⟩, ⟨(0 : α), (0 : α), t243⟩, false)
          else
            (false, ⟨t207, t206, t205⟩, ⟨(0 : α), (0 : α), (0 : α)⟩, false)
        else
          (false, ⟨t207, t206, t205⟩, ⟨(0 : α), (0 : α), (0 : α)⟩, false)
      else
        if (0 : α) ≤ t354 then
          if t354 ≤ t359 then
            if t244 = (0 : α) then
              if (0 : α) ≤ t273 then
                if t273 ≤ t278 then
                  if t361 < (0 : α) then
                    (false, ⟨t207, t206, t205⟩, ⟨t279, t361, t360⟩, false)
                  else
                    if t286 < (0 : α) then
                      (true, ⟨t207, t206, t205⟩, ⟨t279, t361, t360⟩, true)
                    else
                      (true, ⟨t207, t206, t205⟩, ⟨t279, t361, t360⟩, false)
                else
                  (false, ⟨t207, t206, t205⟩, ⟨(0 : α), (0 : α), t360⟩, false)
              else
                (false, ⟨t207, t206, t205⟩, ⟨(0 : α), (0 : α), t360⟩, false)
            else
              if (0 : α) ≤ t316 then
                if t316 ≤ t321 then
                  if t362 < (0 : α) then
                    (false, ⟨t207, t206, t205⟩, ⟨t322, t362, t360⟩, false)
                  else
                    if t286 < (0 : α) then
                      (true, ⟨t207, t206, t205⟩, ⟨t322, t362, t360⟩, true)
                    else
                      (true, ⟨t207, t206, t205⟩, ⟨t322, t362, t360⟩, false)
                else
                  (false, ⟨t207, t206, t205⟩, ⟨(0 : α), (0 : α), t360⟩, false)
              else
                (false, ⟨t207, t206, t205⟩, ⟨(0 : α), (0 : α), t360⟩, false)
          else
            (false, ⟨t207, t206, t205⟩, ⟨(0 : α), (0 : α), (0 : α)⟩, false)
        else
          (false, ⟨t207, t206, t205⟩, ⟨(0 : α), (0 : α), (0 : α)⟩, false)
    else
      if t364 < t363 then
        if t208 = (0 : α) then
          if (0 : α) ≤ t237 then
            if t237 ≤ t242 then
              if t244 = (0 : α) then
                if (0 : α) ≤ t273 then
                  if t273 ≤ t278 then
                    if t281 < (0 : α) then
                      (false, ⟨t207, t206, t205⟩, ⟨t279, t281, t243⟩, false)
                    else
                      if t286 < (0 : α) then
                        (true, ⟨t207, t206, t205⟩, ⟨t279, t281, t243⟩, true)
                      else
                        (true, ⟨t207, t206, t205⟩, ⟨t279, t281, t243⟩, false)
                  else
                    (false, ⟨t207, t206, t205⟩, ⟨(0 : α), (0 : α), t243⟩, false)
                else
                  (false, ⟨t207, t206, t205⟩, ⟨(0 : α), (0 : α), t243⟩, false)
              else
                if (0 : α) ≤ t316 then
                  if t316 ≤ t321 then
                    if t324 < (0 : α) then
                      (false, ⟨t207, t206, t205⟩, ⟨t322, t324, t243⟩, false)
                    else
                      if t286 < (0 : α) then
                        (true, ⟨t207, t206, t205⟩, ⟨t322, t324, t243⟩, true)
                      else
                        (true, ⟨t207, t206, t205⟩, ⟨t322, t324, t243⟩, false)
                  else
                    (false, ⟨t207, t206, t205⟩, ⟨(0 : α), (0 : α), t243⟩, false)
                else
                  (false, ⟨t207, t206, t205⟩, ⟨(0 : α), (0 : α), t243⟩, false)
            else
              (false, ⟨t207, t206, t205⟩, ⟨(0 : α), (0 : α), (0 : α)⟩, false)
          else
            (false, ⟨t207, t206, t205⟩, ⟨(0 : α), (0 : α), (0 : α)⟩, false)
        else
          if (0 : α) ≤ t354 then
            if t354 ≤ t359 then
              if t244 = (0 : α) then
                if (0 : α) ≤ t273 then
                  if t273 ≤ t278 then
                    if t361 < (0 : α) then
                      (false, ⟨t207, t206, t205⟩, ⟨t279, t361, t360⟩, false)
                    else
                      if t286 < (0 : α) then
                        (true, ⟨t207, t206, t205⟩, ⟨t279, t361, t360⟩, true)
                      else
                        (true, ⟨t207, t206, t205⟩, ⟨t279, t361, t360⟩, false)
                  else
                    (false, ⟨t207, t206, t205⟩, ⟨(0 : α), (0 : α), t360⟩, false)
                else
                  (false, ⟨t207, t206, t205⟩, ⟨(0 : α), (0 : α), t360⟩, false)
              else
                if (0 : α) ≤ t316 then
                  if t316 ≤ t321 then
                    if t362 < (0 : α) then
                      (false, ⟨t207, t206, t205⟩, ⟨t322, t362, t360⟩, false)
                    else
                      if t286 < (0 : α) then
                        (true, ⟨t207, t206, t205⟩, ⟨t322, t362, t360⟩, true)
                      else
                        (true, ⟨t207, t206, t205⟩, ⟨t322, t362, t360⟩, false)
                  else
                    (false, ⟨t207, t206, t205⟩, ⟨(0 : α), (0 : α), t360⟩, false)
                else
                  (false, ⟨t207, t206, t205⟩, ⟨(0 : α), (0 : α), t360⟩, false)
            else
              (false, ⟨t207, t206, t205⟩, ⟨(0 : α), (0 : α), (0 : α)⟩, false)
          else
            (false, ⟨t207, t206, t205⟩, ⟨(0 : α), (0 : α), (0 : α)⟩, false)
      else
        (false, ⟨(0 : α), (0 : α), (0 : α)⟩, ⟨(0 : α), (0 : α), (0 : α)⟩, false)

/-- extracted from the C++ template at T = Sym; 4 path(s) -/
def LineAlgo.closestVertex {α : Type} [Add α] [Sub α] [Mul α] [LT α] [DecidableLT α] (v0 : V3 α) (v1 : V3 α) (v2 : V3 α) (l : Line3 α) : (V3 α) :=
  let t369 := ((((v0.x - l.pos.x) * l.dir.x) + ((v0.y - l.pos.y) * l.dir.y)) + ((v0.z - l.pos.z) * l.dir.z))
  let t376 := (v0.z - ((t369 * l.dir.z) + l.pos.z))
  let t377 := (v0.y - ((t369 * l.dir.y) + l.pos.y))
  let t378 := (v0.x - ((t369 * l.dir.x) + l.pos.x))
  let t383 := (((t378 * t378) + (t377 * t377)) + (t376 * t376))
  let t391 := ((((v1.x - l.pos.x) * l.dir.x) + ((v1.y - l.pos.y) * l.dir.y)) + ((v1.z - l.pos.z) * l.dir.z))
  let t398 := (v1.z - ((t391 * l.dir.z) + l.pos.z))
  let t399 := (v1.y - ((t391 * l.dir.y) + l.pos.y))
  let t400 := (v1.x - ((t391 * l.dir.x) + l.pos.x))
  let t405 := (((t400 * t400) + (t399 * t399)) + (t398 * t398))
  let t413 := ((((v2.x - l.pos.x) * l.dir.x) + ((v2.y - l.pos.y) * l.dir.y)) + ((v2.z - l.pos.z) * l.dir.z))
  let t420 := (v2.z - ((t413 * l.dir.z) + l.pos.z))
  let t421 := (v2.y - ((t413 * l.dir.y) + l.pos.y))
  let t422 := (v2.x - ((t413 * l.dir.x) + l.pos.x))
  let t427 := (((t422 * t422) + (t421 * t421)) + (t420 * t420))
  if t405 < t383 then
    if t427 < t405 then
      ⟨v2.x, v2.y, v2.z⟩
    else
      ⟨v1.x, v1.y, v1.z⟩
  else
    if t427 < t383 then
      ⟨v2.x, v2.y, v2.z⟩
    else
      ⟨v0.x, v0.y, v0.z⟩

/-- extracted from the C++ template at T = Sym; 4 path(s) -/
def LineAlgo.rotatePoint {α : Type} [Add α] [Sub α] [Mul α] [Div α] [Neg α] [LT α] [LE α] [DecidableLT α] [DecidableLE α] [DecidableEq α] [OfNat α 0] [OfNat α 2] (tmin : α) (tmax : α) (sqrt : α → α) (sin : α → α) (cos : α → α) (p : V3 α) (l : Line3 α) (angle : α) : (V3 α) :=
  let t37 := ((((p.x - l.pos.x) * l.dir.x) + ((p.y - l.pos.y) * l.dir.y)) + ((p.z - l.pos.z) * l.dir.z))
  let t41 := ((t37 * l.dir.z) + l.pos.z)
  let t42 := ((t37 * l.dir.y) + l.pos.y)
  let t43 := ((t37 * l.dir.x) + l.pos.x)
  let t429 := (p.z - t41)
  let t430 := (p.y - t42)
  let t431 := (p.x - t43)
  let t432 := (V3.length tmin tmax sqrt ⟨t431, t430, t429⟩)
  let t435 := ((t431 * l.dir.y) - (t430 * l.dir.x))
  let t438 := ((t429 * l.dir.x) - (t431 * l.dir.z))
  let t441 := ((t430 * l.dir.z) - (t429 * l.dir.y))
  let t442 := (V3.length tmin tmax sqrt ⟨t441, t438, t435⟩)
  let t443 := (cos angle)
  let t444 := (sin angle)
  let t457 := (t41 + ((t429 * t432) * t443))
  let t458 := (t42 + ((t430 * t432) * t443))
  let t459 := (t43 + ((t431 * t432) * t443))
  let t475 := (t431 / t432)
  let t476 := (t430 / t432)
  let t477 := (t429 / t432)
  let t480 := ((t475 * l.dir.y) - (t476 * l.dir.x))
  let t483 := ((t477 * l.dir.x) - (t475 * l.dir.z))
  let t486 := ((t476 * l.dir.z) - (t477 * l.dir.y))
  let t487 := (V3.length tmin tmax sqrt ⟨t486, t483, t480⟩)
  let t500 := (t41 + ((t477 * t432) * t443))
  let t501 := (t42 + ((t476 * t432) * t443))
  let t502 := (t43 + ((t475 * t432) * t443))
  if t432 = (0 : α) then
    if t442 = (0 : α) then
      ⟨(t459 + ((t441 * t432) * t444)), (t458 + ((t438 * t432) * t444)), (t457 + ((t435 * t432) * t444))⟩
    else
      ⟨(t459 + (((t441 / t442) * t432) * t444)), (t458 + (((t438 / t442) * t432) * t444)), (t457 + (((t435 / t442) * t432) * t444))⟩
  else
    if t487 = (0 : α) then
      ⟨(t502 + ((t486 * t432) * t444)), (t501 + ((t483 * t432) * t444)), (t500 + ((t480 * t432) * t444))⟩
    else
      ⟨(t502 + (((t486 / t487) * t432) * t444)), (t501 + (((t483 / t487) * t432) * t444)), (t500 + (((t480 / t487) * t432) * t444))⟩

/-- extracted from the C++ template at T = Sym; 2 path(s) -/
def VecAlgo2.project {α : Type} [Add α] [Mul α] [Div α] [Neg α] [LT α] [DecidableLT α] [DecidableEq α] [OfNat α 0] [OfNat α 2] (tmin : α) (tmax : α) (sqrt : α → α) (s : V2 α) (t : V2 α) : (V2 α) :=
  let t522 := (V2.length tmin tmax sqrt ⟨s.x, s.y⟩)
  let t526 := ((0 : α) * (((0 : α) * t.x) + ((0 : α) * t.y)))
  let t527 := (s.y / t522)
  let t528 := (s.x / t522)
  let t531 := ((t528 * t.x) + (t527 * t.y))
  if t522 = (0 : α) then
    ⟨t526, t526⟩
  else
    ⟨(t528 * t531), (t527 * t531)⟩

/-- extracted from the C++ template at T = Sym; 2 path(s) -/
def VecAlgo2.orthogonal {α : Type} [Add α] [Sub α] [Mul α] [Div α] [Neg α] [LT α] [DecidableLT α] [DecidableEq α] [OfNat α 0] [OfNat α 2] (tmin : α) (tmax : α) (sqrt : α → α) (s : V2 α) (t : V2 α) : (V2 α) :=
  let t522 := (V2.length tmin tmax sqrt ⟨s.x, s.y⟩)
  let t526 := ((0 : α) * (((0 : α) * t.x) + ((0 : α) * t.y)))
  let t527 := (s.y / t522)
  let t528 := (s.x / t522)
  let t531 := ((t528 * t.x) + (t527 * t.y))
  if t522 = (0 : α) then
    ⟨(t.x - t526), (t.y - t526)⟩
  else
    ⟨(t.x - (t528 * t531)), (t.y - (t527 * t531))⟩

/-- extracted from the C++ template at T = Sym; 2 path(s) -/
def VecAlgo2.reflect {α : Type} [Add α] [Sub α] [Mul α] [Div α] [Neg α] [LT α] [DecidableLT α] [DecidableEq α] [OfNat α 0] [OfNat α 2] (tmin : α) (tmax : α) (sqrt : α → α) (s : V2 α) (t : V2 α) : (V2 α) :=
  let t538 := (V2.length tmin tmax sqrt ⟨t.x, t.y⟩)
  let t542 := ((0 : α) * (((0 : α) * s.x) + ((0 : α) * s.y)))
  let t550 := (t.y / t538)
  let t551 := (t.x / t538)
  let t554 := ((t551 * s.x) + (t550 * s.y))
  if t538 = (0 : α) then
    ⟨(s.x - ((2 : α) * (s.x - t542))), (s.y - ((2 : α) * (s.y - t542)))⟩
  else
    ⟨(s.x - ((2 : α) * (s.x - (t551 * t554)))), (s.y - ((2 : α) * (s.y - (t550 * t554))))⟩

/-- extracted from the C++ template at T = Sym; 4 path(s) -/
def VecAlgo2.closestVertex {α : Type} [Add α] [Sub α] [Mul α] [LT α] [DecidableLT α] (v0 : V2 α) (v1 : V2 α) (v2 : V2 α) (p : V2 α) : (V2 α) :=
  let t563 := (v0.y - p.y)
  let t564 := (v0.x - p.x)
  let t567 := ((t564 * t564) + (t563 * t563))
  let t568 := (v1.y - p.y)
  let t569 := (v1.x - p.x)
  let t572 := ((t569 * t569) + (t568 * t568))
  let t573 := (v2.y - p.y)
  let t574 := (v2.x - p.x)
  let t577 := ((t574 * t574) + (t573 * t573))
  if t572 < t567 then
    if t577 < t572 then
      ⟨v2.x, v2.y⟩
    else
      ⟨v1.x, v1.y⟩
  else
    if t577 < t567 then
      ⟨v2.x, v2.y⟩
    else
      ⟨v0.x, v0.y⟩

/-- extracted from the C++ template at T = Sym; 2 path(s) -/
def VecAlgo3.project {α : Type} [Add α] [Mul α] [Div α] [Neg α] [LT α] [LE α] [DecidableLT α] [DecidableLE α] [DecidableEq α] [OfNat α 0] [OfNat α 2] (tmin : α) (tmax : α) (sqrt : α → α) (s : V3 α) (t : V3 α) : (V3 α) :=
  let t580 := (V3.length tmin tmax sqrt ⟨s.x, s.y, s.z⟩)
  let t583 := ((0 : α) * ((((0 : α) * t.x) + ((0 : α) * t.y)) + ((0 : α) * t.z)))
  let t584 := (s.z / t580)
  let t585 := (s.y / t580)
  let t586 := (s.x / t580)
  let t591 := (((t586 * t.x) + (t585 * t.y)) + (t584 * t.z))
  if t580 = (0 : α) then
    ⟨t583, t583, t583⟩
  else
    ⟨(t586 * t591), (t585 * t591), (t584 * t591)⟩

/-- extracted from the C++ template at T = Sym; 2 path(s) -/
def VecAlgo3.orthogonal {α : Type} [Add α] [Sub α] [Mul α] [Div α] [Neg α] [LT α] [LE α] [DecidableLT α] [DecidableLE α] [DecidableEq α] [OfNat α 0] [OfNat α 2] (tmin : α) (tmax : α) (sqrt : α → α) (s : V3 α) (t : V3 α) : (V3 α) :=
  let t580 := (V3.length tmin tmax sqrt ⟨s.x, s.y, s.z⟩)
  let t583 := ((0 : α) * ((((0 : α) * t.x) + ((0 : α) * t.y)) + ((0 : α) * t.z)))
  let t584 := (s.z / t580)
  let t585 := (s.y / t580)
  let t586 := (s.x / t580)
  let t591 := (((t586 * t.x) + (t585 * t.y)) + (t584 * t.z))
  if t580 = (0 : α) then
    ⟨(t.x - t583), (t.y - t583), (t.z - t583)⟩
  else
    ⟨(t.x - (t586 * t591)), (t.y - (t585 * t591)), (t.z - (t584 * t591))⟩

/-- extracted from the C++ template at T = Sym; 2 path(s) -/
def VecAlgo3.reflect {α : Type} [Add α] [Sub α] [Mul α] [Div α] [Neg α] [LT α] [LE α] [DecidableLT α] [DecidableLE α] [DecidableEq α] [OfNat α 0] [OfNat α 2] (tmin : α) (tmax : α) (sqrt : α → α) (s : V3 α) (t : V3 α) : (V3 α) :=
  let t601 := (V3.length tmin tmax sqrt ⟨t.x, t.y, t.z⟩)
  let t604 := ((0 : α) * ((((0 : α) * s.x) + ((0 : α) * s.y)) + ((0 : α) * s.z)))
  let t614 := (t.z / t601)
  let t615 := (t.y / t601)
  let t616 := (t.x / t601)
  let t621 := (((t616 * s.x) + (t615 * s.y)) + (t614 * s.z))
  if t601 = (0 : α) then
    ⟨(s.x - ((2 : α) * (s.x - t604))), (s.y - ((2 : α) * (s.y - t604))), (s.z - ((2 : α) * (s.z - t604)))⟩
  else
    ⟨(s.x - ((2 : α) * (s.x - (t616 * t621)))), (s.y - ((2 : α) * (s.y - (t615 * t621)))), (s.z - ((2 : α) * (s.z - (t614 * t621))))⟩

/-- extracted from the C++ template at T = Sym; 4 path(s) -/
def VecAlgo3.closestVertex {α : Type} [Add α] [Sub α] [Mul α] [LT α] [DecidableLT α] (v0 : V3 α) (v1 : V3 α) (v2 : V3 α) (p : V3 α) : (V3 α) :=
  let t563 := (v0.y - p.y)
  let t564 := (v0.x - p.x)
  let t568 := (v1.y - p.y)
  let t569 := (v1.x - p.x)
  let t573 := (v2.y - p.y)
  let t574 := (v2.x - p.x)
  let t634 := (v0.z - p.z)
  let t636 := (((t564 * t564) + (t563 * t563)) + (t634 * t634))
  let t637 := (v1.z - p.z)
  let t639 := (((t569 * t569) + (t568 * t568)) + (t637 * t637))
  let t640 := (v2.z - p.z)
  let t642 := (((t574 * t574) + (t573 * t573)) + (t640 * t640))
  if t639 < t636 then
    if t642 < t639 then
      ⟨v2.x, v2.y, v2.z⟩
    else
      ⟨v1.x, v1.y, v1.z⟩
  else
    if t642 < t636 then
      ⟨v2.x, v2.y, v2.z⟩
    else
      ⟨v0.x, v0.y, v0.z⟩

/-- extracted from the C++ template at T = Sym; 2 path(s) -/
def VecAlgo4.project {α : Type} [Add α] [Mul α] [Div α] [Neg α] [LT α] [LE α] [DecidableLT α] [DecidableLE α] [DecidableEq α] [OfNat α 0] [OfNat α 2] (tmin : α) (tmax : α) (sqrt : α → α) (s : V4 α) (t : V4 α) : (V4 α) :=
  let t645 := (V4.length tmin tmax sqrt ⟨s.x, s.y, s.z, s.w⟩)
  let t648 := ((0 : α) * (((((0 : α) * t.x) + ((0 : α) * t.y)) + ((0 : α) * t.z)) + ((0 : α) * t.w)))
  let t649 := (s.w / t645)
  let t650 := (s.z / t645)
  let t651 := (s.y / t645)
  let t652 := (s.x / t645)
  let t659 := ((((t652 * t.x) + (t651 * t.y)) + (t650 * t.z)) + (t649 * t.w))
  if t645 = (0 : α) then
    ⟨t648, t648, t648, t648⟩
  else
    ⟨(t652 * t659), (t651 * t659), (t650 * t659), (t649 * t659)⟩

/-- extracted from the C++ template at T = Sym; 2 path(s) -/
def VecAlgo4.orthogonal {α : Type} [Add α] [Sub α] [Mul α] [Div α] [Neg α] [LT α] [LE α] [DecidableLT α] [DecidableLE α] [DecidableEq α] [OfNat α 0] [OfNat α 2] (tmin : α) (tmax : α) (sqrt : α → α) (s : V4 α) (t : V4 α) : (V4 α) :=
  let t645 := (V4.length tmin tmax sqrt ⟨s.x, s.y, s.z, s.w⟩)
  let t648 := ((0 : α) * (((((0 : α) * t.x) + ((0 : α) * t.y)) + ((0 : α) * t.z)) + ((0 : α) * t.w)))
  let t649 := (s.w / t645)
  let t650 := (s.z / t645)
  let t651 := (s.y / t645)
  let t652 := (s.x / t645)
  let t659 := ((((t652 * t.x) + (t651 * t.y)) + (t650 * t.z)) + (t649 * t.w))
  if t645 = (0 : α) then
    ⟨(t.x - t648), (t.y - t648), (t.z - t648), (t.w - t648)⟩
  else
    ⟨(t.x - (t652 * t659)), (t.y - (t651 * t659)), (t.z - (t650 * t659)), (t.w - (t649 * t659))⟩

/-- extracted from the C++ template at T = Sym; 2 path(s) -/
def VecAlgo4.reflect {α : Type} [Add α] [Sub α] [Mul α] [Div α] [Neg α] [LT α] [LE α] [DecidableLT α] [DecidableLE α] [DecidableEq α] [OfNat α 0] [OfNat α 2] (tmin : α) (tmax : α) (sqrt : α → α) (s : V4 α) (t : V4 α) : (V4 α) :=
  let t672 := (V4.length tmin tmax sqrt ⟨t.x, t.y, t.z, t.w⟩)
  let t675 := ((0 : α) * (((((0 : α) * s.x) + ((0 : α) * s.y)) + ((0 : α) * s.z)) + ((0 : α) * s.w)))
  let t688 := (t.w / t672)
  let t689 := (t.z / t672)
  let t690 := (t.y / t672)
  let t691 := (t.x / t672)
  let t698 := ((((t691 * s.x) + (t690 * s.y)) + (t689 * s.z)) + (t688 * s.w))
  if t672 = (0 : α) then
    ⟨(s.x - ((2 : α) * (s.x - t675))), (s.y - ((2 : α) * (s.y - t675))), (s.z - ((2 : α) * (s.z - t675))), (s.w - ((2 : α) * (s.w - t675)))⟩
  else
    ⟨(s.x - ((2 : α) * (s.x - (t691 * t698)))), (s.y - ((2 : α) * (s.y - (t690 * t698)))), (s.z - ((2 : α) * (s.z - (t689 * t698)))), (s.w - ((2 : α) * (s.w - (t688 * t698))))⟩

/-- extracted from the C++ template at T = Sym; 4 path(s) -/
def VecAlgo4.closestVertex {α : Type} [Add α] [Sub α] [Mul α] [LT α] [DecidableLT α] (v0 : V4 α) (v1 : V4 α) (v2 : V4 α) (p : V4 α) : (V4 α) :=
  let t563 := (v0.y - p.y)
  let t564 := (v0.x - p.x)
  let t568 := (v1.y - p.y)
  let t569 := (v1.x - p.x)
  let t573 := (v2.y - p.y)
  let t574 := (v2.x - p.x)
  let t634 := (v0.z - p.z)
  let t637 := (v1.z - p.z)
  let t640 := (v2.z - p.z)
  let t719 := (v0.w - p.w)
  let t721 := ((((t564 * t564) + (t563 * t563)) + (t634 * t634)) + (t719 * t719))
  let t722 := (v1.w - p.w)
  let t724 := ((((t569 * t569) + (t568 * t568)) + (t637 * t637)) + (t722 * t722))
  let t725 := (v2.w - p.w)
  let t727 := ((((t574 * t574) + (t573 * t573)) + (t640 * t640)) + (t725 * t725))
  if t724 < t721 then
    if t727 < t724 then
      ⟨v2.x, v2.y, v2.z, v2.w⟩
    else
      ⟨v1.x, v1.y, v1.z, v1.w⟩
  else
    if t727 < t721 then
      ⟨v2.x, v2.y, v2.z, v2.w⟩
    else
      ⟨v0.x, v0.y, v0.z, v0.w⟩

end ImathVerif.Gen
