-- GENERATED from /repo/src/Imath by harness/sym (T = Sym path extraction); do not edit.
import ImathVerif.Basic.Types
import ImathVerif.Gen.C10Quat
set_option linter.unusedVariables false
namespace ImathVerif.Gen
open ImathVerif

/-- extracted from the C++ template at T = Sym; 13 path(s) -/
def C10.Quat.setRotationMod {α : Type} [Add α] [Sub α] [Mul α] [Div α] [Neg α] [LT α] [LE α] [DecidableLT α] [DecidableLE α] [DecidableEq α] [OfNat α 0] [OfNat α 1] [OfNat α 2] [OfNat α 8] (tmin : α) (tmax : α) (teps : α) (sqrt : α → α) (q : Quat α) (vfrom : V3 α) (vto : V3 α) : (Quat α) :=
  let t12 := (C10.V3.normalized tmin tmax sqrt ⟨vfrom.x, vfrom.y, vfrom.z⟩)
  let t16 := (C10.V3.normalized tmin tmax sqrt ⟨vto.x, vto.y, vto.z⟩)
  let t24 := ((((t12).x * (t16).x) + ((t12).y * (t16).y)) + ((t12).z * (t16).z))
  let t25 := (C10.Quat.setRotationInternal tmin tmax sqrt ⟨(t12).x, (t12).y, (t12).z⟩ ⟨(t16).x, (t16).y, (t16).z⟩)
  let t30 := ((t12).z + (t16).z)
  let t31 := ((t12).y + (t16).y)
  let t32 := ((t12).x + (t16).x)
  let t35 := ((8 : α) * teps)
  let t36 := (t35 * t35)
  let t41 := (((t32 * t32) + (t31 * t31)) + (t30 * t30))
  let t42 := (C10.V3.normalized tmin tmax sqrt ⟨t32, t31, t30⟩)
  let t50 := ((((t42).x * (t42).x) + ((t42).y * (t42).y)) + ((t42).z * (t42).z))
  let t51 := ((t12).z * (t12).z)
  let t52 := ((t12).y * (t12).y)
  let t53 := ((t12).x * (t12).x)
  let t54 := ((t12).y * (1 : α))
  let t55 := ((t12).x * (0 : α))
  let t57 := ((t12).z * (1 : α))
  let t59 := ((t12).z * (0 : α))
  let t60 := ((t12).y * (0 : α))
  let t62 := (C10.V3.normalized tmin tmax sqrt ⟨(t60 - t59), (t57 - t55), (t55 - t54)⟩)
  let t66 := ((t12).x * (1 : α))
  let t70 := (C10.V3.normalized tmin tmax sqrt ⟨(t60 - t57), (t59 - t55), (t66 - t60)⟩)
  let t77 := (C10.V3.normalized tmin tmax sqrt ⟨(t54 - t59), (t59 - t66), (t55 - t60)⟩)
  let t81 := (C10.Quat.setRotationInternal tmin tmax sqrt ⟨(t12).x, (t12).y, (t12).z⟩ ⟨(t42).x, (t42).y, (t42).z⟩)
  let t86 := (C10.Quat.setRotationInternal tmin tmax sqrt ⟨(t42).x, (t42).y, (t42).z⟩ ⟨(t16).x, (t16).y, (t16).z⟩)
  let t119 := ((0 : α) * (0 : α))
  let t121 := ((t119 + t119) + t119)
  let t122 := (C10.Quat.setRotationInternal tmin tmax sqrt ⟨(t12).x, (t12).y, (t12).z⟩ ⟨(0 : α), (0 : α), (0 : α)⟩)
  let t127 := (C10.Quat.setRotationInternal tmin tmax sqrt ⟨(0 : α), (0 : α), (0 : α)⟩ ⟨(t16).x, (t16).y, (t16).z⟩)
  if (0 : α) ≤ t24 then
    ⟨(t25).r, ⟨(t25).v.x, (t25).v.y, (t25).v.z⟩⟩
  else
    if t36 < t41 then
      if t50 = (0 : α) then
        if t53 ≤ t52 then
          if t53 ≤ t51 then
            ⟨(0 : α), ⟨(t62).x, (t62).y, (t62).z⟩⟩
          else
            if t52 ≤ t51 then
              ⟨(0 : α), ⟨(t70).x, (t70).y, (t70).z⟩⟩
            else
              ⟨(0 : α), ⟨(t77).x, (t77).y, (t77).z⟩⟩
        else
          if t52 ≤ t51 then
            ⟨(0 : α), ⟨(t70).x, (t70).y, (t70).z⟩⟩
          else
            ⟨(0 : α), ⟨(t77).x, (t77).y, (t77).z⟩⟩
      else
        ⟨(((t81).r * (t86).r) - ((((t81).v.x * (t86).v.x) + ((t81).v.y * (t86).v.y)) + ((t81).v.z * (t86).v.z))), ⟨((((t81).r * (t86).v.x) + ((t81).v.x * (t86).r)) + (((t81).v.y * (t86).v.z) - ((t81).v.z * (t86).v.y))), ((((t81).r * (t86).v.y) + ((t81).v.y * (t86).r)) + (((t81).v.z * (t86).v.x) - ((t81).v.x * (t86).v.z))), ((((t81).r * (t86).v.z) + ((t81).v.z * (t86).r)) + (((t81).v.x * (t86).v.y) - ((t81).v.y * (t86).v.x)))⟩⟩
    else
      if t121 = (0 : α) then
        if t53 ≤ t52 then
          if t53 ≤ t51 then
            ⟨(0 : α), ⟨(t62).x, (t62).y, (t62).z⟩⟩
          else
            if t52 ≤ t51 then
              ⟨(0 : α), ⟨(t70).x, (t70).y, (t70).z⟩⟩
            else
              ⟨(0 : α), ⟨(t77).x, (t77).y, (t77).z⟩⟩
        else
          if t52 ≤ t51 then
            ⟨(0 : α), ⟨(t70).x, (t70).y, (t70).z⟩⟩
          else
            ⟨(0 : α), ⟨(t77).x, (t77).y, (t77).z⟩⟩
      else
        ⟨(((t122).r * (t127).r) - ((((t122).v.x * (t127).v.x) + ((t122).v.y * (t127).v.y)) + ((t122).v.z * (t127).v.z))), ⟨((((t122).r * (t127).v.x) + ((t122).v.x * (t127).r)) + (((t122).v.y * (t127).v.z) - ((t122).v.z * (t127).v.y))), ((((t122).r * (t127).v.y) + ((t122).v.y * (t127).r)) + (((t122).v.z * (t127).v.x) - ((t122).v.x * (t127).v.z))), ((((t122).r * (t127).v.z) + ((t122).v.z * (t127).r)) + (((t122).v.x * (t127).v.y) - ((t122).v.y * (t127).v.x)))⟩⟩

/-- extracted from the C++ template at T = Sym; 13 path(s) -/
def C10.rotationMatrixMod {α : Type} [Add α] [Sub α] [Mul α] [Div α] [Neg α] [LT α] [LE α] [DecidableLT α] [DecidableLE α] [DecidableEq α] [OfNat α 0] [OfNat α 1] [OfNat α 2] [OfNat α 8] (tmin : α) (tmax : α) (teps : α) (sqrt : α → α) (vfrom : V3 α) (vto : V3 α) : (M44 α) :=
  let t12 := (C10.V3.normalized tmin tmax sqrt ⟨vfrom.x, vfrom.y, vfrom.z⟩)
  let t16 := (C10.V3.normalized tmin tmax sqrt ⟨vto.x, vto.y, vto.z⟩)
  let t24 := ((((t12).x * (t16).x) + ((t12).y * (t16).y)) + ((t12).z * (t16).z))
  let t25 := (C10.Quat.setRotationInternal tmin tmax sqrt ⟨(t12).x, (t12).y, (t12).z⟩ ⟨(t16).x, (t16).y, (t16).z⟩)
  let t30 := ((t12).z + (t16).z)
  let t31 := ((t12).y + (t16).y)
  let t32 := ((t12).x + (t16).x)
  let t35 := ((8 : α) * teps)
  let t36 := (t35 * t35)
  let t41 := (((t32 * t32) + (t31 * t31)) + (t30 * t30))
  let t42 := (C10.V3.normalized tmin tmax sqrt ⟨t32, t31, t30⟩)
  let t50 := ((((t42).x * (t42).x) + ((t42).y * (t42).y)) + ((t42).z * (t42).z))
  let t51 := ((t12).z * (t12).z)
  let t52 := ((t12).y * (t12).y)
  let t53 := ((t12).x * (t12).x)
  let t54 := ((t12).y * (1 : α))
  let t55 := ((t12).x * (0 : α))
  let t57 := ((t12).z * (1 : α))
  let t59 := ((t12).z * (0 : α))
  let t60 := ((t12).y * (0 : α))
  let t62 := (C10.V3.normalized tmin tmax sqrt ⟨(t60 - t59), (t57 - t55), (t55 - t54)⟩)
  let t66 := ((t12).x * (1 : α))
  let t70 := (C10.V3.normalized tmin tmax sqrt ⟨(t60 - t57), (t59 - t55), (t66 - t60)⟩)
  let t77 := (C10.V3.normalized tmin tmax sqrt ⟨(t54 - t59), (t59 - t66), (t55 - t60)⟩)
  let t81 := (C10.Quat.setRotationInternal tmin tmax sqrt ⟨(t12).x, (t12).y, (t12).z⟩ ⟨(t42).x, (t42).y, (t42).z⟩)
  let t86 := (C10.Quat.setRotationInternal tmin tmax sqrt ⟨(t42).x, (t42).y, (t42).z⟩ ⟨(t16).x, (t16).y, (t16).z⟩)
  let t97 := (((t81).r * (t86).r) - ((((t81).v.x * (t86).v.x) + ((t81).v.y * (t86).v.y)) + ((t81).v.z * (t86).v.z)))
  let t116 := ((((t81).r * (t86).v.z) + ((t81).v.z * (t86).r)) + (((t81).v.x * (t86).v.y) - ((t81).v.y * (t86).v.x)))
  let t117 := ((((t81).r * (t86).v.y) + ((t81).v.y * (t86).r)) + (((t81).v.z * (t86).v.x) - ((t81).v.x * (t86).v.z)))
  let t118 := ((((t81).r * (t86).v.x) + ((t81).v.x * (t86).r)) + (((t81).v.y * (t86).v.z) - ((t81).v.z * (t86).v.y)))
  let t119 := ((0 : α) * (0 : α))
  let t121 := ((t119 + t119) + t119)
  let t122 := (C10.Quat.setRotationInternal tmin tmax sqrt ⟨(t12).x, (t12).y, (t12).z⟩ ⟨(0 : α), (0 : α), (0 : α)⟩)
  let t127 := (C10.Quat.setRotationInternal tmin tmax sqrt ⟨(0 : α), (0 : α), (0 : α)⟩ ⟨(t16).x, (t16).y, (t16).z⟩)
  let t138 := (((t122).r * (t127).r) - ((((t122).v.x * (t127).v.x) + ((t122).v.y * (t127).v.y)) + ((t122).v.z * (t127).v.z)))
  let t157 := ((((t122).r * (t127).v.z) + ((t122).v.z * (t127).r)) + (((t122).v.x * (t127).v.y) - ((t122).v.y * (t127).v.x)))
  let t158 := ((((t122).r * (t127).v.y) + ((t122).v.y * (t127).r)) + (((t122).v.z * (t127).v.x) - ((t122).v.x * (t127).v.z)))
  let t159 := ((((t122).r * (t127).v.x) + ((t122).v.x * (t127).r)) + (((t122).v.y * (t127).v.z) - ((t122).v.z * (t127).v.y)))
  let t160 := ((t25).v.x * (t25).v.x)
  let t161 := ((t25).v.y * (t25).v.y)
  let t166 := ((t25).v.x * (t25).r)
  let t167 := ((t25).v.y * (t25).v.z)
  let t170 := ((t25).v.y * (t25).r)
  let t171 := ((t25).v.z * (t25).v.x)
  let t176 := ((t25).v.z * (t25).v.z)
  let t180 := ((t25).v.z * (t25).r)
  let t181 := ((t25).v.x * (t25).v.y)
  let t191 := ((t62).x * (t62).x)
  let t192 := ((t62).y * (t62).y)
  let t195 := ((1 : α) - ((2 : α) * (t192 + t191)))
  let t196 := ((t62).x * (0 : α))
  let t197 := ((t62).y * (t62).z)
  let t199 := ((2 : α) * (t197 - t196))
  let t200 := ((t62).y * (0 : α))
  let t201 := ((t62).z * (t62).x)
  let t203 := ((2 : α) * (t201 + t200))
  let t205 := ((2 : α) * (t197 + t196))
  let t206 := ((t62).z * (t62).z)
  let t209 := ((1 : α) - ((2 : α) * (t206 + t191)))
  let t210 := ((t62).z * (0 : α))
  let t211 := ((t62).x * (t62).y)
  let t213 := ((2 : α) * (t211 - t210))
  let t215 := ((2 : α) * (t201 - t200))
  let t217 := ((2 : α) * (t211 + t210))
  let t220 := ((1 : α) - ((2 : α) * (t192 + t206)))
  let t221 := ((t70).x * (t70).x)
  let t222 := ((t70).y * (t70).y)
  let t225 := ((1 : α) - ((2 : α) * (t222 + t221)))
  let t226 := ((t70).x * (0 : α))
  let t227 := ((t70).y * (t70).z)
  let t229 := ((2 : α) * (t227 - t226))
  let t230 := ((t70).y * (0 : α))
  let t231 := ((t70).z * (t70).x)
  let t233 := ((2 : α) * (t231 + t230))
  let t235 := ((2 : α) * (t227 + t226))
  let t236 := ((t70).z * (t70).z)
  let t239 := ((1 : α) - ((2 : α) * (t236 + t221)))
  let t240 := ((t70).z * (0 : α))
  let t241 := ((t70).x * (t70).y)
  let t243 := ((2 : α) * (t241 - t240))
  let t245 := ((2 : α) * (t231 - t230))
  let t247 := ((2 : α) * (t241 + t240))
  let t250 := ((1 : α) - ((2 : α) * (t222 + t236)))
  let t251 := ((t77).x * (t77).x)
  let t252 := ((t77).y * (t77).y)
  let t255 := ((1 : α) - ((2 : α) * (t252 + t251)))
  let t256 := ((t77).x * (0 : α))
  let t257 := ((t77).y * (t77).z)
  let t259 := ((2 : α) * (t257 - t256))
  let t260 := ((t77).y * (0 : α))
  let t261 := ((t77).z * (t77).x)
  let t263 := ((2 : α) * (t261 + t260))
  let t265 := ((2 : α) * (t257 + t256))
  let t266 := ((t77).z * (t77).z)
  let t269 := ((1 : α) - ((2 : α) * (t266 + t251)))
  let t270 := ((t77).z * (0 : α))
  let t271 := ((t77).x * (t77).y)
  let t273 := ((2 : α) * (t271 - t270))
  let t275 := ((2 : α) * (t261 - t260))
  let t277 := ((2 : α) * (t271 + t270))
  let t280 := ((1 : α) - ((2 : α) * (t252 + t266)))
  let t281 := (t118 * t118)
  let t282 := (t117 * t117)
  let t286 := (t118 * t97)
  let t287 := (t117 * t116)
  let t290 := (t117 * t97)
  let t291 := (t116 * t118)
  let t296 := (t116 * t116)
  let t300 := (t116 * t97)
  let t301 := (t118 * t117)
  let t311 := (t159 * t159)
  let t312 := (t158 * t158)
  let t316 := (t159 * t138)
  let t317 := (t158 * t157)
  let t320 := (t158 * t138)
  let t321 := (t157 * t159)
  let t326 := (t157 * t157)
  let t330 := (t157 * t138)
  let t331 := (t159 * t158)
  if (0 : α) ≤ t24 then
    ⟨((1 : α) - ((2 : α) * (t161 + t176))), ((2 : α) * (t181 + t180)), ((2 : α) * (t171 - t170)), (0 : α), ((2 : α) * (t181 - t180)), ((1 : α) - ((2 : α) * (t176 + t160))), ((2 : α) * (t167 + t166)), (0 : α), ((2 : α) * (t171 + t170)), ((2 : α) * (t167 - t166)), ((1 : α) - ((2 : α) * (t161 + t160))), (0 : α), (0 : α), (0 : α), (0 : α), (1 : α)⟩
  else
    if t36 < t41 then
      if t50 = (0 : α) then
        if t53 ≤ t52 then
          if t53 ≤ t51 then
            ⟨t220, t217, t215, (0 : α), t213, t209, t205, (0 : α), t203, t199, t195, (0 : α), (0 : α), (0 : α), (0 : α), (1 : α)⟩
          else
            if t52 ≤ t51 then
              ⟨t250, t247, t245, (0 : α), t243, t239, t235, (0 : α), t233, t229, t225, (0 : α), (0 : α), (0 : α), (0 : α), (1 : α)⟩
            else
              ⟨t280, t277, t275, (0 : α), t273, t269, t265, (0 : α), t263, t259, t255, (0 : α), (0 : α), (0 : α), (0 : α), (1 : α)⟩
        else
          if t52 ≤ t51 then
            ⟨t250, t247, t245, (0 : α), t243, t239, t235, (0 : α), t233, t229, t225, (0 : α), (0 : α), (0 : α), (0 : α), (1 : α)⟩
          else
            ⟨t280, t277, t275, (0 : α), t273, t269, t265, (0 : α), t263, t259, t255, (0 : α), (0 : α), (0 : α), (0 : α), (1 : α)⟩
      else
        ⟨((1 : α) - ((2 : α) * (t282 + t296))), ((2 : α) * (t301 + t300)), ((2 : α) * (t291 - t290)), (0 : α), ((2 : α) * (t301 - t300)), ((1 : α) - ((2 : α) * (t296 + t281))), ((2 : α) * (t287 + t286)), (0 : α), ((2 : α) * (t291 + t290)), ((2 : α) * (t287 - t286)), ((1 : α) - ((2 : α) * (t282 + t281))), (0 : α), (0 : α), (0 : α), (0 : α), (1 : α)⟩
    else
      if t121 = (0 : α) then
        if t53 ≤ t52 then
          if t53 ≤ t51 then
            ⟨t220, t217, t215, (0 : α), t213, t209, t205, (0 : α), t203, t199, t195, (0 : α), (0 : α), (0 : α), (0 : α), (1 : α)⟩
          else
            if t52 ≤ t51 then
              ⟨t250, t247, t245, (0 : α), t243, t239, t235, (0 : α), t233, t229, t225, (0 : α), (0 : α), (0 : α), (0 : α), (1 : α)⟩
            else
              ⟨t280, t277, t275, (0 : α), t273, t269, t265, (0 : α), t263, t259, t255, (0 : α), (0 : α), (0 : α), (0 : α), (1 : α)⟩
        else
          if t52 ≤ t51 then
            ⟨t250, t247, t245, (0 : α), t243, t239, t235, (0 : α), t233, t229, t225, (0 : α), (0 : α), (0 : α), (0 : α), (1 : α)⟩
          else
            ⟨t280, t277, t275, (0 : α), t273, t269, t265, (0 : α), t263, t259, t255, (0 : α), (0 : α), (0 : α), (0 : α), (1 : α)⟩
      else
        ⟨((1 : α) - ((2 : α) * (t312 + t326))), ((2 : α) * (t331 + t330)), ((2 : α) * (t321 - t320)), (0 : α), ((2 : α) * (t331 - t330)), ((1 : α) - ((2 : α) * (t326 + t311))), ((2 : α) * (t317 + t316)), (0 : α), ((2 : α) * (t321 + t320)), ((2 : α) * (t317 - t316)), ((1 : α) - ((2 : α) * (t312 + t311))), (0 : α), (0 : α), (0 : α), (0 : α), (1 : α)⟩

/-- extracted from the C++ template at T = Sym; 13 path(s) -/
def C10.Quat.setRotationModAliasV {α : Type} [Add α] [Sub α] [Mul α] [Div α] [Neg α] [LT α] [LE α] [DecidableLT α] [DecidableLE α] [DecidableEq α] [OfNat α 0] [OfNat α 1] [OfNat α 2] [OfNat α 8] (tmin : α) (tmax : α) (teps : α) (sqrt : α → α) (q : Quat α) (vto : V3 α) : (Quat α) :=
  let t16 := (C10.V3.normalized tmin tmax sqrt ⟨vto.x, vto.y, vto.z⟩)
  let t35 := ((8 : α) * teps)
  let t36 := (t35 * t35)
  let t119 := ((0 : α) * (0 : α))
  let t121 := ((t119 + t119) + t119)
  let t127 := (C10.Quat.setRotationInternal tmin tmax sqrt ⟨(0 : α), (0 : α), (0 : α)⟩ ⟨(t16).x, (t16).y, (t16).z⟩)
  let t341 := (C10.V3.normalized tmin tmax sqrt ⟨q.v.x, q.v.y, q.v.z⟩)
  let t349 := ((((t341).x * (t16).x) + ((t341).y * (t16).y)) + ((t341).z * (t16).z))
  let t350 := (C10.Quat.setRotationInternal tmin tmax sqrt ⟨(t341).x, (t341).y, (t341).z⟩ ⟨(t16).x, (t16).y, (t16).z⟩)
  let t355 := ((t341).z + (t16).z)
  let t356 := ((t341).y + (t16).y)
  let t357 := ((t341).x + (t16).x)
  let t362 := (((t357 * t357) + (t356 * t356)) + (t355 * t355))
  let t363 := (C10.V3.normalized tmin tmax sqrt ⟨t357, t356, t355⟩)
  let t371 := ((((t363).x * (t363).x) + ((t363).y * (t363).y)) + ((t363).z * (t363).z))
  let t372 := ((t341).z * (t341).z)
  let t373 := ((t341).y * (t341).y)
  let t374 := ((t341).x * (t341).x)
  let t375 := ((t341).y * (1 : α))
  let t376 := ((t341).x * (0 : α))
  let t378 := ((t341).z * (1 : α))
  let t380 := ((t341).z * (0 : α))
  let t381 := ((t341).y * (0 : α))
  let t383 := (C10.V3.normalized tmin tmax sqrt ⟨(t381 - t380), (t378 - t376), (t376 - t375)⟩)
  let t387 := ((t341).x * (1 : α))
  let t391 := (C10.V3.normalized tmin tmax sqrt ⟨(t381 - t378), (t380 - t376), (t387 - t381)⟩)
  let t398 := (C10.V3.normalized tmin tmax sqrt ⟨(t375 - t380), (t380 - t387), (t376 - t381)⟩)
  let t402 := (C10.Quat.setRotationInternal tmin tmax sqrt ⟨(t341).x, (t341).y, (t341).z⟩ ⟨(t363).x, (t363).y, (t363).z⟩)
  let t407 := (C10.Quat.setRotationInternal tmin tmax sqrt ⟨(t363).x, (t363).y, (t363).z⟩ ⟨(t16).x, (t16).y, (t16).z⟩)
  let t440 := (C10.Quat.setRotationInternal tmin tmax sqrt ⟨(t341).x, (t341).y, (t341).z⟩ ⟨(0 : α), (0 : α), (0 : α)⟩)
  if (0 : α) ≤ t349 then
    ⟨(t350).r, ⟨(t350).v.x, (t350).v.y, (t350).v.z⟩⟩
  else
    if t36 < t362 then
      if t371 = (0 : α) then
        if t374 ≤ t373 then
          if t374 ≤ t372 then
            ⟨(0 : α), ⟨(t383).x, (t383).y, (t383).z⟩⟩
          else
            if t373 ≤ t372 then
              ⟨(0 : α), ⟨(t391).x, (t391).y, (t391).z⟩⟩
            else
              ⟨(0 : α), ⟨(t398).x, (t398).y, (t398).z⟩⟩
        else
          if t373 ≤ t372 then
            ⟨(0 : α), ⟨(t391).x, (t391).y, (t391).z⟩⟩
          else
            ⟨(0 : α), ⟨(t398).x, (t398).y, (t398).z⟩⟩
      else
        ⟨(((t402).r * (t407).r) - ((((t402).v.x * (t407).v.x) + ((t402).v.y * (t407).v.y)) + ((t402).v.z * (t407).v.z))), ⟨((((t402).r * (t407).v.x) + ((t402).v.x * (t407).r)) + (((t402).v.y * (t407).v.z) - ((t402).v.z * (t407).v.y))), ((((t402).r * (t407).v.y) + ((t402).v.y * (t407).r)) + (((t402).v.z * (t407).v.x) - ((t402).v.x * (t407).v.z))), ((((t402).r * (t407).v.z) + ((t402).v.z * (t407).r)) + (((t402).v.x * (t407).v.y) - ((t402).v.y * (t407).v.x)))⟩⟩
    else
      if t121 = (0 : α) then
        if t374 ≤ t373 then
          if t374 ≤ t372 then
            ⟨(0 : α), ⟨(t383).x, (t383).y, (t383).z⟩⟩
          else
            if t373 ≤ t372 then
              ⟨(0 : α), ⟨(t391).x, (t391).y, (t391).z⟩⟩
            else
              ⟨(0 : α), ⟨(t398).x, (t398).y, (t398).z⟩⟩
        else
          if t373 ≤ t372 then
            ⟨(0 : α), ⟨(t391).x, (t391).y, (t391).z⟩⟩
          else
            ⟨(0 : α), ⟨(t398).x, (t398).y, (t398).z⟩⟩
      else
        ⟨(((t440).r * (t127).r) - ((((t440).v.x * (t127).v.x) + ((t440).v.y * (t127).v.y)) + ((t440).v.z * (t127).v.z))), ⟨((((t440).r * (t127).v.x) + ((t440).v.x * (t127).r)) + (((t440).v.y * (t127).v.z) - ((t440).v.z * (t127).v.y))), ((((t440).r * (t127).v.y) + ((t440).v.y * (t127).r)) + (((t440).v.z * (t127).v.x) - ((t440).v.x * (t127).v.z))), ((((t440).r * (t127).v.z) + ((t440).v.z * (t127).r)) + (((t440).v.x * (t127).v.y) - ((t440).v.y * (t127).v.x)))⟩⟩

end ImathVerif.Gen
