-- GENERATED from /repo/src/Imath by harness/sym (T = Sym path extraction); do not edit.
import ImathVerif.Basic.Types
import ImathVerif.Gen.Leaf
set_option linter.unusedVariables false
namespace ImathVerif.Gen
open ImathVerif

/-- extracted from the C++ template at T = Sym; 1 path(s) -/
def Frustum.ctor_persp {α : Type} (n : α) (f : α) (l : α) (r : α) (t : α) (b : α) : (α × α × α × α × α × α × Bool) :=
  (n, f, l, r, t, b, false)

/-- extracted from the C++ template at T = Sym; 1 path(s) -/
def Frustum.ctor_ortho {α : Type} (n : α) (f : α) (l : α) (r : α) (t : α) (b : α) : (α × α × α × α × α × α × Bool) :=
  (n, f, l, r, t, b, true)

/-- extracted from the C++ template at T = Sym; 1 path(s) -/
def Frustum.set_persp {α : Type} (n : α) (f : α) (l : α) (r : α) (t : α) (b : α) (n2 : α) (f2 : α) (l2 : α) (r2 : α) (t2 : α) (b2 : α) : (α × α × α × α × α × α × Bool) :=
  (n2, f2, l2, r2, t2, b2, false)

/-- extracted from the C++ template at T = Sym; 1 path(s) -/
def Frustum.set_ortho {α : Type} (n : α) (f : α) (l : α) (r : α) (t : α) (b : α) (n2 : α) (f2 : α) (l2 : α) (r2 : α) (t2 : α) (b2 : α) : (α × α × α × α × α × α × Bool) :=
  (n2, f2, l2, r2, t2, b2, true)

/-- extracted from the C++ template at T = Sym; 4 path(s) -/
def Frustum.degenerate_persp {α : Type} [DecidableEq α] (n : α) (f : α) (l : α) (r : α) (t : α) (b : α) : Bool :=
  if n = f then
    true
  else
    if l = r then
      true
    else
      if t = b then
        true
      else
        false

/-- extracted from the C++ template at T = Sym; 4 path(s) -/
def Frustum.degenerate_ortho {α : Type} [DecidableEq α] (n : α) (f : α) (l : α) (r : α) (t : α) (b : α) : Bool :=
  if n = f then
    true
  else
    if l = r then
      true
    else
      if t = b then
        true
      else
        false

/-- extracted from the C++ template at T = Sym; 2 path(s) -/
def Frustum.setFov_persp {α : Type} [Sub α] [Mul α] [Div α] [Neg α] [DecidableEq α] [OfNat α 0] [OfNat α 2] (tan : α → α) (n : α) (f : α) (l : α) (r : α) (t : α) (b : α) (nearPlane : α) (farPlane : α) (fovx : α) (fovy : α) (aspect : α) : (α × α × α × α × α × α × Bool) :=
  let t21 := (nearPlane * (tan (fovy / (2 : α))))
  let t22 := (-t21)
  let t25 := (((t21 - t22) * aspect) / (2 : α))
  let t29 := (nearPlane * (tan (fovx / (2 : α))))
  let t30 := (-t29)
  let t33 := (((t29 - t30) / aspect) / (2 : α))
  if fovx = (0 : α) then
    (nearPlane, farPlane, (-t25), t25, t21, t22, false)
  else
    (nearPlane, farPlane, t30, t29, t33, (-t33), false)

/-- extracted from the C++ template at T = Sym; 2 path(s) -/
def Frustum.setFov_ortho {α : Type} [Sub α] [Mul α] [Div α] [Neg α] [DecidableEq α] [OfNat α 0] [OfNat α 2] (tan : α → α) (n : α) (f : α) (l : α) (r : α) (t : α) (b : α) (nearPlane : α) (farPlane : α) (fovx : α) (fovy : α) (aspect : α) : (α × α × α × α × α × α × Bool) :=
  let t21 := (nearPlane * (tan (fovy / (2 : α))))
  let t22 := (-t21)
  let t25 := (((t21 - t22) * aspect) / (2 : α))
  let t29 := (nearPlane * (tan (fovx / (2 : α))))
  let t30 := (-t29)
  let t33 := (((t29 - t30) / aspect) / (2 : α))
  if fovx = (0 : α) then
    (nearPlane, farPlane, (-t25), t25, t21, t22, false)
  else
    (nearPlane, farPlane, t30, t29, t33, (-t33), false)

/-- extracted from the C++ template at T = Sym; 2 path(s) -/
def Frustum.ctorFov {α : Type} [Sub α] [Mul α] [Div α] [Neg α] [DecidableEq α] [OfNat α 0] [OfNat α 2] (tan : α → α) (nearPlane : α) (farPlane : α) (fovx : α) (fovy : α) (aspect : α) : (α × α × α × α × α × α × Bool) :=
  let t21 := (nearPlane * (tan (fovy / (2 : α))))
  let t22 := (-t21)
  let t25 := (((t21 - t22) * aspect) / (2 : α))
  let t29 := (nearPlane * (tan (fovx / (2 : α))))
  let t30 := (-t29)
  let t33 := (((t29 - t30) / aspect) / (2 : α))
  if fovx = (0 : α) then
    (nearPlane, farPlane, (-t25), t25, t21, t22, false)
  else
    (nearPlane, farPlane, t30, t29, t33, (-t33), false)

/-- extracted from the C++ template at T = Sym; 1 path(s) -/
def Frustum.fovx_persp {α : Type} [Sub α] (atan2 : α → α → α) (n : α) (f : α) (l : α) (r : α) (t : α) (b : α) : α :=
  ((atan2 r n) - (atan2 l n))

/-- extracted from the C++ template at T = Sym; 1 path(s) -/
def Frustum.fovy_persp {α : Type} [Sub α] (atan2 : α → α → α) (n : α) (f : α) (l : α) (r : α) (t : α) (b : α) : α :=
  ((atan2 t n) - (atan2 b n))

/-- extracted from the C++ template at T = Sym; 1 path(s) -/
def Frustum.aspect_persp {α : Type} [Sub α] [Div α] (n : α) (f : α) (l : α) (r : α) (t : α) (b : α) : α :=
  ((r - l) / (t - b))

/-- extracted from the C++ template at T = Sym; 1 path(s) -/
def Frustum.fovx_ortho {α : Type} [Sub α] (atan2 : α → α → α) (n : α) (f : α) (l : α) (r : α) (t : α) (b : α) : α :=
  ((atan2 r n) - (atan2 l n))

/-- extracted from the C++ template at T = Sym; 1 path(s) -/
def Frustum.fovy_ortho {α : Type} [Sub α] (atan2 : α → α → α) (n : α) (f : α) (l : α) (r : α) (t : α) (b : α) : α :=
  ((atan2 t n) - (atan2 b n))

/-- extracted from the C++ template at T = Sym; 1 path(s) -/
def Frustum.aspect_ortho {α : Type} [Sub α] [Div α] (n : α) (f : α) (l : α) (r : α) (t : α) (b : α) : α :=
  ((r - l) / (t - b))

/-- extracted from the C++ template at T = Sym; 32 path(s) -/
def Frustum.modifyNearAndFar_persp {α : Type} [Add α] [Sub α] [Mul α] [Div α] [Neg α] [LT α] [LE α] [DecidableLT α] [DecidableLE α] [DecidableEq α] [OfNat α 0] [OfNat α 1] [OfNat α 2] (tmin : α) (tmax : α) (sqrt : α → α) (n : α) (f : α) (l : α) (r : α) (t : α) (b : α) (n2 : α) (f2 : α) : (α × α × α × α × α × α × Bool) :=
  let t45 := ((-n) - (0 : α))
  let t46 := (b - (0 : α))
  let t47 := (l - (0 : α))
  let t48 := (V3.length tmin tmax sqrt ⟨t47, t46, t45⟩)
  let t49 := (t - (0 : α))
  let t50 := (r - (0 : α))
  let t51 := (V3.length tmin tmax sqrt ⟨t50, t49, t45⟩)
  let t53 := (V3.length tmin tmax sqrt ⟨(0 : α), (0 : α), (-(1 : α))⟩)
  let t54 := ((-(1 : α)) * t45)
  let t58 := ((((0 : α) * t47) + ((0 : α) * t46)) + t54)
  let t62 := ((((0 : α) * t50) + ((0 : α) * t49)) + t54)
  let t64 := ((0 : α) * (0 : α))
  let t68 := (-(((t64 + t64) + ((-(1 : α)) * (0 : α))) - n2))
  let t69 := (t68 / t62)
  let t74 := ((0 : α) + (t49 * t69))
  let t75 := ((0 : α) + (t50 * t69))
  let t76 := (t68 / t58)
  let t81 := ((0 : α) + (t46 * t76))
  let t82 := ((0 : α) + (t47 * t76))
  let t83 := ((0 : α) / t53)
  let t84 := ((-(1 : α)) / t53)
  let t85 := (t84 * t45)
  let t89 := (((t83 * t47) + (t83 * t46)) + t85)
  let t93 := (((t83 * t50) + (t83 * t49)) + t85)
  let t95 := (t83 * (0 : α))
  let t99 := (-(((t95 + t95) + (t84 * (0 : α))) - n2))
  let t100 := (t99 / t93)
  let t105 := ((0 : α) + (t49 * t100))
  let t106 := ((0 : α) + (t50 * t100))
  let t107 := (t99 / t89)
  let t112 := ((0 : α) + (t46 * t107))
  let t113 := ((0 : α) + (t47 * t107))
  let t114 := (t50 / t51)
  let t115 := (t49 / t51)
  let t116 := (t45 / t51)
  let t121 := ((((0 : α) * t114) + ((0 : α) * t115)) + ((-(1 : α)) * t116))
  let t122 := (t68 / t121)
  let t127 := ((0 : α) + (t115 * t122))
  let t128 := ((0 : α) + (t114 * t122))
  let t133 := (((t83 * t114) + (t83 * t115)) + (t84 * t116))
  let t134 := (t99 / t133)
  let t139 := ((0 : α) + (t115 * t134))
  let t140 := ((0 : α) + (t114 * t134))
  let t141 := (t47 / t48)
  let t142 := (t46 / t48)
  let t143 := (t45 / t48)
  let t148 := ((((0 : α) * t141) + ((0 : α) * t142)) + ((-(1 : α)) * t143))
  let t149 := (t68 / t148)
  let t154 := ((0 : α) + (t142 * t149))
  let t155 := ((0 : α) + (t141 * t149))
  let t160 := (((t83 * t141) + (t83 * t142)) + (t84 * t143))
  let t161 := (t99 / t160)
  let t166 := ((0 : α) + (t142 * t161))
  let t167 := ((0 : α) + (t141 * t161))
  if t48 = (0 : α) then
    if t51 = (0 : α) then
      if t53 = (0 : α) then
        if t58 = (0 : α) then
          if t62 = (0 : α) then
            (n2, f2, (0 : α), (0 : α), (0 : α), (0 : α), false)
          else
            (n2, f2, (0 : α), t75, t74, (0 : α), false)
        else
          if t62 = (0 : α) then
            (n2, f2, t82, (0 : α), (0 : α), t81, false)
          else
            (n2, f2, t82, t75, t74, t81, false)
      else
        if t89 = (0 : α) then
          if t93 = (0 : α) then
            (n2, f2, (0 : α), (0 : α), (0 : α), (0 : α), false)
          else
            (n2, f2, (0 : α), t106, t105, (0 : α), false)
        else
          if t93 = (0 : α) then
            (n2, f2, t113, (0 : α), (0 : α), t112, false)
          else
            (n2, f2, t113, t106, t105, t112, false)
    else
      if t53 = (0 : α) then
        if t58 = (0 : α) then
          if t121 = (0 : α) then
            (n2, f2, (0 : α), (0 : α), (0 : α), (0 : α), false)
          else
            (n2, f2, (0 : α), t128, t127, (0 : α), false)
        else
          if t121 = (0 : α) then
            (n2, f2, t82, (0 : α), (0 : α), t81, false)
          else
            (n2, f2, t82, t128, t127, t81, false)
      else
        if t89 = (0 : α) then
          if t133 = (0 : α) then
            (n2, f2, (0 : α), (0 : α), (0 : α), (0 : α), false)
          else
            (n2, f2, (0 : α), t140, t139, (0 : α), false)
        else
          if t133 = (0 : α) then
            (n2, f2, t113, (0 : α), (0 : α), t112, false)
          else
            (n2, f2, t113, t140, t139, t112, false)
  else
    if t51 = (0 : α) then
      if t53 = (0 : α) then
        if t148 = (0 : α) then
          if t62 = (0 : α) then
            (n2, f2, (0 : α), (0 : α), (0 : α), (0 : α), false)
          else
            (n2, f2, (0 : α), t75, t74, (0 : α), false)
        else
          if t62 = (0 : α) then
            (n2, f2, t155, (0 : α), (0 : α), t154, false)
          else
            (n2, f2, t155, t75, t74, t154, false)
      else
        if t160 = (0 : α) then
          if t93 = (0 : α) then
            (n2, f2, (0 : α), (0 : α), (0 : α), (0 : α), false)
          else
            (n2, f2, (0 : α), t106, t105, (0 : α), false)
        else
          if t93 = (0 : α) then
            (n2, f2, t167, (0 : α), (0 : α), t166, false)
          else
            (n2, f2, t167, t106, t105, t166, false)
    else
      if t53 = (0 : α) then
        if t148 = (0 : α) then
          if t121 = (0 : α) then
            (n2, f2, (0 : α), (0 : α), (0 : α), (0 : α), false)
          else
            (n2, f2, (0 : α), t128, t127, (0 : α), false)
        else
          if t121 = (0 : α) then
            (n2, f2, t155, (0 : α), (0 : α), t154, false)
          else
            (n2, f2, t155, t128, t127, t154, false)
      else
        if t160 = (0 : α) then
          if t133 = (0 : α) then
            (n2, f2, (0 : α), (0 : α), (0 : α), (0 : α), false)
          else
            (n2, f2, (0 : α), t140, t139, (0 : α), false)
        else
          if t133 = (0 : α) then
            (n2, f2, t167, (0 : α), (0 : α), t166, false)
          else
            (n2, f2, t167, t140, t139, t166, false)

/-- extracted from the C++ template at T = Sym; 1 path(s) -/
def Frustum.modifyNearAndFar_ortho {α : Type} (n : α) (f : α) (l : α) (r : α) (t : α) (b : α) (n2 : α) (f2 : α) : (α × α × α × α × α × α × Bool) :=
  (n2, f2, l, r, t, b, true)

/-- extracted from the C++ template at T = Sym; 1 path(s) -/
def Frustum.setOrthographic_persp {α : Type} (n : α) (f : α) (l : α) (r : α) (t : α) (b : α) : (α × α × α × α × α × α × Bool) :=
  (n, f, l, r, t, b, false)

/-- extracted from the C++ template at T = Sym; 1 path(s) -/
def Frustum.setOrthographic_ortho {α : Type} (n : α) (f : α) (l : α) (r : α) (t : α) (b : α) : (α × α × α × α × α × α × Bool) :=
  (n, f, l, r, t, b, true)

/-- extracted from the C++ template at T = Sym; 1 path(s) -/
def Frustum.window_persp {α : Type} [Add α] [Sub α] [Mul α] [Div α] [OfNat α 1] [OfNat α 2] (n : α) (f : α) (l : α) (r : α) (t : α) (b : α) (wl : α) (wr : α) (wt : α) (wb : α) : (α × α × α × α × α × α × Bool) :=
  let t41 := (r - l)
  let t42 := (t - b)
  (n, f, (l + ((t41 * ((1 : α) + wl)) / (2 : α))), (l + ((t41 * ((1 : α) + wr)) / (2 : α))), (b + ((t42 * ((1 : α) + wt)) / (2 : α))), (b + ((t42 * ((1 : α) + wb)) / (2 : α))), false)

/-- extracted from the C++ template at T = Sym; 1 path(s) -/
def Frustum.window_ortho {α : Type} [Add α] [Sub α] [Mul α] [Div α] [OfNat α 1] [OfNat α 2] (n : α) (f : α) (l : α) (r : α) (t : α) (b : α) (wl : α) (wr : α) (wt : α) (wb : α) : (α × α × α × α × α × α × Bool) :=
  let t41 := (r - l)
  let t42 := (t - b)
  (n, f, (l + ((t41 * ((1 : α) + wl)) / (2 : α))), (l + ((t41 * ((1 : α) + wr)) / (2 : α))), (b + ((t42 * ((1 : α) + wt)) / (2 : α))), (b + ((t42 * ((1 : α) + wb)) / (2 : α))), true)

/-- extracted from the C++ template at T = Sym; 1 path(s) -/
def Frustum.assign_persp {α : Type} (n : α) (f : α) (l : α) (r : α) (t : α) (b : α) : (α × α × α × α × α × α × Bool) :=
  (n, f, l, r, t, b, false)

/-- extracted from the C++ template at T = Sym; 1 path(s) -/
def Frustum.copyCtor_persp {α : Type} (n : α) (f : α) (l : α) (r : α) (t : α) (b : α) : (α × α × α × α × α × α × Bool) :=
  (n, f, l, r, t, b, false)

/-- extracted from the C++ template at T = Sym; 1 path(s) -/
def Frustum.hitherYon_persp {α : Type} (n : α) (f : α) (l : α) (r : α) (t : α) (b : α) : (α × α) :=
  (n, f)

/-- extracted from the C++ template at T = Sym; 1 path(s) -/
def Frustum.assign_ortho {α : Type} (n : α) (f : α) (l : α) (r : α) (t : α) (b : α) : (α × α × α × α × α × α × Bool) :=
  (n, f, l, r, t, b, true)

/-- extracted from the C++ template at T = Sym; 1 path(s) -/
def Frustum.copyCtor_ortho {α : Type} (n : α) (f : α) (l : α) (r : α) (t : α) (b : α) : (α × α × α × α × α × α × Bool) :=
  (n, f, l, r, t, b, true)

/-- extracted from the C++ template at T = Sym; 1 path(s) -/
def Frustum.hitherYon_ortho {α : Type} (n : α) (f : α) (l : α) (r : α) (t : α) (b : α) : (α × α) :=
  (n, f)

/-- extracted from the C++ template at T = Sym; 1 path(s) -/
def Frustum.defaultCtor {α : Type} [Div α] [Neg α] [OfNat α 1] [OfNat α 1000] [OfNat α 3602879701896397] [OfNat α 36028797018963968] : (α × α × α × α × α × α × Bool) :=
  (((3602879701896397 : α) / (36028797018963968 : α)), (1000 : α), (-(1 : α)), (1 : α), (1 : α), (-(1 : α)), false)

/-- extracted from the C++ template at T = Sym; 7 path(s) -/
def Frustum.eq_persp_persp {α : Type} [DecidableEq α] (n : α) (f : α) (l : α) (r : α) (t : α) (b : α) (n2 : α) (f2 : α) (l2 : α) (r2 : α) (t2 : α) (b2 : α) : (Bool × Bool) :=
  if n = n2 then
    if f = f2 then
      if l = l2 then
        if r = r2 then
          if t = t2 then
            if b = b2 then
              (true, false)
            else
              (false, true)
          else
            (false, true)
        else
          (false, true)
      else
        (false, true)
    else
      (false, true)
  else
    (false, true)

/-- extracted from the C++ template at T = Sym; 7 path(s) -/
def Frustum.eq_ortho_ortho {α : Type} [DecidableEq α] (n : α) (f : α) (l : α) (r : α) (t : α) (b : α) (n2 : α) (f2 : α) (l2 : α) (r2 : α) (t2 : α) (b2 : α) : (Bool × Bool) :=
  if n = n2 then
    if f = f2 then
      if l = l2 then
        if r = r2 then
          if t = t2 then
            if b = b2 then
              (true, false)
            else
              (false, true)
          else
            (false, true)
        else
          (false, true)
      else
        (false, true)
    else
      (false, true)
  else
    (false, true)

/-- extracted from the C++ template at T = Sym; 7 path(s) -/
def Frustum.eq_persp_ortho {α : Type} [DecidableEq α] (n : α) (f : α) (l : α) (r : α) (t : α) (b : α) (n2 : α) (f2 : α) (l2 : α) (r2 : α) (t2 : α) (b2 : α) : (Bool × Bool) :=
  if n = n2 then
    if f = f2 then
      if l = l2 then
        if r = r2 then
          if t = t2 then
            if b = b2 then
              (false, true)
            else
              (false, true)
          else
            (false, true)
        else
          (false, true)
      else
        (false, true)
    else
      (false, true)
  else
    (false, true)

/-- extracted from the C++ template at T = Sym; 7 path(s) -/
def Frustum.eq_ortho_persp {α : Type} [DecidableEq α] (n : α) (f : α) (l : α) (r : α) (t : α) (b : α) (n2 : α) (f2 : α) (l2 : α) (r2 : α) (t2 : α) (b2 : α) : (Bool × Bool) :=
  if n = n2 then
    if f = f2 then
      if l = l2 then
        if r = r2 then
          if t = t2 then
            if b = b2 then
              (false, true)
            else
              (false, true)
          else
            (false, true)
        else
          (false, true)
      else
        (false, true)
    else
      (false, true)
  else
    (false, true)

/-- extracted from the C++ template at T = Sym; 1 path(s) -/
def Frustum.ZToDepth_persp_5_0_10 {α : Type} [Sub α] [Mul α] [Div α] [OfNat α 0] [OfNat α 1] [OfNat α 2] [OfNat α 5] [OfNat α 10] (n : α) (f : α) (l : α) (r : α) (t : α) (b : α) : α :=
  ((((2 : α) * f) * n) / ((((((((5 : α) - (0 : α)) / (10 : α)) * (2 : α)) - (1 : α)) * (f - n)) - f) - n))

/-- extracted from the C++ template at T = Sym; 1 path(s) -/
def Frustum.ZToDepth_persp_11_0_10 {α : Type} [Sub α] [Mul α] [Div α] [OfNat α 0] [OfNat α 1] [OfNat α 2] [OfNat α 10] [OfNat α 11] (n : α) (f : α) (l : α) (r : α) (t : α) (b : α) : α :=
  ((((2 : α) * f) * n) / ((((((((11 : α) - (0 : α)) / (10 : α)) * (2 : α)) - (1 : α)) * (f - n)) - f) - n))

/-- extracted from the C++ template at T = Sym; 1 path(s) -/
def Frustum.ZToDepth_persp_12_0_10 {α : Type} [Sub α] [Mul α] [Div α] [OfNat α 0] [OfNat α 1] [OfNat α 2] [OfNat α 10] (n : α) (f : α) (l : α) (r : α) (t : α) (b : α) : α :=
  ((((2 : α) * f) * n) / ((((((((2 : α) - (0 : α)) / (10 : α)) * (2 : α)) - (1 : α)) * (f - n)) - f) - n))

/-- extracted from the C++ template at T = Sym; 1 path(s) -/
def Frustum.ZToDepth_persp_m3_m10_10 {α : Type} [Sub α] [Mul α] [Div α] [Neg α] [OfNat α 1] [OfNat α 2] [OfNat α 3] [OfNat α 10] [OfNat α 20] (n : α) (f : α) (l : α) (r : α) (t : α) (b : α) : α :=
  ((((2 : α) * f) * n) / ((((((((-(3 : α)) - (-(10 : α))) / (20 : α)) * (2 : α)) - (1 : α)) * (f - n)) - f) - n))

/-- extracted from the C++ template at T = Sym; 1 path(s) -/
def Frustum.ZToDepth_persp_w32 {α : Type} [Sub α] [Mul α] [Div α] [OfNat α 0] [OfNat α 1] [OfNat α 2] [OfNat α 4294967295] (n : α) (f : α) (l : α) (r : α) (t : α) (b : α) : α :=
  ((((2 : α) * f) * n) / ((((((((4294967295 : α) - (0 : α)) / (4294967295 : α)) * (2 : α)) - (1 : α)) * (f - n)) - f) - n))

/-- extracted from the C++ template at T = Sym; 1 path(s) -/
def Frustum.ZToDepth_ortho_5_0_10 {α : Type} [Add α] [Sub α] [Mul α] [Div α] [Neg α] [OfNat α 0] [OfNat α 1] [OfNat α 2] [OfNat α 5] [OfNat α 10] (n : α) (f : α) (l : α) (r : α) (t : α) (b : α) : α :=
  ((-(((((((5 : α) - (0 : α)) / (10 : α)) * (2 : α)) - (1 : α)) * (f - n)) + (f + n))) / (2 : α))

/-- extracted from the C++ template at T = Sym; 1 path(s) -/
def Frustum.ZToDepth_ortho_11_0_10 {α : Type} [Add α] [Sub α] [Mul α] [Div α] [Neg α] [OfNat α 0] [OfNat α 1] [OfNat α 2] [OfNat α 10] [OfNat α 11] (n : α) (f : α) (l : α) (r : α) (t : α) (b : α) : α :=
  ((-(((((((11 : α) - (0 : α)) / (10 : α)) * (2 : α)) - (1 : α)) * (f - n)) + (f + n))) / (2 : α))

/-- extracted from the C++ template at T = Sym; 1 path(s) -/
def Frustum.ZToDepth_ortho_12_0_10 {α : Type} [Add α] [Sub α] [Mul α] [Div α] [Neg α] [OfNat α 0] [OfNat α 1] [OfNat α 2] [OfNat α 10] (n : α) (f : α) (l : α) (r : α) (t : α) (b : α) : α :=
  ((-(((((((2 : α) - (0 : α)) / (10 : α)) * (2 : α)) - (1 : α)) * (f - n)) + (f + n))) / (2 : α))

/-- extracted from the C++ template at T = Sym; 1 path(s) -/
def Frustum.ZToDepth_ortho_m3_m10_10 {α : Type} [Add α] [Sub α] [Mul α] [Div α] [Neg α] [OfNat α 1] [OfNat α 2] [OfNat α 3] [OfNat α 10] [OfNat α 20] (n : α) (f : α) (l : α) (r : α) (t : α) (b : α) : α :=
  ((-(((((((-(3 : α)) - (-(10 : α))) / (20 : α)) * (2 : α)) - (1 : α)) * (f - n)) + (f + n))) / (2 : α))

/-- extracted from the C++ template at T = Sym; 1 path(s) -/
def Frustum.ZToDepth_ortho_w32 {α : Type} [Add α] [Sub α] [Mul α] [Div α] [Neg α] [OfNat α 0] [OfNat α 1] [OfNat α 2] [OfNat α 4294967295] (n : α) (f : α) (l : α) (r : α) (t : α) (b : α) : α :=
  ((-(((((((4294967295 : α) - (0 : α)) / (4294967295 : α)) * (2 : α)) - (1 : α)) * (f - n)) + (f + n))) / (2 : α))

/-- extracted from the C++ template at T = Sym; 1 path(s) -/
def Frustum.DepthToZ_persp_3_10 {α : Type} [Add α] [Sub α] [Mul α] [Div α] [OfNat α 1] [OfNat α 2] [OfNat α 7] (n : α) (f : α) (l : α) (r : α) (t : α) (b : α) (depth : α) : (α × Int × Int × Int) :=
  (((((1 : α) / (2 : α)) * ((((((((2 : α) * f) * n) / depth) + f) + n) / (f - n)) + (1 : α))) * (7 : α)), (3 : Int), (1 : Int), (0 : Int))

/-- extracted from the C++ template at T = Sym; 1 path(s) -/
def Frustum.DepthToZ_ortho_3_10 {α : Type} [Add α] [Sub α] [Mul α] [Div α] [Neg α] [OfNat α 1] [OfNat α 2] [OfNat α 7] (n : α) (f : α) (l : α) (r : α) (t : α) (b : α) (depth : α) : (α × Int × Int × Int) :=
  (((((1 : α) / (2 : α)) * (((-((((2 : α) * depth) + f) + n)) / (f - n)) + (1 : α))) * (7 : α)), (3 : Int), (1 : Int), (0 : Int))

/-- extracted from the C++ template at T = Sym; 7 path(s) -/
def Frustum.DepthToZExc_persp_3_10 {α : Type} [Add α] [Sub α] [Mul α] [Div α] [Neg α] [LT α] [DecidableLT α] [OfNat α 0] [OfNat α 1] [OfNat α 2] [OfNat α 7] (tmax : α) (n : α) (f : α) (l : α) (r : α) (t : α) (b : α) (depth : α) : Except Exc (α × Int × Int × Int) :=
  let t203 := (((2 : α) * f) * n)
  let t204 := (f - n)
  let t265 := (((t203 / depth) + f) + n)
  let t270 := ((((1 : α) / (2 : α)) * ((t265 / t204) + (1 : α))) * (7 : α))
  let t279 := (sabs depth)
  let t281 := (tmax * t279)
  let t282 := (sabs t203)
  let t283 := (sabs t204)
  let t284 := (tmax * t283)
  let t285 := (sabs t265)
  if t279 < (1 : α) then
    if t281 < t282 then
      .error Exc.domainError
    else
      if t283 < (1 : α) then
        if t284 < t285 then
          .error Exc.domainError
        else
          .ok ((t270, (3 : Int), (1 : Int), (0 : Int)))
      else
        .ok ((t270, (3 : Int), (1 : Int), (0 : Int)))
  else
    if t283 < (1 : α) then
      if t284 < t285 then
        .error Exc.domainError
      else
        .ok ((t270, (3 : Int), (1 : Int), (0 : Int)))
    else
      .ok ((t270, (3 : Int), (1 : Int), (0 : Int)))

/-- extracted from the C++ template at T = Sym; 3 path(s) -/
def Frustum.DepthToZExc_ortho_3_10 {α : Type} [Add α] [Sub α] [Mul α] [Div α] [Neg α] [LT α] [DecidableLT α] [OfNat α 0] [OfNat α 1] [OfNat α 2] [OfNat α 7] (tmax : α) (n : α) (f : α) (l : α) (r : α) (t : α) (b : α) (depth : α) : Except Exc (α × Int × Int × Int) :=
  let t204 := (f - n)
  let t273 := ((((2 : α) * depth) + f) + n)
  let t278 := ((((1 : α) / (2 : α)) * (((-t273) / t204) + (1 : α))) * (7 : α))
  let t283 := (sabs t204)
  let t284 := (tmax * t283)
  let t286 := (sabs t273)
  if t283 < (1 : α) then
    if t284 < t286 then
      .error Exc.domainError
    else
      .ok ((t278, (3 : Int), (1 : Int), (0 : Int)))
  else
    .ok ((t278, (3 : Int), (1 : Int), (0 : Int)))

/-- extracted from the C++ template at T = Sym; 1 path(s) -/
def Frustum.projectionMatrix_persp {α : Type} [Add α] [Sub α] [Mul α] [Div α] [Neg α] [OfNat α 0] [OfNat α 1] [OfNat α 2] (n : α) (f : α) (l : α) (r : α) (t : α) (b : α) : (M44 α) :=
  let t41 := (r - l)
  let t42 := (t - b)
  let t204 := (f - n)
  let t297 := ((2 : α) * n)
  ⟨(t297 / t41), (0 : α), (0 : α), (0 : α), (0 : α), (t297 / t42), (0 : α), (0 : α), ((r + l) / t41), ((t + b) / t42), ((-(f + n)) / t204), (-(1 : α)), (0 : α), (0 : α), ((((-(2 : α)) * f) * n) / t204), (0 : α)⟩

/-- extracted from the C++ template at T = Sym; 1 path(s) -/
def Frustum.screenToLocal_persp {α : Type} [Add α] [Sub α] [Mul α] [Div α] [OfNat α 1] [OfNat α 2] (n : α) (f : α) (l : α) (r : α) (t : α) (b : α) (s : V2 α) : (V2 α) :=
  ⟨(l + (((r - l) * ((1 : α) + s.x)) / (2 : α))), (b + (((t - b) * ((1 : α) + s.y)) / (2 : α)))⟩

/-- extracted from the C++ template at T = Sym; 1 path(s) -/
def Frustum.localToScreen_persp {α : Type} [Add α] [Sub α] [Mul α] [Div α] [OfNat α 2] (n : α) (f : α) (l : α) (r : α) (t : α) (b : α) (p : V2 α) : (V2 α) :=
  ⟨(((l - ((2 : α) * p.x)) + r) / (l - r)), (((b - ((2 : α) * p.y)) + t) / (b - t))⟩

/-- extracted from the C++ template at T = Sym; 2 path(s) -/
def Frustum.projectScreenToRay_persp {α : Type} [Add α] [Sub α] [Mul α] [Div α] [Neg α] [LT α] [LE α] [DecidableLT α] [DecidableLE α] [DecidableEq α] [OfNat α 0] [OfNat α 1] [OfNat α 2] (tmin : α) (tmax : α) (sqrt : α → α) (n : α) (f : α) (l : α) (r : α) (t : α) (b : α) (s : V2 α) : (Line3 α) :=
  let t45 := ((-n) - (0 : α))
  let t322 := ((b + (((t - b) * ((1 : α) + s.y)) / (2 : α))) - (0 : α))
  let t323 := ((l + (((r - l) * ((1 : α) + s.x)) / (2 : α))) - (0 : α))
  let t324 := (V3.length tmin tmax sqrt ⟨t323, t322, t45⟩)
  if t324 = (0 : α) then
    ⟨⟨(0 : α), (0 : α), (0 : α)⟩, ⟨t323, t322, t45⟩⟩
  else
    ⟨⟨(0 : α), (0 : α), (0 : α)⟩, ⟨(t323 / t324), (t322 / t324), (t45 / t324)⟩⟩

/-- extracted from the C++ template at T = Sym; 2 path(s) -/
def Frustum.projectPointToScreen_persp {α : Type} [Add α] [Sub α] [Mul α] [Div α] [Neg α] [DecidableEq α] [OfNat α 0] [OfNat α 2] (n : α) (f : α) (l : α) (r : α) (t : α) (b : α) (p : V3 α) : (V2 α) :=
  let t315 := (l - r)
  let t319 := (b - t)
  let t329 := (-p.z)
  if p.z = (0 : α) then
    ⟨(((l - ((2 : α) * p.x)) + r) / t315), (((b - ((2 : α) * p.y)) + t) / t319)⟩
  else
    ⟨(((l - ((2 : α) * ((p.x * n) / t329))) + r) / t315), (((b - ((2 : α) * ((p.y * n) / t329))) + t) / t319)⟩

/-- extracted from the C++ template at T = Sym; 1 path(s) -/
def Frustum.normalizedZToDepth_persp {α : Type} [Sub α] [Mul α] [Div α] [OfNat α 1] [OfNat α 2] (n : α) (f : α) (l : α) (r : α) (t : α) (b : α) (zval : α) : α :=
  ((((2 : α) * f) * n) / (((((zval * (2 : α)) - (1 : α)) * (f - n)) - f) - n))

/-- extracted from the C++ template at T = Sym; 1 path(s) -/
def Frustum.screenRadius_persp {α : Type} [Mul α] [Div α] [Neg α] (n : α) (f : α) (l : α) (r : α) (t : α) (b : α) (p : V3 α) (radius : α) : α :=
  (radius * ((-n) / p.z))

/-- extracted from the C++ template at T = Sym; 1 path(s) -/
def Frustum.worldRadius_persp {α : Type} [Mul α] [Div α] [Neg α] (n : α) (f : α) (l : α) (r : α) (t : α) (b : α) (p : V3 α) (radius : α) : α :=
  (radius * (p.z / (-n)))

/-- extracted from the C++ template at T = Sym; 1 path(s) -/
def Frustum.projectionMatrix_ortho {α : Type} [Add α] [Sub α] [Div α] [Neg α] [OfNat α 0] [OfNat α 1] [OfNat α 2] (n : α) (f : α) (l : α) (r : α) (t : α) (b : α) : (M44 α) :=
  let t41 := (r - l)
  let t42 := (t - b)
  let t204 := (f - n)
  ⟨((2 : α) / t41), (0 : α), (0 : α), (0 : α), (0 : α), ((2 : α) / t42), (0 : α), (0 : α), (0 : α), (0 : α), ((-(2 : α)) / t204), (0 : α), ((-(r + l)) / t41), ((-(t + b)) / t42), ((-(f + n)) / t204), (1 : α)⟩

/-- extracted from the C++ template at T = Sym; 1 path(s) -/
def Frustum.screenToLocal_ortho {α : Type} [Add α] [Sub α] [Mul α] [Div α] [OfNat α 1] [OfNat α 2] (n : α) (f : α) (l : α) (r : α) (t : α) (b : α) (s : V2 α) : (V2 α) :=
  ⟨(l + (((r - l) * ((1 : α) + s.x)) / (2 : α))), (b + (((t - b) * ((1 : α) + s.y)) / (2 : α)))⟩

/-- extracted from the C++ template at T = Sym; 1 path(s) -/
def Frustum.localToScreen_ortho {α : Type} [Add α] [Sub α] [Mul α] [Div α] [OfNat α 2] (n : α) (f : α) (l : α) (r : α) (t : α) (b : α) (p : V2 α) : (V2 α) :=
  ⟨(((l - ((2 : α) * p.x)) + r) / (l - r)), (((b - ((2 : α) * p.y)) + t) / (b - t))⟩

/-- extracted from the C++ template at T = Sym; 2 path(s) -/
def Frustum.projectScreenToRay_ortho {α : Type} [Add α] [Sub α] [Mul α] [Div α] [Neg α] [LT α] [LE α] [DecidableLT α] [DecidableLE α] [DecidableEq α] [OfNat α 0] [OfNat α 1] [OfNat α 2] (tmin : α) (tmax : α) (sqrt : α → α) (n : α) (f : α) (l : α) (r : α) (t : α) (b : α) (s : V2 α) : (Line3 α) :=
  let t305 := (b + (((t - b) * ((1 : α) + s.y)) / (2 : α)))
  let t309 := (l + (((r - l) * ((1 : α) + s.x)) / (2 : α)))
  let t361 := ((-(1 : α)) - (0 : α))
  let t362 := (t305 - t305)
  let t363 := (t309 - t309)
  let t364 := (V3.length tmin tmax sqrt ⟨t363, t362, t361⟩)
  if t364 = (0 : α) then
    ⟨⟨t309, t305, (0 : α)⟩, ⟨t363, t362, t361⟩⟩
  else
    ⟨⟨t309, t305, (0 : α)⟩, ⟨(t363 / t364), (t362 / t364), (t361 / t364)⟩⟩

/-- extracted from the C++ template at T = Sym; 1 path(s) -/
def Frustum.projectPointToScreen_ortho {α : Type} [Add α] [Sub α] [Mul α] [Div α] [OfNat α 2] (n : α) (f : α) (l : α) (r : α) (t : α) (b : α) (p : V3 α) : (V2 α) :=
  ⟨(((l - ((2 : α) * p.x)) + r) / (l - r)), (((b - ((2 : α) * p.y)) + t) / (b - t))⟩

/-- extracted from the C++ template at T = Sym; 1 path(s) -/
def Frustum.normalizedZToDepth_ortho {α : Type} [Add α] [Sub α] [Mul α] [Div α] [Neg α] [OfNat α 1] [OfNat α 2] (n : α) (f : α) (l : α) (r : α) (t : α) (b : α) (zval : α) : α :=
  ((-((((zval * (2 : α)) - (1 : α)) * (f - n)) + (f + n))) / (2 : α))

/-- extracted from the C++ template at T = Sym; 1 path(s) -/
def Frustum.screenRadius_ortho {α : Type} [Mul α] [Div α] [Neg α] (n : α) (f : α) (l : α) (r : α) (t : α) (b : α) (p : V3 α) (radius : α) : α :=
  (radius * ((-n) / p.z))

/-- extracted from the C++ template at T = Sym; 1 path(s) -/
def Frustum.worldRadius_ortho {α : Type} [Mul α] [Div α] [Neg α] (n : α) (f : α) (l : α) (r : α) (t : α) (b : α) (p : V3 α) (radius : α) : α :=
  (radius * (p.z / (-n)))

/-- extracted from the C++ template at T = Sym; 1 path(s) -/
def Frustum.V3mulM44 {α : Type} [Add α] [Mul α] [Div α] (v : V3 α) (m : M44 α) : (V3 α) :=
  let t413 := ((((v.x * m.x03) + (v.y * m.x13)) + (v.z * m.x23)) + m.x33)
  ⟨(((((v.x * m.x00) + (v.y * m.x10)) + (v.z * m.x20)) + m.x30) / t413), (((((v.x * m.x01) + (v.y * m.x11)) + (v.z * m.x21)) + m.x31) / t413), (((((v.x * m.x02) + (v.y * m.x12)) + (v.z * m.x22)) + m.x32) / t413)⟩

/-- extracted from the C++ template at T = Sym; 64 path(s) -/
def Frustum.planes_persp {α : Type} [Add α] [Sub α] [Mul α] [Div α] [Neg α] [LT α] [LE α] [DecidableLT α] [DecidableLE α] [DecidableEq α] [OfNat α 0] [OfNat α 1] [OfNat α 2] (tmin : α) (tmax : α) (sqrt : α → α) (n : α) (f : α) (l : α) (r : α) (t : α) (b : α) : ((Plane3 α) × (Plane3 α) × (Plane3 α) × (Plane3 α) × (Plane3 α) × (Plane3 α)) :=
  let t44 := (-n)
  let t45 := (t44 - (0 : α))
  let t46 := (b - (0 : α))
  let t47 := (l - (0 : α))
  let t49 := (t - (0 : α))
  let t50 := (r - (0 : α))
  let t53 := (V3.length tmin tmax sqrt ⟨(0 : α), (0 : α), (-(1 : α))⟩)
  let t83 := ((0 : α) / t53)
  let t84 := ((-(1 : α)) / t53)
  let t417 := (t49 * t47)
  let t418 := (t50 * t49)
  let t419 := (t418 - t417)
  let t420 := (t50 * t45)
  let t421 := (t45 * t47)
  let t422 := (t421 - t420)
  let t423 := (t45 * t49)
  let t424 := (t49 * t45)
  let t425 := (t424 - t423)
  let t426 := (V3.length tmin tmax sqrt ⟨t425, t422, t419⟩)
  let t431 := (((t425 * (0 : α)) + (t422 * (0 : α))) + (t419 * (0 : α)))
  let t432 := (t46 * t50)
  let t433 := (t418 - t432)
  let t434 := (t45 * t50)
  let t435 := (t434 - t420)
  let t436 := (t46 * t45)
  let t437 := (t436 - t423)
  let t438 := (V3.length tmin tmax sqrt ⟨t437, t435, t433⟩)
  let t443 := (((t437 * (0 : α)) + (t435 * (0 : α))) + (t433 * (0 : α)))
  let t444 := (t47 * t46)
  let t445 := (t444 - t432)
  let t446 := (t47 * t45)
  let t447 := (t434 - t446)
  let t448 := (t45 * t46)
  let t449 := (t436 - t448)
  let t450 := (V3.length tmin tmax sqrt ⟨t449, t447, t445⟩)
  let t455 := (((t449 * (0 : α)) + (t447 * (0 : α))) + (t445 * (0 : α)))
  let t456 := (t444 - t417)
  let t457 := (t421 - t446)
  let t458 := (t424 - t448)
  let t459 := (V3.length tmin tmax sqrt ⟨t458, t457, t456⟩)
  let t464 := (((t458 * (0 : α)) + (t457 * (0 : α))) + (t456 * (0 : α)))
  let t465 := (V3.length tmin tmax sqrt ⟨(0 : α), (0 : α), (1 : α)⟩)
  let t466 := ((0 : α) / t465)
  let t467 := ((1 : α) / t465)
  let t468 := (t458 / t459)
  let t469 := (t457 / t459)
  let t470 := (t456 / t459)
  let t475 := (((t468 * (0 : α)) + (t469 * (0 : α))) + (t470 * (0 : α)))
  let t476 := (t449 / t450)
  let t477 := (t447 / t450)
  let t478 := (t445 / t450)
  let t483 := (((t476 * (0 : α)) + (t477 * (0 : α))) + (t478 * (0 : α)))
  let t484 := (t437 / t438)
  let t485 := (t435 / t438)
  let t486 := (t433 / t438)
  let t491 := (((t484 * (0 : α)) + (t485 * (0 : α))) + (t486 * (0 : α)))
  let t492 := (t425 / t426)
  let t493 := (t422 / t426)
  let t494 := (t419 / t426)
  let t499 := (((t492 * (0 : α)) + (t493 * (0 : α))) + (t494 * (0 : α)))
  if t426 = (0 : α) then
    if t438 = (0 : α) then
      if t450 = (0 : α) then
        if t459 = (0 : α) then
          if t465 = (0 : α) then
            if t53 = (0 : α) then
              (⟨⟨t425, t422, t419⟩, t431⟩, ⟨⟨t437, t435, t433⟩, t443⟩, ⟨⟨t449, t447, t445⟩, t455⟩, ⟨⟨t458, t457, t456⟩, t464⟩, ⟨⟨(0 : α), (0 : α), (1 : α)⟩, t44⟩, ⟨⟨(0 : α), (0 : α), (-(1 : α))⟩, f⟩)
            else
              (⟨⟨t425, t422, t419⟩, t431⟩, ⟨⟨t437, t435, t433⟩, t443⟩, ⟨⟨t449, t447, t445⟩, t455⟩, ⟨⟨t458, t457, t456⟩, t464⟩, ⟨⟨(0 : α), (0 : α), (1 : α)⟩, t44⟩, ⟨⟨t83, t83, t84⟩, f⟩)
          else
            if t53 = (0 : α) then
              (⟨⟨t425, t422, t419⟩, t431⟩, ⟨⟨t437, t435, t433⟩, t443⟩, ⟨⟨t449, t447, t445⟩, t455⟩, ⟨⟨t458, t457, t456⟩, t464⟩, ⟨⟨t466, t466, t467⟩, t44⟩, ⟨⟨(0 : α), (0 : α), (-(1 : α))⟩, f⟩)
            else
              (⟨⟨t425, t422, t419⟩, t431⟩, ⟨⟨t437, t435, t433⟩, t443⟩, ⟨⟨t449, t447, t445⟩, t455⟩, ⟨⟨t458, t457, t456⟩, t464⟩, ⟨⟨t466, t466, t467⟩, t44⟩, ⟨⟨t83, t83, t84⟩, f⟩)
        else
          if t465 = (0 : α) then
            if t53 = (0 : α) then
              (⟨⟨t425, t422, t419⟩, t431⟩, ⟨⟨t437, t435, t433⟩, t443⟩, ⟨⟨t449, t447, t445⟩, t455⟩, ⟨⟨t468, t469, t470⟩, t475⟩, ⟨⟨(0 : α), (0 : α), (1 : α)⟩, t44⟩, ⟨⟨(0 : α), (0 : α), (-(1 : α))⟩, f⟩)
            else
              (⟨⟨t425, t422, t419⟩, t431⟩, ⟨⟨t437, t435, t433⟩, t443⟩, ⟨⟨t449, t447, t445⟩, t455⟩, ⟨⟨t468, t469, t470⟩, t475⟩, ⟨⟨(0 : α), (0 : α), (1 : α)⟩, t44⟩, ⟨⟨t83, t83, t84⟩, f⟩)
          else
            if t53 = (0 : α) then
              (⟨⟨t425, t422, t419⟩, t431⟩, ⟨⟨t437, t435, t433⟩, t443⟩, ⟨⟨t449, t447, t445⟩, t455⟩, ⟨⟨t468, t469, t470⟩, t475⟩, ⟨⟨t466, t466, t467⟩, t44⟩, ⟨⟨(0 : α), (0 : α), (-(1 : α))⟩, f⟩)
            else
              (⟨⟨t425, t422, t419⟩, t431⟩, ⟨⟨t437, t435, t433⟩, t443⟩, ⟨⟨t449, t447, t445⟩, t455⟩, ⟨⟨t468, t469, t470⟩, t475⟩, ⟨⟨t466, t466, t467⟩, t44⟩, ⟨⟨t83, t83, t84⟩, f⟩)
      else
        if t459 = (0 : α) then
          if t465 = (0 : α) then
            if t53 = (0 : α) then
              (⟨⟨t425, t422, t419⟩, t431⟩, ⟨⟨t437, t435, t433⟩, t443⟩, ⟨⟨t476, t477, t478⟩, t483⟩, ⟨⟨t458, t457, t456⟩, t464⟩, ⟨⟨(0 : α), (0 : α), (1 : α)⟩, t44⟩, ⟨⟨(0 : α), (0 : α), (-(1 : α))⟩, f⟩)
            else
              (⟨⟨t425, t422, t419⟩, t431⟩, ⟨⟨t437, t435, t433⟩, t443⟩, ⟨⟨t476, t477, t478⟩, t483⟩, ⟨⟨t458, t457, t456⟩, t464⟩, ⟨⟨(0 : α), (0 : α), (1 : α)⟩, t44⟩, ⟨⟨t83, t83, t84⟩, f⟩)
          else
            if t53 = (0 : α) then
              (⟨⟨t425, t422, t419⟩, t431⟩, ⟨⟨t437, t435, t433⟩, t443⟩, ⟨⟨t476, t477, t478⟩, t483⟩, ⟨⟨t458, t457, t456⟩, t464⟩, ⟨⟨t466, t466, t467⟩, t44⟩, ⟨⟨(0 : α), (0 : α), (-(1 : α))⟩, f⟩)
            else
              (⟨⟨t425, t422, t419⟩, t431⟩, ⟨⟨t437, t435, t433⟩, t443⟩, ⟨⟨t476, t477, t478⟩, t483⟩, ⟨⟨t458, t457, t456⟩, t464⟩, ⟨⟨t466, t466, t467⟩, t44⟩, ⟨⟨t83, t83, t84⟩, f⟩)
        else
          if t465 = (0 : α) then
            if t53 = (0 : α) then
              (⟨⟨t425, t422, t419⟩, t431⟩, ⟨⟨t437, t435, t433⟩, t443⟩, ⟨⟨t476, t477, t478⟩, t483⟩, ⟨⟨t468, t469, t470⟩, t475⟩, ⟨⟨(0 : α), (0 : α), (1 : α)⟩, t44⟩, ⟨⟨(0 : α), (0 : α), (-(1 : α))⟩, f⟩)
            else
              (⟨⟨t425, t422, t419⟩, t431⟩, ⟨⟨t437, t435, t433⟩, t443⟩, ⟨⟨t476, t477, t478⟩, t483⟩, ⟨⟨t468, t469, t470⟩, t475⟩, ⟨⟨(0 : α), (0 : α), (1 : α)⟩, t44⟩, ⟨⟨t83, t83, t84⟩, f⟩)
          else
            if t53 = (0 : α) then
              (⟨⟨t425, t422, t419⟩, t431⟩, ⟨⟨t437, t435, t433⟩, t443⟩, ⟨⟨t476, t477, t478⟩, t483⟩, ⟨⟨t468, t469, t470⟩, t475⟩, ⟨⟨t466, t466, t467⟩, t44⟩, ⟨⟨(0 : α), (0 : α), (-(1 : α))⟩, f⟩)
            else
              (⟨⟨t425, t422, t419⟩, t431⟩, ⟨⟨t437, t435, t433⟩, t443⟩, ⟨⟨t476, t477, t478⟩, t483⟩, ⟨⟨t468, t469, t470⟩, t475⟩, ⟨⟨t466, t466, t467⟩, t44⟩, ⟨⟨t83, t83, t84⟩, f⟩)
    else
      if t450 = (0 : α) then
        if t459 = (0 : α) then
          if t465 = (0 : α) then
            if t53 = (0 : α) then
              (⟨⟨t425, t422, t419⟩, t431⟩, ⟨⟨t484, t485, t486⟩, t491⟩, ⟨⟨t449, t447, t445⟩, t455⟩, ⟨⟨t458, t457, t456⟩, t464⟩, ⟨⟨(0 : α), (0 : α), (1 : α)⟩, t44⟩, ⟨⟨(0 : α), (0 : α), (-(1 : α))⟩, f⟩)
            else
              (⟨⟨t425, t422, t419⟩, t431⟩, ⟨⟨t484, t485, t486⟩, t491⟩, ⟨⟨t449, t447, t445⟩, t455⟩, ⟨⟨t458, t457, t456⟩, t464⟩, ⟨⟨(0 : α), (0 : α), (1 : α)⟩, t44⟩, ⟨⟨t83, t83, t84⟩, f⟩)
          else
            if t53 = (0 : α) then
              (⟨⟨t425, t422, t419⟩, t431⟩, ⟨⟨t484, t485, t486⟩, t491⟩, ⟨⟨t449, t447, t445⟩, t455⟩, ⟨⟨t458, t457, t456⟩, t464⟩, ⟨⟨t466, t466, t467⟩, t44⟩, ⟨⟨(0 : α), (0 : α), (-(1 : α))⟩, f⟩)
            else
              (⟨⟨t425, t422, t419⟩, t431⟩, ⟨⟨t484, t485, t486⟩, t491⟩, ⟨⟨t449, t447, t445⟩, t455⟩, ⟨⟨t458, t457, t456⟩, t464⟩, ⟨⟨t466, t466, t467⟩, t44⟩, ⟨⟨t83, t83, t84⟩, f⟩)
        else
          if t465 = (0 : α) then
            if t53 = (0 : α) then
              (⟨⟨t425, t422, t419⟩, t431⟩, ⟨⟨t484, t485, t486⟩, t491⟩, ⟨⟨t449, t447, t445⟩, t455⟩, ⟨⟨t468, t469, t470⟩, t475⟩, ⟨⟨(0 : α), (0 : α), (1 : α)⟩, t44⟩, ⟨⟨(0 : α), (0 : α), (-(1 : α))⟩, f⟩)
            else
              (⟨⟨t425, t422, t419⟩, t431⟩, ⟨⟨t484, t485, t486⟩, t491⟩, ⟨⟨t449, t447, t445⟩, t455⟩, ⟨⟨t468, t469, t470⟩, t475⟩, ⟨⟨(0 : α), (0 : α), (1 : α)⟩, t44⟩, ⟨⟨t83, t83, t84⟩, f⟩)
          else
            if t53 = (0 : α) then
              (⟨⟨t425, t422, t419⟩, t431⟩, ⟨⟨t484, t485, t486⟩, t491⟩, ⟨⟨t449, t447, t445⟩, t455⟩, ⟨⟨t468, t469, t470⟩, t475⟩, ⟨⟨t466, t466, t467⟩, t44⟩, ⟨⟨(0 : α), (0 : α), (-(1 : α))⟩, f⟩)
            else
              (⟨⟨t425, t422, t419⟩, t431⟩, ⟨⟨t484, t485, t486⟩, t491⟩, ⟨⟨t449, t447, t445⟩, t455⟩, ⟨⟨t468, t469, t470⟩, t475⟩, ⟨⟨t466, t466, t467⟩, t44⟩, ⟨⟨t83, t83, t84⟩, f⟩)
      else
        if t459 = (0 : α) then
          if t465 = (0 : α) then
            if t53 = (0 : α) then
              (⟨⟨t425, t422, t419⟩, t431⟩, ⟨⟨t484, t485, t486⟩, t491⟩, ⟨⟨t476, t477, t478⟩, t483⟩, ⟨⟨t458, t457, t456⟩, t464⟩, ⟨⟨(0 : α), (0 : α), (1 : α)⟩, t44⟩, ⟨⟨(0 : α), (0 : α), (-(1 : α))⟩, f⟩)
            else
              (⟨⟨t425, t422, t419⟩, t431⟩, ⟨⟨t484, t485, t486⟩, t491⟩, ⟨⟨t476, t477, t478⟩, t483⟩, ⟨⟨t458, t457, t456⟩, t464⟩, ⟨⟨(0 : α), (0 : α), (1 : α)⟩, t44⟩, ⟨⟨t83, t83, t84⟩, f⟩)
          else
            if t53 = (0 : α) then
              (⟨⟨t425, t422, t419⟩, t431⟩, ⟨⟨t484, t485, t486⟩, t491⟩, ⟨⟨t476, t477, t478⟩, t483⟩, ⟨⟨t458, t457, t456⟩, t464⟩, ⟨⟨t466, t466, t467⟩, t44⟩, ⟨⟨(0 : α), (0 : α), (-(1 : α))⟩, f⟩)
            else
              (⟨⟨t425, t422, t419⟩, t431⟩, ⟨⟨t484, t485, t486⟩, t491⟩, ⟨⟨t476, t477, t478⟩, t483⟩, ⟨⟨t458, t457, t456⟩, t464⟩, ⟨⟨t466, t466, t467⟩, t44⟩, ⟨⟨t83, t83, t84⟩, f⟩)
        else
          if t465 = (0 : α) then
            if t53 = (0 : α) then
              (⟨⟨t425, t422, t419⟩, t431⟩, ⟨⟨t484, t485, t486⟩, t491⟩, ⟨⟨t476, t477, t478⟩, t483⟩, ⟨⟨t468, t469, t470⟩, t475⟩, ⟨⟨(0 : α), (0 : α), (1 : α)⟩, t44⟩, ⟨⟨(0 : α), (0 : α), (-(1 : α))⟩, f⟩)
            else
              (⟨⟨t425, t422, t419⟩, t431⟩, ⟨⟨t484, t485, t486⟩, t491⟩, ⟨⟨t476, t477, t478⟩, t483⟩, ⟨⟨t468, t469, t470⟩, t475⟩, ⟨⟨(0 : α), (0 : α), (1 : α)⟩, t44⟩, ⟨⟨t83, t83, t84⟩, f⟩)
          else
            if t53 = (0 : α) then
              (⟨⟨t425, t422, t419⟩, t431⟩, ⟨⟨t484, t485, t486⟩, t491⟩, ⟨⟨t476, t477, t478⟩, t483⟩, ⟨⟨t468, t469, t470⟩, t475⟩, ⟨⟨t466, t466, t467⟩, t44⟩, ⟨⟨(0 : α), (0 : α), (-(1 : α))⟩, f⟩)
            else
              (⟨⟨t425, t422, t419⟩, t431⟩, ⟨⟨t484, t485, t486⟩, t491⟩, ⟨⟨t476, t477, t478⟩, t483⟩, ⟨⟨t468, t469, t470⟩, t475⟩, ⟨⟨t466, t466, t467⟩, t44⟩, ⟨⟨t83, t83, t84⟩, f⟩)
  else
    if t438 = (0 : α) then
      if t450 = (0 : α) then
        if t459 = (0 : α) then
          if t465 = (0 : α) then
            if t53 = (0 : α) then
              (⟨⟨t492, t493, t494⟩, t499⟩, ⟨⟨t437, t435, t433⟩, t443⟩, ⟨⟨t449, t447, t445⟩, t455⟩, ⟨⟨t458, t457, t456⟩, t464⟩, ⟨⟨(0 : α), (0 : α), (1 : α)⟩, t44⟩, ⟨⟨(0 : α), (0 : α), (-(1 : α))⟩, f⟩)
            else
              (⟨⟨t492, t493, t494⟩, t499⟩, ⟨⟨t437, t435, t433⟩, t443⟩, ⟨⟨t449, t447, t445⟩, t455⟩, ⟨⟨t458, t457, t456⟩, t464⟩, ⟨⟨(0 : α), (0 : α), (1 : α)⟩, t44⟩, ⟨⟨t83, t83, t84⟩, f⟩)
          else
            if t53 = (0 : α) then
              (⟨⟨t492, t493, t494⟩, t499⟩, ⟨⟨t437, t435, t433⟩, t443⟩, ⟨⟨t449, t447, t445⟩, t455⟩, ⟨⟨t458, t457, t456⟩, t464⟩, ⟨⟨t466, t466, t467⟩, t44⟩, ⟨⟨(0 : α), (0 : α), (-(1 : α))⟩, f⟩)
            else
              (⟨⟨t492, t493, t494⟩, t499⟩, ⟨⟨t437, t435, t433⟩, t443⟩, ⟨⟨t449, t447, t445⟩, t455⟩, ⟨⟨t458, t457, t456⟩, t464⟩, ⟨⟨t466, t466, t467⟩, t44⟩, ⟨⟨t83, t83, t84⟩, f⟩)
        else
          if t465 = (0 : α) then
            if t53 = (0 : α) then
              (⟨⟨t492, t493, t494⟩, t499⟩, ⟨⟨t437, t435, t433⟩, t443⟩, ⟨⟨t449, t447, t445⟩, t455⟩, ⟨⟨t468, t469, t470⟩, t475⟩, ⟨⟨(0 : α), (0 : α), (1 : α)⟩, t44⟩, ⟨⟨(0 : α), (0 : α), (-(1 : α))⟩, f⟩)
            else
              (⟨⟨t492, t493, t494⟩, t499⟩, ⟨⟨t437, t435, t433⟩, t443⟩, ⟨⟨t449, t447, t445⟩, t455⟩, ⟨⟨t468, t469, t470⟩, t475⟩, ⟨⟨(0 : α), (0 : α), (1 : α)⟩, t44⟩, ⟨⟨t83, t83, t84⟩, f⟩)
          else
            if t53 = (0 : α) then
              (⟨⟨t492, t493, t494⟩, t499⟩, ⟨⟨t437, t435, t433⟩, t443⟩, ⟨⟨t449, t447, t445⟩, t455⟩, ⟨⟨t468, t469, t470⟩, t475⟩, ⟨⟨t466, t466, t467⟩, t44⟩, ⟨⟨(0 : α), (0 : α), (-(1 : α))⟩, f⟩)
            else
              (⟨⟨t492, t493, t494⟩, t499⟩, ⟨⟨t437, t435, t433⟩, t443⟩, ⟨⟨t449, t447, t445⟩, t455⟩, ⟨⟨t468, t469, t470⟩, t475⟩, ⟨⟨t466, t466, t467⟩, t44⟩, ⟨⟨t83, t83, t84⟩, f⟩)
      else
        if t459 = (0 : α) then
          if t465 = (0 : α) then
            if t53 = (0 : α) then
              (⟨⟨t492, t493, t494⟩, t499⟩, ⟨⟨t437, t435, t433⟩, t443⟩, ⟨⟨t476, t477, t478⟩, t483⟩, ⟨⟨t458, t457, t456⟩, t464⟩, ⟨⟨(0 : α), (0 : α), (1 : α)⟩, t44⟩, ⟨⟨(0 : α), (0 : α), (-(1 : α))⟩, f⟩)
            else
              (⟨⟨t492, t493, t494⟩, t499⟩, ⟨⟨t437, t435, t433⟩, t443⟩, ⟨⟨t476, t477, t478⟩, t483⟩, ⟨⟨t458, t457, t456⟩, t464⟩, ⟨⟨(0 : α), (0 : α), (1 : α)⟩, t44⟩, ⟨⟨t83, t83, t84⟩, f⟩)
          else
            if t53 = (0 : α) then
              (⟨⟨t492, t493, t494⟩, t499⟩, ⟨⟨t437, t435, t433⟩, t443⟩, ⟨⟨t476, t477, t478⟩, t483⟩, ⟨⟨t458, t457, t456⟩, t464⟩, ⟨⟨t466, t466, t467⟩, t44⟩, ⟨⟨(0 : α), (0 : α), (-(1 : α))⟩, f⟩)
            else
              (⟨⟨t492, t493, t494⟩, t499⟩, ⟨⟨t437, t435, t433⟩, t443⟩, ⟨⟨t476, t477, t478⟩, t483⟩, ⟨⟨t458, t457, t456⟩, t464⟩, ⟨⟨t466, t466, t467⟩, t44⟩, ⟨⟨t83, t83, t84⟩, f⟩)
        else
          if t465 = (0 : α) then
            if t53 = (0 : α) then
              (⟨⟨t492, t493, t494⟩, t499⟩, ⟨⟨t437, t435, t433⟩, t443⟩, ⟨⟨t476, t477, t478⟩, t483⟩, ⟨⟨t468, t469, t470⟩, t475⟩, ⟨⟨(0 : α), (0 : α), (1 : α)⟩, t44⟩, ⟨⟨(0 : α), (0 : α), (-(1 : α))⟩, f⟩)
            else
              (⟨⟨t492, t493, t494⟩, t499⟩, ⟨⟨t437, t435, t433⟩, t443⟩, ⟨⟨t476, t477, t478⟩, t483⟩, ⟨⟨t468, t469, t470⟩, t475⟩, ⟨⟨(0 : α), (0 : α), (1 : α)⟩, t44⟩, ⟨⟨t83, t83, t84⟩, f⟩)
          else
            if t53 = (0 : α) then
              (⟨⟨t492, t493, t494⟩, t499⟩, ⟨⟨t437, t435, t433⟩, t443⟩, ⟨⟨t476, t477, t478⟩, t483⟩, ⟨⟨t468, t469, t470⟩, t475⟩, ⟨⟨t466, t466, t467⟩, t44⟩, ⟨⟨(0 : α), (0 : α), (-(1 : α))⟩, f⟩)
            else
              (⟨⟨t492, t493, t494⟩, t499⟩, ⟨⟨t437, t435, t433⟩, t443⟩, ⟨⟨t476, t477, t478⟩, t483⟩, ⟨⟨t468, t469, t470⟩, t475⟩, ⟨⟨t466, t466, t467⟩, t44⟩, ⟨⟨t83, t83, t84⟩, f⟩)
    else
      if t450 = (0 : α) then
        if t459 = (0 : α) then
          if t465 = (0 : α) then
            if t53 = (0 : α) then
              (⟨⟨t492, t493, t494⟩, t499⟩, ⟨⟨t484, t485, t486⟩, t491⟩, ⟨⟨t449, t447, t445⟩, t455⟩, ⟨⟨t458, t457, t456⟩, t464⟩, ⟨⟨(0 : α), (0 : α), (1 : α)⟩, t44⟩, ⟨⟨(0 : α), (0 : α), (-(1 : α))⟩, f⟩)
            else
              (⟨⟨t492, t493, t494⟩, t499⟩, ⟨⟨t484, t485, t486⟩, t491⟩, ⟨⟨t449, t447, t445⟩, t455⟩, ⟨⟨t458, t457, t456⟩, t464⟩, ⟨⟨(0 : α), (0 : α), (1 : α)⟩, t44⟩, ⟨⟨t83, t83, t84⟩, f⟩)
          else
            if t53 = (0 : α) then
              (⟨⟨t492, t493, t494⟩, t499⟩, ⟨⟨t484, t485, t486⟩, t491⟩, ⟨⟨t449, t447, t445⟩, t455⟩, ⟨⟨t458, t457, t456⟩, t464⟩, ⟨⟨t466, t466, t467⟩, t44⟩, ⟨⟨(0 : α), (0 : α), (-(1 : α))⟩, f⟩)
            else
              (⟨⟨t492, t493, t494⟩, t499⟩, ⟨⟨t484, t485, t486⟩, t491⟩, ⟨⟨t449, t447, t445⟩, t455⟩, ⟨⟨t458, t457, t456⟩, t464⟩, ⟨⟨t466, t466, t467⟩, t44⟩, ⟨⟨t83, t83, t84⟩, f⟩)
        else
          if t465 = (0 : α) then
            if t53 = (0 : α) then
              (⟨⟨t492, t493, t494⟩, t499⟩, ⟨⟨t484, t485, t486⟩, t491⟩, ⟨⟨t449, t447, t445⟩, t455⟩, ⟨⟨t468, t469, t470⟩, t475⟩, ⟨⟨(0 : α), (0 : α), (1 : α)⟩, t44⟩, ⟨⟨(0 : α), (0 : α), (-(1 : α))⟩, f⟩)
            else
              (⟨⟨t492, t493, t494⟩, t499⟩, ⟨⟨t484, t485, t486⟩, t491⟩, ⟨⟨t449, t447, t445⟩, t455⟩, ⟨⟨t468, t469, t470⟩, t475⟩, ⟨⟨(0 : α), (0 : α), (1 : α)⟩, t44⟩, ⟨⟨t83, t83, t84⟩, f⟩)
          else
            if t53 = (0 : α) then
              (⟨⟨t492, t493, t494⟩, t499⟩, ⟨⟨t484, t485, t486⟩, t491⟩, ⟨⟨t449, t447, t445⟩, t455⟩, ⟨⟨t468, t469, t470⟩, t475⟩, ⟨⟨t466, t466, t467⟩, t44⟩, ⟨⟨(0 : α), (0 : α), (-(1 : α))⟩, f⟩)
            else
              (⟨⟨t492, t493, t494⟩, t499⟩, ⟨⟨t484, t485, t486⟩, t491⟩, ⟨⟨t449, t447, t445⟩, t455⟩, ⟨⟨t468, t469, t470⟩, t475⟩, ⟨⟨t466, t466, t467⟩, t44⟩, ⟨⟨t83, t83, t84⟩, f⟩)
      else
        if t459 = (0 : α) then
          if t465 = (0 : α) then
            if t53 = (0 : α) then
              (⟨⟨t492, t493, t494⟩, t499⟩, ⟨⟨t484, t485, t486⟩, t491⟩, ⟨⟨t476, t477, t478⟩, t483⟩, ⟨⟨t458, t457, t456⟩, t464⟩, ⟨⟨(0 : α), (0 : α), (1 : α)⟩, t44⟩, ⟨⟨(0 : α), (0 : α), (-(1 : α))⟩, f⟩)
            else
              (⟨⟨t492, t493, t494⟩, t499⟩, ⟨⟨t484, t485, t486⟩, t491⟩, ⟨⟨t476, t477, t478⟩, t483⟩, ⟨⟨t458, t457, t456⟩, t464⟩, ⟨⟨(0 : α), (0 : α), (1 : α)⟩, t44⟩, ⟨⟨t83, t83, t84⟩, f⟩)
          else
            if t53 = (0 : α) then
              (⟨⟨t492, t493, t494⟩, t499⟩, ⟨⟨t484, t485, t486⟩, t491⟩, ⟨⟨t476, t477, t478⟩, t483⟩, ⟨⟨t458, t457, t456⟩, t464⟩, ⟨⟨t466, t466, t467⟩, t44⟩, ⟨⟨(0 : α), (0 : α), (-(1 : α))⟩, f⟩)
            else
              (⟨⟨t492, t493, t494⟩, t499⟩, ⟨⟨t484, t485, t486⟩, t491⟩, ⟨⟨t476, t477, t478⟩, t483⟩, ⟨⟨t458, t457, t456⟩, t464⟩, ⟨⟨t466, t466, t467⟩, t44⟩, ⟨⟨t83, t83, t84⟩, f⟩)
        else
          if t465 = (0 : α) then
            if t53 = (0 : α) then
              (⟨⟨t492, t493, t494⟩, t499⟩, ⟨⟨t484, t485, t486⟩, t491⟩, ⟨⟨t476, t477, t478⟩, t483⟩, ⟨⟨t468, t469, t470⟩, t475⟩, ⟨⟨(0 : α), (0 : α), (1 : α)⟩, t44⟩, ⟨⟨(0 : α), (0 : α), (-(1 : α))⟩, f⟩)
            else
              (⟨⟨t492, t493, t494⟩, t499⟩, ⟨⟨t484, t485, t486⟩, t491⟩, ⟨⟨t476, t477, t478⟩, t483⟩, ⟨⟨t468, t469, t470⟩, t475⟩, ⟨⟨(0 : α), (0 : α), (1 : α)⟩, t44⟩, ⟨⟨t83, t83, t84⟩, f⟩)
          else
            if t53 = (0 : α) then
              (⟨⟨t492, t493, t494⟩, t499⟩, ⟨⟨t484, t485, t486⟩, t491⟩, ⟨⟨t476, t477, t478⟩, t483⟩, ⟨⟨t468, t469, t470⟩, t475⟩, ⟨⟨t466, t466, t467⟩, t44⟩, ⟨⟨(0 : α), (0 : α), (-(1 : α))⟩, f⟩)
            else
              (⟨⟨t492, t493, t494⟩, t499⟩, ⟨⟨t484, t485, t486⟩, t491⟩, ⟨⟨t476, t477, t478⟩, t483⟩, ⟨⟨t468, t469, t470⟩, t475⟩, ⟨⟨t466, t466, t467⟩, t44⟩, ⟨⟨t83, t83, t84⟩, f⟩)

/-- extracted from the C++ template at T = Sym; 64 path(s) -/
def Frustum.planes_ortho {α : Type} [Add α] [Mul α] [Div α] [Neg α] [LT α] [LE α] [DecidableLT α] [DecidableLE α] [DecidableEq α] [OfNat α 0] [OfNat α 1] [OfNat α 2] (tmin : α) (tmax : α) (sqrt : α → α) (n : α) (f : α) (l : α) (r : α) (t : α) (b : α) : ((Plane3 α) × (Plane3 α) × (Plane3 α) × (Plane3 α) × (Plane3 α) × (Plane3 α)) :=
  let t44 := (-n)
  let t53 := (V3.length tmin tmax sqrt ⟨(0 : α), (0 : α), (-(1 : α))⟩)
  let t83 := ((0 : α) / t53)
  let t84 := ((-(1 : α)) / t53)
  let t465 := (V3.length tmin tmax sqrt ⟨(0 : α), (0 : α), (1 : α)⟩)
  let t466 := ((0 : α) / t465)
  let t467 := ((1 : α) / t465)
  let t500 := (V3.length tmin tmax sqrt ⟨(0 : α), (1 : α), (0 : α)⟩)
  let t501 := (V3.length tmin tmax sqrt ⟨(1 : α), (0 : α), (0 : α)⟩)
  let t502 := (-b)
  let t503 := (V3.length tmin tmax sqrt ⟨(0 : α), (-(1 : α)), (0 : α)⟩)
  let t504 := (-l)
  let t505 := (V3.length tmin tmax sqrt ⟨(-(1 : α)), (0 : α), (0 : α)⟩)
  let t506 := ((-(1 : α)) / t505)
  let t507 := ((0 : α) / t505)
  let t508 := ((0 : α) / t503)
  let t509 := ((-(1 : α)) / t503)
  let t510 := ((1 : α) / t501)
  let t511 := ((0 : α) / t501)
  let t512 := ((0 : α) / t500)
  let t513 := ((1 : α) / t500)
  if t500 = (0 : α) then
    if t501 = (0 : α) then
      if t503 = (0 : α) then
        if t505 = (0 : α) then
          if t465 = (0 : α) then
            if t53 = (0 : α) then
              (⟨⟨(0 : α), (1 : α), (0 : α)⟩, t⟩, ⟨⟨(1 : α), (0 : α), (0 : α)⟩, r⟩, ⟨⟨(0 : α), (-(1 : α)), (0 : α)⟩, t502⟩, ⟨⟨(-(1 : α)), (0 : α), (0 : α)⟩, t504⟩, ⟨⟨(0 : α), (0 : α), (1 : α)⟩, t44⟩, ⟨⟨(0 : α), (0 : α), (-(1 : α))⟩, f⟩)
            else
              (⟨⟨(0 : α), (1 : α), (0 : α)⟩, t⟩, ⟨⟨(1 : α), (0 : α), (0 : α)⟩, r⟩, ⟨⟨(0 : α), (-(1 : α)), (0 : α)⟩, t502⟩, ⟨⟨(-(1 : α)), (0 : α), (0 : α)⟩, t504⟩, ⟨⟨(0 : α), (0 : α), (1 : α)⟩, t44⟩, ⟨⟨t83, t83, t84⟩, f⟩)
          else
            if t53 = (0 : α) then
              (⟨⟨(0 : α), (1 : α), (0 : α)⟩, t⟩, ⟨⟨(1 : α), (0 : α), (0 : α)⟩, r⟩, ⟨⟨(0 : α), (-(1 : α)), (0 : α)⟩, t502⟩, ⟨⟨(-(1 : α)), (0 : α), (0 : α)⟩, t504⟩, ⟨⟨t466, t466, t467⟩, t44⟩, ⟨⟨(0 : α), (0 : α), (-(1 : α))⟩, f⟩)
            else
              (⟨⟨(0 : α), (1 : α), (0 : α)⟩, t⟩, ⟨⟨(1 : α), (0 : α), (0 : α)⟩, r⟩, ⟨⟨(0 : α), (-(1 : α)), (0 : α)⟩, t502⟩, ⟨⟨(-(1 : α)), (0 : α), (0 : α)⟩, t504⟩, ⟨⟨t466, t466, t467⟩, t44⟩, ⟨⟨t83, t83, t84⟩, f⟩)
        else
          if t465 = (0 : α) then
            if t53 = (0 : α) then
              (⟨⟨(0 : α), (1 : α), (0 : α)⟩, t⟩, ⟨⟨(1 : α), (0 : α), (0 : α)⟩, r⟩, ⟨⟨(0 : α), (-(1 : α)), (0 : α)⟩, t502⟩, ⟨⟨t506, t507, t507⟩, t504⟩, ⟨⟨(0 : α), (0 : α), (1 : α)⟩, t44⟩, ⟨⟨(0 : α), (0 : α), (-(1 : α))⟩, f⟩)
            else
              (⟨⟨(0 : α), (1 : α), (0 : α)⟩, t⟩, ⟨⟨(1 : α), (0 : α), (0 : α)⟩, r⟩, ⟨⟨(0 : α), (-(1 : α)), (0 : α)⟩, t502⟩, ⟨⟨t506, t507, t507⟩, t504⟩, ⟨⟨(0 : α), (0 : α), (1 : α)⟩, t44⟩, ⟨⟨t83, t83, t84⟩, f⟩)
          else
            if t53 = (0 : α) then
              (⟨⟨(0 : α), (1 : α), (0 : α)⟩, t⟩, ⟨⟨(1 : α), (0 : α), (0 : α)⟩, r⟩, ⟨⟨(0 : α), (-(1 : α)), (0 : α)⟩, t502⟩, ⟨⟨t506, t507, t507⟩, t504⟩, ⟨⟨t466, t466, t467⟩, t44⟩, ⟨⟨(0 : α), (0 : α), (-(1 : α))⟩, f⟩)
            else
              (⟨⟨(0 : α), (1 : α), (0 : α)⟩, t⟩, ⟨⟨(1 : α), (0 : α), (0 : α)⟩, r⟩, ⟨⟨(0 : α), (-(1 : α)), (0 : α)⟩, t502⟩, ⟨⟨t506, t507, t507⟩, t504⟩, ⟨⟨t466, t466, t467⟩, t44⟩, ⟨⟨t83, t83, t84⟩, f⟩)
      else
        if t505 = (0 : α) then
          if t465 = (0 : α) then
            if t53 = (0 : α) then
              (⟨⟨(0 : α), (1 : α), (0 : α)⟩, t⟩, ⟨⟨(1 : α), (0 : α), (0 : α)⟩, r⟩, ⟨⟨t508, t509, t508⟩, t502⟩, ⟨⟨(-(1 : α)), (0 : α), (0 : α)⟩, t504⟩, ⟨⟨(0 : α), (0 : α), (1 : α)⟩, t44⟩, ⟨⟨(0 : α), (0 : α), (-(1 : α))⟩, f⟩)
            else
              (⟨⟨(0 : α), (1 : α), (0 : α)⟩, t⟩, ⟨⟨(1 : α), (0 : α), (0 : α)⟩, r⟩, ⟨⟨t508, t509, t508⟩, t502⟩, ⟨⟨(-(1 : α)), (0 : α), (0 : α)⟩, t504⟩, ⟨⟨(0 : α), (0 : α), (1 : α)⟩, t44⟩, ⟨⟨t83, t83, t84⟩, f⟩)
          else
            if t53 = (0 : α) then
              (⟨⟨(0 : α), (1 : α), (0 : α)⟩, t⟩, ⟨⟨(1 : α), (0 : α), (0 : α)⟩, r⟩, ⟨⟨t508, t509, t508⟩, t502⟩, ⟨⟨(-(1 : α)), (0 : α), (0 : α)⟩, t504⟩, ⟨⟨t466, t466, t467⟩, t44⟩, ⟨⟨(0 : α), (0 : α), (-(1 : α))⟩, f⟩)
            else
              (⟨⟨(0 : α), (1 : α), (0 : α)⟩, t⟩, ⟨⟨(1 : α), (0 : α), (0 : α)⟩, r⟩, ⟨⟨t508, t509, t508⟩, t502⟩, ⟨⟨(-(1 : α)), (0 : α), (0 : α)⟩, t504⟩, ⟨⟨t466, t466, t467⟩, t44⟩, ⟨⟨t83, t83, t84⟩, f⟩)
        else
          if t465 = (0 : α) then
            if t53 = (0 : α) then
              (⟨⟨(0 : α), (1 : α), (0 : α)⟩, t⟩, ⟨⟨(1 : α), (0 : α), (0 : α)⟩, r⟩, ⟨⟨t508, t509, t508⟩, t502⟩, ⟨⟨t506, t507, t507⟩, t504⟩, ⟨⟨(0 : α), (0 : α), (1 : α)⟩, t44⟩, ⟨⟨(0 : α), (0 : α), (-(1 : α))⟩, f⟩)
            else
              (⟨⟨(0 : α), (1 : α), (0 : α)⟩, t⟩, ⟨⟨(1 : α), (0 : α), (0 : α)⟩, r⟩, ⟨⟨t508, t509, t508⟩, t502⟩, ⟨⟨t506, t507, t507⟩, t504⟩, ⟨⟨(0 : α), (0 : α), (1 : α)⟩, t44⟩, ⟨⟨t83, t83, t84⟩, f⟩)
          else
            if t53 = (0 : α) then
              (⟨⟨(0 : α), (1 : α), (0 : α)⟩, t⟩, ⟨⟨(1 : α), (0 : α), (0 : α)⟩, r⟩, ⟨⟨t508, t509, t508⟩, t502⟩, ⟨⟨t506, t507, t507⟩, t504⟩, ⟨⟨t466, t466, t467⟩, t44⟩, ⟨⟨(0 : α), (0 : α), (-(1 : α))⟩, f⟩)
            else
              (⟨⟨(0 : α), (1 : α), (0 : α)⟩, t⟩, ⟨⟨(1 : α), (0 : α), (0 : α)⟩, r⟩, ⟨⟨t508, t509, t508⟩, t502⟩, ⟨⟨t506, t507, t507⟩, t504⟩, ⟨⟨t466, t466, t467⟩, t44⟩, ⟨⟨t83, t83, t84⟩, f⟩)
    else
      if t503 = (0 : α) then
        if t505 = (0 : α) then
          if t465 = (0 : α) then
            if t53 = (0 : α) then
              (⟨⟨(0 : α), (1 : α), (0 : α)⟩, t⟩, ⟨⟨t510, t511, t511⟩, r⟩, ⟨⟨(0 : α), (-(1 : α)), (0 : α)⟩, t502⟩, ⟨⟨(-(1 : α)), (0 : α), (0 : α)⟩, t504⟩, ⟨⟨(0 : α), (0 : α), (1 : α)⟩, t44⟩, ⟨⟨(0 : α), (0 : α), (-(1 : α))⟩, f⟩)
            else
              (⟨⟨(0 : α), (1 : α), (0 : α)⟩, t⟩, ⟨⟨t510, t511, t511⟩, r⟩, ⟨⟨(0 : α), (-(1 : α)), (0 : α)⟩, t502⟩, ⟨⟨(-(1 : α)), (0 : α), (0 : α)⟩, t504⟩, ⟨⟨(0 : α), (0 : α), (1 : α)⟩, t44⟩, ⟨⟨t83, t83, t84⟩, f⟩)
          else
            if t53 = (0 : α) then
              (⟨⟨(0 : α), (1 : α), (0 : α)⟩, t⟩, ⟨⟨t510, t511, t511⟩, r⟩, ⟨⟨(0 : α), (-(1 : α)), (0 : α)⟩, t502⟩, ⟨⟨(-(1 : α)), (0 : α), (0 : α)⟩, t504⟩, ⟨⟨t466, t466, t467⟩, t44⟩, ⟨⟨(0 : α), (0 : α), (-(1 : α))⟩, f⟩)
            else
              (⟨⟨(0 : α), (1 : α), (0 : α)⟩, t⟩, ⟨⟨t510, t511, t511⟩, r⟩, ⟨⟨(0 : α), (-(1 : α)), (0 : α)⟩, t502⟩, ⟨⟨(-(1 : α)), (0 : α), (0 : α)⟩, t504⟩, ⟨⟨t466, t466, t467⟩, t44⟩, ⟨⟨t83, t83, t84⟩, f⟩)
        else
          if t465 = (0 : α) then
            if t53 = (0 : α) then
              (⟨⟨(0 : α), (1 : α), (0 : α)⟩, t⟩, ⟨⟨t510, t511, t511⟩, r⟩, ⟨⟨(0 : α), (-(1 : α)), (0 : α)⟩, t502⟩, ⟨⟨t506, t507, t507⟩, t504⟩, ⟨⟨(0 : α), (0 : α), (1 : α)⟩, t44⟩, ⟨⟨(0 : α), (0 : α), (-(1 : α))⟩, f⟩)
            else
              (⟨⟨(0 : α), (1 : α), (0 : α)⟩, t⟩, ⟨⟨t510, t511, t511⟩, r⟩, ⟨⟨(0 : α), (-(1 : α)), (0 : α)⟩, t502⟩, ⟨⟨t506, t507, t507⟩, t504⟩, ⟨⟨(0 : α), (0 : α), (1 : α)⟩, t44⟩, ⟨⟨t83, t83, t84⟩, f⟩)
          else
            if t53 = (0 : α) then
              (⟨⟨(0 : α), (1 : α), (0 : α)⟩, t⟩, ⟨⟨t510, t511, t511⟩, r⟩, ⟨⟨(0 : α), (-(1 : α)), (0 : α)⟩, t502⟩, ⟨⟨t506, t507, t507⟩, t504⟩, ⟨⟨t466, t466, t467⟩, t44⟩, ⟨⟨(0 : α), (0 : α), (-(1 : α))⟩, f⟩)
            else
              (⟨⟨(0 : α), (1 : α), (0 : α)⟩, t⟩, ⟨⟨t510, t511, t511⟩, r⟩, ⟨⟨(0 : α), (-(1 : α)), (0 : α)⟩, t502⟩, ⟨⟨t506, t507, t507⟩, t504⟩, ⟨⟨t466, t466, t467⟩, t44⟩, ⟨⟨t83, t83, t84⟩, f⟩)
      else
        if t505 = (0 : α) then
          if t465 = (0 : α) then
            if t53 = (0 : α) then
              (⟨⟨(0 : α), (1 : α), (0 : α)⟩, t⟩, ⟨⟨t510, t511, t511⟩, r⟩, ⟨⟨t508, t509, t508⟩, t502⟩, ⟨⟨(-(1 : α)), (0 : α), (0 : α)⟩, t504⟩, ⟨⟨(0 : α), (0 : α), (1 : α)⟩, t44⟩, ⟨⟨(0 : α), (0 : α), (-(1 : α))⟩, f⟩)
            else
              (⟨⟨(0 : α), (1 : α), (0 : α)⟩, t⟩, ⟨⟨t510, t511, t511⟩, r⟩, ⟨⟨t508, t509, t508⟩, t502⟩, ⟨⟨(-(1 : α)), (0 : α), (0 : α)⟩, t504⟩, ⟨⟨(0 : α), (0 : α), (1 : α)⟩, t44⟩, ⟨⟨t83, t83, t84⟩, f⟩)
          else
            if t53 = (0 : α) then
              (⟨⟨(0 : α), (1 : α), (0 : α)⟩, t⟩, ⟨⟨t510, t511, t511⟩, r⟩, ⟨⟨t508, t509, t508⟩, t502⟩, ⟨⟨(-(1 : α)), (0 : α), (0 : α)⟩, t504⟩, ⟨⟨t466, t466, t467⟩, t44⟩, ⟨⟨(0 : α), (0 : α), (-(1 : α))⟩, f⟩)
            else
              (⟨⟨(0 : α), (1 : α), (0 : α)⟩, t⟩, ⟨⟨t510, t511, t511⟩, r⟩, ⟨⟨t508, t509, t508⟩, t502⟩, ⟨⟨(-(1 : α)), (0 : α), (0 : α)⟩, t504⟩, ⟨⟨t466, t466, t467⟩, t44⟩, ⟨⟨t83, t83, t84⟩, f⟩)
        else
          if t465 = (0 : α) then
            if t53 = (0 : α) then
              (⟨⟨(0 : α), (1 : α), (0 : α)⟩, t⟩, ⟨⟨t510, t511, t511⟩, r⟩, ⟨⟨t508, t509, t508⟩, t502⟩, ⟨⟨t506, t507, t507⟩, t504⟩, ⟨⟨(0 : α), (0 : α), (1 : α)⟩, t44⟩, ⟨⟨(0 : α), (0 : α), (-(1 : α))⟩, f⟩)
            else
              (⟨⟨(0 : α), (1 : α), (0 : α)⟩, t⟩, ⟨⟨t510, t511, t511⟩, r⟩, ⟨⟨t508, t509, t508⟩, t502⟩, ⟨⟨t506, t507, t507⟩, t504⟩, ⟨⟨(0 : α), (0 : α), (1 : α)⟩, t44⟩, ⟨⟨t83, t83, t84⟩, f⟩)
          else
            if t53 = (0 : α) then
              (⟨⟨(0 : α), (1 : α), (0 : α)⟩, t⟩, ⟨⟨t510, t511, t511⟩, r⟩, ⟨⟨t508, t509, t508⟩, t502⟩, ⟨⟨t506, t507, t507⟩, t504⟩, ⟨⟨t466, t466, t467⟩, t44⟩, ⟨⟨(0 : α), (0 : α), (-(1 : α))⟩, f⟩)
            else
              (⟨⟨(0 : α), (1 : α), (0 : α)⟩, t⟩, ⟨⟨t510, t511, t511⟩, r⟩, ⟨⟨t508, t509, t508⟩, t502⟩, ⟨⟨t506, t507, t507⟩, t504⟩, ⟨⟨t466, t466, t467⟩, t44⟩, ⟨⟨t83, t83, t84⟩, f⟩)
  else
    if t501 = (0 : α) then
      if t503 = (0 : α) then
        if t505 = (0 : α) then
          if t465 = (0 : α) then
            if t53 = (0 : α) then
              (⟨⟨t512, t513, t512⟩, t⟩, ⟨⟨(1 : α), (0 : α), (0 : α)⟩, r⟩, ⟨⟨(0 : α), (-(1 : α)), (0 : α)⟩, t502⟩, ⟨⟨(-(1 : α)), (0 : α), (0 : α)⟩, t504⟩, ⟨⟨(0 : α), (0 : α), (1 : α)⟩, t44⟩, ⟨⟨(0 : α), (0 : α), (-(1 : α))⟩, f⟩)
            else
              (⟨⟨t512, t513, t512⟩, t⟩, ⟨⟨(1 : α), (0 : α), (0 : α)⟩, r⟩, ⟨⟨(0 : α), (-(1 : α)), (0 : α)⟩, t502⟩, ⟨⟨(-(1 : α)), (0 : α), (0 : α)⟩, t504⟩, ⟨⟨(0 : α), (0 : α), (1 : α)⟩, t44⟩, ⟨⟨t83, t83, t84⟩, f⟩)
          else
            if t53 = (0 : α) then
              (⟨⟨t512, t513, t512⟩, t⟩, ⟨⟨(1 : α), (0 : α), (0 : α)⟩, r⟩, ⟨⟨(0 : α), (-(1 : α)), (0 : α)⟩, t502⟩, ⟨⟨(-(1 : α)), (0 : α), (0 : α)⟩, t504⟩, ⟨⟨t466, t466, t467⟩, t44⟩, ⟨⟨(0 : α), (0 : α), (-(1 : α))⟩, f⟩)
            else
              (⟨⟨t512, t513, t512⟩, t⟩, ⟨⟨(1 : α), (0 : α), (0 : α)⟩, r⟩, ⟨⟨(0 : α), (-(1 : α)), (0 : α)⟩, t502⟩, ⟨⟨(-(1 : α)), (0 : α), (0 : α)⟩, t504⟩, ⟨⟨t466, t466, t467⟩, t44⟩, ⟨⟨t83, t83, t84⟩, f⟩)
        else
          if t465 = (0 : α) then
            if t53 = (0 : α) then
              (⟨⟨t512, t513, t512⟩, t⟩, ⟨⟨(1 : α), (0 : α), (0 : α)⟩, r⟩, ⟨⟨(0 : α), (-(1 : α)), (0 : α)⟩, t502⟩, ⟨⟨t506, t507, t507⟩, t504⟩, ⟨⟨(0 : α), (0 : α), (1 : α)⟩, t44⟩, ⟨⟨(0 : α), (0 : α), (-(1 : α))⟩, f⟩)
            else
              (⟨⟨t512, t513, t512⟩, t⟩, ⟨⟨(1 : α), (0 : α), (0 : α)⟩, r⟩, ⟨⟨(0 : α), (-(1 : α)), (0 : α)⟩, t502⟩, ⟨⟨t506, t507, t507⟩, t504⟩, ⟨⟨(0 : α), (0 : α), (1 : α)⟩, t44⟩, ⟨⟨t83, t83, t84⟩, f⟩)
          else
            if t53 = (0 : α) then
              (⟨⟨t512, t513, t512⟩, t⟩, ⟨⟨(1 : α), (0 : α), (0 : α)⟩, r⟩, ⟨⟨(0 : α), (-(1 : α)), (0 : α)⟩, t502⟩, ⟨⟨t506, t507, t507⟩, t504⟩, ⟨⟨t466, t466, t467⟩, t44⟩, ⟨⟨(0 : α), (0 : α), (-(1 : α))⟩, f⟩)
            else
              (⟨⟨t512, t513, t512⟩, t⟩, ⟨⟨(1 : α), (0 : α), (0 : α)⟩, r⟩, ⟨⟨(0 : α), (-(1 : α)), (0 : α)⟩, t502⟩, ⟨⟨t506, t507, t507⟩, t504⟩, ⟨⟨t466, t466, t467⟩, t44⟩, ⟨⟨t83, t83, t84⟩, f⟩)
      else
        if t505 = (0 : α) then
          if t465 = (0 : α) then
            if t53 = (0 : α) then
              (⟨⟨t512, t513, t512⟩, t⟩, ⟨⟨(1 : α), (0 : α), (0 : α)⟩, r⟩, ⟨⟨t508, t509, t508⟩, t502⟩, ⟨⟨(-(1 : α)), (0 : α), (0 : α)⟩, t504⟩, ⟨⟨(0 : α), (0 : α), (1 : α)⟩, t44⟩, ⟨⟨(0 : α), (0 : α), (-(1 : α))⟩, f⟩)
            else
              (⟨⟨t512, t513, t512⟩, t⟩, ⟨⟨(1 : α), (0 : α), (0 : α)⟩, r⟩, ⟨⟨t508, t509, t508⟩, t502⟩, ⟨⟨(-(1 : α)), (0 : α), (0 : α)⟩, t504⟩, ⟨⟨(0 : α), (0 : α), (1 : α)⟩, t44⟩, ⟨⟨t83, t83, t84⟩, f⟩)
          else
            if t53 = (0 : α) then
              (⟨⟨t512, t513, t512⟩, t⟩, ⟨⟨(1 : α), (0 : α), (0 : α)⟩, r⟩, ⟨⟨t508, t509, t508⟩, t502⟩, ⟨⟨(-(1 : α)), (0 : α), (0 : α)⟩, t504⟩, ⟨⟨t466, t466, t467⟩, t44⟩, ⟨⟨(0 : α), (0 : α), (-(1 : α))⟩, f⟩)
            else
              (⟨⟨t512, t513, t512⟩, t⟩, ⟨⟨(1 : α), (0 : α), (0 : α)⟩, r⟩, ⟨⟨t508, t509, t508⟩, t502⟩, ⟨⟨(-(1 : α)), (0 : α), (0 : α)⟩, t504⟩, ⟨⟨t466, t466, t467⟩, t44⟩, ⟨⟨t83, t83, t84⟩, f⟩)
        else
          if t465 = (0 : α) then
            if t53 = (0 : α) then
              (⟨⟨t512, t513, t512⟩, t⟩, ⟨⟨(1 : α), (0 : α), (0 : α)⟩, r⟩, ⟨⟨t508, t509, t508⟩, t502⟩, ⟨⟨t506, t507, t507⟩, t504⟩, ⟨⟨(0 : α), (0 : α), (1 : α)⟩, t44⟩, ⟨⟨(0 : α), (0 : α), (-(1 : α))⟩, f⟩)
            else
              (⟨⟨t512, t513, t512⟩, t⟩, ⟨⟨(1 : α), (0 : α), (0 : α)⟩, r⟩, ⟨⟨t508, t509, t508⟩, t502⟩, ⟨⟨t506, t507, t507⟩, t504⟩, ⟨⟨(0 : α), (0 : α), (1 : α)⟩, t44⟩, ⟨⟨t83, t83, t84⟩, f⟩)
          else
            if t53 = (0 : α) then
              (⟨⟨t512, t513, t512⟩, t⟩, ⟨⟨(1 : α), (0 : α), (0 : α)⟩, r⟩, ⟨⟨t508, t509, t508⟩, t502⟩, ⟨⟨t506, t507, t507⟩, t504⟩, ⟨⟨t466, t466, t467⟩, t44⟩, ⟨⟨(0 : α), (0 : α), (-(1 : α))⟩, f⟩)
            else
              (⟨⟨t512, t513, t512⟩, t⟩, ⟨⟨(1 : α), (0 : α), (0 : α)⟩, r⟩, ⟨⟨t508, t509, t508⟩, t502⟩, ⟨⟨t506, t507, t507⟩, t504⟩, ⟨⟨t466, t466, t467⟩, t44⟩, ⟨⟨t83, t83, t84⟩, f⟩)
    else
      if t503 = (0 : α) then
        if t505 = (0 : α) then
          if t465 = (0 : α) then
            if t53 = (0 : α) then
              (⟨⟨t512, t513, t512⟩, t⟩, ⟨⟨t510, t511, t511⟩, r⟩, ⟨⟨(0 : α), (-(1 : α)), (0 : α)⟩, t502⟩, ⟨⟨(-(1 : α)), (0 : α), (0 : α)⟩, t504⟩, ⟨⟨(0 : α), (0 : α), (1 : α)⟩, t44⟩, ⟨⟨(0 : α), (0 : α), (-(1 : α))⟩, f⟩)
            else
              (⟨⟨t512, t513, t512⟩, t⟩, ⟨⟨t510, t511, t511⟩, r⟩, ⟨⟨(0 : α), (-(1 : α)), (0 : α)⟩, t502⟩, ⟨⟨(-(1 : α)), (0 : α), (0 : α)⟩, t504⟩, ⟨⟨(0 : α), (0 : α), (1 : α)⟩, t44⟩, ⟨⟨t83, t83, t84⟩, f⟩)
          else
            if t53 = (0 : α) then
              (⟨⟨t512, t513, t512⟩, t⟩, ⟨⟨t510, t511, t511⟩, r⟩, ⟨⟨(0 : α), (-(1 : α)), (0 : α)⟩, t502⟩, ⟨⟨(-(1 : α)), (0 : α), (0 : α)⟩, t504⟩, ⟨⟨t466, t466, t467⟩, t44⟩, ⟨⟨(0 : α), (0 : α), (-(1 : α))⟩, f⟩)
            else
              (⟨⟨t512, t513, t512⟩, t⟩, ⟨⟨t510, t511, t511⟩, r⟩, ⟨⟨(0 : α), (-(1 : α)), (0 : α)⟩, t502⟩, ⟨⟨(-(1 : α)), (0 : α), (0 : α)⟩, t504⟩, ⟨⟨t466, t466, t467⟩, t44⟩, ⟨⟨t83, t83, t84⟩, f⟩)
        else
          if t465 = (0 : α) then
            if t53 = (0 : α) then
              (⟨⟨t512, t513, t512⟩, t⟩, ⟨⟨t510, t511, t511⟩, r⟩, ⟨⟨(0 : α), (-(1 : α)), (0 : α)⟩, t502⟩, ⟨⟨t506, t507, t507⟩, t504⟩, ⟨⟨(0 : α), (0 : α), (1 : α)⟩, t44⟩, ⟨⟨(0 : α), (0 : α), (-(1 : α))⟩, f⟩)
            else
              (⟨⟨t512, t513, t512⟩, t⟩, ⟨⟨t510, t511, t511⟩, r⟩, ⟨⟨(0 : α), (-(1 : α)), (0 : α)⟩, t502⟩, ⟨⟨t506, t507, t507⟩, t504⟩, ⟨⟨(0 : α), (0 : α), (1 : α)⟩, t44⟩, ⟨⟨t83, t83, t84⟩, f⟩)
          else
            if t53 = (0 : α) then
              (⟨⟨t512, t513, t512⟩, t⟩, ⟨⟨t510, t511, t511⟩, r⟩, ⟨⟨(0 : α), (-(1 : α)), (0 : α)⟩, t502⟩, ⟨⟨t506, t507, t507⟩, t504⟩, ⟨⟨t466, t466, t467⟩, t44⟩, ⟨⟨(0 : α), (0 : α), (-(1 : α))⟩, f⟩)
            else
              (⟨⟨t512, t513, t512⟩, t⟩, ⟨⟨t510, t511, t511⟩, r⟩, ⟨⟨(0 : α), (-(1 : α)), (0 : α)⟩, t502⟩, ⟨⟨t506, t507, t507⟩, t504⟩, ⟨⟨t466, t466, t467⟩, t44⟩, ⟨⟨t83, t83, t84⟩, f⟩)
      else
        if t505 = (0 : α) then
          if t465 = (0 : α) then
            if t53 = (0 : α) then
              (⟨⟨t512, t513, t512⟩, t⟩, ⟨⟨t510, t511, t511⟩, r⟩, ⟨⟨t508, t509, t508⟩, t502⟩, ⟨⟨(-(1 : α)), (0 : α), (0 : α)⟩, t504⟩, ⟨⟨(0 : α), (0 : α), (1 : α)⟩, t44⟩, ⟨⟨(0 : α), (0 : α), (-(1 : α))⟩, f⟩)
            else
              (⟨⟨t512, t513, t512⟩, t⟩, ⟨⟨t510, t511, t511⟩, r⟩, ⟨⟨t508, t509, t508⟩, t502⟩, ⟨⟨(-(1 : α)), (0 : α), (0 : α)⟩, t504⟩, ⟨⟨(0 : α), (0 : α), (1 : α)⟩, t44⟩, ⟨⟨t83, t83, t84⟩, f⟩)
          else
            if t53 = (0 : α) then
              (⟨⟨t512, t513, t512⟩, t⟩, ⟨⟨t510, t511, t511⟩, r⟩, ⟨⟨t508, t509, t508⟩, t502⟩, ⟨⟨(-(1 : α)), (0 : α), (0 : α)⟩, t504⟩, ⟨⟨t466, t466, t467⟩, t44⟩, ⟨⟨(0 : α), (0 : α), (-(1 : α))⟩, f⟩)
            else
              (⟨⟨t512, t513, t512⟩, t⟩, ⟨⟨t510, t511, t511⟩, r⟩, ⟨⟨t508, t509, t508⟩, t502⟩, ⟨⟨(-(1 : α)), (0 : α), (0 : α)⟩, t504⟩, ⟨⟨t466, t466, t467⟩, t44⟩, ⟨⟨t83, t83, t84⟩, f⟩)
        else
          if t465 = (0 : α) then
            if t53 = (0 : α) then
              (⟨⟨t512, t513, t512⟩, t⟩, ⟨⟨t510, t511, t511⟩, r⟩, ⟨⟨t508, t509, t508⟩, t502⟩, ⟨⟨t506, t507, t507⟩, t504⟩, ⟨⟨(0 : α), (0 : α), (1 : α)⟩, t44⟩, ⟨⟨(0 : α), (0 : α), (-(1 : α))⟩, f⟩)
            else
              (⟨⟨t512, t513, t512⟩, t⟩, ⟨⟨t510, t511, t511⟩, r⟩, ⟨⟨t508, t509, t508⟩, t502⟩, ⟨⟨t506, t507, t507⟩, t504⟩, ⟨⟨(0 : α), (0 : α), (1 : α)⟩, t44⟩, ⟨⟨t83, t83, t84⟩, f⟩)
          else
            if t53 = (0 : α) then
              (⟨⟨t512, t513, t512⟩, t⟩, ⟨⟨t510, t511, t511⟩, r⟩, ⟨⟨t508, t509, t508⟩, t502⟩, ⟨⟨t506, t507, t507⟩, t504⟩, ⟨⟨t466, t466, t467⟩, t44⟩, ⟨⟨(0 : α), (0 : α), (-(1 : α))⟩, f⟩)
            else
              (⟨⟨t512, t513, t512⟩, t⟩, ⟨⟨t510, t511, t511⟩, r⟩, ⟨⟨t508, t509, t508⟩, t502⟩, ⟨⟨t506, t507, t507⟩, t504⟩, ⟨⟨t466, t466, t467⟩, t44⟩, ⟨⟨t83, t83, t84⟩, f⟩)

end ImathVerif.Gen
