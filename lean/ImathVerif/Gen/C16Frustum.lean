-- GENERATED from /repo/src/Imath by harness/sym (T = Sym path extraction); do not edit.
import ImathVerif.Basic.Types
import ImathVerif.Gen.Leaf
set_option linter.unusedVariables false
namespace ImathVerif.Gen
open ImathVerif

/-- extracted from the C++ template at T = Sym; 1 path(s) -/
def Frustum.ctor_persp {α : Type} (n : α) (f : α) (l : α) (r : α) (t : α) (b : α) : (α × α × α × α × α × α × Bool) :=
  (n, f, l, r, t, b, false)

/-- extracted from the C++ template at T = Sym; 1 path(s) -/
def Frustum.ctor_ortho {α : Type} (n : α) (f : α) (l : α) (r : α) (t : α) (b : α) : (α × α × α × α × α × α × Bool) :=
  (n, f, l, r, t, b, true)

/-- extracted from the C++ template at T = Sym; 1 path(s) -/
def Frustum.set_persp {α : Type} (n : α) (f : α) (l : α) (r : α) (t : α) (b : α) (n2 : α) (f2 : α) (l2 : α) (r2 : α) (t2 : α) (b2 : α) : (α × α × α × α × α × α × Bool) :=
  (n2, f2, l2, r2, t2, b2, false)

/-- extracted from the C++ template at T = Sym; 1 path(s) -/
def Frustum.set_ortho {α : Type} (n : α) (f : α) (l : α) (r : α) (t : α) (b : α) (n2 : α) (f2 : α) (l2 : α) (r2 : α) (t2 : α) (b2 : α) : (α × α × α × α × α × α × Bool) :=
  (n2, f2, l2, r2, t2, b2, true)

/-- extracted from the C++ template at T = Sym; 4 path(s) -/
def Frustum.degenerate_persp {α : Type} [DecidableEq α] (n : α) (f : α) (l : α) (r : α) (t : α) (b : α) : Bool :=
  if n = f then
    true
  else
    if l = r then
      true
    else
      if t = b then
        true
      else
        false

/-- extracted from the C++ template at T = Sym; 4 path(s) -/
def Frustum.degenerate_ortho {α : Type} [DecidableEq α] (n : α) (f : α) (l : α) (r : α) (t : α) (b : α) : Bool :=
  if n = f then
    true
  else
    if l = r then
      true
    else
      if t = b then
        true
      else
        false

/-- extracted from the C++ template at T = Sym; 2 path(s) -/
def Frustum.setFov_persp {α : Type} [Sub α] [Mul α] [Div α] [Neg α] [DecidableEq α] [OfNat α 0] [OfNat α 2] (tan : α → α) (n : α) (f : α) (l : α) (r : α) (t : α) (b : α) (nearPlane : α) (farPlane : α) (fovx : α) (fovy : α) (aspect : α) : (α × α × α × α × α × α × Bool) :=
  let t21 := (nearPlane * (tan (fovy / (2 : α))))
  let t22 := (-t21)
  let t25 := (((t21 - t22) * aspect) / (2 : α))
  let t29 := (nearPlane * (tan (fovx / (2 : α))))
  let t30 := (-t29)
  let t33 := (((t29 - t30) / aspect) / (2 : α))
  if fovx = (0 : α) then
    (nearPlane, farPlane, (-t25), t25, t21, t22, false)
  else
    (nearPlane, farPlane, t30, t29, t33, (-t33), false)

/-- extracted from the C++ template at T = Sym; 2 path(s) -/
def Frustum.setFov_ortho {α : Type} [Sub α] [Mul α] [Div α] [Neg α] [DecidableEq α] [OfNat α 0] [OfNat α 2] (tan : α → α) (n : α) (f : α) (l : α) (r : α) (t : α) (b : α) (nearPlane : α) (farPlane : α) (fovx : α) (fovy : α) (aspect : α) : (α × α × α × α × α × α × Bool) :=
  let t21 := (nearPlane * (tan (fovy / (2 : α))))
  let t22 := (-t21)
  let t25 := (((t21 - t22) * aspect) / (2 : α))
  let t29 := (nearPlane * (tan (fovx / (2 : α))))
  let t30 := (-t29)
  let t33 := (((t29 - t30) / aspect) / (2 : α))
  if fovx = (0 : α) then
    (nearPlane, farPlane, (-t25), t25, t21, t22, false)
  else
    (nearPlane, farPlane, t30, t29, t33, (-t33), false)

/-- extracted from the C++ template at T = Sym; 2 path(s) -/
def Frustum.ctorFov {α : Type} [Sub α] [Mul α] [Div α] [Neg α] [DecidableEq α] [OfNat α 0] [OfNat α 2] (tan : α → α) (nearPlane : α) (farPlane : α) (fovx : α) (fovy : α) (aspect : α) : (α × α × α × α × α × α × Bool) :=
  let t21 := (nearPlane * (tan (fovy / (2 : α))))
  let t22 := (-t21)
  let t25 := (((t21 - t22) * aspect) / (2 : α))
  let t29 := (nearPlane * (tan (fovx / (2 : α))))
  let t30 := (-t29)
  let t33 := (((t29 - t30) / aspect) / (2 : α))
  if fovx = (0 : α) then
    (nearPlane, farPlane, (-t25), t25, t21, t22, false)
  else
    (nearPlane, farPlane, t30, t29, t33, (-t33), false)

/-- extracted from the C++ template at T = Sym; 1 path(s) -/
def Frustum.fovx_persp {α : Type} [Sub α] (atan2 : α → α → α) (n : α) (f : α) (l : α) (r : α) (t : α) (b : α) : α :=
  ((atan2 r n) - (atan2 l n))

/-- extracted from the C++ template at T = Sym; 1 path(s) -/
def Frustum.fovy_persp {α : Type} [Sub α] (atan2 : α → α → α) (n : α) (f : α) (l : α) (r : α) (t : α) (b : α) : α :=
  ((atan2 t n) - (atan2 b n))

/-- extracted from the C++ template at T = Sym; 1 path(s) -/
def Frustum.aspect_persp {α : Type} [Sub α] [Div α] (n : α) (f : α) (l : α) (r : α) (t : α) (b : α) : α :=
  ((r - l) / (t - b))

/-- extracted from the C++ template at T = Sym; 1 path(s) -/
def Frustum.fovx_ortho {α : Type} [Sub α] (atan2 : α → α → α) (n : α) (f : α) (l : α) (r : α) (t : α) (b : α) : α :=
  ((atan2 r n) - (atan2 l n))

/-- extracted from the C++ template at T = Sym; 1 path(s) -/
def Frustum.fovy_ortho {α : Type} [Sub α] (atan2 : α → α → α) (n : α) (f : α) (l : α) (r : α) (t : α) (b : α) : α :=
  ((atan2 t n) - (atan2 b n))

/-- extracted from the C++ template at T = Sym; 1 path(s) -/
def Frustum.aspect_ortho {α : Type} [Sub α] [Div α] (n : α) (f : α) (l : α) (r : α) (t : α) (b : α) : α :=
  ((r - l) / (t - b))

/-- extracted from the C++ template at T = Sym; 32 path(s) -/
def Frustum.modifyNearAndFar_persp {α : Type} [Add α] [Sub α] [Mul α] [Div α] [Neg α] [LT α] [LE α] [DecidableLT α] [DecidableLE α] [DecidableEq α] [OfNat α 0] [OfNat α 1] [OfNat α 2] (tmin : α) (tmax : α) (sqrt : α → α) (n : α) (f : α) (l : α) (r : α) (t : α) (b : α) (n2 : α) (f2 : α) : (α × α × α × α × α × α × Bool) :=
  let t45 := ((-n) - (0 : α))
  let t46 := (b - (0 : α))
  let t47 := (l - (0 : α))
  let t48 := (V3.length tmin tmax sqrt ⟨t47, t46, t45⟩)
  let t49 := (t - (0 : α))
  let t50 := (r - (0 : α))
  let t51 := (V3.length tmin tmax sqrt ⟨t50, t49, t45⟩)
  let t53 := (V3.length tmin tmax sqrt ⟨(0 : α), (0 : α), (-(1 : α))⟩)
  let t54 := ((-(1 : α)) * t45)
  let t58 := ((((0 : α) * t47) + ((0 : α) * t46)) + t54)
  let t62 := ((((0 : α) * t50) + ((0 : α) * t49)) + t54)
  let t64 := ((0 : α) * (0 : α))
  let t68 := (-(((t64 + t64) + ((-(1 : α)) * (0 : α))) - n2))
  let t69 := (t68 / t62)
  let t74 := ((0 : α) + (t49 * t69))
  let t75 := ((0 : α) + (t50 * t69))
  let t76 := (t68 / t58)
  let t81 := ((0 : α) + (t46 * t76))
  let t82 := ((0 : α) + (t47 * t76))
  let t83 := ((0 : α) / t53)
  let t84 := ((-(1 : α)) / t53)
  let t85 := (t84 * t45)
  let t89 := (((t83 * t47) + (t83 * t46)) + t85)
  let t93 := (((t83 * t50) + (t83 * t49)) + t85)
  let t95 := (t83 * (0 : α))
  let t99 := (-(((t95 + t95) + (t84 * (0 : α))) - n2))
  let t100 := (t99 / t93)
  let t105 := ((0 : α) + (t49 * t100))
  let t106 := ((0 : α) + (t50 * t100))
  let t107 := (t99 / t89)
  let t112 := ((0 : α) + (t46 * t107))
  let t113 := ((0 : α) + (t47 * t107))
  let t114 := (t50 / t51)
  let t115 := (t49 / t51)
  let t116 := (t45 / t51)
  let t121 := ((((0 : α) * t114) + ((0 : α) * t115)) + ((-(1 : α)) * t116))
  let t122 := (t68 / t121)
  let t127 := ((0 : α) + (t115 * t122))
  let t128 := ((0 : α) + (t114 * t122))
  let t133 := (((t83 * t114) + (t83 * t115)) + (t84 * t116))
  let t134 := (t99 / t133)
  let t139 := ((0 : α) + (t115 * t134))
  let t140 := ((0 : α) + (t114 * t134))
  let t141 := (t47 / t48)
  let t142 := (t46 / t48)
  let t143 := (t45 / t48)
  let t148 := ((((0 : α) * t141) + ((0 : α) * t142)) + ((-(1 : α)) * t143))
  let t149 := (t68 / t148)
  let t154 := ((0 : α) + (t142 * t149))
  let t155 := ((0 : α) + (t141 * t149))
  let t160 := (((t83 * t141) + (t83 * t142)) + (t84 * t143))
  let t161 := (t99 / t160)
  let t166 := ((0 : α) + (t142 * t161))
  let t167 := ((0 : α) + (t141 * t161))
  if t48 = (0 : α) then
    if t51 = (0 : α) then
      if t53 = (0 : α) then
        if t58 = (0 : α) then
          if t62 = (0 : α) then
            (n2, f2, (0 : α), (0 : α), (0 : α), (0 : α), false)
          else
            (n2, f2, (0 : α), t75, t74, (0 : α), false)
        else
          if t62 = (0 : α) then
            (n2, f2, t82, (0 : α), (0 : α), t81, false)
          else
            (n2, f2, t82, t75, t74, t81, false)
      else
        if t89 = (0 : α) then
          if t93 = (0 : α) then
            (n2, f2, (0 : α), (0 : α), (0 : α), (0 : α), false)
          else
            (n2, f2, (0 : α), t106, t105, (0 : α), false)
        else
          if t93 = (0 : α) then
            (n2, f2, t113, (0 : α), (0 : α), t112, false)
          else
            (n2, f2, t113, t106, t105, t112, false)
    else
      if t53 = (0 : α) then
        if t58 = (0 : α) then
          if t121 = (0 : α) then
            (n2, f2, (0 : α), (0 : α), (0 : α), (0 : α), false)
          else
            (n2, f2, (0 : α), t128, t127, (0 : α), false)
        else
          if t121 = (0 : α) then
            (n2, f2, t82, (0 : α), (0 : α), t81, false)
          else
            (n2, f2, t82, t128, t127, t81, false)
      else
        if t89 = (0 : α) then
          if t133 = (0 : α) then
            (n2, f2, (0 : α), (0 : α), (0 : α), (0 : α), false)
          else
            (n2, f2, (0 : α), t140, t139, (0 : α), false)
        else
          if t133 = (0 : α) then
            (n2, f2, t113, (0 : α), (0 : α), t112, false)
          else
            (n2, f2, t113, t140, t139, t112, false)
  else
    if t51 = (0 : α) then
      if t53 = (0 : α) then
        if t148 = (0 : α) then
          if t62 = (0 : α) then
            (n2, f2, (0 : α), (0 : α), (0 : α), (0 : α), false)
          else
            (n2, f2, (0 : α), t75, t74, (0 : α), false)
        else
          if t62 = (0 : α) then
            (n2, f2, t155, (0 : α), (0 : α), t154, false)
          else
            (n2, f2, t155, t75, t74, t154, false)
      else
        if t160 = (0 : α) then
          if t93 = (0 : α) then
            (n2, f2, (0 : α), (0 : α), (0 : α), (0 : α), false)
          else
            (n2, f2, (0 : α), t106, t105, (0 : α), false)
        else
          if t93 = (0 : α) then
            (n2, f2, t167, (0 : α), (0 : α), t166, false)
          else
            (n2, f2, t167, t106, t105, t166, false)
    else
      if t53 = (0 : α) then
        if t148 = (0 : α) then
          if t121 = (0 : α) then
            (n2, f2, (0 : α), (0 : α), (0 : α), (0 : α), false)
          else
            (n2, f2, (0 : α), t128, t127, (0 : α), false)
        else
          if t121 = (0 : α) then
            (n2, f2, t155, (0 : α), (0 : α), t154, false)
          else
            (n2, f2, t155, t128, t127, t154, false)
      else
        if t160 = (0 : α) then
          if t133 = (0 : α) then
            (n2, f2, (0 : α), (0 : α), (0 : α), (0 : α), false)
          else
            (n2, f2, (0 : α), t140, t139, (0 : α), false)
        else
          if t133 = (0 : α) then
            (n2, f2, t167, (0 : α), (0 : α), t166, false)
          else
            (n2, f2, t167, t140, t139, t166, false)

/-- extracted from the C++ template at T = Sym; 1 path(s) -/
def Frustum.modifyNearAndFar_ortho {α : Type} (n : α) (f : α) (l : α) (r : α) (t : α) (b : α) (n2 : α) (f2 : α) : (α × α × α × α × α × α × Bool) :=
  (n2, f2, l, r, t, b, true)

/-- extracted from the C++ template at T = Sym; 1 path(s) -/
def Frustum.setOrthographic_persp {α : Type} (n : α) (f : α) (l : α) (r : α) (t : α) (b : α) : (α × α × α × α × α × α × Bool) :=
  (n, f, l, r, t, b, false)

/-- extracted from the C++ template at T = Sym; 1 path(s) -/
def Frustum.setOrthographic_ortho {α : Type} (n : α) (f : α) (l : α) (r : α) (t : α) (b : α) : (α × α × α × α × α × α × Bool) :=
  (n, f, l, r, t, b, true)

/-- extracted from the C++ template at T = Sym; 1 path(s) -/
def Frustum.window_persp {α : Type} [Add α] [Sub α] [Mul α] [Div α] [OfNat α 1] [OfNat α 2] (n : α) (f : α) (l : α) (r : α) (t : α) (b : α) (wl : α) (wr : α) (wt : α) (wb : α) : (α × α × α × α × α × α × Bool) :=
  let t41 := (r - l)
  let t42 := (t - b)
  (n, f, (l + ((t41 * ((1 : α) + wl)) / (2 : α))), (l + ((t41 * ((1 : α) + wr)) / (2 : α))), (b + ((t42 * ((1 : α) + wt)) / (2 : α))), (b + ((t42 * ((1 : α) + wb)) / (2 : α))), false)

/-- extracted from the C++ template at T = Sym; 1 path(s) -/
def Frustum.window_ortho {α : Type} [Add α] [Sub α] [Mul α] [Div α] [OfNat α 1] [OfNat α 2] (n : α) (f : α) (l : α) (r : α) (t : α) (b : α) (wl : α) (wr : α) (wt : α) (wb : α) : (α × α × α × α × α × α × Bool) :=
  let t41 := (r - l)
  let t42 := (t - b)
  (n, f, (l + ((t41 * ((1 : α) + wl)) / (2 : α))), (l + ((t41 * ((1 : α) + wr)) / (2 : α))), (b + ((t42 * ((1 : α) + wt)) / (2 : α))), (b + ((t42 * ((1 : α) + wb)) / (2 : α))), true)

/-- extracted from the C++ template at T = Sym; 1 path(s) -/
def Frustum.projectionMatrix_persp {α : Type} [Add α] [Sub α] [Mul α] [Div α] [Neg α] [OfNat α 0] [OfNat α 1] [OfNat α 2] (n : α) (f : α) (l : α) (r : α) (t : α) (b : α) : (M44 α) :=
  let t41 := (r - l)
  let t42 := (t - b)
  let t192 := (f - n)
  let t201 := ((2 : α) * n)
  ⟨(t201 / t41), (0 : α), (0 : α), (0 : α), (0 : α), (t201 / t42), (0 : α), (0 : α), ((r + l) / t41), ((t + b) / t42), ((-(f + n)) / t192), (-(1 : α)), (0 : α), (0 : α), ((((-(2 : α)) * f) * n) / t192), (0 : α)⟩

/-- extracted from the C++ template at T = Sym; 1 path(s) -/
def Frustum.screenToLocal_persp {α : Type} [Add α] [Sub α] [Mul α] [Div α] [OfNat α 1] [OfNat α 2] (n : α) (f : α) (l : α) (r : α) (t : α) (b : α) (s : V2 α) : (V2 α) :=
  ⟨(l + (((r - l) * ((1 : α) + s.x)) / (2 : α))), (b + (((t - b) * ((1 : α) + s.y)) / (2 : α)))⟩

/-- extracted from the C++ template at T = Sym; 1 path(s) -/
def Frustum.localToScreen_persp {α : Type} [Add α] [Sub α] [Mul α] [Div α] [OfNat α 2] (n : α) (f : α) (l : α) (r : α) (t : α) (b : α) (p : V2 α) : (V2 α) :=
  ⟨(((l - ((2 : α) * p.x)) + r) / (l - r)), (((b - ((2 : α) * p.y)) + t) / (b - t))⟩

/-- extracted from the C++ template at T = Sym; 2 path(s) -/
def Frustum.projectScreenToRay_persp {α : Type} [Add α] [Sub α] [Mul α] [Div α] [Neg α] [LT α] [LE α] [DecidableLT α] [DecidableLE α] [DecidableEq α] [OfNat α 0] [OfNat α 1] [OfNat α 2] (tmin : α) (tmax : α) (sqrt : α → α) (n : α) (f : α) (l : α) (r : α) (t : α) (b : α) (s : V2 α) : (Line3 α) :=
  let t45 := ((-n) - (0 : α))
  let t226 := ((b + (((t - b) * ((1 : α) + s.y)) / (2 : α))) - (0 : α))
  let t227 := ((l + (((r - l) * ((1 : α) + s.x)) / (2 : α))) - (0 : α))
  let t228 := (V3.length tmin tmax sqrt ⟨t227, t226, t45⟩)
  if t228 = (0 : α) then
    ⟨⟨(0 : α), (0 : α), (0 : α)⟩, ⟨t227, t226, t45⟩⟩
  else
    ⟨⟨(0 : α), (0 : α), (0 : α)⟩, ⟨(t227 / t228), (t226 / t228), (t45 / t228)⟩⟩

/-- extracted from the C++ template at T = Sym; 2 path(s) -/
def Frustum.projectPointToScreen_persp {α : Type} [Add α] [Sub α] [Mul α] [Div α] [Neg α] [DecidableEq α] [OfNat α 0] [OfNat α 2] (n : α) (f : α) (l : α) (r : α) (t : α) (b : α) (p : V3 α) : (V2 α) :=
  let t219 := (l - r)
  let t223 := (b - t)
  let t233 := (-p.z)
  if p.z = (0 : α) then
    ⟨(((l - ((2 : α) * p.x)) + r) / t219), (((b - ((2 : α) * p.y)) + t) / t223)⟩
  else
    ⟨(((l - ((2 : α) * ((p.x * n) / t233))) + r) / t219), (((b - ((2 : α) * ((p.y * n) / t233))) + t) / t223)⟩

/-- extracted from the C++ template at T = Sym; 1 path(s) -/
def Frustum.normalizedZToDepth_persp {α : Type} [Sub α] [Mul α] [Div α] [OfNat α 1] [OfNat α 2] (n : α) (f : α) (l : α) (r : α) (t : α) (b : α) (zval : α) : α :=
  ((((2 : α) * f) * n) / (((((zval * (2 : α)) - (1 : α)) * (f - n)) - f) - n))

/-- extracted from the C++ template at T = Sym; 1 path(s) -/
def Frustum.screenRadius_persp {α : Type} [Mul α] [Div α] [Neg α] (n : α) (f : α) (l : α) (r : α) (t : α) (b : α) (p : V3 α) (radius : α) : α :=
  (radius * ((-n) / p.z))

/-- extracted from the C++ template at T = Sym; 1 path(s) -/
def Frustum.worldRadius_persp {α : Type} [Mul α] [Div α] [Neg α] (n : α) (f : α) (l : α) (r : α) (t : α) (b : α) (p : V3 α) (radius : α) : α :=
  (radius * (p.z / (-n)))

/-- extracted from the C++ template at T = Sym; 1 path(s) -/
def Frustum.projectionMatrix_ortho {α : Type} [Add α] [Sub α] [Div α] [Neg α] [OfNat α 0] [OfNat α 1] [OfNat α 2] (n : α) (f : α) (l : α) (r : α) (t : α) (b : α) : (M44 α) :=
  let t41 := (r - l)
  let t42 := (t - b)
  let t192 := (f - n)
  ⟨((2 : α) / t41), (0 : α), (0 : α), (0 : α), (0 : α), ((2 : α) / t42), (0 : α), (0 : α), (0 : α), (0 : α), ((-(2 : α)) / t192), (0 : α), ((-(r + l)) / t41), ((-(t + b)) / t42), ((-(f + n)) / t192), (1 : α)⟩

/-- extracted from the C++ template at T = Sym; 1 path(s) -/
def Frustum.screenToLocal_ortho {α : Type} [Add α] [Sub α] [Mul α] [Div α] [OfNat α 1] [OfNat α 2] (n : α) (f : α) (l : α) (r : α) (t : α) (b : α) (s : V2 α) : (V2 α) :=
  ⟨(l + (((r - l) * ((1 : α) + s.x)) / (2 : α))), (b + (((t - b) * ((1 : α) + s.y)) / (2 : α)))⟩

/-- extracted from the C++ template at T = Sym; 1 path(s) -/
def Frustum.localToScreen_ortho {α : Type} [Add α] [Sub α] [Mul α] [Div α] [OfNat α 2] (n : α) (f : α) (l : α) (r : α) (t : α) (b : α) (p : V2 α) : (V2 α) :=
  ⟨(((l - ((2 : α) * p.x)) + r) / (l - r)), (((b - ((2 : α) * p.y)) + t) / (b - t))⟩

/-- extracted from the C++ template at T = Sym; 2 path(s) -/
def Frustum.projectScreenToRay_ortho {α : Type} [Add α] [Sub α] [Mul α] [Div α] [Neg α] [LT α] [LE α] [DecidableLT α] [DecidableLE α] [DecidableEq α] [OfNat α 0] [OfNat α 1] [OfNat α 2] (tmin : α) (tmax : α) (sqrt : α → α) (n : α) (f : α) (l : α) (r : α) (t : α) (b : α) (s : V2 α) : (Line3 α) :=
  let t209 := (b + (((t - b) * ((1 : α) + s.y)) / (2 : α)))
  let t213 := (l + (((r - l) * ((1 : α) + s.x)) / (2 : α)))
  let t267 := ((-(1 : α)) - (0 : α))
  let t268 := (t209 - t209)
  let t269 := (t213 - t213)
  let t270 := (V3.length tmin tmax sqrt ⟨t269, t268, t267⟩)
  if t270 = (0 : α) then
    ⟨⟨t213, t209, (0 : α)⟩, ⟨t269, t268, t267⟩⟩
  else
    ⟨⟨t213, t209, (0 : α)⟩, ⟨(t269 / t270), (t268 / t270), (t267 / t270)⟩⟩

/-- extracted from the C++ template at T = Sym; 1 path(s) -/
def Frustum.projectPointToScreen_ortho {α : Type} [Add α] [Sub α] [Mul α] [Div α] [OfNat α 2] (n : α) (f : α) (l : α) (r : α) (t : α) (b : α) (p : V3 α) : (V2 α) :=
  ⟨(((l - ((2 : α) * p.x)) + r) / (l - r)), (((b - ((2 : α) * p.y)) + t) / (b - t))⟩

/-- extracted from the C++ template at T = Sym; 1 path(s) -/
def Frustum.normalizedZToDepth_ortho {α : Type} [Add α] [Sub α] [Mul α] [Div α] [Neg α] [OfNat α 1] [OfNat α 2] (n : α) (f : α) (l : α) (r : α) (t : α) (b : α) (zval : α) : α :=
  ((-((((zval * (2 : α)) - (1 : α)) * (f - n)) + (f + n))) / (2 : α))

/-- extracted from the C++ template at T = Sym; 1 path(s) -/
def Frustum.screenRadius_ortho {α : Type} [Mul α] [Div α] [Neg α] (n : α) (f : α) (l : α) (r : α) (t : α) (b : α) (p : V3 α) (radius : α) : α :=
  (radius * ((-n) / p.z))

/-- extracted from the C++ template at T = Sym; 1 path(s) -/
def Frustum.worldRadius_ortho {α : Type} [Mul α] [Div α] [Neg α] (n : α) (f : α) (l : α) (r : α) (t : α) (b : α) (p : V3 α) (radius : α) : α :=
  (radius * (p.z / (-n)))

/-- extracted from the C++ template at T = Sym; 64 path(s) -/
def Frustum.planes_persp {α : Type} [Add α] [Sub α] [Mul α] [Div α] [Neg α] [LT α] [LE α] [DecidableLT α] [DecidableLE α] [DecidableEq α] [OfNat α 0] [OfNat α 1] [OfNat α 2] (tmin : α) (tmax : α) (sqrt : α → α) (n : α) (f : α) (l : α) (r : α) (t : α) (b : α) : ((Plane3 α) × (Plane3 α) × (Plane3 α) × (Plane3 α) × (Plane3 α) × (Plane3 α)) :=
  let t44 := (-n)
  let t45 := (t44 - (0 : α))
  let t46 := (b - (0 : α))
  let t47 := (l - (0 : α))
  let t49 := (t - (0 : α))
  let t50 := (r - (0 : α))
  let t53 := (V3.length tmin tmax sqrt ⟨(0 : α), (0 : α), (-(1 : α))⟩)
  let t83 := ((0 : α) / t53)
  let t84 := ((-(1 : α)) / t53)
  let t277 := (t49 * t47)
  let t278 := (t50 * t49)
  let t279 := (t278 - t277)
  let t280 := (t50 * t45)
  let t281 := (t45 * t47)
  let t282 := (t281 - t280)
  let t283 := (t45 * t49)
  let t284 := (t49 * t45)
  let t285 := (t284 - t283)
  let t286 := (V3.length tmin tmax sqrt ⟨t285, t282, t279⟩)
  let t291 := (((t285 * (0 : α)) + (t282 * (0 : α))) + (t279 * (0 : α)))
  let t292 := (t46 * t50)
  let t293 := (t278 - t292)
  let t294 := (t45 * t50)
  let t295 := (t294 - t280)
  let t296 := (t46 * t45)
  let t297 := (t296 - t283)
  let t298 := (V3.length tmin tmax sqrt ⟨t297, t295, t293⟩)
  let t303 := (((t297 * (0 : α)) + (t295 * (0 : α))) + (t293 * (0 : α)))
  let t304 := (t47 * t46)
  let t305 := (t304 - t292)
  let t306 := (t47 * t45)
  let t307 := (t294 - t306)
  let t308 := (t45 * t46)
  let t309 := (t296 - t308)
  let t310 := (V3.length tmin tmax sqrt ⟨t309, t307, t305⟩)
  let t315 := (((t309 * (0 : α)) + (t307 * (0 : α))) + (t305 * (0 : α)))
  let t316 := (t304 - t277)
  let t317 := (t281 - t306)
  let t318 := (t284 - t308)
  let t319 := (V3.length tmin tmax sqrt ⟨t318, t317, t316⟩)
  let t324 := (((t318 * (0 : α)) + (t317 * (0 : α))) + (t316 * (0 : α)))
  let t325 := (V3.length tmin tmax sqrt ⟨(0 : α), (0 : α), (1 : α)⟩)
  let t326 := ((0 : α) / t325)
  let t327 := ((1 : α) / t325)
  let t328 := (t318 / t319)
  let t329 := (t317 / t319)
  let t330 := (t316 / t319)
  let t335 := (((t328 * (0 : α)) + (t329 * (0 : α))) + (t330 * (0 : α)))
  let t336 := (t309 / t310)
  let t337 := (t307 / t310)
  let t338 := (t305 / t310)
  let t343 := (((t336 * (0 : α)) + (t337 * (0 : α))) + (t338 * (0 : α)))
  let t344 := (t297 / t298)
  let t345 := (t295 / t298)
  let t346 := (t293 / t298)
  let t351 := (((t344 * (0 : α)) + (t345 * (0 : α))) + (t346 * (0 : α)))
  let t352 := (t285 / t286)
  let t353 := (t282 / t286)
  let t354 := (t279 / t286)
  let t359 := (((t352 * (0 : α)) + (t353 * (0 : α))) + (t354 * (0 : α)))
  if t286 = (0 : α) then
    if t298 = (0 : α) then
      if t310 = (0 : α) then
        if t319 = (0 : α) then
          if t325 = (0 : α) then
            if t53 = (0 : α) then
              (⟨⟨t285, t282, t279⟩, t291⟩, ⟨⟨t297, t295, t293⟩, t303⟩, ⟨⟨t309, t307, t305⟩, t315⟩, ⟨⟨t318, t317, t316⟩, t324⟩, ⟨⟨(0 : α), (0 : α), (1 : α)⟩, t44⟩, ⟨⟨(0 : α), (0 : α), (-(1 : α))⟩, f⟩)
            else
              (⟨⟨t285, t282, t279⟩, t291⟩, ⟨⟨t297, t295, t293⟩, t303⟩, ⟨⟨t309, t307, t305⟩, t315⟩, ⟨⟨t318, t317, t316⟩, t324⟩, ⟨⟨(0 : α), (0 : α), (1 : α)⟩, t44⟩, ⟨⟨t83, t83, t84⟩, f⟩)
          else
            if t53 = (0 : α) then
              (⟨⟨t285, t282, t279⟩, t291⟩, ⟨⟨t297, t295, t293⟩, t303⟩, ⟨⟨t309, t307, t305⟩, t315⟩, ⟨⟨t318, t317, t316⟩, t324⟩, ⟨⟨t326, t326, t327⟩, t44⟩, ⟨⟨(0 : α), (0 : α), (-(1 : α))⟩, f⟩)
            else
              (⟨⟨t285, t282, t279⟩, t291⟩, ⟨⟨t297, t295, t293⟩, t303⟩, ⟨⟨t309, t307, t305⟩, t315⟩, ⟨⟨t318, t317, t316⟩, t324⟩, ⟨⟨t326, t326, t327⟩, t44⟩, ⟨⟨t83, t83, t84⟩, f⟩)
        else
          if t325 = (0 : α) then
            if t53 = (0 : α) then
              (⟨⟨t285, t282, t279⟩, t291⟩, ⟨⟨t297, t295, t293⟩, t303⟩, ⟨⟨t309, t307, t305⟩, t315⟩, ⟨⟨t328, t329, t330⟩, t335⟩, ⟨⟨(0 : α), (0 : α), (1 : α)⟩, t44⟩, ⟨⟨(0 : α), (0 : α), (-(1 : α))⟩, f⟩)
            else
              (⟨⟨t285, t282, t279⟩, t291⟩, ⟨⟨t297, t295, t293⟩, t303⟩, ⟨⟨t309, t307, t305⟩, t315⟩, ⟨⟨t328, t329, t330⟩, t335⟩, ⟨⟨(0 : α), (0 : α), (1 : α)⟩, t44⟩, ⟨⟨t83, t83, t84⟩, f⟩)
          else
            if t53 = (0 : α) then
              (⟨⟨t285, t282, t279⟩, t291⟩, ⟨⟨t297, t295, t293⟩, t303⟩, ⟨⟨t309, t307, t305⟩, t315⟩, ⟨⟨t328, t329, t330⟩, t335⟩, ⟨⟨t326, t326, t327⟩, t44⟩, ⟨⟨(0 : α), (0 : α), (-(1 : α))⟩, f⟩)
            else
              (⟨⟨t285, t282, t279⟩, t291⟩, ⟨⟨t297, t295, t293⟩, t303⟩, ⟨⟨t309, t307, t305⟩, t315⟩, ⟨⟨t328, t329, t330⟩, t335⟩, ⟨⟨t326, t326, t327⟩, t44⟩, ⟨⟨t83, t83, t84⟩, f⟩)
      else
        if t319 = (0 : α) then
          if t325 = (0 : α) then
            if t53 = (0 : α) then
              (⟨⟨t285, t282, t279⟩, t291⟩, ⟨⟨t297, t295, t293⟩, t303⟩, ⟨⟨t336, t337, t338⟩, t343⟩, ⟨⟨t318, t317, t316⟩, t324⟩, ⟨⟨(0 : α), (0 : α), (1 : α)⟩, t44⟩, ⟨⟨(0 : α), (0 : α), (-(1 : α))⟩, f⟩)
            else
              (⟨⟨t285, t282, t279⟩, t291⟩, ⟨⟨t297, t295, t293⟩, t303⟩, ⟨⟨t336, t337, t338⟩, t343⟩, ⟨⟨t318, t317, t316⟩, t324⟩, ⟨⟨(0 : α), (0 : α), (1 : α)⟩, t44⟩, ⟨⟨t83, t83, t84⟩, f⟩)
          else
            if t53 = (0 : α) then
              (⟨⟨t285, t282, t279⟩, t291⟩, ⟨⟨t297, t295, t293⟩, t303⟩, ⟨⟨t336, t337, t338⟩, t343⟩, ⟨⟨t318, t317, t316⟩, t324⟩, ⟨⟨t326, t326, t327⟩, t44⟩, ⟨⟨(0 : α), (0 : α), (-(1 : α))⟩, f⟩)
            else
              (⟨⟨t285, t282, t279⟩, t291⟩, ⟨⟨t297, t295, t293⟩, t303⟩, ⟨⟨t336, t337, t338⟩, t343⟩, ⟨⟨t318, t317, t316⟩, t324⟩, ⟨⟨t326, t326, t327⟩, t44⟩, ⟨⟨t83, t83, t84⟩, f⟩)
        else
          if t325 = (0 : α) then
            if t53 = (0 : α) then
              (⟨⟨t285, t282, t279⟩, t291⟩, ⟨⟨t297, t295, t293⟩, t303⟩, ⟨⟨t336, t337, t338⟩, t343⟩, ⟨⟨t328, t329, t330⟩, t335⟩, ⟨⟨(0 : α), (0 : α), (1 : α)⟩, t44⟩, ⟨⟨(0 : α), (0 : α), (-(1 : α))⟩, f⟩)
            else
              (⟨⟨t285, t282, t279⟩, t291⟩, ⟨⟨t297, t295, t293⟩, t303⟩, ⟨⟨t336, t337, t338⟩, t343⟩, ⟨⟨t328, t329, t330⟩, t335⟩, ⟨⟨(0 : α), (0 : α), (1 : α)⟩, t44⟩, ⟨⟨t83, t83, t84⟩, f⟩)
          else
            if t53 = (0 : α) then
              (⟨⟨t285, t282, t279⟩, t291⟩, ⟨⟨t297, t295, t293⟩, t303⟩, ⟨⟨t336, t337, t338⟩, t343⟩, ⟨⟨t328, t329, t330⟩, t335⟩, ⟨⟨t326, t326, t327⟩, t44⟩, ⟨⟨(0 : α), (0 : α), (-(1 : α))⟩, f⟩)
            else
              (⟨⟨t285, t282, t279⟩, t291⟩, ⟨⟨t297, t295, t293⟩, t303⟩, ⟨⟨t336, t337, t338⟩, t343⟩, ⟨⟨t328, t329, t330⟩, t335⟩, ⟨⟨t326, t326, t327⟩, t44⟩, ⟨⟨t83, t83, t84⟩, f⟩)
    else
      if t310 = (0 : α) then
        if t319 = (0 : α) then
          if t325 = (0 : α) then
            if t53 = (0 : α) then
              (⟨⟨t285, t282, t279⟩, t291⟩, ⟨⟨t344, t345, t346⟩, t351⟩, ⟨⟨t309, t307, t305⟩, t315⟩, ⟨⟨t318, t317, t316⟩, t324⟩, ⟨⟨(0 : α), (0 : α), (1 : α)⟩, t44⟩, ⟨⟨(0 : α), (0 : α), (-(1 : α))⟩, f⟩)
            else
              (⟨⟨t285, t282, t279⟩, t291⟩, ⟨⟨t344, t345, t346⟩, t351⟩, ⟨⟨t309, t307, t305⟩, t315⟩, ⟨⟨t318, t317, t316⟩, t324⟩, ⟨⟨(0 : α), (0 : α), (1 : α)⟩, t44⟩, ⟨⟨t83, t83, t84⟩, f⟩)
          else
            if t53 = (0 : α) then
              (⟨⟨t285, t282, t279⟩, t291⟩, ⟨⟨t344, t345, t346⟩, t351⟩, ⟨⟨t309, t307, t305⟩, t315⟩, ⟨⟨t318, t317, t316⟩, t324⟩, ⟨⟨t326, t326, t327⟩, t44⟩, ⟨⟨(0 : α), (0 : α), (-(1 : α))⟩, f⟩)
            else
              (⟨⟨t285, t282, t279⟩, t291⟩, ⟨⟨t344, t345, t346⟩, t351⟩, ⟨⟨t309, t307, t305⟩, t315⟩, ⟨⟨t318, t317, t316⟩, t324⟩, ⟨⟨t326, t326, t327⟩, t44⟩, ⟨⟨t83, t83, t84⟩, f⟩)
        else
          if t325 = (0 : α) then
            if t53 = (0 : α) then
              (⟨⟨t285, t282, t279⟩, t291⟩, ⟨⟨t344, t345, t346⟩, t351⟩, ⟨⟨t309, t307, t305⟩, t315⟩, ⟨⟨t328, t329, t330⟩, t335⟩, ⟨⟨(0 : α), (0 : α), (1 : α)⟩, t44⟩, ⟨⟨(0 : α), (0 : α), (-(1 : α))⟩, f⟩)
            else
              (⟨⟨t285, t282, t279⟩, t291⟩, ⟨⟨t344, t345, t346⟩, t351⟩, ⟨⟨t309, t307, t305⟩, t315⟩, ⟨⟨t328, t329, t330⟩, t335⟩, ⟨⟨(0 : α), (0 : α), (1 : α)⟩, t44⟩, ⟨⟨t83, t83, t84⟩, f⟩)
          else
            if t53 = (0 : α) then
              (⟨⟨t285, t282, t279⟩, t291⟩, ⟨⟨t344, t345, t346⟩, t351⟩, ⟨⟨t309, t307, t305⟩, t315⟩, ⟨⟨t328, t329, t330⟩, t335⟩, ⟨⟨t326, t326, t327⟩, t44⟩, ⟨⟨(0 : α), (0 : α), (-(1 : α))⟩, f⟩)
            else
              (⟨⟨t285, t282, t279⟩, t291⟩, ⟨⟨t344, t345, t346⟩, t351⟩, ⟨⟨t309, t307, t305⟩, t315⟩, ⟨⟨t328, t329, t330⟩, t335⟩, ⟨⟨t326, t326, t327⟩, t44⟩, ⟨⟨t83, t83, t84⟩, f⟩)
      else
        if t319 = (0 : α) then
          if t325 = (0 : α) then
            if t53 = (0 : α) then
              (⟨⟨t285, t282, t279⟩, t291⟩, ⟨⟨t344, t345, t346⟩, t351⟩, ⟨⟨t336, t337, t338⟩, t343⟩, ⟨⟨t318, t317, t316⟩, t324⟩, ⟨⟨(0 : α), (0 : α), (1 : α)⟩, t44⟩, ⟨⟨(0 : α), (0 : α), (-(1 : α))⟩, f⟩)
            else
              (⟨⟨t285, t282, t279⟩, t291⟩, ⟨⟨t344, t345, t346⟩, t351⟩, ⟨⟨t336, t337, t338⟩, t343⟩, ⟨⟨t318, t317, t316⟩, t324⟩, ⟨⟨(0 : α), (0 : α), (1 : α)⟩, t44⟩, ⟨⟨t83, t83, t84⟩, f⟩)
          else
            if t53 = (0 : α) then
              (⟨⟨t285, t282, t279⟩, t291⟩, ⟨⟨t344, t345, t346⟩, t351⟩, ⟨⟨t336, t337, t338⟩, t343⟩, ⟨⟨t318, t317, t316⟩, t324⟩, ⟨⟨t326, t326, t327⟩, t44⟩, ⟨⟨(0 : α), (0 : α), (-(1 : α))⟩, f⟩)
            else
              (⟨⟨t285, t282, t279⟩, t291⟩, ⟨⟨t344, t345, t346⟩, t351⟩, ⟨⟨t336, t337, t338⟩, t343⟩, ⟨⟨t318, t317, t316⟩, t324⟩, ⟨⟨t326, t326, t327⟩, t44⟩, ⟨⟨t83, t83, t84⟩, f⟩)
        else
          if t325 = (0 : α) then
            if t53 = (0 : α) then
              (⟨⟨t285, t282, t279⟩, t291⟩, ⟨⟨t344, t345, t346⟩, t351⟩, ⟨⟨t336, t337, t338⟩, t343⟩, ⟨⟨t328, t329, t330⟩, t335⟩, ⟨⟨(0 : α), (0 : α), (1 : α)⟩, t44⟩, ⟨⟨(0 : α), (0 : α), (-(1 : α))⟩, f⟩)
            else
              (⟨⟨t285, t282, t279⟩, t291⟩, ⟨⟨t344, t345, t346⟩, t351⟩, ⟨⟨t336, t337, t338⟩, t343⟩, ⟨⟨t328, t329, t330⟩, t335⟩, ⟨⟨(0 : α), (0 : α), (1 : α)⟩, t44⟩, ⟨⟨t83, t83, t84⟩, f⟩)
          else
            if t53 = (0 : α) then
              (⟨⟨t285, t282, t279⟩, t291⟩, ⟨⟨t344, t345, t346⟩, t351⟩, ⟨⟨t336, t337, t338⟩, t343⟩, ⟨⟨t328, t329, t330⟩, t335⟩, ⟨⟨t326, t326, t327⟩, t44⟩, ⟨⟨(0 : α), (0 : α), (-(1 : α))⟩, f⟩)
            else
              (⟨⟨t285, t282, t279⟩, t291⟩, ⟨⟨t344, t345, t346⟩, t351⟩, ⟨⟨t336, t337, t338⟩, t343⟩, ⟨⟨t328, t329, t330⟩, t335⟩, ⟨⟨t326, t326, t327⟩, t44⟩, ⟨⟨t83, t83, t84⟩, f⟩)
  else
    if t298 = (0 : α) then
      if t310 = (0 : α) then
        if t319 = (0 : α) then
          if t325 = (0 : α) then
            if t53 = (0 : α) then
              (⟨⟨t352, t353, t354⟩, t359⟩, ⟨⟨t297, t295, t293⟩, t303⟩, ⟨⟨t309, t307, t305⟩, t315⟩, ⟨⟨t318, t317, t316⟩, t324⟩, ⟨⟨(0 : α), (0 : α), (1 : α)⟩, t44⟩, ⟨⟨(0 : α), (0 : α), (-(1 : α))⟩, f⟩)
            else
              (⟨⟨t352, t353, t354⟩, t359⟩, ⟨⟨t297, t295, t293⟩, t303⟩, ⟨⟨t309, t307, t305⟩, t315⟩, ⟨⟨t318, t317, t316⟩, t324⟩, ⟨⟨(0 : α), (0 : α), (1 : α)⟩, t44⟩, ⟨⟨t83, t83, t84⟩, f⟩)
          else
            if t53 = (0 : α) then
              (⟨⟨t352, t353, t354⟩, t359⟩, ⟨⟨t297, t295, t293⟩, t303⟩, ⟨⟨t309, t307, t305⟩, t315⟩, ⟨⟨t318, t317, t316⟩, t324⟩, ⟨⟨t326, t326, t327⟩, t44⟩, ⟨⟨(0 : α), (0 : α), (-(1 : α))⟩, f⟩)
            else
              (⟨⟨t352, t353, t354⟩, t359⟩, ⟨⟨t297, t295, t293⟩, t303⟩, ⟨⟨t309, t307, t305⟩, t315⟩, ⟨⟨t318, t317, t316⟩, t324⟩, ⟨⟨t326, t326, t327⟩, t44⟩, ⟨⟨t83, t83, t84⟩, f⟩)
        else
          if t325 = (0 : α) then
            if t53 = (0 : α) then
              (⟨⟨t352, t353, t354⟩, t359⟩, ⟨⟨t297, t295, t293⟩, t303⟩, ⟨⟨t309, t307, t305⟩, t315⟩, ⟨⟨t328, t329, t330⟩, t335⟩, ⟨⟨(0 : α), (0 : α), (1 : α)⟩, t44⟩, ⟨⟨(0 : α), (0 : α), (-(1 : α))⟩, f⟩)
            else
              (⟨⟨t352, t353, t354⟩, t359⟩, ⟨⟨t297, t295, t293⟩, t303⟩, ⟨⟨t309, t307, t305⟩, t315⟩, ⟨⟨t328, t329, t330⟩, t335⟩, ⟨⟨(0 : α), (0 : α), (1 : α)⟩, t44⟩, ⟨⟨t83, t83, t84⟩, f⟩)
          else
            if t53 = (0 : α) then
              (⟨⟨t352, t353, t354⟩, t359⟩, ⟨⟨t297, t295, t293⟩, t303⟩, ⟨⟨t309, t307, t305⟩, t315⟩, ⟨⟨t328, t329, t330⟩, t335⟩, ⟨⟨t326, t326, t327⟩, t44⟩, ⟨⟨(0 : α), (0 : α), (-(1 : α))⟩, f⟩)
            else
              (⟨⟨t352, t353, t354⟩, t359⟩, ⟨⟨t297, t295, t293⟩, t303⟩, ⟨⟨t309, t307, t305⟩, t315⟩, ⟨⟨t328, t329, t330⟩, t335⟩, ⟨⟨t326, t326, t327⟩, t44⟩, ⟨⟨t83, t83, t84⟩, f⟩)
      else
        if t319 = (0 : α) then
          if t325 = (0 : α) then
            if t53 = (0 : α) then
              (⟨⟨t352, t353, t354⟩, t359⟩, ⟨⟨t297, t295, t293⟩, t303⟩, ⟨⟨t336, t337, t338⟩, t343⟩, ⟨⟨t318, t317, t316⟩, t324⟩, ⟨⟨(0 : α), (0 : α), (1 : α)⟩, t44⟩, ⟨⟨(0 : α), (0 : α), (-(1 : α))⟩, f⟩)
            else
              (⟨⟨t352, t353, t354⟩, t359⟩, ⟨⟨t297, t295, t293⟩, t303⟩, ⟨⟨t336, t337, t338⟩, t343⟩, ⟨⟨t318, t317, t316⟩, t324⟩, ⟨⟨(0 : α), (0 : α), (1 : α)⟩, t44⟩, ⟨⟨t83, t83, t84⟩, f⟩)
          else
            if t53 = (0 : α) then
              (⟨⟨t352, t353, t354⟩, t359⟩, ⟨⟨t297, t295, t293⟩, t303⟩, ⟨⟨t336, t337, t338⟩, t343⟩, ⟨⟨t318, t317, t316⟩, t324⟩, ⟨⟨t326, t326, t327⟩, t44⟩, ⟨⟨(0 : α), (0 : α), (-(1 : α))⟩, f⟩)
            else
              (⟨⟨t352, t353, t354⟩, t359⟩, ⟨⟨t297, t295, t293⟩, t303⟩, ⟨⟨t336, t337, t338⟩, t343⟩, ⟨⟨t318, t317, t316⟩, t324⟩, ⟨⟨t326, t326, t327⟩, t44⟩, ⟨⟨t83, t83, t84⟩, f⟩)
        else
          if t325 = (0 : α) then
            if t53 = (0 : α) then
              (⟨⟨t352, t353, t354⟩, t359⟩, ⟨⟨t297, t295, t293⟩, t303⟩, ⟨⟨t336, t337, t338⟩, t343⟩, ⟨⟨t328, t329, t330⟩, t335⟩, ⟨⟨(0 : α), (0 : α), (1 : α)⟩, t44⟩, ⟨⟨(0 : α), (0 : α), (-(1 : α))⟩, f⟩)
            else
              (⟨⟨t352, t353, t354⟩, t359⟩, ⟨⟨t297, t295, t293⟩, t303⟩, ⟨⟨t336, t337, t338⟩, t343⟩, ⟨⟨t328, t329, t330⟩, t335⟩, ⟨⟨(0 : α), (0 : α), (1 : α)⟩, t44⟩, ⟨⟨t83, t83, t84⟩, f⟩)
          else
            if t53 = (0 : α) then
              (⟨⟨t352, t353, t354⟩, t359⟩, ⟨⟨t297, t295, t293⟩, t303⟩, ⟨⟨t336, t337, t338⟩, t343⟩, ⟨⟨t328, t329, t330⟩, t335⟩, ⟨⟨t326, t326, t327⟩, t44⟩, ⟨⟨(0 : α), (0 : α), (-(1 : α))⟩, f⟩)
            else
              (⟨⟨t352, t353, t354⟩, t359⟩, ⟨⟨t297, t295, t293⟩, t303⟩, ⟨⟨t336, t337, t338⟩, t343⟩, ⟨⟨t328, t329, t330⟩, t335⟩, ⟨⟨t326, t326, t327⟩, t44⟩, ⟨⟨t83, t83, t84⟩, f⟩)
    else
      if t310 = (0 : α) then
        if t319 = (0 : α) then
          if t325 = (0 : α) then
            if t53 = (0 : α) then
              (⟨⟨t352, t353, t354⟩, t359⟩, ⟨⟨t344, t345, t346⟩, t351⟩, ⟨⟨t309, t307, t305⟩, t315⟩, ⟨⟨t318, t317, t316⟩, t324⟩, ⟨⟨(0 : α), (0 : α), (1 : α)⟩, t44⟩, ⟨⟨(0 : α), (0 : α), (-(1 : α))⟩, f⟩)
            else
              (⟨⟨t352, t353, t354⟩, t359⟩, ⟨⟨t344, t345, t346⟩, t351⟩, ⟨⟨t309, t307, t305⟩, t315⟩, ⟨⟨t318, t317, t316⟩, t324⟩, ⟨⟨(0 : α), (0 : α), (1 : α)⟩, t44⟩, ⟨⟨t83, t83, t84⟩, f⟩)
          else
            if t53 = (0 : α) then
              (⟨⟨t352, t353, t354⟩, t359⟩, ⟨⟨t344, t345, t346⟩, t351⟩, ⟨⟨t309, t307, t305⟩, t315⟩, ⟨⟨t318, t317, t316⟩, t324⟩, ⟨⟨t326, t326, t327⟩, t44⟩, ⟨⟨(0 : α), (0 : α), (-(1 : α))⟩, f⟩)
            else
              (⟨⟨t352, t353, t354⟩, t359⟩, ⟨⟨t344, t345, t346⟩, t351⟩, ⟨⟨t309, t307, t305⟩, t315⟩, ⟨⟨t318, t317, t316⟩, t324⟩, ⟨⟨t326, t326, t327⟩, t44⟩, ⟨⟨t83, t83, t84⟩, f⟩)
        else
          if t325 = (0 : α) then
            if t53 = (0 : α) then
              (⟨⟨t352, t353, t354⟩, t359⟩, ⟨⟨t344, t345, t346⟩, t351⟩, ⟨⟨t309, t307, t305⟩, t315⟩, ⟨⟨t328, t329, t330⟩, t335⟩, ⟨⟨(0 : α), (0 : α), (1 : α)⟩, t44⟩, ⟨⟨(0 : α), (0 : α), (-(1 : α))⟩, f⟩)
            else
              (⟨⟨t352, t353, t354⟩, t359⟩, ⟨⟨t344, t345, t346⟩, t351⟩, ⟨⟨t309, t307, t305⟩, t315⟩, ⟨⟨t328, t329, t330⟩, t335⟩, ⟨⟨(0 : α), (0 : α), (1 : α)⟩, t44⟩, ⟨⟨t83, t83, t84⟩, f⟩)
          else
            if t53 = (0 : α) then
              (⟨⟨t352, t353, t354⟩, t359⟩, ⟨⟨t344, t345, t346⟩, t351⟩, ⟨⟨t309, t307, t305⟩, t315⟩, ⟨⟨t328, t329, t330⟩, t335⟩, ⟨⟨t326, t326, t327⟩, t44⟩, ⟨⟨(0 : α), (0 : α), (-(1 : α))⟩, f⟩)
            else
              (⟨⟨t352, t353, t354⟩, t359⟩, ⟨⟨t344, t345, t346⟩, t351⟩, ⟨⟨t309, t307, t305⟩, t315⟩, ⟨⟨t328, t329, t330⟩, t335⟩, ⟨⟨t326, t326, t327⟩, t44⟩, ⟨⟨t83, t83, t84⟩, f⟩)
      else
        if t319 = (0 : α) then
          if t325 = (0 : α) then
            if t53 = (0 : α) then
              (⟨⟨t352, t353, t354⟩, t359⟩, ⟨⟨t344, t345, t346⟩, t351⟩, ⟨⟨t336, t337, t338⟩, t343⟩, ⟨⟨t318, t317, t316⟩, t324⟩, ⟨⟨(0 : α), (0 : α), (1 : α)⟩, t44⟩, ⟨⟨(0 : α), (0 : α), (-(1 : α))⟩, f⟩)
            else
              (⟨⟨t352, t353, t354⟩, t359⟩, ⟨⟨t344, t345, t346⟩, t351⟩, ⟨⟨t336, t337, t338⟩, t343⟩, ⟨⟨t318, t317, t316⟩, t324⟩, ⟨⟨(0 : α), (0 : α), (1 : α)⟩, t44⟩, ⟨⟨t83, t83, t84⟩, f⟩)
          else
            if t53 = (0 : α) then
              (⟨⟨t352, t353, t354⟩, t359⟩, ⟨⟨t344, t345, t346⟩, t351⟩, ⟨⟨t336, t337, t338⟩, t343⟩, ⟨⟨t318, t317, t316⟩, t324⟩, ⟨⟨t326, t326, t327⟩, t44⟩, ⟨⟨(0 : α), (0 : α), (-(1 : α))⟩, f⟩)
            else
              (⟨⟨t352, t353, t354⟩, t359⟩, ⟨⟨t344, t345, t346⟩, t351⟩, ⟨⟨t336, t337, t338⟩, t343⟩, ⟨⟨t318, t317, t316⟩, t324⟩, ⟨⟨t326, t326, t327⟩, t44⟩, ⟨⟨t83, t83, t84⟩, f⟩)
        else
          if t325 = (0 : α) then
            if t53 = (0 : α) then
              (⟨⟨t352, t353, t354⟩, t359⟩, ⟨⟨t344, t345, t346⟩, t351⟩, ⟨⟨t336, t337, t338⟩, t343⟩, ⟨⟨t328, t329, t330⟩, t335⟩, ⟨⟨(0 : α), (0 : α), (1 : α)⟩, t44⟩, ⟨⟨(0 : α), (0 : α), (-(1 : α))⟩, f⟩)
            else
              (⟨⟨t352, t353, t354⟩, t359⟩, ⟨⟨t344, t345, t346⟩, t351⟩, ⟨⟨t336, t337, t338⟩, t343⟩, ⟨⟨t328, t329, t330⟩, t335⟩, ⟨⟨(0 : α), (0 : α), (1 : α)⟩, t44⟩, ⟨⟨t83, t83, t84⟩, f⟩)
          else
            if t53 = (0 : α) then
              (⟨⟨t352, t353, t354⟩, t359⟩, ⟨⟨t344, t345, t346⟩, t351⟩, ⟨⟨t336, t337, t338⟩, t343⟩, ⟨⟨t328, t329, t330⟩, t335⟩, ⟨⟨t326, t326, t327⟩, t44⟩, ⟨⟨(0 : α), (0 : α), (-(1 : α))⟩, f⟩)
            else
              (⟨⟨t352, t353, t354⟩, t359⟩, ⟨⟨t344, t345, t346⟩, t351⟩, ⟨⟨t336, t337, t338⟩, t343⟩, ⟨⟨t328, t329, t330⟩, t335⟩, ⟨⟨t326, t326, t327⟩, t44⟩, ⟨⟨t83, t83, t84⟩, f⟩)

/-- extracted from the C++ template at T = Sym; 64 path(s) -/
def Frustum.planes_ortho {α : Type} [Add α] [Mul α] [Div α] [Neg α] [LT α] [LE α] [DecidableLT α] [DecidableLE α] [DecidableEq α] [OfNat α 0] [OfNat α 1] [OfNat α 2] (tmin : α) (tmax : α) (sqrt : α → α) (n : α) (f : α) (l : α) (r : α) (t : α) (b : α) : ((Plane3 α) × (Plane3 α) × (Plane3 α) × (Plane3 α) × (Plane3 α) × (Plane3 α)) :=
  let t44 := (-n)
  let t53 := (V3.length tmin tmax sqrt ⟨(0 : α), (0 : α), (-(1 : α))⟩)
  let t83 := ((0 : α) / t53)
  let t84 := ((-(1 : α)) / t53)
  let t325 := (V3.length tmin tmax sqrt ⟨(0 : α), (0 : α), (1 : α)⟩)
  let t326 := ((0 : α) / t325)
  let t327 := ((1 : α) / t325)
  let t360 := (V3.length tmin tmax sqrt ⟨(0 : α), (1 : α), (0 : α)⟩)
  let t361 := (V3.length tmin tmax sqrt ⟨(1 : α), (0 : α), (0 : α)⟩)
  let t362 := (-b)
  let t363 := (V3.length tmin tmax sqrt ⟨(0 : α), (-(1 : α)), (0 : α)⟩)
  let t364 := (-l)
  let t365 := (V3.length tmin tmax sqrt ⟨(-(1 : α)), (0 : α), (0 : α)⟩)
  let t366 := ((-(1 : α)) / t365)
  let t367 := ((0 : α) / t365)
  let t368 := ((0 : α) / t363)
  let t369 := ((-(1 : α)) / t363)
  let t370 := ((1 : α) / t361)
  let t371 := ((0 : α) / t361)
  let t372 := ((0 : α) / t360)
  let t373 := ((1 : α) / t360)
  if t360 = (0 : α) then
    if t361 = (0 : α) then
      if t363 = (0 : α) then
        if t365 = (0 : α) then
          if t325 = (0 : α) then
            if t53 = (0 : α) then
              (⟨⟨(0 : α), (1 : α), (0 : α)⟩, t⟩, ⟨⟨(1 : α), (0 : α), (0 : α)⟩, r⟩, ⟨⟨(0 : α), (-(1 : α)), (0 : α)⟩, t362⟩, ⟨⟨(-(1 : α)), (0 : α), (0 : α)⟩, t364⟩, ⟨⟨(0 : α), (0 : α), (1 : α)⟩, t44⟩, ⟨⟨(0 : α), (0 : α), (-(1 : α))⟩, f⟩)
            else
              (⟨⟨(0 : α), (1 : α), (0 : α)⟩, t⟩, ⟨⟨(1 : α), (0 : α), (0 : α)⟩, r⟩, ⟨⟨(0 : α), (-(1 : α)), (0 : α)⟩, t362⟩, ⟨⟨(-(1 : α)), (0 : α), (0 : α)⟩, t364⟩, ⟨⟨(0 : α), (0 : α), (1 : α)⟩, t44⟩, ⟨⟨t83, t83, t84⟩, f⟩)
          else
            if t53 = (0 : α) then
              (⟨⟨(0 : α), (1 : α), (0 : α)⟩, t⟩, ⟨⟨(1 : α), (0 : α), (0 : α)⟩, r⟩, ⟨⟨(0 : α), (-(1 : α)), (0 : α)⟩, t362⟩, ⟨⟨(-(1 : α)), (0 : α), (0 : α)⟩, t364⟩, ⟨⟨t326, t326, t327⟩, t44⟩, ⟨⟨(0 : α), (0 : α), (-(1 : α))⟩, f⟩)
            else
              (⟨⟨(0 : α), (1 : α), (0 : α)⟩, t⟩, ⟨⟨(1 : α), (0 : α), (0 : α)⟩, r⟩, ⟨⟨(0 : α), (-(1 : α)), (0 : α)⟩, t362⟩, ⟨⟨(-(1 : α)), (0 : α), (0 : α)⟩, t364⟩, ⟨⟨t326, t326, t327⟩, t44⟩, ⟨⟨t83, t83, t84⟩, f⟩)
        else
          if t325 = (0 : α) then
            if t53 = (0 : α) then
              (⟨⟨(0 : α), (1 : α), (0 : α)⟩, t⟩, ⟨⟨(1 : α), (0 : α), (0 : α)⟩, r⟩, ⟨⟨(0 : α), (-(1 : α)), (0 : α)⟩, t362⟩, ⟨⟨t366, t367, t367⟩, t364⟩, ⟨⟨(0 : α), (0 : α), (1 : α)⟩, t44⟩, ⟨⟨(0 : α), (0 : α), (-(1 : α))⟩, f⟩)
            else
              (⟨⟨(0 : α), (1 : α), (0 : α)⟩, t⟩, ⟨⟨(1 : α), (0 : α), (0 : α)⟩, r⟩, ⟨⟨(0 : α), (-(1 : α)), (0 : α)⟩, t362⟩, ⟨⟨t366, t367, t367⟩, t364⟩, ⟨⟨(0 : α), (0 : α), (1 : α)⟩, t44⟩, ⟨⟨t83, t83, t84⟩, f⟩)
          else
            if t53 = (0 : α) then
              (⟨⟨(0 : α), (1 : α), (0 : α)⟩, t⟩, ⟨⟨(1 : α), (0 : α), (0 : α)⟩, r⟩, ⟨⟨(0 : α), (-(1 : α)), (0 : α)⟩, t362⟩, ⟨⟨t366, t367, t367⟩, t364⟩, ⟨⟨t326, t326, t327⟩, t44⟩, ⟨⟨(0 : α), (0 : α), (-(1 : α))⟩, f⟩)
            else
              (⟨⟨(0 : α), (1 : α), (0 : α)⟩, t⟩, ⟨⟨(1 : α), (0 : α), (0 : α)⟩, r⟩, ⟨⟨(0 : α), (-(1 : α)), (0 : α)⟩, t362⟩, ⟨⟨t366, t367, t367⟩, t364⟩, ⟨⟨t326, t326, t327⟩, t44⟩, ⟨⟨t83, t83, t84⟩, f⟩)
      else
        if t365 = (0 : α) then
          if t325 = (0 : α) then
            if t53 = (0 : α) then
              (⟨⟨(0 : α), (1 : α), (0 : α)⟩, t⟩, ⟨⟨(1 : α), (0 : α), (0 : α)⟩, r⟩, ⟨⟨t368, t369, t368⟩, t362⟩, ⟨⟨(-(1 : α)), (0 : α), (0 : α)⟩, t364⟩, ⟨⟨(0 : α), (0 : α), (1 : α)⟩, t44⟩, ⟨⟨(0 : α), (0 : α), (-(1 : α))⟩, f⟩)
            else
              (⟨⟨(0 : α), (1 : α), (0 : α)⟩, t⟩, ⟨⟨(1 : α), (0 : α), (0 : α)⟩, r⟩, ⟨⟨t368, t369, t368⟩, t362⟩, ⟨⟨(-(1 : α)), (0 : α), (0 : α)⟩, t364⟩, ⟨⟨(0 : α), (0 : α), (1 : α)⟩, t44⟩, ⟨⟨t83, t83, t84⟩, f⟩)
          else
            if t53 = (0 : α) then
              (⟨⟨(0 : α), (1 : α), (0 : α)⟩, t⟩, ⟨⟨(1 : α), (0 : α), (0 : α)⟩, r⟩, ⟨⟨t368, t369, t368⟩, t362⟩, ⟨⟨(-(1 : α)), (0 : α), (0 : α)⟩, t364⟩, ⟨⟨t326, t326, t327⟩, t44⟩, ⟨⟨(0 : α), (0 : α), (-(1 : α))⟩, f⟩)
            else
              (⟨⟨(0 : α), (1 : α), (0 : α)⟩, t⟩, ⟨⟨(1 : α), (0 : α), (0 : α)⟩, r⟩, ⟨⟨t368, t369, t368⟩, t362⟩, ⟨⟨(-(1 : α)), (0 : α), (0 : α)⟩, t364⟩, ⟨⟨t326, t326, t327⟩, t44⟩, ⟨⟨t83, t83, t84⟩, f⟩)
        else
          if t325 = (0 : α) then
            if t53 = (0 : α) then
              (⟨⟨(0 : α), (1 : α), (0 : α)⟩, t⟩, ⟨⟨(1 : α), (0 : α), (0 : α)⟩, r⟩, ⟨⟨t368, t369, t368⟩, t362⟩, ⟨⟨t366, t367, t367⟩, t364⟩, ⟨⟨(0 : α), (0 : α), (1 : α)⟩, t44⟩, ⟨⟨(0 : α), (0 : α), (-(1 : α))⟩, f⟩)
            else
              (⟨⟨(0 : α), (1 : α), (0 : α)⟩, t⟩, ⟨⟨(1 : α), (0 : α), (0 : α)⟩, r⟩, ⟨⟨t368, t369, t368⟩, t362⟩, ⟨⟨t366, t367, t367⟩, t364⟩, ⟨⟨(0 : α), (0 : α), (1 : α)⟩, t44⟩, ⟨⟨t83, t83, t84⟩, f⟩)
          else
            if t53 = (0 : α) then
              (⟨⟨(0 : α), (1 : α), (0 : α)⟩, t⟩, ⟨⟨(1 : α), (0 : α), (0 : α)⟩, r⟩, ⟨⟨t368, t369, t368⟩, t362⟩, ⟨⟨t366, t367, t367⟩, t364⟩, ⟨⟨t326, t326, t327⟩, t44⟩, ⟨⟨(0 : α), (0 : α), (-(1 : α))⟩, f⟩)
            else
              (⟨⟨(0 : α), (1 : α), (0 : α)⟩, t⟩, ⟨⟨(1 : α), (0 : α), (0 : α)⟩, r⟩, ⟨⟨t368, t369, t368⟩, t362⟩, ⟨⟨t366, t367, t367⟩, t364⟩, ⟨⟨t326, t326, t327⟩, t44⟩, ⟨⟨t83, t83, t84⟩, f⟩)
    else
      if t363 = (0 : α) then
        if t365 = (0 : α) then
          if t325 = (0 : α) then
            if t53 = (0 : α) then
              (⟨⟨(0 : α), (1 : α), (0 : α)⟩, t⟩, ⟨⟨t370, t371, t371⟩, r⟩, ⟨⟨(0 : α), (-(1 : α)), (0 : α)⟩, t362⟩, ⟨⟨(-(1 : α)), (0 : α), (0 : α)⟩, t364⟩, ⟨⟨(0 : α), (0 : α), (1 : α)⟩, t44⟩, ⟨⟨(0 : α), (0 : α), (-(1 : α))⟩, f⟩)
            else
              (⟨⟨(0 : α), (1 : α), (0 : α)⟩, t⟩, ⟨⟨t370, t371, t371⟩, r⟩, ⟨⟨(0 : α), (-(1 : α)), (0 : α)⟩, t362⟩, ⟨⟨(-(1 : α)), (0 : α), (0 : α)⟩, t364⟩, ⟨⟨(0 : α), (0 : α), (1 : α)⟩, t44⟩, ⟨⟨t83, t83, t84⟩, f⟩)
          else
            if t53 = (0 : α) then
              (⟨⟨(0 : α), (1 : α), (0 : α)⟩, t⟩, ⟨⟨t370, t371, t371⟩, r⟩, ⟨⟨(0 : α), (-(1 : α)), (0 : α)⟩, t362⟩, ⟨⟨(-(1 : α)), (0 : α), (0 : α)⟩, t364⟩, ⟨⟨t326, t326, t327⟩, t44⟩, ⟨⟨(0 : α), (0 : α), (-(1 : α))⟩, f⟩)
            else
              (⟨⟨(0 : α), (1 : α), (0 : α)⟩, t⟩, ⟨⟨t370, t371, t371⟩, r⟩, ⟨⟨(0 : α), (-(1 : α)), (0 : α)⟩, t362⟩, ⟨⟨(-(1 : α)), (0 : α), (0 : α)⟩, t364⟩, ⟨⟨t326, t326, t327⟩, t44⟩, ⟨⟨t83, t83, t84⟩, f⟩)
        else
          if t325 = (0 : α) then
            if t53 = (0 : α) then
              (⟨⟨(0 : α), (1 : α), (0 : α)⟩, t⟩, ⟨⟨t370, t371, t371⟩, r⟩, ⟨⟨(0 : α), (-(1 : α)), (0 : α)⟩, t362⟩, ⟨⟨t366, t367, t367⟩, t364⟩, ⟨⟨(0 : α), (0 : α), (1 : α)⟩, t44⟩, ⟨⟨(0 : α), (0 : α), (-(1 : α))⟩, f⟩)
            else
              (⟨⟨(0 : α), (1 : α), (0 : α)⟩, t⟩, ⟨⟨t370, t371, t371⟩, r⟩, ⟨⟨(0 : α), (-(1 : α)), (0 : α)⟩, t362⟩, ⟨⟨t366, t367, t367⟩, t364⟩, ⟨⟨(0 : α), (0 : α), (1 : α)⟩, t44⟩, ⟨⟨t83, t83, t84⟩, f⟩)
          else
            if t53 = (0 : α) then
              (⟨⟨(0 : α), (1 : α), (0 : α)⟩, t⟩, ⟨⟨t370, t371, t371⟩, r⟩, ⟨⟨(0 : α), (-(1 : α)), (0 : α)⟩, t362⟩, ⟨⟨t366, t367, t367⟩, t364⟩, ⟨⟨t326, t326, t327⟩, t44⟩, ⟨⟨(0 : α), (0 : α), (-(1 : α))⟩, f⟩)
            else
              (⟨⟨(0 : α), (1 : α), (0 : α)⟩, t⟩, ⟨⟨t370, t371, t371⟩, r⟩, ⟨⟨(0 : α), (-(1 : α)), (0 : α)⟩, t362⟩, ⟨⟨t366, t367, t367⟩, t364⟩, ⟨⟨t326, t326, t327⟩, t44⟩, ⟨⟨t83, t83, t84⟩, f⟩)
      else
        if t365 = (0 : α) then
          if t325 = (0 : α) then
            if t53 = (0 : α) then
              (⟨⟨(0 : α), (1 : α), (0 : α)⟩, t⟩, ⟨⟨t370, t371, t371⟩, r⟩, ⟨⟨t368, t369, t368⟩, t362⟩, ⟨⟨(-(1 : α)), (0 : α), (0 : α)⟩, t364⟩, ⟨⟨(0 : α), (0 : α), (1 : α)⟩, t44⟩, ⟨⟨(0 : α), (0 : α), (-(1 : α))⟩, f⟩)
            else
              (⟨⟨(0 : α), (1 : α), (0 : α)⟩, t⟩, ⟨⟨t370, t371, t371⟩, r⟩, ⟨⟨t368, t369, t368⟩, t362⟩, ⟨⟨(-(1 : α)), (0 : α), (0 : α)⟩, t364⟩, ⟨⟨(0 : α), (0 : α), (1 : α)⟩, t44⟩, ⟨⟨t83, t83, t84⟩, f⟩)
          else
            if t53 = (0 : α) then
              (⟨⟨(0 : α), (1 : α), (0 : α)⟩, t⟩, ⟨⟨t370, t371, t371⟩, r⟩, ⟨⟨t368, t369, t368⟩, t362⟩, ⟨⟨(-(1 : α)), (0 : α), (0 : α)⟩, t364⟩, ⟨⟨t326, t326, t327⟩, t44⟩, ⟨⟨(0 : α), (0 : α), (-(1 : α))⟩, f⟩)
            else
              (⟨⟨(0 : α), (1 : α), (0 : α)⟩, t⟩, ⟨⟨t370, t371, t371⟩, r⟩, ⟨⟨t368, t369, t368⟩, t362⟩, ⟨⟨(-(1 : α)), (0 : α), (0 : α)⟩, t364⟩, ⟨⟨t326, t326, t327⟩, t44⟩, ⟨⟨t83, t83, t84⟩, f⟩)
        else
          if t325 = (0 : α) then
            if t53 = (0 : α) then
              (⟨⟨(0 : α), (1 : α), (0 : α)⟩, t⟩, ⟨⟨t370, t371, t371⟩, r⟩, ⟨⟨t368, t369, t368⟩, t362⟩, ⟨⟨t366, t367, t367⟩, t364⟩, ⟨⟨(0 : α), (0 : α), (1 : α)⟩, t44⟩, ⟨⟨(0 : α), (0 : α), (-(1 : α))⟩, f⟩)
            else
              (⟨⟨(0 : α), (1 : α), (0 : α)⟩, t⟩, ⟨⟨t370, t371, t371⟩, r⟩, ⟨⟨t368, t369, t368⟩, t362⟩, ⟨⟨t366, t367, t367⟩, t364⟩, ⟨⟨(0 : α), (0 : α), (1 : α)⟩, t44⟩, ⟨⟨t83, t83, t84⟩, f⟩)
          else
            if t53 = (0 : α) then
              (⟨⟨(0 : α), (1 : α), (0 : α)⟩, t⟩, ⟨⟨t370, t371, t371⟩, r⟩, ⟨⟨t368, t369, t368⟩, t362⟩, ⟨⟨t366, t367, t367⟩, t364⟩, ⟨⟨t326, t326, t327⟩, t44⟩, ⟨⟨(0 : α), (0 : α), (-(1 : α))⟩, f⟩)
            else
              (⟨⟨(0 : α), (1 : α), (0 : α)⟩, t⟩, ⟨⟨t370, t371, t371⟩, r⟩, ⟨⟨t368, t369, t368⟩, t362⟩, ⟨⟨t366, t367, t367⟩, t364⟩, ⟨⟨t326, t326, t327⟩, t44⟩, ⟨⟨t83, t83, t84⟩, f⟩)
  else
    if t361 = (0 : α) then
      if t363 = (0 : α) then
        if t365 = (0 : α) then
          if t325 = (0 : α) then
            if t53 = (0 : α) then
              (⟨⟨t372, t373, t372⟩, t⟩, ⟨⟨(1 : α), (0 : α), (0 : α)⟩, r⟩, ⟨⟨(0 : α), (-(1 : α)), (0 : α)⟩, t362⟩, ⟨⟨(-(1 : α)), (0 : α), (0 : α)⟩, t364⟩, ⟨⟨(0 : α), (0 : α), (1 : α)⟩, t44⟩, ⟨⟨(0 : α), (0 : α), (-(1 : α))⟩, f⟩)
            else
              (⟨⟨t372, t373, t372⟩, t⟩, ⟨⟨(1 : α), (0 : α), (0 : α)⟩, r⟩, ⟨⟨(0 : α), (-(1 : α)), (0 : α)⟩, t362⟩, ⟨⟨(-(1 : α)), (0 : α), (0 : α)⟩, t364⟩, ⟨⟨(0 : α), (0 : α), (1 : α)⟩, t44⟩, ⟨⟨t83, t83, t84⟩, f⟩)
          else
            if t53 = (0 : α) then
              (⟨⟨t372, t373, t372⟩, t⟩, ⟨⟨(1 : α), (0 : α), (0 : α)⟩, r⟩, ⟨⟨(0 : α), (-(1 : α)), (0 : α)⟩, t362⟩, ⟨⟨(-(1 : α)), (0 : α), (0 : α)⟩, t364⟩, ⟨⟨t326, t326, t327⟩, t44⟩, ⟨⟨(0 : α), (0 : α), (-(1 : α))⟩, f⟩)
            else
              (⟨⟨t372, t373, t372⟩, t⟩, ⟨⟨(1 : α), (0 : α), (0 : α)⟩, r⟩, ⟨⟨(0 : α), (-(1 : α)), (0 : α)⟩, t362⟩, ⟨⟨(-(1 : α)), (0 : α), (0 : α)⟩, t364⟩, ⟨⟨t326, t326, t327⟩, t44⟩, ⟨⟨t83, t83, t84⟩, f⟩)
        else
          if t325 = (0 : α) then
            if t53 = (0 : α) then
              (⟨⟨t372, t373, t372⟩, t⟩, ⟨⟨(1 : α), (0 : α), (0 : α)⟩, r⟩, ⟨⟨(0 : α), (-(1 : α)), (0 : α)⟩, t362⟩, ⟨⟨t366, t367, t367⟩, t364⟩, ⟨⟨(0 : α), (0 : α), (1 : α)⟩, t44⟩, ⟨⟨(0 : α), (0 : α), (-(1 : α))⟩, f⟩)
            else
              (⟨⟨t372, t373, t372⟩, t⟩, ⟨⟨(1 : α), (0 : α), (0 : α)⟩, r⟩, ⟨⟨(0 : α), (-(1 : α)), (0 : α)⟩, t362⟩, ⟨⟨t366, t367, t367⟩, t364⟩, ⟨⟨(0 : α), (0 : α), (1 : α)⟩, t44⟩, ⟨⟨t83, t83, t84⟩, f⟩)
          else
            if t53 = (0 : α) then
              (⟨⟨t372, t373, t372⟩, t⟩, ⟨⟨(1 : α), (0 : α), (0 : α)⟩, r⟩, ⟨⟨(0 : α), (-(1 : α)), (0 : α)⟩, t362⟩, ⟨⟨t366, t367, t367⟩, t364⟩, ⟨⟨t326, t326, t327⟩, t44⟩, ⟨⟨(0 : α), (0 : α), (-(1 : α))⟩, f⟩)
            else
              (⟨⟨t372, t373, t372⟩, t⟩, ⟨⟨(1 : α), (0 : α), (0 : α)⟩, r⟩, ⟨⟨(0 : α), (-(1 : α)), (0 : α)⟩, t362⟩, ⟨⟨t366, t367, t367⟩, t364⟩, ⟨⟨t326, t326, t327⟩, t44⟩, ⟨⟨t83, t83, t84⟩, f⟩)
      else
        if t365 = (0 : α) then
          if t325 = (0 : α) then
            if t53 = (0 : α) then
              (⟨⟨t372, t373, t372⟩, t⟩, ⟨⟨(1 : α), (0 : α), (0 : α)⟩, r⟩, ⟨⟨t368, t369, t368⟩, t362⟩, ⟨⟨(-(1 : α)), (0 : α), (0 : α)⟩, t364⟩, ⟨⟨(0 : α), (0 : α), (1 : α)⟩, t44⟩, ⟨⟨(0 : α), (0 : α), (-(1 : α))⟩, f⟩)
            else
              (⟨⟨t372, t373, t372⟩, t⟩, ⟨⟨(1 : α), (0 : α), (0 : α)⟩, r⟩, ⟨⟨t368, t369, t368⟩, t362⟩, ⟨⟨(-(1 : α)), (0 : α), (0 : α)⟩, t364⟩, ⟨⟨(0 : α), (0 : α), (1 : α)⟩, t44⟩, ⟨⟨t83, t83, t84⟩, f⟩)
          else
            if t53 = (0 : α) then
              (⟨⟨t372, t373, t372⟩, t⟩, ⟨⟨(1 : α), (0 : α), (0 : α)⟩, r⟩, ⟨⟨t368, t369, t368⟩, t362⟩, ⟨⟨(-(1 : α)), (0 : α), (0 : α)⟩, t364⟩, ⟨⟨t326, t326, t327⟩, t44⟩, ⟨⟨(0 : α), (0 : α), (-(1 : α))⟩, f⟩)
            else
              (⟨⟨t372, t373, t372⟩, t⟩, ⟨⟨(1 : α), (0 : α), (0 : α)⟩, r⟩, ⟨⟨t368, t369, t368⟩, t362⟩, ⟨⟨(-(1 : α)), (0 : α), (0 : α)⟩, t364⟩, ⟨⟨t326, t326, t327⟩, t44⟩, ⟨⟨t83, t83, t84⟩, f⟩)
        else
          if t325 = (0 : α) then
            if t53 = (0 : α) then
              (⟨⟨t372, t373, t372⟩, t⟩, ⟨⟨(1 : α), (0 : α), (0 : α)⟩, r⟩, ⟨⟨t368, t369, t368⟩, t362⟩, ⟨⟨t366, t367, t367⟩, t364⟩, ⟨⟨(0 : α), (0 : α), (1 : α)⟩, t44⟩, ⟨⟨(0 : α), (0 : α), (-(1 : α))⟩, f⟩)
            else
              (⟨⟨t372, t373, t372⟩, t⟩, ⟨⟨(1 : α), (0 : α), (0 : α)⟩, r⟩, ⟨⟨t368, t369, t368⟩, t362⟩, ⟨⟨t366, t367, t367⟩, t364⟩, ⟨⟨(0 : α), (0 : α), (1 : α)⟩, t44⟩, ⟨⟨t83, t83, t84⟩, f⟩)
          else
            if t53 = (0 : α) then
              (⟨⟨t372, t373, t372⟩, t⟩, ⟨⟨(1 : α), (0 : α), (0 : α)⟩, r⟩, ⟨⟨t368, t369, t368⟩, t362⟩, ⟨⟨t366, t367, t367⟩, t364⟩, ⟨⟨t326, t326, t327⟩, t44⟩, ⟨⟨(0 : α), (0 : α), (-(1 : α))⟩, f⟩)
            else
              (⟨⟨t372, t373, t372⟩, t⟩, ⟨⟨(1 : α), (0 : α), (0 : α)⟩, r⟩, ⟨⟨t368, t369, t368⟩, t362⟩, ⟨⟨t366, t367, t367⟩, t364⟩, ⟨⟨t326, t326, t327⟩, t44⟩, ⟨⟨t83, t83, t84⟩, f⟩)
    else
      if t363 = (0 : α) then
        if t365 = (0 : α) then
          if t325 = (0 : α) then
            if t53 = (0 : α) then
              (⟨⟨t372, t373, t372⟩, t⟩, ⟨⟨t370, t371, t371⟩, r⟩, ⟨⟨(0 : α), (-(1 : α)), (0 : α)⟩, t362⟩, ⟨⟨(-(1 : α)), (0 : α), (0 : α)⟩, t364⟩, ⟨⟨(0 : α), (0 : α), (1 : α)⟩, t44⟩, ⟨⟨(0 : α), (0 : α), (-(1 : α))⟩, f⟩)
            else
              (⟨⟨t372, t373, t372⟩, t⟩, ⟨⟨t370, t371, t371⟩, r⟩, ⟨⟨(0 : α), (-(1 : α)), (0 : α)⟩, t362⟩, ⟨⟨(-(1 : α)), (0 : α), (0 : α)⟩, t364⟩, ⟨⟨(0 : α), (0 : α), (1 : α)⟩, t44⟩, ⟨⟨t83, t83, t84⟩, f⟩)
          else
            if t53 = (0 : α) then
              (⟨⟨t372, t373, t372⟩, t⟩, ⟨⟨t370, t371, t371⟩, r⟩, ⟨⟨(0 : α), (-(1 : α)), (0 : α)⟩, t362⟩, ⟨⟨(-(1 : α)), (0 : α), (0 : α)⟩, t364⟩, ⟨⟨t326, t326, t327⟩, t44⟩, ⟨⟨(0 : α), (0 : α), (-(1 : α))⟩, f⟩)
            else
              (⟨⟨t372, t373, t372⟩, t⟩, ⟨⟨t370, t371, t371⟩, r⟩, ⟨⟨(0 : α), (-(1 : α)), (0 : α)⟩, t362⟩, ⟨⟨(-(1 : α)), (0 : α), (0 : α)⟩, t364⟩, ⟨⟨t326, t326, t327⟩, t44⟩, ⟨⟨t83, t83, t84⟩, f⟩)
        else
          if t325 = (0 : α) then
            if t53 = (0 : α) then
              (⟨⟨t372, t373, t372⟩, t⟩, ⟨⟨t370, t371, t371⟩, r⟩, ⟨⟨(0 : α), (-(1 : α)), (0 : α)⟩, t362⟩, ⟨⟨t366, t367, t367⟩, t364⟩, ⟨⟨(0 : α), (0 : α), (1 : α)⟩, t44⟩, ⟨⟨(0 : α), (0 : α), (-(1 : α))⟩, f⟩)
            else
              (⟨⟨t372, t373, t372⟩, t⟩, ⟨⟨t370, t371, t371⟩, r⟩, ⟨⟨(0 : α), (-(1 : α)), (0 : α)⟩, t362⟩, ⟨⟨t366, t367, t367⟩, t364⟩, ⟨⟨(0 : α), (0 : α), (1 : α)⟩, t44⟩, ⟨⟨t83, t83, t84⟩, f⟩)
          else
            if t53 = (0 : α) then
              (⟨⟨t372, t373, t372⟩, t⟩, ⟨⟨t370, t371, t371⟩, r⟩, ⟨⟨(0 : α), (-(1 : α)), (0 : α)⟩, t362⟩, ⟨⟨t366, t367, t367⟩, t364⟩, ⟨⟨t326, t326, t327⟩, t44⟩, ⟨⟨(0 : α), (0 : α), (-(1 : α))⟩, f⟩)
            else
              (⟨⟨t372, t373, t372⟩, t⟩, ⟨⟨t370, t371, t371⟩, r⟩, ⟨⟨(0 : α), (-(1 : α)), (0 : α)⟩, t362⟩, ⟨⟨t366, t367, t367⟩, t364⟩, ⟨⟨t326, t326, t327⟩, t44⟩, ⟨⟨t83, t83, t84⟩, f⟩)
      else
        if t365 = (0 : α) then
          if t325 = (0 : α) then
            if t53 = (0 : α) then
              (⟨⟨t372, t373, t372⟩, t⟩, ⟨⟨t370, t371, t371⟩, r⟩, ⟨⟨t368, t369, t368⟩, t362⟩, ⟨⟨(-(1 : α)), (0 : α), (0 : α)⟩, t364⟩, ⟨⟨(0 : α), (0 : α), (1 : α)⟩, t44⟩, ⟨⟨(0 : α), (0 : α), (-(1 : α))⟩, f⟩)
            else
              (⟨⟨t372, t373, t372⟩, t⟩, ⟨⟨t370, t371, t371⟩, r⟩, ⟨⟨t368, t369, t368⟩, t362⟩, ⟨⟨(-(1 : α)), (0 : α), (0 : α)⟩, t364⟩, ⟨⟨(0 : α), (0 : α), (1 : α)⟩, t44⟩, ⟨⟨t83, t83, t84⟩, f⟩)
          else
            if t53 = (0 : α) then
              (⟨⟨t372, t373, t372⟩, t⟩, ⟨⟨t370, t371, t371⟩, r⟩, ⟨⟨t368, t369, t368⟩, t362⟩, ⟨⟨(-(1 : α)), (0 : α), (0 : α)⟩, t364⟩, ⟨⟨t326, t326, t327⟩, t44⟩, ⟨⟨(0 : α), (0 : α), (-(1 : α))⟩, f⟩)
            else
              (⟨⟨t372, t373, t372⟩, t⟩, ⟨⟨t370, t371, t371⟩, r⟩, ⟨⟨t368, t369, t368⟩, t362⟩, ⟨⟨(-(1 : α)), (0 : α), (0 : α)⟩, t364⟩, ⟨⟨t326, t326, t327⟩, t44⟩, ⟨⟨t83, t83, t84⟩, f⟩)
        else
          if t325 = (0 : α) then
            if t53 = (0 : α) then
              (⟨⟨t372, t373, t372⟩, t⟩, ⟨⟨t370, t371, t371⟩, r⟩, ⟨⟨t368, t369, t368⟩, t362⟩, ⟨⟨t366, t367, t367⟩, t364⟩, ⟨⟨(0 : α), (0 : α), (1 : α)⟩, t44⟩, ⟨⟨(0 : α), (0 : α), (-(1 : α))⟩, f⟩)
            else
              (⟨⟨t372, t373, t372⟩, t⟩, ⟨⟨t370, t371, t371⟩, r⟩, ⟨⟨t368, t369, t368⟩, t362⟩, ⟨⟨t366, t367, t367⟩, t364⟩, ⟨⟨(0 : α), (0 : α), (1 : α)⟩, t44⟩, ⟨⟨t83, t83, t84⟩, f⟩)
          else
            if t53 = (0 : α) then
              (⟨⟨t372, t373, t372⟩, t⟩, ⟨⟨t370, t371, t371⟩, r⟩, ⟨⟨t368, t369, t368⟩, t362⟩, ⟨⟨t366, t367, t367⟩, t364⟩, ⟨⟨t326, t326, t327⟩, t44⟩, ⟨⟨(0 : α), (0 : α), (-(1 : α))⟩, f⟩)
            else
              (⟨⟨t372, t373, t372⟩, t⟩, ⟨⟨t370, t371, t371⟩, r⟩, ⟨⟨t368, t369, t368⟩, t362⟩, ⟨⟨t366, t367, t367⟩, t364⟩, ⟨⟨t326, t326, t327⟩, t44⟩, ⟨⟨t83, t83, t84⟩, f⟩)

end ImathVerif.Gen
